(* C07, the sites repaired by the /repo fixes 13-16 (outside the single-file front end of Proofs/C07.v):

   - visitors.rs:401 (multi-file mode): ItemUseIter skips a `use` leaf that has no leading path segment.
     The model of the iterator (Model/MultiFile.v item_use_iter) has NO partial operation any more, and its
     fuel suffices: parse_import is TOTAL for every use tree; with the panic-freedom of the item parsers
     (Proofs/C07.v) the multi-file visitor, parser::parse with multi_file = true and the whole workspace
     parse always return.
   - go.rs:315: the receiver name of a tagged enum is its first CHARACTER lower-cased (char::to_lowercase),
     "" for an empty name: a value, not a partial operation.
   - kotlin.rs:183 / swift.rs:268: write_const returns Err(Unsupported) naming the constant.
   - scala.rs:131: begin_file returns Err(InvalidInput) exactly for the empty package.

   Each former witness is pinned (vm_compute) with what it yields now. *)
From Coq Require Import String List Lia.
From TS Require Import Model.Str Model.Outcome Model.Unicode Model.Syntax Model.Attrs Model.TargetOs
                       Model.Rename Model.Types Model.Parse Model.Collect Model.MultiFile
                       Model.Lang.Common Model.Lang.Kotlin Model.Lang.Swift Model.Lang.Scala Model.Lang.Go.
From TS Require Import Proofs.FrontItems Proofs.C07.
Import ListNotations.
Local Open Scope N_scope.

(* ====================================================================================== *)
(* ItemUseIter is total                                                                     *)
(* ====================================================================================== *)
Definition stack_size (l : list use_tree) : nat := fold_right (fun t n => (use_tree_size t + n)%nat) O l.

Lemma use_tree_size_pos t : (1 <= use_tree_size t)%nat.
Proof. destruct t; cbn [use_tree_size]; lia. Qed.

Lemma stack_size_app a b : stack_size (a ++ b) = (stack_size a + stack_size b)%nat.
Proof. induction a as [|x a IH]; [reflexivity|]. cbn [app stack_size fold_right] in *. fold (stack_size (a ++ b)). fold (stack_size a). rewrite IH. lia. Qed.

Lemma stack_size_rev a : stack_size (rev a) = stack_size a.
Proof.
  induction a as [|x a IH]; [reflexivity|]. cbn [rev]. rewrite stack_size_app, IH. cbn [stack_size fold_right]. fold (stack_size a). lia.
Qed.

Lemma group_size l : use_tree_size (UGroup l) = S (stack_size l).
Proof. reflexivity. Qed.

Section Iter.
Variable uc : unicode.
Variable own : str.

(* every step pops one tree and pushes its children: the total size of the stack drops by one *)
Lemma use_iter_total fuel : forall stack bn, (stack_size stack <= fuel)%nat ->
  exists found, item_use_iter uc fuel own stack bn = Ok found.
Proof.
  induction fuel as [|fuel IH]; intros stack bn Hs.
  - destruct stack as [|t rest]; [exists []; reflexivity|].
    cbn [stack_size fold_right] in Hs. pose proof (use_tree_size_pos t). lia.
  - destruct stack as [|t rest]; [exists []; reflexivity|].
    cbn [stack_size fold_right] in Hs. fold (stack_size rest) in Hs. cbn [item_use_iter].
    destruct t as [id sub|id|id al| |items].
    + apply IH. cbn [stack_size fold_right use_tree_size] in *. fold (stack_size rest). lia.
    + cbn [use_tree_size] in Hs. destruct bn as [b|]; [|apply IH; lia].
      destruct (IH rest (Some b) ltac:(lia)) as [more ->]. cbn [bind]. eauto.
    + cbn [use_tree_size] in Hs. apply IH. lia.
    + cbn [use_tree_size] in Hs. destruct bn as [b|]; [|apply IH; lia].
      destruct (IH rest (Some b) ltac:(lia)) as [more ->]. cbn [bind]. eauto.
    + apply IH. rewrite group_size in Hs. rewrite stack_size_app, stack_size_rev. lia.
Qed.

Theorem parse_import_total t : exists found, parse_import uc own t = Ok found.
Proof. unfold parse_import. apply use_iter_total. cbn [stack_size fold_right]. lia. Qed.

Theorem parse_import_never_panics t : is_panic (parse_import uc own t) = false.
Proof. destruct (parse_import_total t) as [found ->]. reflexivity. Qed.

(* a leaf met before any path segment contributes nothing (the `continue` of the fix) *)
Lemma use_iter_skip_name fuel id rest : item_use_iter uc (S fuel) own (UName id :: rest) None = item_use_iter uc fuel own rest None.
Proof. reflexivity. Qed.
Lemma use_iter_skip_glob fuel rest : item_use_iter uc (S fuel) own (UGlob :: rest) None = item_use_iter uc fuel own rest None.
Proof. reflexivity. Qed.
End Iter.

(* ====================================================================================== *)
(* the multi-file visitor, parser::parse (multi_file = true), the workspace                 *)
(* ====================================================================================== *)
Section Multi.
Variable uc : unicode.
Variable tstr : str -> option ty.
Variable T : list str.
Variable own : str.
Variable ign : list str.

Lemma visit_item_total it pd : exists pd', visit_item uc tstr T it pd = Ok pd'.
Proof.
  destruct (visit_items_total uc tstr T [it] pd) as [pd' H]. cbn [visit_items] in H.
  destruct (visit_item uc tstr T it pd) as [p| |]; cbn [bind] in H; try discriminate. eauto.
Qed.

Lemma visit_item_multi_total it : forall pd, exists pd', visit_item_multi uc tstr T own ign it pd = Ok pd'.
Proof.
  induction it as [a i g fs|a i g vs|a i g t|a i t e|u|inner IH] using item_ind'; intros pd.
  1-4: apply visit_item_total.
  - cbn [visit_item_multi]. destruct (parse_import_total uc own u) as [found ->]. cbn [bind]. eauto.
  - cbn [visit_item_multi]. revert pd. induction IH as [|x r Hx _ IHr]; intros pd; [eauto|].
    destruct (Hx pd) as [p1 ->]. cbn [bind]. apply IHr.
Qed.

Theorem visit_items_multi_total l : forall pd, exists pd', visit_items_multi uc tstr T own ign l pd = Ok pd'.
Proof.
  induction l as [|x r IH]; intros pd.
  - cbn [visit_items_multi]. eauto.
  - cbn [visit_items_multi]. destruct (visit_item_multi_total x pd) as [p1 ->]. cbn [bind]. apply IH.
Qed.

Theorem parse_file_multi_total ho_file f : exists r, parse_file_multi uc tstr T own ign ho_file f = Ok r.
Proof.
  unfold parse_file_multi. destruct (negb (fl_marker f)); [eauto|].
  destruct (accepts T (fl_attrs f)); cbn [bind]; [|eauto].
  destruct (visit_items_multi_total (fl_items f) empty_parsed) as [pd ->]. cbn [bind]. eauto.
Qed.

Theorem parse_file_multi_never_panics ho_file f : is_panic (parse_file_multi uc tstr T own ign ho_file f) = false.
Proof. destruct (parse_file_multi_total ho_file f) as [r ->]. reflexivity. Qed.
End Multi.

(* every file of the workspace parses (syn errors are outside the model: a ws_entry carries an AST) *)
Theorem parse_workspace_total uc T ign ho_file ws : exists arrivals, parse_workspace uc T ign ho_file ws = Ok arrivals.
Proof.
  induction ws as [|e r [rest IH]]; [eexists; reflexivity|]. cbn [parse_workspace].
  destruct (find_crate_name (we_path e)) as [cn|]; [|eauto].
  destruct (parse_file_multi_total uc (we_tstr e) T cn ign ho_file (we_file e)) as [o ->]. cbn [bind]. rewrite IH. cbn [bind]. eauto.
Qed.

(* ====================================================================================== *)
(* regression pins: visitors.rs:401                                                         *)
(* ====================================================================================== *)
Definition w_own : str := lit "mycrate".
Definition w_imp (c n : string) : imported := {| base_crate := lit c; type_name := lit n |}.

(* use foo;   use ::foo;   use {a, b};   use *;   use r#type;   - nothing imported, no panic *)
Lemma C07_visitors_401_fixed :
  parse_import uc_exec w_own (UName (lit "foo")) = Ok [] /\
  parse_import uc_exec w_own (UGroup [UName (lit "a"); UName (lit "b")]) = Ok [] /\
  parse_import uc_exec w_own UGlob = Ok [] /\
  parse_import uc_exec w_own (UGroup [UGroup [UName (lit "Foo")]; UGlob; URename (lit "a") (lit "b")]) = Ok [].
Proof. vm_compute. repeat split. Qed.

(* a leaf WITH a path is still found next to one without: use {c, a::B};  (LIFO: a::B is popped first and fixes the base name) *)
Lemma C07_visitors_401_fixed_keeps_paths :
  parse_import uc_exec w_own (UGroup [UPath (lit "a") (UName (lit "B")); UName (lit "c")]) = Ok [w_imp "a" "B"] /\
  parse_import uc_exec w_own (UPath (lit "other_crate") (UGroup [UName (lit "Thing"); UPath (lit "sub") UGlob])) =
    Ok [w_imp "other_crate" "*"; w_imp "other_crate" "Thing"].
Proof. vm_compute. repeat split. Qed.

(* the witness file: `use foo;` next to an annotated struct parses in multi-file mode to the struct alone *)
Definition w_use_file : file :=
  {| fl_marker := true; fl_attrs := [];
     fl_items := [IUse (UName (lit "foo")); st1 [] (fld [] (lit "a") t_u8)];
     fl_paths := [] |}.
Lemma C07_visitors_401_fixed_file :
  match parse_file_multi uc_exec no_tstr [] w_own [] (fun l => l) w_use_file with
  | Ok (Some pd) => List.length (p_structs pd) = 1%nat /\ p_errors pd = [] /\ p_imports pd = []
  | _ => False
  end.
Proof. vm_compute. repeat split. Qed.

(* ====================================================================================== *)
(* go.rs:315: the receiver name                                                             *)
(* ====================================================================================== *)
Lemma mbind_ok_inv {St A B} (m : M St A) (f : A -> M St B) s r :
  mbind m f s = Ok r -> exists a s1, m s = Ok (a, s1) /\ f a s1 = Ok r.
Proof. unfold mbind. destruct (m s) as [[a s1]| |]; [eauto|discriminate|discriminate]. Qed.

Definition go_short_spec (uc : unicode) (name : str) : str := match name with [] => [] | c :: _ => u_lower uc c end.

(* whenever a tagged enum is generated, its receiver is the first character of the Rust name, lower-cased *)
Theorem go_short_value uc cfg custom tag content sh s ds s' :
  go_enum_decls_of uc cfg custom (EAlgebraic tag content sh) s = Ok (ds, s') ->
  exists anon t, ds = anon ++ [GOTagged t] /\ gt_short t = go_short_spec uc (original (eid sh)).
Proof.
  unfold go_enum_decls_of. cbn [enum_shared]. intros H.
  apply mbind_ok_inv in H as (anon & s1 & _ & H). apply mbind_ok_inv in H as (sn & s2 & _ & H).
  apply mbind_ok_inv in H as (cf & s3 & _ & H). apply mbind_ok_inv in H as (tf & s4 & _ & H).
  apply mbind_ok_inv in H as (short & s5 & Hs & H). apply mbind_ok_inv in H as (ta & s6 & _ & H).
  apply mbind_ok_inv in H as (vs & s7 & _ & H). unfold ret in H, Hs. injection H as <- _. injection Hs as <- _.
  eexists _, _. split; [reflexivity|]. reflexivity.
Qed.

(* for an ASCII first character it is the ASCII lower-case letter (what original[..1].to_lowercase() gave) *)
Lemma go_short_ascii uc c r : unicode_ok uc -> c < 128 -> go_short_spec uc (c :: r) = [alower c].
Proof. intros Huc Hc. cbn [go_short_spec]. exact (ok_to_lower uc Huc c Hc). Qed.

Definition w_go_cfg : go_config :=
  {| go_package := lit "p"; go_type_mappings := []; go_uppercase_acronyms := []; go_no_version_header := true;
     go_no_pointer_slice := false; go_version := [] |}.
Definition w_id (n : str) : id := {| original := n; renamed := n; via_serde_rename := false |}.
Definition w_tagged (name : str) : renum :=
  EAlgebraic (lit "t") (lit "c")
    {| eid := w_id name; egenerics := []; ecomments := [];
       evariants := [VTuple (RPrim PU8) {| vid := w_id (lit "V"); vcomments := [] |}];
       edecs := []; erecursive := false; eredacted := false |}.
Definition w_go_short (name : str) : option str :=
  match go_enum_decls_of uc_exec w_go_cfg [] (w_tagged name) [] with
  | Ok ([GOTagged t], _) => Some (gt_short t)
  | _ => None
  end.
Definition w_pd (e : renum) : parsed :=
  {| p_structs := []; p_enums := [e]; p_aliases := []; p_consts := []; p_type_names := []; p_errors := []; p_imports := [] |}.

(* enum Étoile { V(u8) } (tag, content) --lang go: was a panic at go.rs:315; the receiver is é.  İx -> i + U+0307 (to_lowercase
   expands), ǅx -> ǆ, 中 -> 中, Plain -> p, and the whole file is generated *)
Lemma C07_go_315_fixed :
  w_go_short (201 :: lit "toile") = Some [233] /\
  w_go_short (304 :: lit "x") = Some [105; 775] /\
  w_go_short (453 :: lit "x") = Some [454] /\
  w_go_short [20013] = Some [20013] /\
  w_go_short (lit "Plain") = Some (lit "p") /\
  w_go_short [] = Some [] /\
  is_ok (go_generate uc_exec w_go_cfg (w_pd (w_tagged (201 :: lit "toile")))) = true.
Proof. vm_compute. repeat split. Qed.

(* ====================================================================================== *)
(* kotlin.rs:183, swift.rs:268: write_const                                                 *)
(* ====================================================================================== *)
Theorem kt_const_is_error cfg c : kt_decl_of cfg (ItConst c) = Err (EConstUnsupported (original (cid c))).
Proof. reflexivity. Qed.

Theorem sw_const_is_error uc cfg c st : sw_decl_of uc cfg (ItConst c) st = Err (EConstUnsupported (original (cid c))).
Proof. reflexivity. Qed.

Definition w_kt_cfg : kt_config :=
  {| kt_package := lit "p"; kt_module_name := []; kt_prefix := []; kt_type_mappings := []; kt_no_version_header := true; kt_version := [] |}.
Definition w_sw_cfg : sw_config :=
  {| sw_prefix := []; sw_type_mappings := []; sw_default_decorators := []; sw_default_generic_constraints := [];
     sw_codablevoid_constraints := []; sw_no_version_header := true; sw_version := [] |}.
Definition w_const_pd : parsed :=
  {| p_structs := []; p_enums := []; p_aliases := []; p_consts := [{| cid := w_id (lit "X"); ctype := RPrim PU32; cvalue := Zpos 5 |}];
     p_type_names := []; p_errors := []; p_imports := [] |}.

(* #[typeshare] const X: u32 = 5;  --lang kotlin / swift: was todo!() (exit 101); now the generation error naming X *)
Lemma C07_kotlin_183_fixed : kt_generate uc_exec w_kt_cfg w_const_pd = Err (EConstUnsupported (lit "X")).
Proof. vm_compute. reflexivity. Qed.
Lemma C07_swift_268_fixed : sw_generate uc_exec w_sw_cfg w_const_pd = Err (EConstUnsupported (lit "X")).
Proof. vm_compute. reflexivity. Qed.

(* ====================================================================================== *)
(* scala.rs:131: begin_file                                                                 *)
(* ====================================================================================== *)
Theorem sc_begin_file_error_iff cfg :
  (sc_package cfg = [] -> sc_begin_file cfg = Err EPackageRequired) /\
  (sc_package cfg <> [] -> is_ok (sc_begin_file cfg) = true).
Proof. unfold sc_begin_file. destruct (sc_package cfg); split; intros H; try reflexivity; congruence. Qed.

(* without a package nothing is generated, whatever the items: the configuration error comes first *)
Theorem sc_no_package_is_error uc cfg pd : sc_package cfg = [] -> sc_generate uc cfg pd = Err EPackageRequired.
Proof. intros H. unfold sc_generate. rewrite (proj1 (sc_begin_file_error_iff cfg) H). reflexivity. Qed.

Definition w_sc_cfg (pkg : str) : sc_config :=
  {| sc_package := pkg; sc_module_name := []; sc_type_mappings := []; sc_no_version_header := true; sc_version := [] |}.
Definition w_struct_pd : parsed :=
  {| p_structs := [{| sid := w_id (lit "S"); sgenerics := [];
                      sfields := [{| fid := w_id (lit "a"); fty := RPrim PU8; fcomments := []; has_default := false; fdecs := [] |}];
                      scomments := []; sdecs := []; sredacted := false |}];
     p_enums := []; p_aliases := []; p_consts := []; p_type_names := []; p_errors := []; p_imports := [] |}.

(* #[typeshare] struct S { a: u8 }  --lang scala without --scala-package: was panic!("package name must be provided") *)
Lemma C07_scala_131_fixed :
  sc_generate uc_exec (w_sc_cfg []) w_struct_pd = Err EPackageRequired /\
  is_ok (sc_generate uc_exec (w_sc_cfg (lit "p")) w_struct_pd) = true.
Proof. vm_compute. split; reflexivity. Qed.
