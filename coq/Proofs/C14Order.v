(* C14: the import list used_imports builds is a function of the SET of imports it iterates over - as a value
   (BTreeMap<&CrateName, BTreeSet<&str>>: keys in order, every set in order), not only as a set of pairs.
   Two iteration orders of the per-crate HashSet<ImportedType> therefore give the same import statements, byte for
   byte (entries with an empty set included).  Before the /repo fix of mod.rs:472 this was false: finding
   C14-glob-order. *)
From Coq Require Import List Bool Sorted String.
From TS Require Import Model.Str Model.Parse Model.MultiFile.
From TS Require Import Proofs.SortLemmas Proofs.C14 Proofs.C14Front Proofs.C14Imports.
Import ListNotations.

(* ---------- sorted duplicate-free lists are determined by their elements ---------- *)
Lemma lt_str_irrefl a : ~ lt_str a a.
Proof. unfold lt_str. now rewrite str_ltb_irrefl. Qed.

Lemma sorted_ext (l1 : list str) : forall l2, StronglySorted lt_str l1 -> StronglySorted lt_str l2 ->
  (forall x, In x l1 <-> In x l2) -> l1 = l2.
Proof.
  induction l1 as [|a l1 IH]; intros l2 S1 S2 E.
  - destruct l2 as [|b l2]; [reflexivity|]. exfalso. apply (proj2 (E b)). now left.
  - destruct l2 as [|b l2]; [exfalso; apply (proj1 (E a)); now left|].
    apply StronglySorted_inv in S1 as [S1 A1]. apply StronglySorted_inv in S2 as [S2 A2].
    rewrite Forall_forall in A1, A2.
    assert (a = b) as ->.
    { destruct (proj1 (E a) (or_introl eq_refl)) as [->|Ha]; [reflexivity|].
      destruct (proj2 (E b) (or_introl eq_refl)) as [->|Hb]; [reflexivity|].
      exfalso. apply (lt_str_irrefl a). unfold lt_str. eapply str_ltb_trans; [apply (A1 b Hb)|apply (A2 a Ha)]. }
    f_equal. apply IH; [exact S1|exact S2|]. intros x. split; intros Hx.
    + destruct (proj1 (E x) (or_intror Hx)) as [<-|H]; [|exact H]. exfalso. exact (lt_str_irrefl _ (A1 _ Hx)).
    + destruct (proj2 (E x) (or_intror Hx)) as [<-|H]; [|exact H]. exfalso. exact (lt_str_irrefl _ (A2 _ Hx)).
Qed.

(* ---------- BTreeSet: sset_insert keeps the order ---------- *)
Lemma sset_insert_sorted x l : StronglySorted lt_str l -> StronglySorted lt_str (sset_insert x l).
Proof.
  induction l as [|y l IH]; intros S; cbn [sset_insert]; [constructor; constructor|].
  apply StronglySorted_inv in S as [S A]. destruct (str_eqb x y) eqn:E; [now constructor|].
  destruct (str_ltb x y) eqn:L.
  - constructor; [now constructor|]. constructor; [exact L|]. rewrite Forall_forall in *. intros z Hz. eapply str_ltb_trans; [exact L|now apply A].
  - constructor; [now apply IH|]. rewrite Forall_forall in *. intros z Hz. apply sset_insert_in in Hz as [->|Hz]; [|now apply A].
    apply str_eqb_neq in E. destruct (str_ltb_total x y E) as [K|K]; [congruence|exact K].
Qed.
Lemma sset_extend_sorted v all : StronglySorted lt_str v -> StronglySorted lt_str (sset_extend v all).
Proof.
  unfold sset_extend. revert v. induction all as [|a all IH]; intros v S; cbn [fold_left]; [exact S|]. apply IH. now apply sset_insert_sorted.
Qed.

(* ---------- BTreeMap of BTreeSets ---------- *)
Definition scoped_wf (m : scoped) : Prop :=
  StronglySorted lt_str (map fst m) /\ Forall (fun kv => StronglySorted lt_str (snd kv)) m.

Lemma scoped_add_keys m k0 n0 k : In k (map fst (scoped_add m k0 n0)) <-> k = k0 \/ In k (map fst m).
Proof.
  induction m as [|[k' v] m IH]; cbn [scoped_add]; [cbn; intuition congruence|].
  destruct (str_eqb k' k0) eqn:E.
  - apply str_eqb_eq in E. subst k'. cbn [map fst In]. intuition congruence.
  - destruct (str_ltb k0 k'); cbn [map fst In]; [intuition congruence|]. rewrite IH. intuition congruence.
Qed.
Lemma scoped_extend_keys m k0 all k : In k (map fst (scoped_extend m k0 all)) <-> k = k0 \/ In k (map fst m).
Proof.
  induction m as [|[k' v] m IH]; cbn [scoped_extend]; [cbn; intuition congruence|].
  destruct (str_eqb k' k0) eqn:E.
  - apply str_eqb_eq in E. subst k'. cbn [map fst In]. intuition congruence.
  - destruct (str_ltb k0 k'); cbn [map fst In]; [intuition congruence|]. rewrite IH. intuition congruence.
Qed.

(* inserting / extending under key k0 with a sorted value keeps the map well formed; [upd] is what happens to the
   value found (or to the empty set) *)
Lemma scoped_add_wf m k0 n0 : scoped_wf m -> scoped_wf (scoped_add m k0 n0).
Proof.
  unfold scoped_wf. induction m as [|[k' v] m IH]; intros [SK SV]; cbn [scoped_add].
  - split; [cbn; constructor; constructor|]. constructor; [cbn; constructor; constructor|constructor].
  - cbn [map fst] in SK. apply StronglySorted_inv in SK as [SK A]. inversion SV as [|? ? V1 V2]; subst.
    destruct (str_eqb k' k0) eqn:E.
    + split; [cbn [map fst]; now constructor|]. constructor; [cbn [snd] in *; now apply sset_insert_sorted|exact V2].
    + destruct (str_ltb k0 k') eqn:L.
      * split.
        -- cbn [map fst]. constructor; [now constructor|]. constructor; [exact L|].
           rewrite Forall_forall in *. intros z Hz. eapply str_ltb_trans; [exact L|now apply A].
        -- constructor; [cbn; constructor; constructor|now constructor].
      * destruct (IH (conj SK V2)) as [IK IV]. split.
        -- cbn [map fst]. constructor; [exact IK|]. rewrite Forall_forall in *. intros z Hz.
           apply scoped_add_keys in Hz as [->|Hz]; [|now apply A].
           apply str_eqb_neq in E. destruct (str_ltb_total k' k0 E) as [K|K]; [exact K|congruence].
        -- now constructor.
Qed.
Lemma scoped_extend_wf m k0 all : scoped_wf m -> scoped_wf (scoped_extend m k0 all).
Proof.
  assert (E0 : StronglySorted lt_str (sset_extend [] all)) by (apply sset_extend_sorted; constructor).
  unfold scoped_wf. induction m as [|[k' v] m IH]; intros [SK SV]; cbn [scoped_extend].
  - split; [cbn; constructor; constructor|]. constructor; [exact E0|constructor].
  - cbn [map fst] in SK. apply StronglySorted_inv in SK as [SK A]. inversion SV as [|? ? V1 V2]; subst.
    destruct (str_eqb k' k0) eqn:E.
    + split; [cbn [map fst]; now constructor|]. constructor; [cbn [snd] in *; now apply sset_extend_sorted|exact V2].
    + destruct (str_ltb k0 k') eqn:L.
      * split.
        -- cbn [map fst]. constructor; [now constructor|]. constructor; [exact L|].
           rewrite Forall_forall in *. intros z Hz. eapply str_ltb_trans; [exact L|now apply A].
        -- constructor; [exact E0|now constructor].
      * destruct (IH (conj SK V2)) as [IK IV]. split.
        -- cbn [map fst]. constructor; [exact IK|]. rewrite Forall_forall in *. intros z Hz.
           apply scoped_extend_keys in Hz as [->|Hz]; [|now apply A].
           apply str_eqb_neq in E. destruct (str_ltb_total k' k0 E) as [K|K]; [exact K|congruence].
        -- now constructor.
Qed.

Lemma import_fallback_wf ct own name m : scoped_wf m -> scoped_wf (import_fallback ct own name m).
Proof. unfold import_fallback. destruct (find _ ct); [apply scoped_add_wf|auto]. Qed.
Lemma used_imports_step_wf ct own m imp : scoped_wf m -> scoped_wf (used_imports_step ct own m imp).
Proof.
  intros H. unfold used_imports_step. destruct (str_eqb (base_crate imp) own); [exact H|].
  destruct (crate_types_get ct (base_crate imp)) as [names|]; [|now apply import_fallback_wf].
  destruct (str_eqb (type_name imp) GLOB); [now apply scoped_extend_wf|].
  destruct (mem_str (type_name imp) names); [now apply scoped_add_wf|now apply import_fallback_wf].
Qed.
Lemma scoped_wf_nil : scoped_wf [].
Proof. split; constructor. Qed.
Lemma used_imports_wf ct own imports : scoped_wf (used_imports ct own imports).
Proof.
  rewrite used_imports_fold. generalize scoped_wf_nil. generalize (@nil (str * list str)) as m.
  induction imports as [|i r IH]; intros m H; cbn [fold_left]; [exact H|]. apply IH. now apply used_imports_step_wf.
Qed.

(* ---------- the keys, like the pairs, are a function of the set of imports ---------- *)
Lemma import_fallback_keys ct own name m k :
  In k (map fst (import_fallback ct own name m)) <-> In k (map fst m) \/ In k (map fst (import_fallback ct own name [])).
Proof. unfold import_fallback. destruct (find _ ct) as [kv|]; [|cbn; tauto]. rewrite !scoped_add_keys. cbn. tauto. Qed.
Lemma used_imports_step_keys ct own m imp k :
  In k (map fst (used_imports_step ct own m imp)) <-> In k (map fst m) \/ In k (map fst (used_imports_step ct own [] imp)).
Proof.
  unfold used_imports_step. destruct (str_eqb (base_crate imp) own); [cbn; tauto|].
  destruct (crate_types_get ct (base_crate imp)) as [names|]; [|apply import_fallback_keys].
  destruct (str_eqb (type_name imp) GLOB); [rewrite !scoped_extend_keys; cbn; tauto|].
  destruct (mem_str (type_name imp) names); [rewrite !scoped_add_keys; cbn; tauto|apply import_fallback_keys].
Qed.
Lemma fold_step_keys ct own imports k : forall m,
  In k (map fst (fold_left (used_imports_step ct own) imports m)) <->
  In k (map fst m) \/ exists imp, In imp imports /\ In k (map fst (used_imports_step ct own [] imp)).
Proof.
  induction imports as [|i r IH]; intros m; cbn [fold_left].
  - split; [now left|intros [H|(x & [] & _)]; exact H].
  - rewrite IH, used_imports_step_keys. split.
    + intros [[H|H]|(x & Hx & H)]; [now left|right; exists i; split; [now left|exact H]|right; exists x; split; [now right|exact H]].
    + intros [H|(x & [<-|Hx] & H)]; [left; now left|left; now right|right; now exists x].
Qed.
Lemma used_imports_keys ct own imports k :
  In k (map fst (used_imports ct own imports)) <-> exists imp, In imp imports /\ In k (map fst (used_imports_step ct own [] imp)).
Proof. rewrite used_imports_fold, fold_step_keys. cbn. split; [intros [[]|H]; exact H|now right]. Qed.

(* ---------- a well-formed map is determined by its keys and its pairs ---------- *)
Lemma pairs_key m k n : In (k, n) (scoped_pairs m) -> In k (map fst m).
Proof. intros H. apply in_scoped_pairs in H as (v & Hv & _). apply in_map_iff. now exists (k, v). Qed.

Lemma scoped_ext m1 : forall m2, scoped_wf m1 -> scoped_wf m2 ->
  (forall k, In k (map fst m1) <-> In k (map fst m2)) ->
  (forall k n, In (k, n) (scoped_pairs m1) <-> In (k, n) (scoped_pairs m2)) -> m1 = m2.
Proof.
  intros m2 [K1 V1] [K2 V2] EK EP.
  pose proof (sorted_ext _ _ K1 K2 EK) as EQ. clear EK.
  revert m2 K2 V2 EP EQ. induction m1 as [|[k v1] m1 IH]; intros m2 K2 V2 EP EQ; destruct m2 as [|[k2 v2] m2]; try discriminate; [reflexivity|].
  cbn [map fst] in *. injection EQ as <- EQ.
  apply StronglySorted_inv in K1 as [K1 A1]. apply StronglySorted_inv in K2 as [K2 A2].
  inversion V1 as [|? ? S1 V1']; subst. inversion V2 as [|? ? S2 V2']; subst. cbn [snd] in S1, S2.
  assert (N1 : ~ In k (map fst m1)).
  { intros H. rewrite Forall_forall in A1. exact (lt_str_irrefl _ (A1 _ H)). }
  assert (N2 : ~ In k (map fst m2)) by (now rewrite <- EQ).
  assert (v1 = v2) as ->.
  { apply sorted_ext; [exact S1|exact S2|]. intros n. pose proof (EP k n) as E. rewrite !pairs_cons in E. split; intros H.
    - destruct (proj1 E (or_introl (conj eq_refl H))) as [[_ K]|K]; [exact K|]. exfalso. apply N2. eapply pairs_key, K.
    - destruct (proj2 E (or_introl (conj eq_refl H))) as [[_ K]|K]; [exact K|]. exfalso. apply N1. eapply pairs_key, K. }
  f_equal. apply IH; [exact K1|exact V1'|exact K2|exact V2'| |exact EQ].
  intros k' n. pose proof (EP k' n) as E. rewrite !pairs_cons in E. split; intros H.
  - destruct (proj1 E (or_intror H)) as [[-> _]|K]; [|exact K]. exfalso. apply N1. eapply pairs_key, H.
  - destruct (proj2 E (or_intror H)) as [[-> _]|K]; [|exact K]. exfalso. apply N2. eapply pairs_key, H.
Qed.

(* ---------- the theorem ---------- *)
Theorem used_imports_order_irrelevant_eq ct own l1 l2 :
  (forall x, In x l1 <-> In x l2) -> used_imports ct own l1 = used_imports ct own l2.
Proof.
  intros H. apply scoped_ext; [apply used_imports_wf|apply used_imports_wf| |].
  - intros k. rewrite !used_imports_keys. split; intros (x & Hx & K); exists x; (split; [now apply H|exact K]).
  - now apply used_imports_order_irrelevant.
Qed.

(* in terms of the oracles: whatever order the per-crate import set is iterated in, crate_imports is the same value *)
Corollary crate_imports_order_irrelevant hc cs cn pd (ho : list imported -> list imported) :
  oracle_ok ho -> crate_imports hc cs cn (with_imports pd (ho (p_imports pd))) = crate_imports hc cs cn pd.
Proof.
  intros Ho. unfold crate_imports. cbn [p_imports with_imports]. apply used_imports_order_irrelevant_eq. intros x. apply Ho.
Qed.
