(* Non-vacuity of Proofs/MultiSameDecls.v / MultiSameProps.v: the two-crate workspace ws_py_again of
   Proofs/C12MultiWitness.v evaluated inside Coq.
     alpha/src/lib.rs:  #[typeshare] struct Page<T>  { item: T, at: OffsetDateTime }
     beta/src/lib.rs:   #[typeshare] struct Other<U> { item: U, at: OffsetDateTime }
   In a folder-mode run beta's file is generated from the state alpha left (type variable T, the datetime translation,
   alpha's imports): a NON-initial state.  The declarations of beta's file are the ones computed from the initial
   state - the ones of single-file mode - while the states reached differ (and with them the header of the file). *)
From Coq Require Import List Bool String.
From TS Require Import Model.Str Model.Outcome Model.Unicode Model.Syntax Model.Types Model.Parse
                       Model.Lang.Common Model.Lang.Decl Model.Lang.Python Model.Lang.TypeScript Model.MultiFile.
From TS Require Model.Writer.
From TS Require Import Spec.C01Spec.
From TS Require Import Model.Lang.Swift Model.Lang.Go.
From TS Require Import Proofs.C01 Proofs.C14Witness Proofs.C12Multi Proofs.C12MultiTS Proofs.C12MultiSwift Proofs.C12MultiGo Proofs.C12MultiWitness Proofs.MultiSameDecls.
Import ListNotations.
Local Open Scope string_scope.
Local Open Scope list_scope.

Example multi_same_decls_python_nonvacuous :
  exists pa pb dsa st_a dsb st_b st_b0 fd,
    y_plan Python ws_py_again = Some [pa; pb] /\
    map op_crate [pa; pb] = [lit "alpha"; lit "beta"] /\
    (* alpha.py from the initial state leaves a state that is not the initial one *)
    py_multi_decls uc_exec y_py_cfg py_empty_state (op_data pa) = Ok (dsa, st_a) /\
    py_type_variables st_a = [lit "T"] /\ py_custom_types st_a = [lit "datetime"] /\
    (* beta.py as the run generates it (from st_a) and as it is generated alone (from the initial state): *)
    py_multi_decls uc_exec y_py_cfg st_a (op_data pb) = Ok (dsb, st_b) /\
    py_multi_decls uc_exec y_py_cfg py_empty_state (op_data pb) = Ok (dsb, st_b0) /\
    py_decls uc_exec y_py_cfg (op_data pb) = Ok (dsb, st_b0) /\
    (* the SAME declarations dsb (one class, two members), DIFFERENT states *)
    List.length dsb = 1%nat /\
    map (fun g => map mb_key g) (obs_groups (flat_map py_obs dsb)) = [[lit "item"; lit "at"]] /\
    py_type_variables st_b = [lit "T"; lit "U"] /\ py_type_variables st_b0 = [lit "U"] /\
    (* the single-file observation of crate beta: two helper entries per translation function and one per TypeVar, then
       the observation of exactly these declarations *)
    py_file_decls uc_exec y_py_cfg (op_data pb) = Ok fd /\
    fd_decls fd = map py_helper_decl [lit "U"; lit "serialize_datetime_data"; lit "parse_rfc3339"] ++ flat_map py_obs dsb.
Proof.
  do 8 eexists. split; [vm_compute; reflexivity|].
  repeat (split; [vm_compute; reflexivity|]). vm_compute; reflexivity.
Qed.

(* the same for the three other stateful back ends (workspaces of Proofs/C12MultiWitness.v): crate beta's declarations
   from the state crate alpha left - TypeScript: Date registered for the member `at`; Swift: the CodableVoid flag set;
   Go: time imported - are its declarations from the initial state; the states reached differ *)
Example multi_same_decls_ts_sw_go_nonvacuous :
  (exists pa pb dsa dsb,
     y_plan TypeScript ws_py_plain = Some [pa; pb] /\
     ts_multi_decls uc_exec y_ts_cfg [] (op_data pa) = Ok (dsa, [(lit "Date", [lit "at"])]) /\
     ts_multi_decls uc_exec y_ts_cfg [(lit "Date", [lit "at"])] (op_data pb) = Ok (dsb, [(lit "Date", [lit "at"])]) /\
     ts_multi_decls uc_exec y_ts_cfg [] (op_data pb) = Ok (dsb, []) /\ List.length dsb = 1%nat) /\
  (exists pa pb dsa dsb,
     y_plan Swift ws_sw_unit = Some [pa; pb] /\
     sw_multi_decls uc_exec y_sw_cfg false (op_data pa) = Ok (dsa, true) /\
     sw_multi_decls uc_exec y_sw_cfg true (op_data pb) = Ok (dsb, true) /\
     sw_multi_decls uc_exec y_sw_cfg false (op_data pb) = Ok (dsb, false) /\ List.length dsb = 1%nat) /\
  (exists pa pb dsa dsb,
     y_plan Go ws_py_plain = Some [pa; pb] /\
     go_multi_decls uc_exec y_go_cfg [] (op_data pa) = Ok (dsa, [lit "encoding/json"; lit "time"]) /\
     go_multi_decls uc_exec y_go_cfg [lit "encoding/json"; lit "time"] (op_data pb) = Ok (dsb, [lit "encoding/json"; lit "time"]) /\
     go_multi_decls uc_exec y_go_cfg [] (op_data pb) = Ok (dsb, [lit "encoding/json"]) /\ List.length dsb = 1%nat).
Proof.
  split; [|split]; (do 4 eexists; split; [vm_compute; reflexivity|]; repeat (split; [vm_compute; reflexivity|]); vm_compute; reflexivity).
Qed.
