(* C12 in multi-file mode, TypeScript: types_for_custom_json_translation (a BTreeMap in the language value) is never
   cleared between files; write_field registers the printed type of a member when it has a reviver / replacer; end_file
   writes ReviverFunc / ReplacerFunc from the map reached after the last item of the file.  The key set only grows,
   so the trailer of every file handles every translated type its own members have (and those of earlier crates). *)
From Coq Require Import List Bool Permutation String.
From TS Require Import Model.Str Model.Outcome Model.Unicode Model.Types Model.Parse Model.TopsortAlgo Model.Topsort
                       Model.Lang.Common Model.Lang.Decl Model.Lang.TypeScript Model.MultiFile Spec.C12Spec Spec.C12TSSpec.
From TS Require Model.Writer.
From TS Require Import Proofs.BackCommon Proofs.C12Common Proofs.C12Multi.
Import ListNotations.
Local Notation length := List.length (only parsing).
Local Notation concat := List.concat (only parsing).
Local Open Scope list_scope.

Definition ts_multi_decls (uc : unicode) (cfg : ts_config) (st0 : ts_state) (pd : parsed) : outcome (list ts_decl * ts_state) :=
  do items <- topsort (items_of pd);
  mmapM (ts_decl_of uc cfg) items st0.

Lemma ts_multi_decls_initial uc cfg pd : ts_multi_decls uc cfg [] pd = ts_decls uc cfg pd.
Proof. reflexivity. Qed.

(* layout: header, cross-crate import lines, the rendering of exactly these declarations, the trailer of the state REACHED *)
Theorem ts_multi_layout uc cfg (st : ts_state) (im : scoped) (pd : parsed) text st' :
  ts_generate_multi uc cfg st im pd = Ok (text, st') <->
  exists ds, ts_multi_decls uc cfg st pd = Ok (ds, st') /\
             text = ts_begin_file cfg ++ ts_write_imports im ++ concat (map ts_render_decl ds) ++ ts_end_file st'.
Proof.
  unfold ts_generate_multi, ts_multi_decls. destruct (topsort (items_of pd)) as [items| |]; cbn [bind].
  2,3: split; [discriminate|intros (ds & E & _); discriminate E].
  unfold mconcat, ts_write_item. split.
  - intros H. destruct (mbind _ _ st) as [[body s1]| |] eqn:Em; try discriminate H. injection H as <- <-.
    apply mbind_ok in Em as (ps & s2 & Eps & Em). unfold ret in Em. injection Em as <- <-.
    apply cm_mmapM_render in Eps as (ds & Eds & ->). exists ds. split; [exact Eds|reflexivity].
  - intros (ds & E & ->).
    assert (Eps : mmapM (fun x => mbind (ts_decl_of uc cfg x) (fun d => ret (ts_render_decl d))) items st =
                  Ok (map ts_render_decl ds, st')).
    { apply cm_mmapM_render. eauto. }
    rewrite (cm_mbind_intro _ _ _ _ _ Eps). reflexivity.
Qed.

Lemma c12_ts_good_spec ds st :
  c12_ts_good ds st = true <->
  (forall t, In t (c12_ts_translated ds) -> In t (c12_ts_handled st)) /\
  (c12_ts_translated ds <> [] -> forall h, In h c12_ts_helpers -> In h (c12_ts_defs st)).
Proof.
  unfold c12_ts_good. rewrite andb_true_iff, forallb_forall. split.
  - intros [A B]. split; [intros t Ht; apply c12_mem_str_In; auto|].
    intros Hne h Hh. destruct (c12_ts_translated ds); [congruence|].
    rewrite forallb_forall in B. apply c12_mem_str_In. auto.
  - intros [A B]. split; [intros t Ht; apply c12_mem_str_In; auto|].
    destruct (c12_ts_translated ds) as [|t r]; [reflexivity|]. apply forallb_forall. intros h Hh.
    apply c12_mem_str_In. apply B; [discriminate|exact Hh].
Qed.

(* ---- the key set only grows ---- *)
Definition c12_tle (s s' : ts_state) : Prop := incl (c12_ts_handled s) (c12_ts_handled s').
Lemma c12_tle_refl s : c12_tle s s. Proof. apply incl_refl. Qed.
Lemma c12_tle_trans a b c : c12_tle a b -> c12_tle b c -> c12_tle a c. Proof. apply incl_tran. Qed.

Lemma c12_ts_set_keys m k v x : In x (map fst (tsmap_set m k v)) <-> x = k \/ In x (map fst m).
Proof.
  induction m as [|[a w] r IH]; cbn [tsmap_set map fst].
  - cbn. intuition.
  - destruct (str_eqb a k) eqn:E.
    + apply str_eqb_eq in E. subst a. cbn [map fst]. cbn. intuition.
    + destruct (str_ltb k a); cbn [map fst]; cbn; rewrite ?IH; intuition.
Qed.

Lemma c12_tle_set s k v : c12_tle s (tsmap_set s k v).
Proof. intros x Hx. apply c12_ts_set_keys. now right. Qed.

Section TSM.
Variable uc : unicode.
Variable cfg : ts_config.

Ltac tret H := unfold ret in H; injection H as <- <-.

Lemma c12_ts_special_le t (k : M ts_state texp) s x s' :
  (forall s x s', k s = Ok (x, s') -> c12_tle s s') ->
  match tmap_get (ts_type_mappings cfg) (rtype_display t) with
  | Some mapped =>
    mbind mget (fun st => mbind (if has_custom_translation mapped then mput (tsmap_set st mapped []) else ret tt)
                                (fun _ => ret (XRaw mapped)))
  | None => k
  end s = Ok (x, s') -> c12_tle s s'.
Proof.
  intros Hk. destruct (tmap_get (ts_type_mappings cfg) (rtype_display t)) as [m|]; [|apply Hk].
  intros H. apply mbind_ok in H as (st & s1 & Eg & H). unfold mget in Eg. injection Eg as <- <-.
  apply mbind_ok in H as (u & s2 & Eu & H). tret H.
  destruct (has_custom_translation m); [unfold mput in Eu; injection Eu as _ <-; apply c12_tle_set|tret Eu; apply c12_tle_refl].
Qed.

Lemma c12_ts_texp_le gs t : forall s x s', ts_texp cfg gs t s = Ok (x, s') -> c12_tle s s'.
Proof.
  induction t as [id|id ps IH|t IH|t n IH|t IH|k v IHk IHv|t IH|p] using rtype_ind'; intros s x s' H; cbn [ts_texp] in H.
  - tret H. apply c12_tle_refl.
  - destruct (tmap_get (ts_type_mappings cfg) id); [tret H; apply c12_tle_refl|].
    rewrite c12_go_is_mmapM in H. apply mbind_ok in H as (xs & s1 & Exs & H). tret H.
    eapply (c12_mmapM_le c12_tle c12_tle_refl c12_tle_trans); [|exact Exs].
    eapply Forall_impl; [|exact IH]. cbn. intros a Ha s0 y s0' E0. eapply Ha; eauto.
  - revert H. apply c12_ts_special_le. intros s0 x0 s0' H. apply mbind_ok in H as (e & s1 & Ee & H). tret H. eapply IH; eauto.
  - revert H. apply c12_ts_special_le. intros s0 x0 s0' H. apply mbind_ok in H as (e & s1 & Ee & H). tret H. eapply IH; eauto.
  - revert H. apply c12_ts_special_le. intros s0 x0 s0' H. apply mbind_ok in H as (e & s1 & Ee & H). tret H. eapply IH; eauto.
  - revert H. apply c12_ts_special_le. intros s0 x0 s0' H.
    apply mbind_ok in H as (ks & s1 & Ek & H). apply mbind_ok in H as (vs & s2 & Ev & H). tret H.
    assert (Ek' : ts_texp cfg gs k s0 = Ok (ks, s1)).
    { destruct k; try exact Ek. destruct (mem_str id gs); [discriminate Ek|exact Ek]. }
    eapply c12_tle_trans; [eapply IHk; eauto|eapply IHv; eauto].
  - revert H. apply c12_ts_special_le. intros s0 x0 s0' H. eapply IH; eauto.
  - revert H. apply c12_ts_special_le. intros s0 x0 s0' H.
    destruct p; try (tret H; apply c12_tle_refl); discriminate H.
Qed.

(* a member whose printed type has a reviver / replacer is registered *)
Definition c12_ts_Qm (m : ts_member) (s : ts_state) : Prop :=
  has_custom_translation (ts_show (tm_type m)) = true -> In (ts_show (tm_type m)) (c12_ts_handled s).
Lemma c12_ts_Qm_up m s s' : c12_ts_Qm m s -> c12_tle s s' -> c12_ts_Qm m s'.
Proof. unfold c12_ts_Qm. intros Q L H. apply L, Q, H. Qed.

Lemma c12_ts_member_flag gs f s m s' :
  ts_member_of cfg gs f s = Ok (m, s') -> c12_tle s s' /\ c12_ts_Qm m s'.
Proof.
  unfold ts_member_of. intros H. apply mbind_ok in H as (ty & s1 & Ety & H).
  assert (L1 : c12_tle s s1).
  { destruct (type_override f TypeScript); [tret Ety; apply c12_tle_refl|eapply c12_ts_texp_le; eauto]. }
  apply mbind_ok in H as (st & s2 & Eg & H). unfold mget in Eg. injection Eg as <- <-.
  apply mbind_ok in H as (u & s3 & Eu & H). tret H. unfold c12_ts_Qm. cbn [tm_type].
  destruct (has_custom_translation (ts_show ty)) eqn:Ec.
  - unfold mput in Eu. injection Eu as _ <-. split; [eapply c12_tle_trans; [exact L1|apply c12_tle_set]|].
    intros _. apply c12_ts_set_keys. now left.
  - tret Eu. split; [exact L1|discriminate].
Qed.

Definition c12_ts_Qms (ms : list ts_member) (s : ts_state) : Prop := Forall (fun m => c12_ts_Qm m s) ms.
Lemma c12_ts_Qms_up ms s s' : c12_ts_Qms ms s -> c12_tle s s' -> c12_ts_Qms ms s'.
Proof. unfold c12_ts_Qms. intros Q L. eapply Forall_impl; [|exact Q]. cbn. intros m Qm. eapply c12_ts_Qm_up; eauto. Qed.

Lemma c12_ts_members_flag gs fs s ms s' :
  mmapM (ts_member_of cfg gs) fs s = Ok (ms, s') -> c12_tle s s' /\ c12_ts_Qms ms s'.
Proof.
  intros H. apply (c12_mmapM_mono c12_tle c12_tle_refl c12_tle_trans _ c12_ts_Qm _ c12_ts_Qm_up) in H; [exact H|].
  apply Forall_forall. intros f _ s0 y s0' E0. eapply c12_ts_member_flag; eauto.
Qed.

Definition c12_ts_Qv (v : ts_variant) (s : ts_state) : Prop := c12_ts_Qms (c12_ts_variant_members v) s.
Lemma c12_ts_Qv_up v s s' : c12_ts_Qv v s -> c12_tle s s' -> c12_ts_Qv v s'.
Proof. apply c12_ts_Qms_up. Qed.

Lemma c12_ts_variant_flag gs b v s d s' :
  ts_variant_of cfg gs b v s = Ok (d, s') -> c12_tle s s' /\ c12_ts_Qv d s'.
Proof.
  unfold ts_variant_of. destruct v as [sh|t sh|fs sh]; intros H.
  - tret H. split; [apply c12_tle_refl|constructor].
  - apply mbind_ok in H as (ty & s1 & Ety & H). tret H. split; [eapply c12_ts_texp_le; eauto|constructor].
  - apply mbind_ok in H as (ms & s1 & Ems & H). tret H. exact (c12_ts_members_flag _ _ _ _ _ Ems).
Qed.

Definition c12_ts_Qd (d : ts_decl) (s : ts_state) : Prop := c12_ts_Qms (c12_ts_decl_members d) s.
Lemma c12_ts_Qd_up d s s' : c12_ts_Qd d s -> c12_tle s s' -> c12_ts_Qd d s'.
Proof. apply c12_ts_Qms_up. Qed.

Lemma c12_ts_decl_flag it s d s' :
  ts_decl_of uc cfg it s = Ok (d, s') -> c12_tle s s' /\ c12_ts_Qd d s'.
Proof.
  destruct it as [rs|e|a|c]; cbn [ts_decl_of]; intros H.
  - apply mbind_ok in H as (ms & s1 & Ems & H). tret H. exact (c12_ts_members_flag _ _ _ _ _ Ems).
  - destruct e as [sh|tag content sh].
    + apply mbind_ok in H as (vs & s1 & Evs & H). tret H. split; [|constructor].
      eapply (c12_mmapM_le c12_tle c12_tle_refl c12_tle_trans); [|exact Evs].
      apply Forall_forall. intros v _ s0 y s0' E0. destruct v; try discriminate E0. tret E0. apply c12_tle_refl.
    + apply mbind_ok in H as (vs & s1 & Evs & H). tret H.
      apply (c12_mmapM_mono c12_tle c12_tle_refl c12_tle_trans _ c12_ts_Qv _ c12_ts_Qv_up) in Evs as [L Q].
      * split; [exact L|]. unfold c12_ts_Qd, c12_ts_Qms. cbn [c12_ts_decl_members].
        apply Forall_forall. intros m Hm. apply in_flat_map in Hm as (v & Hv & Hm).
        rewrite Forall_forall in Q. specialize (Q v Hv). unfold c12_ts_Qv, c12_ts_Qms in Q. rewrite Forall_forall in Q. exact (Q m Hm).
      * apply Forall_forall. intros v _ s0 y s0' E0. eapply c12_ts_variant_flag; eauto.
  - apply mbind_ok in H as (ty & s1 & Ety & H). tret H. split; [eapply c12_ts_texp_le; eauto|constructor].
  - apply mbind_ok in H as (ty & s1 & Ety & H). tret H. split; [eapply c12_ts_texp_le; eauto|constructor].
Qed.

(* ONE FILE from ANY translation map: nothing is forgotten, and every translated member type is handled by the
   trailer written from the map reached; no hypothesis on the input *)
Theorem c12_ts_file_from st0 pd ds st :
  ts_multi_decls uc cfg st0 pd = Ok (ds, st) ->
  incl (c12_ts_handled st0) (c12_ts_handled st) /\ c12_ts_good ds st = true.
Proof.
  unfold ts_multi_decls. intros H. apply c12_bind_ok in H as (items & _ & H).
  apply (c12_mmapM_mono c12_tle c12_tle_refl c12_tle_trans _ c12_ts_Qd _ c12_ts_Qd_up) in H as [L Q].
  2: { apply Forall_forall. intros it _ s0 y s0' E0. eapply c12_ts_decl_flag; eauto. }
  split; [exact L|].
  assert (Hall : forall t, In t (c12_ts_translated ds) -> In t (c12_ts_handled st)).
  { intros t Ht. unfold c12_ts_translated in Ht. apply filter_In in Ht as [Ht Hc].
    apply in_map_iff in Ht as (m & <- & Hm). apply in_flat_map in Hm as (d & Hd & Hm).
    rewrite Forall_forall in Q. specialize (Q d Hd). unfold c12_ts_Qd, c12_ts_Qms in Q. rewrite Forall_forall in Q.
    exact (Q m Hm Hc). }
  unfold c12_ts_good. apply andb_true_iff. split.
  - apply forallb_forall. intros t Ht. apply c12_mem_str_In. exact (Hall t Ht).
  - destruct (c12_ts_translated ds) as [|t r] eqn:Et; [reflexivity|].
    assert (Hin : In t (c12_ts_handled st)) by (apply Hall; now left).
    unfold c12_ts_defs. destruct st as [|kv st]; [destruct Hin|]. reflexivity.
Qed.
End TSM.

(* THE RUN *)
Definition ts_multi_gen (uc : unicode) (cfg : ts_config) (st : ts_state) (_ : str) (im : scoped) (pd : parsed) :=
  ts_generate_multi uc cfg st im pd.

Theorem c12_multi_typescript uc cfg st0 plan files fin :
  generate_crates (ts_multi_gen uc cfg) st0 plan = (files, fin) ->
  forall i fname text,
    nth_error files i = Some (fname, Writer.Generated text) ->
    exists p st_i st_i' ds,
      nth_error plan i = Some p /\ fname = op_file p /\
      ts_generate_multi uc cfg st_i (op_imports p) (op_data p) = Ok (text, st_i') /\
      ts_multi_decls uc cfg st_i (op_data p) = Ok (ds, st_i') /\
      text = ts_begin_file cfg ++ ts_write_imports (op_imports p) ++ concat (map ts_render_decl ds) ++ ts_end_file st_i' /\
      incl (c12_ts_handled st0) (c12_ts_handled st_i) /\
      incl (c12_ts_handled st_i) (c12_ts_handled st_i') /\
      c12_ts_good ds st_i' = true.
Proof.
  intros H i fname text Hn.
  destruct (cm_crates_file (ts_multi_gen uc cfg) (fun st => incl (c12_ts_handled st0) (c12_ts_handled st)) (fun _ => True)) with
      (plan := plan) (st := st0) (files := files) (fin := fin) (i := i) (fname := fname) (text := text)
    as (p & st_i & st_i' & Hp & Hf & Hi & _ & Hg); auto.
  - intros p st t st' Hinv _ Hg. unfold ts_multi_gen in Hg. apply ts_multi_layout in Hg as (ds & Eds & _).
    eapply incl_tran; [exact Hinv|]. exact (proj1 (c12_ts_file_from uc cfg _ _ _ _ Eds)).
  - apply incl_refl.
  - apply Forall_forall. auto.
  - unfold ts_multi_gen in Hg. pose proof Hg as Hg'. apply ts_multi_layout in Hg' as (ds & Eds & Etext).
    destruct (c12_ts_file_from uc cfg _ _ _ _ Eds) as [L G].
    exists p, st_i, st_i', ds. repeat split; auto.
Qed.
