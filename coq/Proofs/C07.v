(* C07 (front end): since the /repo fixes of its panic sites the front end - type parser, renaming,
   field decorators, the four item parsers, the visitor and parse_file - never reaches a partial
   operation (no [Panic]) on ANY input: the theorems below have no domain hypothesis.  In addition the
   edge inputs that used to panic and must be DIAGNOSED (Spec/C07Spec.v: a container without its type
   arguments, an empty tuple struct / variant, in a non-skipped position) are shown to end in an
   error, and a file containing one is parsed to a ParsedData with a non-empty error list.

   Termination: every function of Model/ is a Gallina [Fixpoint]/[Definition], hence total by
   construction; the only non-structural loop of the front end (TargetOsIterator) carries explicit
   fuel and Proofs/C13.walk_terminates shows the fuel suffices.  So "the model of the front end
   terminates" needs no theorem of its own; what is proved here is that the outcome is never [Panic],
   and (all_results_accounted) that every wanted item ends up either generated or recorded as an error.

   NOT covered here (see Props/C07.v): the six back ends, topsort's dependency recursion, the CLI. *)
From Coq Require Import String Lia ZifyBool ZifyN.
From TS Require Import Model.Str Model.Outcome Model.Unicode Model.Syntax Model.Attrs Model.TargetOs
                       Model.Rename Model.Types Model.Parse.
From TS Require Import Spec.Serde Spec.TargetOsRule Spec.C03Spec Spec.C07Spec.
From TS Require Import Proofs.C13 Proofs.FrontAttrs Proofs.FrontTypes Proofs.FrontItems.
Local Open Scope N_scope.
Local Notation length := List.length (only parsing).

(* ---------- generic facts about the outcome monad ---------- *)
Lemma bind_no_panic {A B} (x : outcome A) (f : A -> outcome B) :
  is_panic x = false -> (forall a, is_panic (f a) = false) -> is_panic (bind x f) = false.
Proof. destruct x as [a|e|s]; cbn [bind is_panic]; intros Hx Hf; [apply Hf|reflexivity|discriminate]. Qed.

Lemma mapM_no_panic {A B} (f : A -> outcome B) l :
  (forall x, is_panic (f x) = false) -> is_panic (mapM f l) = false.
Proof.
  intros H. induction l as [|x r IH]; [reflexivity|]. cbn [mapM].
  apply bind_no_panic; [apply H|]. intros y.
  apply bind_no_panic; [apply IH|]. reflexivity.
Qed.

(* neither Ok nor Panic: an error *)
Lemma not_ok_is_err {A} (x : outcome A) :
  is_panic x = false -> (forall a, x <> Ok a) -> exists e, x = Err e.
Proof. destruct x as [a|e|s]; intros Hp Hn; [exfalso; now apply (Hn a)|eauto|discriminate]. Qed.

(* ---------- 1. the type parser ---------- *)
Lemma parse_args_length args : forall ps, parse_args args = Ok ps -> length ps = count_type_args args.
Proof.
  induction args as [|o r IH]; intros ps; cbn [parse_args].
  - intros [= <-]. reflexivity.
  - destruct o as [a|].
    + destruct (parse_ty a) as [x| |]; cbn [bind]; try discriminate.
      destruct (parse_args r) as [xs| |]; cbn [bind]; try discriminate.
      intros [= <-]. cbn [List.length]. rewrite (IH xs eq_refl). reflexivity.
    + intros H. rewrite (IH ps H). reflexivity.
Qed.

Lemma parse_args_no_panic args :
  Forall (fun o => match o with Some t => is_panic (parse_ty t) = false | None => True end) args ->
  is_panic (parse_args args) = false.
Proof.
  induction 1 as [|o r Ho _ IH]; [reflexivity|].
  destruct o as [x|]; cbn [parse_args]; [|exact IH].
  apply bind_no_panic; [exact Ho|]. intros y.
  apply bind_no_panic; [exact IH|]. reflexivity.
Qed.

Lemma needs_one_unfold id :
  mem_str id NEEDS_ONE = str_eqb id (lit "Vec") || (str_eqb id (lit "Option") || mem_str id SMART_POINTERS).
Proof. reflexivity. Qed.

(* the `match id.as_str()` of rust_types.rs: a missing parameter is an error (required_parameter) *)
Lemma path_dispatch_no_panic id ps : is_panic (path_dispatch id ps) = false.
Proof.
  unfold path_dispatch.
  destruct (str_eqb id (lit "Vec")). { destruct ps; reflexivity. }
  destruct (str_eqb id (lit "Option")). { destruct ps; reflexivity. }
  destruct (str_eqb id (lit "HashMap")). { destruct ps as [|? [|? ?]]; reflexivity. }
  destruct (mem_str id SMART_POINTERS). { destruct ps; reflexivity. }
  destruct (mem_str id UNSUPPORTED_INTS); [reflexivity|].
  destruct (prim_of_name id); [reflexivity|]. destruct ps; reflexivity.
Qed.

(* ... and it succeeds only with enough parameters *)
Lemma path_dispatch_ok_enough id ps r : path_dispatch id ps = Ok r ->
  (if mem_str id NEEDS_ONE then Nat.leb 1 (length ps)
   else if str_eqb id (lit "HashMap") then Nat.leb 2 (length ps) else true) = true.
Proof.
  rewrite needs_one_unfold. unfold path_dispatch.
  destruct (str_eqb id (lit "Vec")) eqn:EV; cbn [orb].
  { destruct ps; [discriminate|reflexivity]. }
  destruct (str_eqb id (lit "Option")) eqn:EO; cbn [orb].
  { destruct ps; [discriminate|reflexivity]. }
  destruct (str_eqb id (lit "HashMap")) eqn:EH.
  { apply str_eqb_eq in EH. subst id.
    change (mem_str (lit "HashMap") SMART_POINTERS) with false. cbv iota.
    destruct ps as [|? [|? ?]]; try discriminate; reflexivity. }
  destruct (mem_str id SMART_POINTERS).
  { destruct ps; [discriminate|reflexivity]. }
  reflexivity.
Qed.

Theorem parse_ty_never_panics t : is_panic (parse_ty t) = false.
Proof.
  induction t as [q id args IH|t IH|l IH|t n IH|t IH|] using ty_ind'.
  - rewrite parse_ty_path. apply bind_no_panic; [now apply parse_args_no_panic|].
    intros ps. apply path_dispatch_no_panic.
  - cbn [parse_ty]. exact IH.
  - destruct l; reflexivity.
  - cbn [parse_ty]. destruct n as [k|]; [|reflexivity].
    apply bind_no_panic; [exact IH|]. intros x. destruct k; reflexivity.
  - cbn [parse_ty]. apply bind_no_panic; [exact IH|]. reflexivity.
  - reflexivity.
Qed.

Lemma parse_args_ok_complete args :
  Forall (fun o => match o with Some t => forall r, parse_ty t = Ok r -> ty_complete t = true | None => True end) args ->
  forall ps, parse_args args = Ok ps ->
  (fix go (l : list (option ty)) : bool :=
     match l with [] => true | None :: r => go r | Some x :: r => ty_complete x && go r end) args = true.
Proof.
  induction 1 as [|o r Ho _ IH]; intros ps; [reflexivity|].
  destruct o as [x|]; cbn [parse_args]; [|apply IH].
  destruct (parse_ty x) as [y| |] eqn:Ex; cbn [bind]; try discriminate.
  destruct (parse_args r) as [ys| |] eqn:Er; cbn [bind]; try discriminate.
  intros _. rewrite (Ho y eq_refl), (IH ys eq_refl). reflexivity.
Qed.

(* a type expression is translated only if every Vec / Option / smart pointer in it has a type
   argument and every HashMap two *)
Theorem parse_ty_ok_complete t : forall r, parse_ty t = Ok r -> ty_complete t = true.
Proof.
  induction t as [q id args IH|t IH|l IH|t n IH|t IH|] using ty_ind'; intros r H.
  - rewrite parse_ty_path in H. cbn [ty_complete].
    destruct (parse_args args) as [ps| |] eqn:E; cbn [bind] in H; try discriminate.
    rewrite (parse_args_ok_complete args IH ps E). cbn [andb].
    rewrite <- (parse_args_length args ps E). exact (path_dispatch_ok_enough id ps r H).
  - cbn [parse_ty] in H. cbn [ty_complete]. now apply (IH r).
  - reflexivity.
  - cbn [ty_complete]. cbn [parse_ty] in H. destruct n as [k|]; [|discriminate].
    destruct (parse_ty t) as [x| |] eqn:Ex; cbn [bind] in H; try discriminate. now apply (IH x).
  - cbn [ty_complete]. cbn [parse_ty] in H.
    destruct (parse_ty t) as [x| |] eqn:Ex; cbn [bind] in H; try discriminate. now apply (IH x).
  - reflexivity.
Qed.

(* so a container without its type argument(s), at any depth, is an error: diagnosed, not a panic *)
Theorem incomplete_type_is_error t : ty_complete t = false -> exists e, parse_ty t = Err e.
Proof.
  intros H. apply not_ok_is_err; [apply parse_ty_never_panics|].
  intros r Hr. rewrite (parse_ty_ok_complete t r Hr) in H. discriminate.
Qed.

(* ---------- 2. renaming (rename.rs:22 was the only partial operation) ---------- *)
(* since the /repo fix of to_camel_case (no byte slicing) it never panics, whatever the identifier *)
Theorem camel_never_panics s : is_panic (to_camel_case s) = false.
Proof. unfold to_camel_case. destruct (to_pascal_case s); reflexivity. Qed.

(* what it returns: the PascalCase form with its first character ASCII-lowered; empty stays empty *)
Theorem camel_case_value s :
  to_camel_case s = Ok (match to_pascal_case s with [] => [] | c :: r => alower c :: r end).
Proof. unfold to_camel_case. destruct (to_pascal_case s); reflexivity. Qed.

Theorem rename_never_panics uc rule ident : is_panic (rename_all_to_case uc ident rule) = false.
Proof.
  unfold rename_all_to_case. destruct rule as [v|]; [|reflexivity].
  destruct (str_eqb v (lit "lowercase")); [reflexivity|].
  destruct (str_eqb v (lit "UPPERCASE")); [reflexivity|].
  destruct (str_eqb v (lit "PascalCase")); [reflexivity|].
  destruct (str_eqb v (lit "camelCase")).
  - apply camel_never_panics.
  - repeat (match goal with |- context [str_eqb v ?x] => destruct (str_eqb v x); [reflexivity|] end).
    reflexivity.
Qed.

(* ---------- 3. field decorators (parser.rs:737) ---------- *)
Theorem decorators_never_panic uc attrs : is_panic (get_field_decorators uc attrs) = false.
Proof.
  unfold get_field_decorators. cbv zeta.
  generalize (flat_map (fun a => get_meta_items a TYPESHARE) attrs). intros l.
  match goal with |- is_panic (fold_left ?f _ _) = false => set (F := f) end.
  assert (G : forall acc : outcome fdecmap, is_panic acc = false -> is_panic (fold_left F l acc) = false).
  { induction l as [|m r IH]; intros acc Ha; [exact Ha|]. cbn [fold_left]. apply IH.
    subst F. cbv beta. apply bind_no_panic; [exact Ha|]. intros mp.
    destruct m as [p|p args dargs|p v]; try reflexivity.
    destruct p as [|name [|? ?]]; try reflexivity.
    destruct (lang_of_str uc name); reflexivity. }
  apply G. reflexivity.
Qed.

(* ---------- get_ident ---------- *)
Lemma get_ident_no_panic uc i attrs rule : is_panic (get_ident uc i attrs rule) = false.
Proof.
  unfold get_ident. cbv zeta.
  apply bind_no_panic; [apply rename_never_panics|]. intros r.
  destruct (serde_rename uc attrs); reflexivity.
Qed.

(* ---------- 4. the item parsers ---------- *)
Definition is_leaf_item (it : item) : bool :=
  match it with IUse _ | INest _ => false | _ => true end.

Section U.
Variable uc : unicode.
Variable tstr : str -> option ty.
Variable T : list str.

Lemma parse_ty_str_no_panic s : is_panic (parse_ty_str tstr s) = false.
Proof. unfold parse_ty_str. destruct (tstr s); [apply parse_ty_never_panics|reflexivity]. Qed.

Lemma effective_ty_no_panic attrs declared :
  is_panic (match get_serialized_as_type uc attrs with
            | Some s => parse_ty_str tstr s
            | None => parse_ty declared
            end) = false.
Proof. destruct (get_serialized_as_type uc attrs); [apply parse_ty_str_no_panic|apply parse_ty_never_panics]. Qed.

Lemma field_type_no_panic f : is_panic (field_type uc tstr f) = false.
Proof. apply effective_ty_no_panic. Qed.

Lemma parse_field_no_panic cf rule f : is_panic (parse_field uc tstr cf rule f) = false.
Proof.
  unfold parse_field. apply bind_no_panic; [apply field_type_no_panic|]. intros t.
  destruct (cf && serde_flatten (f_attrs f)); [reflexivity|].
  apply bind_no_panic; [apply decorators_never_panic|]. intros decs.
  apply bind_no_panic; [apply get_ident_no_panic|]. reflexivity.
Qed.

Lemma mk_alias_no_panic attrs ident gens t : is_panic (mk_alias uc attrs ident gens t) = false.
Proof. unfold mk_alias. apply bind_no_panic; [apply get_ident_no_panic|]. reflexivity. Qed.

Theorem struct_never_panics attrs ident gens fs : is_panic (parse_struct uc tstr T attrs ident gens fs) = false.
Proof.
  unfold parse_struct. cbv zeta. destruct (get_serialized_as_type uc attrs) as [s|].
  - apply bind_no_panic; [apply get_ident_no_panic|]. intros i.
    apply bind_no_panic; [apply parse_ty_str_no_panic|]. reflexivity.
  - destruct fs as [l|l|].
    + apply bind_no_panic; [apply mapM_no_panic; apply parse_field_no_panic|]. intros fields.
      apply bind_no_panic; [apply get_ident_no_panic|]. reflexivity.
    + destruct l as [|f [|f2 r]]; [reflexivity| |reflexivity].
      apply bind_no_panic; [apply field_type_no_panic|]. intros t. apply mk_alias_no_panic.
    + apply bind_no_panic; [apply get_ident_no_panic|]. reflexivity.
Qed.

Lemma variant_never_panics rule v : is_panic (parse_enum_variant uc tstr T rule v) = false.
Proof.
  unfold parse_enum_variant.
  apply bind_no_panic; [apply get_ident_no_panic|]. intros i. cbv zeta.
  destruct (v_fields v) as [l|l|].
  - apply bind_no_panic; [apply mapM_no_panic; apply parse_field_no_panic|]. reflexivity.
  - destruct l as [|f [|f2 r]]; [reflexivity| |reflexivity].
    apply bind_no_panic; [apply field_type_no_panic|]. reflexivity.
  - reflexivity.
Qed.

Theorem enum_never_panics attrs ident gens vs : is_panic (parse_enum uc tstr T attrs ident gens vs) = false.
Proof.
  unfold parse_enum. cbv zeta. destruct (get_serialized_as_type uc attrs) as [s|].
  - apply bind_no_panic; [apply get_ident_no_panic|]. intros i.
    apply bind_no_panic; [apply parse_ty_str_no_panic|]. reflexivity.
  - apply bind_no_panic; [apply mapM_no_panic; apply variant_never_panics|].
    intros variants. apply bind_no_panic; [apply get_ident_no_panic|]. intros i.
    destruct (forallb _ variants); destruct (get_tag_key uc attrs); destruct (get_content_key uc attrs); reflexivity.
Qed.

Theorem alias_never_panics attrs ident gens t : is_panic (parse_type_alias uc tstr attrs ident gens t) = false.
Proof.
  unfold parse_type_alias. apply bind_no_panic; [apply effective_ty_no_panic|]. intros rt. apply mk_alias_no_panic.
Qed.

Lemma const_expr_never_panics e : is_panic (parse_const_expr e) = false.
Proof.
  induction e as [l|x IH|x IH|]; cbn [parse_const_expr].
  - destruct l as [[z|]|]; reflexivity.
  - exact IH.
  - apply bind_no_panic; [exact IH|]. reflexivity.
  - reflexivity.
Qed.

Theorem const_never_panics attrs ident t e : is_panic (parse_const uc tstr attrs ident t e) = false.
Proof.
  unfold parse_const. apply bind_no_panic; [apply const_expr_never_panics|].
  intros v. apply bind_no_panic; [apply effective_ty_no_panic|]. intros rt.
  destruct rt; try reflexivity; (apply bind_no_panic; [apply get_ident_no_panic|reflexivity]).
Qed.

Theorem leaf_never_panics it : is_leaf_item it = true -> is_panic (parse_leaf uc tstr T it) = false.
Proof.
  destruct it as [a i g fs|a i g vs|a i g t|a i t e|u|inner]; cbn [is_leaf_item parse_leaf]; intros Hl; try discriminate.
  - apply struct_never_panics.
  - apply enum_never_panics.
  - apply alias_never_panics.
  - apply const_never_panics.
Qed.

(* ----- the edge inputs are diagnosed: an item is generated only if it is complete ----- *)
(* the skip decision of the code is the documented one (true without --target-os, and for every
   attribute list whose cfg predicates parse: C13) *)
Hypothesis Hskip : forall attrs, is_skipped T attrs = skipped7 T attrs.

Lemma effective_ty_ok_complete attrs declared r :
  match get_serialized_as_type uc attrs with
  | Some s => parse_ty_str tstr s
  | None => parse_ty declared
  end = Ok r -> effective_ty_complete uc tstr attrs declared = true.
Proof.
  unfold effective_ty_complete, parse_ty_str. destruct (get_serialized_as_type uc attrs) as [s|].
  - destruct (tstr s) as [t|]; [apply parse_ty_ok_complete|reflexivity].
  - apply parse_ty_ok_complete.
Qed.

Lemma field_type_ok_complete f r :
  field_type uc tstr f = Ok r -> effective_ty_complete uc tstr (f_attrs f) (f_ty f) = true.
Proof. apply effective_ty_ok_complete. Qed.

Lemma parse_field_ok_complete cf rule f rf :
  parse_field uc tstr cf rule f = Ok rf -> effective_ty_complete uc tstr (f_attrs f) (f_ty f) = true.
Proof.
  unfold parse_field. destruct (field_type uc tstr f) as [t| |] eqn:Et; cbn [bind]; try discriminate.
  intros _. now apply (field_type_ok_complete f t).
Qed.

Lemma fields_ok_complete cf rule l : forall fs,
  mapM (parse_field uc tstr cf rule) (filter (fun f => negb (is_skipped T (f_attrs f))) l) = Ok fs ->
  forallb (field_complete uc tstr T) l = true.
Proof.
  induction l as [|f r IH]; intros fs; [reflexivity|]. cbn [filter forallb]. unfold field_complete at 1.
  rewrite <- Hskip. destruct (is_skipped T (f_attrs f)); cbn [negb orb].
  - apply IH.
  - cbn [mapM]. destruct (parse_field uc tstr cf rule f) as [rf| |] eqn:Ef; cbn [bind]; try discriminate.
    destruct (mapM _ _) as [rest| |] eqn:Er; cbn [bind]; try discriminate.
    intros _. rewrite (parse_field_ok_complete cf rule f rf Ef). now apply (IH rest).
Qed.

Lemma variant_ok_complete rule v rv :
  is_skipped T (v_attrs v) = false -> parse_enum_variant uc tstr T rule v = Ok rv ->
  variant_complete uc tstr T v = true.
Proof.
  intros Hs. unfold variant_complete. rewrite <- Hskip, Hs. cbn [orb]. unfold parse_enum_variant.
  destruct (get_ident _ _ _ _); cbn [bind]; try discriminate. cbv zeta.
  destruct (v_fields v) as [l|l|].
  - destruct (mapM _ _) as [fs| |] eqn:Em; cbn [bind]; try discriminate. intros _. eapply fields_ok_complete; exact Em.
  - destruct l as [|f [|f2 r]]; [discriminate| |reflexivity].
    destruct (field_type uc tstr f) as [t| |] eqn:Et; cbn [bind]; try discriminate. intros _.
    now apply (field_type_ok_complete f t).
  - reflexivity.
Qed.

Lemma variants_ok_complete rule vs : forall rvs,
  mapM (parse_enum_variant uc tstr T rule) (filter (fun v => negb (is_skipped T (v_attrs v))) vs) = Ok rvs ->
  forallb (variant_complete uc tstr T) vs = true.
Proof.
  induction vs as [|v r IH]; intros rvs; [reflexivity|]. cbn [filter forallb].
  destruct (is_skipped T (v_attrs v)) eqn:Es; cbn [negb].
  - intros H. unfold variant_complete at 1. rewrite <- Hskip, Es. cbn [orb]. now apply (IH rvs).
  - cbn [mapM]. destruct (parse_enum_variant uc tstr T rule v) as [rv| |] eqn:Ev; cbn [bind]; try discriminate.
    destruct (mapM _ _) as [rest| |] eqn:Er; cbn [bind]; try discriminate.
    intros _. rewrite (variant_ok_complete rule v rv Es Ev). now apply (IH rest).
Qed.

Lemma serialized_as_ok_complete s r :
  parse_ty_str tstr s = Ok r -> match tstr s with Some t => ty_complete t | None => true end = true.
Proof. unfold parse_ty_str. destruct (tstr s); [apply parse_ty_ok_complete|reflexivity]. Qed.

Theorem leaf_ok_complete it r : parse_leaf uc tstr T it = Ok r -> leaf_complete uc tstr T it = true.
Proof.
  destruct it as [a i g fs|a i g vs|a i g t|a i t e|u|inner]; cbn [parse_leaf leaf_complete]; try discriminate.
  - unfold parse_struct. cbv zeta. destruct (get_serialized_as_type uc a) as [s|].
    + destruct (get_ident _ _ _ _); cbn [bind]; try discriminate.
      destruct (parse_ty_str tstr s) as [rt| |] eqn:Es; cbn [bind]; try discriminate.
      intros _. now apply (serialized_as_ok_complete s rt).
    + destruct fs as [l|l|].
      * destruct (mapM _ _) as [fs| |] eqn:Em; cbn [bind]; try discriminate. intros _.
        eapply fields_ok_complete; exact Em.
      * destruct l as [|f [|f2 r']]; [discriminate| |reflexivity].
        destruct (field_type uc tstr f) as [rt| |] eqn:Et; cbn [bind]; try discriminate. intros _.
        now apply (field_type_ok_complete f rt).
      * reflexivity.
  - unfold parse_enum. cbv zeta. destruct (get_serialized_as_type uc a) as [s|].
    + destruct (get_ident _ _ _ _); cbn [bind]; try discriminate.
      destruct (parse_ty_str tstr s) as [rt| |] eqn:Es; cbn [bind]; try discriminate.
      intros _. now apply (serialized_as_ok_complete s rt).
    + destruct (mapM _ _) as [rvs| |] eqn:Em; cbn [bind]; try discriminate. intros _.
      eapply variants_ok_complete; exact Em.
  - unfold parse_type_alias.
    destruct (match get_serialized_as_type uc a with Some s => _ | None => _ end) as [rt| |] eqn:Et; cbn [bind]; try discriminate.
    intros _. now apply (effective_ty_ok_complete a t rt).
  - unfold parse_const. destruct (parse_const_expr e); cbn [bind]; try discriminate.
    destruct (match get_serialized_as_type uc a with Some s => _ | None => _ end) as [rt| |] eqn:Et; cbn [bind]; try discriminate.
    intros _. now apply (effective_ty_ok_complete a t rt).
Qed.

(* an incomplete annotated item ends in an error: it is reported, neither generated nor a panic *)
Theorem incomplete_leaf_is_error it :
  is_leaf_item it = true -> leaf_complete uc tstr T it = false -> exists e, parse_leaf uc tstr T it = Err e.
Proof.
  intros Hl H. apply not_ok_is_err; [now apply leaf_never_panics|].
  intros r Hr. rewrite (leaf_ok_complete it r Hr) in H. discriminate.
Qed.
End U.

(* ---------- 5. the visitor and parse_file ---------- *)
Lemma annotated_spec attrs : has_typeshare_annotation attrs = annotated attrs.
Proof.
  unfold has_typeshare_annotation, annotated, mem_str, TYPESHARE. apply existsb_ext'. intros a.
  apply existsb_ext'. intros seg. apply str_eqb_sym.
Qed.

Lemma leaves_are_leaves it : Forall (fun x => is_leaf_item x = true) (leaves it).
Proof.
  induction it as [a i g fs|a i g vs|a i g t|a i t e|u|inner IH] using item_ind'; cbn [leaves];
    try (constructor; [reflexivity|constructor]).
  - constructor.
  - induction IH as [|x r Hx _ IHr]; [constructor|]. apply Forall_app. split; assumption.
Qed.

Lemma leaves_of_are_leaves l : Forall (fun x => is_leaf_item x = true) (leaves_of l).
Proof.
  unfold leaves_of. induction l as [|x r IH]; cbn [flat_map]; [constructor|].
  apply Forall_app. split; [apply leaves_are_leaves|exact IH].
Qed.

(* the collector never fails: an Err result is recorded, so without a panic the fold ends in Ok *)
Lemma fold_collect_total results : forall pd,
  Forall (fun r : outcome ritem => is_panic r = false) results -> exists pd', fold_collect results pd = Ok pd'.
Proof.
  induction results as [|r rs IH]; intros pd H; [now exists pd|].
  change (r :: rs) with ([r] ++ rs). rewrite fold_collect_app.
  inversion H as [|? ? Hr Hrs]; subst.
  unfold fold_collect at 1. cbn [fold_left bind]. destruct r as [it|e|s]; [| |discriminate]; cbn [collect_result bind]; now apply IH.
Qed.

Definition n_errors (results : list (outcome ritem)) : nat :=
  List.length (filter (fun r => match r with Err _ => true | _ => false end) results).

Lemma fold_collect_errors results : forall pd pd',
  fold_collect results pd = Ok pd' -> List.length (p_errors pd') = (List.length (p_errors pd) + n_errors results)%nat.
Proof.
  induction results as [|r rs IH]; intros pd pd' H.
  - unfold fold_collect in H. cbn in H. injection H as <-. unfold n_errors. cbn. lia.
  - change (r :: rs) with ([r] ++ rs) in H. rewrite fold_collect_app in H.
    unfold fold_collect at 1 in H. cbn [fold_left bind] in H.
    destruct r as [it|e|s]; cbn [collect_result bind] in H; [| |discriminate].
    + apply IH in H. rewrite H. unfold n_errors. cbn [filter]. destruct it; reflexivity.
    + apply IH in H. rewrite H. unfold n_errors. cbn [filter p_errors List.length]. rewrite app_length. cbn. lia.
Qed.

Section File.
Variable uc : unicode.
Variable tstr : str -> option ty.
Variable T : list str.

Lemma wanted_results_no_panic l : Forall (fun r : outcome ritem => is_panic r = false) (wanted_results uc tstr T (leaves_of l)).
Proof.
  unfold wanted_results. apply Forall_map. apply Forall_forall. intros it Hin. apply filter_In in Hin as [Hin _].
  apply leaf_never_panics. pose proof (leaves_of_are_leaves l) as HL. rewrite Forall_forall in HL. now apply HL.
Qed.

(* the visitor always finishes with a ParsedData, for every item list, --target-os list and nesting depth *)
Theorem visit_items_total l pd : exists pd', visit_items uc tstr T l pd = Ok pd'.
Proof. rewrite visit_items_spec. apply fold_collect_total. apply wanted_results_no_panic. Qed.

Theorem visit_items_never_panics l pd : is_panic (visit_items uc tstr T l pd) = false.
Proof. destruct (visit_items_total l pd) as [pd' ->]. reflexivity. Qed.

(* parser::parse never panics and never fails as a whole (per-item errors are recorded inside) *)
Theorem parse_file_total f : exists r, parse_file uc tstr T f = Ok r.
Proof.
  unfold parse_file. destruct (negb (fl_marker f)); [eauto|].
  destruct (accepts T (fl_attrs f)); cbn [bind]; [|eauto].
  destruct (visit_items_total (fl_items f) empty_parsed) as [pd ->]. cbn [bind]. eauto.
Qed.

Theorem parse_file_never_panics f : is_panic (parse_file uc tstr T f) = false.
Proof. destruct (parse_file_total f) as [r ->]. reflexivity. Qed.

(* the code's --target-os decision is the documented rule (C13: holds for every attribute list
   whose cfg predicates parse; outright for T = []) *)
Hypothesis Hacc : forall attrs, accepts T attrs = os_rule attrs T.

Lemma skip_from_acc attrs : is_skipped T attrs = skipped7 T attrs.
Proof. unfold is_skipped, skipped7. now rewrite skip_marker_spec, Hacc. Qed.

Lemma wanted_is_expected it : wanted T (leaf_attrs it) = expected_leaf T it.
Proof. unfold wanted, expected_leaf. now rewrite annotated_spec, Hacc. Qed.

(* nothing is dropped: every wanted leaf is either pushed or recorded as an error *)
Theorem all_results_accounted l pd pd' :
  visit_items uc tstr T l pd = Ok pd' ->
  count_items pd' = (count_items pd + length (filter (expected_leaf T) (leaves_of l)))%nat.
Proof.
  rewrite visit_items_spec. intros H. apply fold_collect_count in H. rewrite H. f_equal.
  unfold wanted_results. rewrite map_length. f_equal. apply filter_ext. intros it. apply wanted_is_expected.
Qed.

(* every incomplete expected leaf is one recorded error *)
Lemma incomplete_leaves_are_errors l :
  (length (filter (fun it => negb (leaf_complete uc tstr T it)) (filter (expected_leaf T) (leaves_of l))) <=
   n_errors (wanted_results uc tstr T (leaves_of l)))%nat.
Proof.
  unfold wanted_results, n_errors.
  rewrite (filter_ext _ _ (fun it => wanted_is_expected it)).
  pose proof (leaves_of_are_leaves l) as HL. revert HL. generalize (leaves_of l). intros xs HL.
  induction HL as [|it r Hit _ IH]; [apply le_n|]. cbn [filter].
  destruct (expected_leaf T it); [|exact IH]. cbn [filter map].
  destruct (leaf_complete uc tstr T it) eqn:Ec; cbn [negb].
  - destruct (parse_leaf uc tstr T it) as [?|?|?]; cbn [List.length]; lia.
  - destruct (incomplete_leaf_is_error uc tstr T skip_from_acc it Hit Ec) as [e ->]. cbn [List.length]. lia.
Qed.

(* the file: at least as many errors are reported as there are incomplete expected items; in
   particular a file with one is never reported as empty and never generated silently *)
Theorem incomplete_file_is_diagnosed f :
  exists r, parse_file uc tstr T f = Ok r /\
            (front_incomplete_leaves uc tstr T f <=
             match r with Some pd => length (p_errors pd) | None => 0 end)%nat.
Proof.
  unfold parse_file, front_incomplete_leaves, expected_leaves. destruct (fl_marker f); cbn [negb andb].
  2:{ eexists. split; [reflexivity|]. cbn. lia. }
  rewrite Hacc. destruct (os_rule (fl_attrs f) T); cbn [bind].
  2:{ eexists. split; [reflexivity|]. cbn. lia. }
  destruct (visit_items_total (fl_items f) empty_parsed) as [pd E]. rewrite E. cbn [bind].
  eexists. split; [reflexivity|].
  rewrite visit_items_spec in E. apply fold_collect_errors in E. cbn [empty_parsed p_errors List.length] in E.
  pose proof (incomplete_leaves_are_errors (fl_items f)) as Hle.
  destruct (parsed_is_empty pd) eqn:Ee.
  - unfold parsed_is_empty in Ee. destruct (p_structs pd), (p_enums pd), (p_aliases pd), (p_consts pd), (p_errors pd); try discriminate.
    cbn [List.length] in E. lia.
  - lia.
Qed.
End File.

(* without --target-os the hypothesis holds outright *)
Lemma acc_no_target attrs : accepts [] attrs = os_rule attrs [].
Proof. reflexivity. Qed.

Lemma skip7_no_target attrs : is_skipped [] attrs = skipped7 [] attrs.
Proof. apply skip_from_acc. exact acc_no_target. Qed.

(* ... and, with --target-os, on every attribute list whose cfg predicates parse (C13) *)
Lemma acc_when_cfg_parsable T attrs : cfg_parsable attrs = true -> accepts T attrs = os_rule attrs T.
Proof. intros H. unfold accepts. now rewrite (accept_is_rule attrs T H). Qed.

Theorem incomplete_leaf_is_error_no_target uc tstr it :
  is_leaf_item it = true -> leaf_complete uc tstr [] it = false -> exists e, parse_leaf uc tstr [] it = Err e.
Proof. apply incomplete_leaf_is_error. exact skip7_no_target. Qed.

Theorem incomplete_file_is_diagnosed_no_target uc tstr f :
  exists r, parse_file uc tstr [] f = Ok r /\
            (front_incomplete_leaves uc tstr [] f <= match r with Some pd => length (p_errors pd) | None => 0 end)%nat.
Proof. apply incomplete_file_is_diagnosed. exact acc_no_target. Qed.

(* ---------- 7. regression pins: the inputs that panicked before the /repo fixes, and what they yield now ---------- *)
Definition a_ts : attr := {| a_inner := false; a_meta := MPath [lit "typeshare"] |}.
Definition a_serde (l : list meta) : attr := {| a_inner := false; a_meta := MList [lit "serde"] (Some l) None |}.
Definition a_camel : attr := a_serde [MNV [lit "rename_all"] (VStr (lit "camelCase"))].
Definition a_tagc : attr := a_serde [MNV [lit "tag"] (VStr (lit "t")); MNV [lit "content"] (VStr (lit "c"))].
Definition t_u8 : ty := TPath [] (lit "u8") [].
Definition fld (attrs : list attr) (name : str) (t : ty) : field := {| f_attrs := attrs; f_ident := Some name; f_ty := t |}.
Definition st1 (attrs : list attr) (f : field) : item := IStruct (a_ts :: attrs) (lit "S") [] (FNamed [f]).
Definition no_tstr : str -> option ty := fun _ => None.
Definition a_foo_bar : attr :=
  {| a_inner := false;
     a_meta := MList [lit "typeshare"] (Some [MList [lit "foo"] (Some [MPath [lit "bar"]]) (Some [(lit "bar", None)])]) None |}.

(* the item is in the diagnosed class and ends in exactly this error *)
Definition diagnosed (it : item) (e : perr) : Prop :=
  is_leaf_item it = true /\ leaf_complete uc_exec no_tstr [] it = false /\ parse_leaf uc_exec no_tstr [] it = Err e.

(* #[typeshare] struct S();   (parser.rs:287) *)
Lemma C07_parser_287_fixed : diagnosed (IStruct [a_ts] (lit "S") [] (FUnnamed [])) (EUnsupportedTypeP (lit "S()")).
Proof. vm_compute. repeat split. Qed.
(* #[typeshare] #[serde(tag = "t", content = "c")] enum E { V() }   (parser.rs:445) *)
Lemma C07_parser_445_fixed :
  diagnosed (IEnum [a_ts; a_tagc] (lit "E") [] [{| v_attrs := []; v_ident := lit "V"; v_fields := FUnnamed [] |}])
            (EUnsupportedTypeP (lit "V()")).
Proof. vm_compute. repeat split. Qed.
(* struct S { #[typeshare(foo(bar))] a: u8 }   (parser.rs:737): the list is ignored - no decorator, and the
   struct parses exactly as without the attribute *)
Lemma C07_parser_737_fixed :
  get_field_decorators uc_exec [a_foo_bar] = Ok [] /\
  is_ok (parse_leaf uc_exec no_tstr [] (st1 [] (fld [a_foo_bar] (lit "a") t_u8))) = true /\
  parse_leaf uc_exec no_tstr [] (st1 [] (fld [a_foo_bar] (lit "a") t_u8)) =
  parse_leaf uc_exec no_tstr [] (st1 [] (fld [] (lit "a") t_u8)).
Proof. vm_compute. repeat split. Qed.
(* struct S { a: Vec } / Option / HashMap / HashMap<String> / Cow<'static>   (rust_types.rs:366-383) *)
Lemma C07_rust_types_366_fixed : diagnosed (st1 [] (fld [] (lit "a") (TPath [] (lit "Vec") []))) (EUnsupportedType [lit "Vec"]).
Proof. vm_compute. repeat split. Qed.
Lemma C07_rust_types_369_fixed : diagnosed (st1 [] (fld [] (lit "a") (TPath [] (lit "Option") []))) (EUnsupportedType [lit "Option"]).
Proof. vm_compute. repeat split. Qed.
Lemma C07_rust_types_374_fixed : diagnosed (st1 [] (fld [] (lit "a") (TPath [] (lit "HashMap") []))) (EUnsupportedType [lit "HashMap"]).
Proof. vm_compute. repeat split. Qed.
Lemma C07_rust_types_375_fixed :
  diagnosed (st1 [] (fld [] (lit "a") (TPath [] (lit "HashMap") [Some (TPath [] (lit "String") [])]))) (EUnsupportedType [lit "HashMap"]).
Proof. vm_compute. repeat split. Qed.
(* a lifetime argument does not count: Cow<'static> *)
Lemma C07_rust_types_383_fixed : diagnosed (st1 [] (fld [] (lit "a") (TPath [] (lit "Cow") [None]))) (EUnsupportedType [lit "Cow"]).
Proof. vm_compute. repeat split. Qed.

(* wire names of the fields of a parsed struct *)
Definition field_names_of (o : outcome ritem) : option (list str) :=
  match o with Ok (ItStruct s) => Some (map (fun f => renamed (fid f)) (sfields s)) | _ => None end.
(* #[serde(rename_all = "camelCase")] struct S { __: u8 }: the empty name;  { étoile: u8 } / { Étoile: u8 }: a
   non-ASCII first character is left alone   (rename.rs:22) *)
Lemma C07_rename_22_underscores_fixed :
  field_names_of (parse_leaf uc_exec no_tstr [] (st1 [a_camel] (fld [] (lit "__") t_u8))) = Some [[]].
Proof. vm_compute. reflexivity. Qed.
Lemma C07_rename_22_nonascii_fixed :
  field_names_of (parse_leaf uc_exec no_tstr [] (st1 [a_camel] (fld [] (233 :: lit "toile") t_u8))) = Some [233 :: lit "toile"] /\
  field_names_of (parse_leaf uc_exec no_tstr [] (st1 [a_camel] (fld [] (201 :: lit "toile_du_nord") t_u8))) = Some [201 :: lit "toileDuNord"].
Proof. vm_compute. split; reflexivity. Qed.

(* a file that exercises every operation that used to be guarded, the former panic triggers included:
   it parses to 5 items and 3 recorded errors *)
Definition nonvacuous_file : file :=
  {| fl_attrs := [];
     fl_items :=
       [ st1 [a_camel] (fld [] (lit "_user_id") (TPath [] (lit "Vec") [Some (TPath [lit "std"; lit "collections"] (lit "HashMap")
                                                      [Some (TPath [] (lit "String") []); Some (TPath [] (lit "Option") [Some t_u8])])]));
         (* former panic triggers, skipped / not annotated: no effect *)
         st1 [a_camel] (fld [a_serde [MPath [lit "skip"]]] (lit "__") (TPath [] (lit "Vec") []));
         IStruct [] (lit "Unannotated") [] (FUnnamed []);
         (* former panic triggers, live: three diagnosed items *)
         IStruct [a_ts] (lit "Empty") [] (FUnnamed []);
         st1 [] (fld [] (lit "a") (TPath [] (lit "Vec") [Some (TPath [] (lit "Box") [])]));
         IType [a_ts] (lit "M") [] (TPath [] (lit "HashMap") [Some t_u8]);
         INest [IEnum [a_ts; a_tagc; a_camel] (lit "E") []
                  [{| v_attrs := []; v_ident := lit "A"; v_fields := FUnit |};
                   {| v_attrs := []; v_ident := lit "B"; v_fields := FUnnamed [fld [] (lit "x") (TPath [] (lit "Box") [Some t_u8])] |};
                   {| v_attrs := [a_camel]; v_ident := lit "C";
                      v_fields := FNamed [fld [{| a_inner := false;
                                                  a_meta := MList [lit "typeshare"] (Some [MList [lit "swift"] None (Some [(lit "type", Some (lit "Int"))])]) None |};
                                               a_foo_bar]
                                              (lit "some_field") t_u8] |}]];
         IType [a_ts] (lit "Alias") [] (TPath [] (lit "Cow") [None; Some (TPath [] (lit "str") [])]);
         IConst [a_ts] (lit "K") (TPath [] (lit "u32") []) (CENeg (CEParen (CELit (CInt (Some (Zpos 7)))))) ];
     fl_paths := []; fl_marker := true |}.

Example C07_nonvacuous :
  List.length (expected_leaves [] nonvacuous_file) = 8%nat /\
  front_incomplete_leaves uc_exec no_tstr [] nonvacuous_file = 3%nat /\
  match parse_file uc_exec no_tstr [] nonvacuous_file with
  | Ok (Some pd) => count_items pd = 8%nat /\
                    p_errors pd = [EUnsupportedTypeP (lit "Empty()"); EUnsupportedType [lit "Box"]; EUnsupportedType [lit "HashMap"]]
  | _ => False
  end.
Proof. vm_compute. repeat split. Qed.
