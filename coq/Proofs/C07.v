(* C07 (front end): on the declarative domain of Spec/C07Spec.v the front end - type parser, renaming,
   field decorators, the four item parsers, the visitor and parse_file - never reaches one of its
   partial operations (no [Panic]).

   Termination: every function of Model/ is a Gallina [Fixpoint]/[Definition], hence total by
   construction; the only non-structural loop of the front end (TargetOsIterator) carries explicit
   fuel and Proofs/C13.walk_terminates shows the fuel suffices.  So "the model of the front end
   terminates" needs no theorem of its own; what is proved here is that the outcome is never [Panic],
   and (all_results_accounted) that every wanted item ends up either generated or recorded as an error.

   NOT covered here (see Props/C07.v): the six back ends, topsort's dependency recursion, the CLI. *)
From Coq Require Import String Lia ZifyBool ZifyN.
From TS Require Import Model.Str Model.Outcome Model.Unicode Model.Syntax Model.Attrs Model.TargetOs
                       Model.Rename Model.Types Model.Parse.
From TS Require Import Spec.Serde Spec.TargetOsRule Spec.C03Spec Spec.C07Spec.
From TS Require Import Proofs.C13 Proofs.FrontAttrs Proofs.FrontTypes Proofs.FrontItems.
Local Open Scope N_scope.
Local Notation length := List.length (only parsing).

(* ---------- generic facts about the outcome monad ---------- *)
Lemma bind_no_panic {A B} (x : outcome A) (f : A -> outcome B) :
  is_panic x = false -> (forall a, is_panic (f a) = false) -> is_panic (bind x f) = false.
Proof. destruct x as [a|e|s]; cbn [bind is_panic]; intros Hx Hf; [apply Hf|reflexivity|discriminate]. Qed.

Lemma mapM_no_panic {A B} (f : A -> outcome B) l :
  (forall x, In x l -> is_panic (f x) = false) -> is_panic (mapM f l) = false.
Proof.
  induction l as [|x r IH]; intros H; [reflexivity|]. cbn [mapM].
  apply bind_no_panic; [apply H; now left|]. intros y.
  apply bind_no_panic; [apply IH; intros z Hz; apply H; now right|]. reflexivity.
Qed.

(* ---------- 1. the type parser ---------- *)
Lemma parse_args_length args : forall ps, parse_args args = Ok ps -> length ps = count_type_args args.
Proof.
  induction args as [|o r IH]; intros ps; cbn [parse_args].
  - intros [= <-]. reflexivity.
  - destruct o as [a|].
    + destruct (parse_ty a) as [x| |]; cbn [bind]; try discriminate.
      destruct (parse_args r) as [xs| |]; cbn [bind]; try discriminate.
      intros [= <-]. cbn [List.length]. rewrite (IH xs eq_refl). reflexivity.
    + intros H. rewrite (IH ps H). reflexivity.
Qed.

Lemma parse_args_no_panic args :
  Forall (fun o => match o with Some t => ty_safe t = true -> is_panic (parse_ty t) = false | None => True end) args ->
  (fix go (l : list (option ty)) : bool :=
     match l with [] => true | None :: r => go r | Some x :: r => ty_safe x && go r end) args = true ->
  is_panic (parse_args args) = false.
Proof.
  induction 1 as [|o r Ho _ IH]; intros H; [reflexivity|].
  destruct o as [x|]; cbn [parse_args].
  - apply andb_true_iff in H as [H1 H2].
    apply bind_no_panic; [now apply Ho|]. intros y.
    apply bind_no_panic; [now apply IH|]. reflexivity.
  - now apply IH.
Qed.

Lemma needs_one_unfold id :
  mem_str id NEEDS_ONE = str_eqb id (lit "Vec") || (str_eqb id (lit "Option") || mem_str id SMART_POINTERS).
Proof. reflexivity. Qed.

(* the `match id.as_str()` of rust_types.rs:364-406 with enough parsed parameters *)
Lemma path_dispatch_no_panic id ps :
  (if mem_str id NEEDS_ONE then Nat.leb 1 (length ps)
   else if str_eqb id (lit "HashMap") then Nat.leb 2 (length ps) else true) = true ->
  is_panic (path_dispatch id ps) = false.
Proof.
  rewrite needs_one_unfold. unfold path_dispatch.
  destruct (str_eqb id (lit "Vec")) eqn:EV; cbn [orb].
  { destruct ps; cbn; [discriminate|reflexivity]. }
  destruct (str_eqb id (lit "Option")) eqn:EO; cbn [orb].
  { destruct ps; cbn; [discriminate|reflexivity]. }
  destruct (str_eqb id (lit "HashMap")) eqn:EH.
  { apply str_eqb_eq in EH. subst id.
    change (mem_str (lit "HashMap") SMART_POINTERS) with false. cbv iota.
    destruct ps as [|? [|? ?]]; cbn; try discriminate; reflexivity. }
  destruct (mem_str id SMART_POINTERS).
  { destruct ps; cbn; [discriminate|reflexivity]. }
  intros _. destruct (mem_str id UNSUPPORTED_INTS); [reflexivity|].
  destruct (prim_of_name id); [reflexivity|]. destruct ps; reflexivity.
Qed.

Theorem ty_safe_no_panic t : ty_safe t = true -> is_panic (parse_ty t) = false.
Proof.
  induction t as [q id args IH|t IH|l IH|t n IH|t IH|] using ty_ind'; intros H.
  - rewrite parse_ty_path. cbn [ty_safe] in H. apply andb_true_iff in H as [Ha Hd].
    pose proof (parse_args_no_panic args IH Ha) as Hn.
    destruct (parse_args args) as [ps| |] eqn:E; cbn [bind]; [|reflexivity|discriminate].
    apply path_dispatch_no_panic. rewrite (parse_args_length args ps E). exact Hd.
  - cbn [parse_ty]. now apply IH.
  - destruct l; reflexivity.
  - cbn [ty_safe] in H. specialize (IH H). cbn [parse_ty]. destruct n as [k|]; [|reflexivity].
    apply bind_no_panic; [exact IH|]. intros x. destruct k; reflexivity.
  - cbn [ty_safe] in H. specialize (IH H). cbn [parse_ty].
    apply bind_no_panic; [exact IH|]. reflexivity.
  - reflexivity.
Qed.

(* ---------- 2. renaming (rename.rs:22 is the only partial operation) ---------- *)
Lemma pascal_first tolow s c : first_significant s = Some c ->
  exists r, pascal_go tolow true s = aupper c :: r.
Proof.
  induction s as [|c0 r IH]; cbn [first_significant pascal_go]; [discriminate|].
  destruct (c0 =? ch_us); [exact IH|]. intros [= ->]. eauto.
Qed.

Lemma pascal_empty tolow s : first_significant s = None -> pascal_go tolow true s = [].
Proof.
  induction s as [|c0 r IH]; cbn [first_significant pascal_go]; [reflexivity|].
  destruct (c0 =? ch_us); [exact IH|discriminate].
Qed.

Lemma aupper_ascii c : (aupper c <? 128) = (c <? 128).
Proof. unfold aupper, is_alower. destruct ((97 <=? c) && (c <=? 122)) eqn:E; lia. Qed.

(* since the /repo fix of to_camel_case (no byte slicing) it never panics, whatever the identifier *)
Theorem camel_never_panics s : is_panic (to_camel_case s) = false.
Proof. unfold to_camel_case. destruct (to_pascal_case s); reflexivity. Qed.

Theorem rename_safe_no_panic uc rule ident :
  rename_safe rule ident = true -> is_panic (rename_all_to_case uc ident rule) = false.
Proof.
  unfold rename_safe, rename_all_to_case. destruct rule as [v|]; [|reflexivity].
  destruct (str_eqb v (lit "lowercase")); [reflexivity|].
  destruct (str_eqb v (lit "UPPERCASE")); [reflexivity|].
  destruct (str_eqb v (lit "PascalCase")); [reflexivity|].
  destruct (str_eqb v (lit "camelCase")).
  - intros _. apply camel_never_panics.
  - intros _. repeat (match goal with |- context [str_eqb v ?x] => destruct (str_eqb v x); [reflexivity|] end).
    reflexivity.
Qed.

(* ---------- 3. field decorators (parser.rs:737) ---------- *)
Lemma lang_name_ok_some uc name : lang_name_ok uc name = true -> exists l, lang_of_str uc name = Some l.
Proof.
  unfold lang_name_ok, lang_of_str. cbv zeta. generalize (str_to_lowercase uc name). intros l.
  unfold mem_str. cbn [existsb].
  destruct (str_eqb l (lit "go")); [eauto|].
  destruct (str_eqb l (lit "kotlin")); [eauto|].
  destruct (str_eqb l (lit "scala")); [eauto|].
  destruct (str_eqb l (lit "swift")); [eauto|].
  destruct (str_eqb l (lit "typescript")); [eauto|].
  destruct (str_eqb l (lit "python")); [eauto|]. discriminate.
Qed.

Theorem decorators_safe_no_panic uc attrs :
  decorators_safe uc attrs = true -> is_panic (get_field_decorators uc attrs) = false.
Proof.
  unfold decorators_safe, get_field_decorators. intros H. cbv zeta.
  assert (Hl : forallb (fun m => match m with MList [name] _ _ => lang_name_ok uc name | _ => true end)
                       (flat_map (fun a => get_meta_items a TYPESHARE) attrs) = true).
  { induction attrs as [|a r IH]; [reflexivity|]. cbn [forallb flat_map] in *.
    apply andb_true_iff in H as [H1 H2]. rewrite forallb_app, H1. now apply IH. }
  clear H. revert Hl. generalize (flat_map (fun a => get_meta_items a TYPESHARE) attrs). intros l Hl.
  match goal with |- is_panic (fold_left ?f _ _) = false => set (F := f) end.
  assert (G : forall acc : outcome fdecmap, is_panic acc = false -> is_panic (fold_left F l acc) = false).
  { induction l as [|m r IH]; intros acc Ha; [exact Ha|]. cbn [fold_left].
    cbn [forallb] in Hl. apply andb_true_iff in Hl as [Hm Hr]. apply (IH Hr).
    subst F. cbv beta. apply bind_no_panic; [exact Ha|]. intros mp.
    destruct m as [p|p args dargs|p v]; try reflexivity.
    destruct p as [|name [|? ?]]; try reflexivity.
    destruct (lang_name_ok_some uc name Hm) as [lg ->]. reflexivity. }
  apply G. reflexivity.
Qed.

(* ---------- get_ident ---------- *)
Lemma get_ident_no_panic uc i attrs rule :
  rename_safe rule (ident_of i) = true -> is_panic (get_ident uc i attrs rule) = false.
Proof.
  intros H. unfold get_ident. cbv zeta.
  apply bind_no_panic; [exact (rename_safe_no_panic uc rule (ident_of i) H)|]. intros r.
  destruct (serde_rename uc attrs); reflexivity.
Qed.

(* without a rename_all rule (type names) get_ident cannot fail at all *)
Lemma get_ident_plain_no_panic uc i attrs : is_panic (get_ident uc i attrs None) = false.
Proof. apply get_ident_no_panic. reflexivity. Qed.

(* ---------- 4. the item parsers ---------- *)
Definition is_leaf_item (it : item) : bool :=
  match it with IUse _ | INest _ => false | _ => true end.

Section U.
Variable uc : unicode.
Variable tstr : str -> option ty.
Variable T : list str.
(* the skip decision of the code is the documented one (true without --target-os, and for every
   attribute list whose cfg predicates parse: C13) *)
Hypothesis Hskip : forall attrs, is_skipped T attrs = skipped7 T attrs.

Lemma effective_ty_no_panic attrs declared : effective_ty_safe uc tstr attrs declared = true ->
  is_panic (match get_serialized_as_type uc attrs with
            | Some s => parse_ty_str tstr s
            | None => parse_ty declared
            end) = false.
Proof.
  unfold effective_ty_safe, parse_ty_str. destruct (get_serialized_as_type uc attrs) as [s|].
  - destruct (tstr s) as [t|]; [apply ty_safe_no_panic|reflexivity].
  - apply ty_safe_no_panic.
Qed.

Lemma field_type_no_panic f :
  effective_ty_safe uc tstr (f_attrs f) (f_ty f) = true -> is_panic (field_type uc tstr f) = false.
Proof. apply effective_ty_no_panic. Qed.

Lemma serialized_as_no_panic s :
  match tstr s with Some t => ty_safe t | None => true end = true -> is_panic (parse_ty_str tstr s) = false.
Proof. unfold parse_ty_str. destruct (tstr s); [apply ty_safe_no_panic|reflexivity]. Qed.

Lemma parse_field_no_panic cf rule f :
  is_skipped T (f_attrs f) = false -> field_safe uc tstr T rule f = true ->
  is_panic (parse_field uc tstr cf rule f) = false.
Proof.
  intros Hs H. unfold field_safe in H. rewrite <- Hskip, Hs in H. cbn [orb] in H.
  apply andb_true_iff in H as [H Hr]. apply andb_true_iff in H as [Ht Hd].
  unfold parse_field. apply bind_no_panic; [now apply field_type_no_panic|]. intros t.
  destruct (cf && serde_flatten (f_attrs f)); [reflexivity|].
  apply bind_no_panic; [now apply decorators_safe_no_panic|]. intros decs.
  apply bind_no_panic; [now apply get_ident_no_panic|]. reflexivity.
Qed.

Lemma fields_no_panic cf rule l : forallb (field_safe uc tstr T rule) l = true ->
  is_panic (mapM (parse_field uc tstr cf rule) (filter (fun f => negb (is_skipped T (f_attrs f))) l)) = false.
Proof.
  intros H. apply mapM_no_panic. intros f Hin. apply filter_In in Hin as [Hin Hs].
  apply negb_true_iff in Hs. apply parse_field_no_panic; [exact Hs|].
  rewrite forallb_forall in H. now apply H.
Qed.

Lemma mk_alias_no_panic attrs ident gens t : is_panic (mk_alias uc attrs ident gens t) = false.
Proof. unfold mk_alias. apply bind_no_panic; [apply get_ident_plain_no_panic|]. reflexivity. Qed.

Theorem struct_no_panic attrs ident gens fs :
  leaf_safe uc tstr T (IStruct attrs ident gens fs) = true ->
  is_panic (parse_struct uc tstr T attrs ident gens fs) = false.
Proof.
  cbn [leaf_safe]. unfold parse_struct. cbv zeta. destruct (get_serialized_as_type uc attrs) as [s|].
  - intros H. apply bind_no_panic; [apply get_ident_plain_no_panic|]. intros i.
    apply bind_no_panic; [now apply serialized_as_no_panic|]. reflexivity.
  - destruct fs as [l|l|].
    + intros H. apply bind_no_panic; [now apply fields_no_panic|]. intros fields.
      apply bind_no_panic; [apply get_ident_plain_no_panic|]. reflexivity.
    + destruct l as [|f [|f2 r]]; [discriminate| |reflexivity].
      intros H. apply bind_no_panic; [now apply field_type_no_panic|]. intros t.
      apply mk_alias_no_panic.
    + intros _. apply bind_no_panic; [apply get_ident_plain_no_panic|]. reflexivity.
Qed.

Lemma variant_no_panic rule v :
  is_skipped T (v_attrs v) = false -> variant_safe uc tstr T rule v = true ->
  is_panic (parse_enum_variant uc tstr T rule v) = false.
Proof.
  intros Hs H. unfold variant_safe in H. rewrite <- Hskip, Hs in H. cbn [orb] in H.
  apply andb_true_iff in H as [Hr H]. unfold parse_enum_variant.
  apply bind_no_panic; [now apply get_ident_no_panic|]. intros i. cbv zeta.
  destruct (v_fields v) as [l|l|].
  - apply bind_no_panic; [now apply fields_no_panic|]. reflexivity.
  - destruct l as [|f [|f2 r]]; [discriminate| |reflexivity].
    apply bind_no_panic; [now apply field_type_no_panic|]. reflexivity.
  - reflexivity.
Qed.

Theorem enum_no_panic attrs ident gens vs :
  leaf_safe uc tstr T (IEnum attrs ident gens vs) = true ->
  is_panic (parse_enum uc tstr T attrs ident gens vs) = false.
Proof.
  cbn [leaf_safe]. unfold parse_enum. cbv zeta. destruct (get_serialized_as_type uc attrs) as [s|].
  - intros H. apply bind_no_panic; [apply get_ident_plain_no_panic|]. intros i.
    apply bind_no_panic; [now apply serialized_as_no_panic|]. reflexivity.
  - intros H. apply bind_no_panic.
    + apply mapM_no_panic. intros v Hin. apply filter_In in Hin as [Hin Hs]. apply negb_true_iff in Hs.
      apply variant_no_panic; [exact Hs|]. rewrite forallb_forall in H. now apply H.
    + intros variants. apply bind_no_panic; [apply get_ident_plain_no_panic|]. intros i.
      destruct (forallb _ variants); destruct (get_tag_key uc attrs); destruct (get_content_key uc attrs); reflexivity.
Qed.

Theorem alias_no_panic attrs ident gens t :
  leaf_safe uc tstr T (IType attrs ident gens t) = true ->
  is_panic (parse_type_alias uc tstr attrs ident gens t) = false.
Proof.
  cbn [leaf_safe]. unfold parse_type_alias. intros H.
  apply bind_no_panic; [now apply effective_ty_no_panic|]. intros rt. apply mk_alias_no_panic.
Qed.

Theorem const_no_panic attrs ident t e :
  leaf_safe uc tstr T (IConst attrs ident t e) = true ->
  is_panic (parse_const uc tstr attrs ident t e) = false.
Proof.
  cbn [leaf_safe]. unfold parse_const. intros H. apply bind_no_panic.
  - destruct (ce_first_lit e) as [[[z|]|]|]; reflexivity.
  - intros v. apply bind_no_panic; [now apply effective_ty_no_panic|]. intros rt.
    destruct rt; try reflexivity; (apply bind_no_panic; [apply get_ident_plain_no_panic|reflexivity]).
Qed.

Theorem leaf_safe_no_panic it :
  is_leaf_item it = true -> leaf_safe uc tstr T it = true -> is_panic (parse_leaf uc tstr T it) = false.
Proof.
  destruct it as [a i g fs|a i g vs|a i g t|a i t e|u|inner]; cbn [is_leaf_item parse_leaf]; intros Hl H; try discriminate.
  - now apply struct_no_panic.
  - now apply enum_no_panic.
  - now apply alias_no_panic.
  - now apply const_no_panic.
Qed.
End U.

(* ---------- 5. the visitor and parse_file ---------- *)
Lemma annotated_spec attrs : has_typeshare_annotation attrs = annotated attrs.
Proof.
  unfold has_typeshare_annotation, annotated, mem_str, TYPESHARE. apply existsb_ext'. intros a.
  apply existsb_ext'. intros seg. apply str_eqb_sym.
Qed.

Lemma leaves_are_leaves it : Forall (fun x => is_leaf_item x = true) (leaves it).
Proof.
  induction it as [a i g fs|a i g vs|a i g t|a i t e|u|inner IH] using item_ind'; cbn [leaves];
    try (constructor; [reflexivity|constructor]).
  - constructor.
  - induction IH as [|x r Hx _ IHr]; [constructor|]. apply Forall_app. split; assumption.
Qed.

Lemma leaves_of_are_leaves l : Forall (fun x => is_leaf_item x = true) (leaves_of l).
Proof.
  unfold leaves_of. induction l as [|x r IH]; cbn [flat_map]; [constructor|].
  apply Forall_app. split; [apply leaves_are_leaves|exact IH].
Qed.

Lemma fold_collect_no_panic results : forall pd,
  Forall (fun r : outcome ritem => is_panic r = false) results -> is_panic (fold_collect results pd) = false.
Proof.
  induction results as [|r rs IH]; intros pd H; [reflexivity|].
  change (r :: rs) with ([r] ++ rs). rewrite fold_collect_app.
  inversion H as [|? ? Hr Hrs]; subst.
  apply bind_no_panic; [|intros p; now apply IH].
  unfold fold_collect. cbn [fold_left bind]. destruct r as [it|e|s]; [reflexivity|reflexivity|discriminate].
Qed.

Section File.
Variable uc : unicode.
Variable tstr : str -> option ty.
Variable T : list str.
(* the code's --target-os decision is the documented rule (C13: holds for every attribute list
   whose cfg predicates parse; outright for T = []) *)
Hypothesis Hacc : forall attrs, accepts T attrs = os_rule attrs T.

Lemma skip_from_acc attrs : is_skipped T attrs = skipped7 T attrs.
Proof. unfold is_skipped, skipped7. now rewrite skip_marker_spec, Hacc. Qed.

Lemma wanted_is_expected it : wanted T (leaf_attrs it) = expected_leaf T it.
Proof. unfold wanted, expected_leaf. now rewrite annotated_spec, Hacc. Qed.

Theorem visit_items_no_panic l pd :
  forallb (leaf_safe uc tstr T) (filter (expected_leaf T) (leaves_of l)) = true ->
  is_panic (visit_items uc tstr T l pd) = false.
Proof.
  intros H. rewrite visit_items_spec. apply fold_collect_no_panic.
  unfold wanted_results. apply Forall_map. apply Forall_forall. intros it Hin.
  apply filter_In in Hin as [Hin Hw]. rewrite wanted_is_expected in Hw.
  apply leaf_safe_no_panic.
  - exact skip_from_acc.
  - pose proof (leaves_of_are_leaves l) as HL. rewrite Forall_forall in HL. now apply HL.
  - rewrite forallb_forall in H. apply H. apply filter_In. now split.
Qed.

Theorem front_safe_no_panic f :
  front_safe uc tstr T f = true -> is_panic (parse_file uc tstr T f) = false.
Proof.
  unfold front_safe, expected_leaves, parse_file. destruct (fl_marker f); cbn [negb andb]; [|reflexivity].
  rewrite Hacc. destruct (os_rule (fl_attrs f) T).
  - intros H. apply bind_no_panic; [now apply visit_items_no_panic|]. reflexivity.
  - reflexivity.
Qed.

(* nothing is dropped: every wanted leaf is either pushed or recorded as an error *)
Theorem all_results_accounted l pd pd' :
  visit_items uc tstr T l pd = Ok pd' ->
  count_items pd' = (count_items pd + length (filter (expected_leaf T) (leaves_of l)))%nat.
Proof.
  rewrite visit_items_spec. intros H. apply fold_collect_count in H. rewrite H. f_equal.
  unfold wanted_results. rewrite map_length. f_equal. apply filter_ext. intros it. apply wanted_is_expected.
Qed.
End File.

(* without --target-os both hypotheses hold outright *)
Lemma acc_no_target attrs : accepts [] attrs = os_rule attrs [].
Proof. reflexivity. Qed.

Lemma skip7_no_target attrs : is_skipped [] attrs = skipped7 [] attrs.
Proof. apply skip_from_acc. exact acc_no_target. Qed.

(* ... and, with --target-os, on every attribute list whose cfg predicates parse (C13) *)
Lemma acc_when_cfg_parsable T attrs : cfg_parsable attrs = true -> accepts T attrs = os_rule attrs T.
Proof. intros H. unfold accepts. now rewrite (accept_is_rule attrs T H). Qed.

Theorem leaf_safe_no_panic_no_target uc tstr it :
  is_leaf_item it = true -> leaf_safe uc tstr [] it = true -> is_panic (parse_leaf uc tstr [] it) = false.
Proof. apply leaf_safe_no_panic. exact skip7_no_target. Qed.

Theorem front_safe_no_panic_no_target uc tstr f :
  front_safe uc tstr [] f = true -> is_panic (parse_file uc tstr [] f) = false.
Proof. apply front_safe_no_panic. exact acc_no_target. Qed.

(* ---------- 7. witnesses: each carve-out is necessary (one per front-end panic site) ---------- *)
Definition a_ts : attr := {| a_inner := false; a_meta := MPath [lit "typeshare"] |}.
Definition a_serde (l : list meta) : attr := {| a_inner := false; a_meta := MList [lit "serde"] (Some l) None |}.
Definition a_camel : attr := a_serde [MNV [lit "rename_all"] (VStr (lit "camelCase"))].
Definition a_tagc : attr := a_serde [MNV [lit "tag"] (VStr (lit "t")); MNV [lit "content"] (VStr (lit "c"))].
Definition t_u8 : ty := TPath [] (lit "u8") [].
Definition fld (attrs : list attr) (name : str) (t : ty) : field := {| f_attrs := attrs; f_ident := Some name; f_ty := t |}.
Definition st1 (attrs : list attr) (f : field) : item := IStruct (a_ts :: attrs) (lit "S") [] (FNamed [f]).
Definition no_tstr : str -> option ty := fun _ => None.

Definition refutes (it : item) (site : string) : Prop :=
  is_leaf_item it = true /\ leaf_safe uc_exec no_tstr [] it = false /\ parse_leaf uc_exec no_tstr [] it = Panic site.

(* #[typeshare] struct S(); *)
Lemma C07_parser_287_refuted : refutes (IStruct [a_ts] (lit "S") [] (FUnnamed [])) "parser.rs:287".
Proof. vm_compute. repeat split. Qed.
(* #[typeshare] #[serde(tag = "t", content = "c")] enum E { V() } *)
Lemma C07_parser_445_refuted :
  refutes (IEnum [a_ts; a_tagc] (lit "E") [] [{| v_attrs := []; v_ident := lit "V"; v_fields := FUnnamed [] |}]) "parser.rs:445".
Proof. vm_compute. repeat split. Qed.
(* struct S { #[typeshare(foo(bar))] a: u8 } *)
Lemma C07_parser_737_refuted :
  refutes (st1 [] (fld [{| a_inner := false;
                           a_meta := MList [lit "typeshare"] (Some [MList [lit "foo"] (Some [MPath [lit "bar"]]) (Some [(lit "bar", None)])]) None |}]
                       (lit "a") t_u8)) "parser.rs:737".
Proof. vm_compute. repeat split. Qed.
(* struct S { a: Vec } / Option / HashMap / HashMap<String> / Box *)
Lemma C07_rust_types_366_refuted : refutes (st1 [] (fld [] (lit "a") (TPath [] (lit "Vec") []))) "rust_types.rs:366".
Proof. vm_compute. repeat split. Qed.
Lemma C07_rust_types_369_refuted : refutes (st1 [] (fld [] (lit "a") (TPath [] (lit "Option") []))) "rust_types.rs:369".
Proof. vm_compute. repeat split. Qed.
Lemma C07_rust_types_374_refuted : refutes (st1 [] (fld [] (lit "a") (TPath [] (lit "HashMap") []))) "rust_types.rs:374".
Proof. vm_compute. repeat split. Qed.
Lemma C07_rust_types_375_refuted :
  refutes (st1 [] (fld [] (lit "a") (TPath [] (lit "HashMap") [Some (TPath [] (lit "String") [])]))) "rust_types.rs:375".
Proof. vm_compute. repeat split. Qed.
(* a lifetime argument does not count: Cow<'static> *)
Lemma C07_rust_types_383_refuted : refutes (st1 [] (fld [] (lit "a") (TPath [] (lit "Cow") [None]))) "rust_types.rs:383".
Proof. vm_compute. repeat split. Qed.
(* #[serde(rename_all = "camelCase")] struct S { __: u8 }   and   { étoile: u8 } *)
Lemma C07_rename_22_underscores_refuted : refutes (st1 [a_camel] (fld [] (lit "__") t_u8)) "rename.rs:22".
Proof. vm_compute. repeat split. Qed.
Lemma C07_rename_22_nonascii_refuted : refutes (st1 [a_camel] (fld [] (233 :: lit "toile") t_u8)) "rename.rs:22".
Proof. vm_compute. repeat split. Qed.

(* the hypotheses are satisfiable on a file that exercises every guarded operation *)
Definition nonvacuous_file : file :=
  {| fl_attrs := [];
     fl_items :=
       [ st1 [a_camel] (fld [] (lit "_user_id") (TPath [] (lit "Vec") [Some (TPath [lit "std"; lit "collections"] (lit "HashMap")
                                                      [Some (TPath [] (lit "String") []); Some (TPath [] (lit "Option") [Some t_u8])])]));
         (* the same panic triggers, but skipped / not annotated: outside the obligation *)
         st1 [a_camel] (fld [a_serde [MPath [lit "skip"]]] (lit "__") (TPath [] (lit "Vec") []));
         IStruct [] (lit "Unannotated") [] (FUnnamed []);
         INest [IEnum [a_ts; a_tagc; a_camel] (lit "E") []
                  [{| v_attrs := []; v_ident := lit "A"; v_fields := FUnit |};
                   {| v_attrs := []; v_ident := lit "B"; v_fields := FUnnamed [fld [] (lit "x") (TPath [] (lit "Box") [Some t_u8])] |};
                   {| v_attrs := [a_camel]; v_ident := lit "C";
                      v_fields := FNamed [fld [{| a_inner := false;
                                                  a_meta := MList [lit "typeshare"] (Some [MList [lit "swift"] None (Some [(lit "type", Some (lit "Int"))])]) None |}]
                                              (lit "some_field") t_u8] |}]];
         IType [a_ts] (lit "Alias") [] (TPath [] (lit "Cow") [None; Some (TPath [] (lit "str") [])]);
         IConst [a_ts] (lit "K") (TPath [] (lit "u32") []) {| ce_first_lit := Some (CInt (Some (Zpos 7))); ce_plain := Some (Zpos 7) |} ];
     fl_paths := []; fl_marker := true |}.

Example C07_nonvacuous :
  front_safe uc_exec no_tstr [] nonvacuous_file = true /\
  List.length (expected_leaves [] nonvacuous_file) = 5%nat /\
  match parse_file uc_exec no_tstr [] nonvacuous_file with
  | Ok (Some pd) => count_items pd = 5%nat /\ p_errors pd = []
  | _ => False
  end.
Proof. vm_compute. repeat split. Qed.
