(* C05: use sites. Every place where an item carries a type expression translates it with the generics
   list of the enclosing item: struct fields, alias targets, tuple-variant payloads, const types (no
   generics). The one exception of the unchanged tree - Kotlin's @JvmInline value classes - is refuted. *)
From Coq Require Import String List Lia ZArith.
From TS Require Import Model.Str Model.Outcome Model.Unicode Model.Syntax Model.Types Model.Lang.Common Model.Lang.Decl
                       Model.Lang.TypeScript Model.Lang.Kotlin Model.Lang.Scala Model.Lang.Swift Model.Lang.Go Model.Lang.Python
                       Spec.C05Spec Proofs.C05 Proofs.C05_Back.
Import ListNotations.

(* a field whose declared type is inside the quantifier, outside the classes, and not overridden *)
Definition c05_field_ok (L : lang) (c : c05_cfg) (g : list str) (f : rfield) : Prop :=
  dom_C05 (fty f) = true /\ known_C05 L c g (fty f) = None /\ type_override f L = None.

Lemma mapM_ok_map {A B} (f : A -> outcome B) (h : A -> B) l :
  (forall x, In x l -> f x = Ok (h x)) -> mapM f l = Ok (map h l).
Proof.
  induction l as [|x l IH]; intros H; [reflexivity|].
  cbn [mapM map]. rewrite (H x (or_introl eq_refl)). cbn [bind]. rewrite IH; [reflexivity|].
  intros y Hy. apply H. now right.
Qed.

Lemma mmapM_sat {St A B} (f : A -> M St B) (P : A -> B -> Prop) l :
  (forall x, In x l -> runs_sat (f x) (P x)) -> runs_sat (mmapM f l) (fun ys => Forall2 P l ys).
Proof.
  induction l as [|x l IH]; intros H; cbn [mmapM].
  - apply sat_ret. constructor.
  - eapply sat_bind; [apply H; now left|]. intros y Hy.
    eapply sat_bind; [apply IH; intros z Hz; apply H; now right|]. intros ys Hys.
    apply sat_ret. now constructor.
Qed.

Lemma runs_to_sat {St A} (mm : M St A) (a : A) : runs_to mm a -> runs_sat mm (fun x => x = a).
Proof. intros H st. destruct (H st) as [s' E]. eauto. Qed.

Lemma total_sat {St A} (mm : M St A) : (forall st, exists a st', mm st = Ok (a, st')) -> runs_sat mm (fun _ => True).
Proof. intros H st. destruct (H st) as [a [s' E]]. eauto. Qed.

Lemma Forall2_map_eq {A B C} (l : list A) (r : list B) (p : B -> C) (q : A -> C) :
  Forall2 (fun x y => p y = q x) l r -> map p r = map q l.
Proof. induction 1; cbn; congruence. Qed.

Lemma Forall2_eq_map {A B} (h : A -> B) l ys : Forall2 (fun a b => b = h a) l ys -> ys = map h l.
Proof. induction 1; cbn; congruence. Qed.

(* ====================================================================================== *)
(* Kotlin                                                                                  *)
(* ====================================================================================== *)
Section KT.
Variable cfg : kt_config.
Notation c := (c05_kt_cfg cfg).
Notation erase := (c05_erase Kotlin (c05_kt_cfg cfg)).

Lemma kt_member_type f g rsn vis : c05_field_ok Kotlin c g f ->
  exists mm, kt_member_of cfg f g rsn vis = Ok mm /\ km_type mm = erase g (fty f).
Proof.
  intros [Hd [Hk Ho]]. unfold kt_member_of. rewrite Ho, (C05_fmt_kt cfg g (fty f) Hd Hk). cbn [bind]. eauto.
Qed.

Theorem C05_site_kt_struct rs :
  sfields rs <> [] -> Forall (c05_field_ok Kotlin c (sgenerics rs)) (sfields rs) ->
  exists docs name ms ts, kt_struct_decl cfg rs = Ok (KTDataClass docs name (sgenerics rs) ms ts) /\
                          map km_type ms = map (fun f => erase (sgenerics rs) (fty f)) (sfields rs).
Proof.
  intros Hne Hall. unfold kt_struct_decl. destruct (sfields rs) as [|f0 fs] eqn:Ef; [congruence|].
  set (rsn := existsb _ _).
  assert (H : forall l, Forall (c05_field_ok Kotlin c (sgenerics rs)) l ->
                        exists ms, mapM (fun f => kt_member_of cfg f (sgenerics rs) rsn KtPublic) l = Ok ms /\
                                   map km_type ms = map (fun f => erase (sgenerics rs) (fty f)) l).
  { induction 1 as [|x l Hx Hl IH]; [exists []; auto|].
    destruct (kt_member_type x (sgenerics rs) rsn KtPublic Hx) as [mm [E1 E2]]. destruct IH as [ms [E3 E4]].
    exists (mm :: ms). cbn [mapM map]. rewrite E1. cbn [bind]. rewrite E3. cbn [bind]. split; congruence. }
  destruct (H _ Hall) as [ms [E1 E2]]. rewrite E1. cbn [bind]. eauto 8.
Qed.

Theorem C05_site_kt_alias a :
  kt_is_inline (adecs a) = false -> dom_C05 (atype a) = true -> known_C05 Kotlin c (agenerics a) (atype a) = None ->
  exists docs name, kt_alias_decl cfg a = Ok (KTTypeAlias docs name (agenerics a) (erase (agenerics a) (atype a))).
Proof.
  intros Hi Hd Hk. unfold kt_alias_decl. rewrite Hi, (C05_fmt_kt cfg _ _ Hd Hk). cbn [bind]. eauto.
Qed.

Theorem C05_site_kt_payload sh t vsh :
  dom_C05 t = true -> known_C05 Kotlin c (egenerics sh) t = None ->
  exists v, kt_variant_of cfg sh (VTuple t vsh) = Ok v /\ kv_payload v = KTPNewtype (erase (egenerics sh) t).
Proof.
  intros Hd Hk. unfold kt_variant_of. rewrite (C05_fmt_kt cfg _ _ Hd Hk). cbn [bind]. eauto.
Qed.

(* the value class of an inline alias is formatted with NO generics: that is what the spec demands
   exactly when no generic parameter of the alias survives in the target or the prefix is empty ... *)
Theorem C05_site_kt_inline_alias a :
  kt_is_inline (adecs a) = true -> dom_C05 (atype a) = true -> known_C05 Kotlin c [] (atype a) = None ->
  exists docs name mm red, kt_alias_decl cfg a = Ok (KTValueClass docs name mm red) /\ km_type mm = erase [] (atype a).
Proof.
  intros Hi Hd Hk. unfold kt_alias_decl. rewrite Hi.
  match goal with |- context [kt_member_of cfg ?f [] ?r ?v] =>
    destruct (kt_member_type f [] r v) as [mm [E1 E2]]; [repeat split; auto|] end.
  rewrite E1. cbn [bind]. eauto 8.
Qed.
End KT.

(* ... and a finding otherwise: alias A1<T> = Vec<T> under prefix "P" becomes List<PT> *)
Theorem C05_kotlin_inline_generic_refuted :
  let cfg := c05_kt_with (lit "P") [] in
  let a := {| aid := {| original := lit "A1"; renamed := lit "A1"; via_serde_rename := false |}; agenerics := [lit "T"];
              atype := RVec (RSimple (lit "T")); acomments := []; adecs := [(DKKotlin, [lit "JvmInline"])]; aredacted := false |} in
  known_C05_site Kotlin (c05_kt_cfg cfg) C05SInlineAlias (agenerics a) (atype a) = Some C05S_kotlin_inline_generic /\
  exists docs name mm red, kt_alias_decl cfg a = Ok (KTValueClass docs name mm red) /\
    km_type mm = XName (lit "List") [XName (lit "PT") []] /\
    good_C05_site Kotlin (c05_kt_cfg cfg) C05SInlineAlias (agenerics a) (atype a) (Some (km_type mm)) = false.
Proof. vm_compute. split; [reflexivity|]. do 4 eexists. repeat split; reflexivity. Qed.

(* ====================================================================================== *)
(* Scala                                                                                   *)
(* ====================================================================================== *)
Section SC.
Variable cfg : sc_config.
Notation c := (c05_sc_cfg cfg).
Notation erase := (c05_erase Scala (c05_sc_cfg cfg)).

Lemma sc_member_type f g : c05_field_ok Scala c g f ->
  exists mm, sc_member_of cfg g f = Ok mm /\ scm_type mm = erase g (fty f).
Proof.
  intros [Hd [Hk Ho]]. unfold sc_member_of. rewrite Ho, (C05_fmt_sc cfg g (fty f) Hd Hk). cbn [bind]. eauto.
Qed.

Theorem C05_site_sc_struct s :
  sfields s <> [] -> Forall (c05_field_ok Scala c (sgenerics s)) (sfields s) ->
  exists docs name ms, sc_class_of cfg s = Ok (SCCaseClass docs name (sgenerics s) ms) /\
                       map scm_type ms = map (fun f => erase (sgenerics s) (fty f)) (sfields s).
Proof.
  intros Hne Hall. unfold sc_class_of. destruct (sfields s) as [|f0 fs] eqn:Ef; [congruence|].
  assert (H : forall l, Forall (c05_field_ok Scala c (sgenerics s)) l ->
                        exists ms, mapM (sc_member_of cfg (sgenerics s)) l = Ok ms /\
                                   map scm_type ms = map (fun f => erase (sgenerics s) (fty f)) l).
  { induction 1 as [|x l Hx Hl IH]; [exists []; auto|].
    destruct (sc_member_type x (sgenerics s) Hx) as [mm [E1 E2]]. destruct IH as [ms [E3 E4]].
    exists (mm :: ms). cbn [mapM map]. rewrite E1. cbn [bind]. rewrite E3. cbn [bind]. split; congruence. }
  destruct (H _ Hall) as [ms [E1 E2]]. rewrite E1. cbn [bind]. eauto 8.
Qed.

Theorem C05_site_sc_alias a :
  dom_C05 (atype a) = true -> known_C05 Scala c (agenerics a) (atype a) = None ->
  exists docs name, sc_decl_of cfg (ItAlias a) = Ok [SCAlias docs name (agenerics a) (erase (agenerics a) (atype a))].
Proof.
  intros Hd Hk. cbn [sc_decl_of]. rewrite (C05_fmt_sc cfg _ _ Hd Hk). cbn [bind]. eauto.
Qed.

Theorem C05_site_sc_payload content_key e t vsh :
  dom_C05 t = true -> known_C05 Scala c (egenerics e) t = None ->
  exists v gs ck, sc_variant_of_algebraic cfg content_key e (VTuple t vsh) = Ok v /\
                  scv_payload v = SCPayTuple gs ck (erase (egenerics e) t).
Proof.
  intros Hd Hk. unfold sc_variant_of_algebraic. rewrite (C05_fmt_sc cfg _ _ Hd Hk). cbn [bind]. do 3 eexists. split; reflexivity.
Qed.
End SC.

(* ====================================================================================== *)
(* TypeScript                                                                              *)
(* ====================================================================================== *)
Section TS.
Variable uc : unicode.
Variable cfg : ts_config.
Notation c := (c05_ts_cfg cfg).
Notation erase := (c05_erase TypeScript (c05_ts_cfg cfg)).

Lemma ts_member_type g f : c05_field_ok TypeScript c g f ->
  runs_sat (ts_member_of cfg g f) (fun mm => tm_type mm = erase g (fty f)).
Proof.
  intros [Hd [Hk Ho]]. unfold ts_member_of. rewrite Ho.
  eapply sat_bind; [apply runs_to_sat, (C05_fmt_ts cfg g (fty f) Hd Hk)|]. intros ty ->.
  intros st. unfold mbind, mget. destruct (has_custom_translation _); cbn; unfold ret; eauto.
Qed.

Theorem C05_site_ts_struct s :
  Forall (c05_field_ok TypeScript c (sgenerics s)) (sfields s) ->
  runs_sat (ts_decl_of uc cfg (ItStruct s))
           (fun d => exists docs name ms, d = TSInterface docs name (sgenerics s) ms /\
                                          map tm_type ms = map (fun f => erase (sgenerics s) (fty f)) (sfields s)).
Proof.
  intros Hall. cbn [ts_decl_of].
  eapply sat_bind.
  { apply (mmapM_sat (ts_member_of cfg (sgenerics s)) (fun f mm => tm_type mm = erase (sgenerics s) (fty f))).
    intros f Hf. apply ts_member_type. rewrite Forall_forall in Hall. auto. }
  intros ms Hms. apply sat_ret. do 3 eexists. split; [reflexivity|]. now apply Forall2_map_eq.
Qed.

Theorem C05_site_ts_alias a :
  dom_C05 (atype a) = true -> known_C05 TypeScript c (agenerics a) (atype a) = None ->
  runs_sat (ts_decl_of uc cfg (ItAlias a))
           (fun d => exists docs name u n, d = TSAlias docs name (agenerics a) (erase (agenerics a) (atype a)) u n).
Proof.
  intros Hd Hk. cbn [ts_decl_of].
  eapply sat_bind; [apply runs_to_sat, (C05_fmt_ts cfg _ _ Hd Hk)|]. intros ty ->. apply sat_ret. eauto.
Qed.

Theorem C05_site_ts_const k :
  dom_C05 (ctype k) = true -> known_C05 TypeScript c [] (ctype k) = None ->
  runs_sat (ts_decl_of uc cfg (ItConst k)) (fun d => exists name v, d = TSConst name (erase [] (ctype k)) v).
Proof.
  intros Hd Hk. cbn [ts_decl_of].
  eapply sat_bind; [apply runs_to_sat, (C05_fmt_ts cfg _ _ Hd Hk)|]. intros ty ->. apply sat_ret. eauto.
Qed.

Theorem C05_site_ts_payload g ue t vsh :
  dom_C05 t = true -> known_C05 TypeScript c g t = None ->
  runs_sat (ts_variant_of cfg g ue (VTuple t vsh)) (fun v => exists docs w o n, v = TVTuple docs w (erase g t) o n).
Proof.
  intros Hd Hk. cbn [ts_variant_of].
  eapply sat_bind; [apply runs_to_sat, (C05_fmt_ts cfg _ _ Hd Hk)|]. intros ty ->. apply sat_ret. eauto.
Qed.

(* struct variants are inlined and use the ENUM's generics *)
Theorem C05_site_ts_variant_fields g ue fs vsh :
  Forall (c05_field_ok TypeScript c g) fs ->
  runs_sat (ts_variant_of cfg g ue (VAnon fs vsh))
           (fun v => exists docs w ms, v = TVStruct docs w ms /\ map tm_type ms = map (fun f => erase g (fty f)) fs).
Proof.
  intros Hall. cbn [ts_variant_of].
  eapply sat_bind.
  { apply (mmapM_sat (ts_member_of cfg g) (fun f mm => tm_type mm = erase g (fty f))).
    intros f Hf. apply ts_member_type. rewrite Forall_forall in Hall. auto. }
  intros ms Hms. apply sat_ret. do 3 eexists. split; [reflexivity|]. now apply Forall2_map_eq.
Qed.
End TS.

(* ====================================================================================== *)
(* Swift                                                                                   *)
(* ====================================================================================== *)
Section SW.
Variable uc : unicode.
Variable cfg : sw_config.
Notation c := (c05_sw_cfg cfg).
Notation erase := (c05_erase Swift (c05_sw_cfg cfg)).

Lemma sw_field_type g f : c05_field_ok Swift c g f ->
  runs_sat (sw_field_texp cfg g f) (fun x => x = erase g (fty f)).
Proof.
  intros [Hd [Hk Ho]]. unfold sw_field_texp. rewrite Ho. apply runs_to_sat, (C05_fmt_sw cfg g (fty f) Hd Hk).
Qed.

Theorem C05_site_sw_struct rs :
  Forall (c05_field_ok Swift c (sgenerics rs)) (sfields rs) ->
  runs_sat (sw_struct_of uc cfg rs)
           (fun d => map swm_type (sws_members d) = map (fun f => erase (sgenerics rs) (fty f)) (sfields rs) /\
                     map swm_init_type (sws_members d) = map (fun f => erase (sgenerics rs) (fty f)) (sfields rs)).
Proof.
  intros Hall. unfold sw_struct_of.
  assert (Hm : runs_sat (mmapM (sw_field_texp cfg (sgenerics rs)) (sfields rs))
                        (fun tys => tys = map (fun f => erase (sgenerics rs) (fty f)) (sfields rs))).
  { intros st.
    destruct (mmapM_sat (sw_field_texp cfg (sgenerics rs)) (fun f x => x = erase (sgenerics rs) (fty f)) (sfields rs)
                (fun f Hf => sw_field_type (sgenerics rs) f (proj1 (Forall_forall _ _) Hall f Hf)) st) as [ys [s' [E F2]]].
    exists ys, s'. split; [exact E|]. now apply Forall2_eq_map. }
  eapply sat_bind; [exact Hm|]. intros tys ->.
  eapply sat_bind; [exact Hm|]. intros itys ->.
  apply sat_ret. cbn [sws_members].
  set (E := fun f => erase (sgenerics rs) (fty f)).
  assert (Hc : forall l : list rfield,
             map swm_type (map (fun x => sw_member_of uc (fst x) (fst (snd x)) (snd (snd x))) (combine l (combine (map E l) (map E l)))) = map E l /\
             map swm_init_type (map (fun x => sw_member_of uc (fst x) (fst (snd x)) (snd (snd x))) (combine l (combine (map E l) (map E l)))) = map E l).
  { induction l as [|x l [IH1 IH2]]; [split; reflexivity|]. cbn [map combine fst snd]. split; f_equal; assumption. }
  apply Hc.
Qed.

Theorem C05_site_sw_alias a :
  dom_C05 (atype a) = true -> known_C05 Swift c (agenerics a) (atype a) = None ->
  runs_sat (sw_decl_of uc cfg (ItAlias a))
           (fun d => exists docs name esc, d = SWAlias docs name esc (agenerics a) (erase (agenerics a) (atype a))).
Proof.
  intros Hd Hk. cbn [sw_decl_of].
  eapply sat_bind; [apply runs_to_sat, (C05_fmt_sw cfg _ _ Hd Hk)|]. intros ty ->. apply sat_ret. eauto.
Qed.
End SW.

(* ====================================================================================== *)
(* Python                                                                                  *)
(* ====================================================================================== *)
Section PY.
Variable uc : unicode.
Variable cfg : py_config.
Notation c := (c05_py_cfg cfg).
Notation erase := (c05_erase Python (c05_py_cfg cfg)).

(* write_type_alias declares the alias's generic parameters as TypeVars (python.rs:280): never fails *)
Lemma py_add_type_vars_sat names : runs_sat (py_add_type_vars names) (fun _ => True).
Proof.
  induction names as [|n r IH]; cbn [py_add_type_vars]; [apply sat_ret; exact I|].
  eapply sat_bind with (P := fun _ => True); [|intros _ _; exact IH].
  intros st. unfold py_add_type_var, py_add_import, mbind, mget, mput. eauto.
Qed.

Theorem C05_site_py_alias a :
  dom_C05 (atype a) = true -> known_C05 Python c (agenerics a) (atype a) = None ->
  runs_sat (py_decl_of uc cfg (ItAlias a))
           (fun ds => exists docs name, ds = [PYAlias docs name (agenerics a) (erase (agenerics a) (atype a))]).
Proof.
  intros Hd Hk. cbn [py_decl_of].
  eapply sat_bind; [apply runs_to_sat, (C05_fmt_py cfg _ _ Hd Hk)|]. intros ty ->.
  eapply sat_bind; [apply py_add_type_vars_sat|]. intros _ _. apply sat_ret. eauto.
Qed.

Theorem C05_site_py_const k :
  dom_C05 (ctype k) = true -> known_C05 Python c [] (ctype k) = None ->
  runs_sat (py_decl_of uc cfg (ItConst k)) (fun ds => exists name v, ds = [PYConst name (erase [] (ctype k)) v]).
Proof.
  intros Hd Hk. cbn [py_decl_of].
  eapply sat_bind; [apply runs_to_sat, (C05_fmt_py cfg _ _ Hd Hk)|]. intros ty ->. apply sat_ret. eauto.
Qed.

Theorem C05_site_py_payload en etn sh t vsh :
  dom_C05 t = true -> known_C05 Python c (egenerics sh) t = None ->
  runs_sat (py_variant_of uc cfg en etn sh (VTuple t vsh)) (fun v => pyv_content v = PYCType (erase (egenerics sh) t)).
Proof.
  intros Hd Hk. cbn [py_variant_of].
  eapply sat_bind; [apply runs_to_sat, (C05_fmt_py cfg _ _ Hd Hk)|]. intros ty ->.
  eapply sat_bind; [apply total_sat, py_add_import_total|]. intros _ _. apply sat_ret. reflexivity.
Qed.
End PY.

(* ====================================================================================== *)
(* Go (format_type never looks at the generics list; aliases, consts and payloads pass [])    *)
(* ====================================================================================== *)
Section GO.
Variable uc : unicode.
Variable cfg : go_config.
Notation c := (c05_go_cfg cfg).
Notation erase := (c05_erase Go (c05_go_cfg cfg)).

(* the generics list is immaterial for Go: no prefix, no generic-key refusal *)
Lemma go_core_generics m g g' t :
  c05_render Go c (c05_core true m g t) = c05_render Go c (c05_core true m g' t).
Proof.
  induction t using rtype_ind'; cbn [c05_core].
  - destruct (c05_lookup m id); [reflexivity|]. cbn [c05_render c05_prefix app map]. now destruct (mem_str id g), (mem_str id g').
  - destruct (c05_lookup m id); [reflexivity|]. cbn [c05_render c05_prefix app]. rewrite !map_map.
    assert (E : map (fun x => c05_render Go c (c05_core true m g x)) ps = map (fun x => c05_render Go c (c05_core true m g' x)) ps).
    { apply map_ext_in. intros x Hx. rewrite Forall_forall in H. now apply H. }
    rewrite E. now destruct (mem_str id g), (mem_str id g').
  - destruct (c05_lookup m _); cbn [c05_render]; congruence.
  - destruct (c05_lookup m _); cbn [c05_render]; congruence.
  - destruct (c05_lookup m _); cbn [c05_render]; congruence.
  - destruct (c05_lookup m _); cbn [c05_render]; congruence.
  - destruct (c05_lookup m _); cbn [c05_render]; [reflexivity|]. rewrite IHt. reflexivity.
  - reflexivity.
Qed.

Theorem C05_go_generics_immaterial g g' t : erase g t = erase g' t.
Proof. unfold c05_erase. apply go_core_generics. Qed.

Theorem C05_site_go_alias cs a st ds st' :
  dom_C05 (atype a) = true -> known_C05 Go c [] (atype a) = None ->
  go_decl_of uc cfg cs (ItAlias a) st = Ok (ds, st') ->
  exists docs name ty, ds = [GOAlias docs name ty] /\ go_obs_ty ty = erase (agenerics a) (atype a).
Proof.
  intros Hd Hk H. cbn [go_decl_of] in H. unfold mbind in H.
  destruct (go_acronyms_to_uppercase uc cfg (original (aid a)) st) as [[name s1]| |]; try discriminate.
  destruct (C05_fmt_go cfg [] (atype a) Hd Hk s1) as [ty [s2 [E Hty]]]. rewrite E in H.
  unfold ret in H. injection H as <- _. do 3 eexists. split; [reflexivity|].
  rewrite Hty. apply C05_go_generics_immaterial.
Qed.

Theorem C05_site_go_const cs k :
  dom_C05 (ctype k) = true -> known_C05 Go c [] (ctype k) = None ->
  runs_sat (go_decl_of uc cfg cs (ItConst k))
           (fun ds => exists name ty v, ds = [GOConst name ty v] /\ go_obs_ty ty = erase [] (ctype k)).
Proof.
  intros Hd Hk. cbn [go_decl_of].
  eapply sat_bind; [exact (C05_fmt_go cfg [] (ctype k) Hd Hk)|]. intros ty Hty.
  apply sat_ret. eauto 8.
Qed.
End GO.

(* ====================================================================================== *)
(* Struct variants: mod.rs write_types_for_anonymous_structs hands the back end a struct whose   *)
(* generics are the SUBSET of the enum's generics that its fields mention. The translation of  *)
(* those fields is the same as under the enum's full generics list.                            *)
(* ====================================================================================== *)
Lemma mem_str_In x l : mem_str x l = true <-> In x l.
Proof.
  unfold mem_str. rewrite existsb_exists. split.
  - intros [y [Hy E]]. apply str_eqb_eq in E. now subst.
  - intros H. exists x. split; [assumption|apply str_eqb_refl].
Qed.

Lemma mem_str_eq_iff x l y r : (In x l <-> In y r) -> mem_str x l = mem_str y r.
Proof.
  intros H. destruct (mem_str x l) eqn:E1, (mem_str y r) eqn:E2; try reflexivity.
  - apply mem_str_In in E1. apply H in E1. apply mem_str_In in E1. congruence.
  - apply mem_str_In in E2. apply H in E2. apply mem_str_In in E2. congruence.
Qed.

Lemma unique_strs_In x l : forall seen, In x (unique_strs l seen) <-> In x l /\ ~ In x seen.
Proof.
  induction l as [|y r IH]; intros seen; cbn [unique_strs].
  - cbn. tauto.
  - destruct (mem_str y seen) eqn:E.
    + apply mem_str_In in E. rewrite IH. cbn [In]. split.
      * intros [H1 H2]. tauto.
      * intros [[->|H1] H2]; [contradiction|tauto].
    + assert (Hn : ~ In y seen). { intros H. apply mem_str_In in H. congruence. }
      cbn [In]. rewrite IH. cbn [In]. split.
      * intros [<-|[H1 H2]]; [tauto|]. split; [tauto|]. intros H. apply H2. now right.
      * intros [[<-|H1] H2]; [now left|].
        destruct (str_eqb y x) eqn:Eyx.
        -- apply str_eqb_eq in Eyx. now left.
        -- right. split; [assumption|]. intros [H|H]; [subst; rewrite str_eqb_refl in Eyx; discriminate|contradiction].
Qed.

Lemma anon_generics_agree eg fields f id :
  In f fields -> contains_type (fty f) id = true ->
  mem_str id (anon_struct_generics eg fields) = mem_str id eg.
Proof.
  intros Hf Hc. apply mem_str_eq_iff. unfold anon_struct_generics. rewrite unique_strs_In, in_flat_map. split.
  - intros [[f' [_ Hin]] _]. apply filter_In in Hin. tauto.
  - intros Hin. split; [|intros []]. exists f. split; [assumption|]. apply filter_In. split; assumption.
Qed.

(* the skeleton and the classes look at the generics list only through the identifiers the type mentions *)
Lemma c05_core_generics_ext inst m g g' t :
  (forall id, contains_type t id = true -> mem_str id g = mem_str id g') ->
  c05_core inst m g t = c05_core inst m g' t.
Proof.
  induction t using rtype_ind'; intros Hg; cbn [c05_core].
  - rewrite (Hg id); [reflexivity|]. cbn. apply str_eqb_refl.
  - rewrite (Hg id); [|cbn; now rewrite str_eqb_refl].
    assert (E : map (c05_core inst m g) ps = map (c05_core inst m g') ps).
    { apply map_ext_in. intros x Hx. rewrite Forall_forall in H. apply (H x Hx). intros id0 Hc. apply Hg.
      cbn [contains_type]. apply orb_true_iff. right. apply existsb_exists. eauto. }
    now rewrite E.
  - rewrite IHt; [reflexivity|]. intros id Hc. now apply Hg.
  - rewrite IHt; [reflexivity|]. intros id Hc. now apply Hg.
  - rewrite IHt; [reflexivity|]. intros id Hc. now apply Hg.
  - rewrite IHt1, IHt2; [reflexivity| |]; intros id Hc; apply Hg; cbn [contains_type]; rewrite Hc; auto using orb_true_r.
  - rewrite IHt; [reflexivity|]. intros id Hc. now apply Hg.
  - reflexivity.
Qed.

Lemma c05_known_generics_ext L m g g' t :
  (forall id, contains_type t id = true -> mem_str id g = mem_str id g') ->
  c05_known L m g t = c05_known L m g' t.
Proof.
  induction t using rtype_ind'; intros Hg; cbn [c05_known].
  - reflexivity.
  - destruct (c05_lookup m id); [reflexivity|].
    assert (Hps : forall x, In x ps -> c05_known L m g x = c05_known L m g' x).
    { intros x Hx. rewrite Forall_forall in H. apply (H x Hx). intros id0 Hc. apply Hg.
      cbn [contains_type]. apply orb_true_iff. right. apply existsb_exists. eauto. }
    clear H Hg. induction ps as [|x r IH]; [reflexivity|].
    rewrite (Hps x (or_introl eq_refl)). destruct (c05_known L m g' x); [reflexivity|].
    apply IH. intros y Hy. apply Hps. now right.
  - rewrite IHt; [reflexivity|]. intros id Hc. now apply Hg.
  - rewrite IHt; [reflexivity|]. intros id Hc. now apply Hg.
  - rewrite IHt; [reflexivity|]. intros id Hc. now apply Hg.
  - assert (E1 : c05_known L m g t1 = c05_known L m g' t1).
    { apply IHt1. intros id Hc. apply Hg. cbn [contains_type]. now rewrite Hc. }
    assert (E2 : c05_known L m g t2 = c05_known L m g' t2).
    { apply IHt2. intros id Hc. apply Hg. cbn [contains_type]. rewrite Hc. apply orb_true_r. }
    rewrite E1, E2. destruct t1; try reflexivity.
    rewrite (Hg id); [reflexivity|]. cbn [contains_type]. now rewrite str_eqb_refl.
  - rewrite IHt; [reflexivity|]. intros id Hc. now apply Hg.
  - reflexivity.
Qed.

Lemma c05_field_ok_anon L c eg fields f :
  In f fields -> c05_field_ok L c eg f -> c05_field_ok L c (anon_struct_generics eg fields) f.
Proof.
  intros Hf [Hd [Hk Ho]]. repeat split; try assumption.
  unfold known_C05 in *. rewrite <- Hk. apply c05_known_generics_ext.
  intros id Hc. now apply anon_generics_agree with (f := f).
Qed.

Lemma c05_erase_anon L c eg fields f :
  In f fields -> c05_erase L c (anon_struct_generics eg fields) (fty f) = c05_erase L c eg (fty f).
Proof.
  intros Hf. unfold c05_erase. f_equal. apply c05_core_generics_ext.
  intros id Hc. now apply anon_generics_agree with (f := f).
Qed.

Lemma Forall_field_ok_anon L c eg fields :
  Forall (c05_field_ok L c eg) fields -> Forall (c05_field_ok L c (anon_struct_generics eg fields)) fields.
Proof.
  intros H. apply Forall_forall. intros f Hf. apply c05_field_ok_anon; [assumption|].
  rewrite Forall_forall in H. auto.
Qed.

(* Kotlin: the helper struct of a struct variant translates its fields as under the enum's generics *)
Theorem C05_site_kt_variant_fields cfg sh name vo fields :
  fields <> [] -> Forall (c05_field_ok Kotlin (c05_kt_cfg cfg) (egenerics sh)) fields ->
  exists docs n gs ms ts, kt_struct_decl cfg (anon_struct sh name vo fields) = Ok (KTDataClass docs n gs ms ts) /\
                          map km_type ms = map (fun f => c05_erase Kotlin (c05_kt_cfg cfg) (egenerics sh) (fty f)) fields.
Proof.
  intros Hne Hall.
  destruct (C05_site_kt_struct cfg (anon_struct sh name vo fields) Hne (Forall_field_ok_anon _ _ _ _ Hall))
    as [docs [n [ms [ts [E1 E2]]]]].
  exists docs, n, (anon_struct_generics (egenerics sh) fields), ms, ts. split; [exact E1|].
  cbn [sgenerics sfields anon_struct] in E2. rewrite E2. apply map_ext_in. intros f Hf. now apply c05_erase_anon.
Qed.

(* Swift likewise *)
Theorem C05_site_sw_variant_fields uc cfg sh name vo fields :
  Forall (c05_field_ok Swift (c05_sw_cfg cfg) (egenerics sh)) fields ->
  runs_sat (sw_struct_of uc cfg (anon_struct sh name vo fields))
           (fun d => map swm_type (sws_members d) = map (fun f => c05_erase Swift (c05_sw_cfg cfg) (egenerics sh) (fty f)) fields).
Proof.
  intros Hall st.
  destruct (C05_site_sw_struct uc cfg (anon_struct sh name vo fields) (Forall_field_ok_anon _ _ _ _ Hall) st)
    as [d [s' [E [H1 _]]]].
  exists d, s'. split; [exact E|]. cbn [sgenerics sfields anon_struct] in H1. rewrite H1.
  apply map_ext_in. intros f Hf. now apply c05_erase_anon.
Qed.

(* Scala likewise *)
Theorem C05_site_sc_variant_fields cfg sh name vo fields :
  fields <> [] -> Forall (c05_field_ok Scala (c05_sc_cfg cfg) (egenerics sh)) fields ->
  exists docs n gs ms, sc_class_of cfg (anon_struct sh name vo fields) = Ok (SCCaseClass docs n gs ms) /\
                       map scm_type ms = map (fun f => c05_erase Scala (c05_sc_cfg cfg) (egenerics sh) (fty f)) fields.
Proof.
  intros Hne Hall.
  destruct (C05_site_sc_struct cfg (anon_struct sh name vo fields) Hne (Forall_field_ok_anon _ _ _ _ Hall))
    as [docs [n [ms [E1 E2]]]].
  exists docs, n, (anon_struct_generics (egenerics sh) fields), ms. split; [exact E1|].
  cbn [sgenerics sfields anon_struct] in E2. rewrite E2. apply map_ext_in. intros f Hf. now apply c05_erase_anon.
Qed.

(* ====================================================================================== *)
(* More use sites: Python classes, Swift payloads, Go members / payloads, Kotlin value classes *)
(* ====================================================================================== *)
Definition c05_total {St A} (mm : M St A) : Prop := forall st, exists a st', mm st = Ok (a, st').

Lemma total_ret {St A} (a : A) : @c05_total St A (ret a).
Proof. intros st. unfold ret. eauto. Qed.
Lemma total_bind {St A B} (mm : M St A) (f : A -> M St B) : c05_total mm -> (forall a, c05_total (f a)) -> c05_total (mbind mm f).
Proof. intros Hm Hf st. destruct (Hm st) as [a [s1 E1]]. destruct (Hf a s1) as [b [s2 E2]]. exists b, s2. unfold mbind. now rewrite E1. Qed.

Section PY2.
Variable uc : unicode.
Variable cfg : py_config.
Notation c := (c05_py_cfg cfg).
Notation erase := (c05_erase Python (c05_py_cfg cfg)).

Lemma py_add_common_imports_total a b d : c05_total (py_add_common_imports a b d).
Proof.
  unfold py_add_common_imports.
  apply total_bind; [destruct a; [apply py_add_import_total|apply total_ret]|]. intros _.
  apply total_bind.
  { destruct b; [|apply total_ret].
    apply total_bind; [apply py_add_import_total|]. intros _.
    apply total_bind; [apply py_add_import_total|]. intros _. apply py_add_import_total. }
  intros _. destruct (a || d)%bool eqn:E.
  - destruct a, d; try discriminate E; cbn [orb]; apply py_add_import_total.
  - destruct a, d; try discriminate E; cbn [orb]; apply total_ret.
Qed.

Lemma py_add_type_vars_total names : c05_total (py_add_type_vars names).
Proof.
  induction names as [|n r IH]; cbn [py_add_type_vars]; [apply total_ret|].
  apply total_bind; [|intros _; exact IH].
  unfold py_add_type_var. apply total_bind; [apply py_add_import_total|]. intros _.
  intros st. unfold mbind, mget, mput. eauto.
Qed.

Lemma py_populate_by_name_total fs : c05_total (py_populate_by_name uc fs).
Proof.
  unfold py_populate_by_name. destruct (existsb _ fs); [|apply total_ret].
  apply total_bind; [apply py_add_import_total|]. intros _. apply total_ret.
Qed.

Definition py_field_type (g : list str) (f : rfield) : texp :=
  if negb (is_optional (fty f)) && has_default f then XOpt (erase g (fty f)) else erase g (fty f).

Lemma py_member_type g f : c05_field_ok Python c g f ->
  runs_sat (py_member_of uc cfg g f) (fun mm => pym_type mm = py_field_type g f).
Proof.
  intros [Hd [Hk _]]. unfold py_member_of.
  eapply sat_bind; [apply runs_to_sat, (C05_fmt_py cfg g (fty f) Hd Hk)|]. intros ty ->.
  eapply sat_bind; [apply total_sat, py_add_common_imports_total|]. intros _ _.
  eapply sat_bind with (P := fun _ => True).
  { apply total_sat. destruct (py_json_translation_for_type _); [|apply total_ret].
    apply total_bind; [apply py_add_custom_type_total|]. intros _. apply total_ret. }
  intros ann _. apply sat_ret. reflexivity.
Qed.

Theorem C05_site_py_struct s :
  Forall (c05_field_ok Python c (sgenerics s)) (sfields s) ->
  runs_sat (py_class_of uc cfg s)
           (fun d => exists docs name pbn ms, d = PYClass docs name (sgenerics s) pbn ms /\
                                              map pym_type ms = map (py_field_type (sgenerics s)) (sfields s)).
Proof.
  intros Hall. unfold py_class_of.
  eapply sat_bind; [apply total_sat, py_add_import_total|]. intros _ _.
  eapply sat_bind; [apply total_sat, py_add_type_vars_total|]. intros _ _.
  eapply sat_bind with (P := fun _ => True).
  { apply total_sat. destruct (sgenerics s); [apply total_ret|apply py_add_import_total]. }
  intros _ _.
  eapply sat_bind; [apply total_sat, py_populate_by_name_total|]. intros pbn _.
  eapply sat_bind.
  { apply (mmapM_sat (py_member_of uc cfg (sgenerics s)) (fun f mm => pym_type mm = py_field_type (sgenerics s) f)).
    intros f Hf. apply py_member_type. rewrite Forall_forall in Hall. auto. }
  intros ms Hms. apply sat_ret. do 4 eexists. split; [reflexivity|]. now apply Forall2_map_eq.
Qed.

(* the helper class of a struct variant translates its fields as under the enum's generics *)
Theorem C05_site_py_variant_fields sh name vo fields :
  Forall (c05_field_ok Python c (egenerics sh)) fields ->
  runs_sat (py_class_of uc cfg (anon_struct sh name vo fields))
           (fun d => exists docs n gs pbn ms, d = PYClass docs n gs pbn ms /\
                                              map pym_type ms = map (py_field_type (egenerics sh)) fields).
Proof.
  intros Hall st.
  destruct (C05_site_py_struct (anon_struct sh name vo fields) (Forall_field_ok_anon _ _ _ _ Hall) st)
    as [d [s' [E [docs [n [pbn [ms [-> Hm]]]]]]]].
  exists (PYClass docs n (sgenerics (anon_struct sh name vo fields)) pbn ms), s'. split; [exact E|].
  do 5 eexists. split; [reflexivity|]. cbn [sgenerics sfields anon_struct] in Hm. rewrite Hm.
  apply map_ext_in. intros f Hf. unfold py_field_type. now rewrite (c05_erase_anon Python c (egenerics sh) fields f Hf).
Qed.
End PY2.

Section SW2.
Variable uc : unicode.
Variable cfg : sw_config.
Notation c := (c05_sw_cfg cfg).
Notation erase := (c05_erase Swift (c05_sw_cfg cfg)).

(* the payload of a tuple variant: the variant is always produced (to_camel_case cannot fail since its
   /repo fix, C07) and its payload type is the translation *)
Theorem C05_site_sw_payload sh t vsh :
  dom_C05 t = true -> known_C05 Swift c (egenerics sh) t = None ->
  forall st, exists v st', sw_variant_of uc cfg sh (VTuple t vsh) st = Ok (v, st') /\
    exists esc opt, swv_payload v = SWPTuple (erase (egenerics sh) t) esc opt.
Proof.
  intros Hd Hk st. unfold sw_variant_of. unfold mbind at 1.
  cbn [variant_shared]. unfold Model.Rename.to_camel_case.
  destruct (Model.Rename.to_pascal_case (original (vid vsh))) as [|c0 r0]; cbn [sw_lift];
    (unfold mbind at 1; unfold mbind at 1;
     destruct (C05_fmt_sw cfg (egenerics sh) t Hd Hk st) as [s2 E]; rewrite E;
     unfold ret; do 2 eexists; (split; [reflexivity|]); cbn [swv_payload]; eauto).
Qed.
End SW2.

(* ---- Kotlin value classes: positive half ---- *)
(* Kotlin's classes do not depend on the generics list at all *)
Lemma kt_known_generics m g g' t : c05_known Kotlin m g t = c05_known Kotlin m g' t.
Proof.
  induction t using rtype_ind'; cbn [c05_known c05_instances c05_refuses_generic_keys andb]; try congruence.
  - destruct (c05_lookup m id); [reflexivity|].
    induction H as [|x r Hx Hr IH]; [reflexivity|]. rewrite Hx. destruct (c05_known Kotlin m g' x); [reflexivity|exact IH].
  - rewrite IHt1, IHt2. destruct t1; reflexivity.
Qed.

(* no surviving generic parameter: the skeleton is the one obtained under no generics at all *)
Lemma c05_core_no_param m g t :
  c05_uses_param false m g t = false -> c05_core false m g t = c05_core false m [] t.
Proof.
  unfold c05_uses_param. induction t using rtype_ind'; cbn [c05_core]; intros Hu.
  - destruct (c05_lookup m id); [reflexivity|]. cbn [c05_tree_ids flat_map existsb app] in Hu.
    apply orb_false_iff in Hu as [Hu _]. now rewrite Hu.
  - destruct (c05_lookup m id); [reflexivity|]. cbn [c05_tree_ids existsb] in Hu.
    apply orb_false_iff in Hu as [Hu1 Hu2]. rewrite Hu1. cbn [mem_str existsb]. f_equal.
    apply map_ext_in. intros x Hx. rewrite Forall_forall in H. apply (H x Hx).
    destruct (existsb (fun id0 => mem_str id0 g) (c05_tree_ids (c05_core false m g x))) eqn:E; [|reflexivity].
    apply existsb_exists in E as [y [Hy1 Hy2]].
    assert (Hin : existsb (fun id0 => mem_str id0 g) (flat_map c05_tree_ids (map (c05_core false m g) ps)) = true).
    { apply existsb_exists. exists y. split; [|assumption]. apply in_flat_map. exists (c05_core false m g x). split; [now apply in_map|assumption]. }
    congruence.
  - cbn [c05_tree_ids] in Hu. now rewrite IHt.
  - cbn [c05_tree_ids] in Hu. now rewrite IHt.
  - cbn [c05_tree_ids] in Hu. now rewrite IHt.
  - cbn [c05_tree_ids] in Hu. rewrite existsb_app in Hu. apply orb_false_iff in Hu as [H1 H2]. now rewrite IHt1, IHt2.
  - cbn [c05_tree_ids] in Hu. now rewrite IHt.
  - reflexivity.
Qed.

(* an empty prefix: user types and generic parameters are spelled alike *)
Lemma kt_render_no_prefix c m g g' t : c05_pre c = [] ->
  c05_render Kotlin c (c05_core false m g t) = c05_render Kotlin c (c05_core false m g' t).
Proof.
  intros Hp. induction t using rtype_ind'; cbn [c05_core].
  - destruct (c05_lookup m id); [reflexivity|]. cbn [c05_render c05_prefix map]. rewrite Hp. cbn [app].
    now destruct (mem_str id g), (mem_str id g').
  - destruct (c05_lookup m id); [reflexivity|]. cbn [c05_render c05_prefix]. rewrite Hp, !map_map. cbn [app].
    assert (E : map (fun x => c05_render Kotlin c (c05_core false m g x)) ps = map (fun x => c05_render Kotlin c (c05_core false m g' x)) ps).
    { apply map_ext_in. intros x Hx. rewrite Forall_forall in H. now apply H. }
    rewrite E. now destruct (mem_str id g), (mem_str id g').
  - cbn [c05_render]. congruence.
  - cbn [c05_render]. congruence.
  - cbn [c05_render]. congruence.
  - cbn [c05_render]. congruence.
  - cbn [c05_render]. congruence.
  - reflexivity.
Qed.

(* outside the recorded class the value class carries exactly the translation under the alias's generics *)
Theorem C05_site_kt_inline_alias_full cfg a :
  kt_is_inline (adecs a) = true -> dom_C05 (atype a) = true ->
  known_C05_site Kotlin (c05_kt_cfg cfg) C05SInlineAlias (agenerics a) (atype a) = None ->
  exists docs name mm red, kt_alias_decl cfg a = Ok (KTValueClass docs name mm red) /\
                           km_type mm = c05_erase Kotlin (c05_kt_cfg cfg) (agenerics a) (atype a).
Proof.
  intros Hi Hd Hk. unfold known_C05_site in Hk. cbn [c05_site_generics] in Hk.
  destruct (known_C05 Kotlin (c05_kt_cfg cfg) (agenerics a) (atype a)) eqn:Ek; [discriminate|].
  assert (Ek0 : known_C05 Kotlin (c05_kt_cfg cfg) [] (atype a) = None).
  { unfold known_C05 in *. now rewrite (kt_known_generics _ [] (agenerics a)). }
  destruct (C05_site_kt_inline_alias cfg a Hi Hd Ek0) as [docs [name [mm [red [E1 E2]]]]].
  exists docs, name, mm, red. split; [exact E1|]. rewrite E2. unfold c05_erase. cbn [c05_instances].
  destruct (match c05_pre (c05_kt_cfg cfg) with [] => false | _ => true end) eqn:Ep.
  - cbn [andb] in Hk. destruct (c05_uses_param false (c05_m (c05_kt_cfg cfg)) (agenerics a) (atype a)) eqn:Eu; [discriminate|].
    now rewrite (c05_core_no_param _ _ _ Eu).
  - apply kt_render_no_prefix. destruct (c05_pre (c05_kt_cfg cfg)); [reflexivity|discriminate].
Qed.

(* ---- Go struct fields (uppercase_acronyms empty: the acronym pass is the identity) ---- *)
Section GoTyInd.
  Variable P : go_ty -> Prop.
  Hypothesis HN : forall n args, Forall P args -> P (GName n args).
  Hypothesis HS : forall e, P e -> P (GSlice e).
  Hypothesis HA : forall n e, P e -> P (GArray n e).
  Hypothesis HM : forall k v, P k -> P v -> P (GMap k v).
  Hypothesis HP : forall e, P e -> P (GPtr e).
  Hypothesis HR : forall t, P (GRaw t).
  Fixpoint go_ty_ind' (t : go_ty) : P t :=
    match t with
    | GName n args => HN n args ((fix go (l : list go_ty) : Forall P l :=
                                    match l with [] => Forall_nil P | x :: r => Forall_cons x (go_ty_ind' x) (go r) end) args)
    | GSlice e => HS e (go_ty_ind' e)
    | GArray n e => HA n e (go_ty_ind' e)
    | GMap k v => HM k v (go_ty_ind' k) (go_ty_ind' v)
    | GPtr e => HP e (go_ty_ind' e)
    | GRaw x => HR x
    end.
End GoTyInd.

Section GO2.
Variable uc : unicode.
Variable cfg : go_config.
Hypothesis Hnil : go_uppercase_acronyms cfg = [].
Notation c := (c05_go_cfg cfg).
Notation erase := (c05_erase Go (c05_go_cfg cfg)).

Lemma go_ty_acronyms_nil t : go_ty_acronyms uc cfg t = Ok t.
Proof.
  induction t using go_ty_ind'; cbn [go_ty_acronyms]; rewrite ?Hnil; cbn [go_convert_acronyms_to_uppercase fold_left bind].
  - assert (E : (fix go (l : list go_ty) : outcome (list go_ty) :=
                   match l with
                   | [] => Ok []
                   | x :: r => do y <- go_ty_acronyms uc cfg x; do ys <- go r; Ok (y :: ys)
                   end) args = Ok args).
    { induction H as [|x r Hx Hr IH]; [reflexivity|]. rewrite Hx. cbn [bind]. rewrite IH. reflexivity. }
    unfold go_convert_acronyms_to_uppercase. cbn [fold_left bind]. rewrite E. reflexivity.
  - rewrite IHt. reflexivity.
  - rewrite IHt. reflexivity.
  - rewrite IHt1, IHt2. reflexivity.
  - rewrite IHt. reflexivity.
  - unfold go_convert_acronyms_to_uppercase. reflexivity.
Qed.

Lemma go_acronyms_text_nil name st : go_acronyms_to_uppercase uc cfg name st = Ok (name, st).
Proof. unfold go_acronyms_to_uppercase, go_lift. rewrite Hnil. reflexivity. Qed.

Lemma go_acronyms_ty_nil t st : go_acronyms_ty uc cfg t st = Ok (t, st).
Proof.
  unfold go_acronyms_ty, mbind. rewrite go_acronyms_text_nil, go_ty_acronyms_nil, str_eqb_refl. reflexivity.
Qed.

Lemma go_member_type g f : c05_field_ok Go c g f ->
  runs_sat (go_member_of uc cfg g f) (fun mm => go_obs_ty (gm_type mm) = erase g (fty f)).
Proof.
  intros [Hd [Hk Ho]]. unfold go_member_of. rewrite Ho.
  eapply sat_bind; [exact (C05_fmt_go cfg g (fty f) Hd Hk)|]. intros ty Hty.
  intros st. unfold mbind. rewrite go_acronyms_ty_nil. unfold go_format_field_name. rewrite go_acronyms_text_nil.
  unfold ret. eauto.
Qed.

Theorem C05_site_go_struct rs :
  Forall (c05_field_ok Go c (sgenerics rs)) (sfields rs) ->
  runs_sat (go_struct_decl_of uc cfg rs)
           (fun d => exists docs name ms, d = GOStruct docs name (sgenerics rs) ms /\
                                          map (fun mm => go_obs_ty (gm_type mm)) ms = map (fun f => erase (sgenerics rs) (fty f)) (sfields rs)).
Proof.
  intros Hall. unfold go_struct_decl_of.
  eapply sat_bind with (P := fun _ => True).
  { intros st. rewrite go_acronyms_text_nil. eauto. }
  intros name _.
  eapply sat_bind.
  { apply (mmapM_sat (go_member_of uc cfg (sgenerics rs)) (fun f mm => go_obs_ty (gm_type mm) = erase (sgenerics rs) (fty f))).
    intros f Hf. apply go_member_type. rewrite Forall_forall in Hall. auto. }
  intros ms Hms. apply sat_ret. do 3 eexists. split; [reflexivity|].
  now apply (Forall2_map_eq (sfields rs) ms (fun mm => go_obs_ty (gm_type mm)) (fun f => erase (sgenerics rs) (fty f))).
Qed.
End GO2.

(* ---- Go: tuple-variant payloads and struct-variant fields (uppercase_acronyms empty) ---- *)
Section GO3.
Variable uc : unicode.
Variable cfg : go_config.
Hypothesis Hnil : go_uppercase_acronyms cfg = [].
Notation c := (c05_go_cfg cfg).
Notation erase := (c05_erase Go (c05_go_cfg cfg)).

Theorem C05_site_go_payload sh cs sn tk t vsh :
  dom_C05 t = true -> known_C05 Go c [] t = None ->
  runs_sat (go_variant_of uc cfg sh cs sn tk (VTuple t vsh))
           (fun v => exists ty p, gv_content v = GCType ty p /\ go_obs_ty ty = erase (egenerics sh) t).
Proof.
  intros Hd Hk st. unfold go_variant_of. cbn [variant_shared].
  unfold mbind at 1. rewrite (go_acronyms_text_nil uc cfg Hnil).
  unfold mbind at 1. unfold mbind at 1.
  destruct (C05_fmt_go cfg [] t Hd Hk st) as [x [s1 [E Hx]]]. rewrite E. unfold ret at 1.
  unfold mbind at 1. rewrite (go_acronyms_text_nil uc cfg Hnil).
  unfold mbind at 1. unfold mbind at 1. rewrite (go_acronyms_ty_nil uc cfg Hnil). unfold ret.
  do 2 eexists. split; [reflexivity|]. cbn [gv_content]. do 2 eexists. split; [reflexivity|].
  rewrite Hx. apply C05_go_generics_immaterial.
Qed.

Theorem C05_site_go_variant_fields sh name vo fields :
  Forall (c05_field_ok Go c (egenerics sh)) fields ->
  runs_sat (go_struct_decl_of uc cfg (anon_struct sh name vo fields))
           (fun d => exists docs n gs ms, d = GOStruct docs n gs ms /\
                     map (fun mm => go_obs_ty (gm_type mm)) ms = map (fun f => erase (egenerics sh) (fty f)) fields).
Proof.
  intros Hall st.
  destruct (C05_site_go_struct uc cfg Hnil (anon_struct sh name vo fields) (Forall_field_ok_anon _ _ _ _ Hall) st)
    as [d [s' [E [docs [n [ms [-> Hm]]]]]]].
  do 2 eexists. split; [exact E|]. do 4 eexists. split; [reflexivity|].
  cbn [sgenerics sfields anon_struct] in Hm. rewrite Hm.
  apply map_ext_in. intros f Hf. now apply c05_erase_anon.
Qed.
End GO3.
