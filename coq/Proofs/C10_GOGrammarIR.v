(* C10, grammar half for Go, part 5: from the IR to the whole file, for an EMPTY uppercase_acronyms list.
     - the DECISION layer (go_texp, go_member_of, go_decl_of) produces declarations of [c10_gog_decl_ok] from every
       item of the grammar domain ([c10_gog_item_ok] on top of dom_C10): structs, aliases, constants, unit enums;
     - [go_generate_recognised_partial]: the recogniser accepts the whole generated file.
   NOT covered: algebraic (tagged) enums at the decision layer ([c10_gog_item_ok] is False for them; their layout is
   covered by Proofs/C10_GOGrammarTagged.v), non-empty uppercase_acronyms. *)
From Coq Require Import List Bool Arith Lia ZifyBool ZifyN NArith String Permutation.
From TS Require Import Model.Str Model.Outcome Model.Unicode Model.Types Model.Parse Model.Rename Model.TopsortAlgo Model.Topsort
                       Model.Lang.Common Model.Lang.Decl Model.Lang.Go.
From TS Require Import Spec.C10Spec Spec.C10TsGrammar Spec.C10GoGrammar Proofs.BackCommon Proofs.C10_TSGrammarTok Proofs.C10_GOGrammarTok
                       Proofs.C10_GOGrammarSemi Proofs.C10_GOGrammarParse Proofs.C10_GOGrammar Proofs.C10_GOGrammarTagged Proofs.C10_GOGrammarFile.
From TS Require Proofs.C10Lex Proofs.C10Common Proofs.C10Monad Proofs.C10_TSFile Proofs.C10_TSGrammar Proofs.C10_TSGrammarFile Proofs.C10_GO Proofs.C10_GOFile.
Import ListNotations.
Local Open Scope N_scope.
Local Notation length := List.length (only parsing).

(* ------------------------------------------------------------------ the grammar domain, on top of dom_C10 *)
(* no acronym conversion; every type_mappings value is a type of the grammar; the package name is an identifier and no keyword
   (c10_go_cfg_ok allows dots and dashes in it) *)
Definition c10_gog_cfg_ok (cfg : go_config) : Prop :=
  go_uppercase_acronyms cfg = [] /\ Forall (fun kv => TyText (snd kv)) (go_type_mappings cfg) /\ c10_go_name_ok (go_package cfg) = true.
(* the exported field name is no keyword (it starts with a capital unless the Rust name starts with a digit after underscores:
   C10-digit-name is outside); a Go type override is a type of the grammar; no type name is a Go keyword (C10-go-keyword-name) *)
Definition c10_gog_field_ok (f : rfield) : Prop :=
  c10_go_name_ok (to_pascal_case (original (fid f))) = true /\
  match type_override f Go with Some o => TyText o | None => c10_go_rtype_kw (fty f) = false end.
Definition c10_gog_item_ok (it : ritem) : Prop :=
  match it with
  | ItStruct s => c10_go_kw (renamed (sid s)) = false /\ forallb (fun g => negb (c10_go_kw g)) (sgenerics s) = true /\ Forall c10_gog_field_ok (sfields s)
  | ItAlias a => c10_go_kw (original (aid a)) = false /\ c10_go_rtype_kw (atype a) = false
  | ItConst c => c10_go_name_ok (to_pascal_case (renamed (cid c))) = true /\ c10_go_rtype_kw (ctype c) = false
  | ItEnum (EUnit sh) =>
    c10_go_kw (original (eid sh)) = false /\
    Forall (fun v => match v with VUnit vsh => c10_go_kw (original (eid sh) ++ original (vid vsh)) = false | _ => False end) (evariants sh)
  | ItEnum (EAlgebraic _ _ _) => False
  end.
Definition c10_gog_dom (pd : parsed) : Prop := Forall c10_gog_item_ok (items_of pd).

Lemma ident_go_ident n : c10_ident_ok n = true -> c10_go_ident_ok n = true.
Proof.
  destruct n as [|c r]; [discriminate|]. unfold c10_ident_ok, c10_go_ident_ok. rewrite !andb_true_iff. intros [Hc Hr]. split.
  - unfold c10_ident_start, c10_go_letter in *. lia.
  - revert Hr. apply Proofs.C10Lex.forallb_impl. intros x. unfold c10_ident_char, c10_go_id_char, c10_go_letter. lia.
Qed.
Lemma ident_name n : c10_ident_ok n = true -> c10_go_kw n = false -> c10_go_name_ok n = true.
Proof. intros H K. unfold c10_go_name_ok. rewrite (ident_go_ident n H), K. reflexivity. Qed.
Lemma ident_app a b : c10_ident_ok a = true -> c10_ident_ok b = true -> c10_ident_ok (a ++ b) = true.
Proof.
  destruct a as [|c r]; [discriminate|]. destruct b as [|d m]; [discriminate|]. unfold c10_ident_ok. cbn [app]. rewrite !andb_true_iff.
  intros [Hc Hr] [Hd Hm]. split; [exact Hc|]. rewrite forallb_app, Hr. cbn [forallb]. rewrite Hm, andb_true_r. unfold c10_ident_start, c10_ident_char in *. lia.
Qed.

Section Decide.
Variable uc : unicode.
Variable cfg : go_config.
Hypothesis Gcfg : c10_gog_cfg_ok cfg.

Definition gop {A} (P : A -> Prop) (m : M go_state A) : Prop := forall s y s', m s = Ok (y, s') -> P y.

Lemma gop_mmapM {A B} (f : A -> M go_state B) (Q : A -> Prop) (P : B -> Prop) :
  (forall x, Q x -> gop P (f x)) -> forall l, Forall Q l -> gop (Forall P) (mmapM f l).
Proof.
  intros Hf l HQ. induction HQ as [|x l Hx Hl IH]; intros s ys s' H; cbn [mmapM] in H.
  - unfold ret in H. injection H as <- <-. constructor.
  - apply mbind_ok in H as (y & s1 & Hy & H). apply mbind_ok in H as (ys' & s2 & Hys & H). unfold ret in H. injection H as <- <-.
    constructor; [exact (Hf x Hx s y s1 Hy)|exact (IH s1 ys' s2 Hys)].
Qed.

Lemma acr_nil name s : go_acronyms_to_uppercase uc cfg name s = Ok (name, s).
Proof. unfold go_acronyms_to_uppercase. rewrite (proj1 Gcfg). reflexivity. Qed.

Lemma tmap_get_tytext k v : tmap_get (go_type_mappings cfg) k = Some v -> TyText v.
Proof.
  destruct Gcfg as (_ & G & _). revert G. generalize (go_type_mappings cfg). intros m G.
  induction G as [|[a b] r Hab Hr IH]; cbn [tmap_get]; [discriminate|].
  destruct (str_eqb a k); [intros E; injection E as <-; exact Hab|exact IH].
Qed.

Lemma leaf w : c10_go_name_ok (lit w) = true -> c10_gog_ty (GName (lit w) []).
Proof. intros H. apply GT_leaf, tytext_name, H. Qed.

Lemma go_texp_gram generics t : c10_rtype_ok t = true -> c10_go_rtype_kw t = false -> gop c10_gog_ty (go_texp cfg generics t).
Proof.
  induction t as [id | id ps IH | t IH | t n IH | t IH | k v IHk IHv | t IH | p] using rtype_ind';
    intros Hok Hkw s x s' H; cbn [c10_rtype_ok c10_go_rtype_kw] in Hok, Hkw; cbn [go_texp] in H.
  - unfold ret in H. injection H as <- <-.
    destruct (tmap_get (go_type_mappings cfg) id) eqn:E; [apply GT_raw, (tmap_get_tytext _ _ E)|]. apply GT_leaf, tytext_name, ident_name; assumption.
  - apply andb_true_iff in Hok as [Hid Hps]. apply orb_false_iff in Hkw as [Kid Kps].
    destruct (tmap_get (go_type_mappings cfg) id) eqn:E.
    + unfold ret in H. injection H as <- <-. apply GT_raw, (tmap_get_tytext _ _ E).
    + apply mbind_ok in H as (parts & s1 & Hgo & H). unfold ret in H. injection H as <- <-.
      assert (Hparts : Forall c10_gog_ty parts).
      { clear E. revert s parts s1 Hgo. induction IH as [|a l Ha Hl IHl]; intros s parts s1 Hgo.
        - unfold ret in Hgo. injection Hgo as <- <-. constructor.
        - cbn [forallb] in Hps. apply andb_true_iff in Hps as [Hpa Hpl]. cbn [existsb] in Kps. apply orb_false_iff in Kps as [Kpa Kpl].
          apply mbind_ok in Hgo as (y & s2 & Hy & Hgo). apply mbind_ok in Hgo as (ys & s3 & Hys & Hgo). unfold ret in Hgo. injection Hgo as <- <-.
          constructor; [exact (Ha Hpa Kpa _ _ _ Hy)|exact (IHl Hpl Kpl _ _ _ Hys)]. }
      destruct parts as [|a l]; [apply GT_leaf, tytext_name, ident_name; assumption|]. apply GT_app; [apply ident_name; assumption|exact Hparts].
  - destruct (tmap_get (go_type_mappings cfg) _) eqn:E; [unfold ret in H; injection H as <- <-; apply GT_raw, (tmap_get_tytext _ _ E)|].
    apply mbind_ok in H as (e & s1 & He & H). unfold ret in H. injection H as <- <-. apply GT_slice, (IH Hok Hkw _ _ _ He).
  - destruct (tmap_get (go_type_mappings cfg) _) eqn:E; [unfold ret in H; injection H as <- <-; apply GT_raw, (tmap_get_tytext _ _ E)|].
    apply mbind_ok in H as (e & s1 & He & H). unfold ret in H. injection H as <- <-. apply GT_array, (IH Hok Hkw _ _ _ He).
  - destruct (tmap_get (go_type_mappings cfg) _) eqn:E; [unfold ret in H; injection H as <- <-; apply GT_raw, (tmap_get_tytext _ _ E)|].
    apply mbind_ok in H as (e & s1 & He & H). unfold ret in H. injection H as <- <-. apply GT_slice, (IH Hok Hkw _ _ _ He).
  - apply andb_true_iff in Hok as [Hk Hv]. apply orb_false_iff in Hkw as [Kk Kv].
    destruct (tmap_get (go_type_mappings cfg) _) eqn:E; [unfold ret in H; injection H as <- <-; apply GT_raw, (tmap_get_tytext _ _ E)|].
    apply mbind_ok in H as (ks & s1 & Hks & H). apply mbind_ok in H as (vs & s2 & Hvs & H). unfold ret in H. injection H as <- <-.
    apply GT_map; [exact (IHk Hk Kk _ _ _ Hks)|exact (IHv Hv Kv _ _ _ Hvs)].
  - destruct (tmap_get (go_type_mappings cfg) _) eqn:E; [unfold ret in H; injection H as <- <-; apply GT_raw, (tmap_get_tytext _ _ E)|].
    apply mbind_ok in H as (e & s1 & He & H). unfold ret in H. injection H as <- <-. pose proof (IH Hok Hkw _ _ _ He) as G.
    destruct (is_vec t && go_no_pointer_slice cfg); [exact G|apply GT_ptr, G].
  - destruct (tmap_get (go_type_mappings cfg) _) eqn:E; [unfold ret in H; injection H as <- <-; apply GT_raw, (tmap_get_tytext _ _ E)|].
    destruct p; try (unfold ret in H; injection H as <- <-; apply leaf; reflexivity).
    all: unfold ret in H; injection H as <- <-; first [apply GT_leaf, tytext_unit|apply GT_leaf, tytext_time].
Qed.

(* without acronyms the name-by-name conversion is the identity *)
Lemma go_ty_acronyms_nil t : go_ty_acronyms uc cfg t = Ok t.
Proof.
  induction t as [n args IH | e IH | n e IH | k v IHk IHv | e IH | x] using Proofs.C10_GOFile.go_ty_ind'; cbn [go_ty_acronyms]; rewrite ?(proj1 Gcfg); cbn [fold_left bind].
  - assert (E : (fix go (l : list go_ty) : outcome (list go_ty) :=
                   match l with [] => Ok [] | x :: r => do y <- go_ty_acronyms uc cfg x; do ys <- go r; Ok (y :: ys) end) args = Ok args).
    { induction IH as [|a l Ha _ IHl]; [reflexivity|]. rewrite Ha. cbn [bind]. rewrite IHl. reflexivity. }
    unfold go_convert_acronyms_to_uppercase. cbn [fold_left bind]. rewrite E. reflexivity.
  - rewrite IH. reflexivity.
  - rewrite IH. reflexivity.
  - rewrite IHk. cbn [bind]. rewrite IHv. reflexivity.
  - rewrite IH. reflexivity.
  - reflexivity.
Qed.

Lemma go_acronyms_ty_gram x : c10_gog_ty x -> gop c10_gog_ty (go_acronyms_ty uc cfg x).
Proof.
  intros Hx s y s' H. unfold go_acronyms_ty in H. apply mbind_ok in H as (text & s1 & Ht & H). rewrite acr_nil in Ht. injection Ht as <- <-.
  unfold ret in H. injection H as <- <-. rewrite go_ty_acronyms_nil.
  destruct (str_eqb (go_show x) (go_show x)); [exact Hx|apply GT_raw, go_show_tytext, Hx].
Qed.

Lemma key_chars k : c10_key_ok k = true -> forallb c10_key_char k = true.
Proof. destruct k; [discriminate|]. intros H. exact H. Qed.

Lemma go_member_gram generics f : c10_field_ok CGO f = true -> c10_gog_field_ok f -> gop c10_gog_member_ok (go_member_of uc cfg generics f).
Proof.
  intros Hf (Gn & Gt) s m s' H. unfold go_member_of in H.
  apply mbind_ok in H as (ty & s1 & Hty & H). apply mbind_ok in H as (gty & s2 & Hg & H).
  apply mbind_ok in H as (fname & s3 & Hn & H). unfold ret in H. injection H as <- <-.
  unfold go_format_field_name in Hn. rewrite acr_nil in Hn. injection Hn as <- <-.
  unfold c10_field_ok in Hf. rewrite !andb_true_iff in Hf. destruct Hf as [[[Hid Hrt] Hdocs] _].
  unfold c10_member_id_ok in Hid. apply andb_true_iff in Hid as [_ Hren].
  unfold c10_gog_member_ok. cbn [gm_docs gm_name gm_type gm_key]. split; [exact (Proofs.C10Common.docs_line_ok _ Hdocs)|]. split; [exact Gn|].
  split; [|exact (key_chars _ Hren)].
  apply (go_acronyms_ty_gram ty) in Hg; [exact Hg|].
  destruct (type_override f Go) as [o|] eqn:Eo.
  - unfold ret in Hty. injection Hty as <- <-. apply GT_raw, Gt.
  - exact (go_texp_gram generics (fty f) Hrt Gt _ _ _ Hty).
Qed.

Lemma generics_names gs : forallb c10_ident_ok gs = true -> forallb (fun g => negb (c10_go_kw g)) gs = true -> forallb c10_go_name_ok gs = true.
Proof.
  induction gs as [|g r IH]; [reflexivity|]. cbn [forallb]. rewrite !andb_true_iff. intros [H1 H2] [K1 K2]. split; [|exact (IH H2 K2)].
  apply ident_name; [exact H1|]. apply negb_true_iff, K1.
Qed.

Lemma go_decl_of_gram custom it : c10_item_ok CGO it = true -> c10_gog_item_ok it -> gop (Forall c10_gog_decl_ok) (go_decl_of uc cfg custom it).
Proof.
  intros Hit Git s ds s' H. destruct it as [rs | e | a | c]; cbn [c10_item_ok go_decl_of c10_gog_item_ok] in *.
  - rewrite !andb_true_iff in Hit. destruct Hit as [[[[Hid Hg] Hf] Hd] _]. destruct Git as (Kn & Kg & Gf).
    unfold c10_type_id_ok in Hid. apply andb_true_iff in Hid as [_ Hren].
    apply mbind_ok in H as (d & s1 & Hdd & H). unfold ret in H. injection H as <- <-. constructor; [|constructor].
    unfold go_struct_decl_of in Hdd. apply mbind_ok in Hdd as (name & s2 & Hn & Hdd). rewrite acr_nil in Hn. injection Hn as <- <-.
    apply mbind_ok in Hdd as (ms & s3 & Hms & Hdd). unfold ret in Hdd. injection Hdd as <- <-.
    cbn [c10_gog_decl_ok]. split; [exact (Proofs.C10Common.docs_line_ok _ Hd)|]. split; [apply ident_name; assumption|].
    split; [apply generics_names; assumption|].
    refine (gop_mmapM _ (fun f => c10_field_ok CGO f = true /\ c10_gog_field_ok f) _ _ (sfields rs) _ _ _ _ Hms).
    + intros f [H1 H2]. apply go_member_gram; assumption.
    + apply Proofs.C10Lex.forallb_Forall in Hf. rewrite Forall_forall in *. intros f Hin. split; auto.
  - destruct e as [sh | tag content sh]; [|contradiction]. cbn [enum_shared] in Hit. rewrite !andb_true_iff in Hit.
    destruct Hit as [[[[[Hid Hg] Hd] Hv] _] _]. unfold c10_type_id_ok in Hid. apply andb_true_iff in Hid as [Horig _].
    destruct Git as (Kn & Gv). unfold go_enum_decls_of in H. cbn [enum_shared] in H.
    apply mbind_ok in H as (anon & s1 & Ha & H). apply mbind_ok in H as (en & s2 & Hen & H). rewrite acr_nil in Hen. injection Hen as <- <-.
    apply mbind_ok in H as (vs & s3 & Hvs & H). unfold ret in H. injection H as <- <-.
    assert (Hanon : anon = []).
    { unfold go_anonymous_struct_decls in Ha. apply mbind_ok in Ha as (dss & s4 & Hdss & Ha). unfold ret in Ha. injection Ha as <- _.
      clear -Gv Hdss. revert s dss s4 Hdss. induction Gv as [|v l Hv0 _ IH]; intros s dss s4 Hdss; cbn [mmapM] in Hdss.
      - unfold ret in Hdss. injection Hdss as <- _. reflexivity.
      - apply mbind_ok in Hdss as (y & s5 & Hy & Hdss). apply mbind_ok in Hdss as (ys & s6 & Hys & Hdss). unfold ret in Hdss. injection Hdss as <- _.
        destruct v as [vsh | t vsh | fs vsh]; try contradiction. unfold ret in Hy. injection Hy as <- _. cbn [List.concat app]. exact (IH _ _ _ Hys). }
    subst anon. cbn [app]. constructor; [|constructor]. cbn [c10_gog_decl_ok].
    split; [exact (Proofs.C10Common.docs_line_ok _ Hd)|]. split; [apply ident_name; assumption|].
    refine (gop_mmapM _ (fun v => c10_variant_ok CGO v = true /\
                                  match v with VUnit vsh => c10_go_kw (original (eid sh) ++ original (vid vsh)) = false | _ => False end) _ _ (evariants sh) _ _ _ _ Hvs).
    + intros v [Hv1 Hv2] s0 y s0' Hy. destruct v as [vsh | t vsh | fs vsh]; try contradiction. unfold go_unit_variant_of in Hy.
      apply mbind_ok in Hy as (en & s5 & Hen & Hy). rewrite acr_nil in Hen. injection Hen as <- <-.
      apply mbind_ok in Hy as (vn & s6 & Hvn & Hy). rewrite acr_nil in Hvn. injection Hvn as <- <-. unfold ret in Hy. injection Hy as <- _.
      unfold c10_variant_ok, c10_member_id_ok in Hv1. cbn [variant_shared] in Hv1. rewrite !andb_true_iff in Hv1. destruct Hv1 as [[[Ho Hr] Hdd] _].
      cbn [c10_gog_case_ok]. split; [exact (Proofs.C10Common.docs_line_ok _ Hdd)|]. split; [|exact (key_chars _ Hr)].
      apply ident_name; [apply ident_app; assumption|exact Hv2].
    + apply Proofs.C10Lex.forallb_Forall in Hv. rewrite Forall_forall in Hv, Gv. apply Forall_forall. intros v Hin. split; [exact (Hv v Hin)|exact (Gv v Hin)].
  - rewrite !andb_true_iff in Hit. destruct Hit as [[[[Hid Hg] Ht] Hd] _]. destruct Git as (Kn & Kt).
    unfold c10_type_id_ok in Hid. apply andb_true_iff in Hid as [Horig _].
    apply mbind_ok in H as (name & s1 & Hn & H). rewrite acr_nil in Hn. injection Hn as <- <-.
    apply mbind_ok in H as (ty & s2 & Hty & H). unfold ret in H. injection H as <- <-. constructor; [|constructor].
    cbn [c10_gog_decl_ok]. split; [exact (Proofs.C10Common.docs_line_ok _ Hd)|]. split; [apply ident_name; assumption|].
    exact (go_texp_gram _ _ Ht Kt _ _ _ Hty).
  - rewrite !andb_true_iff in Hit. destruct Hit as [Hid Ht]. destruct Git as (Kn & Kt).
    apply mbind_ok in H as (ty & s1 & Hty & H). unfold ret in H. injection H as <- <-. constructor; [|constructor].
    cbn [c10_gog_decl_ok]. split; [exact Kn|]. split; [exact (go_texp_gram _ _ Ht Kt _ _ _ Hty)|apply Proofs.C10_TSGrammarFile.dec_of_Z_num].
Qed.
End Decide.

Lemma mmapM_length {St A B} (f : A -> M St B) l : forall s ys s', mmapM f l s = Ok (ys, s') -> List.length ys = List.length l.
Proof.
  induction l as [|x r IH]; intros s ys s' H; cbn [mmapM] in H.
  - unfold ret in H. injection H as <- <-. reflexivity.
  - apply mbind_ok in H as (y & s2 & Hy & H). apply mbind_ok in H as (ys' & s3 & Hys & H). unfold ret in H. injection H as <- <-.
    cbn [List.length]. rewrite (IH _ _ _ Hys). reflexivity.
Qed.

(* ------------------------------------------------------------------ the whole file *)
Theorem go_generate_recognised_partial uc cfg pd text :
  unicode_ok uc -> Proofs.C10_GOFile.c10_go_cfg_ok cfg = true -> c10_gog_cfg_ok cfg ->
  dom_C10 CGO pd = true -> c10_gog_dom pd ->
  go_generate uc cfg pd = Ok text -> exists n, c10_go_recognise text = Some n /\ (List.length (items_of pd) <= n)%nat.
Proof.
  intros Huc Hcfg Gcfg Hdom Gdom H. unfold go_generate in H. apply Proofs.C10Common.bind_ok in H as (items & Et & H).
  pose proof (Proofs.C10_TSFile.topsort_ok_perm _ _ Et) as Hperm.
  assert (Hitems : Forall (fun it => c10_item_ok CGO it = true /\ c10_gog_item_ok it) items).
  { apply Proofs.C10Lex.forallb_Forall in Hdom. fold (items_of pd) in Hdom. unfold c10_gog_dom in Gdom.
    eapply Permutation_Forall; [apply Permutation_sym, Hperm|]. rewrite Forall_forall in *. intros it Hin. split; auto. }
  set (custom := go_types_mapping_to_struct items) in *.
  match type of H with match ?run _ with _ => _ end = _ => destruct (run []) as [[out sfin]| |] eqn:Er; try discriminate end.
  injection H as <-.
  apply mbind_ok in Er as (header & s1 & Hh & Er). apply mbind_ok in Er as (body & s2 & Hb & Er).
  apply mbind_ok in Er as (imports & s3 & Hi & Er). unfold mget in Hi. injection Hi as <- <-. unfold ret in Er. injection Er as <- _.
  unfold go_begin_file in Hh. apply mbind_ok in Hh as (u & s0 & Ha & Hh). unfold ret in Hh. injection Hh as <- <-.
  destruct (Proofs.C10_GOFile.go_add_import_post (lit "encoding/json") eq_refl _ _ _ Ha eq_refl) as [_ Hs0].
  unfold mconcat in Hb. apply mbind_ok in Hb as (parts & s4 & Hp & Hb). unfold ret in Hb. injection Hb as <- <-.
  assert (Hstep : forall it, c10_item_ok CGO it = true /\ c10_gog_item_ok it ->
            Proofs.C10Monad.post Proofs.C10_GOFile.go_inv
              (fun t => exists tds, CSeg false t (decls_toks tds) false /\ Forall DeclToks tds /\ (1 <= List.length tds)%nat) (go_write_item uc cfg custom it)).
  { intros it [Hit Git] s y s' Hy Hs. unfold go_write_item in Hy. apply mbind_ok in Hy as (ds & s5 & Hd & Hy). unfold ret in Hy. injection Hy as <- <-.
    destruct (Proofs.C10_GOFile.go_decl_post uc Huc cfg Hcfg custom it Hit _ _ _ Hd Hs) as [_ Hs5]. split; [|exact Hs5].
    pose proof (go_decl_of_gram uc cfg Gcfg custom it Hit Git _ _ _ Hd) as Gds.
    assert (Hparts : Forall (fun t => exists tds, CSeg false t (decls_toks tds) false /\ Forall DeclToks tds /\ (1 <= List.length tds)%nat) (map go_render_decl ds)).
    { apply Forall_map. revert Gds. apply Forall_impl. apply go_render_decl_gram. }
    destruct (parts_gram _ Hparts) as (tds & H1 & H2 & H3). exists tds. split; [exact H1|]. split; [exact H2|].
    rewrite map_length in H3.
    assert (Hne : (1 <= List.length ds)%nat).
    { clear -Hd Git. destruct it as [rs | e | a | c]; cbn [go_decl_of] in Hd.
      - apply mbind_ok in Hd as (d & s1 & _ & Hd). unfold ret in Hd. injection Hd as <- _. cbn. lia.
      - destruct e as [sh | tag content sh]; [|contradiction]. unfold go_enum_decls_of in Hd. apply mbind_ok in Hd as (anon & s1 & _ & Hd).
        apply mbind_ok in Hd as (en & s2 & _ & Hd). apply mbind_ok in Hd as (vs & s3 & _ & Hd). unfold ret in Hd. injection Hd as <- _.
        rewrite app_length. cbn. lia.
      - apply mbind_ok in Hd as (d & s1 & _ & Hd). apply mbind_ok in Hd as (d2 & s2 & _ & Hd). unfold ret in Hd. injection Hd as <- _. cbn. lia.
      - apply mbind_ok in Hd as (d & s1 & _ & Hd). unfold ret in Hd. injection Hd as <- _. cbn. lia. }
    lia. }
  destruct (Proofs.C10Monad.post_mmapM Proofs.C10_GOFile.go_inv _ _ _ Hstep items Hitems _ _ _ Hp Hs0) as [Pparts Hs4].
  pose proof Hcfg as Hc. unfold Proofs.C10_GOFile.c10_go_cfg_ok in Hc. rewrite !andb_true_iff in Hc. destruct Hc as [[[_ Hver] _] _].
  destruct (go_file_layout (go_no_version_header cfg) (go_version cfg) (go_package cfg) s4 parts
              (Proofs.C10Common.dotted_line _ Hver) (proj2 (proj2 Gcfg)) Hs4 Pparts) as (n & Hn & Hl).
  exists n. split; [exact Hn|].
  pose proof (Permutation_length Hperm) as Hpl.
  pose proof (mmapM_length _ _ _ _ _ Hp) as Hpa. lia.
Qed.

(* ------------------------------------------------------------------ non-vacuity *)
(* the program of the witness without its algebraic enum: a documented generic struct, a generic alias, a unit enum, two constants *)
Definition gi_prog : parsed :=
  {| p_structs := [Proofs.C10_TSGrammarFile.g_struct]; p_enums := [Proofs.C10_TSGrammarFile.g_unit_enum]; p_aliases := [Proofs.C10_TSGrammarFile.g_alias];
     p_consts := p_consts Proofs.C10_TSGrammarFile.g_prog; p_type_names := []; p_errors := []; p_imports := [] |}.
Definition gi_text : str := match go_generate uc_exec gg_cfg gi_prog with Ok t => t | _ => [] end.

Example C10_grammar_go_partial_nonvacuous :
  unicode_ok uc_exec /\ Proofs.C10_GOFile.c10_go_cfg_ok gg_cfg = true /\ c10_gog_cfg_ok gg_cfg /\ dom_C10 CGO gi_prog = true /\ c10_gog_dom gi_prog /\
  go_generate uc_exec gg_cfg gi_prog = Ok gi_text /\ c10_go_recognise gi_text = Some 6%nat /\
  contains_sub (lit "type Person[T any, U any] struct {") gi_text = true /\ contains_sub (lit "ColorDarkBlue Color = ""dark-blue""") gi_text = true.
Proof.
  split; [exact uc_exec_ok|]. split; [vm_compute; reflexivity|]. split.
  { split; [reflexivity|]. split; [|reflexivity]. repeat constructor; cbn [snd]; [apply tytext_name; reflexivity|apply tytext_slice, tytext_name; reflexivity]. }
  split; [vm_compute; reflexivity|]. split.
  { unfold c10_gog_dom. cbn [items_of gi_prog p_aliases p_structs p_enums p_consts map app].
    repeat first [apply Forall_cons | apply Forall_nil | split]; vm_compute; reflexivity. }
  repeat split; vm_compute; reflexivity.
Qed.
