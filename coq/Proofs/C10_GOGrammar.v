(* C10, grammar half for Go, part 3: the LAYOUT layer of Model/Lang/Go.v produces text whose token stream (semicolons
   inserted) is a sequence of declarations of the grammar.
     - [TyText t]: the text t is an (open) fragment whose tokens are a Type of the grammar, and a line end after it
       becomes a semicolon; closed under the type formers of [go_show];
     - comment lines are fragments without tokens; struct members; the declaration forms of [go_render_decl]:
       structs (with type parameters), aliases, constants, unit enums (a type and a constant group), tagged enums
       (key type, constant group, struct, UnmarshalJSON / MarshalJSON, accessors, constructors). *)
From Coq Require Import List Bool Lia ZifyBool ZifyN NArith String.
From TS Require Import Model.Str Model.Outcome Model.Unicode Model.Types Model.Parse Model.Lang.Common Model.Lang.Decl Model.Lang.Go.
From TS Require Import Spec.C10Spec Spec.C10TsGrammar Spec.C10GoGrammar Proofs.C10_TSGrammarTok Proofs.C10_GOGrammarTok Proofs.C10_GOGrammarSemi Proofs.C10_GOGrammarParse.
From TS Require Proofs.C10Lex Proofs.C10_TSGrammar Proofs.C10_TSGrammarFile Proofs.C10_GOFile.
Import ListNotations.
Local Open Scope N_scope.
Local Notation length := List.length (only parsing).

Ltac lit_cseg := eapply cseg_compute; vm_compute; reflexivity.

Lemma name_nkw n : c10_go_name_ok n = true -> nkw n.
Proof. unfold c10_go_name_ok, nkw. rewrite andb_true_iff, negb_true_iff. tauto. Qed.

(* ------------------------------------------------------------------ type expressions *)
Definition TyText (t : str) : Prop := exists tx, (forall fl, Seg fl t tx true) /\ GGr GTy tx.

Lemma tytext_name n : c10_go_name_ok n = true -> TyText n.
Proof. intros H. exists [QId n]. split; [intros fl; apply seg_name, H|apply GG_name, name_nkw, H]. Qed.

Lemma seg_compute fl a tr ta fl' :
  c10_go_tokens (S (List.length a)) a = Some tr -> lc_free a = true -> c10_go_semis fl tr = ta -> endfl fl tr = fl' -> Seg fl a ta fl'.
Proof. intros H L. apply seg_of_raw. exact (rfrag_compute a tr H L). Qed.

Lemma tytext_unit : TyText (lit "struct{}").
Proof.
  exists [qkw "struct"; QP 123; QP 125]. split; [intros fl; destruct fl; eapply seg_compute; vm_compute; reflexivity|].
  apply GG_struct, GG_fields_end.
Qed.
Lemma tytext_time : TyText (lit "time.Time").
Proof.
  exists [QId (lit "time"); QP 46; QId (lit "Time")]. split; [intros fl; destruct fl; eapply seg_compute; vm_compute; reflexivity|].
  apply GG_qual; reflexivity.
Qed.

Lemma L_slice fl : CSeg fl (lit "[]") [QP 91; QP 93] true. Proof. destruct fl; lit_cseg. Qed.
Lemma L_lbrack fl : CSeg fl (lit "[") [QP 91] false. Proof. destruct fl; lit_cseg. Qed.
Lemma L_rbrack fl : CSeg fl (lit "]") [QP 93] true. Proof. destruct fl; lit_cseg. Qed.
Lemma L_star fl : CSeg fl (lit "*") [QP 42] false. Proof. destruct fl; lit_cseg. Qed.
Lemma L_map fl : CSeg fl (lit "map[") [qkw "map"; QP 91] false. Proof. destruct fl; lit_cseg. Qed.
Lemma L_comma_sp fl : CSeg fl (lit ", ") [QP 44] false. Proof. destruct fl; lit_cseg. Qed.
Lemma L_sp fl : CSeg fl (lit " ") [] fl. Proof. destruct fl; lit_cseg. Qed.
Lemma L_tab fl : CSeg fl [ch_tab] [] fl. Proof. destruct fl; lit_cseg. Qed.

Lemma tytext_slice t : TyText t -> TyText (lit "[]" ++ t).
Proof.
  intros (tx & Hf & Hg). exists ([QP 91; QP 93] ++ tx). split; [|apply GG_slice, Hg].
  intros fl b tb Hs Hb. rewrite <- ?app_assoc. apply (L_slice fl). exact (Hf true b tb Hs Hb).
Qed.
Lemma tytext_ptr t : TyText t -> TyText (lit "*" ++ t).
Proof.
  intros (tx & Hf & Hg). exists ([QP 42] ++ tx). split; [|apply GG_ptr, Hg].
  intros fl b tb Hs Hb. rewrite <- ?app_assoc. apply (L_star fl). exact (Hf false b tb Hs Hb).
Qed.
Lemma tytext_array n t : TyText t -> TyText (lit "[" ++ dec_of_N n ++ lit "]" ++ t).
Proof.
  intros (tx & Hf & Hg). exists ([QP 91] ++ [QNum; QP 93] ++ tx). split; [|apply GG_array, Hg].
  intros fl b tb Hs Hb. rewrite <- ?app_assoc. apply (L_lbrack fl). rewrite (app_assoc (dec_of_N n)).
  destruct (Proofs.C10_TSGrammarFile.dec_of_N_digits n) as [H1 H2]. apply (cseg_digits_rbrack false _ H1 H2). exact (Hf true b tb Hs Hb).
Qed.
Lemma tytext_map k v : TyText k -> TyText v -> TyText (lit "map[" ++ k ++ lit "]" ++ v).
Proof.
  intros (tk & Hfk & Hgk) (tv & Hfv & Hgv). exists ([qkw "map"; QP 91] ++ tk ++ [QP 93] ++ tv). split.
  - intros fl b tb Hs Hb. rewrite <- ?app_assoc. apply (L_map fl). apply (Hfk false); [reflexivity|]. apply (L_rbrack true). exact (Hfv true b tb Hs Hb).
  - change ([qkw "map"; QP 91] ++ tk ++ [QP 93] ++ tv) with (qkw "map" :: QP 91 :: tk ++ QP 93 :: tv). apply GG_map; assumption.
Qed.

Lemma tylist_text l : l <> [] -> Forall TyText l -> exists tl, (forall fl, Seg fl (join (lit ", ") l) tl true) /\ GGr GArgs tl.
Proof.
  induction l as [|x r IH]; [congruence|]. intros _ H. inversion H as [|x0 r0 (tx & Hf & Hg) Hr]; subst.
  destruct r as [|y r].
  - exists tx. split; [exact Hf|apply GG_args1, Hg].
  - destruct (IH ltac:(discriminate) Hr) as (tl & Hfl & Hgl). exists (tx ++ [QP 44] ++ tl). split.
    + intros fl b tb Hs Hb. change (join (lit ", ") (x :: y :: r)) with (x ++ lit ", " ++ join (lit ", ") (y :: r)).
      rewrite <- ?app_assoc. apply (Hf fl); [reflexivity|]. apply (L_comma_sp true). exact (Hfl false b tb Hs Hb).
    + apply GG_args; assumption.
Qed.

Lemma tytext_app n args : c10_go_name_ok n = true -> args <> [] -> Forall TyText args ->
  TyText (n ++ lit "[" ++ join (lit ", ") args ++ lit "]").
Proof.
  intros Hn Hne Ha. destruct (tylist_text args Hne Ha) as (tl & Hfl & Hgl).
  exists ([QId n] ++ [QP 91] ++ tl ++ [QP 93]). split.
  - intros fl b tb Hs Hb. rewrite <- ?app_assoc. apply (seg_name fl n Hn); [reflexivity|]. apply (L_lbrack true).
    apply (Hfl false); [reflexivity|]. exact (L_rbrack true b tb Hb).
  - apply (GG_app n tl (name_nkw _ Hn) Hgl).
Qed.

(* a type tree whose applied names are names of the grammar, whose leaves and verbatim parts are types of the grammar *)
Inductive c10_gog_ty : go_ty -> Prop :=
| GT_leaf n : TyText n -> c10_gog_ty (GName n [])
| GT_app n a l : c10_go_name_ok n = true -> Forall c10_gog_ty (a :: l) -> c10_gog_ty (GName n (a :: l))
| GT_slice e : c10_gog_ty e -> c10_gog_ty (GSlice e)
| GT_array n e : c10_gog_ty e -> c10_gog_ty (GArray n e)
| GT_map k v : c10_gog_ty k -> c10_gog_ty v -> c10_gog_ty (GMap k v)
| GT_ptr e : c10_gog_ty e -> c10_gog_ty (GPtr e)
| GT_raw t : TyText t -> c10_gog_ty (GRaw t).

Lemma go_show_tytext x : c10_gog_ty x -> TyText (go_show x).
Proof.
  induction x as [n args IH | e IH | n e IH | k v IHk IHv | e IH | t] using Proofs.C10_GOFile.go_ty_ind'; intros H; inversion H; subst.
  - assumption.
  - change (go_show (GName n (a :: l))) with (n ++ lit "[" ++ join (lit ", ") (map go_show (a :: l)) ++ lit "]").
    apply tytext_app; [assumption|discriminate|]. apply Forall_map. rewrite Forall_forall in *. intros y Hy. apply IH; auto.
  - change (go_show (GSlice e)) with (lit "[]" ++ go_show e). apply tytext_slice. auto.
  - change (go_show (GArray n e)) with (lit "[" ++ dec_of_N n ++ lit "]" ++ go_show e). apply tytext_array. auto.
  - change (go_show (GMap k v)) with (lit "map[" ++ go_show k ++ lit "]" ++ go_show v). apply tytext_map; auto.
  - change (go_show (GPtr e)) with (lit "*" ++ go_show e). apply tytext_ptr. auto.
  - assumption.
Qed.

(* ------------------------------------------------------------------ comment lines *)
Lemma go_tabs_blank n : forallb c10_go_blank (go_tabs n) = true.
Proof. unfold go_tabs. induction n as [|n IH]; [reflexivity|]. cbn [repeat_str app forallb]. exact IH. Qed.

Lemma line_notnl c : Proofs.C10Lex.c10_line_ok c = true -> forallb notnl c = true.
Proof. unfold Proofs.C10Lex.c10_line_ok. apply Proofs.C10Lex.forallb_impl. intros x. unfold notnl. unfold ch_nl, ch_cr. lia. Qed.

Lemma go_comment_cseg indent c : Proofs.C10Lex.c10_line_ok c = true -> CSeg false (go_write_comment indent c) [] false.
Proof.
  intros H b tb Hb. unfold go_write_comment. rewrite <- ?app_assoc. apply (cseg_blank false _ (go_tabs_blank indent)).
  rewrite (app_assoc c). change (lit "// " ++ (c ++ go_nl) ++ b) with ((47 :: 47 :: (32 :: c) ++ [ch_nl]) ++ b).
  apply cseg_comment; [|exact Hb]. cbn [forallb]. exact (line_notnl c H).
Qed.
Lemma go_comments_cseg indent docs : forallb Proofs.C10Lex.c10_line_ok docs = true -> CSeg false (go_write_comments indent docs) [] false.
Proof.
  unfold go_write_comments. induction docs as [|c r IH]; intros H; [apply cseg_nil|]. cbn [forallb] in H. apply andb_true_iff in H as [Hc Hr].
  cbn [flat_map]. change (@nil c10_gtok) with (@nil c10_gtok ++ []). apply cseg_app with (fl1 := false); [apply go_comment_cseg, Hc|exact (IH Hr)].
Qed.

(* ------------------------------------------------------------------ struct members *)
Lemma key_escape k : forallb c10_key_char k = true -> flat_map escape_debug_char k = k.
Proof.
  induction k as [|c r IH]; [reflexivity|]. cbn [forallb flat_map]. rewrite andb_true_iff. intros [Hc Hr].
  rewrite (proj1 (Proofs.C10_TSGrammar.escape_key_char c Hc)), (IH Hr). reflexivity.
Qed.
Lemma key_gnotick k : forallb c10_key_char k = true -> gnotick k = true.
Proof. unfold gnotick. apply Proofs.C10Lex.forallb_impl. intros c. unfold c10_key_char, is_aalpha, is_alower, is_aupper, is_adigit, ch_us, ch_dash, ch_bt. lia. Qed.
Lemma gnotick_app a b : gnotick (a ++ b) = gnotick a && gnotick b.
Proof. apply forallb_app. Qed.

Definition c10_gog_member_ok (m : go_member) : Prop :=
  forallb Proofs.C10Lex.c10_line_ok (gm_docs m) = true /\ c10_go_name_ok (gm_name m) = true /\ c10_gog_ty (gm_type m) /\
  forallb c10_key_char (gm_key m) = true.

Lemma L_nl_true : CSeg true go_nl [QP 59] false. Proof. lit_cseg. Qed.
Lemma L_nl_false : CSeg false go_nl [] false. Proof. lit_cseg. Qed.

Lemma member_text m : c10_gog_member_ok m -> exists tm, CSeg false (go_render_member m) (tm ++ [QP 59]) false /\ GGr GField tm.
Proof.
  intros (Hd & Hn & Ht & Hk).
  assert (Hty : TyText ((if gm_star m then lit "*" else []) ++ go_show (gm_type m))).
  { destruct (gm_star m); [apply tytext_ptr|]; apply go_show_tytext, Ht. }
  destruct Hty as (tx & Hf & Hg). exists (QId (gm_name m) :: tx ++ [QStr]). split; [|exact (GG_field _ _ true (name_nkw _ Hn) Hg)].
  intros b tb Hb.
  replace (((QId (gm_name m) :: tx ++ [QStr]) ++ [QP 59]) ++ tb) with ([QId (gm_name m)] ++ tx ++ [QStr] ++ [QP 59] ++ tb)
    by (cbn [app]; rewrite <- ?app_assoc; reflexivity).
  unfold go_render_member. rewrite (key_escape _ Hk). rewrite <- ?app_assoc.
  apply (go_comments_cseg 1 _ Hd). apply (L_tab false).
  apply (seg_name false _ Hn); [reflexivity|]. apply (L_sp true).
  rewrite (app_assoc (if gm_star m then lit "*" else [])). apply (Hf true); [reflexivity|].
  replace (lit " `json:""" ++ gm_key m ++ (if gm_omitempty m then lit ",omitempty" else []) ++ lit """`" ++ go_nl ++ b)
    with (lit " " ++ (ch_bt :: (lit "json:""" ++ gm_key m ++ (if gm_omitempty m then lit ",omitempty" else []) ++ lit """") ++ [ch_bt]) ++ go_nl ++ b).
  2:{ cbn [lit app]. repeat (rewrite <- ?app_assoc; cbn [app]). reflexivity. }
  apply (L_sp true). change ([QStr] ++ [QP 59] ++ tb) with ([QStr] ++ ([QP 59] ++ tb)).
  apply (cseg_raw true).
  - rewrite !gnotick_app, (key_gnotick _ Hk). destruct (gm_omitempty m); reflexivity.
  - exact (L_nl_true b tb Hb).
Qed.

Lemma L_rbrace_nl : CSeg false (lit "}" ++ go_nl) [QP 125; QP 59] false. Proof. lit_cseg. Qed.

(* the members of a struct up to the closing brace and the line end after it *)
Lemma members_text ms : Forall c10_gog_member_ok ms ->
  exists body, CSeg false (List.concat (map go_render_member ms) ++ lit "}" ++ go_nl) (body ++ [QP 59]) false /\ GGr GFields body.
Proof.
  induction 1 as [|m ms Hm _ (body & Hfb & Hgb)].
  - exists [QP 125]. split; [exact L_rbrace_nl|apply GG_fields_end].
  - destruct (member_text m Hm) as (tm & Hfm & Hgm). exists (tm ++ QP 59 :: body). split; [|apply GG_fields_cons; assumption].
    cbn [map List.concat]. rewrite <- app_assoc. replace ((tm ++ QP 59 :: body) ++ [QP 59]) with ((tm ++ [QP 59]) ++ body ++ [QP 59]) by (rewrite <- ?app_assoc; reflexivity).
    apply cseg_app with (fl1 := false); assumption.
Qed.

(* ------------------------------------------------------------------ type parameters *)
Lemma L_any_comma : CSeg true (lit " any, ") [qkw "any"; QP 44] false. Proof. lit_cseg. Qed.
Lemma L_any_rbrack : CSeg true (lit " any]") [qkw "any"; QP 93] true. Proof. lit_cseg. Qed.

Lemma gens_cseg gs : gs <> [] -> forallb c10_go_name_ok gs = true ->
  CSeg false (join (lit ", ") (map (fun g => g ++ lit " any") gs) ++ lit "]") (gparams_body gs) true.
Proof.
  induction gs as [|g r IH]; [congruence|]. intros _ H. cbn [forallb] in H. apply andb_true_iff in H as [Hg Hr].
  destruct r as [|g2 r].
  - cbn [map join gparams_body]. intros b tb Hb. rewrite <- ?app_assoc. change (QId g :: ?x) with ([QId g] ++ x).
    apply (seg_name false _ Hg); [reflexivity|]. exact (L_any_rbrack b tb Hb).
  - change (join (lit ", ") (map (fun g0 => g0 ++ lit " any") (g :: g2 :: r)))
      with ((g ++ lit " any") ++ lit ", " ++ join (lit ", ") (map (fun g0 => g0 ++ lit " any") (g2 :: r))).
    change (gparams_body (g :: g2 :: r)) with ([QId g] ++ [qkw "any"; QP 44] ++ gparams_body (g2 :: r)).
    intros b tb Hb. rewrite <- ?app_assoc. apply (seg_name false _ Hg); [reflexivity|].
    change (lit " any" ++ lit ", " ++ ?x) with (lit " any, " ++ x). apply L_any_comma.
    specialize (IH ltac:(discriminate) Hr b tb Hb). rewrite <- app_assoc in IH. exact IH.
Qed.

Lemma names_nkw gs : forallb c10_go_name_ok gs = true -> Forall nkw gs.
Proof. intros H. apply Proofs.C10Lex.forallb_Forall in H. revert H. apply Forall_impl. apply name_nkw. Qed.

(* ------------------------------------------------------------------ declarations *)
Definition c10_gog_case_ok (v : list str * str * str) : Prop :=
  let '(vdocs, const, wire) := v in
  forallb Proofs.C10Lex.c10_line_ok vdocs = true /\ c10_go_name_ok const = true /\ forallb c10_key_char wire = true.

(* tagged enums: the constant, the key type, the struct, the receiver, the two field names, the accessor methods of the variants
   that carry something and the helper-struct references are names; wire names, tag and content keys are key-shaped (they are
   printed inside double quotes resp. raw strings); a tuple variant's content type is a type of the grammar *)
Definition c10_gog_content_ok (method : str) (c : go_content) : Prop :=
  match c with
  | GCNone => True
  | GCType ty _ => c10_go_name_ok method = true /\ c10_gog_ty ty
  | GCInner ref => c10_go_name_ok method = true /\ c10_go_name_ok ref = true
  end.
Definition c10_gog_variant_ok (v : go_variant) : Prop :=
  forallb Proofs.C10Lex.c10_line_ok (gv_docs v) = true /\ c10_go_name_ok (gv_const v) = true /\ forallb c10_key_char (gv_wire v) = true /\
  c10_gog_content_ok (gv_method v) (gv_content v).
Definition c10_gog_tagged_ok (e : go_tagged) : Prop :=
  forallb Proofs.C10Lex.c10_line_ok (gt_docs e) = true /\ c10_go_name_ok (gt_name e) = true /\ c10_go_name_ok (gt_key_type e) = true /\
  forallb c10_key_char (gt_tag_key e) = true /\ forallb c10_key_char (gt_content_key e) = true /\
  c10_go_name_ok (gt_tag_field e) = true /\ c10_go_name_ok (gt_content_field e) = true /\ c10_go_name_ok (gt_short e) = true /\
  Forall c10_gog_variant_ok (gt_variants e).

Definition c10_gog_decl_ok (d : go_decl) : Prop :=
  match d with
  | GOStruct docs name gs ms =>
    forallb Proofs.C10Lex.c10_line_ok docs = true /\ c10_go_name_ok name = true /\ forallb c10_go_name_ok gs = true /\ Forall c10_gog_member_ok ms
  | GOAlias docs name ty => forallb Proofs.C10Lex.c10_line_ok docs = true /\ c10_go_name_ok name = true /\ c10_gog_ty ty
  | GOConst name ty value => c10_go_name_ok name = true /\ c10_gog_ty ty /\ Proofs.C10_TSGrammar.c10_tsg_num value
  | GOUnitEnum docs name vs => forallb Proofs.C10Lex.c10_line_ok docs = true /\ c10_go_name_ok name = true /\ Forall c10_gog_case_ok vs
  | GOTagged e => c10_gog_tagged_ok e
  end.

Lemma L_type : CSeg false (lit "type ") [qkw "type"] false. Proof. lit_cseg. Qed.
Lemma L_struct_open : CSeg true (lit " struct {" ++ go_nl) [qkw "struct"; QP 123] false. Proof. lit_cseg. Qed.
Lemma L_nlnl_true : CSeg true (go_nl ++ go_nl) [QP 59] false. Proof. lit_cseg. Qed.
Lemma L_const : CSeg false (lit "const ") [qkw "const"] false. Proof. lit_cseg. Qed.
Lemma L_eq fl : CSeg fl (lit " = ") [QP 61] false. Proof. destruct fl; lit_cseg. Qed.
Lemma L_minus fl : CSeg fl [45] [QP 45] false. Proof. destruct fl; lit_cseg. Qed.
Lemma L_string_const : CSeg true (lit " string" ++ go_nl ++ lit "const (") [QId (lit "string"); QP 59; qkw "const"; QP 40] false. Proof. lit_cseg. Qed.
Lemma L_group_end fl : CSeg fl (go_nl ++ lit ")" ++ go_nl) ((if fl then [QP 59] else []) ++ [QP 41; QP 59]) false. Proof. destruct fl; lit_cseg. Qed.

Definition case_const (v : list str * str * str) : str := let '(_, const, _) := v in const.

Lemma unit_cases_text name vs : c10_go_name_ok name = true -> Forall c10_gog_case_ok vs -> forall fl,
  CSeg fl (List.concat (map (fun v : list str * str * str => let '(vdocs, const, wire) := v in
                               go_nl ++ go_write_comments 1 vdocs ++ [ch_tab] ++ const ++ lit " " ++ name ++ lit " = " ++ debug_str wire) vs) ++
           go_nl ++ lit ")" ++ go_nl)
          ((if fl then [QP 59] else []) ++ cgroup_toks name (map case_const vs) ++ [QP 59]) false.
Proof.
  intros Hn. induction 1 as [|[[vdocs const] wire] vs (Hd & Hc & Hw) _ IH]; intros fl.
  - cbn [map List.concat app cgroup_toks]. exact (L_group_end fl).
  - intros b tb Hb. cbn [map List.concat case_const cgroup_toks]. rewrite <- ?app_assoc.
    assert (Hnl : CSeg fl go_nl (if fl then [QP 59] else []) false) by (destruct fl; lit_cseg).
    apply Hnl. apply (go_comments_cseg 1 _ Hd). apply (L_tab false). cbn [app].
    change (QId const :: QId name :: QP 61 :: QStr :: QP 59 :: ?x) with ([QId const] ++ [QId name] ++ [QP 61] ++ [QStr] ++ QP 59 :: x).
    rewrite <- ?app_assoc. apply (seg_name false _ Hc); [reflexivity|]. apply (L_sp true). apply (seg_name true _ Hn); [reflexivity|]. apply (L_eq true).
    destruct (Proofs.C10_TSGrammar.debug_key wire Hw) as [-> Hp]. apply (cseg_quoted false _ Hp).
    specialize (IH true b tb Hb). rewrite <- ?app_assoc in IH. exact IH.
Qed.

Lemma decl_head k r : (k = lit "type" \/ k = lit "const" \/ k = lit "func") -> exists k' r', QId k :: r = QId k' :: r' /\ str_eqb k' (lit "import") = false.
Proof. intros H. exists k, r. split; [reflexivity|]. destruct H as [-> | [-> | ->]]; reflexivity. Qed.

(* structs, aliases, constants, unit enums (tagged enums: Proofs/C10_GOGrammarTagged.v) *)
Theorem go_render_decl_gram_basic d : match d with GOTagged _ => False | _ => True end -> c10_gog_decl_ok d ->
  exists tds, CSeg false (go_render_decl d) (decls_toks tds) false /\ Forall DeclToks tds /\ (1 <= List.length tds)%nat.
Proof.
  intros Hnt. destruct d as [docs name gs ms | docs name ty | name ty value | docs name vs | e]; cbn [c10_gog_decl_ok]; [| | | |contradiction].
  - intros (Hd & Hn & Hg & Hms). destruct (members_text ms Hms) as (body & Hfb & Hgb).
    exists [qkw "type" :: QId name :: gparams gs ++ qkw "struct" :: QP 123 :: body]. split; [|split; [|cbn; lia]].
    + unfold decls_toks. cbn [map List.concat]. rewrite app_nil_r. intros b tb Hb. cbn [go_render_decl]. rewrite <- ?app_assoc. cbn [app].
      apply (go_comments_cseg 0 _ Hd). change (qkw "type" :: QId name :: ?x) with ([qkw "type"] ++ [QId name] ++ x). apply L_type.
      rewrite <- ?app_assoc.
      assert (G : CSeg true (match gs with [] => [] | _ :: _ => lit "[" ++ join (lit ", ") (map (fun g => g ++ lit " any") gs) ++ lit "]" end) (gparams gs) true).
      { destruct gs as [|g r]; [apply cseg_nil|]. unfold gparams. intros b' tb' Hb'. rewrite <- ?app_assoc. change (QP 91 :: ?x) with ([QP 91] ++ x). rewrite <- app_assoc.
        apply (L_lbrack true). rewrite app_assoc. exact (gens_cseg (g :: r) ltac:(discriminate) Hg b' tb' Hb'). }
      apply (seg_name false _ Hn); [destruct gs; reflexivity|]. apply G.
      change (qkw "struct" :: QP 123 :: ?x) with ([qkw "struct"; QP 123] ++ x). rewrite <- app_assoc.
      change (lit " struct {" ++ go_nl ++ ?x) with ((lit " struct {" ++ go_nl) ++ x). apply L_struct_open.
      specialize (Hfb b tb Hb). rewrite <- ?app_assoc in Hfb. exact Hfb.
    + constructor; [|constructor]. split; [apply decl_head; auto|]. intros rest. cbn [app]. rewrite <- ?app_assoc. cbn [app].
      change (qkw "struct" :: QP 123 :: body ++ QP 59 :: rest) with ((qkw "struct" :: QP 123 :: body) ++ QP 59 :: rest).
      apply decl_type; [apply name_nkw, Hn|apply names_nkw, Hg|apply GG_struct, Hgb].
  - intros (Hd & Hn & Hty). destruct (go_show_tytext _ Hty) as (tx & Hf & Hgx).
    exists [qkw "type" :: QId name :: gparams [] ++ tx]. split; [|split; [|cbn; lia]].
    + unfold decls_toks. cbn [map List.concat gparams]. rewrite app_nil_r. intros b tb Hb. cbn [go_render_decl]. rewrite <- ?app_assoc. cbn [app].
      apply (go_comments_cseg 0 _ Hd). change (qkw "type" :: QId name :: ?x) with ([qkw "type"] ++ [QId name] ++ x). apply L_type.
      rewrite <- ?app_assoc. apply (seg_name false _ Hn); [reflexivity|]. apply (L_sp true). apply (Hf true); [reflexivity|].
      change (go_nl ++ go_nl ++ b) with ((go_nl ++ go_nl) ++ b). exact (L_nlnl_true b tb Hb).
    + constructor; [|constructor]. split; [apply decl_head; auto|]. intros rest. cbn [app]. rewrite <- ?app_assoc.
      apply (decl_type name [] tx); [apply name_nkw, Hn|constructor|exact Hgx].
  - intros (Hn & Hty & (neg & dg & -> & Hne & Hdg)). destruct (go_show_tytext _ Hty) as (tx & Hf & Hgx).
    exists [qkw "const" :: QId name :: tx ++ QP 61 :: (if neg then [QP 45] else []) ++ [QNum]]. split; [|split; [|cbn; lia]].
    + unfold decls_toks. cbn [map List.concat]. rewrite app_nil_r. intros b tb Hb.
      replace (((qkw "const" :: QId name :: tx ++ QP 61 :: (if neg then [QP 45] else []) ++ [QNum]) ++ [QP 59]) ++ tb)
        with ([qkw "const"] ++ [QId name] ++ tx ++ [QP 61] ++ (if neg then [QP 45] else []) ++ [QNum; QP 59] ++ tb)
        by (cbn [app]; repeat (rewrite <- ?app_assoc; cbn [app]); reflexivity).
      cbn [go_render_decl]. rewrite <- ?app_assoc. apply L_const.
      apply (seg_name false _ Hn); [reflexivity|]. apply (L_sp true). apply (Hf true); [reflexivity|].
      apply (L_eq true).
      assert (Hm : CSeg false (if neg then [45] else []) (if neg then [QP 45] else []) false) by (destruct neg; [apply (L_minus false)|apply cseg_nil]).
      apply Hm. rewrite (app_assoc dg). exact (cseg_digits_nl false _ Hne Hdg b tb Hb).
    + constructor; [|constructor]. split; [apply decl_head; auto|]. intros rest. cbn [app]. rewrite <- ?app_assoc. cbn [app]. rewrite <- ?app_assoc. cbn [app].
      apply decl_const; [apply name_nkw, Hn|exact Hgx].
  - intros (Hd & Hn & Hvs).
    exists [[qkw "type"; QId name; QId (lit "string")]; qkw "const" :: QP 40 :: cgroup_toks name (map case_const vs)]. split; [|split; [|cbn; lia]].
    + unfold decls_toks. cbn [map List.concat]. rewrite app_nil_r. intros b tb Hb. cbn [go_render_decl]. rewrite <- ?app_assoc. cbn [app].
      apply (go_comments_cseg 0 _ Hd). change (qkw "type" :: QId name :: ?x) with ([qkw "type"] ++ [QId name] ++ x). apply L_type.
      apply (seg_name false _ Hn); [reflexivity|].
      change (lit " string" ++ go_nl ++ lit "const (" ++ ?x) with ((lit " string" ++ go_nl ++ lit "const (") ++ x).
      change (QId (lit "string") :: QP 59 :: qkw "const" :: QP 40 :: ?x) with ([QId (lit "string"); QP 59; qkw "const"; QP 40] ++ x).
      apply L_string_const. pose proof (unit_cases_text name vs Hn Hvs false b tb Hb) as G. cbn [app] in G. rewrite <- ?app_assoc in G. rewrite <- ?app_assoc. exact G.
    + constructor; [|constructor; [|constructor]]; (split; [apply decl_head; auto|]); intros rest.
      * change ([qkw "type"; QId name; QId (lit "string")] ++ QP 59 :: rest) with (qkw "type" :: QId name :: gparams [] ++ [QId (lit "string")] ++ QP 59 :: rest).
        apply decl_type; [apply name_nkw, Hn|constructor|apply GG_name; reflexivity].
      * cbn [app]. rewrite (decl_const_group name (map case_const vs) (QP 59 :: rest)); [reflexivity|apply name_nkw, Hn|].
        apply Forall_map. revert Hvs. apply Forall_impl. intros [[vd c] w] (_ & Hc & _). apply name_nkw, Hc.
Qed.
