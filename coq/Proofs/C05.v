(* C05: shared lemmas, the front-end theorem (syn type -> IR) and the TypeScript back end. *)
From Coq Require Import String List Lia ZArith.
From TS Require Import Model.Str Model.Outcome Model.Unicode Model.Syntax Model.Types Model.Lang.Common Model.Lang.Decl
                       Model.Lang.TypeScript Spec.C05Spec Proofs.FrontTypes.
Import ListNotations.

(* ---------- the spec's own copies of lookup / names agree with the model's ---------- *)
Lemma c05_lookup_tmap m k : c05_lookup m k = tmap_get m k.
Proof. induction m as [|[a b] m IH]; cbn; [reflexivity|]. now rewrite IH. Qed.

Lemma c05_prim_name_id p : c05_prim_name p = prim_id p.
Proof. destruct p; reflexivity. Qed.

Lemma c05_head_id t : c05_head t = rtype_id t.
Proof. destruct t; reflexivity. Qed.

Lemma c05_tool_key_display t : c05_tool_key t = rtype_display t.
Proof.
  induction t using rtype_ind'; cbn [c05_tool_key rtype_display]; try congruence.
  - destruct ps as [|p ps]; [reflexivity|].
    assert (E : map c05_tool_key (p :: ps) = map rtype_display (p :: ps)).
    { apply map_ext_in. intros x Hx. rewrite Forall_forall in H. now apply H. }
    now rewrite E.
  - now rewrite c05_head_id.
  - apply c05_prim_name_id.
Qed.

(* ---------- state-passing computations that succeed with a value independent of the state ---------- *)
Definition runs_to {St A} (m : M St A) (a : A) : Prop := forall st, exists st', m st = Ok (a, st').

Lemma runs_ret {St A} (a : A) : @runs_to St A (ret a) a.
Proof. intros st. now exists st. Qed.

Lemma runs_bind {St A B} (m : M St A) (f : A -> M St B) a b :
  runs_to m a -> runs_to (f a) b -> runs_to (mbind m f) b.
Proof.
  intros Hm Hf st. destruct (Hm st) as [s1 E1]. destruct (Hf s1) as [s2 E2].
  exists s2. unfold mbind. now rewrite E1.
Qed.

Lemma runs_bind_unit {St A B} (m : M St A) (k : M St B) b :
  (forall st, exists a st', m st = Ok (a, st')) -> runs_to k b -> runs_to (mbind m (fun _ => k)) b.
Proof.
  intros Hm Hk st. destruct (Hm st) as [a [s1 E1]]. destruct (Hk s1) as [s2 E2].
  exists s2. unfold mbind. now rewrite E1.
Qed.

(* the spec's decision at a special node, read off [c05_known = None] *)
Lemma opt_eqb_eq a b : c05_opt_eqb a b = true -> a = b.
Proof.
  destruct a, b; cbn; try discriminate; try reflexivity.
  intros H. apply str_eqb_eq in H. now subst.
Qed.

(* ====================================================================================== *)
(* Front end                                                                               *)
(* ====================================================================================== *)

Lemma c05_wrappers_eq : c05_wrappers = SMART_POINTERS.
Proof. reflexivity. Qed.

Lemma c05_prim_of_eq id : c05_prim_of id = prim_of_name id.
Proof.
  unfold c05_prim_of, prim_of_name.
  repeat match goal with
         | |- context [str_eqb id ?x] =>
           let E := fresh "E" in
           destruct (str_eqb id x) eqn:E; [apply str_eqb_eq in E; subst id; reflexivity|]
         end.
  reflexivity.
Qed.

Fixpoint c05_denote_args (l : list (option ty)) : list rtype :=
  match l with
  | [] => []
  | None :: r => c05_denote_args r
  | Some a :: r => c05_denote a :: c05_denote_args r
  end.
Fixpoint c05_args_ok (l : list (option ty)) : bool :=
  match l with
  | [] => true
  | None :: r => c05_args_ok r
  | Some a :: r => c05_src_ok a && c05_args_ok r
  end.

Lemma c05_denote_path q id args : c05_denote (TPath q id args) = c05_path id (c05_denote_args args).
Proof. cbn [c05_denote]. f_equal; try (induction args as [|[a|] r IH]; cbn; congruence). Qed.

Lemma c05_src_ok_path q id args :
  c05_src_ok (TPath q id args) = c05_path_ok id (List.length (c05_denote_args args)) && c05_args_ok args.
Proof.
  cbn [c05_src_ok]. f_equal; repeat f_equal; try (induction args as [|[a|] r IH]; cbn; congruence).
Qed.

Lemma parse_args_denote args :
  Forall (fun o => match o with Some t => c05_src_ok t = true -> parse_ty t = Ok (c05_denote t) | None => True end) args ->
  c05_args_ok args = true -> parse_args args = Ok (c05_denote_args args).
Proof.
  induction 1 as [|[a|] r Ha Hr IH]; intros Hok; cbn in *.
  - reflexivity.
  - apply andb_true_iff in Hok as [H1 H2]. rewrite (Ha H1). cbn [bind]. rewrite (IH H2). reflexivity.
  - auto.
Qed.

(* syn type -> IR type is the structural denotation wherever the type is made of supported pieces *)
Theorem C05_parse t : c05_src_ok t = true -> parse_ty t = Ok (c05_denote t).
Proof.
  induction t using ty_ind'; intros Hok.
  - rewrite c05_src_ok_path in Hok. apply andb_true_iff in Hok as [Hp Ha].
    rewrite parse_ty_path, c05_denote_path, (parse_args_denote _ H Ha). cbn [bind].
    unfold c05_path_ok in Hp. unfold path_dispatch, c05_path.
    rewrite <- c05_wrappers_eq, <- c05_prim_of_eq.
    destruct (str_eqb id (lit "Vec")) eqn:EV.
    { cbn [orb] in Hp. destruct (c05_denote_args args); [discriminate|reflexivity]. }
    destruct (str_eqb id (lit "Option")) eqn:EO.
    { cbn [orb] in Hp. destruct (c05_denote_args args); [discriminate|reflexivity]. }
    cbn [orb] in Hp.
    destruct (str_eqb id (lit "HashMap")) eqn:EH.
    { destruct (mem_str id c05_wrappers) eqn:EW.
      - apply str_eqb_eq in EH. subst id. discriminate.
      - destruct (c05_denote_args args) as [|a [|b r]]; try discriminate. reflexivity. }
    destruct (mem_str id c05_wrappers) eqn:EW.
    { destruct (c05_denote_args args); [discriminate|reflexivity]. }
    apply negb_true_iff in Hp. unfold c05_unsupported_ints in Hp. unfold UNSUPPORTED_INTS. rewrite Hp.
    destruct (c05_prim_of id); [reflexivity|]. destruct (c05_denote_args args); reflexivity.
  - cbn [c05_src_ok] in Hok. cbn [parse_ty c05_denote]. auto.
  - destruct l; [reflexivity|discriminate].
  - destruct n as [[n|]|]; try discriminate. cbn [c05_src_ok] in Hok.
    cbn [parse_ty c05_denote]. rewrite (IHt Hok). reflexivity.
  - cbn [c05_src_ok] in Hok. cbn [parse_ty c05_denote]. rewrite (IHt Hok). reflexivity.
  - discriminate.
Qed.

(* corollaries in words: each wrapper, reference and path qualification leaves no trace *)
Theorem C05_denote_ref t : c05_denote (TRef t) = c05_denote t.
Proof. reflexivity. Qed.
Theorem C05_denote_qualification q id args : c05_denote (TPath q id args) = c05_denote (TPath [] id args).
Proof. now rewrite !c05_denote_path. Qed.
Theorem C05_denote_wrapper q id t rest : mem_str id c05_wrappers = true ->
  c05_denote (TPath q id (Some t :: rest)) = c05_denote t.
Proof.
  intros H. rewrite c05_denote_path. cbn [c05_denote_args]. unfold c05_path.
  assert (Hne : forall s, mem_str (lit s) c05_wrappers = false -> str_eqb id (lit s) = false).
  { intros s Hs. destruct (str_eqb id (lit s)) eqn:E; [|reflexivity]. apply str_eqb_eq in E. subst. congruence. }
  rewrite (Hne "Vec"%string eq_refl), (Hne "Option"%string eq_refl), (Hne "HashMap"%string eq_refl), H. reflexivity.
Qed.

Example C05_parse_nonvacuous :
  let t := TPath [lit "std"; lit "collections"] (lit "HashMap")
             [Some (TRef (TPath [] (lit "str") []));
              Some (TPath [] (lit "Vec") [Some (TPath [] (lit "Arc") [Some (TPath [] (lit "Option")
                 [Some (TArray (TPath [lit "crate"] (lit "Foo") [None; Some (TPath [] (lit "T") [])]) (ALit (Some 3%N)))])])])] in
  c05_src_ok t = true /\
  c05_denote t = RHashMap (RPrim PString) (RVec (ROption (RArray (RGeneric (lit "Foo") [RSimple (lit "T")]) 3%N))).
Proof. vm_compute. split; reflexivity. Qed.

(* ====================================================================================== *)
(* Skeleton facts (language independent)                                                   *)
(* ====================================================================================== *)

(* a mapped identifier never survives: no user type / generic parameter of that name is left *)
Theorem C05_mapped_never_survives inst m g t id n :
  c05_lookup m id = Some n -> ~ In id (c05_tree_ids (c05_core inst m g t)).
Proof.
  intros Hm. induction t using rtype_ind'; cbn [c05_core].
  - destruct (c05_lookup m id0) eqn:E; cbn; [tauto|]. intros [<-|[]]. congruence.
  - destruct (c05_lookup m id0) eqn:E; cbn [c05_tree_ids]; [tauto|]. intros [<-|Hin]; [congruence|].
    apply in_flat_map in Hin as [c [Hc Hin]]. apply in_map_iff in Hc as [x [<- Hx]].
    rewrite Forall_forall in H. exact (H x Hx Hin).
  - destruct inst; [match goal with |- context [c05_lookup m ?k] => destruct (c05_lookup m k) eqn:? end|]; cbn [c05_tree_ids In]; tauto.
  - destruct inst; [match goal with |- context [c05_lookup m ?k] => destruct (c05_lookup m k) eqn:? end|]; cbn [c05_tree_ids In]; tauto.
  - destruct inst; [match goal with |- context [c05_lookup m ?k] => destruct (c05_lookup m k) eqn:? end|]; cbn [c05_tree_ids In]; tauto.
  - destruct inst; [match goal with |- context [c05_lookup m ?k] => destruct (c05_lookup m k) eqn:? end|]; cbn [c05_tree_ids In]; rewrite ?in_app_iff; tauto.
  - destruct inst; [match goal with |- context [c05_lookup m ?k] => destruct (c05_lookup m k) eqn:? end|]; cbn [c05_tree_ids In]; tauto.
  - match goal with |- context [c05_lookup m ?k] => destruct (c05_lookup m k) eqn:? end; cbn [c05_tree_ids In]; tauto.
Qed.

(* ... and the configured name stands where the identifier stood *)
Theorem C05_mapped_simple L c g id n : c05_lookup (c05_m c) id = Some n -> c05_erase L c g (RSimple id) = XRaw n.
Proof. intros H. unfold c05_erase. cbn [c05_core]. now rewrite H. Qed.
Theorem C05_mapped_generic L c g id ps n : c05_lookup (c05_m c) id = Some n -> c05_erase L c g (RGeneric id ps) = XRaw n.
Proof. intros H. unfold c05_erase. cbn [c05_core]. now rewrite H. Qed.

Theorem C05_mapped_name_stands L c g id n ps : c05_lookup (c05_m c) id = Some n ->
  c05_erase L c g (RSimple id) = XRaw n /\ c05_erase L c g (RGeneric id ps) = XRaw n.
Proof. intros. split; [now apply C05_mapped_simple | now apply C05_mapped_generic]. Qed.

(* a generic parameter is never prefixed *)
Theorem C05_param_not_prefixed L c g id :
  mem_str id g = true -> c05_lookup (c05_m c) id = None -> c05_erase L c g (RSimple id) = XName id [].
Proof. intros Hg Hm. unfold c05_erase. cbn [c05_core]. rewrite Hm, Hg. reflexivity. Qed.

(* generic arguments are preserved, in order *)
Theorem C05_generic_args_in_order L c g id ps :
  c05_lookup (c05_m c) id = None ->
  exists name, c05_erase L c g (RGeneric id ps) = XName name (map (c05_erase L c g) ps).
Proof.
  intros Hm. unfold c05_erase. cbn [c05_core]. rewrite Hm. cbn [c05_render]. rewrite map_map. eauto.
Qed.

(* ====================================================================================== *)
(* TypeScript                                                                              *)
(* ====================================================================================== *)
Section TS.
Variable cfg : ts_config.
Let m := ts_type_mappings cfg.
Definition c05_ts_cfg : c05_cfg := {| c05_m := ts_type_mappings cfg; c05_pre := []; c05_nps := false |}.
Notation erase := (c05_erase TypeScript c05_ts_cfg).

Definition ts_fmt_ok g t := runs_to (ts_texp cfg g t) (erase g t).

Lemma ts_args_ok g ps :
  Forall (fun t => c05_dom t = true -> c05_known TypeScript m g t = None -> ts_fmt_ok g t) ps ->
  forallb c05_dom ps = true ->
  (fix go (l : list rtype) : option c05_class :=
     match l with
     | [] => None
     | x :: r => match c05_known TypeScript m g x with Some k => Some k | None => go r end
     end) ps = None ->
  runs_to ((fix go (l : list rtype) : M ts_state (list texp) :=
              match l with
              | [] => ret []
              | x :: r => mdo y <- ts_texp cfg g x; mdo ys <- go r; ret (y :: ys)
              end) ps) (map (erase g) ps).
Proof.
  induction 1 as [|x r Hx Hr IH]; intros Hd Hk.
  - apply runs_ret.
  - cbn [forallb] in Hd. apply andb_true_iff in Hd as [Hd1 Hd2].
    destruct (c05_known TypeScript m g x) eqn:Ek; [discriminate|].
    eapply runs_bind; [exact (Hx Hd1 eq_refl)|].
    eapply runs_bind; [exact (IH Hd2 Hk)|]. apply runs_ret.
Qed.

(* the special_mapped wrapper of typescript.rs:78 on a node the spec does not classify *)
Lemma ts_special t (k : M ts_state texp) (kn : option c05_class) body :
  (if negb (c05_opt_eqb (c05_lookup m (c05_rust_name t)) (c05_lookup m (c05_tool_key t)))
   then Some C05K_mapping_key_display
   else match c05_lookup m (c05_rust_name t) with Some _ => None | None => kn end) = None ->
  (kn = None -> runs_to k (c05_render TypeScript c05_ts_cfg body)) ->
  runs_to (match tmap_get m (rtype_display t) with
           | Some mapped =>
             mdo st <- mget;
             mdo _ <- (if has_custom_translation mapped then mput (tsmap_set st mapped []) else ret tt);
             ret (XRaw mapped)
           | None => k
           end)
          (c05_render TypeScript c05_ts_cfg
             (match c05_lookup m (c05_rust_name t) with Some n => CMapped n | None => body end)).
Proof.
  intros Hk Hb.
  destruct (c05_opt_eqb _ _) eqn:Eeq; cbn [negb] in Hk; [|discriminate].
  apply opt_eqb_eq in Eeq. rewrite c05_tool_key_display in Eeq.
  rewrite (c05_lookup_tmap m (c05_rust_name t)) in *. rewrite (c05_lookup_tmap m (rtype_display t)) in Eeq.
  rewrite <- Eeq.
  destruct (tmap_get m (c05_rust_name t)) as [n|].
  - intros st. unfold mbind, mget. destruct (has_custom_translation n); cbn; unfold ret; eauto.
  - auto.
Qed.

Theorem C05_fmt_ts g t :
  c05_dom t = true -> c05_known TypeScript m g t = None -> ts_fmt_ok g t.
Proof.
  induction t using rtype_ind'; intros Hd Hk; unfold ts_fmt_ok, c05_erase;
    cbn [c05_instances c05_core c05_m c05_ts_cfg]; fold m.
  - (* Simple *)
    cbn [ts_texp]. fold m. rewrite <- c05_lookup_tmap.
    destruct (c05_lookup m id); cbn [c05_render]; [apply runs_ret|].
    cbn [c05_prefix app map]. destruct (mem_str id g); apply runs_ret.
  - (* Generic *)
    cbn [ts_texp]. fold m. rewrite <- c05_lookup_tmap.
    cbn [c05_known] in Hk. fold m in Hk.
    destruct (c05_lookup m id); cbn [c05_render]; [apply runs_ret|].
    cbn [c05_dom] in Hd.
    eapply runs_bind; [exact (ts_args_ok g ps H Hd Hk)|].
    rewrite map_map. cbn [c05_prefix app]. destruct (mem_str id g); apply runs_ret.
  - (* Vec *)
    cbn [ts_texp]. fold m. cbn [c05_known c05_instances] in Hk. cbn [c05_dom] in Hd.
    apply (ts_special (RVec t) _ _ (CSeq _) Hk). intros Hk'.
    eapply runs_bind; [exact (IHt Hd Hk')|]. apply runs_ret.
  - (* Array *)
    cbn [ts_texp]. fold m. cbn [c05_known c05_instances] in Hk. cbn [c05_dom] in Hd.
    apply (ts_special (RArray t n) _ _ (CArr n _) Hk). intros Hk'.
    eapply runs_bind; [exact (IHt Hd Hk')|]. apply runs_ret.
  - (* Slice *)
    cbn [ts_texp]. fold m. cbn [c05_known c05_instances] in Hk. cbn [c05_dom] in Hd.
    apply (ts_special (RSlice t) _ _ (CSeq _) Hk). intros Hk'.
    eapply runs_bind; [exact (IHt Hd Hk')|]. apply runs_ret.
  - (* HashMap *)
    cbn [ts_texp]. fold m. cbn [c05_known c05_instances] in Hk. cbn [c05_dom] in Hd.
    apply andb_true_iff in Hd as [Hd1 Hd2].
    apply (ts_special (RHashMap t1 t2) _ _ (CMap _ _) Hk). intros Hk'.
    assert (Hkv : c05_known TypeScript m g t1 = None /\ c05_known TypeScript m g t2 = None /\
                  match t1 with RSimple id => mem_str id g = false | _ => True end).
    { destruct t1;
        try (match type of Hk' with match ?a with _ => _ end = None => destruct a eqn:E1; [discriminate|] end; auto). }
    destruct Hkv as [Hk1 [Hk2 Hg]].
    eapply runs_bind with (a := erase g t1).
    { destruct t1; try exact (IHt1 Hd1 Hk1). rewrite Hg. exact (IHt1 Hd1 Hk1). }
    eapply runs_bind; [exact (IHt2 Hd2 Hk2)|]. apply runs_ret.
  - (* Option *)
    cbn [ts_texp]. fold m. cbn [c05_known c05_instances] in Hk. cbn [c05_dom] in Hd.
    apply (ts_special (ROption t) _ _ (COpt _ _) Hk). intros Hk'.
    exact (IHt Hd Hk').
  - (* Prim *)
    cbn [ts_texp]. fold m. rewrite <- c05_tool_key_display. cbn [c05_tool_key].
    rewrite <- c05_lookup_tmap.
    destruct (c05_lookup m (c05_prim_name p)) as [n|]; cbn [c05_render].
    + intros st. unfold mbind, mget. destruct (has_custom_translation n); cbn; unfold ret; eauto.
    + cbn [c05_dom] in Hd. destruct p; try discriminate; apply runs_ret.
Qed.

End TS.

Example C05_fmt_ts_nonvacuous :
  let cfg := {| ts_type_mappings := [(lit "Vec<u8>", lit "Uint8Array"); (lit "Url", lit "string")];
                ts_no_version_header := true; ts_version := [] |} in
  let t := RHashMap (RPrim PString) (RVec (ROption (RArray (RGeneric (lit "Foo") [RSimple (lit "T"); RVec (RPrim PU8); RSimple (lit "Url")]) 2%N))) in
  c05_dom t = true /\ c05_known TypeScript (ts_type_mappings cfg) [lit "T"] t = None /\
  c05_erase TypeScript (c05_ts_cfg cfg) [lit "T"] t =
    XMap (XName (lit "string") [])
         (XSeq (XFixed [XName (lit "Foo") [XName (lit "T") []; XRaw (lit "Uint8Array"); XRaw (lit "string")];
                        XName (lit "Foo") [XName (lit "T") []; XRaw (lit "Uint8Array"); XRaw (lit "string")]])).
Proof. vm_compute. repeat split; reflexivity. Qed.
