(* C07, the TypeScript back end: ts_generate panics only at typescript.rs:137 (a 64-bit integer primitive) or
   typescript.rs:276 (a non-unit variant inside a RustEnum::Unit), and only if the parsed data is not of the
   shape the front end delivers (Spec/C07BackSpec.v pd_wf). *)
From Coq Require Import String List Bool Permutation.
From TS Require Import Model.Str Model.Outcome Model.Unicode Model.Types Model.Parse Model.Rename
                       Model.TopsortAlgo Model.Topsort Model.Lang.Common Model.Lang.Decl Model.Lang.TypeScript.
From TS Require Import Spec.C07BackSpec.
From TS Require Import Proofs.C07Monad Proofs.C07Topsort.
Import ListNotations.

Lemma forallb_false_In {A} (f : A -> bool) l x : In x l -> f x = false -> forallb f l = false.
Proof.
  intros Hin Hx. destruct (forallb f l) eqn:E; [|reflexivity].
  rewrite forallb_forall in E. rewrite (E x Hin) in Hx. discriminate.
Qed.

(* items of a parsed file: wf of the whole is wf of each *)
Lemma items_wf pd it : In it (items_of pd) -> item_wf it = false -> pd_wf pd = false.
Proof.
  unfold items_of, pd_wf. intros Hin Hf.
  repeat rewrite in_app_iff in Hin. repeat rewrite in_map_iff in Hin.
  destruct Hin as [(a & <- & Ha)|[(s & <- & Hs)|[(e & <- & He)|(c & <- & Hc)]]].
  - rewrite (forallb_false_In (fun a => item_wf (ItAlias a)) _ a Ha Hf). now rewrite !andb_false_r.
  - rewrite (forallb_false_In (fun s => item_wf (ItStruct s)) _ s Hs Hf). reflexivity.
  - rewrite (forallb_false_In (fun e => item_wf (ItEnum e)) _ e He Hf). now rewrite !andb_false_r.
  - rewrite (forallb_false_In (fun c => item_wf (ItConst c)) _ c Hc Hf). now rewrite !andb_false_r.
Qed.

(* the items a back end writes are those of the parsed data, reordered *)
Lemma topsort_items pd items it : topsort (items_of pd) = Ok items -> In it items -> In it (items_of pd).
Proof.
  intros E Hin. destruct (topsort_total (items_of pd)) as (out & E' & Pm). rewrite E in E'. injection E' as <-.
  eapply Permutation_in; eassumption.
Qed.

Section TSP.
Variable uc : unicode.
Variable cfg : ts_config.
Variable P : string -> Prop.
Notation s137 := "typescript.rs:137"%string.
Notation s276 := "typescript.rs:276"%string.

Lemma ts_texp_po g t : (rtype_no64 t = false -> P s137) -> mpo P (ts_texp cfg g t).
Proof.
  induction t as [id|id ps IH|x IH|x n IH|x IH|k v IHk IHv|x IH|p] using rtype_ind'; intros H; cbn [ts_texp]; cbn [rtype_no64] in H.
  - apply mpo_ret.
  - destruct (tmap_get (ts_type_mappings cfg) id); [apply mpo_ret|].
    apply mpo_bind; [|intros; apply mpo_ret].
    revert H. induction IH as [|x r Hx _ IHr]; intros H; [apply mpo_ret|].
    apply mpo_bind; [apply Hx; intros E; apply H; cbn [forallb]; rewrite E; reflexivity|]. intros y.
    apply mpo_bind; [apply IHr; intros E; apply H; cbn [forallb]; rewrite E; apply andb_false_r|]. intros; apply mpo_ret.
  - specialize (IH H). po_walk.
  - specialize (IH H). po_walk.
  - specialize (IH H). po_walk.
  - assert (Hk : mpo P (ts_texp cfg g k)) by (apply IHk; intros E; apply H; rewrite E; reflexivity).
    assert (Hv : mpo P (ts_texp cfg g v)) by (apply IHv; intros E; apply H; rewrite E; apply andb_false_r).
    clear IHk IHv. po_walk.
  - specialize (IH H). po_walk.
  - destruct p; po_walk; apply mpo_mpanic; apply H; reflexivity.
Qed.

Lemma ts_member_po g f : (field_wf f = false -> P s137) -> mpo P (ts_member_of cfg g f).
Proof.
  intros H. pose proof (ts_texp_po g (fty f) H) as Ht. unfold ts_member_of. po_walk.
Qed.

Lemma ts_variant_po g b v : (variant_wf v = false -> P s137) -> mpo P (ts_variant_of cfg g b v).
Proof.
  intros H. destruct v as [sh|t sh|fs sh]; cbn [ts_variant_of variant_wf] in *.
  - apply mpo_ret.
  - pose proof (ts_texp_po g t H). po_walk.
  - apply mpo_bind; [|intros; apply mpo_ret]. apply mpo_mmapM. intros f Hf. apply ts_member_po.
    intros E. apply H. eapply forallb_false_In; eassumption.
Qed.

Lemma ts_decl_po it : (item_wf it = false -> P s137 /\ P s276) -> mpo P (ts_decl_of uc cfg it).
Proof.
  intros H. destruct it as [st|[sh|tg ct sh]|a|c]; cbn [ts_decl_of item_wf enum_wf] in *.
  - apply mpo_bind; [|intros; apply mpo_ret]. apply mpo_mmapM. intros f Hf. apply ts_member_po.
    intros E. apply H. eapply forallb_false_In; eassumption.
  - apply mpo_bind; [|intros; apply mpo_ret]. apply mpo_mmapM. intros v Hv.
    destruct v; [apply mpo_ret| |]; apply mpo_mpanic; apply H; eapply forallb_false_In; try eassumption; reflexivity.
  - apply mpo_bind; [|intros; apply mpo_ret]. apply mpo_mmapM. intros v Hv. apply ts_variant_po.
    intros E. apply H. eapply forallb_false_In; eassumption.
  - pose proof (ts_texp_po (agenerics a) (atype a) (fun E => proj1 (H E))). po_walk.
  - pose proof (ts_texp_po [] (ctype c) (fun E => proj1 (H E))). po_walk.
Qed.

Lemma ts_write_item_po it : (item_wf it = false -> P s137 /\ P s276) -> mpo P (ts_write_item uc cfg it).
Proof. intros H. unfold ts_write_item. apply mpo_bind; [now apply ts_decl_po|]. intros; apply mpo_ret. Qed.

Theorem ts_generate_po pd : (pd_wf pd = false -> P s137 /\ P s276) -> panics_only P (ts_generate uc cfg pd).
Proof.
  intros H. unfold ts_generate. destruct (topsort_total (items_of pd)) as (items & E & Pm). rewrite E. cbn [bind].
  assert (Hm : mpo P (mconcat (ts_write_item uc cfg) items)).
  { apply mpo_mconcat. intros it Hin. apply ts_write_item_po. intros Ef. apply H.
    eapply items_wf; [|exact Ef]. eapply Permutation_in; eassumption. }
  specialize (Hm []). destruct (mconcat (ts_write_item uc cfg) items []) as [[body st]| |]; auto.
Qed.
End TSP.

(* what is delivered by the front end generates without panic *)
Theorem ts_generate_never_panics uc cfg pd : pd_wf pd = true -> no_panic (ts_generate uc cfg pd).
Proof. intros H. apply ts_generate_po. rewrite H. discriminate. Qed.

(* for EVERY parsed data: the two sites, and only outside the front end's range *)
Definition ts_sites (s : string) : Prop := s = "typescript.rs:137"%string \/ s = "typescript.rs:276"%string.
Theorem ts_generate_panics_only uc cfg pd :
  panics_only (fun s => pd_wf pd = false /\ ts_sites s) (ts_generate uc cfg pd).
Proof. apply ts_generate_po. intros H. unfold ts_sites. auto. Qed.
