(* C03 for Python: one definition per item, one <Enum><Variant>Inner class per struct variant and the
   <Enum>Types class of a data-carrying enum, each listing exactly the IR's members / variants in order -
   outside the finding class C03-python-typekey-collision (two wire names sharing a Types member). *)
From Coq Require Import String List Bool Arith Lia Permutation.
From TS Require Import Model.Str Model.Outcome Model.Unicode Model.Types Model.Parse Model.TopsortAlgo Model.Topsort
                       Model.Lang.Common Model.Lang.Decl Model.Lang.ConvertCase Model.Lang.Python.
From TS Require Import Spec.C03Spec.
From TS Require Import Proofs.BackCommon Proofs.C03Back.
Import ListNotations.

Lemma py_lookup_first entries k : py_types_lookup entries k = c03_first_wire entries k.
Proof. induction entries as [|[a w] r IH]; cbn [py_types_lookup c03_first_wire]; [reflexivity|]. now rewrite IH. Qed.

Lemma existsb_false_forall {A} (f : A -> bool) l : existsb f l = false <-> (forall x, In x l -> f x = false).
Proof.
  induction l as [|a l IH]; cbn [existsb].
  - split; [intros _ x []|reflexivity].
  - rewrite orb_false_iff, IH. split.
    + intros [Ha Hl] x [<-|Hx]; auto.
    + intros H. split; [apply H; now left|intros x Hx; apply H; now right].
Qed.

Section PY.
Variable uc : unicode.
Variable cfg : py_config.

Lemma py_member_key gs f st m st' : py_member_of uc cfg gs f st = Ok (m, st') -> mb_key (py_obs_member m) = renamed (fid f).
Proof.
  unfold py_member_of. intros H.
  apply mbind_ok in H as (ty & s1 & _ & H). apply mbind_ok in H as (u & s2 & _ & H). apply mbind_ok in H as (ann & s3 & _ & H).
  unfold ret in H. injection H as <- _. cbn [py_obs_member mb_key pym_alias pym_name].
  destruct (str_eqb (py_property_aware_rename uc (original (fid f))) (renamed (fid f))) eqn:E; cbn [negb]; [|reflexivity].
  now apply str_eqb_eq in E.
Qed.

Lemma py_class_sig rs st d st' : py_class_of uc cfg rs st = Ok (d, st') ->
  map c03_sig_of (py_obs d) = [c03_x_struct (c03_keys_of (sfields rs))].
Proof.
  unfold py_class_of. intros H.
  apply mbind_ok in H as (u1 & s1 & _ & H). apply mbind_ok in H as (u2 & s2 & _ & H). apply mbind_ok in H as (u3 & s3 & _ & H).
  apply mbind_ok in H as (config & s4 & _ & H). apply mbind_ok in H as (ms & s5 & Hm & H).
  unfold ret in H. injection H as <- _. cbn [py_obs map]. f_equal.
  apply sig_of_struct; [reflexivity|]. cbn [d_members]. apply member_keys_Forall2.
  eapply mmapM_Forall2; [|exact Hm]. intros f s0 m s0' Hf. now rewrite (py_member_key _ _ _ _ _ Hf).
Qed.

Lemma py_inner_sigs sh vs : forall st ds st', py_inner_classes_of uc cfg sh vs st = Ok (ds, st') ->
  map c03_sig_of (flat_map py_obs ds) = map c03_x_struct (c03_anon_keys vs).
Proof.
  induction vs as [|v vs IH]; intros st ds st' H; cbn [py_inner_classes_of] in H.
  - unfold ret in H. injection H as <- _. reflexivity.
  - destruct v as [vsh|t vsh|fs vsh].
    + cbn [c03_anon_keys flat_map app]. exact (IH _ _ _ H).
    + cbn [c03_anon_keys flat_map app]. exact (IH _ _ _ H).
    + apply mbind_ok in H as (c & s1 & Hc & H). apply mbind_ok in H as (cs & s2 & Hcs & H).
      unfold ret in H. injection H as <- _. cbn [flat_map c03_anon_keys app map].
      rewrite map_app, (py_class_sig _ _ _ _ Hc). cbn [anon_struct sfields app]. f_equal. exact (IH _ _ _ Hcs).
Qed.

(* without a collision every variant's Types member stands for its own wire name *)
Lemma py_no_collision_lookup (vs : list rvariant) v :
  c03_py_key_collision uc (c03_wires_of vs) = false -> In v vs ->
  py_types_lookup (map (fun v => (py_variant_type_key uc v, renamed (vid (variant_shared v)))) vs) (py_variant_type_key uc v) =
  renamed (vid (variant_shared v)).
Proof.
  intros Hc Hin. unfold c03_py_key_collision in Hc.
  assert (E : map (fun w => (c03_py_type_key uc w, w)) (c03_wires_of vs) =
              map (fun v => (py_variant_type_key uc v, renamed (vid (variant_shared v)))) vs).
  { unfold c03_wires_of. rewrite map_map. reflexivity. }
  rewrite E in Hc. rewrite py_lookup_first.
  pose proof (proj1 (existsb_false_forall _ _) Hc) as HF. clear Hc.
  assert (Hmem : In (py_variant_type_key uc v, renamed (vid (variant_shared v)))
                    (map (fun v => (py_variant_type_key uc v, renamed (vid (variant_shared v)))) vs)).
  { apply in_map_iff. exists v. split; [reflexivity|exact Hin]. }
  specialize (HF _ Hmem). cbn [fst snd] in HF. apply negb_false_iff in HF. now apply str_eqb_eq in HF.
Qed.

Lemma py_variant_payload en tn sh v st pv st' : py_variant_of uc cfg en tn sh v st = Ok (pv, st') ->
  pyv_type_key pv = py_variant_type_key uc v /\
  match v, pyv_content pv with
  | VUnit _, PYCNone | VTuple _ _, PYCType _ | VAnon _ _, PYCInner _ => True
  | _, _ => False
  end.
Proof.
  unfold py_variant_of. destruct v as [vsh|t vsh|fs vsh]; intros H.
  - apply mbind_ok in H as (u & s1 & _ & H). unfold ret in H. injection H as <- _. split; [reflexivity|exact I].
  - apply mbind_ok in H as (tn' & s1 & _ & H). apply mbind_ok in H as (u & s2 & _ & H). unfold ret in H. injection H as <- _.
    split; [reflexivity|exact I].
  - apply mbind_ok in H as (u & s1 & _ & H). unfold ret in H. injection H as <- _. split; [reflexivity|exact I].
Qed.

Theorem py_item it st ds st' : py_decl_of uc cfg it st = Ok (ds, st') -> dom_C03_item it = true -> known_C03_item uc Python it = None ->
  map c03_sig_of (flat_map py_obs ds) = c03_expected_sigs Python it /\ c03_payloads_ok Python it (flat_map py_obs ds) = true.
Proof.
  destruct it as [s|e|a|c]; cbn [py_decl_of]; intros H Hdom Hk.
  - apply mbind_ok in H as (d & s1 & Hd & H). unfold ret in H. injection H as <- _.
    split; [|reflexivity]. cbn [flat_map c03_expected_sigs]. now rewrite app_nil_r, (py_class_sig _ _ _ _ Hd).
  - apply mbind_ok in H as (inners & s1 & Hi & H). pose proof (py_inner_sigs _ _ _ _ _ Hi) as Hin.
    destruct e as [sh|tag content sh]; cbn [enum_shared] in *.
    + apply mbind_ok in H as (u & s2 & _ & H). apply mbind_ok in H as (vs & s3 & Hv & H). unfold ret in H. injection H as <- _.
      rewrite flat_map_app. cbn [flat_map py_obs]. rewrite app_nil_r.
      apply (enum_item Python (EUnit sh) (flat_map py_obs inners)); [reflexivity|rewrite app_nil_r; exact Hin| |reflexivity].
      cbn [d_variants enum_shared]. apply Forall2_map_r'. eapply mmapM_Forall2; [|exact Hv].
      intros v s0 [[vdocs case] wire] s0' Hpv. unfold py_unit_variant_of in Hpv. destruct v; try discriminate.
      unfold ret in Hpv. injection Hpv as <- <- <- _. repeat split.
    + apply mbind_ok in H as (d & s2 & Hd & H). unfold ret in H. injection H as <- _.
      unfold py_algebraic_of in Hd.
      apply mbind_ok in Hd as (u1 & t1 & _ & Hd). apply mbind_ok in Hd as (u2 & t2 & _ & Hd). apply mbind_ok in Hd as (u3 & t3 & _ & Hd).
      apply mbind_ok in Hd as (vs & t4 & Hv & Hd). apply mbind_ok in Hd as (u4 & t5 & _ & Hd). unfold ret in Hd. injection Hd as <- _.
      rewrite flat_map_app. cbn [flat_map py_obs]. rewrite app_nil_r.
      cbn [known_C03_item] in Hk.
      destruct (c03_py_key_collision uc (c03_wires_of (evariants sh))) eqn:Ec; [discriminate|].
      match goal with |- context [flat_map py_obs inners ++ [?h; ?en]] =>
        change (flat_map py_obs inners ++ [h; en]) with (flat_map py_obs inners ++ [h] ++ [en]); rewrite app_assoc;
        apply (enum_item Python (EAlgebraic tag content sh) (flat_map py_obs inners ++ [h]) en); [reflexivity| | |reflexivity]
      end.
      * rewrite map_app, Hin. cbn [enum_shared c03_enum_helper map]. do 2 f_equal.
        apply sig_of_helper; [reflexivity|]. cbn [d_variants]. rewrite !map_map. cbn [vd_wire snd]. reflexivity.
      * cbn [d_variants enum_shared]. apply Forall2_map_r'. eapply mmapM_Forall2_In; [|exact Hv].
        intros v s0 pv s0' Hvin Hpv. destruct (py_variant_payload _ _ _ _ _ _ _ Hpv) as [Hkey Hpay].
        unfold vrel. cbn [py_obs_variant vd_wire]. rewrite Hkey, (py_no_collision_lookup _ v Ec Hvin).
        split; [reflexivity|]. revert Hpay. unfold c03_inline_keys, c03_payload_ok, py_obs_variant. cbn [vd_payload c03_inlines].
        destruct v; destruct (pyv_content pv); intros Hpay; try contradiction; split; reflexivity.
  - apply mbind_ok in H as (ty & s1 & _ & H). apply mbind_ok in H as (utv & stv & _ & H). unfold ret in H. injection H as <- _. split; reflexivity.
  - apply mbind_ok in H as (ty & s1 & _ & H). unfold ret in H. injection H as <- _. split; reflexivity.
Qed.

Theorem py_item_good it st ds st' : py_decl_of uc cfg it st = Ok (ds, st') -> dom_C03_item it = true -> known_C03_item uc Python it = None ->
  good_C03_item Python it (flat_map py_obs ds) = true.
Proof. intros H Hd Hk. destruct (py_item it st ds st' H Hd Hk). now apply item_good. Qed.

Lemma py_known_items pd items : known_C03_file uc Python pd = None -> Permutation items (items_of pd) ->
  forall it, In it items -> known_C03_item uc Python it = None.
Proof.
  intros Hk P it Hin. cbn [known_C03_file] in Hk.
  destruct (existsb _ (p_enums pd)) eqn:Ee; [discriminate|].
  pose proof (Permutation_in _ P Hin) as Hin'. unfold items_of in Hin'.
  destruct it as [s|e|a|c]; try reflexivity.
  assert (He : In e (p_enums pd)).
  { repeat (apply in_app_or in Hin' as [Hin'|Hin']); apply in_map_iff in Hin' as (x & Hx & Hx'); try discriminate.
    injection Hx as <-. exact Hx'. }
  pose proof (proj1 (existsb_false_forall _ _) Ee e He) as HF. cbn beta in HF.
  destruct (known_C03_item uc Python (ItEnum e)); [discriminate|reflexivity].
Qed.

Theorem py_file pd fd : py_file_decls uc cfg pd = Ok fd -> dom_C03_file pd = true -> known_C03_file uc Python pd = None ->
  good_C03_file Python pd fd = true.
Proof.
  unfold py_file_decls, py_decls. intros H Hdom Hk.
  destruct (topsort (items_of pd)) as [items| |] eqn:Et; cbn [bind] in H; try discriminate.
  destruct (mmapM (py_decl_of uc cfg) items py_empty_state) as [[dss st]| |] eqn:Em; cbn [bind] in H; try discriminate.
  injection H as <-. unfold good_C03_file. cbn [fd_decls].
  pose proof (topsort_perm _ _ Et) as P.
  set (fns := flat_map (fun ct => [py_ser_name ct; py_de_name ct]) (py_translations_defined st)).
  pose proof (file_good_decls Python pd items (map (flat_map py_obs) dss)
                (map py_helper_decl (py_type_variables st) ++ map py_helper_decl fns) [] P) as G.
  rewrite app_nil_r, <- flat_map_concat', <- app_assoc in G. apply G; [| |reflexivity].
  - apply Forall2_map_r'. eapply mmapM_Forall2_In; [|exact Em].
    intros it s ds s' Hin Hd.
    exact (proj1 (py_item it s ds s' Hd (dom_items_perm pd items Hdom P it Hin) (py_known_items pd items Hk P it Hin))).
  - rewrite forallb_app. apply andb_true_iff. split; apply forallb_forall; intros d Hd; apply in_map_iff in Hd as (x & <- & _); reflexivity.
Qed.
End PY.
