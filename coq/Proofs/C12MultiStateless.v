(* C12 in multi-file mode, the two stateless back ends.  Kotlin: the file of crate c starts with
   `package <package>.<c>` and the SAME two kotlinx.serialization imports as the single-file header (written under
   the same condition: a non-empty package name), then the cross-crate import lines, then the declarations.
   Scala: its generate_types override is the same function in both modes.  Corollaries of the single-file theorems
   through layout lemmas tying the declarations (kt_decls / sc_decls) to the text of the multi-file generator. *)
From Coq Require Import List Bool Permutation String.
From TS Require Import Model.Str Model.Outcome Model.Unicode Model.Types Model.Parse Model.TopsortAlgo Model.Topsort
                       Model.Lang.Common Model.Lang.Decl Model.Lang.Kotlin Model.Lang.Scala Model.MultiFile Spec.C12Spec.
From TS Require Model.Writer.
From TS Require Import Proofs.BackCommon Proofs.C12Common Proofs.C12Obs Proofs.C12_Kotlin Proofs.C12_Scala Proofs.C12 Proofs.C12Multi.
Import ListNotations.
Local Notation length := List.length (only parsing).
Local Notation concat := List.concat (only parsing).
Local Open Scope list_scope.

(* the stateless form of cm_mmapM_render *)
Lemma cm_mapM_render {A D} (g : A -> outcome D) (h : D -> str) (l : list A) : forall ps,
  mapM (fun x => bind (g x) (fun d => Ok (h d))) l = Ok ps <-> exists ds, mapM g l = Ok ds /\ ps = map h ds.
Proof.
  induction l as [|x l IH]; intros ps; cbn [mapM].
  - split; [intros [= <-]; exists []; split; reflexivity|intros (ds & [= <-] & ->); reflexivity].
  - split.
    + intros H. apply c12_bind_ok in H as (y & Ey & H). apply c12_bind_ok in Ey as (d & Ed & Ey). injection Ey as <-.
      apply c12_bind_ok in H as (ys & Eys & H). injection H as <-. apply IH in Eys as (ds & Eds & ->).
      exists (d :: ds). rewrite Ed, Eds. split; reflexivity.
    + intros (ds & Eds & ->). apply c12_bind_ok in Eds as (d & Ed & Eds). apply c12_bind_ok in Eds as (ds1 & El & Eds).
      injection Eds as <-. rewrite Ed. cbn [bind].
      assert (El' : mapM (fun x0 => bind (g x0) (fun d0 => Ok (h d0))) l = Ok (map h ds1)).
      { apply IH. exists ds1. split; [exact El|reflexivity]. }
      rewrite El'. reflexivity.
Qed.

(* a stateless generator in the shape generate_crates takes (as the driver wraps Kotlin and Scala) *)
Definition cm_wrap (o : outcome str) (st : unit) : outcome (str * unit) :=
  match o with Ok t => Ok (t, st) | Err e => Err e | Panic s => Panic s end.

(* every file of a run of a stateless generator is what the generator returns on that crate *)
Lemma cm_stateless_file (gen : str -> scoped -> parsed -> outcome str) plan st files fin i fname text :
  generate_crates (fun st c im pd => cm_wrap (gen c im pd) st) st plan = (files, fin) ->
  nth_error files i = Some (fname, Writer.Generated text) ->
  exists p, nth_error plan i = Some p /\ fname = op_file p /\ gen (op_crate p) (op_imports p) (op_data p) = Ok text.
Proof.
  intros H Hn.
  destruct (cm_crates_file (fun st c im pd => cm_wrap (gen c im pd) st) (fun _ => True) (fun _ => True)
              (fun _ _ _ _ _ _ _ => Logic.I) plan st files fin i fname text Logic.I H Hn) as (p & a & b & Hp & Hf & _ & _ & Hg).
  { apply Forall_forall. auto. }
  exists p. split; [exact Hp|]. split; [exact Hf|]. unfold cm_wrap in Hg.
  destruct (gen (op_crate p) (op_imports p) (op_data p)); try discriminate Hg. injection Hg as <- _. reflexivity.
Qed.

(* ================================================================== Kotlin *)
(* the header of crate c's file in multi-file mode: the single-file header with the crate appended to the package *)
Definition kt_header_multi (cfg : kt_config) (crate_name : str) : option kt_header :=
  match kt_header_of cfg with
  | None => None
  | Some h => Some {| kh_version := kh_version h; kh_package := kh_package h ++ lit "." ++ crate_name; kh_imports := kh_imports h |}
  end.

Lemma kt_begin_file_multi_header cfg c : kt_begin_file_multi cfg c = kt_render_header (kt_header_multi cfg c).
Proof.
  unfold kt_begin_file_multi, kt_header_multi, kt_header_of. destruct (kt_package cfg) as [|x r]; [reflexivity|].
  cbn [kt_render_header kh_version kh_package kh_imports map List.concat kt_qualified fst snd].
  destruct (kt_no_version_header cfg); cbn [app]; rewrite ?app_nil_r, <- ?app_assoc; reflexivity.
Qed.

Lemma c12_kt_defs_multi cfg c : c12_kt_defs (kt_header_multi cfg c) = c12_kt_defs (kt_header_of cfg).
Proof. unfold kt_header_multi. destruct (kt_header_of cfg); reflexivity. Qed.

Definition c12_kt_observe_multi (uc : unicode) (cfg : kt_config) (crate_name : str) (pd : parsed) : outcome (list str * list str) :=
  do ds <- kt_decls uc cfg pd;
  Ok (c12_kt_uses ds, c12_kt_defs (kt_header_multi cfg crate_name)).

Lemma c12_kt_observe_multi_single uc cfg c pd : c12_kt_observe_multi uc cfg c pd = c12_kt_observe uc cfg pd.
Proof. unfold c12_kt_observe_multi, c12_kt_observe. rewrite c12_kt_defs_multi. reflexivity. Qed.

Theorem kt_multi_layout uc cfg c im pd text :
  kt_generate_multi uc cfg c im pd = Ok text <->
  exists ds, kt_decls uc cfg pd = Ok ds /\
             text = kt_render_header (kt_header_multi cfg c) ++ kt_write_imports cfg im ++ concat (map kt_render_decl ds).
Proof.
  rewrite <- kt_begin_file_multi_header.
  unfold kt_generate_multi, kt_decls. destruct (topsort (items_of pd)) as [items| |]; cbn [bind].
  2,3: split; [discriminate|intros (ds & E & _); discriminate E].
  unfold kt_concat, kt_write_item. split.
  - intros H. apply c12_bind_ok in H as (body & Eb & H). injection H as <-.
    apply c12_bind_ok in Eb as (ps & Eps & Eb). injection Eb as <-.
    apply cm_mapM_render in Eps as (dss & Edss & ->). rewrite Edss. cbn [bind]. eexists. split; [reflexivity|].
    rewrite cm_body_render. reflexivity.
  - intros (ds & E & ->). apply c12_bind_ok in E as (dss & Edss & E). injection E as <-.
    assert (Eps : mapM (fun x => bind (kt_decl_of cfg x) (fun d => Ok (concat (map kt_render_decl d)))) items =
                  Ok (map (fun d => concat (map kt_render_decl d)) dss)).
    { apply cm_mapM_render. eauto. }
    match goal with |- bind (bind ?m _) _ = _ => replace m with (Ok (A := list str) (map (fun d => concat (map kt_render_decl d)) dss)) by (symmetry; exact Eps) end. cbn [bind]. rewrite cm_body_render. reflexivity.
Qed.

Theorem c12_kt_multi_file uc cfg c pd uses defs :
  c12_kt_observe_multi uc cfg c pd = Ok (uses, defs) -> c12_kt_known cfg pd = None -> c12_good uses defs = true.
Proof. rewrite c12_kt_observe_multi_single. apply c12_kotlin. Qed.

Definition kt_multi_gen (uc : unicode) (cfg : kt_config) (st : unit) (c : str) (im : scoped) (pd : parsed) :=
  cm_wrap (kt_generate_multi uc cfg c im pd) st.

Theorem c12_multi_kotlin uc cfg st0 plan files fin :
  generate_crates (kt_multi_gen uc cfg) st0 plan = (files, fin) ->
  forall i fname text,
    nth_error files i = Some (fname, Writer.Generated text) ->
    exists p ds uses defs,
      nth_error plan i = Some p /\ fname = op_file p /\
      kt_generate_multi uc cfg (op_crate p) (op_imports p) (op_data p) = Ok text /\
      kt_decls uc cfg (op_data p) = Ok ds /\
      text = kt_render_header (kt_header_multi cfg (op_crate p)) ++ kt_write_imports cfg (op_imports p) ++
             concat (map kt_render_decl ds) /\
      c12_kt_observe_multi uc cfg (op_crate p) (op_data p) = Ok (uses, defs) /\
      uses = c12_kt_uses ds /\ defs = c12_kt_defs (kt_header_multi cfg (op_crate p)) /\
      (c12_kt_known cfg (op_data p) = None -> c12_good uses defs = true).
Proof.
  intros H i fname text Hn.
  destruct (cm_stateless_file (kt_generate_multi uc cfg) plan st0 files fin i fname text H Hn) as (p & Hp & Hf & Hg).
  pose proof Hg as Hg'. apply kt_multi_layout in Hg' as (ds & Eds & Etext).
  exists p, ds. eexists. eexists. split; [exact Hp|]. split; [exact Hf|]. split; [exact Hg|]. split; [exact Eds|].
  split; [exact Etext|].
  assert (Eo : c12_kt_observe_multi uc cfg (op_crate p) (op_data p) =
               Ok (c12_kt_uses ds, c12_kt_defs (kt_header_multi cfg (op_crate p)))).
  { unfold c12_kt_observe_multi. rewrite Eds. reflexivity. }
  split; [exact Eo|]. split; [reflexivity|]. split; [reflexivity|]. intros Hk. exact (c12_kt_multi_file _ _ _ _ _ _ Eo Hk).
Qed.

(* ================================================================== Scala *)
Lemma cm_sc_concat_render cfg l body :
  sc_concat (sc_write_item cfg) l = Ok body ->
  exists dss, mapM (sc_decl_of cfg) l = Ok dss /\ body = concat (map sc_render_decl (concat dss)).
Proof.
  unfold sc_concat, sc_write_item. intros H. apply c12_bind_ok in H as (ps & Eps & H). injection H as <-.
  apply cm_mapM_render in Eps as (dss & Edss & ->). exists dss. split; [exact Edss|]. apply cm_body_render.
Qed.

Lemma cm_sc_is_empty {A} (l : list A) : sc_is_empty l = true -> l = [].
Proof. destruct l; [reflexivity|discriminate]. Qed.

(* layout (the direction the run needs): the text sc_generate writes is begin_file's text, the package object around
   the rendering of the first group of declarations, the package around the rendering of the second group - the two
   groups sc_decls returns *)
Theorem sc_multi_layout uc cfg pd text :
  sc_generate uc cfg pd = Ok text ->
  exists head objs pkgs,
    sc_begin_file cfg = Ok head /\ sc_decls uc cfg pd = Ok (objs, pkgs) /\
    text = head ++
           (if sc_unsigned_integer_used pd || negb (sc_is_empty (p_aliases pd))
            then sc_begin_package_object cfg ++ concat (map sc_render_decl objs) ++ sc_end_package_object cfg else []) ++
           (if negb (sc_is_empty (p_structs pd)) || negb (sc_is_empty (p_enums pd))
            then sc_begin_package cfg ++ concat (map sc_render_decl pkgs) ++ sc_end_package cfg else []).
Proof.
  unfold sc_generate, sc_decls. cbv zeta.
  generalize (sc_begin_package_object cfg) (sc_end_package_object cfg) (sc_begin_package cfg) (sc_end_package cfg).
  intros BO EO BP EP H.
  apply c12_bind_ok in H as (head & Eh & H). rewrite Eh. cbn [bind].
  apply c12_bind_ok in H as (po & Epo & H). apply c12_bind_ok in H as (pk & Epk & H). injection H as <-.
  assert (A : exists als, mapM (sc_decl_of cfg) (map ItAlias (p_aliases pd)) = Ok als /\
                          po = if sc_unsigned_integer_used pd || negb (sc_is_empty (p_aliases pd))
                               then BO ++
                                    concat (map sc_render_decl ((if sc_unsigned_integer_used pd then [sc_unsigned_aliases] else []) ++ concat als)) ++
                                    EO
                               else []).
  { destruct (sc_unsigned_integer_used pd || negb (sc_is_empty (p_aliases pd))) eqn:Ec.
    - apply c12_bind_ok in Epo as (al & Eal & Epo). injection Epo as <-.
      apply cm_sc_concat_render in Eal as (dss & Edss & ->). exists dss. split; [exact Edss|].
      rewrite map_app, concat_app. destruct (sc_unsigned_integer_used pd); cbn [map List.concat]; rewrite ?app_nil_r, <- ?app_assoc; reflexivity.
    - injection Epo as <-. apply orb_false_iff in Ec as [_ Ec]. apply negb_false_iff, cm_sc_is_empty in Ec.
      rewrite Ec. exists []. split; reflexivity. }
  assert (B : exists sts ens, mapM (sc_decl_of cfg) (map ItStruct (p_structs pd)) = Ok sts /\
                              mapM (sc_decl_of cfg) (map ItEnum (p_enums pd)) = Ok ens /\
                              pk = if negb (sc_is_empty (p_structs pd)) || negb (sc_is_empty (p_enums pd))
                                   then BP ++ concat (map sc_render_decl (concat sts ++ concat ens)) ++ EP
                                   else []).
  { destruct (negb (sc_is_empty (p_structs pd)) || negb (sc_is_empty (p_enums pd))) eqn:Ec.
    - apply c12_bind_ok in Epk as (sb & Esb & Epk). apply c12_bind_ok in Epk as (eb & Eeb & Epk). injection Epk as <-.
      apply cm_sc_concat_render in Esb as (sts & Ests & ->). apply cm_sc_concat_render in Eeb as (ens & Eens & ->).
      exists sts, ens. split; [exact Ests|]. split; [exact Eens|].
      rewrite map_app, concat_app, <- !app_assoc. reflexivity.
    - injection Epk as <-. apply orb_false_iff in Ec as [E1 E2].
      apply negb_false_iff, cm_sc_is_empty in E1. apply negb_false_iff, cm_sc_is_empty in E2.
      rewrite E1, E2. exists [], []. repeat split; reflexivity. }
  destruct A as (als & Eals & ->). destruct B as (sts & ens & Ests & Eens & ->).
  rewrite Eals, Ests, Eens. cbn [bind]. do 3 eexists. split; [reflexivity|]. split; [reflexivity|]. reflexivity.
Qed.

Definition sc_multi_gen (uc : unicode) (cfg : sc_config) (st : unit) (_ : str) (_ : scoped) (pd : parsed) :=
  cm_wrap (sc_generate uc cfg pd) st.

Theorem c12_multi_scala uc cfg st0 plan files fin :
  generate_crates (sc_multi_gen uc cfg) st0 plan = (files, fin) ->
  forall i fname text,
    nth_error files i = Some (fname, Writer.Generated text) ->
    exists p head objs pkgs uses defs,
      nth_error plan i = Some p /\ fname = op_file p /\
      sc_generate uc cfg (op_data p) = Ok text /\
      sc_begin_file cfg = Ok head /\ sc_decls uc cfg (op_data p) = Ok (objs, pkgs) /\
      text = head ++
             (if sc_unsigned_integer_used (op_data p) || negb (sc_is_empty (p_aliases (op_data p)))
              then sc_begin_package_object cfg ++ concat (map sc_render_decl objs) ++ sc_end_package_object cfg else []) ++
             (if negb (sc_is_empty (p_structs (op_data p))) || negb (sc_is_empty (p_enums (op_data p)))
              then sc_begin_package cfg ++ concat (map sc_render_decl pkgs) ++ sc_end_package cfg else []) /\
      c12_sc_observe uc cfg (op_data p) = Ok (uses, defs) /\
      (c12_sc_dom (op_data p) = true -> c12_good uses defs = true).
Proof.
  intros H i fname text Hn.
  destruct (cm_stateless_file (fun _ _ pd => sc_generate uc cfg pd) plan st0 files fin i fname text H Hn) as (p & Hp & Hf & Hg).
  destruct (sc_multi_layout uc cfg (op_data p) text Hg) as (head & objs & pkgs & Eh & Eds & Etext).
  exists p, head, objs, pkgs. eexists. eexists. split; [exact Hp|]. split; [exact Hf|]. split; [exact Hg|].
  split; [exact Eh|]. split; [exact Eds|]. split; [exact Etext|].
  assert (Eo : c12_sc_observe uc cfg (op_data p) = Ok (c12_sc_uses (objs ++ pkgs), c12_sc_defs (objs ++ pkgs))).
  { unfold c12_sc_observe. rewrite Eds. reflexivity. }
  split; [exact Eo|]. intros Hd. exact (c12_scala _ _ _ _ _ Eo Hd).
Qed.
