(* C10 for Python, from the IR to the whole file: the decision layer gives well-formed declarations for every IR
   item of the domain, the printing state (imports, TypeVars) stays printable, the helper functions are fixed
   text: header ++ imports ++ TypeVars ++ helpers ++ body is balanced. *)
From Coq Require Import List Bool Lia ZifyBool ZifyN NArith Permutation.
From TS Require Import Model.Str Model.Outcome Model.Unicode Model.Types Model.Parse Model.Rename Model.TopsortAlgo Model.Topsort
                       Model.Lang.Common Model.Lang.ConvertCase Model.Lang.Decl Model.Lang.Python.
From TS Require Import Spec.C10Spec Proofs.BackCommon Proofs.C10Lex Proofs.C10_TSFile Proofs.C10Common Proofs.C10Monad Proofs.C10_PY.
Import ListNotations.
Local Open Scope N_scope.
Local Notation length := List.length (only parsing).

(* ------------------------------------------------------------------ generic helpers *)
Lemma sset_insert_all (P : str -> bool) x l : P x = true -> forallb P l = true -> forallb P (sset_insert x l) = true.
Proof.
  intros Hx. induction l as [|y r IH]; cbn [sset_insert forallb]; [rewrite Hx; reflexivity|]. rewrite andb_true_iff. intros [H1 H2].
  destruct (str_eqb x y); [cbn [forallb]; rewrite H1, H2; reflexivity|].
  destruct (str_ltb x y); cbn [forallb]; [rewrite Hx, H1, H2; reflexivity|]. rewrite H1, (IH H2). reflexivity.
Qed.

Definition keychars (s : str) : bool := forallb c10_key_char s.
Lemma keychars_tok s : keychars s = true -> c10_tok_ok s = true.
Proof. unfold keychars, c10_tok_ok. apply forallb_impl. intros x Hx. apply negb_true_iff, key_char_not_special, Hx. Qed.
Lemma key_ok_chars s : c10_key_ok s = true -> keychars s = true.
Proof. destruct s; [discriminate|]. unfold c10_key_ok, keychars. auto. Qed.
Lemma ident_keychars s : forallb c10_ident_char s = true -> keychars s = true.
Proof. apply forallb_impl. intros c. unfold c10_ident_char, c10_key_char. lia. Qed.
Lemma key_char_ascii c : c10_key_char c = true -> c < 128.
Proof. unfold c10_key_char, is_aalpha, is_alower, is_aupper, is_adigit, ch_us, ch_dash. lia. Qed.
Lemma alower_key c : c10_key_char c = true -> c10_key_char (alower c) = true.
Proof. unfold c10_key_char, alower, is_aalpha, is_alower, is_aupper, is_adigit, ch_us, ch_dash. intros H. destruct ((65 <=? c) && (c <=? 90)) eqn:E; lia. Qed.
Lemma aupper_key c : c10_key_char c = true -> c10_key_char (aupper c) = true.
Proof. unfold c10_key_char, aupper, is_aalpha, is_alower, is_aupper, is_adigit, ch_us, ch_dash. intros H. destruct ((97 <=? c) && (c <=? 122)) eqn:E; lia. Qed.

Section Case.
Variable uc : unicode.
Hypothesis Huc : unicode_ok uc.

Lemma to_lowercase_key s : keychars s = true -> keychars (str_to_lowercase uc s) = true.
Proof.
  unfold keychars, str_to_lowercase. induction s as [|c r IH]; intros H; [reflexivity|]. cbn [forallb flat_map] in *. apply andb_true_iff in H as [Hc Hr].
  rewrite forallb_app, (IH Hr), (ok_to_lower uc Huc c (key_char_ascii c Hc)). cbn [forallb]. rewrite (alower_key c Hc). reflexivity.
Qed.
Lemma to_uppercase_key s : keychars s = true -> keychars (str_to_uppercase uc s) = true.
Proof.
  unfold keychars, str_to_uppercase. induction s as [|c r IH]; intros H; [reflexivity|]. cbn [forallb flat_map] in *. apply andb_true_iff in H as [Hc Hr].
  rewrite forallb_app, (IH Hr), (ok_to_upper uc Huc c (key_char_ascii c Hc)). cbn [forallb]. rewrite (aupper_key c Hc). reflexivity.
Qed.

(* convert_case's Snake: the words are made of characters of the input *)
Lemma cc_split_go_chars prev s word : keychars s = true -> keychars word = true -> Forall (fun w => keychars w = true) (cc_split_go uc prev s word).
Proof.
  revert prev word. induction s as [|c r IH]; intros prev word Hs Hw; cbn [cc_split_go]; [constructor; [exact Hw|constructor]|].
  unfold keychars in Hs. cbn [forallb] in Hs. apply andb_true_iff in Hs as [Hc Hr].
  destruct (cc_detect_one c); [constructor; [exact Hw|apply IH; [exact Hr|reflexivity]]|].
  match goal with |- context [if ?b then _ else _] => destruct b end.
  - constructor; [exact Hw|]. apply IH; [exact Hr|]. unfold keychars. cbn [forallb]. rewrite Hc. reflexivity.
  - apply IH; [exact Hr|]. unfold keychars in *. rewrite forallb_app, Hw. cbn [forallb]. rewrite Hc. reflexivity.
Qed.
Lemma cc_to_snake_key s : keychars s = true -> keychars (cc_to_snake uc s) = true.
Proof.
  intros H. unfold cc_to_snake, cc_split.
  assert (Hw : Forall (fun w => keychars w = true) (filter (fun w => match w with [] => false | _ => true end) (cc_split_go uc None s []))).
  { pose proof (cc_split_go_chars None s [] H eq_refl) as Hall. rewrite Forall_forall in *. intros w Hin. apply filter_In in Hin as [Hin _]. exact (Hall w Hin). }
  induction Hw as [|w l Hw0 Hl IH]; [reflexivity|]. cbn [map]. destruct l as [|w2 l2].
  - cbn [map join]. apply to_lowercase_key, Hw0.
  - change (join [ch_us] (str_to_lowercase uc w :: map (str_to_lowercase uc) (w2 :: l2)))
      with (str_to_lowercase uc w ++ [ch_us] ++ join [ch_us] (map (str_to_lowercase uc) (w2 :: l2))).
    unfold keychars in *. rewrite !forallb_app. fold (keychars (str_to_lowercase uc w)). rewrite (to_lowercase_key w Hw0), IH. reflexivity.
Qed.
End Case.

(* ------------------------------------------------------------------ configuration, state *)
Definition c10_py_cfg_ok (cfg : py_config) : bool :=
  forallb (fun kv => c10_raw_ok c10_lex_py (snd kv)) (py_type_mappings cfg) && c10_dotted_ok (py_version cfg).

Definition py_inv (st : py_state) : Prop :=
  forallb (fun mi : str * list str => c10_tok_ok (fst mi) && forallb c10_tok_ok (snd mi)) (py_imports st) = true /\
  forallb c10_ident_ok (py_type_variables st) = true.

Lemma py_imports_insert_ok m k v : c10_tok_ok k = true -> c10_tok_ok v = true ->
  forallb (fun mi : str * list str => c10_tok_ok (fst mi) && forallb c10_tok_ok (snd mi)) m = true ->
  forallb (fun mi : str * list str => c10_tok_ok (fst mi) && forallb c10_tok_ok (snd mi)) (py_imports_insert m k v) = true.
Proof.
  intros Hk Hv. induction m as [|[a s] r IH]; cbn [py_imports_insert forallb fst snd]; [rewrite Hk, Hv; reflexivity|].
  rewrite !andb_true_iff. intros [[Ha Hs] Hr]. destruct (str_eqb a k).
  - cbn [forallb fst snd]. rewrite Ha, (sset_insert_all c10_tok_ok v s Hv Hs), Hr. reflexivity.
  - destruct (str_ltb k a); cbn [forallb fst snd]; [rewrite Hk, Hv, Ha, Hs, Hr; reflexivity|]. rewrite Ha, Hs, (IH Hr). reflexivity.
Qed.

Section PYDecide.
Variable uc : unicode.
Hypothesis Huc : unicode_ok uc.
Variable cfg : py_config.
Hypothesis Hcfg : c10_py_cfg_ok cfg = true.
Notation ppost := (post py_inv).

Lemma py_Hmap : forallb (fun kv => c10_raw_ok c10_lex_py (snd kv)) (py_type_mappings cfg) = true.
Proof. unfold c10_py_cfg_ok in Hcfg. rewrite !andb_true_iff in Hcfg. tauto. Qed.

Lemma py_add_import_post m i : c10_tok_ok m = true -> c10_tok_ok i = true -> ppost (fun _ => True) (py_add_import m i).
Proof.
  intros Hm Hi s y s' H [Hs1 Hs2]. unfold py_add_import in H. apply mbind_ok in H as (st & s1 & Hg & H). unfold mget in Hg. injection Hg as <- <-.
  unfold mput in H. injection H as _ <-. split; [exact I|]. split; cbn [py_imports py_type_variables]; [|exact Hs2].
  apply py_imports_insert_ok; assumption.
Qed.
Lemma py_add_type_var_post n : c10_ident_ok n = true -> ppost (fun _ => True) (py_add_type_var n).
Proof.
  intros Hn. unfold py_add_type_var. eapply post_bind; [apply py_add_import_post; reflexivity|]. intros _ _.
  intros s y s' H [Hs1 Hs2]. apply mbind_ok in H as (st & s1 & Hg & H). unfold mget in Hg. injection Hg as <- <-.
  unfold mput in H. injection H as _ <-. split; [exact I|]. split; cbn [py_imports py_type_variables]; [exact Hs1|].
  apply sset_insert_all; assumption.
Qed.
Lemma py_add_type_vars_post ns : forallb c10_ident_ok ns = true -> ppost (fun _ => True) (py_add_type_vars ns).
Proof.
  induction ns as [|n r IH]; intros H; cbn [py_add_type_vars]; [apply post_ret; exact I|].
  cbn [forallb] in H. apply andb_true_iff in H as [Hn Hr]. eapply post_bind; [exact (py_add_type_var_post n Hn)|]. intros _ _. exact (IH Hr).
Qed.
Lemma py_add_custom_type_post t : ppost (fun _ => True) (py_add_custom_type t).
Proof.
  intros s y s' H [Hs1 Hs2]. unfold py_add_custom_type in H. apply mbind_ok in H as (st & s1 & Hg & H). unfold mget in Hg. injection Hg as <- <-.
  unfold mput in H. injection H as _ <-. split; [exact I|]. split; assumption.
Qed.
Lemma py_add_imports_post tp : ppost (fun _ => True) (py_add_imports tp).
Proof.
  unfold py_add_imports. destruct (str_eqb tp (lit "Url")); [apply py_add_import_post; reflexivity|].
  destruct (str_eqb tp (lit "DateTime")); [apply py_add_import_post; reflexivity|apply post_ret; exact I].
Qed.
Lemma py_add_common_imports_post a b c : ppost (fun _ => True) (py_add_common_imports a b c).
Proof.
  unfold py_add_common_imports.
  eapply post_bind with (P := fun _ => True); [destruct a; [apply py_add_import_post; reflexivity|apply post_ret; exact I]|]. intros _ _.
  eapply post_bind with (P := fun _ => True).
  { destruct b; [|apply post_ret; exact I]. eapply post_bind; [apply py_add_import_post; reflexivity|]. intros _ _.
    eapply post_bind; [apply py_add_import_post; reflexivity|]. intros _ _. apply py_add_import_post; reflexivity. }
  intros _ _. destruct (c || a); [apply py_add_import_post; reflexivity|apply post_ret; exact I].
Qed.

Ltac py_special :=
  let mapped := fresh "mapped" in let E := fresh "E" in
  destruct (tmap_get (py_type_mappings cfg) _) as [mapped|] eqn:E;
  [ eapply post_bind with (P := fun _ => True);
    [destruct (py_is_some (py_json_translation_for_type mapped)); [apply py_add_custom_type_post|apply post_ret; exact I]|];
    intros _ _; apply post_ret; exact (tmap_get_raw _ _ _ _ py_Hmap E)
  | ].

Lemma py_texp_ok generics t : c10_rtype_ok t = true -> ppost (fun x => c10_texp_ok c10_lex_py x = true) (py_texp cfg generics t).
Proof.
  induction t as [id | id ps IH | t IH | t n IH | t IH | k v IHk IHv | t IH | p] using rtype_ind';
    intros Hok; cbn [c10_rtype_ok] in Hok; cbn [py_texp].
  - eapply post_bind; [apply py_add_imports_post|]. intros _ _. apply post_ret.
    destruct (tmap_get (py_type_mappings cfg) id) eqn:E; cbn [c10_texp_ok].
    + exact (tmap_get_raw _ _ _ _ py_Hmap E).
    + rewrite (ident_tok _ Hok). reflexivity.
  - apply andb_true_iff in Hok as [Hid Hps]. eapply post_bind; [apply py_add_imports_post|]. intros _ _.
    destruct (tmap_get (py_type_mappings cfg) id) eqn:E.
    + apply post_ret. exact (tmap_get_raw _ _ _ _ py_Hmap E).
    + eapply post_bind with (P := fun parts => forallb (c10_texp_ok c10_lex_py) parts = true).
      * clear E. induction IH as [|a l Ha Hl IHl]; [apply post_ret; reflexivity|].
        cbn [forallb] in Hps. apply andb_true_iff in Hps as [Hpa Hpl].
        eapply post_bind; [exact (Ha Hpa)|]. intros y Py. eapply post_bind; [exact (IHl Hpl)|]. intros ys Pys.
        apply post_ret. cbn [forallb]. rewrite Py, Pys. reflexivity.
      * intros parts Pp. apply post_ret. cbn [c10_texp_ok]. rewrite (ident_tok _ Hid), Pp. reflexivity.
  - py_special. eapply post_bind; [apply py_add_import_post; reflexivity|]. intros _ _.
    eapply post_bind; [exact (IH Hok)|]. intros e Pe. apply post_ret. cbn [c10_texp_ok forallb]. rewrite Pe. reflexivity.
  - py_special. eapply post_bind; [apply py_add_import_post; reflexivity|]. intros _ _.
    eapply post_bind; [exact (IH Hok)|]. intros e Pe. apply post_ret. cbn [c10_texp_ok forallb]. rewrite Pe. reflexivity.
  - py_special. eapply post_bind; [apply py_add_import_post; reflexivity|]. intros _ _.
    eapply post_bind; [exact (IH Hok)|]. intros e Pe. apply post_ret. cbn [c10_texp_ok forallb]. rewrite Pe. reflexivity.
  - apply andb_true_iff in Hok as [Hk Hv]. py_special.
    eapply post_bind; [apply py_add_import_post; reflexivity|]. intros _ _.
    eapply post_bind with (P := fun x => c10_texp_ok c10_lex_py x = true).
    { destruct k; try exact (IHk Hk). destruct (mem_str id generics); [apply post_fail|exact (IHk Hk)]. }
    intros ke Pk. eapply post_bind; [exact (IHv Hv)|]. intros ve Pv. apply post_ret. cbn [c10_texp_ok forallb]. rewrite Pk, Pv. reflexivity.
  - py_special. eapply post_bind; [apply py_add_import_post; reflexivity|]. intros _ _.
    eapply post_bind; [exact (IH Hok)|]. intros e Pe. apply post_ret. exact Pe.
  - py_special. destruct p; try (apply post_ret; reflexivity).
    eapply post_bind; [apply py_add_import_post; reflexivity|]. intros _ _. apply post_ret. reflexivity.
Qed.

Lemma docs_ok_of_doc docs : forallb c10_doc_ok docs = true -> docs_ok docs = true.
Proof.
  intros H. unfold docs_ok. rewrite (docs_line_ok _ H), andb_true_r. revert H. apply forallb_impl. apply doc_pydoc.
Qed.

Lemma py_rename_tok name : c10_ident_ok name = true -> c10_tok_ok (py_property_aware_rename uc name) = true.
Proof.
  intros H. unfold py_property_aware_rename. destruct (py_name_is_keyword uc name).
  - rewrite tok_ok_app, (ident_tok _ H). reflexivity.
  - apply keychars_tok, (cc_to_snake_key uc Huc), ident_keychars, ident_ok_chars, H.
Qed.

Lemma strval_key k : c10_key_ok k = true -> strval_ok k = true.
Proof. intros H. unfold strval_ok. rewrite (key_instr _ H). destruct k; [discriminate|reflexivity]. Qed.

Lemma py_member_post generics f : c10_field_ok CPY f = true -> ppost (fun m => c10_py_member_ok m = true) (py_member_of uc cfg generics f).
Proof.
  intros Hf. unfold c10_field_ok in Hf. rewrite !andb_true_iff in Hf. destruct Hf as [[[Hid Hrt] Hdocs] _].
  unfold c10_member_id_ok in Hid. apply andb_true_iff in Hid as [Horig Hren].
  unfold py_member_of. cbv zeta. eapply post_bind; [exact (py_texp_ok generics (fty f) Hrt)|]. intros ty Pty.
  eapply post_bind; [apply py_add_common_imports_post|]. intros _ _.
  eapply post_bind with (P := fun ann => match ann with Some (de, ser) => c10_tok_ok de && c10_tok_ok ser = true | None => True end).
  { destruct (py_json_translation_for_type (py_show ty)) as [ct|] eqn:Ect; [|apply post_ret; exact I].
    eapply post_bind; [apply py_add_custom_type_post|]. intros _ _. apply post_ret.
    unfold py_json_translation_for_type in Ect. destruct (str_eqb (py_show ty) (lit "bytes")); [injection Ect as <-; reflexivity|].
    destruct (str_eqb (py_show ty) (lit "datetime")); [injection Ect as <-; reflexivity|discriminate]. }
  intros ann Pann. apply post_ret. unfold c10_py_member_ok. cbn [pym_docs pym_name pym_alias pym_type pym_annotated].
  rewrite (docs_ok_of_doc _ Hdocs), (py_rename_tok _ Horig). cbn [andb].
  assert (Hal : match (if negb (str_eqb (py_property_aware_rename uc (original (fid f))) (renamed (fid f))) then Some (renamed (fid f)) else None) with
                | Some k => strval_ok k | None => true end = true).
  { destruct (negb _); [exact (strval_key _ Hren)|reflexivity]. }
  rewrite Hal. cbn [andb].
  assert (Hty : c10_texp_ok c10_lex_py (if negb (is_optional (fty f)) && has_default f then XOpt ty else ty) = true).
  { destruct (negb (is_optional (fty f)) && has_default f); exact Pty. }
  rewrite Hty. cbn [andb]. destruct ann as [[de ser]|]; [exact Pann|reflexivity].
Qed.

Lemma py_class_post rs :
  c10_tok_ok (renamed (sid rs)) = true -> forallb c10_ident_ok (sgenerics rs) = true ->
  forallb (c10_field_ok CPY) (sfields rs) = true -> docs_ok (scomments rs) = true ->
  ppost (fun d => c10_py_decl_ok d = true) (py_class_of uc cfg rs).
Proof.
  intros Hn Hg Hf Hd. unfold py_class_of.
  eapply post_bind; [apply py_add_import_post; reflexivity|]. intros _ _.
  eapply post_bind; [exact (py_add_type_vars_post _ Hg)|]. intros _ _.
  eapply post_bind with (P := fun _ => True); [destruct (sgenerics rs); [apply post_ret; exact I|apply py_add_import_post; reflexivity]|]. intros _ _.
  eapply post_bind with (P := fun _ => True).
  { unfold py_populate_by_name. destruct (existsb _ _); [|apply post_ret; exact I].
    eapply post_bind; [apply py_add_import_post; reflexivity|]. intros _ _. apply post_ret. exact I. }
  intros config _.
  eapply post_bind; [exact (post_mmapM py_inv _ _ _ (py_member_post (sgenerics rs)) _ (forallb_Forall _ _ Hf))|].
  intros ms Pms. apply post_ret. cbn [c10_py_decl_ok]. rewrite Hd, Hn, (generics_tok _ Hg), (Forall_forallb _ _ Pms). reflexivity.
Qed.

Lemma anon_docs_ok (e : eshared) name vname fs :
  forallb c10_ident_char vname = true -> forallb c10_ident_char (original (eid e)) = true ->
  docs_ok (scomments (anon_struct e name vname fs)) = true.
Proof.
  intros Hv He. pose proof (anon_doc_docsafe e name vname fs Hv He) as H. unfold docs_ok. apply andb_true_iff. split; apply Forall_forallb.
  - revert H. apply Forall_impl. intros d. apply docsafe_pydoc.
  - revert H. apply Forall_impl. intros d. apply docsafe_line.
Qed.

Lemma py_inner_post sh vs :
  c10_ident_ok (renamed (eid sh)) = true -> c10_ident_ok (original (eid sh)) = true -> forallb c10_ident_ok (egenerics sh) = true ->
  forallb (c10_variant_ok CPY) vs = true ->
  ppost (fun ds => forallb c10_py_decl_ok ds = true) (py_inner_classes_of uc cfg sh vs).
Proof.
  intros Hren Horig Hg. induction vs as [|v r IH]; intros Hv; cbn [py_inner_classes_of]; [apply post_ret; reflexivity|].
  cbn [forallb] in Hv. apply andb_true_iff in Hv as [Hv0 Hr]. destruct v as [vsh | t vsh | fs vsh]; try exact (IH Hr).
  unfold c10_variant_ok in Hv0. cbn [variant_shared] in Hv0. rewrite !andb_true_iff in Hv0. destruct Hv0 as [[Hvid _] Hfs].
  unfold c10_member_id_ok in Hvid. apply andb_true_iff in Hvid as [Hvo _].
  eapply post_bind.
  - apply py_class_post; cbn [anon_struct sid sgenerics sfields renamed].
    + unfold py_anonymous_struct_name. rewrite !tok_ok_app, (ident_tok _ Hren), (ident_tok _ Hvo). reflexivity.
    + apply anon_struct_generics_ok, Hg.
    + exact Hfs.
    + apply anon_docs_ok; apply ident_ok_chars; assumption.
  - intros c Pc. eapply post_bind; [exact (IH Hr)|]. intros cs Pcs. apply post_ret. cbn [forallb]. rewrite Pc, Pcs. reflexivity.
Qed.

Lemma py_type_key_tok v : c10_key_ok (renamed (vid (variant_shared v))) = true -> c10_tok_ok (py_variant_type_key uc v) = true.
Proof. intros H. unfold py_variant_type_key. apply keychars_tok, (to_uppercase_key uc Huc), (cc_to_snake_key uc Huc), key_ok_chars, H. Qed.

Lemma py_decl_post it : c10_item_ok CPY it = true -> ppost (fun ds => forallb c10_py_decl_ok ds = true) (py_decl_of uc cfg it).
Proof.
  intros Hit. destruct it as [rs | e | a | c]; cbn [py_decl_of].
  - cbn [c10_item_ok] in Hit. rewrite !andb_true_iff in Hit. destruct Hit as [[[[Hid Hg] Hf] Hdoc] _].
    unfold c10_type_id_ok in Hid. apply andb_true_iff in Hid as [_ Hren].
    eapply post_bind; [exact (py_class_post rs (ident_tok _ Hren) Hg Hf (docs_ok_of_doc _ Hdoc))|].
    intros d Pd. apply post_ret. cbn [forallb]. rewrite Pd. reflexivity.
  - cbn [c10_item_ok] in Hit. rewrite !andb_true_iff in Hit. destruct Hit as [[[[[Hid Hg] Hd] Hv] _] Htc].
    unfold c10_type_id_ok in Hid. apply andb_true_iff in Hid as [Horig Hren].
    eapply post_bind; [exact (py_inner_post _ _ Hren Horig Hg Hv)|]. intros inners Pin.
    destruct e as [sh | tag content sh]; cbn [enum_shared] in *.
    + eapply post_bind; [apply py_add_import_post; reflexivity|]. intros _ _.
      eapply post_bind with (P := Forall (fun v : list str * str * str => (let '(vdocs, case, wire) := v in docs_ok vdocs && c10_tok_ok case && strval_ok wire) = true)).
      * eapply (post_mmapM py_inv _ (fun v => c10_variant_ok CPY v = true)); [|exact (forallb_Forall _ _ Hv)].
        intros v Hv0. unfold py_unit_variant_of. destruct v as [vsh | t vsh | fs vsh]; try apply post_mpanic.
        unfold c10_variant_ok in Hv0. cbn [variant_shared] in Hv0. rewrite !andb_true_iff in Hv0. destruct Hv0 as [[Hvid Hvd] _].
        unfold c10_member_id_ok in Hvid. apply andb_true_iff in Hvid as [Hvo Hvr].
        apply post_ret. rewrite (docs_ok_of_doc _ Hvd), (strval_key _ Hvr).
        rewrite (keychars_tok _ (to_uppercase_key uc Huc _ (ident_keychars _ (ident_ok_chars _ Hvo)))). reflexivity.
      * intros vs Pvs. apply post_ret. rewrite forallb_app, Pin. cbn [forallb c10_py_decl_ok].
        rewrite (docs_ok_of_doc _ Hd), (ident_tok _ Hren), (Forall_forallb _ _ Pvs). reflexivity.
    + apply andb_true_iff in Htc as [Htag Hcon].
      eapply post_bind with (P := fun d => c10_py_decl_ok d = true).
      * unfold py_algebraic_of.
        eapply post_bind; [exact (py_add_type_vars_post _ Hg)|]. intros _ _.
        eapply post_bind; [apply py_add_import_post; reflexivity|]. intros _ _.
        eapply post_bind; [apply py_add_import_post; reflexivity|]. intros _ _.
        eapply post_bind with (P := Forall (fun pv => c10_py_variant_ok pv = true)).
        { eapply (post_mmapM py_inv _ (fun v => c10_variant_ok CPY v = true)); [|exact (forallb_Forall _ _ Hv)].
          intros v Hv0. unfold c10_variant_ok in Hv0. rewrite !andb_true_iff in Hv0. destruct Hv0 as [[Hvid Hvd] Hp].
          unfold c10_member_id_ok in Hvid. apply andb_true_iff in Hvid as [Hvo Hvr].
          assert (Hmk : forall c, match c with PYCNone => True | PYCType ty => c10_texp_ok c10_lex_py ty = true | PYCInner i => c10_tok_ok i = true end ->
                    c10_py_variant_ok {| pyv_docs := vcomments (variant_shared v);
                                         pyv_class := renamed (eid sh) ++ original (vid (variant_shared v));
                                         pyv_types := renamed (eid sh) ++ lit "Types"; pyv_type_key := py_variant_type_key uc v;
                                         pyv_content := c |} = true).
          { intros c Hc. unfold c10_py_variant_ok. cbn [pyv_docs pyv_class pyv_types pyv_type_key pyv_content].
            rewrite (docs_ok_of_doc _ Hvd), !tok_ok_app, (ident_tok _ Hren), (ident_tok _ Hvo), (py_type_key_tok v Hvr). cbn [andb].
            destruct c; auto. }
          unfold py_variant_of. cbv zeta. destruct v as [vsh | t vsh | fs vsh]; cbn [variant_shared] in *.
          - eapply post_bind; [apply py_add_import_post; reflexivity|]. intros _ _. apply post_ret. apply Hmk. exact I.
          - eapply post_bind; [exact (py_texp_ok _ _ Hp)|]. intros tn Ptn.
            eapply post_bind; [apply py_add_import_post; reflexivity|]. intros _ _. apply post_ret. apply Hmk. exact Ptn.
          - eapply post_bind; [apply py_add_import_post; reflexivity|]. intros _ _. apply post_ret. apply Hmk.
            unfold py_anonymous_struct_name. rewrite !tok_ok_app, (ident_tok _ Hren), (ident_tok _ Hvo). reflexivity. }
        intros vs Pvs. eapply post_bind with (P := fun _ => True).
        { destruct vs as [|v0 [|v1 vr]]; try (apply py_add_import_post; reflexivity). apply post_ret. exact I. }
        intros _ _. apply post_ret. cbn [c10_py_decl_ok].
        rewrite (docs_ok_of_doc _ Hd), (ident_tok _ Hren), tok_ok_app, (ident_tok _ Hren), (key_tok _ Htag), (key_tok _ Hcon), (Forall_forallb _ _ Pvs).
        cbn [andb]. rewrite !andb_true_r. apply andb_true_iff. split; [reflexivity|]. rewrite forallb_forall. intros kw Hkw. apply in_map_iff in Hkw as (v & <- & Hin).
        rewrite forallb_forall in Hv. specialize (Hv v Hin). unfold c10_variant_ok, c10_member_id_ok in Hv. rewrite !andb_true_iff in Hv.
        destruct Hv as [[[_ Hvr] _] _]. cbn [fst snd]. rewrite (py_type_key_tok v Hvr), (strval_key _ Hvr). reflexivity.
      * intros d Pd. apply post_ret. rewrite forallb_app, Pin. cbn [forallb]. rewrite Pd. reflexivity.
  - cbn [c10_item_ok] in Hit. rewrite !andb_true_iff in Hit. destruct Hit as [[[[Hid Hg] Ht] Hd] _].
    unfold c10_type_id_ok in Hid. apply andb_true_iff in Hid as [_ Hren].
    eapply post_bind; [exact (py_texp_ok _ _ Ht)|]. intros ty Pty. eapply post_bind; [exact (py_add_type_vars_post _ Hg)|]. intros _ _. apply post_ret.
    cbn [forallb c10_py_decl_ok]. rewrite (docs_ok_of_doc _ Hd), (ident_tok _ Hren), (generics_tok _ Hg), Pty. reflexivity.
  - cbn [c10_item_ok] in Hit. rewrite !andb_true_iff in Hit. destruct Hit as [Hid Ht].
    unfold c10_type_id_ok in Hid. apply andb_true_iff in Hid as [_ Hren].
    eapply post_bind; [exact (py_texp_ok _ _ Ht)|]. intros ty Pty. apply post_ret.
    cbn [forallb c10_py_decl_ok]. rewrite Pty, dec_of_Z_tok. rewrite !andb_true_r.
    apply ident_chars_tok, (to_uppercase_ident uc Huc). unfold to_snake_case. apply snake_go_ident, ident_ok_chars, Hren.
Qed.

(* ------------------------------------------------------------------ the file *)
Lemma py_sorted_insert_all (P : str -> Prop) x l : P x -> Forall P l -> Forall P (py_sorted_insert x l).
Proof.
  intros Hx H. induction H as [|y r Hy Hr IH]; cbn [py_sorted_insert]; [constructor; auto|].
  destruct (str_ltb x y); constructor; auto.
Qed.
Lemma py_sort_all (P : str -> Prop) l : Forall P l -> Forall P (py_sort l).
Proof. intros H. unfold py_sort. induction H; cbn [fold_right]; [constructor|]. apply py_sorted_insert_all; assumption. Qed.

Lemma py_imports_bal st : py_inv st -> bal c10_lex_py (py_write_all_imports st).
Proof.
  intros [Hi Ht]. unfold py_write_all_imports. cbv zeta.
  assert (H1 : bal c10_lex_py (join py_nl (py_sort (map (fun mi : str * list str => lit "from " ++ fst mi ++ lit " import " ++ join (lit ", ") (snd mi)) (py_imports st))))).
  { apply tr_join; [intros s; reflexivity|]. apply py_sort_all. apply Forall_map. apply Forall_forall. intros mi Hin.
    rewrite forallb_forall in Hi. specialize (Hi mi Hin). apply andb_true_iff in Hi as [Hm Hids].
    apply tok_bal. rewrite !tok_ok_app, Hm, (tok_ok_join (lit ", ") _ eq_refl Hids). reflexivity. }
  set (tvs := map (fun name => name ++ lit " = TypeVar(""" ++ name ++ lit """)") (py_type_variables st)).
  assert (Hj : bal c10_lex_py (join py_nl tvs)).
  { subst tvs. apply tr_join_map; [intros s; reflexivity|]. apply Forall_forall. intros n Hn. rewrite forallb_forall in Ht. specialize (Ht n Hn).
    pose proof (tok_bal c10_lex_py _ (ident_tok _ Ht)) as G1.
    assert (G2 : tr c10_lex_py (C10LQ1 ch_dq) n (C10LStr ch_dq)).
    { apply instr_q1; [exact (ident_nonempty _ Ht)|]. apply key_chars_instr. apply ident_keychars, ident_ok_chars, Ht. }
    intros s. walk. reflexivity. }
  clearbody tvs. destruct tvs as [|t0 tr0]; intros s; set (I := join py_nl (py_sort _)) in *; [walk; reflexivity|].
  set (J := join py_nl (t0 :: tr0)) in *. walk. reflexivity.
Qed.

Lemma py_translations_bal st : bal c10_lex_py (py_write_custom_translations st).
Proof.
  unfold py_write_custom_translations. apply tr_flat_map. apply Forall_forall. intros t _.
  unfold py_json_translation_for_type. destruct (str_eqb t (lit "bytes")); [apply balanced_bal; vm_compute; reflexivity|].
  destruct (str_eqb t (lit "datetime")); [apply balanced_bal; vm_compute; reflexivity|apply tr_nil].
Qed.

Lemma py_begin_file_bal : bal c10_lex_py (py_begin_file cfg).
Proof.
  unfold py_begin_file. destruct (py_no_version_header cfg); [apply tr_nil|].
  pose proof Hcfg as Hc. unfold c10_py_cfg_ok in Hc. apply andb_true_iff in Hc as [_ Hv].
  assert (Hd : pydoc_ok (py_version cfg) = true).
  { apply docsafe_pydoc. revert Hv. unfold c10_dotted_ok. apply forallb_impl. intros c.
    unfold docsafe_char, c10_dotted_char, c10_key_char, is_aalpha, is_alower, is_aupper, is_adigit, ch_us, ch_dash, ch_nl, ch_cr, ch_bs, ch_dq. lia. }
  pose proof (tri_doc c10_lex_py _ ch_nl Hd ltac:(discriminate) ltac:(discriminate)) as Ht. change [ch_nl] with py_nl in Ht.
  intros s. rewrite (app_assoc (py_version cfg) py_nl). set (V := py_version cfg ++ py_nl) in *. walk. reflexivity.
Qed.

Theorem py_generate_balanced pd text : dom_C10 CPY pd = true -> py_generate uc cfg pd = Ok text -> c10_balanced c10_lex_py text = true.
Proof.
  intros Hdom H. unfold py_generate in H. apply bind_ok in H as (items & Et & H).
  assert (Hitems : Forall (fun it => c10_item_ok CPY it = true) items).
  { apply forallb_Forall in Hdom. fold (items_of pd) in Hdom.
    eapply Permutation_Forall; [apply Permutation_sym, (topsort_ok_perm _ _ Et)|exact Hdom]. }
  destruct (mconcat (py_write_item uc cfg) items py_empty_state) as [[body st]| |] eqn:Em; try discriminate. injection H as <-.
  unfold mconcat in Em. apply mbind_ok in Em as (parts & s1 & Hp & Em). unfold ret in Em. injection Em as <- <-.
  assert (Hstep : forall it, c10_item_ok CPY it = true -> ppost (fun t => bal c10_lex_py t) (py_write_item uc cfg it)).
  { intros it Hit. unfold py_write_item. eapply post_bind; [exact (py_decl_post it Hit)|]. intros ds Pds. apply post_ret.
    apply tr_concat_map. apply Forall_forall. intros d Hd. apply py_render_decl_bal. rewrite forallb_forall in Pds. exact (Pds d Hd). }
  destruct (post_mmapM py_inv _ _ _ Hstep items Hitems py_empty_state parts s1 Hp ltac:(split; reflexivity)) as [Pparts Hs1].
  apply bal_balanced. eapply tr_app; [apply py_begin_file_bal|]. eapply tr_app; [exact (py_imports_bal _ Hs1)|].
  eapply tr_app; [apply py_translations_bal|apply tr_concat, Pparts].
Qed.
End PYDecide.
