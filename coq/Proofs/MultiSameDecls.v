(* Folder (multi-file) mode declares what single-file mode declares.

   In folder mode the language value lives as long as the run: the printer state is threaded from crate to
   crate (generate_crates of Model/MultiFile.v).  Proofs/C12Multi*.v define, per back end, the declarations of
   ONE file from ANY incoming state (<l>_multi_decls) and tie them to the text (<l>_multi_layout).  Here:

     * a predicate on computations of the state-passing monad, [obliv m]: the RESULT of m (value, error or
       panic site) is the same from every state - m may write the state, what it reads never reaches its result;
       closure under ret / fail / mbind / mmapM / the read-modify-write step  st <- mget; mput (g st);
     * every item writer <l>_decl_of of the four stateful back ends (TypeScript, Swift, Go, Python) is oblivious:
       the only reads of the state are the read-modify-write steps that register an import, a type variable, a
       translated type or the CodableVoid flag;
     * hence <l>_multi_decls returns the same declarations - or the same error, or the same panic site - from
       every state (<l>_multi_decls_state_independent), in particular the declarations <l>_decls / <l>_file_decls
       compute in single-file mode (<l>_multi_same_decls).  Kotlin and Scala keep no state: their folder-mode
       generators are stated over kt_decls / sc_decls themselves (Proofs/C12MultiStateless.v).

   What DOES depend on the incoming state is exactly what is written ABOUT the state, none of it an item
   declaration: Python's import block / TypeVar lines / translation functions, Go's import block, TypeScript's
   ReviverFunc / ReplacerFunc trailer, Swift's Codable.swift (layout theorems of Proofs/C12Multi*.v).

   The per-property corollaries (C01 .. C05, C09 in folder mode) are in Proofs/MultiSameProps.v. *)
From Coq Require Import List Bool String Permutation.
From TS Require Import Model.Str Model.Outcome Model.Unicode Model.Types Model.Parse Model.TopsortAlgo Model.Topsort
                       Model.Lang.Common Model.Lang.Decl Model.Lang.TypeScript Model.Lang.Swift Model.Lang.Go
                       Model.Lang.Python Model.MultiFile.
From TS Require Import Proofs.BackCommon Proofs.C12Multi Proofs.C12MultiTS Proofs.C12MultiSwift Proofs.C12MultiGo.
Import ListNotations.
Local Open Scope list_scope.

(* ================================================================== the result of a run of M St *)
Definition res {A St} (o : outcome (A * St)) : outcome A :=
  match o with Ok (a, _) => Ok a | Err e => Err e | Panic p => Panic p end.

Definition obliv {St A} (m : M St A) : Prop := forall s1 s2, res (m s1) = res (m s2).

Lemma res_ok {A St} (o : outcome (A * St)) a : res o = Ok a <-> exists s, o = Ok (a, s).
Proof.
  destruct o as [[b s]| |]; cbn [res]; split; try discriminate.
  - intros [= ->]. eauto.
  - intros (s' & [= -> _]). reflexivity.
  - intros (s & H). discriminate H.
  - intros (s & H). discriminate H.
Qed.
Lemma res_err {A St} (o : outcome (A * St)) e : res o = Err e <-> o = Err e.
Proof. destruct o as [[b s]| |]; cbn [res]; split; try discriminate; intros [= ->]; reflexivity. Qed.
Lemma res_panic {A St} (o : outcome (A * St)) p : res o = Panic p <-> o = Panic p.
Proof. destruct o as [[b s]| |]; cbn [res]; split; try discriminate; intros [= ->]; reflexivity. Qed.

(* what equal results mean, spelled out *)
Lemma res_eq_spelled {A St} (o1 o2 : outcome (A * St)) :
  res o1 = res o2 ->
  (forall a s1, o1 = Ok (a, s1) -> exists s2, o2 = Ok (a, s2)) /\
  (forall e, o1 = Err e -> o2 = Err e) /\
  (forall p, o1 = Panic p -> o2 = Panic p).
Proof.
  intros H. split; [|split].
  - intros a s1 ->. cbn [res] in H. symmetry in H. apply res_ok in H. exact H.
  - intros e ->. cbn [res] in H. symmetry in H. apply res_err in H. exact H.
  - intros p ->. cbn [res] in H. symmetry in H. apply res_panic in H. exact H.
Qed.

Lemma obl_ret {St A} (a : A) : obliv (@ret St A a).
Proof. intros s1 s2. reflexivity. Qed.
Lemma obl_fail {St A} e : obliv (@fail St A e).
Proof. intros s1 s2. reflexivity. Qed.
Lemma obl_mpanic {St A} site : obliv (@mpanic St A site).
Proof. intros s1 s2. reflexivity. Qed.
Lemma obl_mput {St} (x : St) : obliv (mput x).
Proof. intros s1 s2. reflexivity. Qed.

Lemma obl_bind {St A B} (m : M St A) (f : A -> M St B) :
  obliv m -> (forall a, obliv (f a)) -> obliv (mbind m f).
Proof.
  intros Hm Hf s1 s2. unfold mbind. specialize (Hm s1 s2).
  destruct (m s1) as [[a t1]|e1|p1], (m s2) as [[b t2]|e2|p2]; cbn [res] in Hm; try discriminate Hm.
  - injection Hm as ->. apply Hf.
  - injection Hm as ->. reflexivity.
  - injection Hm as ->. reflexivity.
Qed.

(* a read of the state whose continuation's result depends neither on the value read nor on the state *)
Lemma obl_get {St A} (k : St -> M St A) :
  (forall st st' s s', res (k st s) = res (k st' s')) -> obliv (mbind mget k).
Proof. intros H s1 s2. unfold mbind, mget. apply H. Qed.

(* the read-modify-write step *)
Lemma obl_modify {St} (g : St -> St) : obliv (mbind mget (fun st => mput (g st))).
Proof. apply obl_get. intros st st' s s'. reflexivity. Qed.

Lemma obl_mmapM {St A B} (f : A -> M St B) l :
  (forall x, In x l -> obliv (f x)) -> obliv (mmapM f l).
Proof.
  induction l as [|x r IH]; intros H; [apply obl_ret|]. cbn [mmapM].
  apply obl_bind; [apply H; left; reflexivity|]. intros y.
  apply obl_bind; [apply IH; intros z Hz; apply H; right; exact Hz|]. intros ys. apply obl_ret.
Qed.

(* the nested list recursion of the type translators *)
Lemma obl_texp_list {St A B} (f : A -> M St B) (go : list A -> M St (list B)) :
  (forall l, go l = match l with [] => ret [] | x :: r => mbind (f x) (fun y => mbind (go r) (fun ys => ret (y :: ys))) end) ->
  forall l, Forall (fun x => obliv (f x)) l -> obliv (go l).
Proof.
  intros Hgo l H. induction H as [|x r Hx _ IH]; rewrite Hgo; [apply obl_ret|].
  apply obl_bind; [exact Hx|]. intros y. apply obl_bind; [exact IH|]. intros ys. apply obl_ret.
Qed.

Create HintDb obl discriminated.

Ltac ob_head :=
  lazymatch goal with
  | |- obliv (ret _) => apply obl_ret
  | |- obliv (fail _) => apply obl_fail
  | |- obliv (mpanic _) => apply obl_mpanic
  | |- obliv (mput _) => apply obl_mput
  | |- obliv (mbind mget (fun st => mput _)) => apply obl_modify
  | |- obliv (mbind _ _) => apply obl_bind; [|intros ?]
  | |- obliv (mmapM _ _) => apply obl_mmapM; intros ? ?
  | |- obliv (match ?x with _ => _ end) => destruct x eqn:?
  | |- obliv (let _ := _ in _) => cbv zeta
  | |- obliv ((fun _ => _) _) => cbv beta
  end.
Ltac ob_walk := repeat (first [ solve [eauto 3 with obl] | ob_head ]).

(* a sequence of oblivious item writers from two states: same declarations, same error, same panic site *)
Lemma obl_items {St A D} (f : A -> M St D) (items : list A) (s1 s2 : St) :
  (forall x, obliv (f x)) -> res (mmapM f items s1) = res (mmapM f items s2).
Proof. intros H. apply obl_mmapM. intros x _. apply H. Qed.

(* ================================================================== TypeScript *)
Section TSO.
Variable uc : unicode.
Variable cfg : ts_config.

Lemma ts_texp_obliv g t : obliv (ts_texp cfg g t).
Proof.
  assert (SM : forall (t0 : rtype) (k : M ts_state texp), obliv k ->
            obliv (match tmap_get (ts_type_mappings cfg) (rtype_display t0) with
                   | Some mapped =>
                     mdo st <- mget;
                     mdo _ <- (if has_custom_translation mapped then mput (tsmap_set st mapped []) else ret tt);
                     ret (XRaw mapped)
                   | None => k
                   end)).
  { intros t0 k Hk. destruct (tmap_get (ts_type_mappings cfg) (rtype_display t0)) as [mapped|]; [|exact Hk].
    apply obl_get. intros st st' s s'. unfold mbind, mput, ret. destruct (has_custom_translation mapped); reflexivity. }
  induction t as [id|id ps IH|x IH|x n IH|x IH|k v IHk IHv|x IH|p] using rtype_ind'; cbn [ts_texp].
  - apply obl_ret.
  - destruct (tmap_get (ts_type_mappings cfg) id); [apply obl_ret|].
    apply obl_bind; [|intros; apply obl_ret].
    induction IH as [|x r Hx _ IHr]; [apply obl_ret|].
    apply obl_bind; [exact Hx|]. intros y. apply obl_bind; [exact IHr|]. intros; apply obl_ret.
  - apply SM. ob_walk.
  - apply SM. ob_walk.
  - apply SM. ob_walk.
  - apply SM. apply obl_bind; [|intros; ob_walk]. destruct k; ob_walk.
  - apply SM. exact IH.
  - apply SM. destruct p; ob_walk.
Qed.
Hint Resolve ts_texp_obliv : obl.

Lemma ts_member_of_obliv g f : obliv (ts_member_of cfg g f).
Proof.
  unfold ts_member_of. apply obl_bind; [ob_walk|]. intros ty. cbv zeta.
  apply obl_get. intros st st' s s'. unfold mbind, mput, ret. destruct (has_custom_translation (ts_show ty)); reflexivity.
Qed.
Hint Resolve ts_member_of_obliv : obl.

Lemma ts_variant_of_obliv g b v : obliv (ts_variant_of cfg g b v).
Proof. unfold ts_variant_of. ob_walk. Qed.
Hint Resolve ts_variant_of_obliv : obl.

Lemma ts_decl_of_obliv it : obliv (ts_decl_of uc cfg it).
Proof. unfold ts_decl_of. ob_walk. Qed.

Theorem ts_multi_decls_res st1 st2 pd : res (ts_multi_decls uc cfg st1 pd) = res (ts_multi_decls uc cfg st2 pd).
Proof.
  unfold ts_multi_decls. destruct (topsort (items_of pd)) as [items| |]; cbn [bind]; [|reflexivity|reflexivity].
  apply obl_items. exact ts_decl_of_obliv.
Qed.
End TSO.

(* ================================================================== Swift *)
Lemma sw_lift_obliv {A} (o : outcome A) : obliv (sw_lift o).
Proof. intros s1 s2. unfold sw_lift. destruct o; reflexivity. Qed.
Global Hint Resolve sw_lift_obliv : obl.

Section SWO.
Variable uc : unicode.
Variable cfg : sw_config.

Lemma sw_texp_obliv g t : obliv (sw_texp cfg g t).
Proof.
  induction t as [id|id ps IH|x IH|x n IH|x IH|k v IHk IHv|x IH|p] using rtype_ind'; cbn [sw_texp].
  - apply obl_ret.
  - destruct (tmap_get (sw_type_mappings cfg) id); [apply obl_ret|].
    apply obl_bind; [|intros; apply obl_ret].
    induction IH as [|x r Hx _ IHr]; [apply obl_ret|].
    apply obl_bind; [exact Hx|]. intros y. apply obl_bind; [exact IHr|]. intros; apply obl_ret.
  - ob_walk.
  - ob_walk.
  - ob_walk.
  - ob_walk.
  - ob_walk.
  - destruct p; ob_walk.
Qed.
Hint Resolve sw_texp_obliv : obl.

Lemma sw_field_texp_obliv g f : obliv (sw_field_texp cfg g f).
Proof. unfold sw_field_texp. ob_walk. Qed.
Hint Resolve sw_field_texp_obliv : obl.

Lemma sw_struct_of_obliv rs : obliv (sw_struct_of uc cfg rs).
Proof. unfold sw_struct_of. ob_walk. Qed.
Hint Resolve sw_struct_of_obliv : obl.

Lemma sw_inner_structs_of_obliv sh vs : obliv (sw_inner_structs_of uc cfg sh vs).
Proof.
  induction vs as [|v r IH]; cbn [sw_inner_structs_of]; [apply obl_ret|].
  destruct v; ob_walk.
Qed.
Hint Resolve sw_inner_structs_of_obliv : obl.

Lemma sw_unit_variant_of_obliv v : obliv (sw_unit_variant_of uc v).
Proof. unfold sw_unit_variant_of. ob_walk. Qed.
Hint Resolve sw_unit_variant_of_obliv : obl.

Lemma sw_variant_of_obliv sh v : obliv (sw_variant_of uc cfg sh v).
Proof. unfold sw_variant_of. cbv zeta. apply obl_bind; [apply sw_lift_obliv|]. intros camel. ob_walk. Qed.
Hint Resolve sw_variant_of_obliv : obl.

Lemma sw_enum_of_obliv e : obliv (sw_enum_of uc cfg e).
Proof. unfold sw_enum_of. ob_walk. Qed.
Hint Resolve sw_enum_of_obliv : obl.

Lemma sw_decl_of_obliv it : obliv (sw_decl_of uc cfg it).
Proof. unfold sw_decl_of. ob_walk. Qed.

Theorem sw_multi_decls_res st1 st2 pd : res (sw_multi_decls uc cfg st1 pd) = res (sw_multi_decls uc cfg st2 pd).
Proof.
  unfold sw_multi_decls. destruct (topsort (items_of pd)) as [items| |]; cbn [bind]; [|reflexivity|reflexivity].
  apply obl_items. exact sw_decl_of_obliv.
Qed.
End SWO.

(* ================================================================== Go *)
Lemma go_lift_obliv {St A} (o : outcome A) : obliv (@go_lift St A o).
Proof. intros s1 s2. unfold go_lift. destruct o; reflexivity. Qed.
Global Hint Resolve go_lift_obliv : obl.

Lemma go_add_import_obliv name : obliv (go_add_import name).
Proof. unfold go_add_import. apply obl_modify. Qed.
Global Hint Resolve go_add_import_obliv : obl.

Section GOO.
Variable uc : unicode.
Variable cfg : go_config.

Lemma go_acronyms_to_uppercase_obliv name : obliv (go_acronyms_to_uppercase uc cfg name).
Proof. unfold go_acronyms_to_uppercase. apply go_lift_obliv. Qed.
Hint Resolve go_acronyms_to_uppercase_obliv : obl.

Lemma go_format_field_name_obliv name b : obliv (go_format_field_name uc cfg name b).
Proof. unfold go_format_field_name. apply go_acronyms_to_uppercase_obliv. Qed.
Hint Resolve go_format_field_name_obliv : obl.

Lemma go_texp_obliv g t : obliv (go_texp cfg g t).
Proof.
  assert (SM : forall (t0 : rtype) (k : M go_state go_ty), obliv k ->
            obliv (match tmap_get (go_type_mappings cfg) (rtype_display t0) with
                   | Some mapped => ret (GRaw mapped)
                   | None => k
                   end)).
  { intros t0 k Hk. destruct (tmap_get (go_type_mappings cfg) (rtype_display t0)); [apply obl_ret|exact Hk]. }
  induction t as [id|id ps IH|x IH|x n IH|x IH|k v IHk IHv|x IH|p] using rtype_ind'; cbn [go_texp].
  - apply obl_ret.
  - destruct (tmap_get (go_type_mappings cfg) id); [apply obl_ret|].
    apply obl_bind; [|intros; apply obl_ret].
    induction IH as [|x r Hx _ IHr]; [apply obl_ret|].
    apply obl_bind; [exact Hx|]. intros y. apply obl_bind; [exact IHr|]. intros; apply obl_ret.
  - apply SM. ob_walk.
  - apply SM. ob_walk.
  - apply SM. ob_walk.
  - apply SM. ob_walk.
  - apply SM. ob_walk.
  - apply SM. destruct p; ob_walk.
Qed.
Hint Resolve go_texp_obliv : obl.

Lemma go_acronyms_ty_obliv t : obliv (go_acronyms_ty uc cfg t).
Proof. unfold go_acronyms_ty. ob_walk. Qed.
Hint Resolve go_acronyms_ty_obliv : obl.

Lemma go_member_of_obliv g f : obliv (go_member_of uc cfg g f).
Proof. unfold go_member_of. ob_walk. Qed.
Hint Resolve go_member_of_obliv : obl.

Lemma go_struct_decl_of_obliv rs : obliv (go_struct_decl_of uc cfg rs).
Proof. unfold go_struct_decl_of. ob_walk. Qed.
Hint Resolve go_struct_decl_of_obliv : obl.

Lemma go_make_anonymous_struct_name_obliv sh n : obliv (go_make_anonymous_struct_name uc cfg sh n).
Proof. unfold go_make_anonymous_struct_name. ob_walk. Qed.
Hint Resolve go_make_anonymous_struct_name_obliv : obl.

Lemma go_anonymous_struct_decls_obliv sh : obliv (go_anonymous_struct_decls uc cfg sh).
Proof. unfold go_anonymous_struct_decls. ob_walk. Qed.
Hint Resolve go_anonymous_struct_decls_obliv : obl.

Lemma go_unit_variant_of_obliv sh v : obliv (go_unit_variant_of uc cfg sh v).
Proof. unfold go_unit_variant_of. ob_walk. Qed.
Hint Resolve go_unit_variant_of_obliv : obl.

Lemma go_variant_of_obliv sh cs sn tk v : obliv (go_variant_of uc cfg sh cs sn tk v).
Proof. unfold go_variant_of. ob_walk. Qed.
Hint Resolve go_variant_of_obliv : obl.

Lemma go_enum_decls_of_obliv cs e : obliv (go_enum_decls_of uc cfg cs e).
Proof. unfold go_enum_decls_of. ob_walk. Qed.
Hint Resolve go_enum_decls_of_obliv : obl.

Lemma go_decl_of_obliv cs it : obliv (go_decl_of uc cfg cs it).
Proof. unfold go_decl_of. ob_walk. Qed.

Lemma go_begin_file_obliv : obliv (go_begin_file cfg).
Proof. unfold go_begin_file. ob_walk. Qed.

Theorem go_multi_decls_res st1 st2 pd : res (go_multi_decls uc cfg st1 pd) = res (go_multi_decls uc cfg st2 pd).
Proof.
  unfold go_multi_decls. destruct (topsort (items_of pd)) as [items| |]; cbn [bind]; [|reflexivity|reflexivity].
  cbv zeta. apply obl_bind; [apply go_begin_file_obliv|]. intros _.
  apply obl_bind; [|intros; apply obl_ret]. apply obl_mmapM. intros x _. apply go_decl_of_obliv.
Qed.
End GOO.

(* ================================================================== Python *)
Lemma py_add_import_obliv m i : obliv (py_add_import m i).
Proof. unfold py_add_import. apply (obl_modify (fun st => _)). Qed.
Global Hint Resolve py_add_import_obliv : obl.

Lemma py_add_type_var_obliv n : obliv (py_add_type_var n).
Proof. unfold py_add_type_var. apply obl_bind; [apply py_add_import_obliv|]. intros _. apply (obl_modify (fun st => _)). Qed.
Global Hint Resolve py_add_type_var_obliv : obl.

Lemma py_add_type_vars_obliv ns : obliv (py_add_type_vars ns).
Proof. induction ns as [|n r IH]; cbn [py_add_type_vars]; ob_walk. Qed.
Global Hint Resolve py_add_type_vars_obliv : obl.

Lemma py_add_custom_type_obliv t : obliv (py_add_custom_type t).
Proof. unfold py_add_custom_type. apply (obl_modify (fun st => _)). Qed.
Global Hint Resolve py_add_custom_type_obliv : obl.

Lemma py_add_imports_obliv tp : obliv (py_add_imports tp).
Proof. unfold py_add_imports. ob_walk. Qed.
Global Hint Resolve py_add_imports_obliv : obl.

Lemma py_add_common_imports_obliv a b c : obliv (py_add_common_imports a b c).
Proof. unfold py_add_common_imports. ob_walk. Qed.
Global Hint Resolve py_add_common_imports_obliv : obl.

Section PYO.
Variable uc : unicode.
Variable cfg : py_config.

Lemma py_texp_obliv g t : obliv (py_texp cfg g t).
Proof.
  assert (SM : forall (t0 : rtype) (k : M py_state texp), obliv k ->
            obliv (match tmap_get (py_type_mappings cfg) (rtype_display t0) with
                   | Some mapped =>
                     mdo _ <- (if py_is_some (py_json_translation_for_type mapped) then py_add_custom_type mapped else ret tt);
                     ret (XRaw mapped)
                   | None => k
                   end)).
  { intros t0 k Hk. destruct (tmap_get (py_type_mappings cfg) (rtype_display t0)) as [mapped|]; [|exact Hk]. ob_walk. }
  induction t as [id|id ps IH|x IH|x n IH|x IH|k v IHk IHv|x IH|p] using rtype_ind'; cbn [py_texp].
  - ob_walk.
  - apply obl_bind; [ob_walk|]. intros _.
    destruct (tmap_get (py_type_mappings cfg) id); [apply obl_ret|].
    apply obl_bind; [|intros; apply obl_ret].
    induction IH as [|x r Hx _ IHr]; [apply obl_ret|].
    apply obl_bind; [exact Hx|]. intros y. apply obl_bind; [exact IHr|]. intros; apply obl_ret.
  - apply SM. ob_walk.
  - apply SM. ob_walk.
  - apply SM. ob_walk.
  - apply SM. apply obl_bind; [ob_walk|]. intros _. apply obl_bind; [|intros; ob_walk]. destruct k; ob_walk.
  - apply SM. ob_walk.
  - apply SM. destruct p; ob_walk.
Qed.
Hint Resolve py_texp_obliv : obl.

Lemma py_member_of_obliv g f : obliv (py_member_of uc cfg g f).
Proof. unfold py_member_of. ob_walk. Qed.
Hint Resolve py_member_of_obliv : obl.

Lemma py_populate_by_name_obliv fs : obliv (py_populate_by_name uc fs).
Proof. unfold py_populate_by_name. ob_walk. Qed.
Hint Resolve py_populate_by_name_obliv : obl.

Lemma py_class_of_obliv s : obliv (py_class_of uc cfg s).
Proof. unfold py_class_of. ob_walk. Qed.
Hint Resolve py_class_of_obliv : obl.

Lemma py_inner_classes_of_obliv e vs : obliv (py_inner_classes_of uc cfg e vs).
Proof.
  induction vs as [|v r IH]; cbn [py_inner_classes_of]; [apply obl_ret|].
  destruct v; ob_walk.
Qed.
Hint Resolve py_inner_classes_of_obliv : obl.

Lemma py_variant_of_obliv en tn sh v : obliv (py_variant_of uc cfg en tn sh v).
Proof. unfold py_variant_of. ob_walk. Qed.
Hint Resolve py_variant_of_obliv : obl.

Lemma py_algebraic_of_obliv tk ck en sh : obliv (py_algebraic_of uc cfg tk ck en sh).
Proof. unfold py_algebraic_of. ob_walk. Qed.
Hint Resolve py_algebraic_of_obliv : obl.

Lemma py_unit_variant_of_obliv v : obliv (py_unit_variant_of uc v).
Proof. unfold py_unit_variant_of. ob_walk. Qed.
Hint Resolve py_unit_variant_of_obliv : obl.

Lemma py_decl_of_obliv it : obliv (py_decl_of uc cfg it).
Proof. unfold py_decl_of. ob_walk. Qed.

Theorem py_multi_decls_res st1 st2 pd : res (py_multi_decls uc cfg st1 pd) = res (py_multi_decls uc cfg st2 pd).
Proof.
  unfold py_multi_decls. destruct (topsort (items_of pd)) as [items| |]; cbn [bind]; [|reflexivity|reflexivity].
  pose proof (obl_items (py_decl_of uc cfg) items st1 st2 py_decl_of_obliv) as H.
  destruct (mmapM (py_decl_of uc cfg) items st1) as [[d1 t1]| |], (mmapM (py_decl_of uc cfg) items st2) as [[d2 t2]| |];
    cbn [res] in H |- *; try discriminate H; injection H as ->; reflexivity.
Qed.
End PYO.

(* ================================================================== the statements, spelled out *)

(* [same_outcome o1 o2]: the same value from possibly different final states, or the same error, or the same panic site *)
Definition same_outcome {A St} (o1 o2 : outcome (A * St)) : Prop :=
  (forall a s1, o1 = Ok (a, s1) -> exists s2, o2 = Ok (a, s2)) /\
  (forall e, o1 = Err e -> o2 = Err e) /\
  (forall p, o1 = Panic p -> o2 = Panic p).

Lemma same_outcome_of_res {A St} (o1 o2 : outcome (A * St)) : res o1 = res o2 -> same_outcome o1 o2.
Proof. apply res_eq_spelled. Qed.

Lemma same_outcome_sym {A St} (o1 o2 : outcome (A * St)) : same_outcome o1 o2 -> same_outcome o2 o1.
Proof.
  intros (H1 & H2 & H3). assert (E : res o1 = res o2).
  { destruct o1 as [[a s]|e|p].
    - destruct (H1 a s eq_refl) as (s2 & ->). reflexivity.
    - rewrite (H2 e eq_refl). reflexivity.
    - rewrite (H3 p eq_refl). reflexivity. }
  apply same_outcome_of_res. symmetry. exact E.
Qed.

(* 1. state independence: the declarations of a crate's file (or the error, or the panic site) from any two states *)
Theorem ts_multi_decls_state_independent uc cfg st1 st2 pd :
  same_outcome (ts_multi_decls uc cfg st1 pd) (ts_multi_decls uc cfg st2 pd).
Proof. apply same_outcome_of_res, ts_multi_decls_res. Qed.
Theorem sw_multi_decls_state_independent uc cfg st1 st2 pd :
  same_outcome (sw_multi_decls uc cfg st1 pd) (sw_multi_decls uc cfg st2 pd).
Proof. apply same_outcome_of_res, sw_multi_decls_res. Qed.
Theorem go_multi_decls_state_independent uc cfg st1 st2 pd :
  same_outcome (go_multi_decls uc cfg st1 pd) (go_multi_decls uc cfg st2 pd).
Proof. apply same_outcome_of_res, go_multi_decls_res. Qed.
Theorem py_multi_decls_state_independent uc cfg st1 st2 pd :
  same_outcome (py_multi_decls uc cfg st1 pd) (py_multi_decls uc cfg st2 pd).
Proof. apply same_outcome_of_res, py_multi_decls_res. Qed.

(* 2. the single-file declarations: <l>_decls is <l>_multi_decls from the initial state *)
Theorem ts_multi_same_decls uc cfg st pd : same_outcome (ts_multi_decls uc cfg st pd) (ts_decls uc cfg pd).
Proof. rewrite <- ts_multi_decls_initial. apply ts_multi_decls_state_independent. Qed.
Theorem sw_multi_same_decls uc cfg st pd : same_outcome (sw_multi_decls uc cfg st pd) (sw_decls uc cfg pd).
Proof. rewrite <- sw_multi_decls_initial. apply sw_multi_decls_state_independent. Qed.
Theorem go_multi_same_decls uc cfg st pd : same_outcome (go_multi_decls uc cfg st pd) (go_decls uc cfg pd).
Proof. rewrite <- go_multi_decls_empty. apply go_multi_decls_state_independent. Qed.
Theorem py_multi_same_decls uc cfg st pd : same_outcome (py_multi_decls uc cfg st pd) (py_decls uc cfg pd).
Proof. rewrite <- py_multi_decls_empty. apply py_multi_decls_state_independent. Qed.

(* 3. ... and the language-independent observation <l>_file_decls of the single-file generator: its declaration list
      is the observation of the folder-mode declarations - next to (Swift) the CodableVoid helper single-file mode
      appends when () was translated, which folder mode writes to Codable.swift instead, (Python) the helper entries
      for the TypeVar lines and the translation functions of the header, which are written from the state reached *)
Theorem ts_multi_file_decls uc cfg st pd ds st' :
  ts_multi_decls uc cfg st pd = Ok (ds, st') ->
  exists fd, ts_file_decls uc cfg pd = Ok fd /\ fd_decls fd = map ts_obs ds.
Proof.
  intros H. destruct (ts_multi_same_decls uc cfg st pd) as (S1 & _ & _). destruct (S1 _ _ H) as (s0 & E0).
  unfold ts_file_decls. rewrite E0. cbn [bind]. eexists. split; [reflexivity|reflexivity].
Qed.

Theorem sw_multi_file_decls uc cfg st pd ds st' :
  sw_multi_decls uc cfg st pd = Ok (ds, st') ->
  exists fd st0, sw_file_decls uc cfg pd = Ok fd /\ sw_decls uc cfg pd = Ok (ds, st0) /\
                 fd_decls fd = flat_map sw_obs ds ++ flat_map sw_obs (sw_trailing_decls cfg st0).
Proof.
  intros H. destruct (sw_multi_same_decls uc cfg st pd) as (S1 & _ & _). destruct (S1 _ _ H) as (s0 & E0).
  unfold sw_file_decls. rewrite E0. cbn [bind]. eexists. exists s0. split; [reflexivity|]. split; [reflexivity|].
  cbn [fd_decls]. apply flat_map_app.
Qed.

Theorem go_multi_file_decls uc cfg st pd ds st' :
  go_multi_decls uc cfg st pd = Ok (ds, st') ->
  exists fd, go_file_decls uc cfg pd = Ok fd /\ fd_decls fd = flat_map go_obs ds.
Proof.
  intros H. destruct (go_multi_same_decls uc cfg st pd) as (S1 & _ & _). destruct (S1 _ _ H) as (s0 & E0).
  unfold go_file_decls. rewrite E0. cbn [bind]. eexists. split; [reflexivity|reflexivity].
Qed.

Theorem py_multi_file_decls uc cfg st pd ds st' :
  py_multi_decls uc cfg st pd = Ok (ds, st') ->
  exists fd helpers, py_file_decls uc cfg pd = Ok fd /\
                     fd_decls fd = map py_helper_decl helpers ++ flat_map py_obs ds.
Proof.
  intros H. destruct (py_multi_same_decls uc cfg st pd) as (S1 & _ & _). destruct (S1 _ _ H) as (s0 & E0).
  unfold py_file_decls. rewrite E0. cbn [bind]. eexists.
  exists (py_type_variables s0 ++ flat_map (fun ct => [py_ser_name ct; py_de_name ct]) (py_translations_defined s0)).
  split; [reflexivity|]. cbn [fd_decls]. rewrite map_app, <- app_assoc. reflexivity.
Qed.

(* the converse direction: whenever single-file mode produces the declarations of a crate, folder mode produces the
   same ones from every state; and the failures agree *)
Theorem ts_single_multi_decls uc cfg st pd : same_outcome (ts_decls uc cfg pd) (ts_multi_decls uc cfg st pd).
Proof. apply same_outcome_sym, ts_multi_same_decls. Qed.
Theorem sw_single_multi_decls uc cfg st pd : same_outcome (sw_decls uc cfg pd) (sw_multi_decls uc cfg st pd).
Proof. apply same_outcome_sym, sw_multi_same_decls. Qed.
Theorem go_single_multi_decls uc cfg st pd : same_outcome (go_decls uc cfg pd) (go_multi_decls uc cfg st pd).
Proof. apply same_outcome_sym, go_multi_same_decls. Qed.
Theorem py_single_multi_decls uc cfg st pd : same_outcome (py_decls uc cfg pd) (py_multi_decls uc cfg st pd).
Proof. apply same_outcome_sym, py_multi_same_decls. Qed.

(* 4. item by item: every declaration of a folder-mode file is what the item writer returns on the corresponding
      item of the sorted crate - from the state the run had reached there, hence from EVERY state.  This is the form
      in which the per-item theorems of single-file mode (C01_back, C02_back, C03_item, C04_back .._alias, C05_site ..)
      apply to folder mode: they speak about <l>_decl_of from an arbitrary state. *)
Definition writes_from_any {St A D} (f : A -> M St D) (it : A) (d : D) : Prop := forall s, exists s', f it s = Ok (d, s').

Lemma obl_items_each {St A D} (f : A -> M St D) : (forall x, obliv (f x)) ->
  forall items s ds s', mmapM f items s = Ok (ds, s') -> Forall2 (writes_from_any f) items ds.
Proof.
  intros Hf items s ds s' H. eapply mmapM_Forall2; [|exact H].
  intros x s1 y s1' E s0. apply res_ok. rewrite (Hf x s0 s1), E. reflexivity.
Qed.

Theorem ts_multi_decls_items uc cfg st pd ds st' :
  ts_multi_decls uc cfg st pd = Ok (ds, st') ->
  exists items, topsort (items_of pd) = Ok items /\ Forall2 (writes_from_any (ts_decl_of uc cfg)) items ds.
Proof.
  unfold ts_multi_decls. destruct (topsort (items_of pd)) as [items| |]; cbn [bind]; try discriminate.
  intros H. exists items. split; [reflexivity|]. eapply obl_items_each; [apply ts_decl_of_obliv|exact H].
Qed.

Theorem sw_multi_decls_items uc cfg st pd ds st' :
  sw_multi_decls uc cfg st pd = Ok (ds, st') ->
  exists items, topsort (items_of pd) = Ok items /\ Forall2 (writes_from_any (sw_decl_of uc cfg)) items ds.
Proof.
  unfold sw_multi_decls. destruct (topsort (items_of pd)) as [items| |]; cbn [bind]; try discriminate.
  intros H. exists items. split; [reflexivity|]. eapply obl_items_each; [apply sw_decl_of_obliv|exact H].
Qed.

Theorem go_multi_decls_items uc cfg st pd ds st' :
  go_multi_decls uc cfg st pd = Ok (ds, st') ->
  exists items dss, topsort (items_of pd) = Ok items /\ ds = List.concat dss /\
    Forall2 (writes_from_any (go_decl_of uc cfg (go_types_mapping_to_struct items))) items dss.
Proof.
  unfold go_multi_decls. destruct (topsort (items_of pd)) as [items| |]; cbn [bind]; try discriminate.
  cbv zeta. intros H. apply mbind_ok in H as (u & s1 & _ & H). apply mbind_ok in H as (dss & s2 & Em & H).
  unfold ret in H. injection H as <- _. exists items, dss. split; [reflexivity|]. split; [reflexivity|].
  eapply obl_items_each; [intros x; apply go_decl_of_obliv|exact Em].
Qed.

Theorem py_multi_decls_items uc cfg st pd ds st' :
  py_multi_decls uc cfg st pd = Ok (ds, st') ->
  exists items dss, topsort (items_of pd) = Ok items /\ ds = List.concat dss /\
    Forall2 (writes_from_any (py_decl_of uc cfg)) items dss.
Proof.
  unfold py_multi_decls. destruct (topsort (items_of pd)) as [items| |]; cbn [bind]; try discriminate.
  destruct (mmapM (py_decl_of uc cfg) items st) as [[dss s1]| |] eqn:Em; try discriminate.
  intros [= <- <-]. exists items, dss. split; [reflexivity|]. split; [reflexivity|].
  eapply obl_items_each; [apply py_decl_of_obliv|exact Em].
Qed.

(* forms quoted by Props/ *)
Lemma same_outcome_meaning (A St : Type) (o1 o2 : outcome (A * St)) :
  same_outcome o1 o2 <->
  (forall a s1, o1 = Ok (a, s1) -> exists s2, o2 = Ok (a, s2)) /\
  (forall e, o1 = Err e -> o2 = Err e) /\
  (forall p, o1 = Panic p -> o2 = Panic p).
Proof. reflexivity. Qed.

Lemma ts_multi_single_both uc cfg st pd :
  same_outcome (ts_multi_decls uc cfg st pd) (ts_decls uc cfg pd) /\ same_outcome (ts_decls uc cfg pd) (ts_multi_decls uc cfg st pd).
Proof. split; [apply ts_multi_same_decls|apply ts_single_multi_decls]. Qed.
Lemma sw_multi_single_both uc cfg st pd :
  same_outcome (sw_multi_decls uc cfg st pd) (sw_decls uc cfg pd) /\ same_outcome (sw_decls uc cfg pd) (sw_multi_decls uc cfg st pd).
Proof. split; [apply sw_multi_same_decls|apply sw_single_multi_decls]. Qed.
Lemma go_multi_single_both uc cfg st pd :
  same_outcome (go_multi_decls uc cfg st pd) (go_decls uc cfg pd) /\ same_outcome (go_decls uc cfg pd) (go_multi_decls uc cfg st pd).
Proof. split; [apply go_multi_same_decls|apply go_single_multi_decls]. Qed.
Lemma py_multi_single_both uc cfg st pd :
  same_outcome (py_multi_decls uc cfg st pd) (py_decls uc cfg pd) /\ same_outcome (py_decls uc cfg pd) (py_multi_decls uc cfg st pd).
Proof. split; [apply py_multi_same_decls|apply py_single_multi_decls]. Qed.
