(* C09 in folder mode: concrete workspaces evaluated inside Coq (front end, collector, reconcile_aliases, used_imports,
   the TypeScript / Kotlin multi-file generators), next to the verdicts of Spec/C09MultiSpec.v.
   Regression pins with the exact generated text, one witness of the class C09-multi-glob-renamed, non-vacuity. *)
From Coq Require Import List Bool String.
From TS Require Import Model.Str Model.Outcome Model.Unicode Model.Syntax Model.Attrs Model.Types Model.Parse
                       Model.Reconcile Model.Collect Model.Lang.Common Model.Lang.TypeScript Model.Lang.Kotlin
                       Model.Rename Model.MultiFile.
From TS Require Model.Writer.
From TS Require Import Spec.C09Spec Spec.C09MultiSpec.
From TS Require Import Proofs.C14 Proofs.C14Front Proofs.C14Witness Proofs.C09Multi.
Import ListNotations.
Local Open Scope string_scope.

Definition wm_ts : ts_config := {| ts_type_mappings := []; ts_no_version_header := true; ts_version := [] |}.
Definition wm_kt (pfx : str) : kt_config :=
  {| kt_package := lit "p"; kt_module_name := []; kt_prefix := pfx; kt_type_mappings := []; kt_no_version_header := true; kt_version := [] |}.

(* the workspace of seeded change C09_d.  a/src/lib.rs as in Proofs/C14Witness.v (A1, A2 renamed A2Renamed, A3);
   b/src/lib.rs: use a::*;  #[typeshare] struct A2 { z: u8 }  #[typeshare] struct B1 { f: A2 } *)
Definition ws_c09d : list ws_entry :=
  [w_a; w_entry (lit "b") (w_file [w_glob (lit "a"); w_struct [] (lit "A2") [w_fld (lit "z") (w_ty (lit "u8"))];
                                   w_struct [] (lit "B1") [w_fld (lit "f") (w_ty (lit "A2"))]]
                                  [[lit "typeshare"]; [lit "u8"]; [lit "A2"]])].

(* the text of crate c's generated file: whole run (the TypeScript value is threaded through the crates) *)
Definition wm_ts_text (ws : list ws_entry) (c : str) : option str :=
  match parse_workspace uc_exec [] [] (fun l => l) ws with
  | Ok arrivals =>
    let cs := multi_crates idl arrivals in
    let r := generate_crates (fun st (_ : str) im pd => ts_generate_multi uc_exec wm_ts st im pd) [] (multi_plan TypeScript idl cs) in
    match find (fun f => str_eqb (fst f) (output_file_name TypeScript c)) (fst r) with
    | Some (_, Writer.Generated t) => Some t
    | _ => None
    end
  | _ => None
  end.
Definition wm_kt_text (pfx : str) (ws : list ws_entry) (c : str) : option str :=
  match parse_workspace uc_exec [] [] (fun l => l) ws with
  | Ok arrivals =>
    let cs := multi_crates idl arrivals in
    match crates_get cs c with
    | Some pd => match kt_generate_multi uc_exec (wm_kt pfx) c (crate_imports idl cs c pd) pd with Ok t => Some t | _ => None end
    | None => None
    end
  | _ => None
  end.

(* the specification's view of a mention of n (no generic parameters in scope) in every file of crate b:
   the crate it denotes, the name it must be spelled with, its class *)
Definition wm_spec (ws : list ws_entry) (b n : str) : list (option str * option str * option string) :=
  match parse_workspace uc_exec [] [] (fun l => l) ws with
  | Ok arrivals => map (fun f => (c9m_denotes arrivals b f n, c9m_spelling arrivals b f [] n, c9m_known arrivals b f [] n)) (c9m_files arrivals b)
  | _ => []
  end.
Definition wm_dom (ws : list ws_entry) : option (bool * option string) :=
  match parse_workspace uc_exec [] [] (fun l => l) ws with
  | Ok arrivals => Some (c9m_ids_wf arrivals, c9m_known_ws arrivals)
  | _ => None
  end.

Definition NL : str := [10%N].
Definition TAB : str := [9%N].

(* seeded change C09_d: a glob import of a crate with a renamed A2 next to the crate's OWN A2.  The mention denotes
   b's own type (a local definition shadows a glob import), is in no class, must be spelled A2 - and the model
   spells it A2; the import line lists what the glob brings in *)
Example c09d_pin :
  wm_dom ws_c09d = Some (true, None) /\
  wm_spec ws_c09d (lit "b") (lit "A2") = [(Some (lit "b"), Some (lit "A2"), None)] /\
  wm_ts_text ws_c09d (lit "b") =
    Some (lit "import { A1, A2Renamed, A3 } from ""./a"";" ++ NL ++ NL ++
          lit "export interface A2 {" ++ NL ++ TAB ++ lit "z: number;" ++ NL ++ lit "}" ++ NL ++ NL ++
          lit "export interface B1 {" ++ NL ++ TAB ++ lit "f: A2;" ++ NL ++ lit "}" ++ NL ++ NL)%list.
Proof. repeat split; vm_compute; reflexivity. Qed.

(* fix 23's former witness: `use a::A2;` / the path `a::A2`, A2 renamed A2Renamed in crate a.  The mention denotes
   a's type, in no class, must be spelled A2Renamed: reference AND import say A2Renamed, a.ts defines it *)
Definition MY_TS : str :=
  (lit "import { A2Renamed } from ""./a"";" ++ NL ++ NL ++
   lit "export interface B1 {" ++ NL ++ TAB ++ lit "f: A2Renamed;" ++ NL ++ lit "}" ++ NL ++ NL)%list.
Example renamed_import_pin :
  wm_dom ws_renamed = Some (true, None) /\ wm_dom ws_renamed_path = Some (true, None) /\
  wm_spec ws_renamed MY (lit "A2") = [(Some (lit "a"), Some (lit "A2Renamed"), None)] /\
  wm_spec ws_renamed_path MY (lit "A2") = [(Some (lit "a"), Some (lit "A2Renamed"), None)] /\
  wm_ts_text ws_renamed MY = Some MY_TS /\ wm_ts_text ws_renamed_path MY = Some MY_TS /\
  match wm_ts_text ws_renamed (lit "a") with Some t => contains_sub (lit "export interface A2Renamed {") t | None => false end = true.
Proof. repeat split; vm_compute; reflexivity. Qed.

(* Kotlin, the same workspace: without a prefix reference and import agree with the definition; with the prefix KP
   the reference is KPA2Renamed - what a.kt declares - and since fix 26 of /repo (kotlin.rs:301 write_imports prints
   the prefix) the import line names KPA2Renamed too (it used to name the unprefixed A2Renamed, which a.kt does not
   declare): exact text of my_crate.kt *)
Example renamed_import_kotlin_pin :
  wm_kt_text [] ws_renamed MY =
    Some (lit "package p.my_crate" ++ NL ++ NL ++ lit "import kotlinx.serialization.Serializable" ++ NL ++
          lit "import kotlinx.serialization.SerialName" ++ NL ++ NL ++ lit "import p.a.A2Renamed" ++ NL ++ NL ++
          lit "@Serializable" ++ NL ++ lit "data class B1 (" ++ NL ++ TAB ++ lit "val f: A2Renamed" ++ NL ++ lit ")" ++ NL ++ NL)%list /\
  wm_kt_text (lit "KP") ws_renamed MY =
    Some (lit "package p.my_crate" ++ NL ++ NL ++ lit "import kotlinx.serialization.Serializable" ++ NL ++
          lit "import kotlinx.serialization.SerialName" ++ NL ++ NL ++ lit "import p.a.KPA2Renamed" ++ NL ++ NL ++
          lit "@Serializable" ++ NL ++ lit "data class KPB1 (" ++ NL ++ TAB ++ lit "val f: KPA2Renamed" ++ NL ++ lit ")" ++ NL ++ NL)%list /\
  match wm_kt_text (lit "KP") ws_renamed MY with
  | Some t => negb (contains_sub (lit "import p.a.A2Renamed") t)
  | None => false
  end = true /\
  match wm_kt_text (lit "KP") ws_renamed (lit "a") with Some t => contains_sub (lit "data class KPA2Renamed (") t | None => false end = true.
Proof. repeat split; vm_compute; reflexivity. Qed.

(* class C09-multi-glob-renamed is needed: `use a::*;` and a reference to a's renamed A2, no A2 of its own.  The
   mention denotes a's type, which a.ts defines as A2Renamed (and the import line lists under that name); the model
   - like the real tool - writes `f: A2` *)
Example glob_renamed_refuted :
  wm_dom ws_glob_renamed = Some (true, Some "C09-multi-glob-renamed") /\
  wm_spec ws_glob_renamed MY (lit "A2") = [(Some (lit "a"), Some (lit "A2Renamed"), Some "C09-multi-glob-renamed")] /\
  wm_ts_text ws_glob_renamed MY =
    Some (lit "import { A1, A2Renamed, A3 } from ""./a"";" ++ NL ++ NL ++
          lit "export interface B1 {" ++ NL ++ TAB ++ lit "f: A2;" ++ NL ++ lit "}" ++ NL ++ NL)%list.
Proof. repeat split; vm_compute; reflexivity. Qed.
