(* C03 for TypeScript: every item yields exactly one definition listing exactly the IR's members /
   variants (struct variants inline, with exactly their fields), and a generated file contains one
   definition per parsed item. *)
From Coq Require Import String List Bool Arith Lia Permutation.
From TS Require Import Model.Str Model.Outcome Model.Unicode Model.Types Model.Parse Model.TopsortAlgo Model.Topsort
                       Model.Lang.Common Model.Lang.Decl Model.Lang.TypeScript.
From TS Require Import Spec.C03Spec.
From TS Require Import Proofs.BackCommon Proofs.C01_TS Proofs.C03Back.
Import ListNotations.

Section TS.
Variable uc : unicode.
Variable cfg : ts_config.

Lemma ts_members_keys generics fs st ms st' : mmapM (ts_member_of cfg generics) fs st = Ok (ms, st') ->
  c03_member_keys (map ts_obs_member ms) = c03_keys_of fs.
Proof.
  intros H. apply member_keys_Forall2. eapply mmapM_Forall2; [|exact H].
  intros f s m s' Hf. cbn [ts_obs_member mb_key]. now rewrite (ts_member_key cfg _ _ _ _ _ Hf).
Qed.

Lemma ts_variant_rel generics v st tv st' : ts_variant_of cfg generics false v st = Ok (tv, st') ->
  vrel TypeScript v (ts_obs_variant tv).
Proof.
  destruct v as [sh|t sh|fs sh]; cbn [ts_variant_of]; intros H.
  - unfold ret in H. injection H as <- _. repeat split.
  - apply mbind_ok in H as (ty & s1 & _ & H). unfold ret in H. injection H as <- _. repeat split.
  - apply mbind_ok in H as (ms & s1 & Hm & H). unfold ret in H. injection H as <- _.
    repeat split. cbn [ts_obs_variant c03_inline_keys vd_payload c03_inlines]. now rewrite (ts_members_keys _ _ _ _ _ Hm).
Qed.

Theorem ts_item it st d st' : ts_decl_of uc cfg it st = Ok (d, st') ->
  map c03_sig_of [ts_obs d] = c03_expected_sigs TypeScript it /\ c03_payloads_ok TypeScript it [ts_obs d] = true.
Proof.
  destruct it as [s|e|a|c]; cbn [ts_decl_of]; intros H.
  - apply mbind_ok in H as (ms & s1 & Hm & H). unfold ret in H. injection H as <- _.
    split; [|reflexivity]. cbn [map c03_expected_sigs]. f_equal.
    apply sig_of_struct; [reflexivity|]. cbn [ts_obs d_members]. exact (ts_members_keys _ _ _ _ _ Hm).
  - destruct e as [sh|tag content sh].
    + apply mbind_ok in H as (vs & s1 & Hm & H). unfold ret in H. injection H as <- _.
      assert (F : Forall2 (vrel TypeScript) (evariants sh)
                    (d_variants (ts_obs (TSUnitEnum (ecomments sh) (renamed (eid sh)) (egenerics sh) vs)))).
      { cbn [ts_obs d_variants]. apply Forall2_map_r'. eapply mmapM_Forall2; [|exact Hm].
        intros v s0 [[vdocs case] wire] s0' Hv. destruct v as [vsh|t vsh|fs vsh]; try discriminate.
        unfold ret in Hv. injection Hv as <- <- <- _. repeat split. }
      destruct (sig_of_enum TypeScript _ _ F eq_refl) as [E P].
      split.
      * cbn [map c03_expected_sigs enum_shared c03_inlines app]. now rewrite E.
      * exact (payloads_ok_enum TypeScript (EUnit sh) [] _ eq_refl P).
    + apply mbind_ok in H as (vs & s1 & Hm & H). unfold ret in H. injection H as <- _.
      assert (F : Forall2 (vrel TypeScript) (evariants sh)
                    (d_variants (ts_obs (TSUnion (ecomments sh) (renamed (eid sh)) (egenerics sh) tag content vs)))).
      { cbn [ts_obs d_variants]. apply Forall2_map_r'. eapply mmapM_Forall2; [|exact Hm].
        intros v s0 tv s0' Hv. exact (ts_variant_rel _ _ _ _ _ Hv). }
      destruct (sig_of_enum TypeScript _ _ F eq_refl) as [E P].
      split.
      * cbn [map c03_expected_sigs enum_shared c03_inlines c03_enum_helper app]. now rewrite E.
      * exact (payloads_ok_enum TypeScript (EAlgebraic tag content sh) [] _ eq_refl P).
  - apply mbind_ok in H as (ty & s1 & _ & H). unfold ret in H. injection H as <- _. split; reflexivity.
  - apply mbind_ok in H as (ty & s1 & _ & H). unfold ret in H. injection H as <- _. split; reflexivity.
Qed.

Theorem ts_item_good it st d st' : ts_decl_of uc cfg it st = Ok (d, st') ->
  good_C03_item TypeScript it [ts_obs d] = true.
Proof. intros H. destruct (ts_item it st d st' H). now apply item_good. Qed.

(* the whole file: one definition per parsed item (struct variants inline), nothing else *)
Theorem ts_file pd fd : ts_file_decls uc cfg pd = Ok fd -> good_C03_file TypeScript pd fd = true.
Proof.
  unfold ts_file_decls, ts_decls. intros H.
  destruct (topsort (items_of pd)) as [items| |] eqn:Et; cbn [bind] in H; try discriminate.
  destruct (mmapM (ts_decl_of uc cfg) items []) as [[ds st]| |] eqn:Em; cbn [bind] in H; try discriminate.
  injection H as <-. unfold good_C03_file. cbn [fd_decls].
  pose proof (topsort_perm _ _ Et) as P.
  assert (F : Forall2 (fun it sg => sg = c03_expected_sigs TypeScript it) items (map (fun d => [c03_sig_of (ts_obs d)]) ds)).
  { apply Forall2_map_r'. eapply mmapM_Forall2; [|exact Em].
    intros it s d s' Hd. destruct (ts_item it s d s' Hd) as [E _]. exact E. }
  pose proof (file_good TypeScript (items_of pd) items _ [] [] P F eq_refl eq_refl) as G.
  cbn [app] in G. rewrite app_nil_r in G.
  replace (map c03_sig_of (map ts_obs ds)) with (List.concat (map (fun d => [c03_sig_of (ts_obs d)]) ds)); [exact G|].
  clear. induction ds as [|d ds IH]; cbn [map List.concat app]; [reflexivity|]. now rewrite IH.
Qed.
End TS.
