(* C05, Go use sites under EVERY alphanumeric uppercase_acronyms list (ASCII type names and type_mappings
   values): struct fields, struct-variant fields and tuple-variant payloads pass their printed type through
   acronyms_to_uppercase (go.rs:512, go.rs:360).  By Proofs/GoAcronyms.v that textual rewrite is the type tree
   rewritten name by name, so the observed member type is

       c05_go_acronyms acrs (c05_erase Go cfg generics declared_type)

   - the translation of the declared type with every name (user type, generic parameter, configured name of a
   type mapping) replaced by its acronym rewrite, which only changes the ASCII case of letters: the shape, the
   order of the generic arguments and the place of every name are those of the translation.  Nothing panics. *)
From Coq Require Import String List Bool Lia ZArith.
From TS Require Import Model.Str Model.Outcome Model.Unicode Model.Rename Model.Syntax Model.Types Model.Lang.Common Model.Lang.Decl
                       Model.Lang.Go Spec.C05Spec Proofs.C05 Proofs.C05_Back Proofs.C05_Sites Proofs.GoAcronyms.
From TS Require Spec.C02Spec.
Import ListNotations.

(* ------------------------------------------------------------------ the spec-level rewrite *)
(* Spec.C02Spec.c02_go_rewrite is, definition by definition, the closed form of Proofs/GoAcronyms.v *)
Lemma c05_rw_is_T cfg s : C02Spec.c02_go_rewrite (go_uppercase_acronyms cfg) s = ga_T cfg s.
Proof. reflexivity. Qed.

(* ... which is what the model (go.rs:579) computes on ASCII input, without panicking *)
Theorem C05_go_rewrite_is_model uc : unicode_ok uc -> forall acrs name,
  forallb (forallb is_ascii) acrs = true -> forallb is_ascii name = true ->
  go_convert_acronyms_to_uppercase uc acrs name = Ok (C02Spec.c02_go_rewrite acrs name).
Proof.
  intros Huc acrs name Ha Hn.
  exact (ga_convert uc Huc acrs name (ga_ascii_list_b _ Ha) (proj1 (ga_ascii_b name) Hn)).
Qed.

(* the rewrite of one name: same length, same letters up to ASCII case - for EVERY acronym list and name *)
Theorem C05_go_rewrite_case_only acrs n :
  List.length (C02Spec.c02_go_rewrite acrs n) = List.length n /\
  str_upper_ascii (C02Spec.c02_go_rewrite acrs n) = str_upper_ascii n.
Proof.
  change (C02Spec.c02_go_rewrite acrs n) with (ga_result (map to_pascal_case acrs) n). unfold ga_result.
  split; [apply ga_apply_length|apply ga_apply_upper].
Qed.

(* a name without lowercase letters (an all-capitals user type, a generic parameter T) is left alone *)
Theorem C05_go_rewrite_no_lower acrs n :
  forallb (fun c => negb (is_alower c)) n = true -> C02Spec.c02_go_rewrite acrs n = n.
Proof.
  intros H. change (C02Spec.c02_go_rewrite acrs n) with (ga_result (map to_pascal_case acrs) n).
  apply ga_result_no_lower. apply Forall_forall. intros c Hc. rewrite forallb_forall in H. specialize (H c Hc).
  now apply negb_true_iff in H.
Qed.

(* the rewrite of a type expression keeps its shape: generic arguments stay, each rewritten, in order; a
   configured name stays where the mapped type stood (its case may change); containers are untouched *)
Theorem C05_go_acronyms_shape acrs :
  (forall n args, c05_go_acronyms acrs (XName n args) = XName (C02Spec.c02_go_rewrite acrs n) (map (c05_go_acronyms acrs) args)) /\
  (forall n, c05_go_acronyms acrs (XRaw n) = XRaw (C02Spec.c02_go_rewrite acrs n)) /\
  (forall e, c05_go_acronyms acrs (XSeq e) = XSeq (c05_go_acronyms acrs e)) /\
  (forall k v, c05_go_acronyms acrs (XMap k v) = XMap (c05_go_acronyms acrs k) (c05_go_acronyms acrs v)) /\
  (forall e, c05_go_acronyms acrs (XOpt e) = XOpt (c05_go_acronyms acrs e)).
Proof. repeat split. Qed.

(* no acronyms: nothing is rewritten *)
Lemma c05_map_names_id T x : (forall s, T s = s) -> c05_map_names T x = x.
Proof.
  intros HT. revert x. fix IH 1. intros [n args|e|es|k v|e|s]; cbn [c05_map_names].
  - rewrite HT. f_equal. induction args as [|a r IHr]; [reflexivity|]. cbn [map]. now rewrite IH, IHr.
  - now rewrite IH.
  - f_equal. induction es as [|a r IHr]; [reflexivity|]. cbn [map]. now rewrite IH, IHr.
  - now rewrite !IH.
  - now rewrite IH.
  - now rewrite HT.
Qed.

Theorem C05_go_acronyms_nil x : c05_go_acronyms [] x = x.
Proof.
  apply c05_map_names_id. intros s. change (C02Spec.c02_go_rewrite [] s) with (ga_result [] s).
  unfold ga_result. apply ga_apply_false. reflexivity.
Qed.

Theorem C05_good_site_go_nil c s g t obs : good_C05_site_go [] c s g t obs = good_C05_site Go c s g t obs.
Proof.
  unfold good_C05_site_go, good_C05_site, good_C05, c05_go_expected. destruct obs as [x|]; [|reflexivity].
  destruct (c05_go_site_rewritten s); [now rewrite C05_go_acronyms_nil|reflexivity].
Qed.

(* ------------------------------------------------------------------ observation of a rewritten tree *)
Lemma go_obs_ty_map T x : go_obs_ty (ga_ty_map T x) = c05_map_names T (go_obs_ty x).
Proof.
  induction x as [n args IH|e IH|n e IH|k v IHk IHv|e IH|s] using ga_go_ty_ind; cbn [ga_ty_map go_obs_ty c05_map_names].
  - f_equal. rewrite !map_map. induction IH as [|a r Ha _ IHr]; [reflexivity|]. cbn [map]. now rewrite Ha, IHr.
  - now rewrite IH.
  - now rewrite IH.
  - now rewrite IHk, IHv.
  - now rewrite IH.
  - reflexivity.
Qed.

Section GOACR.
Variable uc : unicode.
Hypothesis Huc : unicode_ok uc.
Variable cfg : go_config.
Hypothesis Hacr : forallb (forallb ga_alnum) (go_uppercase_acronyms cfg) = true.
Notation c := (c05_go_cfg cfg).
Notation erase := (c05_erase Go (c05_go_cfg cfg)).
Notation acrs := (go_uppercase_acronyms cfg).

Let Hasc : Forall ga_ascii acrs := proj1 (ga_alnum_list_b _ Hacr).

(* acronyms_to_uppercase of an ASCII name: never panics, state untouched *)
Lemma go_acr_text_ok name st : forallb is_ascii name = true ->
  go_acronyms_to_uppercase uc cfg name st = Ok (ga_T cfg name, st).
Proof.
  intros Hn. unfold go_acronyms_to_uppercase, go_lift.
  rewrite (ga_convert uc Huc acrs name Hasc (proj1 (ga_ascii_b name) Hn)). reflexivity.
Qed.

Lemma go_pascal_asciib s : forallb is_ascii s = true -> forallb is_ascii (to_pascal_case s) = true.
Proof. intros H. apply ga_ascii_b. apply ga_pascal_ascii. now apply ga_ascii_b. Qed.

(* the type of ONE translated and rewritten type expression *)
Lemma go_texp_acr g t : dom_C05 t = true -> known_C05 Go c g t = None -> ga_texp_asciib cfg t = true ->
  runs_sat (mbind (go_texp cfg g t) (go_acronyms_ty uc cfg))
           (fun y => go_obs_ty y = c05_go_acronyms acrs (erase g t)).
Proof.
  intros Hd Hk Ha st. destruct (C05_fmt_go cfg g t Hd Hk st) as [x [s1 [E Hx]]].
  unfold mbind. rewrite E.
  assert (Hax : ga_ascii (go_show x)).
  { unfold ga_texp_asciib in Ha. apply andb_true_iff in Ha as [Hm Hi]. exact (ga_texp_ascii cfg g t Hm Hi st x s1 E). }
  rewrite (ga_acronyms_ty uc Huc cfg Hacr x s1 Hax). do 2 eexists. split; [reflexivity|].
  rewrite go_obs_ty_map, Hx. reflexivity.
Qed.

(* a field: in the quantifier, outside the classes, not overridden; ASCII type names / mapped names / field name *)
Definition c05_go_field_ok (g : list str) (f : rfield) : Prop :=
  c05_field_ok Go c g f /\ ga_texp_asciib cfg (fty f) = true /\ forallb is_ascii (original (fid f)) = true.

Lemma go_member_type_acr g f : c05_go_field_ok g f ->
  runs_sat (go_member_of uc cfg g f) (fun mm => go_obs_ty (gm_type mm) = c05_go_acronyms acrs (erase g (fty f))).
Proof.
  intros [[Hd [Hk Ho]] [Ha Hn]] st. unfold go_member_of. rewrite Ho.
  destruct (go_texp_acr g (fty f) Hd Hk Ha st) as [y [s2 [E Hy]]].
  unfold mbind in E |- *. destruct (go_texp cfg g (fty f) st) as [[x s1]| |]; try discriminate. rewrite E.
  unfold go_format_field_name. rewrite (go_acr_text_ok _ s2 (go_pascal_asciib _ Hn)). unfold ret.
  do 2 eexists. split; [reflexivity|]. exact Hy.
Qed.

(* write_struct: every member type is the rewritten translation under the struct's generics *)
Theorem C05_site_go_struct_acr rs :
  forallb is_ascii (renamed (sid rs)) = true ->
  Forall (c05_go_field_ok (sgenerics rs)) (sfields rs) ->
  runs_sat (go_struct_decl_of uc cfg rs)
           (fun d => exists docs name ms, d = GOStruct docs name (sgenerics rs) ms /\
                     map (fun mm => go_obs_ty (gm_type mm)) ms =
                     map (fun f => c05_go_acronyms acrs (erase (sgenerics rs) (fty f))) (sfields rs)).
Proof.
  intros Hn Hall. unfold go_struct_decl_of.
  eapply sat_bind with (P := fun _ => True).
  { intros st. rewrite (go_acr_text_ok _ st Hn). eauto. }
  intros name _.
  eapply sat_bind.
  { apply (mmapM_sat (go_member_of uc cfg (sgenerics rs))
                     (fun f mm => go_obs_ty (gm_type mm) = c05_go_acronyms acrs (erase (sgenerics rs) (fty f)))).
    intros f Hf. apply go_member_type_acr. rewrite Forall_forall in Hall. auto. }
  intros ms Hms. apply sat_ret. do 3 eexists. split; [reflexivity|].
  now apply (Forall2_map_eq (sfields rs) ms (fun mm => go_obs_ty (gm_type mm))
                            (fun f => c05_go_acronyms acrs (erase (sgenerics rs) (fty f)))).
Qed.

(* the helper struct of a struct variant: its fields are rewritten translations under the ENUM's generics *)
Lemma c05_go_field_ok_anon eg fields f : In f fields -> c05_go_field_ok eg f -> c05_go_field_ok (anon_struct_generics eg fields) f.
Proof. intros Hf [H1 H2]. split; [now apply c05_field_ok_anon|exact H2]. Qed.

Theorem C05_site_go_variant_fields_acr sh name vo fields :
  forallb is_ascii name = true ->
  Forall (c05_go_field_ok (egenerics sh)) fields ->
  runs_sat (go_struct_decl_of uc cfg (anon_struct sh name vo fields))
           (fun d => exists docs n gs ms, d = GOStruct docs n gs ms /\
                     map (fun mm => go_obs_ty (gm_type mm)) ms =
                     map (fun f => c05_go_acronyms acrs (erase (egenerics sh) (fty f))) fields).
Proof.
  intros Hn Hall st.
  assert (Hall' : Forall (c05_go_field_ok (sgenerics (anon_struct sh name vo fields))) (sfields (anon_struct sh name vo fields))).
  { cbn [sgenerics sfields anon_struct]. apply Forall_forall. intros f Hf. apply c05_go_field_ok_anon; [exact Hf|].
    rewrite Forall_forall in Hall. auto. }
  destruct (C05_site_go_struct_acr (anon_struct sh name vo fields) Hn Hall' st) as [d [s' [E [docs [n [ms [-> Hm]]]]]]].
  do 2 eexists. split; [exact E|]. do 4 eexists. split; [reflexivity|].
  cbn [sgenerics sfields anon_struct] in Hm. rewrite Hm.
  apply map_ext_in. intros f Hf. now rewrite (c05_erase_anon Go c (egenerics sh) fields f Hf).
Qed.

(* a tuple-variant payload (go.rs:332 formats it with NO generics, go.rs:360 rewrites it) *)
Theorem C05_site_go_payload_acr sh cs sn tk t vsh :
  dom_C05 t = true -> known_C05 Go c [] t = None -> ga_texp_asciib cfg t = true ->
  forallb is_ascii (original (vid vsh)) = true -> forallb is_ascii tk = true ->
  runs_sat (go_variant_of uc cfg sh cs sn tk (VTuple t vsh))
           (fun v => exists ty p, gv_content v = GCType ty p /\ go_obs_ty ty = c05_go_acronyms acrs (erase (egenerics sh) t)).
Proof.
  intros Hd Hk Ha Hvn Htk st. unfold go_variant_of. cbn [variant_shared].
  unfold mbind at 1. rewrite (go_acr_text_ok _ st Hvn).
  unfold mbind at 1. unfold mbind at 1.
  destruct (C05_fmt_go cfg [] t Hd Hk st) as [x [s1 [E Hx]]]. rewrite E. unfold ret at 1.
  unfold mbind at 1. rewrite (go_acr_text_ok _ s1 (go_pascal_asciib _ Htk)).
  unfold mbind at 1. unfold mbind at 1.
  assert (Hax : ga_ascii (go_show x)).
  { unfold ga_texp_asciib in Ha. apply andb_true_iff in Ha as [Hm Hi]. exact (ga_texp_ascii cfg [] t Hm Hi st x s1 E). }
  rewrite (ga_acronyms_ty uc Huc cfg Hacr x s1 Hax). unfold ret.
  do 2 eexists. split; [reflexivity|]. cbn [gv_content]. do 2 eexists. split; [reflexivity|].
  rewrite go_obs_ty_map, Hx. unfold c05_go_acronyms. f_equal. apply C05_go_generics_immaterial.
Qed.
End GOACR.

Lemma c05_go_field_ok_unfold cfg g f :
  c05_go_field_ok cfg g f <->
  (c05_field_ok Go (c05_go_cfg cfg) g f /\ ga_texp_asciib cfg (fty f) = true /\ forallb is_ascii (original (fid f)) = true).
Proof. reflexivity. Qed.

(* ------------------------------------------------------------------ tie to the verdict the check evaluates *)
(* the observation the theorems give satisfies good_C05_site_go at the rewritten sites ... *)
Lemma c05_texp_eqb_refl x : c05_texp_eqb x x = true.
Proof.
  revert x. fix IH 1. intros [n args|e|es|k v|e|s]; cbn [c05_texp_eqb].
  - rewrite str_eqb_refl. cbn [andb]. induction args as [|a r IHr]; [reflexivity|]. now rewrite IH, IHr.
  - apply IH.
  - induction es as [|a r IHr]; [reflexivity|]. now rewrite IH, IHr.
  - now rewrite !IH.
  - apply IH.
  - apply str_eqb_refl.
Qed.

Theorem C05_good_site_go_of_obs acrs c s g t x :
  c05_go_site_rewritten s = true -> x = c05_go_acronyms acrs (c05_erase Go c (c05_site_generics s g) t) ->
  good_C05_site_go acrs c s g t (Some x) = true.
Proof. intros Hs ->. unfold good_C05_site_go, c05_go_expected. rewrite Hs. apply c05_texp_eqb_refl. Qed.

(* non-vacuity, with a real rewrite below containers, of a mapped name and of a generic parameter:
   struct S<TId> { a: Option<Vec<UserId>>, b: HashMap<String, Url>, c: TId, d: Mapped } under
   uppercase_acronyms = [ID, url] (ID given in upper case: its PascalCase form Id is what is searched) and
   type_mappings Mapped -> ApiUrl:  *[]UserID, map[string]URL, TID (the parameter is rewritten at its use but
   declared TId: C09-go-acronym-generic), ApiURL *)
Example C05_site_go_struct_acr_nonvacuous :
  let cfg := {| go_package := lit "p"; go_type_mappings := [(lit "Mapped", lit "ApiUrl")]; go_uppercase_acronyms := [lit "ID"; lit "url"];
                go_no_version_header := true; go_no_pointer_slice := false; go_version := [] |} in
  let fld n t := {| fid := {| original := lit n; renamed := lit n; via_serde_rename := false |}; fty := t; fcomments := [];
                    has_default := false; fdecs := [] |} in
  let rs := {| sid := {| original := lit "S"; renamed := lit "S"; via_serde_rename := false |}; sgenerics := [lit "TId"];
               sfields := [fld "a"%string (ROption (RVec (RSimple (lit "UserId")))); fld "b"%string (RHashMap (RPrim PString) (RSimple (lit "Url")));
                           fld "c"%string (RSimple (lit "TId")); fld "d"%string (RSimple (lit "Mapped"))];
               scomments := []; sdecs := []; sredacted := false |} in
  forallb (forallb ga_alnum) (go_uppercase_acronyms cfg) = true /\
  forallb is_ascii (renamed (sid rs)) = true /\
  forallb (fun f => dom_C05 (fty f) && match known_C05 Go (c05_go_cfg cfg) (sgenerics rs) (fty f) with None => true | _ => false end &&
                    match type_override f Go with None => true | _ => false end &&
                    ga_texp_asciib cfg (fty f) && forallb is_ascii (original (fid f))) (sfields rs) = true /\
  map (fun f => c05_go_acronyms (go_uppercase_acronyms cfg) (c05_erase Go (c05_go_cfg cfg) (sgenerics rs) (fty f))) (sfields rs) =
  [XOpt (XSeq (XName (lit "UserID") [])); XMap (XName (lit "string") []) (XName (lit "URL") []); XName (lit "TID") []; XRaw (lit "ApiURL")].
Proof. vm_compute. repeat split; reflexivity. Qed.
