(* C10 for Swift, String-backed (unit) enums whose variant name starts with a digit once camelCased (fix 31 of /repo: the
   `RustEnum::Unit` arm of swift.rs write_enum_variants puts `_` in front of such a name, as the algebraic arm always did).

   The regression pins of the former witness `#[typeshare] pub enum U { _1st, _2nd }`: the exact text of the model (`case _1st`,
   `case _2nd`: the case name equals the wire name again, so there is no raw value), lexically good, recognised; the observed wire
   names are still the serde names; with `#[serde(rename = "x")]` the case keeps its raw value (`case _1st = "x"`); the text the
   unrepaired code printed (`case 1st = "_1st"`) is lexically good but rejected by the recogniser. *)
From Coq Require Import List Bool Lia ZifyBool ZifyN NArith String.
From TS Require Import Model.Str Model.Outcome Model.Unicode Model.Types Model.Parse Model.Rename Model.Lang.Common Model.Lang.Decl Model.Lang.Swift.
From TS Require Import Spec.C10Spec Spec.C10TsGrammar Spec.C10SwGrammar Proofs.C10_SWGrammar.
From TS Require Proofs.BackCommon Proofs.C10Lex Proofs.C10Common Proofs.C10_TSFile Proofs.C10_SWGrammarTok.
From TS Require Proofs.C10_SWFile Proofs.C10_SWGrammarFile Proofs.C10_SWKeys.
Import ListNotations.
Local Open Scope N_scope.
Import Proofs.C10_SWGrammarFile.

(* ------------------------------------------------------------------ (1) from the IR: the case name of every variant of a
   String-backed enum is an identifier of the Swift grammar *)
Lemma ident_char_id_char c : c10_ident_char c = true -> c10_sw_id_char c = true.
Proof. unfold c10_ident_char, c10_sw_id_char, c10_sw_id_head. lia. Qed.

Lemma ident_char_head c : c10_ident_char c = true -> is_adigit c = false -> c10_sw_id_head c = true.
Proof. unfold c10_ident_char, c10_sw_id_head. lia. Qed.

(* swift.rs:565-580 (and :599-613 of the algebraic arm): the digit prefix turns identifier characters into an identifier *)
Lemma digit_prefix_ident (camel : str) : forallb c10_ident_char camel = true -> camel <> [] ->
  Proofs.C10_SWGrammarTok.c10_sw_ident_ok (match camel with c :: _ => if is_adigit c then lit "_" ++ camel else camel | [] => camel end) = true.
Proof.
  intros H Hne. destruct camel as [|c r]; [congruence|]. cbn [forallb] in H. apply andb_true_iff in H as [Hc Hr].
  assert (Hr' : forallb c10_sw_id_char r = true) by (revert Hr; apply Proofs.C10Lex.forallb_impl; exact ident_char_id_char).
  destruct (is_adigit c) eqn:Ed.
  - change (lit "_" ++ c :: r) with (ch_us :: c :: r). unfold Proofs.C10_SWGrammarTok.c10_sw_ident_ok. cbn [forallb].
    rewrite (ident_char_id_char _ Hc), Hr'. reflexivity.
  - unfold Proofs.C10_SWGrammarTok.c10_sw_ident_ok. now rewrite (ident_char_head _ Hc Ed), Hr'.
Qed.

Lemma sw_unit_case_ident (uc : unicode) (v : rvariant) (st : sw_state) sv st' :
  c10_ident_ok (original (vid (variant_shared v))) = true ->
  sw_unit_variant_of uc v st = Ok (sv, st') -> swv_name sv <> [] ->
  Proofs.C10_SWGrammarTok.c10_sw_ident_ok (swv_name sv) = true.
Proof.
  intros Hid H. unfold sw_unit_variant_of in H. cbv zeta in H. apply Proofs.BackCommon.mbind_ok in H as (camel & s1 & Hc & H).
  unfold ret in H. injection H as <- _. cbn [swv_name]. intros Hne.
  unfold sw_lift in Hc. destruct (to_camel_case (original (vid (variant_shared v)))) as [r| |] eqn:E; try discriminate.
  injection Hc as -> _.
  assert (Hchars : forallb c10_ident_char camel = true).
  { revert E. unfold to_camel_case.
    pose proof (Proofs.C10Common.to_pascal_ident _ (Proofs.C10_TSFile.ident_ok_chars _ Hid)) as Hp.
    destruct (to_pascal_case (original (vid (variant_shared v)))) as [|c t]; intros E; injection E as <-; [reflexivity|].
    cbn [forallb] in *. apply andb_true_iff in Hp as [Hc Ht]. now rewrite (Proofs.C10_TSFile.alower_ident c Hc), Ht. }
  apply digit_prefix_ident; [exact Hchars|]. intros ->. apply Hne. reflexivity.
Qed.

(* the hypotheses are satisfiable, by a digit-initial name and by a plain one; without the prefix the first is no identifier *)
Example sw_unit_case_ident_nonvacuous :
  exists sv sv' st st',
    c10_ident_ok (lit "_1st") = true /\
    sw_unit_variant_of uc_exec (VUnit {| vid := w_id "_1st"; vcomments := [] |}) false = Ok (sv, st) /\ swv_name sv = lit "_1st" /\
    sw_unit_variant_of uc_exec (VUnit {| vid := w_id "FirstOne"; vcomments := [] |}) false = Ok (sv', st') /\ swv_name sv' = lit "firstOne" /\
    Proofs.C10_SWGrammarTok.c10_sw_ident_ok (lit "1st") = false.
Proof. do 4 eexists. repeat (split; [vm_compute; reflexivity|]). vm_compute. reflexivity. Qed.

(* ------------------------------------------------------------------ (2) the former witness *)
Definition u_cfg : sw_config := Proofs.C10_SWKeys.k_cfg.

Definition u_enum (variants : list rvariant) : parsed :=
  {| p_structs := [];
     p_enums := [EUnit {| eid := w_id "U"; egenerics := []; ecomments := []; evariants := variants;
                          edecs := []; erecursive := false; eredacted := false |}];
     p_aliases := []; p_consts := []; p_type_names := []; p_errors := []; p_imports := [] |}.

(* #[typeshare] pub enum U { _1st, _2nd } *)
Definition u_prog : parsed :=
  u_enum [VUnit {| vid := w_id "_1st"; vcomments := [] |}; VUnit {| vid := w_id "_2nd"; vcomments := [] |}].
(* #[typeshare] pub enum U { #[serde(rename = "x")] _1st, _2nd } *)
Definition u_prog_renamed : parsed :=
  u_enum [VUnit {| vid := {| original := lit "_1st"; renamed := lit "x"; via_serde_rename := true |}; vcomments := [] |};
          VUnit {| vid := w_id "_2nd"; vcomments := [] |}].

Definition u_text_with (case1 case2 : string) : str :=
  lit "import Foundation" ++ sw_nl ++ sw_nl ++
  lit "public enum U: String, Codable {" ++ sw_nl ++
  lit "	case " ++ lit case1 ++ sw_nl ++
  lit "	case " ++ lit case2 ++ sw_nl ++
  lit "}" ++ sw_nl.

(* the file of the repaired code, the file the unrepaired code printed, the file of the renamed variant *)
Definition u_text : str := u_text_with "_1st" "_2nd".
Definition u_text_before : str := u_text_with "1st = ""_1st""" "2nd = ""_2nd""".
Definition u_text_renamed : str := u_text_with "_1st = ""x""" "_2nd".

(* regression pin of fix 31: the witness is in the domain and in no finding class; the model prints exactly [u_text]; that text is
   lexically good and a file of the Swift grammar with 2 declarations (the import and the enum); the observation reports the case
   names `_1st`, `_2nd` and, as wire names, the serde names (equal to them here); the renamed variant prints `case _1st = "x"`,
   recognised too, wire names `x`, `_2nd`.  The text of the unrepaired code - `case 1st = "_1st"` - is lexically good all the
   same but NOT in the grammar: that is what the check reports on the unrepaired code. *)
Lemma swift_unit_digit_fixed :
  exists fd fdr,
    Proofs.C10_SWFile.c10_sw_cfg_ok u_cfg = true /\ dom_C10 CSW u_prog = true /\ known_C10 CSW [] u_prog = [] /\
    sw_generate uc_exec u_cfg u_prog = Ok u_text /\
    good_C10_lex CSW u_text = true /\ c10_sw_recognise u_text = Some 2%nat /\
    sw_file_decls uc_exec u_cfg u_prog = Ok fd /\
    map (fun d => map vd_name (d_variants d)) (fd_decls fd) = [[lit "_1st"; lit "_2nd"]] /\
    map (fun d => map vd_wire (d_variants d)) (fd_decls fd) = [[lit "_1st"; lit "_2nd"]] /\
    dom_C10 CSW u_prog_renamed = true /\ known_C10 CSW [] u_prog_renamed = [] /\
    sw_generate uc_exec u_cfg u_prog_renamed = Ok u_text_renamed /\
    good_C10_lex CSW u_text_renamed = true /\ c10_sw_recognise u_text_renamed = Some 2%nat /\
    sw_file_decls uc_exec u_cfg u_prog_renamed = Ok fdr /\
    map (fun d => map vd_wire (d_variants d)) (fd_decls fdr) = [[lit "x"; lit "_2nd"]] /\
    good_C10_lex CSW u_text_before = true /\ c10_sw_recognise u_text_before = None.
Proof. do 2 eexists. repeat (split; [vm_compute; reflexivity|]). vm_compute. reflexivity. Qed.
