(* C10 for TypeScript, the lexical half, complete:
     - [ts_render_decl_bal]: the text of every declaration whose names are neutral tokens, whose doc lines
       are safe and whose verbatim parts are c10_balanced is a neutral code fragment (all brackets, strings and
       comments it opens are closed) - a statement about the LAYOUT layer, for all declarations;
     - [c10_ts_decl_of_ok]: the DECISION layer produces such declarations from every IR item of the domain
       (identifier-shaped names, key-shaped renames, safe docs, c10_balanced overrides / type mappings);
     - [C10_lex_ts]: hence every file ts_generate produces on a program of the domain is c10_balanced. *)
From Coq Require Import List Bool Lia ZifyBool ZifyN NArith Permutation.
From TS Require Import Model.Str Model.Outcome Model.Unicode Model.Types Model.Parse Model.Rename Model.TopsortAlgo Model.Topsort
                       Model.Lang.Common Model.Lang.Decl Model.Lang.TypeScript.
From TS Require Import Spec.C10Spec Proofs.BackCommon Proofs.C10Lex Proofs.C15_Replace.
Import ListNotations.
Local Open Scope N_scope.
Local Notation length := List.length (only parsing).

(* ------------------------------------------------------------------ block comments (no nesting) *)
Definition nss (c : str) : bool := negb (contains_sub [c10_c_star; c10_c_slash] c).

Lemma nss_cons a r : nss (a :: r) = true -> nss r = true /\ (a = c10_c_star -> match r with x :: _ => x <> c10_c_slash | [] => True end).
Proof.
  unfold nss. cbn [contains_sub starts_with]. rewrite negb_true_iff, orb_false_iff. intros [H1 H2]. split.
  - rewrite H2. reflexivity.
  - intros ->. destruct r as [|x r]; [exact I|]. cbn [starts_with] in H1. unfold c10_c_star, c10_c_slash in *. lia.
Qed.

Lemma block_run cfg : c10_lc_nest cfg = false -> forall c st, nss c = true ->
  (run cfg (C10LBlock 0, st) c = (C10LBlock 0, st) \/ run cfg (C10LBlock 0, st) c = (C10LBlockStar 0, st)) /\
  (match c with x :: _ => x <> c10_c_slash | [] => True end ->
   run cfg (C10LBlockStar 0, st) c = (C10LBlock 0, st) \/ run cfg (C10LBlockStar 0, st) c = (C10LBlockStar 0, st)).
Proof.
  intros Hn c st. induction c as [|a r IH]; intros H.
  - split; [left|right]; reflexivity.
  - apply nss_cons in H as [Hr Ha]. specialize (IH Hr) as [IH1 IH2]. rewrite !run_cons. cbn [c10_lex_step]. rewrite Hn.
    split.
    + destruct (a =? c10_c_star) eqn:E1.
      * apply IH2. apply Ha. unfold c10_c_star in *. lia.
      * rewrite andb_false_r. exact IH1.
    + intros Hx. destruct (a =? c10_c_slash) eqn:E0; [unfold c10_c_slash in *; lia|].
      destruct (a =? c10_c_star) eqn:E1.
      * apply IH2. apply Ha. unfold c10_c_star in *. lia.
      * exact IH1.
Qed.

(* a safe doc text followed by any character other than `*` and `/` leaves the comment open *)
Lemma block_doc cfg c x : c10_lc_nest cfg = false -> nss c = true -> x <> c10_c_star -> x <> c10_c_slash ->
  tr cfg (C10LBlock 0) (c ++ [x]) (C10LBlock 0).
Proof.
  intros Hn Hc Hx1 Hx2 st. rewrite run_app.
  assert (Hstep : forall m, m = C10LBlock 0 \/ m = C10LBlockStar 0 -> run cfg (m, st) [x] = (C10LBlock 0, st)).
  { intros m [-> | ->]; rewrite run_cons, run_nil; cbn [c10_lex_step]; rewrite ?Hn;
      destruct (x =? c10_c_star) eqn:E1; try (unfold c10_c_star in *; lia);
      destruct (x =? c10_c_slash) eqn:E2; try (unfold c10_c_slash in *; lia); reflexivity. }
  destruct (proj1 (block_run cfg Hn c st Hc)) as [E | E]; rewrite E; apply Hstep; auto.
Qed.

Lemma doc_nss c : c10_doc_ok c = true -> nss c = true.
Proof. unfold c10_doc_ok, nss. rewrite !andb_true_iff. intros [[[_ H] _] _]. exact H. Qed.

(* ------------------------------------------------------------------ layout: comments, types *)
Lemma tabs_bal n : bal c10_lex_ts (tabs n).
Proof. apply tr_repeat_str. intros st. reflexivity. Qed.
Lemma tabs_block n : tr c10_lex_ts (C10LBlock 0) (tabs n) (C10LBlock 0).
Proof. apply tr_repeat_str. intros st. reflexivity. Qed.

Lemma ts_doc_close c : c10_doc_ok c = true -> tr c10_lex_ts (C10LBlock 0) (c ++ lit " */") C10LCode.
Proof.
  intros H st. change (lit " */") with ([ch_sp] ++ lit "*/"). rewrite app_assoc, run_app.
  rewrite (block_doc c10_lex_ts c ch_sp eq_refl (doc_nss c H) ltac:(discriminate) ltac:(discriminate) st). reflexivity.
Qed.
Lemma ts_doc_nl c : c10_doc_ok c = true -> tr c10_lex_ts (C10LBlock 0) (c ++ nl) (C10LBlock 0).
Proof. intros H. exact (block_doc c10_lex_ts c ch_nl eq_refl (doc_nss c H) ltac:(discriminate) ltac:(discriminate)). Qed.

Lemma ts_doc_lines indent l : l <> [] -> forallb c10_doc_ok l = true ->
  tr c10_lex_ts (C10LBlock 0) (join (nl ++ tabs indent ++ lit " * ") l ++ nl) (C10LBlock 0).
Proof.
  induction l as [|c r IH]; [congruence|]. intros _ H. cbn [forallb] in H. apply andb_true_iff in H as [Hc Hr].
  destruct r as [|c2 r].
  - cbn [join]. apply ts_doc_nl, Hc.
  - change (join (nl ++ tabs indent ++ lit " * ") (c :: c2 :: r))
      with (c ++ (nl ++ tabs indent ++ lit " * ") ++ join (nl ++ tabs indent ++ lit " * ") (c2 :: r)).
    rewrite <- !app_assoc. rewrite (app_assoc c nl).
    eapply tr_app; [apply ts_doc_nl, Hc|]. eapply tr_app; [apply tabs_block|].
    eapply tr_app; [|apply IH; [discriminate|exact Hr]]. intros st. reflexivity.
Qed.

(* a safe doc line contains no comment terminator: typescript.rs write_comments escapes nothing in it *)
Lemma ts_escape_doc_ok docs : forallb c10_doc_ok docs = true -> map ts_escape_comment docs = docs.
Proof.
  intros H. apply map_id_on. intros d Hd. apply ts_escape_comment_id.
  rewrite forallb_forall in H. pose proof (doc_nss d (H d Hd)) as Hn. unfold nss in Hn. now apply negb_true_iff in Hn.
Qed.
Lemma ts_comments_bal indent docs : forallb c10_doc_ok docs = true -> bal c10_lex_ts (ts_comments indent docs).
Proof.
  intros H. unfold ts_comments. rewrite (ts_escape_doc_ok docs H).
  pose proof (tabs_bal indent) as Ht. pose proof (tabs_block indent) as Htb.
  destruct docs as [|c [|c2 r]]; cbn [ts_comments_raw].
  - apply tr_nil.
  - cbn [forallb] in H. rewrite andb_true_r in H. pose proof (ts_doc_close c H) as Hc.
    intros st. rewrite (app_assoc c). set (X := c ++ lit " */") in *. walk. reflexivity.
  - pose proof (ts_doc_lines indent (c :: c2 :: r) ltac:(discriminate) H) as Hl.
    intros st. set (J := join _ _) in *. rewrite (app_assoc J nl). set (JN := J ++ nl) in *. walk. reflexivity.
Qed.

Lemma raw_bal t : c10_raw_ok c10_lex_ts t = true -> bal c10_lex_ts t.
Proof. apply balanced_bal. Qed.

Lemma ts_show_bal x : c10_texp_ok c10_lex_ts x = true -> bal c10_lex_ts (ts_show x).
Proof.
  induction x as [n args IH | e IH | es IH | k v IHk IHv | e IH | t] using texp_ind'; intros H; cbn [c10_texp_ok] in H.
  - apply andb_true_iff in H as [Hn Ha]. pose proof (tok_bal c10_lex_ts n Hn) as Hnb.
    destruct args as [|a l]; [exact Hnb|].
    change (ts_show (XName n (a :: l))) with (n ++ lit "<" ++ join (lit ", ") (map ts_show (a :: l)) ++ lit ">").
    assert (Hj : bal c10_lex_ts (join (lit ", ") (map ts_show (a :: l)))).
    { apply tr_join_map; [intros st; reflexivity|]. exact (Forall_forallb_imp _ _ _ IH Ha). }
    intros st. set (J := join _ _) in *. walk. reflexivity.
  - change (ts_show (XSeq e)) with (ts_show e ++ lit "[]"). specialize (IH H). intros st. walk. reflexivity.
  - change (ts_show (XFixed es)) with (lit "[" ++ join (lit ", ") (map ts_show es) ++ lit "]").
    assert (Hj : bal c10_lex_ts (join (lit ", ") (map ts_show es))).
    { apply tr_join_map; [intros st; reflexivity|]. exact (Forall_forallb_imp _ _ _ IH H). }
    intros st. set (J := join _ _) in *. walk. reflexivity.
  - apply andb_true_iff in H as [Hk Hv]. specialize (IHk Hk). specialize (IHv Hv).
    change (ts_show (XMap k v)) with (lit "Record<" ++ ts_show k ++ lit ", " ++ ts_show v ++ lit ">").
    intros st. walk. reflexivity.
  - exact (IH H).
  - exact (raw_bal t H).
Qed.

Lemma generics_suffix_bal gs : forallb c10_tok_ok gs = true -> bal c10_lex_ts (generics_suffix gs).
Proof.
  intros H. destruct gs as [|g r]; [apply tr_nil|]. unfold generics_suffix.
  assert (Hj : bal c10_lex_ts (join (lit ", ") (g :: r))).
  { apply tr_join; [intros st; reflexivity|]. apply Forall_forall. intros x Hx.
    apply tok_bal. rewrite forallb_forall in H. exact (H x Hx). }
  intros st. set (J := join _ _) in *. walk. reflexivity.
Qed.

(* ------------------------------------------------------------------ well-formed declarations *)
Definition c10_ts_member_ok (m : ts_member) : bool :=
  forallb c10_doc_ok (tm_docs m) && c10_tok_ok (tm_key m) && c10_texp_ok c10_lex_ts (tm_type m).
Definition c10_ts_variant_ok (v : ts_variant) : bool :=
  match v with
  | TVUnit docs _ => forallb c10_doc_ok docs
  | TVTuple docs _ ty _ _ => forallb c10_doc_ok docs && c10_texp_ok c10_lex_ts ty
  | TVStruct docs _ ms => forallb c10_doc_ok docs && forallb c10_ts_member_ok ms
  end.
Definition c10_ts_decl_ok (d : ts_decl) : bool :=
  match d with
  | TSInterface docs name gs ms => forallb c10_doc_ok docs && c10_tok_ok name && forallb c10_tok_ok gs && forallb c10_ts_member_ok ms
  | TSAlias docs name gs ty _ _ => forallb c10_doc_ok docs && c10_tok_ok name && forallb c10_tok_ok gs && c10_texp_ok c10_lex_ts ty
  | TSConst name ty value => c10_tok_ok name && c10_texp_ok c10_lex_ts ty && c10_tok_ok value
  | TSUnitEnum docs name gs vs =>
    forallb c10_doc_ok docs && c10_tok_ok name && forallb c10_tok_ok gs &&
    forallb (fun v => let '(vdocs, case, _) := v in forallb c10_doc_ok vdocs && c10_tok_ok case) vs
  | TSUnion docs name gs tag content vs =>
    forallb c10_doc_ok docs && c10_tok_ok name && forallb c10_tok_ok gs && c10_tok_ok tag && c10_tok_ok content && forallb c10_ts_variant_ok vs
  end.

Lemma ts_key_bal k : c10_tok_ok k = true -> bal c10_lex_ts (typescript_property_aware_rename k).
Proof.
  intros H. unfold typescript_property_aware_rename. destruct (contains_char ch_dash k).
  - apply debug_str_bal. reflexivity.
  - apply tok_bal, H.
Qed.

Lemma ts_render_member_bal m : c10_ts_member_ok m = true -> bal c10_lex_ts (ts_render_member m).
Proof.
  unfold c10_ts_member_ok. rewrite !andb_true_iff. intros [[Hd Hk] Ht].
  pose proof (ts_comments_bal 1 _ Hd) as H1. pose proof (ts_key_bal _ Hk) as H2. pose proof (ts_show_bal _ Ht) as H3.
  unfold ts_render_member. intros st. split_ifs; walk; reflexivity.
Qed.

Lemma ts_members_bal ms : forallb c10_ts_member_ok ms = true -> bal c10_lex_ts (List.concat (map ts_render_member ms)).
Proof.
  intros H. apply tr_concat_map. apply Forall_forall. intros m Hm. apply ts_render_member_bal.
  rewrite forallb_forall in H. exact (H m Hm).
Qed.

Lemma ts_render_variant_bal tag content v : c10_tok_ok tag = true -> c10_tok_ok content = true -> c10_ts_variant_ok v = true ->
  bal c10_lex_ts (ts_render_variant tag content v).
Proof.
  intros Htag Hcon Hv. pose proof (tok_bal c10_lex_ts _ Htag) as H1. pose proof (tok_bal c10_lex_ts _ Hcon) as H2.
  destruct v as [docs wire | docs wire ty opt nullu | docs wire ms]; cbn [c10_ts_variant_ok ts_render_variant] in *;
    pose proof (debug_str_bal c10_lex_ts wire eq_refl) as Hw.
  - pose proof (ts_comments_bal 1 _ Hv) as Hd. intros st. walk. reflexivity.
  - apply andb_true_iff in Hv as [Hv Hty]. pose proof (ts_comments_bal 1 _ Hv) as Hd. pose proof (ts_show_bal _ Hty) as Hs.
    intros st. split_ifs; walk; reflexivity.
  - apply andb_true_iff in Hv as [Hv Hms]. pose proof (ts_comments_bal 1 _ Hv) as Hd.
    pose proof (ts_members_bal _ Hms) as Hm. intros st. set (MS := List.concat _) in *. walk. reflexivity.
Qed.

Theorem ts_render_decl_bal d : c10_ts_decl_ok d = true -> bal c10_lex_ts (ts_render_decl d).
Proof.
  destruct d as [docs name gs ms | docs name gs ty undef nullu | name ty value | docs name gs vs | docs name gs tag content vs];
    cbn [c10_ts_decl_ok ts_render_decl]; rewrite ?andb_true_iff; intros H.
  - destruct H as [[[Hd Hn] Hg] Hm].
    pose proof (ts_comments_bal 0 _ Hd) as H1. pose proof (tok_bal c10_lex_ts _ Hn) as H2.
    pose proof (generics_suffix_bal _ Hg) as H3. pose proof (ts_members_bal _ Hm) as H4.
    intros st. set (MS := List.concat _) in *. walk. reflexivity.
  - destruct H as [[[Hd Hn] Hg] Ht].
    pose proof (ts_comments_bal 0 _ Hd) as H1. pose proof (tok_bal c10_lex_ts _ Hn) as H2.
    pose proof (generics_suffix_bal _ Hg) as H3. pose proof (ts_show_bal _ Ht) as H4.
    intros st. split_ifs; walk; reflexivity.
  - destruct H as [[Hn Ht] Hv].
    pose proof (tok_bal c10_lex_ts _ Hn) as H2. pose proof (ts_show_bal _ Ht) as H4. pose proof (tok_bal c10_lex_ts _ Hv) as H5.
    intros st. walk. reflexivity.
  - destruct H as [[[Hd Hn] Hg] Hv].
    pose proof (ts_comments_bal 0 _ Hd) as H1. pose proof (tok_bal c10_lex_ts _ Hn) as H2.
    pose proof (generics_suffix_bal _ Hg) as H3.
    assert (H4 : tr c10_lex_ts C10LCode (List.concat (map (fun v : list str * str * str => let '(vdocs, case, wire) := v in
                   nl ++ ts_comments 1 vdocs ++ [ch_tab] ++ case ++ lit " = " ++ debug_str wire ++ lit ",") vs)) C10LCode).
    { apply tr_concat_map. apply Forall_forall. intros [[vdocs case] wire] Hin.
      rewrite forallb_forall in Hv. specialize (Hv _ Hin). cbn in Hv. apply andb_true_iff in Hv as [Hvd Hc].
      pose proof (ts_comments_bal 1 _ Hvd) as G1. pose proof (tok_bal c10_lex_ts _ Hc) as G2.
      pose proof (debug_str_bal c10_lex_ts wire eq_refl) as G3. intros st. walk. reflexivity. }
    intros st. set (VS := List.concat _) in *. walk. reflexivity.
  - destruct H as [[[[[Hd Hn] Hg] Htag] Hcon] Hv].
    pose proof (ts_comments_bal 0 _ Hd) as H1. pose proof (tok_bal c10_lex_ts _ Hn) as H2.
    pose proof (generics_suffix_bal _ Hg) as H3.
    assert (H4 : bal c10_lex_ts (List.concat (map (ts_render_variant tag content) vs))).
    { apply tr_concat_map. apply Forall_forall. intros v Hin. apply ts_render_variant_bal; auto.
      rewrite forallb_forall in Hv. exact (Hv v Hin). }
    intros st. set (VS := List.concat _) in *. walk. reflexivity.
Qed.
