(* The single-file decision theorems in folder (multi-file) mode: corollaries of Proofs/MultiSameDecls.v.
   A crate's folder-mode file is, for the stateful back ends, the layout of Proofs/C12Multi*.v around the declarations
   <l>_multi_decls uc cfg st pd from WHATEVER state st the earlier crates left; for Kotlin and Scala around
   kt_decls / sc_decls themselves.  No statement below has a hypothesis about the state. *)
From Coq Require Import List Bool String Permutation.
From TS Require Import Model.Str Model.Outcome Model.Unicode Model.Types Model.Parse Model.TopsortAlgo Model.Topsort
                       Model.Lang.Common Model.Lang.Decl Model.Lang.TypeScript Model.Lang.Kotlin Model.Lang.Swift
                       Model.Lang.Scala Model.Lang.Go Model.Lang.Python Model.MultiFile.
From TS Require Model.Writer.
From TS Require Import Spec.C01Spec.
From TS Require Import Proofs.BackCommon Proofs.C01 Proofs.C01File Proofs.C12Common Proofs.C12Multi Proofs.C12MultiTS Proofs.C12MultiSwift
                       Proofs.C12MultiGo Proofs.C12MultiStateless Proofs.MultiSameDecls.
Import ListNotations.
Local Open Scope list_scope.

(* ================================================================== Kotlin, Scala: the bridge *)
(* the folder-mode generator succeeds exactly when the declarations of single-file mode exist *)
Lemma kt_multi_decls uc cfg c im pd text :
  kt_generate_multi uc cfg c im pd = Ok text ->
  exists ds fd, kt_decls uc cfg pd = Ok ds /\ kt_file_decls uc cfg pd = Ok fd /\ fd_decls fd = map kt_obs ds.
Proof.
  intros H. apply kt_multi_layout in H as (ds & E & _). exists ds. unfold kt_file_decls. rewrite E. cbn [bind].
  eexists. split; [reflexivity|]. split; reflexivity.
Qed.

Lemma sc_multi_decls uc cfg pd text :
  sc_generate uc cfg pd = Ok text ->
  exists objs pkgs fd, sc_decls uc cfg pd = Ok (objs, pkgs) /\ sc_file_decls uc cfg pd = Ok fd /\
                       fd_decls fd = flat_map sc_obs (objs ++ pkgs).
Proof.
  intros H. apply sc_multi_layout in H as (head & objs & pkgs & _ & E & _). exists objs, pkgs.
  unfold sc_file_decls. rewrite E. cbn [bind]. eexists. split; [reflexivity|]. split; reflexivity.
Qed.

(* ================================================================== C01: field keys *)
Theorem c01_multi_file_ts uc cfg st pd ds st' :
  ts_multi_decls uc cfg st pd = Ok (ds, st') ->
  exists items, Permutation items (items_of pd) /\
                groups_fit TypeScript (flat_map ir_groups items) (obs_groups (map ts_obs ds)).
Proof. intros H. destruct (ts_multi_file_decls _ _ _ _ _ _ H) as (fd & Ef & <-). exact (ts_file_fits uc cfg pd fd Ef). Qed.

Theorem c01_multi_file_kt uc cfg c im pd text :
  kt_generate_multi uc cfg c im pd = Ok text ->
  exists ds, kt_decls uc cfg pd = Ok ds /\
    exists items, Permutation items (items_of pd) /\
                  groups_fit Kotlin (flat_map ir_groups items) (obs_groups (map kt_obs ds)).
Proof.
  intros H. destruct (kt_multi_decls _ _ _ _ _ _ H) as (ds & fd & Ed & Ef & Efd). exists ds. split; [exact Ed|].
  rewrite <- Efd. exact (kt_file_fits uc cfg pd fd Ef).
Qed.

Theorem c01_multi_file_sw uc cfg st pd ds st' :
  sw_multi_decls uc cfg st pd = Ok (ds, st') ->
  exists items, Permutation items (items_of pd) /\
                groups_fit Swift (flat_map ir_groups items) (obs_groups (flat_map sw_obs ds)).
Proof.
  intros H. destruct (sw_multi_file_decls _ _ _ _ _ _ H) as (fd & s0 & Ef & _ & Efd).
  destruct (sw_file_fits uc cfg pd fd Ef) as (items & Hp & Hg). exists items. split; [exact Hp|].
  rewrite Efd, obs_groups_app in Hg.
  assert (Ht : obs_groups (flat_map sw_obs (sw_trailing_decls cfg s0)) = []).
  { unfold sw_trailing_decls. destruct s0; [|reflexivity]. apply obs_groups_helpers. cbn. repeat constructor. }
  rewrite Ht, app_nil_r in Hg. exact Hg.
Qed.

Theorem c01_multi_file_sc uc cfg pd text :
  sc_generate uc cfg pd = Ok text ->
  exists objs pkgs, sc_decls uc cfg pd = Ok (objs, pkgs) /\
    groups_fit Scala
      (flat_map ir_groups (map ItAlias (p_aliases pd) ++ map ItStruct (p_structs pd) ++ map ItEnum (p_enums pd)))
      (obs_groups (flat_map sc_obs (objs ++ pkgs))).
Proof.
  intros H. destruct (sc_multi_decls _ _ _ _ H) as (objs & pkgs & fd & Ed & Ef & Efd). exists objs, pkgs. split; [exact Ed|].
  rewrite <- Efd. exact (sc_file_fits uc cfg pd fd Ef).
Qed.

Theorem c01_multi_file_go uc cfg st pd ds st' :
  go_multi_decls uc cfg st pd = Ok (ds, st') ->
  exists items, Permutation items (items_of pd) /\
                groups_fit Go (flat_map ir_groups items) (obs_groups (flat_map go_obs ds)).
Proof. intros H. destruct (go_multi_file_decls _ _ _ _ _ _ H) as (fd & Ef & <-). exact (go_file_fits uc cfg pd fd Ef). Qed.

Theorem c01_multi_file_py uc cfg st pd ds st' :
  py_multi_decls uc cfg st pd = Ok (ds, st') ->
  exists items, Permutation items (items_of pd) /\
                groups_fit Python (flat_map ir_groups items) (obs_groups (flat_map py_obs ds)).
Proof.
  intros H. destruct (py_multi_file_decls _ _ _ _ _ _ H) as (fd & hs & Ef & Efd).
  destruct (py_file_fits uc cfg pd fd Ef) as (items & Hp & Hg). exists items. split; [exact Hp|].
  rewrite Efd, obs_groups_app in Hg.
  assert (Hh : obs_groups (map py_helper_decl hs) = []).
  { apply obs_groups_helpers. apply Forall_forall. intros d Hd. apply in_map_iff in Hd as (n & <- & _). reflexivity. }
  rewrite Hh in Hg. exact Hg.
Qed.

(* ================================================================== C01 along a workspace run *)
(* every file a folder-mode run generates - whatever the earlier crates of the run left in the language value -
   binds, member list by member list, the keys of the IR of ITS crate *)
Theorem c01_multi_run_ts uc cfg st0 plan files fin :
  generate_crates (ts_multi_gen uc cfg) st0 plan = (files, fin) ->
  forall i fname text,
    nth_error files i = Some (fname, Writer.Generated text) ->
    exists p st_i st_i' ds,
      nth_error plan i = Some p /\ fname = op_file p /\
      ts_generate_multi uc cfg st_i (op_imports p) (op_data p) = Ok (text, st_i') /\
      ts_multi_decls uc cfg st_i (op_data p) = Ok (ds, st_i') /\
      text = ts_begin_file cfg ++ ts_write_imports (op_imports p) ++ List.concat (map ts_render_decl ds) ++ ts_end_file st_i' /\
      (exists st1, ts_decls uc cfg (op_data p) = Ok (ds, st1)) /\
      exists items, Permutation items (items_of (op_data p)) /\
                    groups_fit TypeScript (flat_map ir_groups items) (obs_groups (map ts_obs ds)).
Proof.
  intros H i fname text Hn.
  destruct (cm_crates_file (ts_multi_gen uc cfg) (fun _ => True) (fun _ => True) (fun _ _ _ _ _ _ _ => I)
              plan st0 files fin i fname text I H Hn) as (p & st_i & st_i' & Hp & Hf & _ & _ & Hg).
  { apply Forall_forall. intros; exact I. }
  unfold ts_multi_gen in Hg. pose proof Hg as Hg'. apply ts_multi_layout in Hg' as (ds & Eds & Etext).
  exists p, st_i, st_i', ds. split; [exact Hp|]. split; [exact Hf|]. split; [exact Hg|]. split; [exact Eds|].
  split; [exact Etext|]. split.
  - destruct (ts_multi_same_decls uc cfg st_i (op_data p)) as (S1 & _ & _). exact (S1 _ _ Eds).
  - exact (c01_multi_file_ts _ _ _ _ _ _ Eds).
Qed.

(* Python, whose state is the richest (import table, type variables, translated types): no invariant on the state and
   no domain hypothesis on the crates is needed for the declarations *)
Theorem c01_multi_run_py uc cfg st0 plan files fin :
  generate_crates (py_multi_gen uc cfg) st0 plan = (files, fin) ->
  forall i fname text,
    nth_error files i = Some (fname, Writer.Generated text) ->
    exists p st_i st_i' ds,
      nth_error plan i = Some p /\ fname = op_file p /\
      py_generate_multi uc cfg st_i (op_data p) = Ok (text, st_i') /\
      py_multi_decls uc cfg st_i (op_data p) = Ok (ds, st_i') /\
      text = py_begin_file cfg ++ py_write_all_imports st_i' ++ py_write_custom_translations st_i' ++
             List.concat (map py_render_decl ds) /\
      (exists st1, py_decls uc cfg (op_data p) = Ok (ds, st1)) /\
      exists items, Permutation items (items_of (op_data p)) /\
                    groups_fit Python (flat_map ir_groups items) (obs_groups (flat_map py_obs ds)).
Proof.
  intros H i fname text Hn.
  destruct (cm_crates_file (py_multi_gen uc cfg) (fun _ => True) (fun _ => True) (fun _ _ _ _ _ _ _ => I)
              plan st0 files fin i fname text I H Hn) as (p & st_i & st_i' & Hp & Hf & _ & _ & Hg).
  { apply Forall_forall. intros; exact I. }
  unfold py_multi_gen in Hg. pose proof Hg as Hg'. apply py_multi_layout in Hg' as (ds & Eds & Etext).
  exists p, st_i, st_i', ds. split; [exact Hp|]. split; [exact Hf|]. split; [exact Hg|]. split; [exact Eds|].
  split; [exact Etext|]. split.
  - destruct (py_multi_same_decls uc cfg st_i (op_data p)) as (S1 & _ & _). exact (S1 _ _ Eds).
  - exact (c01_multi_file_py _ _ _ _ _ _ Eds).
Qed.
