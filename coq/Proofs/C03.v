(* C03, front end: which items a file yields (C03_items) and which members each lists (C03_members).
   Builds on Proofs/FrontItems.v (visitor = fold of collect_result over the wanted leaves; filter/map
   identities for fields and variants). *)
From Coq Require Import String List Bool Arith Lia ZifyBool ZifyN.
From TS Require Import Model.Str Model.Outcome Model.Unicode Model.Syntax Model.Attrs Model.TargetOs
                       Model.Rename Model.Types Model.Parse.
From TS Require Import Spec.SerdeCase Spec.C16Spec Spec.Serde Spec.TargetOsRule Spec.C03Spec.
From TS Require Import Proofs.C16 Proofs.C13 Proofs.FrontAttrs Proofs.FrontTypes Proofs.FrontItems.
Import ListNotations.
Local Open Scope N_scope.
Local Notation length := List.length (only parsing).

Lemma c03_ident_ok_no_hash i : c03_ident_ok i = no_hash (unraw i).
Proof. reflexivity. Qed.

Lemma annotated_spec attrs : has_typeshare_annotation attrs = annotated attrs.
Proof.
  unfold has_typeshare_annotation, annotated, mem_str. apply existsb_ext'. intros a.
  apply existsb_ext'. intros seg. apply str_eqb_sym.
Qed.

Lemma filter_ext_Forall {A} (p q : A -> bool) l :
  Forall (fun x => p x = q x) l -> filter p l = filter q l.
Proof. induction 1 as [|x l Hx _ IH]; cbn [filter]; [reflexivity|]. now rewrite Hx, IH. Qed.

Lemma forallb_Forall' {A} (p : A -> bool) l : forallb p l = true -> Forall (fun x => p x = true) l.
Proof. intros H. apply Forall_forall. intros x Hx. now apply (proj1 (forallb_forall p l) H). Qed.

(* ---------- the lists a sequence of leaf results is split into ---------- *)
Definition oks (rs : list (outcome ritem)) : list ritem :=
  flat_map (fun r => match r with Ok it => [it] | _ => [] end) rs.
Definition errs_of (rs : list (outcome ritem)) : list perr :=
  flat_map (fun r => match r with Err e => [e] | _ => [] end) rs.
Definition structs_of (l : list ritem) : list rstruct := flat_map (fun it => match it with ItStruct s => [s] | _ => [] end) l.
Definition enums_of (l : list ritem) : list renum := flat_map (fun it => match it with ItEnum e => [e] | _ => [] end) l.
Definition aliases_of (l : list ritem) : list ralias := flat_map (fun it => match it with ItAlias a => [a] | _ => [] end) l.
Definition consts_of (l : list ritem) : list rconst := flat_map (fun it => match it with ItConst c => [c] | _ => [] end) l.

Lemma fold_collect_cons r rs pd :
  fold_collect (r :: rs) pd = (do p <- collect_result pd r; fold_collect rs p).
Proof.
  change (r :: rs) with ([r] ++ rs). rewrite fold_collect_app. reflexivity.
Qed.

Lemma fold_collect_split rs : forall pd pd', fold_collect rs pd = Ok pd' ->
  Forall (fun r => is_panic r = false) rs /\
  p_structs pd' = p_structs pd ++ structs_of (oks rs) /\
  p_enums pd' = p_enums pd ++ enums_of (oks rs) /\
  p_aliases pd' = p_aliases pd ++ aliases_of (oks rs) /\
  p_consts pd' = p_consts pd ++ consts_of (oks rs) /\
  p_errors pd' = p_errors pd ++ errs_of rs.
Proof.
  induction rs as [|r rs IH]; intros pd pd' H.
  - unfold fold_collect in H. cbn in H. injection H as <-. cbn. rewrite !app_nil_r. repeat split; auto.
  - rewrite fold_collect_cons in H.
    destruct (collect_result pd r) as [p| |] eqn:Ec; cbn [bind] in H; try discriminate.
    destruct (IH _ _ H) as (HF & H1 & H2 & H3 & H4 & H5).
    unfold collect_result in Ec. destruct r as [it|e|s]; [| |discriminate].
    + injection Ec as <-. split; [constructor; [reflexivity|exact HF]|].
      unfold oks in *. cbn [flat_map app].
      destruct it; cbn [push p_structs p_enums p_aliases p_consts p_errors structs_of enums_of aliases_of consts_of flat_map app] in *;
        rewrite H1, H2, H3, H4, H5; rewrite <- ?app_assoc; cbn [app]; repeat split; reflexivity.
    + injection Ec as <-. split; [constructor; [reflexivity|exact HF]|].
      unfold oks, errs_of in *. cbn [flat_map app p_structs p_enums p_aliases p_consts p_errors] in *.
      rewrite H1, H2, H3, H4, H5; rewrite <- ?app_assoc; cbn [app]; repeat split; reflexivity.
Qed.

Lemma parsed_is_empty_nil pd : parsed_is_empty pd = true ->
  p_structs pd = [] /\ p_enums pd = [] /\ p_aliases pd = [] /\ p_consts pd = [] /\ p_errors pd = [].
Proof.
  unfold parsed_is_empty. destruct (p_structs pd); [|discriminate]. destruct (p_enums pd); [|discriminate].
  destruct (p_aliases pd); [|discriminate]. destruct (p_consts pd); [|discriminate].
  destruct (p_errors pd); [|discriminate]. auto.
Qed.

Section U.
Variable uc : unicode.
Hypothesis Huc : unicode_ok uc.
Variable tstr : str -> option ty.
Variable T : list str.

Local Notation parse_leaf := (parse_leaf uc tstr T).

Lemma wanted_spec attrs : cfg_parsable attrs = true -> wanted T attrs = annotated attrs && os_rule attrs T.
Proof.
  intros H. unfold wanted, accepts. now rewrite annotated_spec, (accept_is_rule attrs T H).
Qed.

Lemma wanted_filter l : forallb c03_leaf_ok l = true ->
  filter (fun it => wanted T (leaf_attrs it)) l = filter (expected_leaf T) l.
Proof.
  intros H. apply filter_ext_Forall. apply forallb_Forall' in H.
  eapply Forall_impl; [|exact H]. intros x Hx. unfold c03_leaf_ok in Hx. apply andb_true_iff in Hx as [Hc _].
  unfold expected_leaf. now apply wanted_spec.
Qed.

(* parse_file is the fold of collect_result over the results of the EXPECTED leaves *)
Lemma parse_file_fold f : dom_C03_front f = true ->
  parse_file uc tstr T f =
  (do pd <- fold_collect (map parse_leaf (expected_leaves T f)) empty_parsed;
   Ok (if parsed_is_empty pd then None else Some pd)).
Proof.
  unfold dom_C03_front. intros H. apply andb_true_iff in H as [Hf Hl].
  unfold parse_file, expected_leaves, accepts. rewrite (accept_is_rule _ T Hf).
  destruct (fl_marker f); cbn [negb andb]; [|reflexivity].
  destruct (os_rule (fl_attrs f) T).
  - rewrite visit_items_spec. unfold wanted_results. now rewrite (wanted_filter _ Hl).
  - reflexivity.
Qed.

(* C03_items, exact form: the collected lists are the successful results of the expected leaves, kind by
   kind and in source order; the recorded errors are exactly the failed results; no result panicked *)
Theorem items_exact f r : dom_C03_front f = true -> parse_file uc tstr T f = Ok r ->
  let rs := map parse_leaf (expected_leaves T f) in
  let pd := match r with Some pd => pd | None => empty_parsed end in
  Forall (fun o => is_panic o = false) rs /\
  p_structs pd = structs_of (oks rs) /\ p_enums pd = enums_of (oks rs) /\
  p_aliases pd = aliases_of (oks rs) /\ p_consts pd = consts_of (oks rs) /\ p_errors pd = errs_of rs.
Proof.
  intros Hd H. rewrite (parse_file_fold f Hd) in H. cbn zeta.
  destruct (fold_collect _ empty_parsed) as [pd| |] eqn:Ef; cbn [bind] in H; try discriminate.
  destruct (fold_collect_split _ _ _ Ef) as (HF & H1 & H2 & H3 & H4 & H5). cbn [empty_parsed p_structs p_enums p_aliases p_consts p_errors app] in *.
  injection H as <-. destruct (parsed_is_empty pd) eqn:Ee.
  - destruct (parsed_is_empty_nil pd Ee) as (E1 & E2 & E3 & E4 & E5).
    cbn [empty_parsed p_structs p_enums p_aliases p_consts p_errors]. rewrite <- H1, <- H2, <- H3, <- H4, <- H5. auto 10.
  - auto 10.
Qed.

(* an expected item whose parse fails is reported: its error is in ParsedData.errors *)
Theorem error_recorded f r x e : dom_C03_front f = true -> parse_file uc tstr T f = Ok r ->
  In x (expected_leaves T f) -> parse_leaf x = Err e -> exists pd, r = Some pd /\ In e (p_errors pd).
Proof.
  intros Hd H Hx He. destruct (items_exact f r Hd H) as (_ & _ & _ & _ & _ & H5).
  assert (Hin : In e (errs_of (map parse_leaf (expected_leaves T f)))).
  { unfold errs_of. apply in_flat_map. exists (parse_leaf x). split; [now apply in_map|]. rewrite He. now left. }
  destruct r as [pd|].
  - exists pd. split; [reflexivity|]. rewrite H5. exact Hin.
  - change (p_errors empty_parsed) with (@nil perr) in H5. rewrite <- H5 in Hin. cbn in Hin. contradiction.
Qed.

(* nothing annotated (or nothing accepted): nothing is generated *)
Theorem unannotated_nothing f : dom_C03_front f = true -> expected_leaves T f = [] -> parse_file uc tstr T f = Ok None.
Proof. intros Hd He. rewrite (parse_file_fold f Hd), He. reflexivity. Qed.

(* ---------- which IR item a leaf becomes, and under which name ---------- *)
Lemma get_ident_original i attrs ra x : get_ident uc (Some i) attrs ra = Ok x -> original x = replace_sub (lit "r#") [] i.
Proof. intros H. destruct (get_ident_ok uc _ _ _ _ H) as [H' _]. exact H'. Qed.

Lemma mk_alias_name attrs ident gens t it : mk_alias uc attrs ident gens t = Ok it ->
  exists a, it = ItAlias a /\ original (aid a) = replace_sub (lit "r#") [] ident.
Proof.
  unfold mk_alias. destruct (get_ident uc (Some ident) attrs None) as [i| |] eqn:Ei; cbn [bind]; try discriminate.
  intros [= <-]. eexists. split; [reflexivity|]. cbn. now apply get_ident_original in Ei.
Qed.

Lemma parse_leaf_kind x it : parse_leaf x = Ok it ->
  c03_leaf_kind_ok x it /\ original (item_id it) = replace_sub (lit "r#") [] (leaf_ident x).
Proof.
  destruct x as [a i g fs|a i g vs|a i g t|a i t e|u|inner]; cbn [FrontItems.parse_leaf leaf_ident]; try discriminate.
  - unfold parse_struct. destruct (get_serialized_as_type uc a).
    + destruct (get_ident uc (Some i) a None) as [x| |] eqn:Ei; cbn [bind]; try discriminate.
      destruct (parse_ty_str tstr s); cbn [bind]; try discriminate. intros [= <-]. cbn. split; [exact I|].
      now apply get_ident_original in Ei.
    + destruct fs as [l|l|].
      * destruct (mapM _ _); cbn [bind]; try discriminate.
        destruct (get_ident uc (Some i) a None) as [x| |] eqn:Ei; cbn [bind]; try discriminate.
        intros [= <-]. cbn. split; [exact I|]. now apply get_ident_original in Ei.
      * destruct l as [|f [|? ?]]; try discriminate.
        destruct (field_type uc tstr f); cbn [bind]; try discriminate.
        intros H. apply mk_alias_name in H as (al & -> & Hn). cbn. auto.
      * destruct (get_ident uc (Some i) a None) as [x| |] eqn:Ei; cbn [bind]; try discriminate.
        intros [= <-]. cbn. split; [exact I|]. now apply get_ident_original in Ei.
  - unfold parse_enum. destruct (get_serialized_as_type uc a).
    + destruct (get_ident uc (Some i) a None) as [x| |] eqn:Ei; cbn [bind]; try discriminate.
      destruct (parse_ty_str tstr s); cbn [bind]; try discriminate. intros [= <-]. cbn. split; [exact I|].
      now apply get_ident_original in Ei.
    + destruct (mapM _ _) as [variants| |]; cbn [bind]; try discriminate.
      destruct (get_ident uc (Some i) a None) as [x| |] eqn:Ei; cbn [bind]; try discriminate.
      apply get_ident_original in Ei.
      destruct (forallb _ variants).
      * destruct (get_tag_key uc a); [discriminate|]. destruct (get_content_key uc a); [discriminate|].
        intros [= <-]. cbn. auto.
      * destruct (get_tag_key uc a); [|discriminate]. destruct (get_content_key uc a); [|discriminate].
        intros [= <-]. cbn. auto.
  - unfold parse_type_alias.
    destruct (match get_serialized_as_type uc a with Some s => parse_ty_str tstr s | None => parse_ty t end); cbn [bind]; try discriminate.
    intros H. apply mk_alias_name in H as (al & -> & Hn). cbn. auto.
  - unfold parse_const.
    destruct (parse_const_expr e); cbn [bind]; try discriminate.
    destruct (match get_serialized_as_type uc a with Some s => parse_ty_str tstr s | None => parse_ty t end) as [rt| |]; cbn [bind]; try discriminate.
    destruct rt; try discriminate;
      (destruct (get_ident uc (Some i) a None) as [x| |] eqn:Ei; cbn [bind]; try discriminate;
       intros [= <-]; cbn; split; [exact I|]; now apply get_ident_original in Ei).
Qed.

(* ---------- C03_items on the computable verdict ---------- *)
Definition nm_structs (l : list ritem) := map (fun s => original (sid s)) (structs_of l).
Definition nm_enums (l : list ritem) := map (fun e => original (eid (enum_shared e))) (enums_of l).
Definition nm_aliases (l : list ritem) := map (fun a => original (aid a)) (aliases_of l).
Definition nm_consts (l : list ritem) := map (fun c => original (cid c)) (consts_of l).

Lemma pop_head n r : c03_pop n (n :: r) = Some r.
Proof. unfold c03_pop. now rewrite str_eqb_refl. Qed.

Lemma oks_cons_ok it rs : oks (Ok it :: rs) = it :: oks rs. Proof. reflexivity. Qed.
Lemma oks_cons_err e rs : oks (Err e :: rs) = oks rs. Proof. reflexivity. Qed.
Lemma errs_cons_ok it rs : errs_of (Ok it :: rs) = errs_of rs. Proof. reflexivity. Qed.
Lemma errs_cons_err e rs : errs_of (Err e :: rs) = e :: errs_of rs. Proof. reflexivity. Qed.
Lemma nm_structs_cons it l :
  nm_structs (it :: l) = match it with ItStruct s => [original (sid s)] | _ => [] end ++ nm_structs l.
Proof. unfold nm_structs, structs_of. cbn [flat_map]. rewrite map_app. destruct it; reflexivity. Qed.
Lemma nm_enums_cons it l :
  nm_enums (it :: l) = match it with ItEnum e => [original (eid (enum_shared e))] | _ => [] end ++ nm_enums l.
Proof. unfold nm_enums, enums_of. cbn [flat_map]. rewrite map_app. destruct it; reflexivity. Qed.
Lemma nm_aliases_cons it l :
  nm_aliases (it :: l) = match it with ItAlias a => [original (aid a)] | _ => [] end ++ nm_aliases l.
Proof. unfold nm_aliases, aliases_of. cbn [flat_map]. rewrite map_app. destruct it; reflexivity. Qed.
Lemma nm_consts_cons it l :
  nm_consts (it :: l) = match it with ItConst c => [original (cid c)] | _ => [] end ++ nm_consts l.
Proof. unfold nm_consts, consts_of. cbn [flat_map]. rewrite map_app. destruct it; reflexivity. Qed.

Lemma assign_ok exp :
  Forall (fun x => c03_leaf_ok x = true) exp ->
  Forall (fun o => is_panic o = false) (map parse_leaf exp) ->
  let rs := map parse_leaf exp in
  c03_assign exp (nm_structs (oks rs)) (nm_enums (oks rs)) (nm_aliases (oks rs)) (nm_consts (oks rs)) (length (errs_of rs)) = true.
Proof.
  cbn zeta. induction exp as [|x r IH]; intros Hok Hnp; [reflexivity|].
  inversion Hok as [|? ? Hx Hr]; subst. cbn [map] in Hnp. inversion Hnp as [|? ? Hp Hps]; subst.
  specialize (IH Hr Hps). cbn [map c03_assign].
  unfold c03_leaf_ok in Hx. apply andb_true_iff in Hx as [_ Hid]. rewrite c03_ident_ok_no_hash in Hid.
  destruct (parse_leaf x) as [it|e|s] eqn:El; [| |discriminate].
  - destruct (parse_leaf_kind x it El) as [Hk Hn]. rewrite (unraw_model _ Hid) in Hn.
    rewrite oks_cons_ok, errs_cons_ok, nm_structs_cons, nm_enums_cons, nm_aliases_cons, nm_consts_cons.
    destruct x as [a i g fs|a i g vs|a i g t|a i t e|u|inner]; destruct it as [s|en|al|c]; cbn [c03_leaf_kind_ok] in Hk; try contradiction;
      cbn [item_id leaf_ident] in Hn; cbn [app leaf_ident];
      rewrite Hn, pop_head, IH; cbn [orb]; rewrite ?orb_true_r; reflexivity.
  - rewrite oks_cons_err, errs_cons_err. cbn [List.length]. rewrite IH. reflexivity.
Qed.

Theorem items_good f r : dom_C03_front f = true -> parse_file uc tstr T f = Ok r ->
  good_C03_front T f (c03_obs_of_parsed r) = true.
Proof.
  intros Hd H. destruct (items_exact f r Hd H) as (HF & H1 & H2 & H3 & H4 & H5). cbn zeta in *.
  assert (Hok : Forall (fun x => c03_leaf_ok x = true) (expected_leaves T f)).
  { unfold dom_C03_front in Hd. apply andb_true_iff in Hd as [_ Hl]. apply forallb_Forall' in Hl.
    unfold expected_leaves. destruct (fl_marker f && os_rule (fl_attrs f) T); [|constructor].
    apply Forall_forall. intros x Hx. apply filter_In in Hx as [Hx _]. exact (proj1 (Forall_forall _ _) Hl x Hx). }
  pose proof (assign_ok _ Hok HF) as HA. cbn zeta in HA.
  unfold good_C03_front. destruct r as [pd|].
  - cbn [c03_obs_of_parsed c03_structs c03_enums c03_aliases c03_consts c03_nerr].
    rewrite H1, H2, H3, H4, H5. exact HA.
  - cbn [c03_obs_of_parsed c03_empty_obs c03_structs c03_enums c03_aliases c03_consts c03_nerr].
    cbn [empty_parsed p_structs p_enums p_aliases p_consts p_errors] in *.
    unfold nm_structs, nm_enums, nm_aliases, nm_consts in HA.
    rewrite <- H1, <- H2, <- H3, <- H4, <- H5 in HA. exact HA.
Qed.

(* ---------- C03_members on the spec's expected names ---------- *)
Lemma kept_fields_spec l : forallb c03_field_ok l = true ->
  filter (fun f => negb (is_skipped T (f_attrs f))) l = filter (fun f => negb (member_skipped T (f_attrs f))) l.
Proof.
  intros H. apply filter_ext_Forall. apply forallb_Forall' in H. eapply Forall_impl; [|exact H].
  intros f Hf. unfold c03_field_ok in Hf. apply andb_true_iff in Hf as [Hc _].
  now rewrite (is_skipped_spec T _ Hc).
Qed.

Lemma kept_variants_spec vs : forallb c03_variant_ok vs = true ->
  filter (fun v => negb (is_skipped T (v_attrs v))) vs = filter (fun v => negb (member_skipped T (v_attrs v))) vs.
Proof.
  intros H. apply filter_ext_Forall. apply forallb_Forall' in H. eapply Forall_impl; [|exact H].
  intros v Hv. unfold c03_variant_ok in Hv. apply andb_true_iff in Hv as [Hv _]. apply andb_true_iff in Hv as [Hc _].
  now rewrite (is_skipped_spec T _ Hc).
Qed.

Lemma field_names_spec l : forallb c03_field_ok l = true ->
  map field_name (filter (fun f => negb (is_skipped T (f_attrs f))) l) = expected_field_names T l.
Proof.
  intros H. rewrite (kept_fields_spec l H). unfold expected_field_names.
  apply map_ext_in. intros f Hf. apply filter_In in Hf as [Hf _].
  pose proof (proj1 (forallb_forall _ _) H f Hf) as Hok. unfold c03_field_ok in Hok. apply andb_true_iff in Hok as [_ Hid].
  unfold field_name. destruct (f_ident f) as [i|]; [|reflexivity].
  rewrite c03_ident_ok_no_hash in Hid. now apply unraw_model.
Qed.

Theorem struct_members_spec attrs ident gens l s : forallb c03_field_ok l = true ->
  parse_struct uc tstr T attrs ident gens (FNamed l) = Ok (ItStruct s) ->
  map (fun rf => original (fid rf)) (sfields s) = expected_field_names T l.
Proof. intros Hd H. rewrite (struct_members uc tstr T _ _ _ _ _ H). now apply field_names_spec. Qed.

Theorem enum_variants_spec attrs ident gens vs e : forallb c03_variant_ok vs = true ->
  parse_enum uc tstr T attrs ident gens vs = Ok (ItEnum e) ->
  map (fun rv => original (vid (variant_shared rv))) (evariants (enum_shared e)) = expected_variant_names T vs.
Proof.
  intros Hd H. rewrite (enum_variants uc tstr T _ _ _ _ _ H), (kept_variants_spec vs Hd).
  unfold expected_variant_names. apply map_ext_in. intros v Hv. apply filter_In in Hv as [Hv _].
  pose proof (proj1 (forallb_forall _ _) Hd v Hv) as Hok. unfold c03_variant_ok in Hok.
  apply andb_true_iff in Hok as [Hok _]. apply andb_true_iff in Hok as [_ Hid].
  rewrite c03_ident_ok_no_hash in Hid. now apply unraw_model.
Qed.

Theorem variant_fields_spec ra attrs ident l rv : forallb c03_field_ok l = true ->
  parse_enum_variant uc tstr T ra {| v_attrs := attrs; v_ident := ident; v_fields := FNamed l |} = Ok rv ->
  exists fs sh, rv = VAnon fs sh /\ map (fun rf => original (fid rf)) fs = expected_field_names T l.
Proof.
  intros Hd H. destruct (variant_members uc tstr T _ _ _ _ _ H) as (fs & sh & -> & E).
  exists fs, sh. split; [reflexivity|]. rewrite E. now apply field_names_spec.
Qed.

(* every struct variant of a parsed enum lists exactly the non-skipped fields of its source variant
   (the source variant is found positionally among the kept variants) *)
Theorem enum_variant_fields_spec attrs ident gens vs e : forallb c03_variant_ok vs = true ->
  parse_enum uc tstr T attrs ident gens vs = Ok (ItEnum e) ->
  Forall2 (fun v rv => match v_fields v with
                       | FNamed l => exists fs sh, rv = VAnon fs sh /\ map (fun rf => original (fid rf)) fs = expected_field_names T l
                       | FUnnamed _ => exists t sh, rv = VTuple t sh
                       | FUnit => exists sh, rv = VUnit sh
                       end)
          (filter (fun v => negb (member_skipped T (v_attrs v))) vs) (evariants (enum_shared e)).
Proof.
  intros Hd H. rewrite <- (kept_variants_spec vs Hd).
  assert (HV : forall variants, mapM (parse_enum_variant uc tstr T (serde_rename_all uc attrs))
                                     (filter (fun v => negb (is_skipped T (v_attrs v))) vs) = Ok variants ->
               Forall2 (fun v rv => match v_fields v with
                       | FNamed l => exists fs sh, rv = VAnon fs sh /\ map (fun rf => original (fid rf)) fs = expected_field_names T l
                       | FUnnamed _ => exists t sh, rv = VTuple t sh
                       | FUnit => exists sh, rv = VUnit sh
                       end) (filter (fun v => negb (is_skipped T (v_attrs v))) vs) variants).
  { intros variants Em. apply mapM_Forall2 in Em.
    assert (Hin : Forall (fun v => c03_variant_ok v = true) (filter (fun v => negb (is_skipped T (v_attrs v))) vs)).
    { apply Forall_forall. intros v Hv. apply filter_In in Hv as [Hv _]. exact (proj1 (forallb_forall _ _) Hd v Hv). }
    induction Em as [|v rv l' r' Hv _ IH]; [constructor|]. inversion Hin as [|? ? Hok Hrest]; subst.
    constructor; [|exact (IH Hrest)].
    destruct v as [va vi vf]. cbn [v_fields]. unfold c03_variant_ok in Hok. cbn [v_attrs v_ident v_fields] in Hok.
    destruct vf as [l|l|].
    - apply andb_true_iff in Hok as [_ Hl]. exact (variant_fields_spec _ _ _ _ _ Hl Hv).
    - unfold parse_enum_variant in Hv. cbn [v_attrs v_ident v_fields] in Hv.
      destruct (get_ident _ _ _ _); cbn [bind] in Hv; try discriminate.
      destruct l as [|f [|? ?]]; try discriminate. destruct (field_type uc tstr f); cbn [bind] in Hv; try discriminate.
      injection Hv as <-. eauto.
    - unfold parse_enum_variant in Hv. cbn [v_attrs v_ident v_fields] in Hv.
      destruct (get_ident _ _ _ _); cbn [bind] in Hv; try discriminate. injection Hv as <-. eauto. }
  unfold parse_enum in H. destruct (get_serialized_as_type uc attrs).
  - destruct (get_ident _ _ _ _); cbn [bind] in H; try discriminate. destruct (parse_ty_str _ _); cbn [bind] in H; discriminate.
  - destruct (mapM _ _) as [variants| |] eqn:Em; cbn [bind] in H; try discriminate.
    specialize (HV variants eq_refl).
    destruct (get_ident _ _ _ _) as [i| |]; cbn [bind] in H; try discriminate.
    destruct (forallb _ variants).
    + destruct (get_tag_key uc attrs); [discriminate|]. destruct (get_content_key uc attrs); [discriminate|].
      injection H as <-. exact HV.
    + destruct (get_tag_key uc attrs); [|discriminate]. destruct (get_content_key uc attrs); [|discriminate].
      injection H as <-. exact HV.
Qed.

(* the IR the parser produces is inside the domain of the back-end theorems *)
Theorem parsed_in_dom x it : parse_leaf x = Ok it -> dom_C03_item it = true.
Proof.
  destruct it as [s|e|a|c]; try reflexivity. destruct e as [sh|tag content sh]; [|reflexivity].
  destruct x as [a i g fs|a i g vs|a i g t|a i t e|u|inner]; cbn [FrontItems.parse_leaf]; try discriminate.
  - intros H. destruct (parse_leaf_kind (IStruct a i g fs) _ H) as [Hk _]. exact (False_ind _ Hk) || (cbn in Hk; contradiction).
  - intros H. apply enum_keys in H. cbn in H. destruct H as (_ & _ & H). exact H.
  - intros H. destruct (parse_leaf_kind (IType a i g t) _ H) as [Hk _]. cbn in Hk. contradiction.
  - intros H. destruct (parse_leaf_kind (IConst a i t e) _ H) as [Hk _]. cbn in Hk. contradiction.
Qed.
End U.

(* ---------- non-vacuity ---------- *)
Definition c03_a_typeshare : attr := {| a_inner := false; a_meta := MPath [lit "typeshare"] |}.
Definition c03_a_skip (which : string) : attr :=
  {| a_inner := false; a_meta := MList [lit which] (Some [MPath [lit "skip"]]) (Some [(lit "skip", None)]) |}.
Definition c03_ty_u8 : ty := TPath [] (lit "u8") [].
Definition c03_fld (attrs : list attr) (name : string) : field := {| f_attrs := attrs; f_ident := Some (lit name); f_ty := c03_ty_u8 |}.
(* mod m { #[typeshare] struct A { x, #[serde(skip)] y, #[typeshare(skip)] z, w } struct B { q } fn f() { #[typeshare] type T = u8; } } *)
Definition c03_example_file : file :=
  {| fl_attrs := []; fl_paths := []; fl_marker := true;
     fl_items := [INest [IStruct [c03_a_typeshare] (lit "A") []
                           (FNamed [c03_fld [] "x"; c03_fld [c03_a_skip "serde"] "y"; c03_fld [c03_a_skip "typeshare"] "z"; c03_fld [] "w"]);
                         IStruct [] (lit "B") [] (FNamed [c03_fld [] "q"]);
                         INest [IType [c03_a_typeshare] (lit "T") [] c03_ty_u8]]] |}.

Example C03_items_nonvacuous :
  dom_C03_front c03_example_file = true /\
  List.length (expected_leaves [] c03_example_file) = 2%nat /\
  exists pd, parse_file uc_exec (fun _ => None) [] c03_example_file = Ok (Some pd) /\
             map (fun s => map (fun f => original (fid f)) (sfields s)) (p_structs pd) = [[lit "x"; lit "w"]] /\
             List.length (p_aliases pd) = 1%nat.
Proof. vm_compute. repeat split. eexists. repeat split. Qed.
