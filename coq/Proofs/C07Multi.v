(* C07, the BACK half of the multi-file (folder output) run: collect, multi_crates (order the import sets,
   reconcile), multi_plan, generate_crates with the six multi-file generators.

   1. Each multi-file generator - ts_generate_multi, kt_generate_multi, sw_generate_multi, go_generate_multi,
      py_generate_multi (Model/MultiFile.v) and Scala's sc_generate - is Ok, Err, or a Panic at exactly the sites
      its single-file sibling can reach, for EVERY printer state it is started in, crate name and import map: the
      generators share the item writers (whose lemmas in Proofs/C07{TypeScript,Kotlin,Swift,Python,Go,GoAscii}.v
      hold from every state); the import blocks are total string functions.
   2. The multi-file front end delivers the shape pd_wf per file (its visitor differs from the single-file one
      only in what it does with `use` items: Proofs/C14Front.v vims_all); the collector's `+=`, putting an
      import set - ANY import set - back, and reconcile keep it; multi_plan hands every crate its own data.
      Hence generate_crates over the plan never panics in TypeScript, Kotlin, Scala, Swift and Python, and in Go
      only at go.rs:594 with a non-empty acronym list and a non-ASCII string in some crate of the run.
   3. Witnesses (vm_compute): a three-crate workspace with cross-crate imports (one explicit, one glob) generated
      by the composed run in all six languages, and go.rs:594 reached through the multi-file run. *)
From Coq Require Import String List Bool Permutation.
From TS Require Import Model.Str Model.Outcome Model.Unicode Model.Syntax Model.Attrs Model.Types Model.Parse Model.Reconcile
                       Model.Collect Model.TopsortAlgo Model.Topsort Model.Lang.Common
                       Model.Lang.TypeScript Model.Lang.Kotlin Model.Lang.Scala Model.Lang.Swift Model.Lang.Python Model.Lang.Go
                       Model.MultiFile.
From TS Require Model.Writer.
From TS Require Import Spec.C07BackSpec Spec.C07MultiSpec.
From TS Require Import Proofs.C07 Proofs.C07Back Proofs.C07Monad Proofs.C07Topsort Proofs.C07Front Proofs.C07GoAscii
                       Proofs.C07TypeScript Proofs.C07Kotlin Proofs.C07Scala Proofs.C07Swift Proofs.C07Python Proofs.C07Go
                       Proofs.C07Pipeline.
From TS Require Proofs.C14Front Proofs.C14Witness.
Import ListNotations.

Notation s137 := "typescript.rs:137"%string (only parsing).
Notation s276 := "typescript.rs:276"%string (only parsing).
Notation s368 := "python.rs:368"%string (only parsing).
Notation s301 := "go.rs:301"%string (only parsing).
Notation s594 := "go.rs:594"%string (only parsing).

(* ====================================================================================== *)
(* 1. the six multi-file generators                                                         *)
(* ====================================================================================== *)

(* the item writers of a sorted crate, from ANY state *)
Lemma sorted_items_wf pd items it : topsort (items_of pd) = Ok items -> In it items -> item_wf it = false -> pd_wf pd = false.
Proof. intros E Hin Hf. eapply items_wf; [|exact Hf]. eapply topsort_items; eassumption. Qed.

(* ---- TypeScript: begin_file, write_imports, the items from state st0, end_file ---- *)
Theorem ts_generate_multi_po uc cfg (P : string -> Prop) st0 imports pd :
  (pd_wf pd = false -> P s137 /\ P s276) -> panics_only P (ts_generate_multi uc cfg st0 imports pd).
Proof.
  intros H. unfold ts_generate_multi. destruct (topsort_total (items_of pd)) as (items & E & _). rewrite E. cbn [bind].
  assert (Hm : mpo P (mconcat (ts_write_item uc cfg) items)).
  { apply mpo_mconcat. intros it Hin. apply ts_write_item_po. intros Ef. apply H. eapply sorted_items_wf; eassumption. }
  specialize (Hm st0). destruct (mconcat (ts_write_item uc cfg) items st0) as [[body st]| |]; auto.
Qed.

Theorem ts_generate_multi_panics_only uc cfg st0 imports pd :
  panics_only (fun s => pd_wf pd = false /\ (s = s137 \/ s = s276)) (ts_generate_multi uc cfg st0 imports pd).
Proof. apply ts_generate_multi_po. auto. Qed.

Theorem ts_generate_multi_never_panics uc cfg st0 imports pd :
  pd_wf pd = true -> no_panic (ts_generate_multi uc cfg st0 imports pd).
Proof. intros H. apply ts_generate_multi_po. rewrite H. discriminate. Qed.

(* ---- Kotlin: stateless; the package line with the crate name, the import lines ---- *)
Theorem kt_generate_multi_po uc cfg (P : string -> Prop) crate_name imports pd :
  panics_only P (kt_generate_multi uc cfg crate_name imports pd).
Proof.
  unfold kt_generate_multi. destruct (topsort_total (items_of pd)) as (items & E & _). rewrite E. cbn [bind].
  apply po_bind; [|intros; exact I]. unfold kt_concat. apply po_bind; [|intros; exact I].
  apply po_mapM. intros it _. apply kt_write_item_po.
Qed.

Theorem kt_generate_multi_never_panics uc cfg crate_name imports pd : no_panic (kt_generate_multi uc cfg crate_name imports pd).
Proof. apply kt_generate_multi_po. Qed.

(* ---- Swift: the CodableVoid flag is threaded, no import block ---- *)
Theorem sw_generate_multi_po uc cfg (P : string -> Prop) st0 pd : panics_only P (sw_generate_multi uc cfg st0 pd).
Proof.
  unfold sw_generate_multi. destruct (topsort_total (items_of pd)) as (items & E & _). rewrite E. cbn [bind].
  assert (Hm : mpo P (mconcat (sw_write_item uc cfg) items)).
  { apply mpo_mconcat. intros it _. apply sw_write_item_po. }
  specialize (Hm st0). destruct (mconcat (sw_write_item uc cfg) items st0) as [[body st]| |]; auto.
Qed.

Theorem sw_generate_multi_never_panics uc cfg st0 pd : no_panic (sw_generate_multi uc cfg st0 pd).
Proof. apply sw_generate_multi_po. Qed.

(* ---- Python: the import table and the custom translations are threaded ---- *)
Theorem py_generate_multi_po uc cfg (P : string -> Prop) st0 pd :
  (pd_wf pd = false -> P s368) -> panics_only P (py_generate_multi uc cfg st0 pd).
Proof.
  intros H. unfold py_generate_multi. destruct (topsort_total (items_of pd)) as (items & E & _). rewrite E. cbn [bind].
  assert (Hm : mpo P (mconcat (py_write_item uc cfg) items)).
  { apply mpo_mconcat. intros it Hin. apply py_write_item_po. intros Ef. apply H. eapply sorted_items_wf; eassumption. }
  specialize (Hm st0). destruct (mconcat (py_write_item uc cfg) items st0) as [[body st]| |]; auto.
Qed.

Theorem py_generate_multi_panics_only uc cfg st0 pd :
  panics_only (fun s => pd_wf pd = false /\ s = s368) (py_generate_multi uc cfg st0 pd).
Proof. apply py_generate_multi_po. auto. Qed.

Theorem py_generate_multi_never_panics uc cfg st0 pd : pd_wf pd = true -> no_panic (py_generate_multi uc cfg st0 pd).
Proof. intros H. apply py_generate_multi_po. rewrite H. discriminate. Qed.

(* ---- Scala: generate_types is overridden and stateless; the multi-file generator IS sc_generate ---- *)
Theorem sc_multi_gen_never_panics uc cfg (st : unit) crate_name imports pd : no_panic (sc_multi_gen uc cfg st crate_name imports pd).
Proof.
  unfold sc_multi_gen, keep_state. pose proof (sc_generate_never_panics uc cfg pd) as H.
  destruct (sc_generate uc cfg pd); auto.
Qed.

(* ---- Go: the import table is threaded ---- *)
Lemma go_run_mpo uc cfg (P : string -> Prop) cs items :
  (forall it, In it items -> mpo P (go_decl_of uc cfg cs it)) ->
  mpo P (mbind (go_begin_file cfg) (fun header =>
         mbind (mconcat (go_write_item uc cfg cs) items) (fun body =>
         mbind mget (fun imports => ret (header ++ go_write_all_imports imports ++ body))))).
Proof.
  intros H. apply mpo_bind; [unfold go_begin_file; apply mpo_bind; [apply go_add_import_po|intros; apply mpo_ret]|]. intros header.
  apply mpo_bind; [|intros; apply mpo_bind; [apply mpo_mget|intros; apply mpo_ret]].
  apply mpo_mconcat. intros it Hin. unfold go_write_item. apply mpo_bind; [|intros; apply mpo_ret]. now apply H.
Qed.

(* parametric in what the acronym conversion may do, as Proofs/C07Go.v *)
Theorem go_generate_multi_po uc cfg (P : string -> Prop) st0 pd :
  (forall name, panics_only P (go_convert_acronyms_to_uppercase uc (go_uppercase_acronyms cfg) name)) ->
  (pd_wf pd = false -> P s301) -> panics_only P (go_generate_multi uc cfg st0 pd).
Proof.
  intros Hconv H. unfold go_generate_multi. destruct (topsort_total (items_of pd)) as (items & E & _). rewrite E. cbn [bind]. cbv zeta.
  apply go_run_mpo. intros it Hin.
  apply go_decl_po; [exact Hconv|]. intros Ef. apply H. eapply sorted_items_wf; eassumption.
Qed.

(* ASCII input: the conversion is total whatever the acronyms *)
Theorem go_generate_multi_a uc cfg (P : string -> Prop) st0 pd : unicode_ok uc ->
  forallb (fun kv => str_ascii (snd kv)) (go_type_mappings cfg) = true ->
  forallb go_item_ascii (items_of pd) = true -> (pd_wf pd = false -> P s301) ->
  panics_only P (go_generate_multi uc cfg st0 pd).
Proof.
  intros Huc Hcfg Ha H. unfold go_generate_multi. destruct (topsort_total (items_of pd)) as (items & E & _). rewrite E. cbn [bind]. cbv zeta.
  apply go_run_mpo. intros it Hin.
  assert (Hit : In it (items_of pd)) by (eapply topsort_items; eassumption).
  apply go_decl_a; auto; [eapply forallb_In; eassumption|]. intros Ef. apply H. eapply items_wf; eassumption.
Qed.

(* every Unicode table: go.rs:594 needs an acronym, go.rs:301 parsed data outside the front end's range *)
Theorem go_generate_multi_panics_only_any_tables uc cfg st0 pd :
  panics_only (fun s => (s = s594 /\ go_uppercase_acronyms cfg <> []) \/ (s = s301 /\ pd_wf pd = false))
              (go_generate_multi uc cfg st0 pd).
Proof.
  apply go_generate_multi_po; [|auto].
  intros name. destruct (go_uppercase_acronyms cfg) as [|a r] eqn:E; [exact I|].
  eapply po_weaken; [|apply go_convert_sites]. intros s ->. left. split; [reflexivity|discriminate].
Qed.

(* Unicode tables that agree with ASCII below 128: go.rs:594 also needs a non-ASCII string among those converted *)
Theorem go_generate_multi_panics_only uc cfg st0 pd : unicode_ok uc ->
  panics_only (fun s => (s = s594 /\ go_uppercase_acronyms cfg <> [] /\ go_input_ascii (go_type_mappings cfg) pd = false) \/
                        (s = s301 /\ pd_wf pd = false))
              (go_generate_multi uc cfg st0 pd).
Proof.
  intros Huc. destruct (go_input_ascii (go_type_mappings cfg) pd) eqn:Ea.
  - unfold go_input_ascii in Ea. apply andb_true_iff in Ea as [Hc Hp]. apply go_generate_multi_a; auto.
  - eapply po_weaken; [|apply go_generate_multi_panics_only_any_tables]. cbv beta. intros s [[-> H]|H]; auto.
Qed.

Theorem go_generate_multi_never_panics_ascii uc cfg st0 pd : unicode_ok uc ->
  go_input_ascii (go_type_mappings cfg) pd = true -> pd_wf pd = true -> no_panic (go_generate_multi uc cfg st0 pd).
Proof.
  intros Huc Ha Hw. eapply po_weaken; [|apply (go_generate_multi_panics_only uc cfg st0 pd Huc)]. cbv beta.
  intros s [(_ & _ & H)|[_ H]]; congruence.
Qed.

Theorem go_generate_multi_never_panics_no_acronyms uc cfg st0 pd :
  go_uppercase_acronyms cfg = [] -> pd_wf pd = true -> no_panic (go_generate_multi uc cfg st0 pd).
Proof.
  intros Ha Hw. eapply po_weaken; [|apply go_generate_multi_panics_only_any_tables]. cbv beta.
  intros s [[_ H]|[_ H]]; [now apply H|congruence].
Qed.

(* the six, collected: for every Unicode table, configuration, printer state, crate name, import map and crate
   data, in the shape generate_crates takes *)
Theorem multi_generators_panics_only uc :
  (forall cfg st cn im pd, panics_only (fun s => pd_wf pd = false /\ (s = s137 \/ s = s276)) (ts_multi_gen uc cfg st cn im pd)) /\
  (forall cfg st cn im pd, no_panic (kt_multi_gen uc cfg st cn im pd)) /\
  (forall cfg st cn im pd, no_panic (sc_multi_gen uc cfg st cn im pd)) /\
  (forall cfg st cn im pd, no_panic (sw_multi_gen uc cfg st cn im pd)) /\
  (forall cfg st cn im pd, panics_only (fun s => pd_wf pd = false /\ s = s368) (py_multi_gen uc cfg st cn im pd)) /\
  (forall cfg st cn im pd, unicode_ok uc ->
     panics_only (fun s => (s = s594 /\ go_uppercase_acronyms cfg <> [] /\ go_input_ascii (go_type_mappings cfg) pd = false) \/
                           (s = s301 /\ pd_wf pd = false)) (go_multi_gen uc cfg st cn im pd)).
Proof.
  repeat split; intros cfg st cn im pd.
  - apply ts_generate_multi_panics_only.
  - unfold kt_multi_gen, keep_state. pose proof (kt_generate_multi_never_panics uc cfg cn im pd) as H.
    destruct (kt_generate_multi uc cfg cn im pd); auto.
  - apply sc_multi_gen_never_panics.
  - apply sw_generate_multi_never_panics.
  - apply py_generate_multi_panics_only.
  - apply go_generate_multi_panics_only.
Qed.

(* ====================================================================================== *)
(* 2. from the source files to the run result                                               *)
(* ====================================================================================== *)

(* the import set plays no part in the shape: ANY import set may be put back *)
Lemma with_imports_wf pd im : pd_wf (with_imports pd im) = pd_wf pd.
Proof. reflexivity. Qed.

(* ---- the multi-file front end delivers the shape, per file ---- *)
Theorem parse_file_multi_wf uc tstr T own ign ho_file f pd :
  parse_file_multi uc tstr T own ign ho_file f = Ok (Some pd) -> pd_wf pd = true.
Proof.
  unfold parse_file_multi. destruct (negb (fl_marker f)); [discriminate|].
  destruct (accepts T (fl_attrs f)).
  - destruct (visit_items_multi uc tstr T own ign (fl_items f) empty_parsed) as [pd1| |] eqn:E; cbn [bind]; try discriminate.
    destruct (parsed_is_empty _); [discriminate|]. intros [= <-].
    unfold reconcile_referenced_types. rewrite !with_imports_wf.
    destruct (C14Front.vims_all uc tstr T own ign (fl_items f) empty_parsed pd1 E) as (S1 & _).
    change (pd_wf (C14Front.core pd1) = true). eapply visit_items_wf; [|exact S1]. reflexivity.
  - cbn [bind]. destruct (parsed_is_empty empty_parsed); [discriminate|]. intros [= <-]. reflexivity.
Qed.

Definition crates_wf (cs : list (str * parsed)) : Prop := Forall (fun c => pd_wf (snd c) = true) cs.

(* ... and so does every arrival at the collector *)
Theorem parse_workspace_wf uc T ign ho_file ws : forall arrivals,
  parse_workspace uc T ign ho_file ws = Ok arrivals -> crates_wf arrivals.
Proof.
  induction ws as [|e r IH]; intros arrivals H; cbn [parse_workspace] in H.
  - injection H as <-. constructor.
  - destruct (find_crate_name (we_path e)) as [cn|]; [|now apply IH].
    destruct (parse_file_multi uc (we_tstr e) T cn ign ho_file (we_file e)) as [o| |] eqn:Ef; cbn [bind] in H; try discriminate.
    destruct (parse_workspace uc T ign ho_file r) as [rest| |]; cbn [bind] in H; try discriminate.
    injection H as <-. specialize (IH rest eq_refl). destruct o as [pd|]; [|exact IH].
    constructor; [|exact IH]. cbn [snd]. eapply parse_file_multi_wf. exact Ef.
Qed.

(* ---- the collector: `entry(crate).or_default() += parsed` ---- *)
Lemma crate_upsert_wf m cn pd : crates_wf m -> pd_wf pd = true -> crates_wf (crate_upsert m cn pd).
Proof.
  intros Hm Hp. induction Hm as [|[k v] r Hv Hr IH]; cbn [crate_upsert].
  - constructor; [|constructor]. cbn [snd]. now apply pd_add_wf.
  - cbn [snd] in Hv. destruct (str_eqb k cn).
    + constructor; [|exact Hr]. cbn [snd]. now apply pd_add_wf.
    + destruct (str_ltb cn k).
      * constructor; [cbn [snd]; now apply pd_add_wf|]. constructor; assumption.
      * constructor; assumption.
Qed.

Theorem collect_wf arrivals : crates_wf arrivals -> crates_wf (collect arrivals).
Proof.
  unfold collect. assert (H0 : crates_wf []) by constructor. revert H0. generalize (@nil (str * parsed)) as m.
  induction arrivals as [|a r IH]; intros m Hm H; cbn [fold_left]; [exact Hm|].
  apply Forall_cons_iff in H as [Ha Hr]. apply IH; [|exact Hr]. now apply crate_upsert_wf.
Qed.

(* ---- a per-crate rewriting that keeps the shape keeps it for the whole map ---- *)
Lemma crates_map_wf (g : str -> parsed -> parsed) cs :
  (forall cn pd, pd_wf pd = true -> pd_wf (g cn pd) = true) ->
  crates_wf cs -> crates_wf (map (fun c => (fst c, g (fst c) (snd c))) cs).
Proof. intros Hg H. induction H as [|c r Hc _ IH]; cbn [map]; constructor; [cbn [snd]; now apply Hg|exact IH]. Qed.

(* the multi-file reconcile is reconcile_aliases = reconcile_crate on every crate (the function of
   Proofs/C07Front.v reconcile_crate_wf, here with each crate's own name and the renames of all crates) *)
Theorem reconcile_aliases_wf cs : crates_wf cs -> crates_wf (reconcile_aliases cs).
Proof.
  intros H. unfold reconcile_aliases. apply (crates_map_wf (reconcile_crate (collect_serde_renames cs))); [|exact H].
  intros cn pd. apply reconcile_crate_wf.
Qed.

Theorem order_imports_wf ho_crate cs : crates_wf cs -> crates_wf (order_imports ho_crate cs).
Proof.
  intros H. unfold order_imports. apply (crates_map_wf (fun _ pd => with_imports pd (imports_iter ho_crate pd))); [|exact H].
  intros _ pd Hp. exact Hp.
Qed.

(* what main.rs hands to the writer's loop: every crate has the shape *)
Theorem multi_crates_wf ho_crate arrivals : crates_wf arrivals -> crates_wf (multi_crates ho_crate arrivals).
Proof. intros H. unfold multi_crates. apply reconcile_aliases_wf, order_imports_wf, collect_wf, H. Qed.

Theorem multi_file_crates_wf uc T ign ho_file ho_crate ws cs :
  multi_file_crates uc T ign ho_file ho_crate ws = Ok cs -> crates_wf cs.
Proof.
  unfold multi_file_crates. destruct (parse_workspace uc T ign ho_file ws) as [arrivals| |] eqn:E; cbn [bind]; try discriminate.
  intros [= <-]. apply multi_crates_wf. eapply parse_workspace_wf. exact E.
Qed.

(* the stages between the per-file parsers and the generators, collected *)
Theorem multi_stages_keep_wf :
  (forall pd im, pd_wf (with_imports pd im) = pd_wf pd) /\
  (forall arrivals : list (str * parsed),
     Forall (fun a => pd_wf (snd a) = true) arrivals -> Forall (fun c => pd_wf (snd c) = true) (collect arrivals)) /\
  (forall ho_crate (cs : crates),
     Forall (fun c => pd_wf (snd c) = true) cs -> Forall (fun c => pd_wf (snd c) = true) (order_imports ho_crate cs)) /\
  (forall cs : crates,
     Forall (fun c => pd_wf (snd c) = true) cs -> Forall (fun c => pd_wf (snd c) = true) (reconcile_aliases cs)) /\
  (forall uc T ign ho_file ho_crate ws cs,
     multi_file_crates uc T ign ho_file ho_crate ws = Ok cs -> Forall (fun c => pd_wf (snd c) = true) cs).
Proof.
  split; [exact with_imports_wf|]. split; [exact collect_wf|]. split; [exact order_imports_wf|].
  split; [exact reconcile_aliases_wf|exact multi_file_crates_wf].
Qed.

Lemma multi_file_crates_total uc T ign ho_file ho_crate ws : exists cs, multi_file_crates uc T ign ho_file ho_crate ws = Ok cs.
Proof. unfold multi_file_crates. destruct (parse_workspace_total uc T ign ho_file ws) as [arrivals ->]. cbn [bind]. eauto. Qed.

(* ---- generate_crates: the run ends as the first generator call that does not return Ok ends ---- *)
Section Crates.
Context {St : Type}.
Variable gen : St -> str -> scoped -> parsed -> outcome (str * St).
Variable P : string -> Prop.

Lemma generate_crates_po plan :
  (forall p, In p plan -> forall st, panics_only P (gen st (op_crate p) (op_imports p) (op_data p))) ->
  forall st, panics_only P (snd (generate_crates gen st plan)).
Proof.
  induction plan as [|p r IH]; intros H st; cbn [generate_crates]; [exact I|].
  pose proof (H p (or_introl eq_refl) st) as Hp.
  destruct (gen st (op_crate p) (op_imports p) (op_data p)) as [[text st1]|e|s]; cbn [snd]; auto.
  specialize (IH (fun q Hq => H q (or_intror Hq)) st1). destruct (generate_crates gen st1 r) as [rest fin]. exact IH.
Qed.

(* whatever a generator guarantees on the crates the front half delivers - for every state and import map - the
   whole run guarantees *)
Lemma multi_file_status_po st0 uc T ign ho_file ho_crate hc l ws :
  (forall cs c st im, multi_file_crates uc T ign ho_file ho_crate ws = Ok cs -> In c cs -> pd_wf (snd c) = true ->
     panics_only P (gen st (fst c) im (snd c))) ->
  panics_only P (multi_file_status gen st0 uc T ign ho_file ho_crate hc l ws).
Proof.
  intros Hgen. unfold multi_file_status, multi_file_run.
  destruct (multi_file_crates_total uc T ign ho_file ho_crate ws) as [cs E]. rewrite E. cbn [bind].
  destruct (first_parse_error cs); [exact I|]. cbn [bind].
  apply generate_crates_po. intros p Hp st. unfold multi_plan in Hp. apply in_map_iff in Hp as (c & <- & Hc).
  cbn [op_crate op_imports op_data]. apply (Hgen cs c st _ E Hc).
  pose proof (multi_file_crates_wf _ _ _ _ _ _ _ E) as Hw. unfold crates_wf in Hw. rewrite Forall_forall in Hw. now apply Hw.
Qed.
End Crates.

(* the one class left: Go with a non-empty acronym list AND a non-ASCII string among those it converts, in some crate *)
Definition go_594_multi_class (uc : unicode) (T ign : list str) (ho_file ho_crate : list imported -> list imported)
    (c : go_config) (ws : list ws_entry) (s : string) : Prop :=
  s = s594 /\ go_uppercase_acronyms c <> [] /\ go_multi_run_ascii uc T ign ho_file ho_crate (go_type_mappings c) ws = false.

Lemma go_multi_status_po uc T ign ho_file ho_crate hc l c st0 ws : unicode_ok uc ->
  panics_only (go_594_multi_class uc T ign ho_file ho_crate c ws)
              (multi_file_status (go_multi_gen uc c) st0 uc T ign ho_file ho_crate hc l ws).
Proof.
  intros Huc. apply multi_file_status_po. intros cs cr st im E Hin Hw. unfold go_multi_gen.
  eapply po_weaken; [|apply (go_generate_multi_panics_only uc c st (snd cr) Huc)]. cbv beta.
  intros s [(-> & Hn & Ha)|[_ H]]; [|congruence].
  split; [reflexivity|]. split; [exact Hn|]. unfold go_multi_run_ascii. rewrite E.
  eapply forallb_false_In; [exact Hin|exact Ha].
Qed.

(* THE COMPOSITION (multi-file mode): for every workspace, --target-os list, ignore list, iteration order of the
   three hash containers, language tag (it names the files), configuration and initial printer state, the run
   parse_workspace -> collect -> order the import sets -> reconcile -> check_parse_errors -> plan ->
   generate_crates ends Ok or Err in TypeScript, Kotlin, Scala, Swift and Python; in Go a panic can only be
   go.rs:594, with acronyms and a non-ASCII converted string in some crate of the run *)
Theorem multi_workspace_pipeline uc T ign ho_file ho_crate hc l ws :
  (forall c st, no_panic (multi_file_status (ts_multi_gen uc c) st uc T ign ho_file ho_crate hc l ws)) /\
  (forall c st, no_panic (multi_file_status (kt_multi_gen uc c) st uc T ign ho_file ho_crate hc l ws)) /\
  (forall c st, no_panic (multi_file_status (sc_multi_gen uc c) st uc T ign ho_file ho_crate hc l ws)) /\
  (forall c st, no_panic (multi_file_status (sw_multi_gen uc c) st uc T ign ho_file ho_crate hc l ws)) /\
  (forall c st, no_panic (multi_file_status (py_multi_gen uc c) st uc T ign ho_file ho_crate hc l ws)) /\
  (forall c st, unicode_ok uc ->
     panics_only (go_594_multi_class uc T ign ho_file ho_crate c ws)
                 (multi_file_status (go_multi_gen uc c) st uc T ign ho_file ho_crate hc l ws)).
Proof.
  destruct (multi_generators_panics_only uc) as (Hts & Hkt & Hsc & Hsw & Hpy & _).
  repeat split; intros c st; [..|apply go_multi_status_po]; apply multi_file_status_po; intros cs cr st1 im _ _ Hw.
  - eapply po_weaken; [|apply Hts]. cbv beta. intros s [H _]. congruence.
  - apply Hkt.
  - apply Hsc.
  - apply Hsw.
  - eapply po_weaken; [|apply Hpy]. cbv beta. intros s [H _]. congruence.
Qed.

(* Go, the two ways out of the class *)
Corollary go_multi_pipeline_never_panics uc T ign ho_file ho_crate hc l c st ws : unicode_ok uc ->
  go_uppercase_acronyms c = [] \/ go_multi_run_ascii uc T ign ho_file ho_crate (go_type_mappings c) ws = true ->
  no_panic (multi_file_status (go_multi_gen uc c) st uc T ign ho_file ho_crate hc l ws).
Proof.
  intros Huc H. eapply po_weaken; [|apply (go_multi_status_po uc T ign ho_file ho_crate hc l c st ws Huc)]. unfold go_594_multi_class.
  intros s (_ & Hn & Ha). destruct H as [H|H]; [now apply Hn|congruence].
Qed.

(* the run itself (files handed to the writer + status) always returns: Ok or the first parse error *)
Theorem multi_file_run_no_panic {St} (gen : St -> str -> scoped -> parsed -> outcome (str * St)) st0 uc T ign ho_file ho_crate hc l ws :
  no_panic (multi_file_run gen st0 uc T ign ho_file ho_crate hc l ws).
Proof.
  unfold multi_file_run. destruct (multi_file_crates_total uc T ign ho_file ho_crate ws) as [cs ->]. cbn [bind].
  destruct (first_parse_error cs); exact I.
Qed.

(* ====================================================================================== *)
(* 3. witnesses                                                                              *)
(* ====================================================================================== *)
(* alpha/src/lib.rs:  #[typeshare] struct Item { kind: Kind, tags: Vec<Option<String>> }
                      #[typeshare] enum Kind { Big, Small }
                      mod m { #[typeshare] #[serde(tag = "t", content = "c")]
                              enum Shape { Empty, Boxed(Box<u8>), Named { some_field: Item } } }
   beta/src/lib.rs:   use alpha::Item;
                      #[typeshare] struct Holder { item: Item }
   app/src/main.rs:   use alpha::*;  use beta::Holder;  use foo;
                      #[typeshare] struct App { holder: Holder, kind: Kind }
                      #[typeshare] type Holders = Vec<Holder>;
   ignored/lib.rs:    (not under any src: skipped) *)
Definition m_entry (components : list str) (items : list item) (paths : list path) : ws_entry :=
  {| we_path := components;we_file := {| fl_attrs := []; fl_items := items; fl_paths := paths; fl_marker := true |}; we_tstr := no_tstr |}.
Definition m_struct (name : string) (fs : list field) : item := IStruct [a_ts] (lit name) [] (FNamed fs).
Definition m_use (c n : string) : item := IUse (UPath (lit c) (UName (lit n))).

Definition ws_three : list ws_entry :=
  [ m_entry [lit "app"; lit "src"; lit "main.rs"]
      [IUse (UPath (lit "alpha") UGlob); m_use "beta" "Holder"; IUse (UName (lit "foo"));
       m_struct "App" [fld [] (lit "holder") (w_path "Holder" []); fld [] (lit "kind") (w_path "Kind" [])];
       IType [a_ts] (lit "Holders") [] (w_path "Vec" [Some (w_path "Holder" [])])]
      [[lit "typeshare"]; [lit "Holder"]; [lit "Kind"]; [lit "Vec"]];
    m_entry [lit "ignored"; lit "lib.rs"] [m_struct "Lost" [fld [] (lit "a") t_u8]] [[lit "typeshare"]; [lit "u8"]];
    m_entry [lit "beta"; lit "src"; lit "lib.rs"]
      [m_use "alpha" "Item"; m_struct "Holder" [fld [] (lit "item") (w_path "Item" [])]]
      [[lit "typeshare"]; [lit "Item"]];
    m_entry [lit "alpha"; lit "src"; lit "lib.rs"]
      [m_struct "Item" [fld [] (lit "kind") (w_path "Kind" []);
                        fld [] (lit "tags") (w_path "Vec" [Some (w_path "Option" [Some (w_path "String" [])])])];
       IEnum [a_ts] (lit "Kind") [] [w_variant "Big" FUnit; w_variant "Small" FUnit];
       INest [IEnum [a_ts; a_tagc] (lit "Shape") []
                [w_variant "Empty" FUnit;
                 w_variant "Boxed" (FUnnamed [fld [] (lit "x") (w_path "Box" [Some t_u8])]);
                 w_variant "Named" (FNamed [fld [] (lit "some_field") (w_path "Item" [])])]]]
      [[lit "typeshare"]; [lit "Kind"]; [lit "Vec"]; [lit "Option"]; [lit "String"]; [lit "serde"]; [lit "Box"]; [lit "u8"]; [lit "Item"]] ].

Definition idl {A} (l : list A) : list A := l.

(* the composed run on a fixed workspace: no --target-os, nothing ignored, insertion order at the hash containers *)
Definition m_status {St} (gen : St -> str -> scoped -> parsed -> outcome (str * St)) (st0 : St) (l : lang) (ws : list ws_entry) :=
  multi_file_status gen st0 uc_exec [] [] idl idl idl l ws.
Definition m_files {St} (gen : St -> str -> scoped -> parsed -> outcome (str * St)) (st0 : St) (l : lang) (ws : list ws_entry) :=
  all_generated (multi_file_run gen st0 uc_exec [] [] idl idl idl l ws).

Definition m_go_cfg (acrs : list str) : go_config := w_go_acr acrs.

(* the import lists of the plan: (module, name) per crate *)
Definition m_plan_imports (l : lang) (ws : list ws_entry) : list (str * list (str * str)) :=
  match multi_file_crates uc_exec [] [] idl idl ws with
  | Ok cs => map (fun p => (op_crate p, scoped_pairs (op_imports p))) (multi_plan l idl cs)
  | _ => []
  end.

(* NON-VACUITY: the three crates (the fourth file is outside any src) are parsed, collected in crate order alpha,
   app, beta, every crate has the front end's shape and no parse error; the plan gives app the imports of alpha's
   three types (the glob) and beta's Holder, beta the import of alpha's Item; the composed run completes with all
   three files generated (non-empty) in all six languages - in Go with the acronym list ["id"; "aé"]: the input is
   ASCII, so no panic although an acronym is not *)
Example multi_workspace_pipeline_nonvacuous :
  (match multi_file_crates uc_exec [] [] idl idl ws_three with
   | Ok cs => map fst cs = [lit "alpha"; lit "app"; lit "beta"] /\ forallb (fun c => pd_wf (snd c)) cs = true /\
              first_parse_error cs = None /\ map (fun c => List.length (items_of (snd c))) cs = [3; 2; 1]%nat
   | _ => False
   end) /\
  m_plan_imports TypeScript ws_three =
    [(lit "alpha", []);
     (lit "app", [(lit "alpha", lit "Item"); (lit "alpha", lit "Kind"); (lit "alpha", lit "Shape"); (lit "beta", lit "Holder")]);
     (lit "beta", [(lit "alpha", lit "Item")])] /\
  m_files (ts_multi_gen uc_exec w_ts_cfg) [] TypeScript ws_three = ([lit "alpha.ts"; lit "app.ts"; lit "beta.ts"], true) /\
  m_files (kt_multi_gen uc_exec C07Back.w_kt_cfg) tt Kotlin ws_three = ([lit "alpha.kt"; lit "app.kt"; lit "beta.kt"], true) /\
  m_files (sc_multi_gen uc_exec (C07Back.w_sc_cfg (lit "p"))) tt Scala ws_three = ([lit "alpha.scala"; lit "app.scala"; lit "beta.scala"], true) /\
  m_files (sw_multi_gen uc_exec C07Back.w_sw_cfg) false Swift ws_three = ([lit "Alpha.swift"; lit "App.swift"; lit "Beta.swift"], true) /\
  m_files (py_multi_gen uc_exec w_py_cfg) py_empty_state Python ws_three = ([lit "alpha.py"; lit "app.py"; lit "beta.py"], true) /\
  m_files (go_multi_gen uc_exec (m_go_cfg [lit "id"; lit "a" ++ [233%N]])) [] Go ws_three = ([lit "alpha.go"; lit "app.go"; lit "beta.go"], true) /\
  go_multi_run_ascii uc_exec [] [] idl idl [] ws_three = true.
Proof. vm_compute. repeat split. Qed.

(* a parse error in one file of one crate: the run ends with that error (check_parse_errors), nothing is generated *)
Definition ws_parse_error : list ws_entry :=
  ws_three ++ [m_entry [lit "beta"; lit "src"; lit "bad.rs"]
                 [m_struct "Bad" [fld [] (lit "a") (w_path "Vec" [])]] [[lit "typeshare"]; [lit "Vec"]]].
Example multi_parse_error_is_diagnostic :
  m_status (ts_multi_gen uc_exec w_ts_cfg) [] TypeScript ws_parse_error = Err (EUnsupportedType [lit "Vec"]) /\
  m_files (ts_multi_gen uc_exec w_ts_cfg) [] TypeScript ws_parse_error = ([], false).
Proof. vm_compute. repeat split. Qed.

(* a generation error in the SECOND crate (a constant, Kotlin): alpha.kt was generated, app.kt failed, beta is not
   reached; the status is the error naming the constant *)
Definition ws_const : list ws_entry :=
  ws_three ++ [m_entry [lit "app"; lit "src"; lit "k.rs"]
                 [IConst [a_ts] (lit "X") (w_path "u32" []) (CELit (CInt (Some (Zpos 5))))] [[lit "typeshare"]; [lit "u32"]]].
Example multi_generation_error_is_diagnostic :
  m_status (kt_multi_gen uc_exec C07Back.w_kt_cfg) tt Kotlin ws_const = Err (EConstUnsupported (lit "X")) /\
  match multi_file_run (kt_multi_gen uc_exec C07Back.w_kt_cfg) tt uc_exec [] [] idl idl idl Kotlin ws_const with
  | Ok ([(f1, Writer.Generated (_ :: _)); (f2, Writer.GenFailed)], Err _) => f1 = lit "alpha.kt" /\ f2 = lit "app.kt"
  | _ => False
  end.
Proof. vm_compute. repeat split. Qed.

(* go.rs:594 IS reached through the multi-file run (recorded finding C07-go.rs:594):
     gamma/src/lib.rs:  #[typeshare] struct AéX { a: u8 }
   next to the three crates above, --lang go with uppercase_acronyms = ["aé"]: alpha.go, app.go and beta.go are
   generated, then the run panics in crate gamma; the run is in the class (a crate is not ASCII); without the
   acronym all four files are generated *)
Definition ws_594 : list ws_entry :=
  ws_three ++ [m_entry [lit "gamma"; lit "src"; lit "lib.rs"]
                 [IStruct [a_ts] (lit "A" ++ [233%N] ++ lit "X") [] (FNamed [fld [] (lit "a") t_u8])] [[lit "typeshare"]; [lit "u8"]]].
Example go_594_reached_multi :
  m_status (go_multi_gen uc_exec (m_go_cfg [lit "a" ++ [233%N]])) [] Go ws_594 = Panic "go.rs:594" /\
  go_multi_run_ascii uc_exec [] [] idl idl [] ws_594 = false /\
  match multi_file_run (go_multi_gen uc_exec (m_go_cfg [lit "a" ++ [233%N]])) [] uc_exec [] [] idl idl idl Go ws_594 with
  | Ok (files, Panic _) => map fst files = [lit "alpha.go"; lit "app.go"; lit "beta.go"; lit "gamma.go"]
  | _ => False
  end /\
  m_files (go_multi_gen uc_exec (m_go_cfg [])) [] Go ws_594 = ([lit "alpha.go"; lit "app.go"; lit "beta.go"; lit "gamma.go"], true).
Proof. vm_compute. repeat split. Qed.
