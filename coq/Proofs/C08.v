(* C08: an annotated item that uses an unsupported construct in a non-skipped position never
   parses successfully (so it is reported, C03/C08_cli), outside the two recorded finding classes. *)
From Coq Require Import String Lia.
From TS Require Import Model.Str Model.Outcome Model.Unicode Model.Syntax Model.Attrs Model.TargetOs Model.Types Model.Parse.
From TS Require Import Spec.Serde Spec.TargetOsRule Spec.C08Spec.
From TS Require Import Proofs.C13 Proofs.FrontAttrs Proofs.FrontTypes Proofs.FrontItems.

Section U.
Variable uc : unicode.
Variable tstr : str -> option ty.
Variable T : list str.
(* the skip decision of the code is the documented one (always true without --target-os, and for
   every attribute list whose cfg predicates parse: C13) *)
Hypothesis Hskip : forall attrs, is_skipped T attrs = skipped8 T attrs.

Lemma type_bad_not_ok attrs declared : type_bad uc tstr attrs declared = true ->
  is_ok (match get_field_type_override uc attrs with
         | Some s => parse_ty_str tstr s
         | None => parse_ty declared
         end) = false.
Proof.
  unfold type_bad, override_of, get_field_type_override.
  destruct (get_serialized_as_type uc attrs) as [s|].
  - unfold parse_ty_str. destruct (tstr s) as [t|]; [|reflexivity]. apply unsupported_never_ok.
  - apply unsupported_never_ok.
Qed.

Lemma field_bad_not_ok cf ra f : field_bad uc tstr T cf f = true ->
  is_skipped T (f_attrs f) = false /\ is_ok (parse_field uc tstr cf ra f) = false.
Proof.
  unfold field_bad. intros H. apply andb_true_iff in H as [Hs H]. rewrite Hskip. apply negb_true_iff in Hs.
  split; [exact Hs|]. unfold parse_field, field_type.
  apply orb_true_iff in H as [H|H].
  - apply type_bad_not_ok in H. destruct (match get_field_type_override uc (f_attrs f) with Some s => _ | None => _ end);
      [discriminate|reflexivity|reflexivity].
  - apply andb_true_iff in H as [-> Hf]. rewrite serde_flatten_spec, Hf.
    destruct (match get_field_type_override uc (f_attrs f) with Some s => _ | None => _ end); reflexivity.
Qed.

Lemma fields_bad_not_ok cf ra l : existsb (field_bad uc tstr T cf) l = true ->
  is_ok (mapM (parse_field uc tstr cf ra) (filter (fun f => negb (is_skipped T (f_attrs f))) l)) = false.
Proof.
  intros H. apply existsb_exists in H as (f & Hin & Hb).
  destruct (field_bad_not_ok cf ra f Hb) as [Hs Hn].
  apply mapM_not_ok with (x := f); [|exact Hn]. apply filter_In. split; [exact Hin|now rewrite Hs].
Qed.

Lemma serialized_as_bad attrs s : get_serialized_as_type uc attrs = Some s ->
  match tstr s with None => true | Some t => has_unsupported t end = true ->
  is_ok (parse_ty_str tstr s) = false.
Proof.
  intros _ H. unfold parse_ty_str. destruct (tstr s) as [t|]; [|reflexivity]. now apply unsupported_never_ok.
Qed.

Lemma variant_no_flatten (v : variant) :
  (negb (skipped8 T (v_attrs v)) &&
   match v_fields v with
   | FNamed l => existsb (fun f => negb (skipped8 T (f_attrs f)) && bare_flatten (f_attrs f)) l
   | _ => false
   end) = false ->
  variant_bad uc tstr T v = true ->
  is_skipped T (v_attrs v) = false /\ forall ra, is_ok (parse_enum_variant uc tstr T ra v) = false.
Proof.
  intros Hnf Hb. unfold variant_bad in Hb. apply andb_true_iff in Hb as [Hs Hb].
  rewrite Hs in Hnf. cbn [andb] in Hnf. apply negb_true_iff in Hs. rewrite Hskip. split; [exact Hs|].
  intros ra. unfold parse_enum_variant.
  destruct (get_ident uc (Some (v_ident v)) (v_attrs v) ra); cbn [bind]; try reflexivity.
  destruct (v_fields v) as [l|l|]; [| |discriminate].
  - (* struct variant: some non-skipped field has a bad type (flatten excluded by Hnf) *)
    assert (Hm : is_ok (mapM (parse_field uc tstr false (serde_rename_all uc (v_attrs v)))
                             (filter (fun f => negb (is_skipped T (f_attrs f))) l)) = false).
    { apply existsb_exists in Hb as (f & Hin & Hf).
      unfold field_bad in Hf. apply andb_true_iff in Hf as [Hfs Hf].
      assert (Hty : type_bad uc tstr (f_attrs f) (f_ty f) = true).
      { apply orb_true_iff in Hf as [Hf|Hf]; [exact Hf|]. cbn [andb] in Hf.
        exfalso. assert (existsb (fun f => negb (skipped8 T (f_attrs f)) && bare_flatten (f_attrs f)) l = true).
        { apply existsb_exists. exists f. split; [exact Hin|]. now rewrite Hfs, Hf. }
        congruence. }
      apply mapM_not_ok with (x := f).
      - apply filter_In. split; [exact Hin|]. rewrite Hskip. exact Hfs.
      - unfold parse_field, field_type. apply type_bad_not_ok in Hty.
        destruct (match get_field_type_override uc (f_attrs f) with Some s => _ | None => _ end);
          [discriminate|reflexivity|reflexivity]. }
    destruct (mapM _ _); [discriminate|reflexivity|reflexivity].
  - destruct l as [|f [|f2 r]]; [discriminate| |reflexivity].
    unfold field_type. apply type_bad_not_ok in Hb.
    destruct (match get_field_type_override uc (f_attrs f) with Some s => _ | None => _ end);
      [discriminate|reflexivity|reflexivity].
Qed.

Definition parse_leaf8 (it : item) : outcome ritem :=
  match it with
  | IStruct a i g fs => parse_struct uc tstr T a i g fs
  | IEnum a i g vs => parse_enum uc tstr T a i g vs
  | IType a i g t => parse_type_alias uc tstr a i g t
  | IConst a i t e => parse_const uc tstr a i t e
  | _ => Panic "not a leaf"
  end.

(* kind of a parsed variant is decided by the syntax of its fields *)
Lemma variant_kind ra v rv : parse_enum_variant uc tstr T ra v = Ok rv ->
  match rv with VUnit _ => v_fields v = FUnit | _ => v_fields v <> FUnit end.
Proof.
  unfold parse_enum_variant. destruct (get_ident _ _ _ _); cbn [bind]; try discriminate.
  destruct (v_fields v) as [l|l|].
  - destruct (mapM _ _); cbn [bind]; try discriminate. intros [= <-]. discriminate.
  - destruct l as [|f [|? ?]]; try discriminate. destruct (field_type uc tstr f); cbn [bind]; try discriminate.
    intros [= <-]. discriminate.
  - intros [= <-]. reflexivity.
Qed.

Lemma all_unit_iff vs variants ra :
  mapM (parse_enum_variant uc tstr T ra) (filter (fun v => negb (is_skipped T (v_attrs v))) vs) = Ok variants ->
  forallb (fun v => match v with VUnit _ => true | _ => false end) variants = negb (existsb (carries_data T) vs).
Proof.
  revert variants; induction vs as [|v vs IH]; intros variants; cbn [filter existsb].
  - cbn [mapM]. intros [= <-]. reflexivity.
  - unfold carries_data at 1. rewrite <- Hskip.
    destruct (is_skipped T (v_attrs v)); cbn [negb andb orb].
    + apply IH.
    + cbn [mapM]. destruct (parse_enum_variant uc tstr T ra v) as [rv| |] eqn:Ev; cbn [bind]; try discriminate.
      destruct (mapM _ _) as [rest| |] eqn:Er; cbn [bind]; try discriminate.
      intros [= <-]. cbn [forallb]. rewrite (IH rest eq_refl).
      apply variant_kind in Ev. destruct rv; destruct (v_fields v); try congruence; reflexivity.
Qed.

Theorem unsupported_item_never_ok it :
  item_unsupported uc tstr T it = true -> known_C08 T it = None -> is_ok (parse_leaf8 it) = false.
Proof.
  intros Hu Hk. destruct it as [attrs ident gens fs|attrs ident gens vs|attrs ident gens t|attrs ident t e|u|inner];
    cbn [item_unsupported parse_leaf8] in *; try discriminate.
  - (* struct *)
    unfold parse_struct, override_of in *. destruct (get_serialized_as_type uc attrs) as [s|] eqn:Es.
    + destruct (get_ident _ _ _ _); cbn [bind]; try reflexivity.
      pose proof (serialized_as_bad attrs s Es Hu) as Hn.
      destruct (parse_ty_str tstr s); [discriminate|reflexivity|reflexivity].
    + destruct fs as [l|l|]; [| |discriminate].
      * pose proof (fields_bad_not_ok true (serde_rename_all uc attrs) l Hu) as Hn.
        destruct (mapM _ _); [discriminate|reflexivity|reflexivity].
      * destruct l as [|f [|f2 r]]; [discriminate| |reflexivity].
        unfold field_type. apply type_bad_not_ok in Hu.
        destruct (match get_field_type_override uc (f_attrs f) with Some s => _ | None => _ end);
          [discriminate|reflexivity|reflexivity].
  - (* enum *)
    unfold parse_enum, override_of in *. destruct (get_serialized_as_type uc attrs) as [s|] eqn:Es.
    + destruct (get_ident _ _ _ _); cbn [bind]; try reflexivity.
      pose proof (serialized_as_bad attrs s Es Hu) as Hn.
      destruct (parse_ty_str tstr s); [discriminate|reflexivity|reflexivity].
    + cbn [known_C08] in Hk.
      destruct (existsb _ vs) eqn:Eflat in Hk; [discriminate|].
      destruct (mapM _ _) as [variants| |] eqn:Em; cbn [bind]; try reflexivity.
      apply orb_true_iff in Hu as [Hu|Hu].
      * (* a bad variant: mapM cannot have succeeded *)
        exfalso. apply existsb_exists in Hu as (v & Hin & Hv).
        assert (Hnf : (negb (skipped8 T (v_attrs v)) &&
                       match v_fields v with
                       | FNamed l => existsb (fun f => negb (skipped8 T (f_attrs f)) && bare_flatten (f_attrs f)) l
                       | _ => false
                       end) = false).
        { destruct (negb _ && _) eqn:E; [|reflexivity].
          assert (existsb (fun v => negb (skipped8 T (v_attrs v)) &&
                     match v_fields v with
                     | FNamed l => existsb (fun f => negb (skipped8 T (f_attrs f)) && bare_flatten (f_attrs f)) l
                     | _ => false end) vs = true) by (apply existsb_exists; eauto).
          congruence. }
        destruct (variant_no_flatten v Hnf Hv) as [Hs Hn].
        assert (Hm : is_ok (mapM (parse_enum_variant uc tstr T (serde_rename_all uc attrs))
                                 (filter (fun v => negb (is_skipped T (v_attrs v))) vs)) = false).
        { apply mapM_not_ok with (x := v); [|apply Hn]. apply filter_In. split; [exact Hin|now rewrite Hs]. }
        rewrite Em in Hm. discriminate.
      * destruct (get_ident _ _ _ _); cbn [bind]; try reflexivity.
        rewrite (all_unit_iff vs variants _ Em), tag_key_spec, content_key_spec.
        destruct (existsb (carries_data T) vs); cbn [negb].
        -- destruct (serde_nv attrs (lit "tag")); cbn [option_map]; [|reflexivity].
           destruct (serde_nv attrs (lit "content")); cbn [option_map]; [discriminate|reflexivity].
        -- destruct (serde_nv attrs (lit "tag")); cbn [option_map]; [reflexivity|].
           destruct (serde_nv attrs (lit "content")); cbn [option_map]; [reflexivity|discriminate].
  - (* alias *)
    unfold parse_type_alias. unfold type_bad, override_of in Hu.
    destruct (get_serialized_as_type uc attrs) as [s|].
    + unfold parse_ty_str. destruct (tstr s) as [t'|]; [|reflexivity].
      pose proof (unsupported_never_ok t' Hu). destruct (parse_ty t'); [discriminate|reflexivity|reflexivity].
    + pose proof (unsupported_never_ok t Hu). destruct (parse_ty t); [discriminate|reflexivity|reflexivity].
  - (* const *)
    unfold parse_const. cbn [known_C08] in Hk.
    destruct (ce_first_lit e) as [[[z|]|]|]; cbn [bind]; try reflexivity.
    apply orb_true_iff in Hu as [Hu|Hu].
    + unfold type_bad, override_of in Hu. destruct (get_serialized_as_type uc attrs) as [s|].
      * unfold parse_ty_str. destruct (tstr s) as [t'|]; [|reflexivity].
        pose proof (unsupported_never_ok t' Hu). destruct (parse_ty t'); [discriminate|reflexivity|reflexivity].
      * pose proof (unsupported_never_ok t Hu). destruct (parse_ty t); [discriminate|reflexivity|reflexivity].
    + destruct (ce_plain e); [discriminate|]. unfold cls8 in Hk. discriminate.
Qed.
End U.

(* without --target-os the hypothesis on the skip decision holds outright *)
Lemma skip_no_target attrs : is_skipped [] attrs = skipped8 [] attrs.
Proof. unfold is_skipped, skipped8, accepts. cbn. now rewrite skip_marker_spec. Qed.

Theorem unsupported_item_never_ok_no_target uc tstr it :
  item_unsupported uc tstr [] it = true -> known_C08 [] it = None -> is_ok (parse_leaf8 uc tstr [] it) = false.
Proof. apply unsupported_item_never_ok. apply skip_no_target. Qed.

(* witnesses: the two finding classes are real (the unrestricted statement is false of the model) *)
Definition a_typeshare : attr := {| a_inner := false; a_meta := MPath [lit "typeshare"] |}.
Definition ty_u8 : ty := TPath [] (lit "u8") [].

Lemma C08_const_expr_refuted :
  let it := IConst [a_typeshare] (lit "X") (TPath [] (lit "i32") [])
                   {| ce_first_lit := Some (CInt (Some (Zpos 5))); ce_plain := None |} in   (* const X: i32 = -5; *)
  item_unsupported uc_exec (fun _ => None) [] it = true /\ known_C08 [] it <> None /\
  is_ok (parse_leaf8 uc_exec (fun _ => None) [] it) = true.
Proof. vm_compute. repeat split; discriminate. Qed.

Lemma C08_flatten_variant_refuted :
  let flat := {| a_inner := false; a_meta := MList [lit "serde"] (Some [MPath [lit "flatten"]]) None |} in
  let tagc := {| a_inner := false; a_meta := MList [lit "serde"] (Some [MNV [lit "tag"] (VStr (lit "t")); MNV [lit "content"] (VStr (lit "c"))]) None |} in
  let it := IEnum [a_typeshare; tagc] (lit "E") []
                  [{| v_attrs := []; v_ident := lit "V"; v_fields := FNamed [{| f_attrs := [flat]; f_ident := Some (lit "x"); f_ty := ty_u8 |}] |}] in
  item_unsupported uc_exec (fun _ => None) [] it = true /\ known_C08 [] it <> None /\
  is_ok (parse_leaf8 uc_exec (fun _ => None) [] it) = true.
Proof. vm_compute. repeat split; discriminate. Qed.

Example C08_nonvacuous :
  let it := IStruct [a_typeshare] (lit "S") []
                    (FNamed [{| f_attrs := []; f_ident := Some (lit "a");
                                f_ty := TPath [] (lit "Vec") [Some (TPath [] (lit "Option") [Some (TPath [] (lit "u64") [])])] |}]) in
  item_unsupported uc_exec (fun _ => None) [] it = true /\ known_C08 [] it = None /\
  is_ok (parse_leaf8 uc_exec (fun _ => None) [] it) = false.
Proof. vm_compute. repeat split. Qed.
