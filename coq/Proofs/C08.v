(* C08: an annotated item that uses an unsupported construct in a non-skipped position never
   parses successfully (so it is reported, C03/C08_cli) - no carve-out since the /repo fixes of
   C08-const-expr and C08-flatten-variant; an accepted const carries the value its initialiser denotes. *)
From Coq Require Import String Lia BinInt.
From TS Require Import Model.Str Model.Outcome Model.Unicode Model.Syntax Model.Attrs Model.TargetOs Model.Types Model.Parse.
From TS Require Import Spec.Serde Spec.TargetOsRule Spec.C08Spec.
From TS Require Import Proofs.C13 Proofs.FrontAttrs Proofs.FrontTypes Proofs.FrontItems.

Section U.
Variable uc : unicode.
Variable tstr : str -> option ty.
Variable T : list str.
(* the skip decision of the code is the documented one (always true without --target-os, and for
   every attribute list whose cfg predicates parse: C13) *)
Hypothesis Hskip : forall attrs, is_skipped T attrs = skipped8 T attrs.

Lemma type_bad_not_ok attrs declared : type_bad uc tstr attrs declared = true ->
  is_ok (match get_field_type_override uc attrs with
         | Some s => parse_ty_str tstr s
         | None => parse_ty declared
         end) = false.
Proof.
  unfold type_bad, override_of, get_field_type_override.
  destruct (get_serialized_as_type uc attrs) as [s|].
  - unfold parse_ty_str. destruct (tstr s) as [t|]; [|reflexivity]. apply unsupported_never_ok.
  - apply unsupported_never_ok.
Qed.

Lemma field_bad_not_ok cf ra f : field_bad uc tstr T cf f = true ->
  is_skipped T (f_attrs f) = false /\ is_ok (parse_field uc tstr cf ra f) = false.
Proof.
  unfold field_bad. intros H. apply andb_true_iff in H as [Hs H]. rewrite Hskip. apply negb_true_iff in Hs.
  split; [exact Hs|]. unfold parse_field, field_type.
  apply orb_true_iff in H as [H|H].
  - apply type_bad_not_ok in H. destruct (match get_field_type_override uc (f_attrs f) with Some s => _ | None => _ end);
      [discriminate|reflexivity|reflexivity].
  - apply andb_true_iff in H as [-> Hf]. rewrite serde_flatten_spec, Hf.
    destruct (match get_field_type_override uc (f_attrs f) with Some s => _ | None => _ end); reflexivity.
Qed.

Lemma fields_bad_not_ok cf ra l : existsb (field_bad uc tstr T cf) l = true ->
  is_ok (mapM (parse_field uc tstr cf ra) (filter (fun f => negb (is_skipped T (f_attrs f))) l)) = false.
Proof.
  intros H. apply existsb_exists in H as (f & Hin & Hb).
  destruct (field_bad_not_ok cf ra f Hb) as [Hs Hn].
  apply mapM_not_ok with (x := f); [|exact Hn]. apply filter_In. split; [exact Hin|now rewrite Hs].
Qed.

Lemma serialized_as_bad attrs s : get_serialized_as_type uc attrs = Some s ->
  match tstr s with None => true | Some t => has_unsupported t end = true ->
  is_ok (parse_ty_str tstr s) = false.
Proof.
  intros _ H. unfold parse_ty_str. destruct (tstr s) as [t|]; [|reflexivity]. now apply unsupported_never_ok.
Qed.

Lemma variant_bad_not_ok (v : variant) :
  variant_bad uc tstr T v = true ->
  is_skipped T (v_attrs v) = false /\ forall ra, is_ok (parse_enum_variant uc tstr T ra v) = false.
Proof.
  intros Hb. unfold variant_bad in Hb. apply andb_true_iff in Hb as [Hs Hb].
  apply negb_true_iff in Hs. rewrite Hskip. split; [exact Hs|].
  intros ra. unfold parse_enum_variant.
  destruct (get_ident uc (Some (v_ident v)) (v_attrs v) ra); cbn [bind]; try reflexivity.
  destruct (v_fields v) as [l|l|]; [| |discriminate].
  - (* struct variant: some non-skipped field has a bad type or carries serde(flatten) *)
    pose proof (fields_bad_not_ok true (serde_rename_all uc (v_attrs v)) l Hb) as Hm.
    destruct (mapM _ _); [discriminate|reflexivity|reflexivity].
  - destruct l as [|f [|f2 r]]; [discriminate| |reflexivity].
    unfold field_type. apply type_bad_not_ok in Hb.
    destruct (match get_field_type_override uc (f_attrs f) with Some s => _ | None => _ end);
      [discriminate|reflexivity|reflexivity].
Qed.

(* the const initialiser: the code computes exactly the denoted value, and fails when there is none *)
Lemma const_expr_spec e : match const_value8 e with
                          | Some z => parse_const_expr e = Ok z
                          | None => is_ok (parse_const_expr e) = false
                          end.
Proof.
  induction e as [l|x IH|x IH|]; cbn [const_value8 parse_const_expr].
  - destruct l as [[z|]|]; reflexivity.
  - exact IH.
  - destruct (const_value8 x); [rewrite IH; reflexivity|].
    destruct (parse_const_expr x); [discriminate|reflexivity|reflexivity].
  - reflexivity.
Qed.

Definition parse_leaf8 (it : item) : outcome ritem :=
  match it with
  | IStruct a i g fs => parse_struct uc tstr T a i g fs
  | IEnum a i g vs => parse_enum uc tstr T a i g vs
  | IType a i g t => parse_type_alias uc tstr a i g t
  | IConst a i t e => parse_const uc tstr a i t e
  | _ => Panic "not a leaf"
  end.

(* kind of a parsed variant is decided by the syntax of its fields *)
Lemma variant_kind ra v rv : parse_enum_variant uc tstr T ra v = Ok rv ->
  match rv with VUnit _ => v_fields v = FUnit | _ => v_fields v <> FUnit end.
Proof.
  unfold parse_enum_variant. destruct (get_ident _ _ _ _); cbn [bind]; try discriminate.
  destruct (v_fields v) as [l|l|].
  - destruct (mapM _ _); cbn [bind]; try discriminate. intros [= <-]. discriminate.
  - destruct l as [|f [|? ?]]; try discriminate. destruct (field_type uc tstr f); cbn [bind]; try discriminate.
    intros [= <-]. discriminate.
  - intros [= <-]. reflexivity.
Qed.

Lemma all_unit_iff vs variants ra :
  mapM (parse_enum_variant uc tstr T ra) (filter (fun v => negb (is_skipped T (v_attrs v))) vs) = Ok variants ->
  forallb (fun v => match v with VUnit _ => true | _ => false end) variants = negb (existsb (carries_data T) vs).
Proof.
  revert variants; induction vs as [|v vs IH]; intros variants; cbn [filter existsb].
  - cbn [mapM]. intros [= <-]. reflexivity.
  - unfold carries_data at 1. rewrite <- Hskip.
    destruct (is_skipped T (v_attrs v)); cbn [negb andb orb].
    + apply IH.
    + cbn [mapM]. destruct (parse_enum_variant uc tstr T ra v) as [rv| |] eqn:Ev; cbn [bind]; try discriminate.
      destruct (mapM _ _) as [rest| |] eqn:Er; cbn [bind]; try discriminate.
      intros [= <-]. cbn [forallb]. rewrite (IH rest eq_refl).
      apply variant_kind in Ev. destruct rv; destruct (v_fields v); try congruence; reflexivity.
Qed.

Theorem unsupported_item_never_ok it :
  item_unsupported uc tstr T it = true -> is_ok (parse_leaf8 it) = false.
Proof.
  intros Hu. destruct it as [attrs ident gens fs|attrs ident gens vs|attrs ident gens t|attrs ident t e|u|inner];
    cbn [item_unsupported parse_leaf8] in *; try discriminate.
  - (* struct *)
    unfold parse_struct, override_of in *. destruct (get_serialized_as_type uc attrs) as [s|] eqn:Es.
    + destruct (get_ident _ _ _ _); cbn [bind]; try reflexivity.
      pose proof (serialized_as_bad attrs s Es Hu) as Hn.
      destruct (parse_ty_str tstr s); [discriminate|reflexivity|reflexivity].
    + destruct fs as [l|l|]; [| |discriminate].
      * pose proof (fields_bad_not_ok true (serde_rename_all uc attrs) l Hu) as Hn.
        destruct (mapM _ _); [discriminate|reflexivity|reflexivity].
      * destruct l as [|f [|f2 r]]; [discriminate| |reflexivity].
        unfold field_type. apply type_bad_not_ok in Hu.
        destruct (match get_field_type_override uc (f_attrs f) with Some s => _ | None => _ end);
          [discriminate|reflexivity|reflexivity].
  - (* enum *)
    unfold parse_enum, override_of in *. destruct (get_serialized_as_type uc attrs) as [s|] eqn:Es.
    + destruct (get_ident _ _ _ _); cbn [bind]; try reflexivity.
      pose proof (serialized_as_bad attrs s Es Hu) as Hn.
      destruct (parse_ty_str tstr s); [discriminate|reflexivity|reflexivity].
    + destruct (mapM _ _) as [variants| |] eqn:Em; cbn [bind]; try reflexivity.
      apply orb_true_iff in Hu as [Hu|Hu].
      * (* a bad variant: mapM cannot have succeeded *)
        exfalso. apply existsb_exists in Hu as (v & Hin & Hv).
        destruct (variant_bad_not_ok v Hv) as [Hs Hn].
        assert (Hm : is_ok (mapM (parse_enum_variant uc tstr T (serde_rename_all uc attrs))
                                 (filter (fun v => negb (is_skipped T (v_attrs v))) vs)) = false).
        { apply mapM_not_ok with (x := v); [|apply Hn]. apply filter_In. split; [exact Hin|now rewrite Hs]. }
        rewrite Em in Hm. discriminate.
      * destruct (get_ident _ _ _ _); cbn [bind]; try reflexivity.
        rewrite (all_unit_iff vs variants _ Em), tag_key_spec, content_key_spec.
        destruct (existsb (carries_data T) vs); cbn [negb].
        -- destruct (serde_nv attrs (lit "tag")); cbn [option_map]; [|reflexivity].
           destruct (serde_nv attrs (lit "content")); cbn [option_map]; [discriminate|reflexivity].
        -- destruct (serde_nv attrs (lit "tag")); cbn [option_map]; [reflexivity|].
           destruct (serde_nv attrs (lit "content")); cbn [option_map]; [reflexivity|discriminate].
  - (* alias *)
    unfold parse_type_alias. unfold type_bad, override_of in Hu.
    destruct (get_serialized_as_type uc attrs) as [s|].
    + unfold parse_ty_str. destruct (tstr s) as [t'|]; [|reflexivity].
      pose proof (unsupported_never_ok t' Hu). destruct (parse_ty t'); [discriminate|reflexivity|reflexivity].
    + pose proof (unsupported_never_ok t Hu). destruct (parse_ty t); [discriminate|reflexivity|reflexivity].
  - (* const *)
    unfold parse_const. pose proof (const_expr_spec e) as He.
    apply orb_true_iff in Hu as [Hu|Hu].
    + destruct (parse_const_expr e); cbn [bind]; try reflexivity.
      unfold type_bad, override_of in Hu. destruct (get_serialized_as_type uc attrs) as [s|].
      * unfold parse_ty_str. destruct (tstr s) as [t'|]; [|reflexivity].
        pose proof (unsupported_never_ok t' Hu). destruct (parse_ty t'); [discriminate|reflexivity|reflexivity].
      * pose proof (unsupported_never_ok t Hu). destruct (parse_ty t); [discriminate|reflexivity|reflexivity].
    + destruct (const_value8 e); [discriminate|].
      destruct (parse_const_expr e); [discriminate|reflexivity|reflexivity].
Qed.

(* never mis-generated: a const that is accepted carries the value its initialiser denotes *)
Theorem const_value_faithful attrs ident t e c :
  parse_const uc tstr attrs ident t e = Ok (ItConst c) -> const_value8 e = Some (cvalue c).
Proof.
  unfold parse_const. pose proof (const_expr_spec e) as He.
  destruct (parse_const_expr e) as [z| |] eqn:Ez; cbn [bind]; try discriminate.
  destruct (const_value8 e) as [z'|]; [|discriminate]. injection He as ->.
  destruct (match get_serialized_as_type uc attrs with Some s => _ | None => _ end) as [rt| |]; cbn [bind]; try discriminate.
  destruct rt; try discriminate;
    (destruct (get_ident _ _ _ _); cbn [bind]; try discriminate; intros [= <-]; reflexivity).
Qed.
End U.

(* without --target-os the hypothesis on the skip decision holds outright *)
Lemma skip_no_target attrs : is_skipped [] attrs = skipped8 [] attrs.
Proof. unfold is_skipped, skipped8, accepts. cbn. now rewrite skip_marker_spec. Qed.

Theorem unsupported_item_never_ok_no_target uc tstr it :
  item_unsupported uc tstr [] it = true -> is_ok (parse_leaf8 uc tstr [] it) = false.
Proof. apply unsupported_item_never_ok. apply skip_no_target. Qed.

(* regression pins of the two fixed finding classes (before the /repo fixes both items parsed Ok) *)
Definition a_typeshare : attr := {| a_inner := false; a_meta := MPath [lit "typeshare"] |}.
Definition ty_u8 : ty := TPath [] (lit "u8") [].
Definition c08_const (e : cexpr) : item := IConst [a_typeshare] (lit "X") (TPath [] (lit "i32") []) e.
Definition c08_lit (n : positive) : cexpr := CELit (CInt (Some (Zpos n))).

(* const X: i32 = -5;  and  = -(5): accepted with the value -5 (was 5);
   = 1 + 2 / foo(7) / 7 as u32 (any other expression): rejected with RustConstExprInvalid (was 1 / 7 / 7);
   = "s": RustConstTypeInvalid *)
Lemma C08_const_expr_fixed :
  (forall e, In e [CENeg (c08_lit 5); CENeg (CEParen (c08_lit 5)); CEParen (CENeg (c08_lit 5))] ->
     item_unsupported uc_exec (fun _ => None) [] (c08_const e) = false /\
     match parse_leaf8 uc_exec (fun _ => None) [] (c08_const e) with
     | Ok (ItConst c) => cvalue c = Zneg 5
     | _ => False
     end) /\
  item_unsupported uc_exec (fun _ => None) [] (c08_const CEOther) = true /\
  parse_leaf8 uc_exec (fun _ => None) [] (c08_const CEOther) = Err EConstExprInvalid /\
  parse_leaf8 uc_exec (fun _ => None) [] (c08_const (CENeg CEOther)) = Err EConstExprInvalid /\
  parse_leaf8 uc_exec (fun _ => None) [] (c08_const (CELit CNotInt)) = Err EConstTypeInvalid.
Proof.
  split; [|vm_compute; repeat split].
  intros e [<-|[<-|[<-|[]]]]; vm_compute; split; reflexivity.
Qed.

(* #[serde(tag = "t", content = "c")] enum E { V { #[serde(flatten)] x: u8 } } *)
Lemma C08_flatten_variant_fixed :
  let flat := {| a_inner := false; a_meta := MList [lit "serde"] (Some [MPath [lit "flatten"]]) None |} in
  let tagc := {| a_inner := false; a_meta := MList [lit "serde"] (Some [MNV [lit "tag"] (VStr (lit "t")); MNV [lit "content"] (VStr (lit "c"))]) None |} in
  let it := IEnum [a_typeshare; tagc] (lit "E") []
                  [{| v_attrs := []; v_ident := lit "V"; v_fields := FNamed [{| f_attrs := [flat]; f_ident := Some (lit "x"); f_ty := ty_u8 |}] |}] in
  item_unsupported uc_exec (fun _ => None) [] it = true /\
  parse_leaf8 uc_exec (fun _ => None) [] it = Err ESerdeFlatten.
Proof. vm_compute. split; reflexivity. Qed.

Example C08_nonvacuous :
  let it := IStruct [a_typeshare] (lit "S") []
                    (FNamed [{| f_attrs := []; f_ident := Some (lit "a");
                                f_ty := TPath [] (lit "Vec") [Some (TPath [] (lit "Option") [Some (TPath [] (lit "u64") [])])] |}]) in
  item_unsupported uc_exec (fun _ => None) [] it = true /\
  is_ok (parse_leaf8 uc_exec (fun _ => None) [] it) = false.
Proof. vm_compute. repeat split. Qed.
