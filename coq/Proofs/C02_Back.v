(* C02, back ends: lemmas shared by the six languages.  Each back end proves, about the observation
   (Model/Lang/Decl.v) of the declarations its decision layer computes for an enum:
     - the wire names of the cases are the IR's renamed ids, in order (hence one case per variant),
     - the payload kind of each case is the variant's,
     - every spelled tag / content key is the IR's,
     - the declared case names are a function of the identifiers (or the wire names),
   and these lemmas turn that into the extracted verdict good_C02. *)
From Coq Require Import String Lia ZifyBool ZifyN.
From TS Require Import Model.Str Model.Outcome Model.Unicode Model.Rename Model.Types Model.Lang.Decl.
From TS Require Import Spec.C16Spec Spec.C02Spec Proofs.C16.
Local Open Scope N_scope.
Local Notation length := List.length (only parsing).

Lemma c02_strs_eqb_refl l : c02_strs_eqb l l = true.
Proof. induction l as [|x r IH]; cbn [c02_strs_eqb]; [reflexivity|]. now rewrite str_eqb_refl, IH. Qed.
Lemma c02_kinds_eqb_refl l : c02_kinds_eqb l l = true.
Proof. induction l as [|x r IH]; cbn [c02_kinds_eqb]; [reflexivity|]. rewrite IH. now destruct x. Qed.

Lemma c02_forallb_eq c l : Forall (eq c) l -> forallb (str_eqb c) l = true.
Proof. induction 1 as [|x r Hx _ IH]; cbn [forallb]; [reflexivity|]. subst x. now rewrite str_eqb_refl, IH. Qed.
Lemma c02_Forall_const {A} (c : str) (l : list A) : Forall (eq c) (map (fun _ => c) l).
Proof. induction l; cbn [map]; constructor; auto. Qed.
Lemma c02_Forall_flat {A} (c : str) (f : A -> list str) (l : list A) :
  (forall x, Forall (eq c) (f x)) -> Forall (eq c) (flat_map f l).
Proof. intros H. induction l as [|x r IH]; cbn [flat_map]; [constructor|]. apply Forall_app. split; auto. Qed.
Lemma c02_Forall_flat' {A} (c : str) (f : A -> list str) (l : list A) :
  Forall (fun x => Forall (eq c) (f x)) l -> Forall (eq c) (flat_map f l).
Proof. induction 1; cbn [flat_map]; [constructor|]. apply Forall_app. split; auto. Qed.
Lemma c02_Forall2_Forall_r {A B} (R : A -> B -> Prop) (P : B -> Prop) l r :
  Forall2 R l r -> (forall x y, R x y -> P y) -> Forall P r.
Proof. induction 1; intros H'; constructor; eauto. Qed.
Lemma c02_Forall_repeat (c : str) n : Forall (eq c) (repeat c n).
Proof. induction n; cbn [repeat]; constructor; auto. Qed.

Lemma c02_is_nil_length {A B} (a : list A) (b : list B) : length a = length b -> c02_is_nil a = c02_is_nil b.
Proof. destruct a, b; cbn; congruence. Qed.
Lemma c02_is_nil_map {A B} (f : A -> B) l : c02_is_nil (map f l) = c02_is_nil l.
Proof. now destruct l. Qed.

(* a list of per-variant key occurrences is empty exactly when no variant carries data *)
Lemma c02_flat_nil {A} (k : A -> c02_kind) (f : A -> list str) (l : list A) :
  (forall x, c02_is_nil (f x) = match k x with C02Unit => true | _ => false end) ->
  c02_is_nil (flat_map f l) = negb (c02_has_data (map k l)).
Proof.
  intros H. unfold c02_has_data. induction l as [|x r IH]; cbn [flat_map map existsb]; [reflexivity|].
  specialize (H x). destruct (f x); cbn [app c02_is_nil] in *.
  - destruct (k x); try discriminate. cbn [orb]. exact IH.
  - destruct (k x); try discriminate; reflexivity.
Qed.

Lemma c02_good_enum_intro l x d :
  map vd_wire (d_variants d) = c02_wires x ->
  map (fun v => c02_payload_kind (vd_payload v)) (d_variants d) = c02_kinds x ->
  c02_good_keys l x d = true ->
  c02_good_enum l x d = true.
Proof.
  intros Hw Hk Hkeys. unfold c02_good_enum, c02_good_wires, c02_good_kinds.
  now rewrite Hw, Hk, c02_strs_eqb_refl, c02_kinds_eqb_refl, Hkeys.
Qed.

(* the enum among the declarations of one item: helper declarations in front of it are not enums *)
Lemma c02_good_core_intro l x pre d :
  forallb (fun p => negb (c02_is_enum_decl p)) pre = true -> d_kind d = DEnum ->
  c02_good_enum l x d = true -> c02_good_core l x (pre ++ [d]) = true.
Proof.
  intros Hpre Hd Hg. unfold c02_good_core. rewrite filter_app.
  assert (filter c02_is_enum_decl pre = []) as ->.
  { induction pre as [|p r IH]; [reflexivity|]. cbn [forallb] in Hpre. apply andb_true_iff in Hpre as [Hp Hr].
    cbn [filter]. destruct (c02_is_enum_decl p); [discriminate|]. now apply IH. }
  cbn [app filter]. unfold c02_is_enum_decl at 1. now rewrite Hd.
Qed.

(* helper declarations: not an enum, no cases *)
Definition c02_plain (d : decl) : bool := negb (c02_is_enum_decl d) && c02_is_nil (d_variants d).

Lemma c02_plain_not_enum pre : forallb c02_plain pre = true -> forallb (fun p => negb (c02_is_enum_decl p)) pre = true.
Proof.
  induction pre as [|p r IH]; cbn [forallb]; [reflexivity|]. intros H. apply andb_true_iff in H as [Hp Hr].
  unfold c02_plain in Hp. apply andb_true_iff in Hp as [Hp _]. now rewrite Hp, IH.
Qed.
Lemma c02_plain_cases pre : forallb c02_plain pre = true -> c02_good_cases pre = true.
Proof.
  unfold c02_good_cases. induction pre as [|p r IH]; cbn [forallb]; [reflexivity|]. intros H. apply andb_true_iff in H as [Hp Hr].
  unfold c02_plain in Hp. apply andb_true_iff in Hp as [_ Hp]. rewrite (IH Hr), andb_true_r.
  destruct (d_variants p); [reflexivity|discriminate].
Qed.
Lemma c02_good_cases_app a b : c02_good_cases (a ++ b) = c02_good_cases a && c02_good_cases b.
Proof. unfold c02_good_cases. apply forallb_app. Qed.
Lemma c02_good_cases_one d : c02_distinct (map vd_name (d_variants d)) = true -> c02_good_cases [d] = true.
Proof. unfold c02_good_cases. cbn [forallb]. now intros ->. Qed.

(* ---------- pairwise different case names ---------- *)
Lemma c02_existsb_map {A} (R : str -> str -> bool) (Q : A -> A -> bool) (f : A -> str) a l :
  (forall b, In b l -> R (f a) (f b) = true -> Q a b = true) ->
  existsb (Q a) l = false -> existsb (R (f a)) (map f l) = false.
Proof.
  induction l as [|b r IH]; intros H He; cbn [map existsb] in *; [reflexivity|].
  apply orb_false_iff in He as [Hb Hr]. apply orb_false_iff. split.
  - destruct (R (f a) (f b)) eqn:E; [|reflexivity]. rewrite (H b (or_introl eq_refl) E) in Hb. discriminate.
  - apply IH; [|exact Hr]. intros c Hc. apply H. now right.
Qed.

(* if no two elements are related by Q, and f-images related by R come from Q-related elements,
   no two f-images are related by R *)
Lemma c02_has_pair_map (R Q : str -> str -> bool) (f : str -> str) l :
  (forall a b, In a l -> In b l -> R (f a) (f b) = true -> Q a b = true) ->
  c02_has_pair Q l = false -> c02_has_pair R (map f l) = false.
Proof.
  induction l as [|a r IH]; intros H Hp; cbn [map c02_has_pair] in *; [reflexivity|].
  apply orb_false_iff in Hp as [Ha Hr]. apply orb_false_iff. split.
  - apply (c02_existsb_map R Q f a r); [|exact Ha]. intros b Hb. apply H; [now left|now right].
  - apply IH; [|exact Hr]. intros x y Hx Hy. apply H; now right.
Qed.

Lemma c02_distinct_map (Q : str -> str -> bool) (f : str -> str) l :
  (forall a b, In a l -> In b l -> f a = f b -> Q a b = true) ->
  c02_has_pair Q l = false -> c02_distinct (map f l) = true.
Proof.
  intros H Hp. unfold c02_distinct. rewrite (c02_has_pair_map str_eqb Q f l); [reflexivity| |exact Hp].
  intros a b Ha Hb E. apply str_eqb_eq in E. now apply H.
Qed.

Lemma c02_distinct_id l : c02_distinct l = true -> c02_distinct (map (fun s => s) l) = true.
Proof. now rewrite map_id. Qed.

(* a common prefix changes nothing *)
Lemma c02_distinct_prefix (p : str) l : c02_distinct l = true -> c02_distinct (map (fun s => p ++ s) l) = true.
Proof.
  unfold c02_distinct. intros H. apply negb_true_iff in H. apply negb_true_iff.
  apply (c02_has_pair_map str_eqb str_eqb (fun s => p ++ s) l); [|exact H].
  intros a b _ _ E. apply str_eqb_eq in E. apply app_inv_head in E. subst. apply str_eqb_refl.
Qed.

(* ---------- what dom_C02_back provides ---------- *)
Lemma c02_dom_back_parts x : dom_C02_back x = true ->
  forallb conv_variant (c02_idents x) = true /\ c02_distinct (c02_idents x) = true /\
  forallb c02_wire_ok (c02_wires x) = true /\ c02_distinct (c02_wires x) = true /\
  match c02_keys x with
  | Some _ => c02_has_data (c02_kinds x) = true
  | None => c02_has_data (c02_kinds x) = false
  end.
Proof.
  unfold dom_C02_back. intros H. repeat (apply andb_true_iff in H as [H ?]).
  repeat split; try assumption.
  destruct (c02_keys x) as [[t c]|].
  - apply andb_true_iff in H0 as [_ H0]. exact H0.
  - now apply negb_true_iff in H0.
Qed.

(* a unit enum of the domain has unit variants only *)
Lemma c02_unit_kinds (vs : list rvariant) : c02_has_data (map c02_rvariant_kind vs) = false ->
  map c02_rvariant_kind vs = map (fun _ => C02Unit) vs.
Proof.
  unfold c02_has_data. induction vs as [|v r IH]; cbn [map existsb]; [reflexivity|].
  intros H. apply orb_false_iff in H as [Hv Hr]. rewrite (IH Hr). destruct v; try discriminate. reflexivity.
Qed.

(* relational form: the declared names are related to the identifiers one by one *)
Lemma c02_existsb_rel (Q : str -> str -> bool) (R : str -> str -> Prop) a na l names :
  Forall2 R l names ->
  (forall b nb, In b l -> R b nb -> na = nb -> Q a b = true) ->
  existsb (Q a) l = false -> existsb (str_eqb na) names = false.
Proof.
  induction 1 as [|b nb l' names' Hb _ IH]; intros H He; cbn [existsb] in *; [reflexivity|].
  apply orb_false_iff in He as [He1 He2]. apply orb_false_iff. split.
  - destruct (str_eqb na nb) eqn:E; [|reflexivity]. apply str_eqb_eq in E.
    rewrite (H b nb (or_introl eq_refl) Hb E) in He1. discriminate.
  - apply IH; [|exact He2]. intros c nc Hc. apply H. now right.
Qed.

Lemma c02_distinct_rel (Q : str -> str -> bool) (R : str -> str -> Prop) l names :
  Forall2 R l names ->
  (forall a b na nb, In a l -> In b l -> R a na -> R b nb -> na = nb -> Q a b = true) ->
  c02_has_pair Q l = false -> c02_distinct names = true.
Proof.
  unfold c02_distinct. intros HF. induction HF as [|a na l' names' Ha HF' IH]; intros H Hp; [reflexivity|].
  cbn [c02_has_pair] in *. apply orb_false_iff in Hp as [Hp1 Hp2].
  apply negb_true_iff. apply orb_false_iff. split.
  - apply (c02_existsb_rel Q R a na l' names' HF'); [|exact Hp1].
    intros b nb Hb Rb E. apply (H a b na nb); auto; [now left|now right].
  - apply negb_true_iff. apply IH; [|exact Hp2]. intros x y nx ny Hx Hy. apply H; now right.
Qed.

Lemma c02_Forall2_maps {A B} (R : str -> str -> Prop) (g : A -> str) (h : B -> str) (P : A -> B -> Prop) l r :
  Forall2 P l r -> (forall x y, P x y -> R (g x) (h y)) -> Forall2 R (map g l) (map h r).
Proof. induction 1; intros H'; cbn [map]; constructor; auto. Qed.

(* ---------- typeshare's own PascalCase / camelCase on UpperCamelCase identifiers ---------- *)
Lemma c02_pascal_go_camel tolow r : forallb camel_char r = true ->
  pascal_go tolow false r = if tolow then str_lower_ascii r else r.
Proof.
  induction r as [|c r IH]; intros H; cbn [pascal_go]; [now destruct tolow|].
  cbn [forallb] in H. apply andb_true_iff in H as [Hc Hr].
  rewrite camel_char_not_us by assumption. rewrite (IH Hr). destruct tolow; reflexivity.
Qed.

Lemma c02_pascal_conv s : conv_variant s = true -> to_pascal_case s = c02_caps_norm s.
Proof.
  destruct s as [|c r]; [discriminate|]. cbn [conv_variant]. intros H. apply andb_true_iff in H as [Hc Hr].
  unfold to_pascal_case, c02_caps_norm, all_upper. cbn [pascal_go].
  assert (c =? ch_us = false) as -> by (unfold is_aupper, ch_us in *; lia).
  rewrite aupper_upper by assumption. rewrite (c02_pascal_go_camel _ r Hr).
  destruct (str_eqb (str_upper_ascii (c :: r)) (c :: r)); reflexivity.
Qed.

Lemma c02_caps_norm_head s : conv_variant s = true ->
  exists c r, c02_caps_norm s = c :: r /\ is_aupper c = true.
Proof.
  destruct s as [|c r]; [discriminate|]. cbn [conv_variant]. intros H. apply andb_true_iff in H as [Hc _].
  unfold c02_caps_norm. destruct (str_eqb _ _); eauto.
Qed.

Lemma c02_camel_conv s : conv_variant s = true ->
  exists c r, c02_caps_norm s = c :: r /\ is_aupper c = true /\ to_camel_case s = Ok (alower c :: r).
Proof.
  intros H. destruct (c02_caps_norm_head s H) as (c & r & E & Hc). exists c, r. repeat split; try assumption.
  unfold to_camel_case. rewrite (c02_pascal_conv s H), E. reflexivity.
Qed.

(* mapM over the outcome monad producing lists of declarations *)
Lemma c02_mapM_concat_Forall {A B} (P : B -> Prop) (f : A -> outcome (list B)) l dss :
  mapM f l = Ok dss -> (forall x ds, f x = Ok ds -> Forall P ds) -> Forall P (List.concat dss).
Proof.
  revert dss. induction l as [|x r IH]; intros dss; cbn [mapM].
  - intros [= <-] _. constructor.
  - destruct (f x) as [ds| |] eqn:Ex; cbn [bind]; try discriminate.
    destruct (mapM f r) as [dss'| |]; cbn [bind]; try discriminate.
    intros [= <-] H. cbn [List.concat]. apply Forall_app. split; [eapply H; eassumption|]. apply IH; auto.
Qed.

Lemma c02_conv_ascii' s : conv_variant s = true -> forallb is_ascii s = true.
Proof.
  destruct s as [|c r]; [discriminate|]. cbn [conv_variant forallb]. intros H. apply andb_true_iff in H as [Hc Hr].
  rewrite (camel_is_ascii r Hr), andb_true_r. unfold is_ascii, is_aupper in *. lia.
Qed.
Lemma c02_Forall2_length {A B} (R : A -> B -> Prop) l r : Forall2 R l r -> length r = length l.
Proof. induction 1; cbn; auto. Qed.

Lemma c02_forallb_map {A B} (f : A -> B) (p : B -> bool) l : forallb p (map f l) = forallb (fun x => p (f x)) l.
Proof. induction l as [|x r IH]; cbn [map forallb]; [reflexivity|]. now rewrite IH. Qed.

Lemma c02_Forall_forallb {A} (p : A -> bool) l : Forall (fun x => p x = true) l -> forallb p l = true.
Proof. induction 1; cbn [forallb]; [reflexivity|]. now rewrite H, IHForall. Qed.
