(* C02 for TypeScript: `export enum` (unit) and the union of `{ tag: "name", content: T }` members. *)
From Coq Require Import List Bool Lia ZifyBool ZifyN.
From TS Require Import Model.Str Model.Outcome Model.Unicode Model.Types Model.Parse Model.Lang.Common Model.Lang.Decl Model.Lang.TypeScript.
From TS Require Import Spec.C16Spec Spec.C02Spec Proofs.BackCommon Proofs.C02_Back.
Import ListNotations.
Local Open Scope N_scope.
Local Notation length := List.length (only parsing).

Section TS.
Variable uc : unicode.
Variable cfg : ts_config.

Lemma c02_ts_variant gens ue v st tv st' : ts_variant_of cfg gens ue v st = Ok (tv, st') ->
  vd_wire (ts_obs_variant tv) = renamed (vid (variant_shared v)) /\
  vd_name (ts_obs_variant tv) = renamed (vid (variant_shared v)) /\
  c02_payload_kind (vd_payload (ts_obs_variant tv)) = c02_rvariant_kind v.
Proof.
  destruct v as [vsh|t vsh|fs vsh]; cbn [ts_variant_of]; intros H.
  - unfold ret in H. injection H as <- _. repeat split.
  - apply mbind_ok in H as (ty & s2 & _ & H). unfold ret in H. injection H as <- _. repeat split.
  - apply mbind_ok in H as (ms & s2 & _ & H). unfold ret in H. injection H as <- _. repeat split.
Qed.

Theorem C02_ts_core e st d st' : ts_decl_of uc cfg (ItEnum e) st = Ok (d, st') ->
  c02_good_core TypeScript (c02_expect_ir e) [ts_obs d] = true /\
  (dom_C02_back (c02_expect_ir e) = true -> c02_good_cases [ts_obs d] = true).
Proof.
  destruct e as [sh|tag content sh]; cbn [ts_decl_of]; intros H.
  - (* export enum *)
    apply mbind_ok in H as (vs & s1 & Hm & H). unfold ret in H. injection H as <- _.
    apply (mmapM_Forall2 _ (fun v t => exists vsh, v = VUnit vsh /\ t = (vcomments vsh, original (vid vsh), renamed (vid vsh)))) in Hm.
    2:{ intros v s0 t s0' Hv. destruct v as [vsh| |]; try discriminate. unfold ret in Hv. injection Hv as <- _. eauto. }
    assert (Hw : map vd_wire (d_variants (ts_obs (TSUnitEnum (ecomments sh) (renamed (eid sh)) (egenerics sh) vs))) =
                 map (fun v => renamed (vid (variant_shared v))) (evariants sh)).
    { cbn [ts_obs d_variants]. rewrite map_map. eapply Forall2_map_r; [exact Hm|].
      intros v t (vsh & -> & ->). reflexivity. }
    assert (Hk : map (fun v => c02_payload_kind (vd_payload v)) (d_variants (ts_obs (TSUnitEnum (ecomments sh) (renamed (eid sh)) (egenerics sh) vs))) =
                 map c02_rvariant_kind (evariants sh)).
    { cbn [ts_obs d_variants]. rewrite map_map. eapply Forall2_map_r; [exact Hm|].
      intros v t (vsh & -> & ->). reflexivity. }
    assert (Hn : map vd_name (d_variants (ts_obs (TSUnitEnum (ecomments sh) (renamed (eid sh)) (egenerics sh) vs))) =
                 map (fun v => original (vid (variant_shared v))) (evariants sh)).
    { cbn [ts_obs d_variants]. rewrite map_map. eapply Forall2_map_r; [exact Hm|].
      intros v t (vsh & -> & ->). reflexivity. }
    split.
    + apply (c02_good_core_intro TypeScript _ [] _); [reflexivity|reflexivity|].
      apply c02_good_enum_intro; [exact Hw|exact Hk|reflexivity].
    + intros Hd. apply c02_dom_back_parts in Hd as (_ & Hdi & _). cbn [c02_expect_ir c02_idents enum_shared] in Hdi.
      unfold c02_good_cases. cbn [forallb]. rewrite Hn, Hdi. reflexivity.
  - (* union *)
    apply mbind_ok in H as (vs & s1 & Hm & H). unfold ret in H. injection H as <- _.
    pose proof (mmapM_length _ _ _ _ _ Hm) as Hlen.
    apply (mmapM_Forall2 _ (fun v tv => vd_wire (ts_obs_variant tv) = renamed (vid (variant_shared v)) /\
                                        vd_name (ts_obs_variant tv) = renamed (vid (variant_shared v)) /\
                                        c02_payload_kind (vd_payload (ts_obs_variant tv)) = c02_rvariant_kind v)) in Hm.
    2:{ intros v s0 tv s0' Hv. exact (c02_ts_variant _ _ _ _ _ _ Hv). }
    set (d := ts_obs (TSUnion (ecomments sh) (renamed (eid sh)) (egenerics sh) tag content vs)).
    assert (Hw : map vd_wire (d_variants d) = map (fun v => renamed (vid (variant_shared v))) (evariants sh)).
    { subst d. cbn [ts_obs d_variants]. rewrite map_map. eapply Forall2_map_r; [exact Hm|]. intros v tv (E & _). exact E. }
    assert (Hk : map (fun v => c02_payload_kind (vd_payload v)) (d_variants d) = map c02_rvariant_kind (evariants sh)).
    { subst d. cbn [ts_obs d_variants]. rewrite map_map. eapply Forall2_map_r; [exact Hm|]. intros v tv (_ & _ & E). exact E. }
    assert (Hn : map vd_name (d_variants d) = map (fun v => renamed (vid (variant_shared v))) (evariants sh)).
    { subst d. cbn [ts_obs d_variants]. rewrite map_map. eapply Forall2_map_r; [exact Hm|]. intros v tv (_ & E & _). exact E. }
    split.
    + apply (c02_good_core_intro TypeScript _ [] _); [reflexivity|reflexivity|].
      apply c02_good_enum_intro; [exact Hw|exact Hk|].
      unfold c02_good_keys. cbn [c02_expect_ir c02_keys c02_kinds enum_shared].
      subst d. cbn [ts_obs d_tag_keys d_content_keys].
      rewrite !c02_forallb_eq by apply c02_Forall_const. cbn [andb c02_tag_carried c02_content_carried].
      rewrite !c02_is_nil_map. rewrite (c02_is_nil_length vs (evariants sh) Hlen).
      now destruct (c02_is_nil (evariants sh)).
    + intros Hd. apply c02_dom_back_parts in Hd as (_ & _ & _ & Hdw & _). cbn [c02_expect_ir c02_wires enum_shared] in Hdw.
      unfold c02_good_cases. cbn [forallb]. rewrite Hn, Hdw. reflexivity.
Qed.

(* C02 for TypeScript on the IR: inside the domain there is no finding class *)
Theorem C02_back_ts e st d st' : ts_decl_of uc cfg (ItEnum e) st = Ok (d, st') ->
  dom_C02_back (c02_expect_ir e) = true ->
  good_C02 TypeScript (c02_expect_ir e) [ts_obs d] = true.
Proof.
  intros H Hd. destruct (C02_ts_core e st d st' H) as [Hc Hn]. unfold good_C02. now rewrite Hc, (Hn Hd).
Qed.
End TS.
