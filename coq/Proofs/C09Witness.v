(* C09: refutation witnesses of the recorded classes (the faithful model fails the judgement exactly
   where the class says), regression pins of the two classes repaired in /repo (C09-generic-ref,
   C09-const-type), non-vacuity of the theorems' hypotheses, and the no-rename corollary's bridge
   "nothing renamed => no class applies". *)
From Coq Require Import List Bool String ZArith NArith.
From TS Require Import Model.Str Model.Outcome Model.Unicode Model.Types Model.Parse Model.Reconcile
                       Model.Lang.Common Model.Lang.Decl Model.Lang.TypeScript Model.Lang.Kotlin Model.Lang.Scala Model.Lang.Go
                       Model.Lang.Swift Model.Lang.Python Spec.C09Spec.
From TS Require Import Proofs.C09Common Proofs.C09Recon.
Import ListNotations.
Local Open Scope string_scope.

(* ---------------------------------------------------------------- a small program builder *)
Definition w_id (o r : string) : id := {| original := lit o; renamed := lit r; via_serde_rename := negb (String.eqb o r) |}.
Definition w_field (n : string) (t : rtype) : rfield :=
  {| fid := w_id n n; fty := t; fcomments := []; has_default := false; fdecs := [] |}.
Definition w_struct (o r : string) (gs : list string) (fs : list rfield) : rstruct :=
  {| sid := w_id o r; sgenerics := map lit gs; sfields := fs; scomments := []; sdecs := []; sredacted := false |}.
Definition w_vsh (n : string) : vshared := {| vid := w_id n n; vcomments := [] |}.
Definition w_esh (o r : string) (gs : list string) (vs : list rvariant) : eshared :=
  {| eid := w_id o r; egenerics := map lit gs; ecomments := []; evariants := vs; edecs := []; erecursive := false; eredacted := false |}.
Definition w_alias (o r : string) (gs : list string) (t : rtype) (decs : decmap) : ralias :=
  {| aid := w_id o r; agenerics := map lit gs; atype := t; acomments := []; adecs := decs; aredacted := false |}.
Definition w_parsed ss es als cs : parsed :=
  {| p_structs := ss; p_enums := es; p_aliases := als; p_consts := cs; p_type_names := []; p_errors := []; p_imports := [] |}.
Definition S_ (n : string) : rtype := RSimple (lit n).

(* struct S (SRen); struct G<T> (GRen) { t: T }; type A (ARen) = u32; enum U (URen) { X };
   enum E (ERen) { V1 { a: u32 }, V2(u32) }; struct UserId; type Ids = Vec<UserId>;
   struct H { g: G<S>, a: A, u: U, e: E } *)
Definition w_items (inline_alias : list ralias) (cs : list rconst) : parsed :=
  w_parsed
    [ w_struct "S" "SRen" [] [w_field "x" (RPrim PU32)];
      w_struct "G" "GRen" ["T"] [w_field "t" (S_ "T")];
      w_struct "UserId" "UserId" [] [w_field "x" (RPrim PU32)];
      w_struct "H" "H" [] [w_field "g" (RGeneric (lit "G") [S_ "S"]); w_field "a" (S_ "A"); w_field "u" (S_ "U"); w_field "e" (S_ "E")] ]
    [ EUnit (w_esh "U" "URen" [] [VUnit (w_vsh "X")]);
      EAlgebraic (lit "type") (lit "content") (w_esh "E" "ERen" [] [VAnon [w_field "a" (RPrim PU32)] (w_vsh "V1"); VTuple (RPrim PU32) (w_vsh "V2")]) ]
    ([ w_alias "A" "ARen" [] (RPrim PU32) []; w_alias "Ids" "Ids" [] (RVec (S_ "UserId")) [] ] ++ inline_alias)
    cs.
Definition w_prog : parsed := w_items [] [].
Definition w_prog_inline : parsed := w_items [w_alias "I" "I" ["T"] (RVec (S_ "T")) [(DKKotlin, [lit "JvmInline"])]] [].
Definition w_prog_const : parsed := w_items [] [{| cid := w_id "LIMIT" "LIMIT"; ctype := S_ "A"; cvalue := Z.of_N 5%N |}].

Definition w_ts : ts_config := {| ts_type_mappings := []; ts_no_version_header := true; ts_version := [] |}.
Definition w_kt : kt_config := {| kt_package := lit "p"; kt_module_name := []; kt_prefix := lit "KP"; kt_type_mappings := [];
                                  kt_no_version_header := true; kt_version := [] |}.
Definition w_sc : sc_config := {| sc_package := lit "p.q"; sc_module_name := []; sc_type_mappings := []; sc_no_version_header := true; sc_version := [] |}.
Definition w_go (acrs : list str) : go_config :=
  {| go_package := lit "p"; go_type_mappings := []; go_uppercase_acronyms := acrs; go_no_version_header := true;
     go_no_pointer_slice := false; go_version := [] |}.

(* the faithful model's output fails the judgement at a reference that the class [k] explains *)
Definition c09_witness (L : lang) (pfx : str) (acrs : list str) (pd : parsed) (out : outcome file_decls) (k : string) : bool :=
  dom_C09 L pfx pd &&
  existsb (fun c => match c with Some k' => String.eqb k k' | None => false end) (c09_classes L pfx acrs pd) &&
  match out with
  | Ok fd => existsb (fun r => match c09_ref_class L pfx acrs pd r with Some k' => String.eqb k k' | None => false end)
                     (c09_failures L pfx pd (c09_observe L fd))
  | _ => false
  end.

(* Regression pins of the two classes repaired in core/src/reconcile.rs (former `_refuted` witnesses, same
   programs): the program is inside the domain and in NO recorded class, the model generates the file, the
   file spells the reference [r] (owner, position, name) and the judgement holds for the whole file. *)
Definition c09_ref_eqb (a b : c09_ref) : bool :=
  str_eqb (c9_in a) (c9_in b) && c09_pos_eqb (c9_pos a) (c9_pos b) && str_eqb (c9_name a) (c9_name b).
Definition c09_pinned (L : lang) (pfx : str) (acrs : list str) (pd : parsed) (out : outcome file_decls) (r : c09_ref) : bool :=
  dom_C09 L pfx pd && match known_C09 L pfx acrs pd with None => true | Some _ => false end &&
  match out with
  | Ok fd => existsb (c09_ref_eqb r) (c9_refs (c09_observe L fd)) && good_C09 L pfx pd (c09_observe L fd)
  | _ => false
  end.
(* formerly C09-generic-ref: struct G<T> (GRen); struct H { g: G<S> }: `g: GRen<SRen>`, definition `interface GRen<T>` *)
Lemma c09_generic_ref_fixed :
  c09_pinned TypeScript [] [] w_prog (ts_file_decls uc_exec w_ts (c09_reconciled w_prog))
             {| c9_in := lit "H"; c9_pos := C9Field; c9_name := lit "GRen" |} = true.
Proof. vm_compute. reflexivity. Qed.
Lemma c09_generic_ref_fixed_python :
  c09_pinned Python [] [] w_prog (py_file_decls uc_exec {| py_type_mappings := []; py_no_version_header := true; py_version := [] |} (c09_reconciled w_prog))
             {| c9_in := lit "H"; c9_pos := C9Field; c9_name := lit "GRen" |} = true.
Proof. vm_compute. reflexivity. Qed.
Lemma c09_generic_ref_fixed_swift :
  c09_pinned Swift (lit "OP") [] w_prog
             (sw_file_decls uc_exec {| sw_prefix := lit "OP"; sw_type_mappings := []; sw_default_decorators := []; sw_default_generic_constraints := [];
                                       sw_codablevoid_constraints := []; sw_no_version_header := true; sw_version := [] |} (c09_reconciled w_prog))
             {| c9_in := lit "OPH"; c9_pos := C9Field; c9_name := lit "OPGRen" |} = true.
Proof. vm_compute. reflexivity. Qed.
(* formerly C09-const-type: type A (ARen) = u32; const LIMIT: A = 5: `export const LIMIT: ARen`, definition `export type ARen` *)
Lemma c09_const_type_fixed :
  c09_pinned TypeScript [] [] w_prog_const (ts_file_decls uc_exec w_ts (c09_reconciled w_prog_const))
             {| c9_in := lit "LIMIT"; c9_pos := C9Const; c9_name := lit "ARen" |} = true.
Proof. vm_compute. reflexivity. Qed.
Lemma c09_const_type_fixed_python :
  c09_pinned Python [] [] w_prog_const (py_file_decls uc_exec {| py_type_mappings := []; py_no_version_header := true; py_version := [] |} (c09_reconciled w_prog_const))
             {| c9_in := lit "LIMIT"; c9_pos := C9Const; c9_name := lit "ARen" |} = true.
Proof. vm_compute. reflexivity. Qed.
Lemma c09_kotlin_enum_parent_refuted :
  c09_witness Kotlin (lit "KP") [] w_prog (kt_file_decls uc_exec w_kt (c09_reconciled w_prog)) "C09-kotlin-enum-parent" = true.
Proof. vm_compute. reflexivity. Qed.
Lemma c09_kotlin_inner_refuted :
  c09_witness Kotlin (lit "KP") [] w_prog (kt_file_decls uc_exec w_kt (c09_reconciled w_prog)) "C09-kotlin-inner" = true.
Proof. vm_compute. reflexivity. Qed.
Lemma c09_kotlin_alias_refuted :
  c09_witness Kotlin (lit "KP") [] w_prog (kt_file_decls uc_exec w_kt (c09_reconciled w_prog)) "C09-kotlin-alias" = true.
Proof. vm_compute. reflexivity. Qed.
Lemma c09_kotlin_inline_generic_refuted :
  c09_witness Kotlin (lit "KP") [] w_prog_inline (kt_file_decls uc_exec w_kt (c09_reconciled w_prog_inline)) "C09-kotlin-inline-generic" = true.
Proof. vm_compute. reflexivity. Qed.
Lemma c09_scala_enum_parent_refuted :
  c09_witness Scala [] [] w_prog (sc_file_decls uc_exec w_sc (c09_reconciled w_prog)) "C09-scala-enum-parent" = true.
Proof. vm_compute. reflexivity. Qed.
Lemma c09_scala_inner_refuted :
  c09_witness Scala [] [] w_prog (sc_file_decls uc_exec w_sc (c09_reconciled w_prog)) "C09-scala-inner" = true.
Proof. vm_compute. reflexivity. Qed.
Lemma c09_scala_alias_refuted :
  c09_witness Scala [] [] w_prog (sc_file_decls uc_exec w_sc (c09_reconciled w_prog)) "C09-scala-alias" = true.
Proof. vm_compute. reflexivity. Qed.
Lemma c09_go_alias_refuted :
  c09_witness Go [] [] w_prog (go_file_decls uc_exec (w_go []) (c09_reconciled w_prog)) "C09-go-alias" = true.
Proof. vm_compute. reflexivity. Qed.
Lemma c09_go_enum_refuted :
  c09_witness Go [] [] w_prog (go_file_decls uc_exec (w_go []) (c09_reconciled w_prog)) "C09-go-enum" = true.
Proof. vm_compute. reflexivity. Qed.
Lemma c09_go_acronym_target_refuted :
  c09_witness Go [] [lit "id"] w_prog (go_file_decls uc_exec (w_go [lit "id"]) (c09_reconciled w_prog)) "C09-go-acronym-target" = true.
Proof. vm_compute. reflexivity. Qed.

(* enum E { XyZwQr { a: u32 }, Other(u32) } under uppercase_acronyms = [xy, yZw, wQr]: the helper struct is
   defined EXYZWQrInner (two passes over the whole name) and referred to as EXYZWQRInner (the variant name
   gets a third pass) *)
Definition w_prog_acr : parsed :=
  w_parsed [] [ EAlgebraic (lit "type") (lit "content")
                  (w_esh "E" "E" [] [VAnon [w_field "a" (RPrim PU32)] (w_vsh "XyZwQr"); VTuple (RPrim PU32) (w_vsh "Other")]) ] [] [].
Definition w_acrs : list str := [lit "xy"; lit "yZw"; lit "wQr"].
Lemma c09_go_acronym_inner_refuted :
  c09_witness Go [] w_acrs w_prog_acr (go_file_decls uc_exec (w_go w_acrs) (c09_reconciled w_prog_acr)) "C09-go-acronym-inner" = true.
Proof. vm_compute. reflexivity. Qed.

(* struct UserId; struct Foo<TId> { x: TId, v: Vec<UserId> } under uppercase_acronyms = [ID] (given in upper case:
   its PascalCase form Id is what is searched): the parameter is declared `Foo[TId any]` and used as `X TID` *)
Definition w_prog_gen : parsed :=
  w_parsed [ w_struct "UserId" "UserId" [] [w_field "a" (RPrim PU32)];
             w_struct "Foo" "Foo" ["TId"] [w_field "x" (S_ "TId"); w_field "v" (RVec (S_ "UserId"))] ] [] [] [].
Lemma c09_go_acronym_generic_refuted :
  c09_witness Go [] [lit "ID"] w_prog_gen (go_file_decls uc_exec (w_go [lit "ID"]) (c09_reconciled w_prog_gen)) "C09-go-acronym-generic" = true.
Proof. vm_compute. reflexivity. Qed.

(* ---------------------------------------------------------------- non-vacuity *)
(* a program with mutual references, a generic struct, a tagged enum with a struct variant, an alias,
   one renamed struct, under a prefix: inside the domain, in no class, and the model generates it *)
Definition w_clean : parsed :=
  w_parsed
    [ w_struct "S" "SRen" [] [w_field "h" (ROption (S_ "H"))];
      w_struct "G" "G" ["T"] [w_field "t" (RVec (S_ "T")); w_field "s" (S_ "S")];
      w_struct "H" "H" [] [w_field "g" (RGeneric (lit "G") [S_ "S"]); w_field "a" (S_ "A"); w_field "e" (RHashMap (RPrim PString) (S_ "E"))] ]
    [ EAlgebraic (lit "type") (lit "content") (w_esh "E" "E" [] [VAnon [w_field "s" (S_ "S")] (w_vsh "V1"); VTuple (RVec (S_ "S")) (w_vsh "V2")]) ]
    [ w_alias "A" "A" [] (RVec (S_ "S")) [] ]
    [].
Example C09_Kotlin_nonvacuous_ex :
  dom_C09 Kotlin (lit "KP") w_clean = true /\ known_C09 Kotlin (lit "KP") [] w_clean = None /\
  exists fd, kt_file_decls uc_exec w_kt (c09_reconciled w_clean) = Ok fd /\
             (8 <=? List.length (c9_refs (c09_observe Kotlin fd)))%nat = true /\ good_C09 Kotlin (lit "KP") w_clean (c09_observe Kotlin fd) = true.
Proof. split; [vm_compute; reflexivity|]. split; [vm_compute; reflexivity|]. eexists. split; [vm_compute; reflexivity|]. split; vm_compute; reflexivity. Qed.

(* the same program for the other five back ends: inside the domain, in no class, generated by the model
   with at least 8 references, and judged good *)
Definition w_sw : sw_config := {| sw_prefix := lit "OP"; sw_type_mappings := []; sw_default_decorators := []; sw_default_generic_constraints := [];
                                  sw_codablevoid_constraints := []; sw_no_version_header := true; sw_version := [] |}.
Definition w_py : py_config := {| py_type_mappings := []; py_no_version_header := true; py_version := [] |}.
Definition c09_nonvacuous (L : lang) (pfx : str) (pd : parsed) (out : outcome file_decls) : bool :=
  dom_C09 L pfx pd && match known_C09 L pfx [] pd with None => true | Some _ => false end &&
  match out with
  | Ok fd => (8 <=? List.length (c9_refs (c09_observe L fd)))%nat && good_C09 L pfx pd (c09_observe L fd)
  | _ => false
  end.
Example C09_TypeScript_nonvacuous_ex : c09_nonvacuous TypeScript [] w_clean (ts_file_decls uc_exec w_ts (c09_reconciled w_clean)) = true.
Proof. vm_compute. reflexivity. Qed.
Example C09_Scala_nonvacuous_ex : c09_nonvacuous Scala [] w_clean (sc_file_decls uc_exec w_sc (c09_reconciled w_clean)) = true.
Proof. vm_compute. reflexivity. Qed.
Example C09_Python_nonvacuous_ex : c09_nonvacuous Python [] w_clean (py_file_decls uc_exec w_py (c09_reconciled w_clean)) = true.
Proof. vm_compute. reflexivity. Qed.
Example C09_Swift_nonvacuous_ex : c09_nonvacuous Swift (lit "OP") w_clean (sw_file_decls uc_exec w_sw (c09_reconciled w_clean)) = true.
Proof. vm_compute. reflexivity. Qed.
Example C09_Go_nonvacuous_ex : c09_nonvacuous Go [] w_clean (go_file_decls uc_exec (w_go []) (c09_reconciled w_clean)) = true.
Proof. vm_compute. reflexivity. Qed.

(* Go WITH acronyms (ID given in upper case, api in lower case): the conversion really rewrites definitions and
   uses - UserID, APIEvent, APIEventV1Inner - and does so consistently:
   struct UserId; struct Holder<T> { u: Vec<UserId>, t: T, e: ApiEvent };
   enum ApiEvent { V1 { a: UserId }, V2(Option<UserId>) } *)
Definition w_acr_clean : parsed :=
  w_parsed
    [ w_struct "UserId" "UserId" [] [w_field "x" (RPrim PU32)];
      w_struct "Holder" "Holder" ["T"] [w_field "u" (RVec (S_ "UserId")); w_field "t" (S_ "T"); w_field "e" (S_ "ApiEvent")] ]
    [ EAlgebraic (lit "type") (lit "content")
        (w_esh "ApiEvent" "ApiEvent" [] [VAnon [w_field "a" (S_ "UserId")] (w_vsh "V1"); VTuple (ROption (S_ "UserId")) (w_vsh "V2")]) ]
    [] [].
Definition w_acr_list : list str := [lit "ID"; lit "api"].
Definition c09_nonvacuous_go (acrs : list str) (pd : parsed) (out : outcome file_decls) (defs : list str) : bool :=
  dom_C09 Go [] pd && match known_C09 Go [] acrs pd with None => true | Some _ => false end &&
  match out with
  | Ok fd => (4 <=? List.length (c9_refs (c09_observe Go fd)))%nat && good_C09 Go [] pd (c09_observe Go fd) &&
             forallb (fun d => mem_str d (c9_defs (c09_observe Go fd))) defs
  | _ => false
  end.
Example C09_Go_acronyms_nonvacuous_ex :
  c09_nonvacuous_go w_acr_list w_acr_clean (go_file_decls uc_exec (w_go w_acr_list) (c09_reconciled w_acr_clean))
                    [lit "UserID"; lit "APIEvent"; lit "APIEventV1Inner"; lit "Holder"] = true.
Proof. vm_compute. reflexivity. Qed.

(* ---------------------------------------------------------------- nothing renamed => no class *)
Lemma c09_first_all_none {A} (l : list (option A)) : (forall x, In x l -> x = None) -> c09_first l = None.
Proof.
  induction l as [|y l IH]; intros H; [reflexivity|]. cbn [c09_first fold_right].
  rewrite (H y (or_introl eq_refl)). apply IH. intros x Hx. apply H. right. exact Hx.
Qed.

Lemma c09_no_rename_known (L : lang) (pfx : str) (pd : parsed) :
  (forall e, In e (c09_entities pd) -> c09_renamed_away (c9e_id e) = false) ->
  (forall a, In a (p_aliases pd) -> c09_inline_generic_class L pfx a = None) ->
  known_C09 L pfx [] pd = None.
Proof.
  intros Hren Hinl. unfold known_C09. apply c09_first_all_none. intros x Hx. unfold c09_classes in Hx.
  apply in_app_iff in Hx as [Hx|Hx]; [|apply in_app_iff in Hx as [Hx|Hx]; [|apply in_app_iff in Hx as [Hx|Hx]; [|apply in_app_iff in Hx as [Hx|Hx]]]].
  - apply in_flat_map in Hx as (tp & _ & Hx). unfold c09_tpos_classes in Hx. apply in_flat_map in Hx as (fi & _ & Hx).
    destruct (c09_lookup pd (snd fi)) as [e|] eqn:Hlk; [|destruct Hx].
    destruct (c09_lookup_in pd _ e Hlk) as (He & _ & _).
    destruct Hx as [<-|[<-|[]]].
    + unfold c09_type_site_class. rewrite (Hren e He). reflexivity.
    + unfold c09_acronym_class, c09_acr_changes, c09_acr_conv. cbn [fold_left]. rewrite str_eqb_refl. destruct L, (c9t_pos tp); reflexivity.
  - apply in_flat_map in Hx as (e & He & Hx). destruct (c9e_kind e) eqn:K; destruct Hx as [<-|[]];
      unfold c09_parent_site_class, c09_inner_site_class; rewrite ?K; try rewrite (Hren e He); try reflexivity;
      destruct (c09_parent_which L _); reflexivity.
  - apply in_map_iff in Hx as (a & <- & Ha). apply Hinl. exact Ha.
  - (* no acronyms: the conversion is the identity *)
    apply in_flat_map in Hx as (e & _ & Hx). cbv zeta in Hx. apply in_flat_map in Hx as (v & _ & Hx).
    destruct v as [?|? ?|fs vsh]; [destruct Hx|destruct Hx|]. destruct Hx as [<-|[]].
    unfold c09_inner_acronym_class, c09_acr_conv. destruct L; try reflexivity. cbn [fold_left]. rewrite str_eqb_refl. reflexivity.
  - (* no acronyms: no generic parameter is rewritten *)
    apply in_flat_map in Hx as (tp & _ & Hx). apply in_map_iff in Hx as (fi & <- & _).
    unfold c09_generic_acronym_class, c09_acr_changes, c09_acr_conv. cbn [fold_left]. rewrite str_eqb_refl. cbn [negb]. rewrite andb_false_r.
    destruct L; reflexivity.
Qed.
