(* C03 for Scala: one definition per alias / struct / enum plus one <Enum><Variant>Inner class per struct
   variant, each listing exactly the IR's members / variants in order.  Consts are never written
   (finding class C03-scala-const). *)
From Coq Require Import String List Bool Arith Lia Permutation.
From TS Require Import Model.Str Model.Outcome Model.Unicode Model.Types Model.Parse Model.TopsortAlgo Model.Topsort
                       Model.Lang.Common Model.Lang.Decl Model.Lang.Scala.
From TS Require Import Spec.C03Spec.
From TS Require Import Proofs.BackCommon Proofs.C03Back.
Import ListNotations.

Section SC.
Variable uc : unicode.
Variable cfg : sc_config.

Lemma sc_member_key gs f m : sc_member_of cfg gs f = Ok m ->
  c03_undash (mb_key (sc_obs_member m)) = c03_undash (renamed (fid f)).
Proof.
  unfold sc_member_of. destruct (match type_override f Scala with Some o => Ok (XRaw o) | None => sc_texp cfg gs (fty f) end) as [ty| |];
    cbn [bind]; try discriminate.
  intros [= <-]. cbn [sc_obs_member mb_key scm_name]. apply undash_idem.
Qed.

Lemma sc_class_sig rs d : sc_class_of cfg rs = Ok d ->
  map c03_sig_of (sc_obs d) = [c03_x_struct (c03_keys_of (sfields rs))].
Proof.
  unfold sc_class_of. destruct (sfields rs) as [|f0 fs0] eqn:Ef.
  - intros [= <-]. reflexivity.
  - destruct (mapM _ (f0 :: fs0)) as [ms| |] eqn:Em; cbn [bind]; try discriminate. intros [= <-].
    cbn [sc_obs map]. f_equal. apply sig_of_struct; [reflexivity|]. cbn [d_members].
    apply member_keys_Forall2. eapply mapM_Forall2'; [|exact Em].
    intros f m Hf. exact (sc_member_key _ _ _ Hf).
Qed.

Lemma sc_inner_sigs e ds : sc_inner_decls_of cfg e = Ok ds ->
  map c03_sig_of (flat_map sc_obs ds) = map c03_x_struct (c03_anon_keys (evariants e)).
Proof.
  unfold sc_inner_decls_of. destruct (mapM _ (evariants e)) as [dss| |] eqn:Em; cbn [bind]; try discriminate.
  intros [= <-]. revert dss Em. generalize (evariants e) as vs.
  induction vs as [|v vs IH]; intros dss Em; cbn [mapM] in Em.
  - injection Em as <-. reflexivity.
  - destruct v as [sh|t sh|fs sh]; cbn [bind] in Em.
    + destruct (mapM _ vs) as [r| |] eqn:Er; cbn [bind] in Em; try discriminate. injection Em as <-.
      cbn [List.concat app c03_anon_keys flat_map]. exact (IH _ eq_refl).
    + destruct (mapM _ vs) as [r| |] eqn:Er; cbn [bind] in Em; try discriminate. injection Em as <-.
      cbn [List.concat app c03_anon_keys flat_map]. exact (IH _ eq_refl).
    + destruct (sc_class_of cfg _) as [d| |] eqn:Ed; cbn [bind] in Em; try discriminate.
      destruct (mapM _ vs) as [r| |] eqn:Er; cbn [bind] in Em; try discriminate. injection Em as <-.
      cbn [List.concat app c03_anon_keys flat_map map]. rewrite map_app, (sc_class_sig _ _ Ed). cbn [anon_struct sfields app].
      f_equal. exact (IH _ eq_refl).
Qed.

Theorem sc_item it ds : sc_decl_of cfg it = Ok ds -> dom_C03_item it = true ->
  map c03_sig_of (flat_map sc_obs ds) = c03_expected_sigs Scala it /\ c03_payloads_ok Scala it (flat_map sc_obs ds) = true.
Proof.
  destruct it as [s|e|a|c]; cbn [sc_decl_of]; intros H Hdom.
  - destruct (sc_class_of cfg s) as [d| |] eqn:Ed; cbn [bind] in H; try discriminate. injection H as <-.
    split; [|reflexivity]. cbn [flat_map c03_expected_sigs]. now rewrite app_nil_r, (sc_class_sig _ _ Ed).
  - destruct (sc_inner_decls_of cfg (enum_shared e)) as [inner| |] eqn:Ea; cbn [bind] in H; try discriminate.
    pose proof (sc_inner_sigs _ _ Ea) as Hin.
    destruct (sc_variants_of cfg e) as [vs| |] eqn:Ev; cbn [bind] in H; try discriminate. injection H as <-.
    rewrite flat_map_app. cbn [flat_map sc_obs]. rewrite app_nil_r.
    apply (enum_item Scala e (flat_map sc_obs inner)); [reflexivity| | |reflexivity].
    + destruct e; cbn [c03_enum_helper]; rewrite app_nil_r; exact Hin.
    + cbn [d_variants]. apply Forall2_map_r'. unfold sc_variants_of in Ev.
      destruct e as [sh|tag content sh]; cbn [enum_shared] in *.
      * cbn [dom_C03_item] in Hdom. eapply mapM_Forall2_In; [|exact Ev]. intros v sv Hv He.
        unfold sc_variant_of_unit_enum in He. injection He as <-.
        pose proof (proj1 (forallb_forall _ _) Hdom v Hv) as Hu. destruct v; try discriminate. repeat split.
      * eapply mapM_Forall2'; [|exact Ev]. intros v sv Hv. unfold sc_variant_of_algebraic in Hv.
        destruct v as [vsh|t vsh|fs vsh]; cbn [bind] in Hv.
        -- injection Hv as <-. repeat split.
        -- destruct (sc_texp cfg (egenerics sh) t) as [ty| |]; cbn [bind] in Hv; try discriminate. injection Hv as <-.
           destruct ty; repeat split.
        -- injection Hv as <-. repeat split.
  - destruct (sc_texp cfg (agenerics a) (atype a)); cbn [bind] in H; try discriminate. injection H as <-. split; reflexivity.
  - discriminate.
Qed.

Theorem sc_item_good it ds : sc_decl_of cfg it = Ok ds -> dom_C03_item it = true ->
  good_C03_item Scala it (flat_map sc_obs ds) = true.
Proof. intros H Hd. destruct (sc_item it ds H Hd). now apply item_good. Qed.

Lemma sc_items_Forall2 its dss : (forall it, In it its -> dom_C03_item it = true) -> mapM (sc_decl_of cfg) its = Ok dss ->
  Forall2 (fun it ds => map c03_sig_of ds = c03_expected_sigs Scala it) its (map (flat_map sc_obs) dss).
Proof.
  intros Hdom Em. apply Forall2_map_r'. eapply mapM_Forall2_In; [|exact Em].
  intros it ds Hin Hd. exact (proj1 (sc_item it ds Hd (Hdom it Hin))).
Qed.

Lemma Forall2_app' {A B} (R : A -> B -> Prop) l1 l2 r1 r2 : Forall2 R l1 r1 -> Forall2 R l2 r2 -> Forall2 R (l1 ++ l2) (r1 ++ r2).
Proof. induction 1; cbn [app]; [auto|]. intros H2. constructor; auto. Qed.

(* the file: no topsort, consts ignored - so the theorem needs p_consts pd = [] (known_C03_file) *)
Theorem sc_file pd fd : sc_file_decls uc cfg pd = Ok fd -> dom_C03_file pd = true -> known_C03_file uc Scala pd = None ->
  good_C03_file Scala pd fd = true.
Proof.
  unfold sc_file_decls, sc_decls. intros H Hdom Hk.
  destruct (sc_begin_file cfg) as [hd| |]; cbn [bind] in H; try discriminate.
  destruct (mapM (sc_decl_of cfg) (map ItAlias (p_aliases pd))) as [das| |] eqn:Ea; cbn [bind] in H; try discriminate.
  destruct (mapM (sc_decl_of cfg) (map ItStruct (p_structs pd))) as [dst| |] eqn:Es; cbn [bind] in H; try discriminate.
  destruct (mapM (sc_decl_of cfg) (map ItEnum (p_enums pd))) as [den| |] eqn:Ee; cbn [bind] in H; try discriminate.
  injection H as <-. unfold good_C03_file. cbn [fd_decls].
  assert (Hc : p_consts pd = []).
  { cbn [known_C03_file] in Hk. destruct (p_consts pd); [reflexivity|discriminate]. }
  assert (Hitems : items_of pd = map ItAlias (p_aliases pd) ++ map ItStruct (p_structs pd) ++ map ItEnum (p_enums pd)).
  { unfold items_of. rewrite Hc. cbn [map]. now rewrite app_nil_r. }
  assert (Hd : forall it, In it (items_of pd) -> dom_C03_item it = true).
  { apply (dom_items_perm pd (items_of pd) Hdom (Permutation_refl _)). }
  rewrite Hitems in Hd.
  assert (F : Forall2 (fun it ds => map c03_sig_of ds = c03_expected_sigs Scala it) (items_of pd)
                      (map (flat_map sc_obs) (das ++ dst ++ den))).
  { rewrite Hitems, !map_app. apply Forall2_app'; [|apply Forall2_app'].
    - apply sc_items_Forall2; [|exact Ea]. intros it Hin. apply Hd. apply in_or_app. now left.
    - apply sc_items_Forall2; [|exact Es]. intros it Hin. apply Hd. apply in_or_app. right. apply in_or_app. now left.
    - apply sc_items_Forall2; [|exact Ee]. intros it Hin. apply Hd. apply in_or_app. right. apply in_or_app. now right. }
  set (pre := if sc_unsigned_integer_used pd then sc_obs sc_unsigned_aliases else []).
  pose proof (file_good_decls Scala pd (items_of pd) _ pre [] (Permutation_refl _) F) as G.
  rewrite app_nil_r in G.
  replace (flat_map sc_obs (((if sc_unsigned_integer_used pd then [sc_unsigned_aliases] else []) ++ List.concat das) ++ List.concat dst ++ List.concat den))
    with (pre ++ List.concat (map (flat_map sc_obs) (das ++ dst ++ den))).
  - apply G; [|reflexivity]. unfold pre. destruct (sc_unsigned_integer_used pd); reflexivity.
  - rewrite <- flat_map_concat', !concat_app, !flat_map_app. unfold pre.
    destruct (sc_unsigned_integer_used pd); cbn [flat_map app]; rewrite ?app_nil_r; reflexivity.
Qed.
End SC.
