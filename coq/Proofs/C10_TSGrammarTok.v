(* C10, grammar half for TypeScript, part 1: the TOKENIZER of Spec/C10TsGrammar.v.
     - [c10_next]: one step of [c10_ts_tokens] (skip a blank / a block comment, or cut one token);
     - [Tk s ts]: "s tokenises to ts with every sufficient fuel" (fuel-free view), [tokens_tk], [tk_run];
     - [tk_frame]: the FRAME lemma - the tokens of a text do not depend on what follows it as soon as the
       junction is a token boundary ([glue]: the follower does not start with an identifier character or a star,
       or the text ends with a character that is neither an identifier character nor a slash);
     - [Frag] / [CFrag]: open / closed fragments, composition, fragments of LITERAL text by computation
       ([frag_compute], [cfrag_compute]), the holes: identifiers, quoted keys, numbers, block comments. *)
From Coq Require Import List Bool Lia ZifyBool ZifyN NArith.
From TS Require Import Model.Str Spec.C10TsGrammar.
Import ListNotations.
Local Open Scope N_scope.
Local Notation length := List.length (only parsing).

Definition otl (o : option c10_tok) : list c10_tok := match o with Some t => [t] | None => [] end.

Definition c10_next (s : str) : option (option c10_tok * str) :=
  match s with
  | [] => None
  | c :: r =>
    if c10_ts_space c then Some (None, r)
    else if (c =? 47) && match r with d :: _ => d =? 42 | [] => false end
    then match c10_skip_block (tl r) with Some r' => Some (None, r') | None => None end
    else if c =? ch_dq
    then match c10_skip_string r with Some r' => Some (Some KStr, r') | None => None end
    else if c10_ts_id_start c
    then let '(a, b) := c10_take_while c10_ts_id_char s in Some (Some (KIdent a), b)
    else if is_adigit c
    then let '(_, b) := c10_take_while is_adigit s in Some (Some KNum, b)
    else Some (Some (KP c), r)
  end.

Lemma tokens_unfold f s : c10_ts_tokens (S f) s =
  match s with
  | [] => Some []
  | _ => match c10_next s with
         | None => None
         | Some (ot, r) => match c10_ts_tokens f r with Some ts => Some (otl ot ++ ts) | None => None end
         end
  end.
Proof.
  destruct s as [|c r]; [reflexivity|]. cbn [c10_ts_tokens c10_next].
  destruct (c10_ts_space c); [destruct (c10_ts_tokens f r); reflexivity|].
  destruct ((c =? 47) && match r with d :: _ => d =? 42 | [] => false end).
  { destruct (c10_skip_block (tl r)) as [r'|]; [|reflexivity]. destruct (c10_ts_tokens f r'); reflexivity. }
  destruct (c =? ch_dq).
  { destruct (c10_skip_string r) as [r'|]; [|reflexivity]. destruct (c10_ts_tokens f r'); reflexivity. }
  destruct (c10_ts_id_start c).
  { destruct (c10_take_while c10_ts_id_char (c :: r)) as [a b]. destruct (c10_ts_tokens f b); reflexivity. }
  destruct (is_adigit c).
  { destruct (c10_take_while is_adigit (c :: r)) as [a b]. destruct (c10_ts_tokens f b); reflexivity. }
  destruct (c10_ts_tokens f r); reflexivity.
Qed.

(* ------------------------------------------------------------------ the scanners: what they consume *)
Lemma skip_block_frame s r : c10_skip_block s = Some r ->
  (exists p, s = p ++ r) /\ forall b, c10_skip_block (s ++ b) = Some (r ++ b).
Proof.
  revert r. induction s as [|c s IH]; intros r H; [discriminate|]. cbn [c10_skip_block] in H.
  destruct s as [|d s'].
  - rewrite andb_false_r in H. discriminate.
  - destruct ((c =? 42) && (d =? 47)) eqn:E.
    + injection H as <-. split; [exists [c; d]; reflexivity|]. intros b. cbn [c10_skip_block app]. rewrite E. reflexivity.
    + destruct (IH r H) as [[p Hp] Hb]. split; [exists (c :: p); rewrite Hp; reflexivity|].
      intros b. change ((c :: d :: s') ++ b) with (c :: (d :: s') ++ b). cbn [c10_skip_block].
      change ((d :: s') ++ b) with (d :: s' ++ b) at 1. cbv beta iota. rewrite E. apply Hb.
Qed.

Lemma skip_string_frame s r : c10_skip_string s = Some r ->
  (exists p, s = p ++ r) /\ forall b, c10_skip_string (s ++ b) = Some (r ++ b).
Proof.
  assert (G : forall n s, (List.length s <= n)%nat -> forall r, c10_skip_string s = Some r ->
              (exists p, s = p ++ r) /\ forall b, c10_skip_string (s ++ b) = Some (r ++ b)).
  { clear s r. induction n as [|n IH]; intros s Hn r H; (destruct s as [|c s]; [discriminate|]); [cbn in Hn; lia|].
    cbn [c10_skip_string] in H. cbn [List.length] in Hn.
    destruct (c =? ch_dq) eqn:E1.
    { injection H as <-. split; [exists [c]; reflexivity|]. intros b. cbn [c10_skip_string app]. rewrite E1. reflexivity. }
    destruct (c =? ch_bs) eqn:E2.
    { destruct s as [|d s']; [discriminate|]. cbn [List.length] in Hn.
      destruct (IH s' ltac:(lia) r H) as [[p Hp] Hb]. split; [exists (c :: d :: p); rewrite Hp; reflexivity|].
      intros b. cbn [c10_skip_string app]. rewrite E1, E2. apply Hb. }
    destruct ((c =? ch_nl) || (c =? ch_cr)) eqn:E3; [discriminate|].
    destruct (IH s ltac:(lia) r H) as [[p Hp] Hb]. split; [exists (c :: p); rewrite Hp; reflexivity|].
    intros b. cbn [c10_skip_string app]. rewrite E1, E2, E3. apply Hb. }
  exact (G (List.length s) s (le_n _) r).
Qed.

Lemma take_while_spec p s x y : c10_take_while p s = (x, y) ->
  s = x ++ y /\ forallb p x = true /\ match y with c :: _ => p c = false | [] => True end.
Proof.
  revert x y. induction s as [|c s IH]; intros x y H; cbn [c10_take_while] in H.
  - injection H as <- <-. auto.
  - destruct (p c) eqn:E.
    + destruct (c10_take_while p s) as [a b]. injection H as <- <-. destruct (IH a b eq_refl) as (H1 & H2 & H3).
      split; [rewrite H1; reflexivity|]. split; [cbn [forallb]; rewrite E, H2; reflexivity|exact H3].
    + injection H as <- <-. auto.
Qed.

Lemma take_while_app p x y : forallb p x = true -> match y with c :: _ => p c = false | [] => True end ->
  c10_take_while p (x ++ y) = (x, y).
Proof.
  intros Hx Hy. induction x as [|c x IH]; cbn [app c10_take_while].
  - destruct y as [|d y]; [reflexivity|]. cbn [c10_take_while]. rewrite Hy. reflexivity.
  - cbn [forallb] in Hx. apply andb_true_iff in Hx as [Hc Hx]. rewrite Hc, (IH Hx). reflexivity.
Qed.

Lemma app_len_lt {A} (p r : list A) : p <> [] -> (List.length r < List.length (p ++ r))%nat.
Proof. destruct p; [congruence|]. rewrite app_length. cbn. lia. Qed.

(* one step consumes a non-empty prefix *)
Lemma next_suffix s ot r : c10_next s = Some (ot, r) -> exists p, p <> [] /\ s = p ++ r.
Proof.
  destruct s as [|c s]; [discriminate|]. cbn [c10_next].
  destruct (c10_ts_space c); [intros H; injection H as <- <-; exists [c]; split; [discriminate|reflexivity]|].
  destruct ((c =? 47) && match s with d :: _ => d =? 42 | [] => false end) eqn:Ec.
  { destruct (c10_skip_block (tl s)) as [r'|] eqn:E; [|discriminate]. intros H. injection H as <- <-.
    destruct (proj1 (skip_block_frame _ _ E)) as [p Hp]. destruct s as [|d s']; [rewrite andb_false_r in Ec; discriminate|].
    cbn [tl] in Hp. exists (c :: d :: p). split; [discriminate|]. rewrite Hp. reflexivity. }
  destruct (c =? ch_dq).
  { destruct (c10_skip_string s) as [r'|] eqn:E; [|discriminate]. intros H. injection H as <- <-.
    destruct (proj1 (skip_string_frame _ _ E)) as [p Hp]. exists (c :: p). split; [discriminate|]. rewrite Hp. reflexivity. }
  destruct (c10_ts_id_start c) eqn:Ei.
  { destruct (c10_take_while c10_ts_id_char (c :: s)) as [a b] eqn:E. intros H. injection H as <- <-.
    destruct (take_while_spec _ _ _ _ E) as (H1 & _ & _). exists a. split; [|exact H1].
    cbn [c10_take_while] in E. unfold c10_ts_id_char at 1 in E. rewrite Ei in E. cbn [orb] in E.
    destruct (c10_take_while c10_ts_id_char s). injection E as <- _. discriminate. }
  destruct (is_adigit c) eqn:Ed.
  { destruct (c10_take_while is_adigit (c :: s)) as [a b] eqn:E. intros H. injection H as <- <-.
    destruct (take_while_spec _ _ _ _ E) as (H1 & _ & _). exists a. split; [|exact H1].
    cbn [c10_take_while] in E. rewrite Ed in E. destruct (c10_take_while is_adigit s). injection E as <- _. discriminate. }
  intros H. injection H as <- <-. exists [c]. split; [discriminate|reflexivity].
Qed.

Lemma next_shorter s ot r : c10_next s = Some (ot, r) -> (List.length r < List.length s)%nat.
Proof. intros H. destruct (next_suffix _ _ _ H) as (p & Hp & ->). apply app_len_lt, Hp. Qed.

(* ------------------------------------------------------------------ the fuel-free view *)
Definition Tk (s : str) (ts : list c10_tok) : Prop := forall f, (List.length s < f)%nat -> c10_ts_tokens f s = Some ts.

Lemma tk_nil : Tk [] [].
Proof. intros f Hf. destruct f; [cbn in Hf; lia|reflexivity]. Qed.

Lemma tk_step s ot r ts : c10_next s = Some (ot, r) -> Tk r ts -> Tk s (otl ot ++ ts).
Proof.
  intros H Hr f Hf. destruct f as [|f]; [lia|]. rewrite tokens_unfold. destruct s as [|c s]; [discriminate|].
  rewrite H, (Hr f); [reflexivity|]. pose proof (next_shorter _ _ _ H). lia.
Qed.

Lemma tokens_tk f : forall s ts, c10_ts_tokens f s = Some ts -> Tk s ts.
Proof.
  induction f as [|f IH]; intros s ts H; [discriminate|]. rewrite tokens_unfold in H.
  destruct s as [|c s]; [injection H as <-; apply tk_nil|].
  destruct (c10_next (c :: s)) as [[ot r]|] eqn:E; [|discriminate].
  destruct (c10_ts_tokens f r) as [ts'|] eqn:E2; [|discriminate]. injection H as <-.
  exact (tk_step _ _ _ _ E (IH _ _ E2)).
Qed.

(* what the recogniser runs *)
Lemma tk_run s ts : Tk s ts -> c10_ts_tokens (S (List.length s)) s = Some ts.
Proof. intros H. apply H. lia. Qed.

(* ------------------------------------------------------------------ the frame lemma *)
(* the follower cannot extend an identifier / a number, nor turn a final slash into a comment opener *)
Definition sepb (b : str) : bool := match b with [] => true | c :: _ => negb (c10_ts_id_char c) && negb (c =? 42) end.
(* a character that ends a token whatever follows *)
Definition closedc (c : char) : bool := negb (c10_ts_id_char c) && negb (c =? 47).
Definition glue (a b : str) : bool := sepb b || closedc (last a 32).

Lemma last_app_ne {A} (p r : list A) d : r <> [] -> last (p ++ r) d = last r d.
Proof.
  intros Hr. induction p as [|x p IH]; [reflexivity|]. cbn [app].
  assert (Hne : p ++ r <> []) by (destruct p; cbn; [exact Hr|discriminate]).
  destruct (p ++ r) as [|y l] eqn:E; [congruence|]. cbn [last]. exact IH.
Qed.

Lemma forallb_last {A} (p : A -> bool) x d : x <> [] -> forallb p x = true -> p (last x d) = true.
Proof.
  induction x as [|c x IH]; [congruence|]. intros _ H. cbn [forallb] in H. apply andb_true_iff in H as [Hc Hx].
  destruct x as [|c2 x]; [exact Hc|]. change (last (c :: c2 :: x) d) with (last (c2 :: x) d). apply IH; [discriminate|exact Hx].
Qed.

Lemma digit_id_char c : is_adigit c = true -> c10_ts_id_char c = true.
Proof. unfold c10_ts_id_char. intros ->. apply orb_true_r. Qed.

Lemma next_frame a b ot r : c10_next a = Some (ot, r) -> glue a b = true -> c10_next (a ++ b) = Some (ot, r ++ b).
Proof.
  destruct a as [|c s]; [discriminate|]. intros H G. cbn [c10_next app] in *.
  destruct (c10_ts_space c); [injection H as <- <-; reflexivity|].
  assert (Ec : ((c =? 47) && match s ++ b with d :: _ => d =? 42 | [] => false end) =
               ((c =? 47) && match s with d :: _ => d =? 42 | [] => false end)).
  { destruct s as [|d s']; [|reflexivity]. cbn [app]. rewrite andb_false_r.
    unfold glue in G. cbn [last] in G. destruct b as [|d b]; [apply andb_false_r|].
    unfold sepb, closedc in G. destruct (c =? 47); [|reflexivity]. destruct (d =? 42); [|reflexivity].
    rewrite !andb_false_r in G. discriminate. }
  rewrite Ec. destruct ((c =? 47) && match s with d :: _ => d =? 42 | [] => false end) eqn:Ec2.
  { destruct s as [|d s']; [rewrite andb_false_r in Ec2; discriminate|]. cbn [tl app] in *.
    destruct (c10_skip_block s') as [r'|] eqn:E; [|discriminate]. injection H as <- <-.
    rewrite (proj2 (skip_block_frame _ _ E) b). reflexivity. }
  destruct (c =? ch_dq).
  { destruct (c10_skip_string s) as [r'|] eqn:E; [|discriminate]. injection H as <- <-.
    rewrite (proj2 (skip_string_frame _ _ E) b). reflexivity. }
  assert (Gen : forall p, (forall x, p x = true -> c10_ts_id_char x = true) -> p c = true ->
                forall x y, c10_take_while p (c :: s) = (x, y) -> c10_take_while p (c :: s ++ b) = (x, y ++ b)).
  { intros p Hp Hc x y E. destruct (take_while_spec _ _ _ _ E) as (H1 & H2 & H3).
    change (c :: s ++ b) with ((c :: s) ++ b). rewrite H1, <- app_assoc. apply take_while_app; [exact H2|].
    destruct y as [|d y]; [|exact H3]. cbn [app]. destruct b as [|d b]; [exact I|].
    rewrite app_nil_r in H1. unfold glue in G. apply orb_true_iff in G as [G | G].
    - unfold sepb in G. apply andb_true_iff in G as [G _]. apply negb_true_iff in G.
      destruct (p d) eqn:Epd; [|reflexivity]. rewrite (Hp d Epd) in G. discriminate.
    - exfalso. unfold closedc in G. apply andb_true_iff in G as [G _]. apply negb_true_iff in G.
      rewrite H1 in G. rewrite (Hp _ (forallb_last p x 32 ltac:(rewrite <- H1; discriminate) H2)) in G. discriminate. }
  destruct (c10_ts_id_start c) eqn:Ei.
  { destruct (c10_take_while c10_ts_id_char (c :: s)) as [x y] eqn:E. injection H as <- <-.
    rewrite (Gen c10_ts_id_char (fun x H => H) ltac:(unfold c10_ts_id_char; rewrite Ei; reflexivity) x y E). reflexivity. }
  destruct (is_adigit c) eqn:Ed.
  { destruct (c10_take_while is_adigit (c :: s)) as [x y] eqn:E. injection H as <- <-.
    rewrite (Gen is_adigit digit_id_char Ed x y E). reflexivity. }
  injection H as <- <-. reflexivity.
Qed.

Lemma tk_frame f : forall a ta, c10_ts_tokens f a = Some ta ->
  forall b tb, a = [] \/ glue a b = true -> Tk b tb -> Tk (a ++ b) (ta ++ tb).
Proof.
  induction f as [|f IH]; intros a ta H b tb G Hb; [discriminate|]. rewrite tokens_unfold in H.
  destruct a as [|c s]; [injection H as <-; exact Hb|]. destruct G as [G|G]; [discriminate|].
  destruct (c10_next (c :: s)) as [[ot r]|] eqn:E; [|discriminate].
  destruct (c10_ts_tokens f r) as [ts'|] eqn:E2; [|discriminate]. injection H as <-.
  rewrite <- app_assoc. apply (tk_step _ ot (r ++ b)); [exact (next_frame _ _ _ _ E G)|].
  apply IH; [exact E2| |exact Hb]. destruct r as [|d r]; [left; reflexivity|right].
  destruct (next_suffix _ _ _ E) as (p & _ & Hp). unfold glue in *. rewrite Hp in G.
  rewrite last_app_ne in G by discriminate. exact G.
Qed.

(* ------------------------------------------------------------------ fragments *)
(* open: the follower must not start with an identifier character or a star; closed: any follower *)
Definition Frag (a : str) (ta : list c10_tok) : Prop := forall b tb, sepb b = true -> Tk b tb -> Tk (a ++ b) (ta ++ tb).
Definition CFrag (a : str) (ta : list c10_tok) : Prop := forall b tb, Tk b tb -> Tk (a ++ b) (ta ++ tb).
(* the text starts with a separating character *)
Definition ssep (b : str) : bool := match b with c :: _ => negb (c10_ts_id_char c) && negb (c =? 42) | [] => false end.

Lemma ssep_app b c : ssep b = true -> sepb (b ++ c) = true.
Proof. destruct b; [discriminate|]. intros H. exact H. Qed.

Lemma frag_of_tk a ta : Tk a ta -> Frag a ta.
Proof.
  intros H b tb Hs Hb. apply (tk_frame _ _ _ (tk_run _ _ H)); [|exact Hb]. right. unfold glue. rewrite Hs. reflexivity.
Qed.
Lemma frag_compute a ta : c10_ts_tokens (S (List.length a)) a = Some ta -> Frag a ta.
Proof. intros H. apply frag_of_tk. exact (tokens_tk _ _ _ H). Qed.
Lemma cfrag_compute a ta : c10_ts_tokens (S (List.length a)) a = Some ta -> closedc (last a 32) = true -> CFrag a ta.
Proof. intros H Hc b tb Hb. apply (tk_frame _ _ _ H); [|exact Hb]. right. unfold glue. rewrite Hc. apply orb_true_r. Qed.

Lemma cfrag_frag a ta : CFrag a ta -> Frag a ta.
Proof. intros H b tb _ Hb. exact (H b tb Hb). Qed.
Lemma cfrag_nil : CFrag [] [].
Proof. intros b tb Hb. exact Hb. Qed.
Lemma cfrag_app a ta b tb : CFrag a ta -> CFrag b tb -> CFrag (a ++ b) (ta ++ tb).
Proof. intros Ha Hb c tc Hc. rewrite <- !app_assoc. apply Ha, Hb, Hc. Qed.
Lemma frag_cfrag_app a ta b tb : Frag a ta -> CFrag b tb -> ssep b = true -> CFrag (a ++ b) (ta ++ tb).
Proof. intros Ha Hb Hs c tc Hc. rewrite <- !app_assoc. apply Ha; [apply ssep_app, Hs|]. apply Hb, Hc. Qed.
Lemma cfrag_frag_app a ta b tb : CFrag a ta -> Frag b tb -> Frag (a ++ b) (ta ++ tb).
Proof. intros Ha Hb c tc Hs Hc. rewrite <- !app_assoc. apply Ha, Hb; [exact Hs|exact Hc]. Qed.
Lemma frag_frag_app a ta b tb : Frag a ta -> Frag b tb -> ssep b = true -> Frag (a ++ b) (ta ++ tb).
Proof. intros Ha Hb Hs c tc Hsc Hc. rewrite <- !app_assoc. apply Ha; [apply ssep_app, Hs|]. apply Hb; [exact Hsc|exact Hc]. Qed.

(* a closed fragment is a complete text *)
Lemma cfrag_tk a ta : CFrag a ta -> Tk a ta.
Proof. intros H. pose proof (H [] [] tk_nil) as G. rewrite !app_nil_r in G. exact G. Qed.

(* literal text: by computation *)
Ltac lit_cfrag := apply cfrag_compute; vm_compute; reflexivity.
Ltac lit_frag := apply frag_compute; vm_compute; reflexivity.

(* ------------------------------------------------------------------ holes *)
(* TypeScript-identifier-shaped: [A-Za-z_$][A-Za-z0-9_$]* *)
Definition c10_ts_ident_ok (s : str) : bool :=
  match s with [] => false | c :: r => c10_ts_id_start c && forallb c10_ts_id_char r end.

Lemma frag_ident n : c10_ts_ident_ok n = true -> Frag n [KIdent n].
Proof.
  intros H. apply frag_of_tk. destruct n as [|c r]; [discriminate|]. cbn [c10_ts_ident_ok] in H. apply andb_true_iff in H as [Hc Hr].
  apply (tk_step (c :: r) (Some (KIdent (c :: r))) [] []); [|apply tk_nil].
  assert (Hsp : c10_ts_space c = false).
  { unfold c10_ts_space, c10_ts_id_start, is_aalpha, is_alower, is_aupper, ch_us in *. lia. }
  assert (Hq : (c =? ch_dq) = false).
  { unfold c10_ts_id_start, is_aalpha, is_alower, is_aupper, ch_us, ch_dq in *. lia. }
  assert (H47 : (c =? 47) = false).
  { unfold c10_ts_id_start, is_aalpha, is_alower, is_aupper, ch_us in *. lia. }
  cbn [c10_next]. rewrite Hsp, H47, Hq, Hc. cbn [andb].
  assert (E : c10_take_while c10_ts_id_char (c :: r) = (c :: r, [])).
  { rewrite <- (app_nil_r (c :: r)) at 1. apply take_while_app; [|exact I].
    cbn [forallb]. rewrite Hr. unfold c10_ts_id_char. rewrite Hc. reflexivity. }
  rewrite E. reflexivity.
Qed.

(* a double-quoted literal whose body needs no escape *)
Definition c10_plain_char (c : char) : bool := negb ((c =? ch_dq) || (c =? ch_bs) || (c =? ch_nl) || (c =? ch_cr)).

Lemma skip_string_plain body b : forallb c10_plain_char body = true -> c10_skip_string (body ++ ch_dq :: b) = Some b.
Proof.
  induction body as [|c r IH]; intros H; cbn [app c10_skip_string].
  - rewrite N.eqb_refl. reflexivity.
  - cbn [forallb] in H. apply andb_true_iff in H as [Hc Hr]. unfold c10_plain_char in Hc.
    apply negb_true_iff in Hc. rewrite !orb_false_iff in Hc. destruct Hc as [[[H1 H2] H3] H4].
    rewrite H1, H2, H3, H4. cbn [orb]. exact (IH Hr).
Qed.

Lemma cfrag_quoted body : forallb c10_plain_char body = true -> CFrag (ch_dq :: body ++ [ch_dq]) [KStr].
Proof.
  intros H b tb Hb. change ([KStr] ++ tb) with (otl (Some KStr) ++ tb). apply (tk_step _ (Some KStr) b); [|exact Hb].
  change ((ch_dq :: body ++ [ch_dq]) ++ b) with (ch_dq :: (body ++ [ch_dq]) ++ b). rewrite <- app_assoc.
  cbn [c10_next app]. change (c10_ts_space ch_dq) with false. cbv beta iota.
  change ((ch_dq =? 47) && _) with false. cbv beta iota. change (ch_dq =? ch_dq) with true. cbv beta iota.
  rewrite (skip_string_plain body b H). reflexivity.
Qed.

(* numbers *)
Lemma frag_digits d : d <> [] -> forallb is_adigit d = true -> Frag d [KNum].
Proof.
  intros Hne H. apply frag_of_tk. destruct d as [|c r]; [congruence|]. pose proof H as H0. cbn [forallb] in H. apply andb_true_iff in H as [Hc Hr].
  apply (tk_step (c :: r) (Some KNum) [] []); [|apply tk_nil].
  assert (Hsp : c10_ts_space c = false) by (unfold c10_ts_space, is_adigit in *; lia).
  assert (Hq : (c =? ch_dq) = false) by (unfold is_adigit, ch_dq in *; lia).
  assert (H47 : (c =? 47) = false) by (unfold is_adigit in *; lia).
  assert (Hi : c10_ts_id_start c = false) by (unfold c10_ts_id_start, is_aalpha, is_alower, is_aupper, is_adigit, ch_us in *; lia).
  cbn [c10_next]. rewrite Hsp, H47, Hq, Hi, Hc. cbn [andb].
  assert (E : c10_take_while is_adigit (c :: r) = (c :: r, [])).
  { rewrite <- (app_nil_r (c :: r)) at 1. apply take_while_app; [exact H0|exact I]. }
  rewrite E. reflexivity.
Qed.

(* block comments: the body up to the first star-slash *)
Definition gnss (c : str) : bool := negb (contains_sub [42; 47] c).

Lemma gnss_cons a r : gnss (a :: r) = true -> gnss r = true /\ (a = 42 -> match r with x :: _ => x <> 47 | [] => True end).
Proof.
  unfold gnss. cbn [contains_sub starts_with]. rewrite negb_true_iff, orb_false_iff. intros [H1 H2]. split.
  - rewrite H2. reflexivity.
  - intros ->. destruct r as [|x r]; [exact I|]. cbn [starts_with] in H1. lia.
Qed.

(* a star-slash-free text is skipped as soon as what follows does not start with a slash *)
Lemma skip_block_pass x rest : gnss x = true -> match rest with c :: _ => c <> 47 | [] => True end ->
  c10_skip_block (x ++ rest) = c10_skip_block rest.
Proof.
  intros Hx Hr. induction x as [|a r IH]; [reflexivity|]. apply gnss_cons in Hx as [Hx Ha]. cbn [app c10_skip_block].
  rewrite (IH Hx). destruct ((a =? 42) && match r ++ rest with d :: _ => d =? 47 | [] => false end) eqn:E; [|reflexivity].
  exfalso. apply andb_true_iff in E as [E1 E2]. specialize (Ha ltac:(lia)).
  destruct r as [|d r]; cbn [app] in E2; [destruct rest as [|d rest]; [discriminate|lia]|lia].
Qed.

(* [/*] body [*/]: no token *)
Lemma cfrag_comment body : gnss body = true -> CFrag (47 :: 42 :: body ++ [42; 47]) [].
Proof.
  intros H b tb Hb. change ([] ++ tb) with (otl None ++ tb). apply (tk_step _ None b); [|exact Hb].
  change ((47 :: 42 :: body ++ [42; 47]) ++ b) with (47 :: 42 :: (body ++ [42; 47]) ++ b). rewrite <- app_assoc.
  cbn [c10_next tl]. change (c10_ts_space 47) with false. cbv beta iota. change ((47 =? 47) && (42 =? 42)) with true. cbv beta iota.
  rewrite skip_block_pass; [|exact H|cbn; lia]. reflexivity.
Qed.

Lemma gnss_app x y : gnss x = true -> gnss y = true -> match y with c :: _ => c <> 47 | [] => True end -> gnss (x ++ y) = true.
Proof.
  intros Hx Hy Hh. induction x as [|a r IH]; [exact Hy|]. apply gnss_cons in Hx as [Hx Ha]. specialize (IH Hx).
  unfold gnss in *. cbn [app contains_sub]. apply negb_true_iff. apply orb_false_iff. split; [|apply negb_true_iff, IH].
  cbn [starts_with]. destruct (42 =? a) eqn:E; [|reflexivity]. specialize (Ha ltac:(lia)). cbn [andb].
  destruct r as [|d r]; cbn [app].
  - destruct y as [|d y]; [reflexivity|]. destruct (47 =? d) eqn:E2; [lia|reflexivity].
  - destruct (47 =? d) eqn:E2; [lia|reflexivity].
Qed.

(* blanks *)
Lemma cfrag_blank x : forallb c10_ts_space x = true -> CFrag x [].
Proof.
  induction x as [|c r IH]; intros H; [apply cfrag_nil|]. cbn [forallb] in H. apply andb_true_iff in H as [Hc Hr].
  intros b tb Hb. change ([] ++ tb) with (otl None ++ tb). apply (tk_step _ None (r ++ b)); [|exact (IH Hr b tb Hb)].
  cbn [app c10_next]. rewrite Hc. reflexivity.
Qed.

(* the frame lemma in terms of the function the recogniser runs *)
Theorem tokens_frame a ta b tb :
  c10_ts_tokens (S (List.length a)) a = Some ta -> c10_ts_tokens (S (List.length b)) b = Some tb -> glue a b = true ->
  c10_ts_tokens (S (List.length (a ++ b))) (a ++ b) = Some (ta ++ tb).
Proof. intros Ha Hb G. apply tk_run. apply (tk_frame _ _ _ Ha); [right; exact G|exact (tokens_tk _ _ _ Hb)]. Qed.
