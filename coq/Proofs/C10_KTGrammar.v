(* C10, grammar half for Kotlin, part 3: the LAYOUT layer of Model/Lang/Kotlin.v produces text that tokenises to
   declarations of the grammar.
     - [TyText t]: the text t is an (open) fragment whose tokens are a type of the grammar; closed under the type
       formers of [kt_show] (names, type application, the nullable mark);
     - [kt_comments_cfrag]: doc lines are closed fragments without tokens (line comments);
     - constructor parameters, enum entries, the variants of a sealed class, the six declaration forms:
       [kt_render_decl_gram]. *)
From Coq Require Import List Bool Lia ZifyBool ZifyN NArith String.
From TS Require Import Model.Str Model.Outcome Model.Unicode Model.Types Model.Parse Model.Lang.Common Model.Lang.Decl Model.Lang.TypeScript Model.Lang.Kotlin.
From TS Require Import Spec.C10Spec Spec.C10TsGrammar Spec.C10KtGrammar Proofs.C10_KTGrammarTok Proofs.C10_KTGrammarParse.
From TS Require Proofs.C10Lex Proofs.C10_TSGrammar.
Import ListNotations.
Local Open Scope N_scope.
Local Notation length := List.length (only parsing).

Ltac lit_cfrag := apply cfrag_compute; vm_compute; reflexivity.
Ltac lit_frag := apply frag_compute; vm_compute; reflexivity.

(* ------------------------------------------------------------------ names *)
Lemma ident_kt_ident s : c10_ident_ok s = true -> c10k_ident_ok s = true.
Proof.
  destruct s as [|c r]; [discriminate|]. unfold c10_ident_ok, c10k_ident_ok. rewrite !andb_true_iff. intros [Hc Hr]. split.
  - unfold c10_ident_start, c10k_id_start in *. lia.
  - revert Hr. apply Proofs.C10Lex.forallb_impl. intros x Hx.
    unfold c10_ident_char, c10k_id_char, c10k_id_start in *. lia.
Qed.

(* ------------------------------------------------------------------ type expressions *)
Definition TyText (t : str) : Prop := exists tx, Frag t tx /\ Gr STy tx.

Lemma tytext_ident n : c10k_ident_ok n = true -> TyText n.
Proof. intros H. exists [KIdent n]. split; [apply frag_ident, H|apply gr_ty_name]. Qed.

Lemma L_quest : CFrag (lit "?") [KP 63]. Proof. lit_cfrag. Qed.
Lemma L_lt : CFrag (lit "<") [KP 60]. Proof. lit_cfrag. Qed.
Lemma L_gt : CFrag (lit ">") [KP 62]. Proof. lit_cfrag. Qed.
Lemma L_comma_sp : CFrag (lit ", ") [KP 44]. Proof. lit_cfrag. Qed.

Lemma tytext_quest t : TyText t -> TyText (t ++ lit "?").
Proof.
  intros (tx & Hf & Hg). exists (tx ++ [KP 63]). split; [|apply gr_ty_quest, Hg].
  apply cfrag_frag. apply frag_cfrag_app; [exact Hf|exact L_quest|reflexivity].
Qed.

Lemma join_concat sep a (l : list str) : join sep (a :: l) = a ++ List.concat (map (fun x => sep ++ x) l).
Proof.
  revert a. induction l as [|b r IH]; intros a; [cbn [join map List.concat]; rewrite app_nil_r; reflexivity|].
  change (join sep (a :: b :: r)) with (a ++ sep ++ join sep (b :: r)). rewrite IH. cbn [map List.concat]. rewrite <- app_assoc. reflexivity.
Qed.

(* , t2, t3> *)
Lemma args_text l : Forall TyText l -> exists tls, Forall (Gr STy) tls /\
  CFrag (List.concat (map (fun x => lit ", " ++ x) l) ++ lit ">") (args_tail tls) /\
  ssep (List.concat (map (fun x => lit ", " ++ x) l) ++ lit ">") = true.
Proof.
  induction 1 as [|x l (tx & Hf & Hg) _ (tls & Hgs & Hfs & Hs)].
  - exists []. split; [constructor|]. split; [exact L_gt|reflexivity].
  - exists (tx :: tls). split; [constructor; assumption|]. split; [|reflexivity].
    cbn [map List.concat args_tail]. rewrite <- !app_assoc.
    change (KP 44 :: tx ++ args_tail tls) with ([KP 44] ++ tx ++ args_tail tls).
    apply cfrag_app; [exact L_comma_sp|]. apply frag_cfrag_app; [exact Hf|exact Hfs|exact Hs].
Qed.

Lemma tytext_app n a l : c10k_ident_ok n = true -> TyText a -> Forall TyText l ->
  TyText (n ++ lit "<" ++ join (lit ", ") (a :: l) ++ lit ">").
Proof.
  intros Hn (ta & Hfa & Hga) Hl. destruct (args_text l Hl) as (tls & Hgs & Hfs & Hs).
  exists ([KIdent n] ++ [KP 60] ++ ta ++ args_tail tls). split.
  - rewrite join_concat, <- app_assoc.
    apply frag_frag_app; [apply frag_ident, Hn| |reflexivity]. apply cfrag_frag_app; [exact L_lt|].
    apply cfrag_frag. apply frag_cfrag_app; [exact Hfa|exact Hfs|exact Hs].
  - exact (gr_ty_app n ta tls Hga Hgs).
Qed.

(* a type tree all of whose names are identifiers and whose verbatim leaves are types of the grammar; the three
   constructors the Kotlin back end never builds (XSeq, XFixed, XMap) are outside *)
Inductive c10_ktg_texp : texp -> Prop :=
| KG_name n args : c10k_ident_ok n = true -> Forall c10_ktg_texp args -> c10_ktg_texp (XName n args)
| KG_opt e : c10_ktg_texp e -> c10_ktg_texp (XOpt e)
| KG_raw t : TyText t -> c10_ktg_texp (XRaw t).

Lemma kt_show_tytext x : c10_ktg_texp x -> TyText (kt_show x).
Proof.
  induction x as [n args IH | e IH | es IH | k v IHk IHv | e IH | t] using Proofs.C10Lex.texp_ind'; intros H; inversion H; subst.
  - assert (Ha : Forall TyText (map kt_show args)).
    { apply Forall_map. rewrite Forall_forall in *. intros a Ha. apply IH; auto. }
    destruct args as [|a l]; [apply tytext_ident; assumption|].
    change (kt_show (XName n (a :: l))) with (n ++ lit "<" ++ join (lit ", ") (map kt_show (a :: l)) ++ lit ">").
    cbn [map] in *. inversion Ha; subst. apply tytext_app; assumption.
  - change (kt_show (XOpt e)) with (kt_show e ++ lit "?"). apply tytext_quest. auto.
  - assumption.
Qed.

(* ------------------------------------------------------------------ doc comments *)
Lemma tabs_blank n : forallb c10k_space (tabs n) = true.
Proof. unfold tabs. induction n as [|n IH]; [reflexivity|]. cbn [repeat_str app forallb]. exact IH. Qed.

Lemma kt_comments_cfrag indent docs : forallb Proofs.C10Lex.c10_line_ok docs = true -> CFrag (kt_write_comments indent docs) [].
Proof.
  intros H. unfold kt_write_comments. induction docs as [|c r IH]; [apply cfrag_nil|].
  cbn [forallb] in H. apply andb_true_iff in H as [Hc Hr]. cbn [map List.concat].
  change (@nil c10_tok) with (@nil c10_tok ++ []). apply cfrag_app; [|exact (IH Hr)].
  unfold kt_write_comment. change (@nil c10_tok) with (@nil c10_tok ++ []). apply cfrag_app; [apply cfrag_blank, tabs_blank|].
  change (lit "/// " ++ c ++ nl) with (47 :: 47 :: (lit "/ " ++ c) ++ [ch_nl]). apply cfrag_line_comment.
  unfold noeol. cbn [lit app forallb]. exact Hc.
Qed.

(* ------------------------------------------------------------------ quoted text *)
Lemma cfrag_debug_key k : k <> [] -> forallb c10_key_char k = true -> CFrag (debug_str k) [KStr].
Proof. intros Hne H. destruct (Proofs.C10_TSGrammar.debug_key k H) as [-> Hp]. apply cfrag_quoted; assumption. Qed.

(* ------------------------------------------------------------------ names with generic parameters *)
Lemma gens_frag gs : gs <> [] -> forallb c10k_ident_ok gs = true -> CFrag (join (lit ", ") gs ++ lit ">") (sep_toks (map KIdent gs) 62).
Proof.
  induction gs as [|g r IH]; [congruence|]. intros _ H. cbn [forallb] in H. apply andb_true_iff in H as [Hg Hr].
  destruct r as [|g2 r].
  - cbn [join map sep_toks]. change [KIdent g; KP 62] with ([KIdent g] ++ [KP 62]).
    apply frag_cfrag_app; [apply frag_ident, Hg|exact L_gt|reflexivity].
  - change (join (lit ", ") (g :: g2 :: r)) with (g ++ lit ", " ++ join (lit ", ") (g2 :: r)). rewrite <- !app_assoc.
    change (sep_toks (map KIdent (g :: g2 :: r)) 62) with ([KIdent g] ++ [KP 44] ++ sep_toks (map KIdent (g2 :: r)) 62).
    apply frag_cfrag_app; [apply frag_ident, Hg| |reflexivity]. apply cfrag_app; [exact L_comma_sp|]. apply IH; [discriminate|exact Hr].
Qed.

(* name<G, H> followed by something that starts with a separator *)
Lemma name_gens_tk name gs b tb : c10k_ident_ok name = true -> forallb c10k_ident_ok gs = true -> ssep b = true -> Tk b tb ->
  Tk (name ++ generics_suffix gs ++ b) (KIdent name :: gens_toks gs ++ tb).
Proof.
  intros Hn Hg Hs Hb. change (KIdent name :: ?x) with ([KIdent name] ++ x). destruct gs as [|g r].
  - cbn [generics_suffix gens_toks app]. apply (frag_ident name Hn); [destruct b; [discriminate|exact Hs]|exact Hb].
  - unfold generics_suffix, gens_toks. rewrite <- !app_assoc. apply (frag_ident name Hn); [reflexivity|].
    change (KP 60 :: ?x) with ([KP 60] ++ x). apply L_lt.
    rewrite app_assoc. apply (gens_frag (g :: r)); [discriminate|exact Hg|exact Hb].
Qed.

(* name<G, H> is a userType (and a type) of the grammar *)
Lemma sep_toks_args g r : sep_toks (map KIdent (g :: r)) 62 = [KIdent g] ++ args_tail (map (fun x => [KIdent x]) r).
Proof.
  revert g. induction r as [|g2 r IH]; intros g; [reflexivity|].
  change (sep_toks (map KIdent (g :: g2 :: r)) 62) with (KIdent g :: KP 44 :: sep_toks (map KIdent (g2 :: r)) 62). rewrite IH. reflexivity.
Qed.

Lemma gr_user_gens name gs : Gr SUser (KIdent name :: gens_toks gs).
Proof.
  destruct gs as [|g r]; [apply G_u1, G_s1|]. unfold gens_toks. rewrite sep_toks_args. apply G_u1.
  apply G_sapp; [apply gr_ty_name|]. apply gr_args_tail. apply Forall_map. apply Forall_forall. intros x _. apply gr_ty_name.
Qed.

(* ------------------------------------------------------------------ literal text *)
Lemma L_nl : CFrag nl []. Proof. lit_cfrag. Qed.
Lemma L_tab : CFrag [ch_tab] []. Proof. lit_cfrag. Qed.
Lemma L_colon : CFrag (lit ": ") [KP 58]. Proof. lit_cfrag. Qed.
Lemma L_serialname : CFrag ([ch_tab] ++ lit "@SerialName(") [KP 64; KIdent (lit "SerialName"); KP 40]. Proof. lit_cfrag. Qed.
Lemma L_rparen_nl : CFrag (lit ")" ++ nl) [KP 41]. Proof. lit_cfrag. Qed.
Lemma L_val : CFrag ([ch_tab] ++ lit "val ") [kw "val"]. Proof. lit_cfrag. Qed.
Lemma L_private_val : CFrag ([ch_tab] ++ lit "private val ") [KIdent (lit "private"); kw "val"]. Proof. lit_cfrag. Qed.
Lemma L_nullable_default : Frag (lit "? = null") [KP 63; KP 61; KIdent (lit "null")]. Proof. lit_frag. Qed.
Lemma L_null_default : Frag (lit " = null") [KP 61; KIdent (lit "null")]. Proof. lit_frag. Qed.
Lemma L_serializable : CFrag (lit "@Serializable" ++ nl) [KP 64; KIdent (lit "Serializable")]. Proof. lit_cfrag. Qed.
Lemma L_tab_serializable : CFrag ([ch_tab] ++ lit "@Serializable" ++ nl) [KP 64; KIdent (lit "Serializable")]. Proof. lit_cfrag. Qed.

Definition m_serializable : kmod := MAnnot [lit "Serializable"] None.
Definition m_serialname : kmod := MAnnot [lit "SerialName"] (Some [KStr]).
Lemma wf_serializable allow : mod_wf allow m_serializable. Proof. split; [discriminate|exact I]. Qed.
Lemma wf_serialname allow : mod_wf allow m_serialname. Proof. split; [discriminate|]. constructor; [reflexivity|constructor]. Qed.

(* ------------------------------------------------------------------ constructor parameters *)
Definition c10_ktg_member_ok (m : kt_member) : Prop :=
  forallb Proofs.C10Lex.c10_line_ok (km_docs m) = true /\
  match km_serial_name m with Some k => k <> [] /\ forallb c10_key_char k = true | None => True end /\
  c10k_ident_ok (km_name m) = true /\ c10_ktg_texp (km_type m).

Lemma mods_toks_app a b : mods_toks (a ++ b) = mods_toks a ++ mods_toks b.
Proof. unfold mods_toks. rewrite map_app, concat_app. reflexivity. Qed.

Lemma L_serialname0 : CFrag (lit "@SerialName(") [KP 64; KIdent (lit "SerialName"); KP 40]. Proof. lit_cfrag. Qed.
Lemma L_rparen : CFrag (lit ")") [KP 41]. Proof. lit_cfrag. Qed.
Lemma L_lparen : CFrag (lit "(") [KP 40]. Proof. lit_cfrag. Qed.

Lemma ser_cfrag (s : option str) : match s with Some k => k <> [] /\ forallb c10_key_char k = true | None => True end ->
  CFrag (match s with Some k => [ch_tab] ++ lit "@SerialName(" ++ debug_str k ++ lit ")" ++ nl | None => [] end)
        (mods_toks (match s with Some _ => [m_serialname] | None => [] end)).
Proof.
  destruct s as [k|]; [|intros _; apply cfrag_nil]. intros [H1 H2].
  change (mods_toks [m_serialname]) with ([] ++ [KP 64; KIdent (lit "SerialName"); KP 40] ++ [KStr] ++ [KP 41] ++ []).
  apply cfrag_app; [exact L_tab|]. apply cfrag_app; [exact L_serialname0|].
  apply cfrag_app; [apply cfrag_debug_key; assumption|]. apply cfrag_app; [exact L_rparen|exact L_nl].
Qed.

Lemma vis_cfrag (v : kt_visibility) :
  CFrag (match v with KtPublic => [ch_tab] ++ lit "val " | KtPrivate => [ch_tab] ++ lit "private val " end)
        (mods_toks (match v with KtPublic => [] | KtPrivate => [MKw (lit "private")] end) ++ [kw "val"]).
Proof. destruct v; [exact L_val|exact L_private_val]. Qed.

Definition default_ty (d : kt_default) (tx : list c10_tok) : list c10_tok := match d with KtNullableDefault => tx ++ [KP 63] | _ => tx end.
Definition default_expr (d : kt_default) : option c10_tok := match d with KtRequired => None | _ => Some (KIdent (lit "null")) end.

Lemma default_frag d t tx : Frag t tx ->
  Frag (t ++ match d with KtNullableDefault => lit "? = null" | KtNullDefault => lit " = null" | KtRequired => [] end)
       (default_ty d tx ++ match default_expr d with Some e => [KP 61; e] | None => [] end).
Proof.
  intros Hf. destruct d; cbn [default_ty default_expr].
  - rewrite !app_nil_r. exact Hf.
  - rewrite <- app_assoc. exact (frag_frag_app _ _ _ _ Hf L_nullable_default eq_refl).
  - exact (frag_frag_app _ _ _ _ Hf L_null_default eq_refl).
Qed.

Definition member_mods (m : kt_member) : list kmod :=
  match km_serial_name m with Some _ => [m_serialname] | None => [] end ++
  match km_visibility m with KtPublic => [] | KtPrivate => [MKw (lit "private")] end.

Lemma member_text m : c10_ktg_member_ok m -> exists p, Frag (kt_render_member m) p /\ ParamToks p.
Proof.
  intros (Hd & Hs & Hn & Ht). destruct (kt_show_tytext _ Ht) as (tx & Hf & Hg).
  exists (param_toks (member_mods m) false (km_name m) (default_ty (km_default m) tx) (default_expr (km_default m))). split.
  - replace (param_toks (member_mods m) false (km_name m) (default_ty (km_default m) tx) (default_expr (km_default m)))
      with ([] ++ mods_toks (match km_serial_name m with Some _ => [m_serialname] | None => [] end) ++
            (mods_toks (match km_visibility m with KtPublic => [] | KtPrivate => [MKw (lit "private")] end) ++ [kw "val"]) ++
            [KIdent (km_name m)] ++ [KP 58] ++
            default_ty (km_default m) tx ++ match default_expr (km_default m) with Some e => [KP 61; e] | None => [] end).
    2:{ unfold param_toks, member_mods. rewrite mods_toks_app, <- !app_assoc. reflexivity. }
    unfold kt_render_member.
    apply cfrag_frag_app; [apply kt_comments_cfrag, Hd|].
    apply cfrag_frag_app; [apply ser_cfrag, Hs|].
    apply cfrag_frag_app; [apply vis_cfrag|].
    apply frag_frag_app; [apply frag_ident, Hn| |reflexivity].
    apply cfrag_frag_app; [exact L_colon|]. apply default_frag, Hf.
  - apply param_toks_paramtoks.
    + unfold member_mods. apply Forall_app. split.
      * destruct (km_serial_name m); [constructor; [apply wf_serialname|constructor]|constructor].
      * destruct (km_visibility m); [constructor|constructor; [reflexivity|constructor]].
    + destruct (km_default m); [exact Hg|apply gr_ty_quest, Hg|exact Hg].
    + destruct (km_default m); [exact I|reflexivity|reflexivity].
Qed.

Lemma L_comma_nl : CFrag (lit "," ++ nl) [KP 44]. Proof. lit_cfrag. Qed.
Lemma L_nl_rparen : CFrag (nl ++ lit ")") [KP 41]. Proof. lit_cfrag. Qed.

(* the parameters of a primary constructor, up to and including the closing parenthesis *)
Lemma params_text ms : Forall c10_ktg_member_ok ms ->
  exists ps, List.length ps = List.length ms /\ Forall ParamToks ps /\
             CFrag (join (lit "," ++ nl) (map kt_render_member ms) ++ nl ++ lit ")") (params_toks ps).
Proof.
  induction 1 as [|m ms Hm Hms (ps & Hl & Hps & Hfs)].
  - exists []. split; [reflexivity|]. split; [constructor|]. cbn [map join app params_toks]. exact L_nl_rparen.
  - destruct (member_text m Hm) as (p & Hfp & Hpp). exists (p :: ps). split; [cbn [List.length]; lia|]. split; [constructor; assumption|].
    destruct ms as [|m2 ms]; destruct ps as [|p2 ps]; try discriminate Hl.
    + cbn [map join params_toks]. apply frag_cfrag_app; [exact Hfp|exact L_nl_rparen|reflexivity].
    + change (map kt_render_member (m :: m2 :: ms)) with (kt_render_member m :: map kt_render_member (m2 :: ms)).
      change (join (lit "," ++ nl) (kt_render_member m :: map kt_render_member (m2 :: ms)))
        with (kt_render_member m ++ (lit "," ++ nl) ++ join (lit "," ++ nl) (map kt_render_member (m2 :: ms))).
      change (params_toks (p :: p2 :: ps)) with (p ++ KP 44 :: params_toks (p2 :: ps)). rewrite <- !app_assoc.
      apply frag_cfrag_app; [exact Hfp| |reflexivity].
      change (KP 44 :: params_toks (p2 :: ps)) with ([KP 44] ++ params_toks (p2 :: ps)).
      rewrite app_assoc. apply cfrag_app; [exact L_comma_nl|]. exact Hfs.
Qed.

(* ------------------------------------------------------------------ enum entries *)
Definition c10_ktg_entry_ok (e : kt_entry) : Prop :=
  forallb Proofs.C10Lex.c10_line_ok (ke_docs e) = true /\ c10k_ident_ok (ke_name e) = true /\
  ke_wire e <> [] /\ forallb c10_key_char (ke_wire e) = true.

Lemma L_rparen_comma : CFrag (lit "),") [KP 41; KP 44]. Proof. lit_cfrag. Qed.

Lemma entry_text e : c10_ktg_entry_ok e -> exists te, CFrag (kt_render_entry e) te /\ EntryToks te.
Proof.
  intros (Hd & Hn & Hw1 & Hw2). exists (entry_toks [m_serialname] (ke_name e) [KStr]). split.
  - replace (entry_toks [m_serialname] (ke_name e) [KStr])
      with ([] ++ [] ++ [KP 64; KIdent (lit "SerialName"); KP 40] ++ [KStr] ++ [KP 41] ++ [] ++ [] ++
            [KIdent (ke_name e)] ++ [KP 40] ++ [KStr] ++ [KP 41; KP 44] ++ []) by reflexivity.
    unfold kt_render_entry.
    apply cfrag_app; [apply kt_comments_cfrag, Hd|].
    apply cfrag_app; [exact L_tab|]. apply cfrag_app; [exact L_serialname0|].
    apply cfrag_app; [apply cfrag_debug_key; assumption|].
    apply cfrag_app; [exact L_rparen|]. apply cfrag_app; [exact L_nl|]. apply cfrag_app; [exact L_tab|].
    apply frag_cfrag_app; [apply frag_ident, Hn| |reflexivity].
    apply cfrag_app; [exact L_lparen|]. apply cfrag_app; [apply cfrag_debug_key; assumption|].
    apply cfrag_app; [exact L_rparen_comma|exact L_nl].
  - exists [m_serialname], (ke_name e), [KStr]. split; [reflexivity|].
    split; [constructor; [apply wf_serialname|constructor]|constructor; [reflexivity|constructor]].
Qed.

Lemma entries_text es : Forall c10_ktg_entry_ok es ->
  exists tes, CFrag (List.concat (map kt_render_entry es)) (List.concat tes) /\ Forall EntryToks tes.
Proof.
  induction 1 as [|e es He _ (tes & Hf & Ht)].
  - exists []. split; [apply cfrag_nil|constructor].
  - destruct (entry_text e He) as (te & Hfe & Hte). exists (te :: tes). split; [|constructor; assumption].
    cbn [map List.concat]. apply cfrag_app; assumption.
Qed.

(* ------------------------------------------------------------------ the variants of a sealed class *)
Definition c10_ktg_variant_ok (v : kt_variant) : Prop :=
  forallb Proofs.C10Lex.c10_line_ok (kv_docs v) = true /\ kv_wire v <> [] /\ forallb T.c10_plain_char (kv_wire v) = true /\
  c10k_ident_ok (kv_name v) = true /\ c10k_ident_ok (kv_parent v) = true /\
  match kv_payload v with
  | KTPUnit => True
  | KTPNewtype ty => c10_ktg_texp ty
  | KTPInner inner gs => c10k_ident_ok inner = true /\ forallb c10k_ident_ok gs = true
  end.

Lemma ssep_app2 b c : ssep b = true -> ssep (b ++ c) = true.
Proof. destruct b; [discriminate|]. intros H. exact H. Qed.

Lemma name_gens_cfrag name gs b tb : c10k_ident_ok name = true -> forallb c10k_ident_ok gs = true -> ssep b = true -> CFrag b tb ->
  CFrag (name ++ generics_suffix gs ++ b) (KIdent name :: gens_toks gs ++ tb).
Proof.
  intros Hn Hg Hs Hb c tc Hc. rewrite <- !app_assoc.
  replace ((KIdent name :: gens_toks gs ++ tb) ++ tc) with (KIdent name :: gens_toks gs ++ tb ++ tc) by (cbn [app]; rewrite <- app_assoc; reflexivity).
  apply name_gens_tk; [exact Hn|exact Hg|apply ssep_app2, Hs|exact (Hb c tc Hc)].
Qed.

Lemma name_gens_frag name gs : c10k_ident_ok name = true -> forallb c10k_ident_ok gs = true ->
  Frag (name ++ generics_suffix gs) (KIdent name :: gens_toks gs).
Proof.
  intros Hn Hg. destruct gs as [|g r].
  - cbn [generics_suffix gens_toks]. rewrite app_nil_r. apply frag_ident, Hn.
  - apply cfrag_frag. unfold generics_suffix, gens_toks.
    change (KIdent name :: KP 60 :: sep_toks (map KIdent (g :: r)) 62) with ([KIdent name] ++ [KP 60] ++ sep_toks (map KIdent (g :: r)) 62).
    apply frag_cfrag_app; [apply frag_ident, Hn| |reflexivity]. apply cfrag_app; [exact L_lt|]. apply gens_frag; [discriminate|exact Hg].
Qed.

Lemma L_parens_nl : CFrag (lit "()" ++ nl) [KP 40; KP 41]. Proof. lit_cfrag. Qed.
Lemma L_val0 : CFrag (lit "val ") [kw "val"]. Proof. lit_cfrag. Qed.
Lemma LF_serializable : Frag (lit "@Serializable") [KP 64; KIdent (lit "Serializable")]. Proof. lit_frag. Qed.
Lemma L_object : CFrag (lit "object ") [kw "object"]. Proof. lit_cfrag. Qed.
Lemma L_data_class : CFrag (lit "data class ") [KIdent (lit "data"); kw "class"]. Proof. lit_cfrag. Qed.

(* : Parent<G>() *)
Definition parent_deleg (parent : str) (gs : list str) : option (list c10_tok * list c10_tok) := Some (KIdent parent :: gens_toks gs, []).

Lemma deleg_cfrag parent gs : c10k_ident_ok parent = true -> forallb c10k_ident_ok gs = true ->
  CFrag (lit ": " ++ parent ++ generics_suffix gs ++ lit "()" ++ nl) (odeleg_toks (parent_deleg parent gs)).
Proof.
  intros Hp Hg. change (odeleg_toks (parent_deleg parent gs)) with ([KP 58] ++ (KIdent parent :: gens_toks gs ++ [KP 40; KP 41])).
  apply cfrag_app; [exact L_colon|]. apply name_gens_cfrag; [exact Hp|exact Hg|reflexivity|exact L_parens_nl].
Qed.

Lemma deleg_wf parent gs : match parent_deleg parent gs with Some (u, l) => Gr SUser u /\ Forall expr_tok l | None => True end.
Proof. cbn [parent_deleg]. split; [apply gr_user_gens|constructor]. Qed.

(* (val content: T) followed by more *)
Lemma vctor_cfrag content t tx b tb : c10k_ident_ok content = true -> Frag t tx -> CFrag b tb ->
  CFrag (lit "(" ++ lit "val " ++ content ++ lit ": " ++ t ++ lit ")" ++ b)
        (octor_toks (Some [param_toks [] false content tx None]) ++ tb).
Proof.
  intros Hc Hf Hb.
  replace (octor_toks (Some [param_toks [] false content tx None]) ++ tb)
    with ([KP 40] ++ [kw "val"] ++ [KIdent content] ++ [KP 58] ++ tx ++ [KP 41] ++ tb).
  2:{ unfold octor_toks, params_toks, param_toks. cbn [mods_toks map List.concat app]. rewrite app_nil_r, <- app_assoc. reflexivity. }
  apply cfrag_app; [exact L_lparen|]. apply cfrag_app; [exact L_val0|].
  apply frag_cfrag_app; [apply frag_ident, Hc| |reflexivity]. apply cfrag_app; [exact L_colon|].
  apply frag_cfrag_app; [exact Hf| |reflexivity]. apply cfrag_app; [exact L_rparen|exact Hb].
Qed.

Lemma vctor_wf content tx : Gr STy tx -> Forall ParamToks [param_toks [] false content tx None].
Proof. intros H. constructor; [|constructor]. apply param_toks_paramtoks; [constructor|exact H|exact I]. Qed.

Definition variant_prefix_toks : list c10_tok :=
  [] ++ [] ++ [KP 64; KIdent (lit "Serializable")] ++ [] ++ [] ++ [KP 64; KIdent (lit "SerialName"); KP 40] ++ [KStr] ++ [KP 41] ++ [].

Lemma variant_text content gs v : c10k_ident_ok content = true -> forallb c10k_ident_ok gs = true -> c10_ktg_variant_ok v ->
  exists tv, CFrag (kt_render_variant content gs v) tv /\ DeclToks tv.
Proof.
  intros Hc Hg (Hd & Hw1 & Hw2 & Hn & Hp & Hpay).
  assert (Hpre : forall b tb, CFrag b tb ->
            CFrag (kt_write_comments 1 (kv_docs v) ++ [ch_tab] ++ lit "@Serializable" ++ nl ++ [ch_tab] ++ lit "@SerialName(" ++
                   [ch_dq] ++ kv_wire v ++ [ch_dq] ++ lit ")" ++ nl ++ b)
                  ([] ++ [] ++ [KP 64; KIdent (lit "Serializable")] ++ [] ++ [] ++ [KP 64; KIdent (lit "SerialName"); KP 40] ++ [KStr] ++ [KP 41] ++ [] ++ tb)).
  { intros b tb Hb. apply cfrag_app; [apply kt_comments_cfrag, Hd|]. apply cfrag_app; [exact L_tab|].
    apply frag_cfrag_app; [exact LF_serializable| |reflexivity]. apply cfrag_app; [exact L_nl|]. apply cfrag_app; [exact L_tab|].
    apply cfrag_app; [exact L_serialname0|]. rewrite (app_assoc (kv_wire v) [ch_dq]).
    apply (cfrag_app (ch_dq :: kv_wire v ++ [ch_dq]) [KStr]); [exact (cfrag_quoted (kv_wire v) Hw1 Hw2)|].
    apply cfrag_app; [exact L_rparen|]. apply cfrag_app; [exact L_nl|exact Hb]. }
  unfold kt_render_variant. destruct (kv_payload v) as [|ty|inner igs].
  - (* object Name: Parent<G>() *)
    exists (mods_toks [m_serializable; m_serialname] ++ kw "object" :: KIdent (kv_name v) :: odeleg_toks (parent_deleg (kv_parent v) gs)). split.
    + rewrite <- !app_assoc.
      change (mods_toks [m_serializable; m_serialname] ++ kw "object" :: KIdent (kv_name v) :: odeleg_toks (parent_deleg (kv_parent v) gs))
        with ([] ++ [] ++ [KP 64; KIdent (lit "Serializable")] ++ [] ++ [] ++ [KP 64; KIdent (lit "SerialName"); KP 40] ++ [KStr] ++ [KP 41] ++ [] ++
              [] ++ [kw "object"] ++ [KIdent (kv_name v)] ++ odeleg_toks (parent_deleg (kv_parent v) gs)).
      apply Hpre. apply cfrag_app; [exact L_tab|]. apply cfrag_app; [exact L_object|].
      apply frag_cfrag_app; [apply frag_ident, Hn| |reflexivity]. apply deleg_cfrag; assumption.
    + apply decltoks_object; [|apply deleg_wf]. constructor; [apply wf_serializable|]. constructor; [apply wf_serialname|constructor].
  - (* data class Name<G>(val content: T): Parent<G>() *)
    destruct (kt_show_tytext _ Hpay) as (tx & Hf & Hgt).
    exists (mods_toks [m_serializable; m_serialname; MKw (lit "data")] ++ kw "class" :: KIdent (kv_name v) :: gens_toks gs ++
            octor_toks (Some [param_toks [] false content tx None]) ++ odeleg_toks (parent_deleg (kv_parent v) gs) ++ body_toks (body2 B2None)). split.
    + rewrite <- !app_assoc. cbn [body2 body_toks]. rewrite app_nil_r.
      change (mods_toks [m_serializable; m_serialname; MKw (lit "data")] ++ kw "class" :: ?x)
        with ([] ++ [] ++ [KP 64; KIdent (lit "Serializable")] ++ [] ++ [] ++ [KP 64; KIdent (lit "SerialName"); KP 40] ++ [KStr] ++ [KP 41] ++ [] ++
              [] ++ [KIdent (lit "data"); kw "class"] ++ x).
      apply Hpre. apply cfrag_app; [exact L_tab|]. apply cfrag_app; [exact L_data_class|].
      apply name_gens_cfrag; [exact Hn|exact Hg|reflexivity|]. apply vctor_cfrag; [exact Hc|exact Hf|]. apply deleg_cfrag; assumption.
    + apply decltoks_class; [|apply vctor_wf, Hgt|apply deleg_wf|exact I].
      constructor; [apply wf_serializable|]. constructor; [apply wf_serialname|]. constructor; [reflexivity|constructor].
  - (* data class Name<G>(val content: Inner<H>): Parent<G>() *)
    destruct Hpay as [Hi Hig].
    exists (mods_toks [m_serializable; m_serialname; MKw (lit "data")] ++ kw "class" :: KIdent (kv_name v) :: gens_toks gs ++
            octor_toks (Some [param_toks [] false content (KIdent inner :: gens_toks igs) None]) ++ odeleg_toks (parent_deleg (kv_parent v) gs) ++ body_toks (body2 B2None)). split.
    + rewrite <- !app_assoc. cbn [body2 body_toks]. rewrite app_nil_r.
      change (mods_toks [m_serializable; m_serialname; MKw (lit "data")] ++ kw "class" :: ?x)
        with ([] ++ [] ++ [KP 64; KIdent (lit "Serializable")] ++ [] ++ [] ++ [KP 64; KIdent (lit "SerialName"); KP 40] ++ [KStr] ++ [KP 41] ++ [] ++
              [] ++ [KIdent (lit "data"); kw "class"] ++ x).
      apply Hpre. apply cfrag_app; [exact L_tab|]. apply cfrag_app; [exact L_data_class|].
      apply name_gens_cfrag; [exact Hn|exact Hg|reflexivity|]. rewrite (app_assoc inner (generics_suffix igs)).
      apply vctor_cfrag; [exact Hc|apply name_gens_frag; assumption|]. apply deleg_cfrag; assumption.
    + apply decltoks_class; [|apply vctor_wf, gr_ty_user, gr_user_gens|apply deleg_wf|exact I].
      constructor; [apply wf_serializable|]. constructor; [apply wf_serialname|]. constructor; [reflexivity|constructor].
Qed.

Lemma variants_text content gs vs : c10k_ident_ok content = true -> forallb c10k_ident_ok gs = true -> Forall c10_ktg_variant_ok vs ->
  exists tvs, CFrag (List.concat (map (kt_render_variant content gs) vs)) (List.concat tvs) /\ Forall DeclToks tvs.
Proof.
  intros Hc Hg. induction 1 as [|v vs Hv _ (tvs & Hf & Ht)].
  - exists []. split; [apply cfrag_nil|constructor].
  - destruct (variant_text content gs v Hc Hg Hv) as (tv & Hfv & Htv). exists (tv :: tvs). split; [|constructor; assumption].
    cbn [map List.concat]. apply cfrag_app; assumption.
Qed.

(* ------------------------------------------------------------------ declarations *)
(* the declarations whose text the recogniser accepts: names, generic parameters, entry names and the content key are
   identifiers, doc lines without a line end, serial names key-shaped and not empty, the wire name of a variant not empty and
   free of quote / backslash / line end, type trees in the grammar *)
Definition c10_ktg_decl_ok (d : kt_decl) : Prop :=
  match d with
  | KTObject docs name => forallb Proofs.C10Lex.c10_line_ok docs = true /\ c10k_ident_ok name = true
  | KTDataClass docs name gs ms ts =>
    forallb Proofs.C10Lex.c10_line_ok docs = true /\ c10k_ident_ok name = true /\ forallb c10k_ident_ok gs = true /\
    Forall c10_ktg_member_ok ms /\ match ts with Some s => s <> [] /\ forallb c10_key_char s = true | None => True end
  | KTTypeAlias docs name gs ty =>
    forallb Proofs.C10Lex.c10_line_ok docs = true /\ c10k_ident_ok name = true /\ forallb c10k_ident_ok gs = true /\ c10_ktg_texp ty
  | KTValueClass docs name m _ => forallb Proofs.C10Lex.c10_line_ok docs = true /\ c10k_ident_ok name = true /\ c10_ktg_member_ok m
  | KTEnumClass docs name gs es =>
    forallb Proofs.C10Lex.c10_line_ok docs = true /\ c10k_ident_ok name = true /\ forallb c10k_ident_ok gs = true /\ Forall c10_ktg_entry_ok es
  | KTSealedClass docs name gs content vs =>
    forallb Proofs.C10Lex.c10_line_ok docs = true /\ c10k_ident_ok name = true /\ forallb c10k_ident_ok gs = true /\
    c10k_ident_ok content = true /\ Forall c10_ktg_variant_ok vs
  end.

Lemma L_nl2 : CFrag (nl ++ nl) []. Proof. lit_cfrag. Qed.
Lemma L_typealias : CFrag (lit "typealias ") [kw "typealias"]. Proof. lit_cfrag. Qed.
Lemma L_eq : CFrag (lit " = ") [KP 61]. Proof. lit_cfrag. Qed.
Lemma L_sp_lparen_nl : CFrag (lit " (" ++ nl) [KP 40]. Proof. lit_cfrag. Qed.
Lemma L_lparen_nl : CFrag (lit "(" ++ nl) [KP 40]. Proof. lit_cfrag. Qed.
Lemma L_value_class : CFrag (lit "value class ") [KIdent (lit "value"); kw "class"]. Proof. lit_cfrag. Qed.
Lemma LF_jvminline : Frag (lit "@JvmInline") [KP 64; KIdent (lit "JvmInline")]. Proof. lit_frag. Qed.
Lemma L_enum_class : CFrag (lit "enum class ") [KIdent (lit "enum"); kw "class"]. Proof. lit_cfrag. Qed.
Lemma L_sealed_class : CFrag (lit "sealed class ") [KIdent (lit "sealed"); kw "class"]. Proof. lit_cfrag. Qed.
Lemma L_sp : CFrag (lit " ") []. Proof. lit_cfrag. Qed.
Lemma L_lbrace_nl : CFrag (lit "{" ++ nl) [KP 123]. Proof. lit_cfrag. Qed.
Lemma L_rbrace_nl2 : CFrag (lit "}" ++ nl ++ nl) [KP 125]. Proof. lit_cfrag. Qed.

Definition string_param : list c10_tok := param_toks [] false (lit "string") [KIdent (lit "String")] None.
Lemma L_enum_ctor : CFrag (lit "(val string: String) ") (octor_toks (Some [string_param])). Proof. lit_cfrag. Qed.

(* ) { override fun toString(): String = "Name" } *)
Definition tostring_member : list c10_tok :=
  mods_toks [MKw (lit "override")] ++ kw "fun" :: fun_toks (lit "toString") (Some [KIdent (lit "String")]) KStr.
Definition unwrap_member : list c10_tok := mods_toks [] ++ kw "fun" :: fun_toks (lit "unwrap") None (KIdent (lit "value")).
Lemma tostring_decltoks : DeclToks tostring_member.
Proof. apply decltoks_fun; [constructor; [reflexivity|constructor]|apply gr_ty_name|reflexivity]. Qed.
Lemma unwrap_decltoks : DeclToks unwrap_member.
Proof. apply decltoks_fun; [constructor|exact I|reflexivity]. Qed.

Lemma L_tostring_head : CFrag (lit " {" ++ nl ++ [ch_tab] ++ lit "override fun toString(): String = ")
  [KP 123; KIdent (lit "override"); kw "fun"; KIdent (lit "toString"); KP 40; KP 41; KP 58; KIdent (lit "String"); KP 61].
Proof. lit_cfrag. Qed.
Lemma L_body_end : CFrag (nl ++ lit "}" ++ nl) [KP 125]. Proof. lit_cfrag. Qed.
Lemma L_redacted_body :
  CFrag (lit " {" ++ nl ++ [ch_tab] ++ lit "fun unwrap() = value" ++ nl ++ nl ++ [ch_tab] ++ lit "override fun toString(): String = ""***""" ++ nl ++ lit "}" ++ nl)
        (body_toks (body2 (B2Members [unwrap_member; tostring_member]))).
Proof. lit_cfrag. Qed.

Lemma string_param_wf : Forall ParamToks [string_param].
Proof. constructor; [|constructor]. apply param_toks_paramtoks; [constructor|apply gr_ty_name|exact I]. Qed.

Lemma wf_data : mod_wf c10k_is_mod (MKw (lit "data")). Proof. reflexivity. Qed.

(* a declaration starts with an annotation or with typealias: never with import / package *)
Ltac hf := intros x; first [exact eq_refl | split; reflexivity].

Theorem kt_render_decl_gram d : c10_ktg_decl_ok d ->
  exists td, CFrag (kt_render_decl d) td /\ DeclToks td /\ forall x, hfol (td ++ x).
Proof.
  destruct d as [docs name | docs name gs ms ts | docs name gs ty | docs name m red | docs name gs es | docs name gs content vs];
    cbn [c10_ktg_decl_ok].
  - (* object *)
    intros (Hd & Hn). exists (mods_toks [m_serializable] ++ kw "object" :: KIdent name :: odeleg_toks None). split; [|split; [|hf]].
    + change (mods_toks [m_serializable] ++ kw "object" :: KIdent name :: odeleg_toks None)
        with ([] ++ [KP 64; KIdent (lit "Serializable")] ++ [] ++ [kw "object"] ++ [KIdent name] ++ []).
      cbn [kt_render_decl]. apply cfrag_app; [apply kt_comments_cfrag, Hd|].
      apply frag_cfrag_app; [exact LF_serializable| |reflexivity]. apply cfrag_app; [exact L_nl|]. apply cfrag_app; [exact L_object|].
      apply frag_cfrag_app; [apply frag_ident, Hn|exact L_nl2|reflexivity].
    + apply decltoks_object; [constructor; [apply wf_serializable|constructor]|exact I].
  - (* data class *)
    intros (Hd & Hn & Hg & Hms & Hts). destruct (params_text ms Hms) as (ps & _ & Hps & Hfps).
    set (J := join (lit "," ++ nl) (map kt_render_member ms)) in *.
    destruct ts as [s|].
    + destruct Hts as [Hs1 Hs2].
      exists (mods_toks [m_serializable; MKw (lit "data")] ++ kw "class" :: KIdent name :: gens_toks gs ++ octor_toks (Some ps) ++ odeleg_toks None ++
              body_toks (body2 (B2Members [tostring_member]))). split; [|split; [|hf]].
      * cbn [kt_render_decl]. fold J.
        replace (lit " (" ++ nl ++ J ++ nl ++ (lit ") {" ++ nl ++ [ch_tab] ++ lit "override fun toString(): String = " ++ debug_str s ++ nl ++ lit "}" ++ nl) ++ nl)
          with ((lit " (" ++ nl) ++ (J ++ nl ++ lit ")") ++ (lit " {" ++ nl ++ [ch_tab] ++ lit "override fun toString(): String = ") ++ debug_str s ++ (nl ++ lit "}" ++ nl) ++ nl).
        2:{ change (lit ") {") with (lit ")" ++ lit " {"). rewrite <- !app_assoc. reflexivity. }
        replace (mods_toks [m_serializable; MKw (lit "data")] ++ kw "class" :: KIdent name :: gens_toks gs ++ octor_toks (Some ps) ++ odeleg_toks None ++
                 body_toks (body2 (B2Members [tostring_member])))
          with ([] ++ [KP 64; KIdent (lit "Serializable")] ++ [] ++ [KIdent (lit "data"); kw "class"] ++
                (KIdent name :: gens_toks gs ++ ([KP 40] ++ params_toks ps ++
                   [KP 123; KIdent (lit "override"); kw "fun"; KIdent (lit "toString"); KP 40; KP 41; KP 58; KIdent (lit "String"); KP 61] ++ [KStr] ++ [KP 125] ++ []))) by reflexivity.
        apply cfrag_app; [apply kt_comments_cfrag, Hd|].
        apply frag_cfrag_app; [exact LF_serializable| |reflexivity]. apply cfrag_app; [exact L_nl|]. apply cfrag_app; [exact L_data_class|].
        apply name_gens_cfrag; [exact Hn|exact Hg|reflexivity|].
        apply cfrag_app; [exact L_sp_lparen_nl|]. apply cfrag_app; [exact Hfps|]. apply cfrag_app; [exact L_tostring_head|].
        apply cfrag_app; [apply cfrag_debug_key; assumption|]. apply cfrag_app; [exact L_body_end|exact L_nl].
      * apply decltoks_class; [constructor; [apply wf_serializable|constructor; [exact wf_data|constructor]]|exact Hps|exact I|].
        split; [reflexivity|]. constructor; [exact tostring_decltoks|constructor].
    + exists (mods_toks [m_serializable; MKw (lit "data")] ++ kw "class" :: KIdent name :: gens_toks gs ++ octor_toks (Some ps) ++ odeleg_toks None ++
              body_toks (body2 B2None)). split; [|split; [|hf]].
      * cbn [kt_render_decl]. fold J.
        replace (lit " (" ++ nl ++ J ++ nl ++ (lit ")" ++ nl) ++ nl) with ((lit " (" ++ nl) ++ (J ++ nl ++ lit ")") ++ (nl ++ nl))
          by (rewrite <- !app_assoc; reflexivity).
        replace (mods_toks [m_serializable; MKw (lit "data")] ++ kw "class" :: KIdent name :: gens_toks gs ++ octor_toks (Some ps) ++ odeleg_toks None ++
                 body_toks (body2 B2None))
          with ([] ++ [KP 64; KIdent (lit "Serializable")] ++ [] ++ [KIdent (lit "data"); kw "class"] ++
                (KIdent name :: gens_toks gs ++ ([KP 40] ++ params_toks ps ++ []))) by reflexivity.
        apply cfrag_app; [apply kt_comments_cfrag, Hd|].
        apply frag_cfrag_app; [exact LF_serializable| |reflexivity]. apply cfrag_app; [exact L_nl|]. apply cfrag_app; [exact L_data_class|].
        apply name_gens_cfrag; [exact Hn|exact Hg|reflexivity|].
        apply cfrag_app; [exact L_sp_lparen_nl|]. apply cfrag_app; [exact Hfps|exact L_nl2].
      * apply decltoks_class; [constructor; [apply wf_serializable|constructor; [exact wf_data|constructor]]|exact Hps|exact I|exact I].
  - (* typealias *)
    intros (Hd & Hn & Hg & Hty). destruct (kt_show_tytext _ Hty) as (tx & Hf & Hgt).
    exists (mods_toks [] ++ kw "typealias" :: KIdent name :: gens_toks gs ++ KP 61 :: tx). split; [|split; [|hf]].
    + replace (mods_toks [] ++ kw "typealias" :: KIdent name :: gens_toks gs ++ KP 61 :: tx)
        with ([] ++ [kw "typealias"] ++ (KIdent name :: gens_toks gs ++ ([KP 61] ++ tx ++ []))) by (rewrite app_nil_r; reflexivity).
      cbn [kt_render_decl]. apply cfrag_app; [apply kt_comments_cfrag, Hd|]. apply cfrag_app; [exact L_typealias|].
      apply name_gens_cfrag; [exact Hn|exact Hg|reflexivity|]. apply cfrag_app; [exact L_eq|].
      apply frag_cfrag_app; [exact Hf|exact L_nl2|reflexivity].
    + apply decltoks_alias; [constructor|exact Hgt].
  - (* value class *)
    intros (Hd & Hn & Hm). destruct (params_text [m] (Forall_cons _ Hm (Forall_nil _))) as (ps & _ & Hps & Hfps).
    cbn [map join] in Hfps.
    assert (Wf : Forall (mod_wf c10k_is_mod) [m_serializable; MAnnot [lit "JvmInline"] None; MKw (lit "value")]).
    { constructor; [apply wf_serializable|]. constructor; [split; [discriminate|exact I]|]. constructor; [reflexivity|constructor]. }
    exists (mods_toks [m_serializable; MAnnot [lit "JvmInline"] None; MKw (lit "value")] ++ kw "class" :: KIdent name :: gens_toks [] ++
            octor_toks (Some ps) ++ odeleg_toks None ++ body_toks (body2 (if red then B2Members [unwrap_member; tostring_member] else B2None))). split; [|split; [|hf]].
    + cbn [kt_render_decl]. destruct red.
      * replace (lit "(" ++ nl ++ kt_render_member m ++ nl ++
                 (lit ") {" ++ nl ++ [ch_tab] ++ lit "fun unwrap() = value" ++ nl ++ nl ++ [ch_tab] ++ lit "override fun toString(): String = ""***""" ++ nl ++ lit "}" ++ nl) ++ nl)
          with ((lit "(" ++ nl) ++ (kt_render_member m ++ nl ++ lit ")") ++
                (lit " {" ++ nl ++ [ch_tab] ++ lit "fun unwrap() = value" ++ nl ++ nl ++ [ch_tab] ++ lit "override fun toString(): String = ""***""" ++ nl ++ lit "}" ++ nl) ++ nl).
        2:{ change (lit ") {") with (lit ")" ++ lit " {"). rewrite <- !app_assoc. reflexivity. }
        replace (mods_toks [m_serializable; MAnnot [lit "JvmInline"] None; MKw (lit "value")] ++ kw "class" :: KIdent name :: gens_toks [] ++
                 octor_toks (Some ps) ++ odeleg_toks None ++ body_toks (body2 (B2Members [unwrap_member; tostring_member])))
          with ([] ++ [KP 64; KIdent (lit "Serializable")] ++ [] ++ [KP 64; KIdent (lit "JvmInline")] ++ [] ++ [KIdent (lit "value"); kw "class"] ++
                [KIdent name] ++ [KP 40] ++ params_toks ps ++ body_toks (body2 (B2Members [unwrap_member; tostring_member])) ++ []) by (rewrite app_nil_r; reflexivity).
        apply cfrag_app; [apply kt_comments_cfrag, Hd|].
        apply frag_cfrag_app; [exact LF_serializable| |reflexivity]. apply cfrag_app; [exact L_nl|].
        apply frag_cfrag_app; [exact LF_jvminline| |reflexivity]. apply cfrag_app; [exact L_nl|]. apply cfrag_app; [exact L_value_class|].
        apply frag_cfrag_app; [apply frag_ident, Hn| |reflexivity].
        apply cfrag_app; [exact L_lparen_nl|]. apply cfrag_app; [exact Hfps|]. apply cfrag_app; [exact L_redacted_body|exact L_nl].
      * replace (lit "(" ++ nl ++ kt_render_member m ++ nl ++ (lit ")" ++ nl) ++ nl)
          with ((lit "(" ++ nl) ++ (kt_render_member m ++ nl ++ lit ")") ++ (nl ++ nl)) by (rewrite <- !app_assoc; reflexivity).
        replace (mods_toks [m_serializable; MAnnot [lit "JvmInline"] None; MKw (lit "value")] ++ kw "class" :: KIdent name :: gens_toks [] ++
                 octor_toks (Some ps) ++ odeleg_toks None ++ body_toks (body2 B2None))
          with ([] ++ [KP 64; KIdent (lit "Serializable")] ++ [] ++ [KP 64; KIdent (lit "JvmInline")] ++ [] ++ [KIdent (lit "value"); kw "class"] ++
                [KIdent name] ++ [KP 40] ++ params_toks ps ++ []) by reflexivity.
        apply cfrag_app; [apply kt_comments_cfrag, Hd|].
        apply frag_cfrag_app; [exact LF_serializable| |reflexivity]. apply cfrag_app; [exact L_nl|].
        apply frag_cfrag_app; [exact LF_jvminline| |reflexivity]. apply cfrag_app; [exact L_nl|]. apply cfrag_app; [exact L_value_class|].
        apply frag_cfrag_app; [apply frag_ident, Hn| |reflexivity].
        apply cfrag_app; [exact L_lparen_nl|]. apply cfrag_app; [exact Hfps|exact L_nl2].
    + apply decltoks_class; [exact Wf|exact Hps|exact I|]. destruct red; [|exact I].
      split; [reflexivity|]. constructor; [exact unwrap_decltoks|]. constructor; [exact tostring_decltoks|constructor].
  - (* enum class *)
    intros (Hd & Hn & Hg & Hes). destruct (entries_text es Hes) as (tes & Hfe & Hte).
    exists (mods_toks [m_serializable; MKw (lit "enum")] ++ kw "class" :: KIdent name :: gens_toks gs ++ octor_toks (Some [string_param]) ++ odeleg_toks None ++
            body_toks (body2 (B2Entries tes))). split; [|split; [|hf]].
    + cbn [kt_render_decl].
      replace (mods_toks [m_serializable; MKw (lit "enum")] ++ kw "class" :: KIdent name :: gens_toks gs ++ octor_toks (Some [string_param]) ++ odeleg_toks None ++
               body_toks (body2 (B2Entries tes)))
        with ([] ++ [KP 64; KIdent (lit "Serializable")] ++ [] ++ [KIdent (lit "enum"); kw "class"] ++
              (KIdent name :: gens_toks gs ++ (octor_toks (Some [string_param]) ++ [KP 123] ++ List.concat tes ++ [KP 125]))) by reflexivity.
      apply cfrag_app; [apply kt_comments_cfrag, Hd|].
      apply frag_cfrag_app; [exact LF_serializable| |reflexivity]. apply cfrag_app; [exact L_nl|]. apply cfrag_app; [exact L_enum_class|].
      apply name_gens_cfrag; [exact Hn|exact Hg|reflexivity|].
      apply cfrag_app; [exact L_enum_ctor|]. rewrite (app_assoc (lit "{") nl). apply cfrag_app; [exact L_lbrace_nl|].
      apply cfrag_app; [exact Hfe|exact L_rbrace_nl2].
    + apply decltoks_class; [constructor; [apply wf_serializable|constructor; [reflexivity|constructor]]|exact string_param_wf|exact I|].
      split; [reflexivity|exact Hte].
  - (* sealed class *)
    intros (Hd & Hn & Hg & Hc & Hvs). destruct (variants_text content gs vs Hc Hg Hvs) as (tvs & Hfv & Htv).
    exists (mods_toks [m_serializable; MKw (lit "sealed")] ++ kw "class" :: KIdent name :: gens_toks gs ++ octor_toks None ++ odeleg_toks None ++
            body_toks (body2 (B2Members tvs))). split; [|split; [|hf]].
    + cbn [kt_render_decl].
      replace (mods_toks [m_serializable; MKw (lit "sealed")] ++ kw "class" :: KIdent name :: gens_toks gs ++ octor_toks None ++ odeleg_toks None ++
               body_toks (body2 (B2Members tvs)))
        with ([] ++ [KP 64; KIdent (lit "Serializable")] ++ [] ++ [KIdent (lit "sealed"); kw "class"] ++
              (KIdent name :: gens_toks gs ++ ([] ++ [KP 123] ++ List.concat tvs ++ [KP 125]))) by reflexivity.
      apply cfrag_app; [apply kt_comments_cfrag, Hd|].
      apply frag_cfrag_app; [exact LF_serializable| |reflexivity]. apply cfrag_app; [exact L_nl|]. apply cfrag_app; [exact L_sealed_class|].
      apply name_gens_cfrag; [exact Hn|exact Hg|reflexivity|].
      apply cfrag_app; [exact L_sp|]. rewrite (app_assoc (lit "{") nl). apply cfrag_app; [exact L_lbrace_nl|].
      apply cfrag_app; [exact Hfv|exact L_rbrace_nl2].
    + apply decltoks_class; [constructor; [apply wf_serializable|constructor; [reflexivity|constructor]]|exact I|exact I|].
      split; [reflexivity|exact Htv].
Qed.
