(* C10, grammar half for Go, part 3b: the layout of TAGGED enums (go.rs:306-485) - the key type, the constant group, the
   struct, UnmarshalJSON / MarshalJSON, one accessor per variant that carries something, one constructor per variant.
     - [Bal s tx s']: the token run tx turns the stack of expected closers s into s' (function bodies are recognised as
       balanced runs); [BP] / [OBP]: closed / open text pieces with such a token run; literal text by computation;
     - the bodies of the five function templates are pieces from the empty stack to the empty stack;
     - [go_render_decl_gram]: the layout theorem for ALL declaration forms. *)
From Coq Require Import List Bool Lia ZifyBool ZifyN NArith String.
From TS Require Import Model.Str Model.Outcome Model.Unicode Model.Types Model.Parse Model.Lang.Common Model.Lang.Decl Model.Lang.Go.
From TS Require Import Spec.C10Spec Spec.C10TsGrammar Spec.C10GoGrammar Proofs.C10_TSGrammarTok Proofs.C10_GOGrammarTok Proofs.C10_GOGrammarSemi
                       Proofs.C10_GOGrammarParse Proofs.C10_GOGrammar.
From TS Require Proofs.C10Lex Proofs.C10_TSGrammar Proofs.C10_TSGrammarFile Proofs.C10_GOFile.
Import ListNotations.
Local Open Scope N_scope.
Local Notation length := List.length (only parsing).

(* ------------------------------------------------------------------ balanced runs with a stack *)
Lemma bal_run_app a : forall st b, bal_run st (a ++ b) = match bal_run st a with Some st' => bal_run st' b | None => None end.
Proof.
  induction a as [|t r IH]; intros st b; [reflexivity|]. cbn [app bal_run]. destruct (c10_go_closer t); [apply IH|].
  destruct (c10_go_is_close t); [|apply IH]. destruct st as [|k st']; [reflexivity|]. destruct (c10_go_is_p k t); [apply IH|reflexivity].
Qed.

Lemma bal_run_lift ts : forall s s' st, bal_run s ts = Some s' -> bal_run (s ++ st) ts = Some (s' ++ st).
Proof.
  induction ts as [|t r IH]; intros s s' st H; cbn [bal_run] in *; [injection H as <-; reflexivity|].
  destruct (c10_go_closer t) as [c|]; [exact (IH (c :: s) s' st H)|].
  destruct (c10_go_is_close t); [|exact (IH s s' st H)].
  destruct s as [|k s0]; [discriminate|]. cbn [app]. destruct (c10_go_is_p k t); [exact (IH s0 s' st H)|discriminate].
Qed.

Definition Bal (s : list char) (tx : list c10_gtok) (s' : list char) : Prop := forall st, bal_run (s ++ st) tx = Some (s' ++ st).

Lemma bal_compute s tx s' : bal_run s tx = Some s' -> Bal s tx s'.
Proof. intros H st. apply bal_run_lift, H. Qed.
Lemma bal_app s a s1 b s2 : Bal s a s1 -> Bal s1 b s2 -> Bal s (a ++ b) s2.
Proof. intros Ha Hb st. rewrite bal_run_app, Ha. apply Hb. Qed.
Lemma bal_nil s : Bal s [] s. Proof. intros st. reflexivity. Qed.
Lemma bal_neutral tx : Bal [] tx [] -> Neutral tx.
Proof. intros H. apply neutral_compute. exact (H []). Qed.

(* the tokens of a type / an argument list / a field leave every stack as it is; a struct body closes one brace *)
Lemma ggr_bal s ts : GGr s ts ->
  match s with GFields => forall st, bal_run (125 :: st) ts = Some st | _ => forall st, bal_run st ts = Some st end.
Proof.
  induction 1 as [n Hn | p n Hp Hn | n args Hn Hargs IH | t Ht IH | t Ht IH | t Ht IH | k v Hk IHk Hv IHv | body Hb IH |
                  | t Ht IH | t l Ht IHt Hl IHl | | fd Hfd IH | fd body Hfd IHf Hb IHb | n t tag Hn Ht IH]; intros st.
  - reflexivity.
  - reflexivity.
  - change (QId n :: QP 91 :: args ++ [QP 93]) with ([QId n; QP 91] ++ args ++ [QP 93]). rewrite bal_run_app.
    change (bal_run st [QId n; QP 91]) with (Some (93 :: st)). cbv beta iota. rewrite bal_run_app, IH. reflexivity.
  - change (QP 42 :: t) with ([QP 42] ++ t). rewrite bal_run_app. apply IH.
  - change (QP 91 :: QP 93 :: t) with ([QP 91; QP 93] ++ t). rewrite bal_run_app. apply IH.
  - change (QP 91 :: QNum :: QP 93 :: t) with ([QP 91; QNum; QP 93] ++ t). rewrite bal_run_app. apply IH.
  - change (qkw "map" :: QP 91 :: k ++ QP 93 :: v) with ([qkw "map"; QP 91] ++ k ++ [QP 93] ++ v). rewrite bal_run_app.
    change (bal_run st [qkw "map"; QP 91]) with (Some (93 :: st)). cbv beta iota. rewrite bal_run_app, IHk, bal_run_app.
    change (bal_run (93 :: st) [QP 93]) with (Some st). cbv beta iota. apply IHv.
  - change (qkw "struct" :: QP 123 :: body) with ([qkw "struct"; QP 123] ++ body). rewrite bal_run_app. apply IH.
  - reflexivity.
  - apply IH.
  - change (t ++ QP 44 :: l) with (t ++ [QP 44] ++ l). rewrite bal_run_app, IHt, bal_run_app. apply IHl.
  - reflexivity.
  - rewrite bal_run_app, IH. reflexivity.
  - change (fd ++ QP 59 :: body) with (fd ++ [QP 59] ++ body). rewrite bal_run_app, IHf, bal_run_app. apply IHb.
  - change (QId n :: t ++ (if tag then [QStr] else [])) with ([QId n] ++ t ++ (if tag then [QStr] else [])). rewrite bal_run_app.
    change (bal_run st [QId n]) with (Some st). cbv beta iota. rewrite bal_run_app, IH. destruct tag; reflexivity.
Qed.
Lemma ggr_ty_bal tx s : GGr GTy tx -> Bal s tx s.
Proof. intros H st. exact (ggr_bal _ _ H (s ++ st)). Qed.

(* ------------------------------------------------------------------ pieces *)
Definition BP (fl : bool) (s : list char) (x : str) (fl' : bool) (s' : list char) : Prop := exists tx, CSeg fl x tx fl' /\ Bal s tx s'.
Definition OBP (fl : bool) (s : list char) (x : str) (fl' : bool) (s' : list char) : Prop := exists tx, Seg fl x tx fl' /\ Bal s tx s'.

(* the next text starts with a character that ends an identifier / a number and opens no comment *)
Definition sepstart (b : str) : bool := match b with c :: _ => gsepb [c] | [] => false end.
Lemma sepstart_app b c : sepstart b = true -> gsepb (b ++ c) = true.
Proof. destruct b as [|x r]; [discriminate|]. intros H. exact H. Qed.

Lemma seg_cseg_app fl a ta fl1 b tb fl2 : Seg fl a ta fl1 -> sepstart b = true -> CSeg fl1 b tb fl2 -> CSeg fl (a ++ b) (ta ++ tb) fl2.
Proof. intros Ha Hs Hb c tc Hc. rewrite <- !app_assoc. apply Ha; [apply sepstart_app, Hs|apply Hb, Hc]. Qed.

Lemma bp_app fl s a fl1 s1 b fl2 s2 : BP fl s a fl1 s1 -> BP fl1 s1 b fl2 s2 -> BP fl s (a ++ b) fl2 s2.
Proof.
  intros (ta & Ha & Ba) (tb & Hb & Bb). exists (ta ++ tb). split; [exact (cseg_app _ _ _ _ _ _ _ Ha Hb)|exact (bal_app _ _ _ _ _ Ba Bb)].
Qed.
Lemma obp_app fl s a fl1 s1 b fl2 s2 : OBP fl s a fl1 s1 -> sepstart b = true -> BP fl1 s1 b fl2 s2 -> BP fl s (a ++ b) fl2 s2.
Proof.
  intros (ta & Ha & Ba) Hs (tb & Hb & Bb). exists (ta ++ tb). split; [exact (seg_cseg_app _ _ _ _ _ _ _ Ha Hs Hb)|exact (bal_app _ _ _ _ _ Ba Bb)].
Qed.
Lemma bp_nil fl s : BP fl s [] fl s.
Proof. exists []. split; [apply cseg_nil|apply bal_nil]. Qed.

(* an identifier is cut as soon as the next character is no identifier character (a dot, for one) *)
Definition isepstart (b : str) : bool := match b with c :: _ => negb (c10_go_id_char c) | [] => false end.
Lemma tk_ident n b tb : c10_go_ident_ok n = true -> isepstart b = true -> Tk b tb -> Tk (n ++ b) ([QId n] ++ tb).
Proof.
  intros H Hs Hb. destruct n as [|c r]; [discriminate|]. cbn [c10_go_ident_ok] in H. apply andb_true_iff in H as [Hc Hr].
  change ([QId (c :: r)] ++ tb) with (gotl (Some (QId (c :: r))) ++ tb). apply (tk_step _ _ b); [|exact Hb].
  destruct (letter_facts c Hc) as (F1 & F2 & F3 & F4 & F5 & F6).
  cbn [c10_go_next app]. rewrite F1, F2, F3, F4, F5, F6, Hc. cbn [andb].
  assert (E : c10_take_while c10_go_id_char (c :: r ++ b) = (c :: r, b)).
  { change (c :: r ++ b) with ((c :: r) ++ b). apply take_while_app.
    - cbn [forallb]. rewrite Hr. unfold c10_go_id_char. rewrite Hc. reflexivity.
    - destruct b as [|d b]; [exact I|]. cbn [isepstart] in Hs. apply negb_true_iff in Hs. exact Hs. }
  rewrite E. reflexivity.
Qed.
Lemma name_bp_app fl s n b fl2 s2 : c10_go_name_ok n = true -> isepstart b = true -> BP true s b fl2 s2 -> BP fl s (n ++ b) fl2 s2.
Proof.
  intros Hn Hs (tb & Hb & Bb). exists ([QId n] ++ tb). split.
  - intros c tc Hc. rewrite <- !app_assoc. destruct (Hb c tc Hc) as (trb & Hb1 & Hb2). exists ([QId n] ++ trb). split.
    + apply tk_ident; [unfold c10_go_name_ok in Hn; apply andb_true_iff in Hn as [Hn _]; exact Hn| |exact Hb1].
      destruct b as [|x r]; [discriminate|exact Hs].
    + cbn [app c10_go_semis]. rewrite (name_trigger n Hn), Hb2. reflexivity.
  - apply (bal_app s [QId n] s); [intros st; reflexivity|exact Bb].
Qed.

(* a dot is a token of its own whatever follows *)
Lemma bp_dot fl s : BP fl s (lit ".") false s.
Proof.
  exists [QP 46]. split; [|intros st; reflexivity].
  apply (cseg_of_raw fl _ [QP 46]); [|reflexivity|reflexivity].
  intros b tb Hb. change ([QP 46] ++ tb) with (gotl (Some (QP 46)) ++ tb). apply (tk_step _ _ b); [reflexivity|exact Hb].
Qed.

(* a raw-string tag made of literal text around a key *)
Lemma bp_rawtag fl s (pre post : string) key : gnotick (lit pre) = true -> gnotick (lit post) = true -> forallb c10_key_char key = true ->
  BP fl s (ch_bt :: lit pre ++ key ++ lit post ++ [ch_bt]) true s.
Proof.
  intros H1 H2 Hk. exists [QStr]. split; [|intros st; reflexivity].
  replace (ch_bt :: lit pre ++ key ++ lit post ++ [ch_bt]) with (ch_bt :: (lit pre ++ key ++ lit post) ++ [ch_bt]) by (rewrite <- !app_assoc; reflexivity).
  apply cseg_raw. rewrite !gnotick_app, H1, H2, (key_gnotick _ Hk). reflexivity.
Qed.

Lemma obp_name fl s n : c10_go_name_ok n = true -> OBP fl s n true s.
Proof. intros H. exists [QId n]. split; [apply seg_name, H|]. intros st. reflexivity. Qed.
Lemma obp_ty fl s t : TyText t -> OBP fl s t true s.
Proof. intros (tx & Hf & Hg). exists tx. split; [apply Hf|apply ggr_ty_bal, Hg]. Qed.
(* an identifier made of a literal prefix and a name *)
Lemma name_prefix (p : string) n : c10_go_name_ok (lit p) = true -> c10_go_name_ok n = true -> c10_go_kw (lit p ++ n) = false ->
  c10_go_name_ok (lit p ++ n) = true.
Proof.
  unfold c10_go_name_ok. rewrite !andb_true_iff, !negb_true_iff. intros [Hp _] [Hn _] Hk. split; [|exact Hk].
  destruct (lit p) as [|c r]; [discriminate|]. destruct n as [|d m]; [discriminate|]. cbn [c10_go_ident_ok app] in *.
  apply andb_true_iff in Hp as [Hc Hr]. apply andb_true_iff in Hn as [Hd Hm]. rewrite Hc, forallb_app, Hr. cbn [forallb andb].
  unfold c10_go_id_char at 1. rewrite Hd, Hm. reflexivity.
Qed.
Lemma new_name n : c10_go_name_ok n = true -> c10_go_name_ok (lit "New" ++ n) = true.
Proof. intros H. apply (name_prefix "New"); [reflexivity|exact H|reflexivity]. Qed.

Ltac lit_cseg_e :=
  eapply cseg_compute; [vm_compute; reflexivity|vm_compute; reflexivity|vm_compute; reflexivity|vm_compute; reflexivity|vm_compute; reflexivity].
Ltac bp_lit :=
  lazymatch goal with
  | |- BP ?fl ?s ?x _ _ =>
    let tr := eval vm_compute in (c10_go_tokens (S (List.length x)) x) in
    lazymatch tr with
    | Some ?tr' =>
      let ta := eval vm_compute in (c10_go_semis fl tr') in
      let fl2 := eval vm_compute in (endfl fl tr') in
      let st := eval vm_compute in (bal_run s ta) in
      lazymatch st with
      | Some ?s2 =>
        refine (ex_intro _ ta (conj (cseg_compute fl x tr' ta fl2 _ _ _ _ _) (bal_compute s ta s2 _))); vm_compute; reflexivity
      end
    end
  end.

(* one step along a right-nested concatenation: a name, a type, a piece already at hand, a dot, or literal text (two chunks
   together when the first ends inside a token) *)
Ltac bp_step :=
  lazymatch goal with
  | |- BP _ _ (?a ++ ?r) _ _ =>
    first [ eapply name_bp_app; [assumption|reflexivity|]
          | eapply obp_app; [apply obp_ty; eassumption|reflexivity|]
          | eapply bp_app; [eassumption|]
          | eapply bp_app; [apply bp_dot|]
          | eapply bp_app; [apply bp_rawtag; [reflexivity|reflexivity|assumption]|]
          | eapply bp_app; [bp_lit|]
          | lazymatch r with ?b ++ ?r' => rewrite (app_assoc a b r'); eapply bp_app; [bp_lit|] end ]
  end.
Ltac bp_last := first [eassumption | bp_lit].
Ltac bp_walk := repeat bp_step; bp_last.

(* ------------------------------------------------------------------ declaration parts *)
(* a text that is a sequence of at least n declarations *)
Definition DPart (n : nat) (t : str) : Prop :=
  exists tds, CSeg false t (decls_toks tds) false /\ Forall DeclToks tds /\ (n <= List.length tds)%nat.

Lemma dpart_nil : DPart 0 [].
Proof. exists []. split; [apply cseg_nil|]. split; [constructor|reflexivity]. Qed.
Lemma dpart_app n a m b : DPart n a -> DPart m b -> DPart (n + m) (a ++ b).
Proof.
  intros (ta & Ha & Da & La) (tb & Hb & Db & Lb). exists (ta ++ tb). split; [|split; [apply Forall_app; split; assumption|rewrite app_length; lia]].
  unfold decls_toks in *. rewrite map_app, concat_app. apply cseg_app with (fl1 := false); assumption.
Qed.
Lemma dpart_blank n a x : CSeg false x [] false -> DPart n a -> DPart n (a ++ x).
Proof.
  intros Hx (ta & Ha & Da & La). exists ta. split; [|split; assumption].
  rewrite <- (app_nil_r (decls_toks ta)). apply cseg_app with (fl1 := false); assumption.
Qed.
Lemma dpart_weaken n m t : (m <= n)%nat -> DPart n t -> DPart m t.
Proof. intros H (tds & H1 & H2 & H3). exists tds. split; [exact H1|]. split; [exact H2|lia]. Qed.
Lemma dpart_one t td : CSeg false t (td ++ [QP 59]) false -> DeclToks td -> DPart 1 t.
Proof.
  intros H D. exists [td]. split; [|split; [constructor; [exact D|constructor]|reflexivity]].
  unfold decls_toks. cbn [map List.concat]. rewrite app_nil_r. exact H.
Qed.
Lemma dpart_flat {A} (f : A -> str) l : Forall (fun x => DPart 0 (f x)) l -> DPart 0 (flat_map f l).
Proof.
  induction 1 as [|x r Hx _ IH]; cbn [flat_map]; [exact dpart_nil|]. exact (dpart_app 0 _ 0 _ Hx IH).
Qed.

Lemma L_close_nl fl : CSeg fl (lit "}" ++ go_nl) [QP 125; QP 59] false. Proof. destruct fl; lit_cseg. Qed.

(* a function or method: the header up to the opening brace, a body that is a balanced run, the closing brace *)
Lemma func_part head recv name ps res body :
  CSeg false head (qkw "func" :: recv ++ QId name :: ps ++ res ++ [QP 123]) false ->
  recv = [] \/ Pars recv -> c10_go_name_ok name = true -> Pars ps -> ResOk res ->
  BP false [] body false [] ->
  DPart 1 (head ++ body ++ lit "}" ++ go_nl).
Proof.
  intros Hh Hrecv Hn Hps Hres (tb & Hb & Bb).
  apply (dpart_one _ (qkw "func" :: recv ++ QId name :: ps ++ res ++ QP 123 :: tb ++ [QP 125])).
  - replace ((qkw "func" :: recv ++ QId name :: ps ++ res ++ QP 123 :: tb ++ [QP 125]) ++ [QP 59])
      with ((qkw "func" :: recv ++ QId name :: ps ++ res ++ [QP 123]) ++ tb ++ [QP 125; QP 59]).
    2:{ cbn [app]. f_equal. rewrite <- !app_assoc. f_equal. cbn [app]. f_equal. rewrite <- !app_assoc. f_equal. f_equal. cbn [app]. f_equal.
        rewrite <- !app_assoc. reflexivity. }
    apply cseg_app with (fl1 := false); [exact Hh|]. apply cseg_app with (fl1 := false); [exact Hb|apply L_close_nl].
  - split; [exists (lit "func"), (recv ++ QId name :: ps ++ res ++ QP 123 :: tb ++ [QP 125]); split; reflexivity|].
    intros rest.
    replace ((qkw "func" :: recv ++ QId name :: ps ++ res ++ QP 123 :: tb ++ [QP 125]) ++ QP 59 :: rest)
      with (qkw "func" :: recv ++ QId name :: ps ++ res ++ QP 123 :: tb ++ QP 125 :: QP 59 :: rest).
    2:{ cbn [app]. f_equal. rewrite <- !app_assoc. f_equal. cbn [app]. f_equal. rewrite <- !app_assoc. f_equal. f_equal. cbn [app]. f_equal.
        rewrite <- !app_assoc. reflexivity. }
    apply decl_func; [exact Hrecv|apply name_nkw, Hn|exact Hps|exact Hres|apply bal_neutral, Bb].
Qed.

(* ------------------------------------------------------------------ the parts of a tagged enum *)
Lemma L_func_open : CSeg false (lit "func (") [qkw "func"; QP 40] false. Proof. lit_cseg. Qed.
Lemma L_func : CSeg false (lit "func ") [qkw "func"] false. Proof. lit_cseg. Qed.
Lemma L_rparen_sp fl : CSeg fl (lit ") ") [QP 41] true. Proof. destruct fl; lit_cseg. Qed.
Lemma L_unit_pars fl : CSeg fl (lit "() ") [QP 40; QP 41] true. Proof. destruct fl; lit_cseg. Qed.
Lemma L_open_nl fl : CSeg fl (lit " {" ++ go_nl) [QP 123] false. Proof. destruct fl; lit_cseg. Qed.
Lemma L_content fl : CSeg fl (lit "(content ") [QP 40; QId (lit "content")] true. Proof. destruct fl; lit_cseg. Qed.
Lemma L_sp_star fl : CSeg fl (lit " *") [QP 42] false. Proof. destruct fl; lit_cseg. Qed.
Lemma L_unmarshal_sig : CSeg true (lit ") UnmarshalJSON(data []byte) error {" ++ go_nl)
  [QP 41; QId (lit "UnmarshalJSON"); QP 40; QId (lit "data"); QP 91; QP 93; QId (lit "byte"); QP 41; QId (lit "error"); QP 123] false.
Proof. lit_cseg. Qed.
Lemma L_marshal_sig : CSeg true (lit ") MarshalJSON() ([]byte, error) {" ++ go_nl)
  [QP 41; QId (lit "MarshalJSON"); QP 40; QP 41; QP 40; QP 91; QP 93; QId (lit "byte"); QP 44; QId (lit "error"); QP 41; QP 123] false.
Proof. lit_cseg. Qed.

Section Tagged.
Variable e : go_tagged.
Hypothesis He : c10_gog_tagged_ok e.

Let Hdocs : forallb Proofs.C10Lex.c10_line_ok (gt_docs e) = true. Proof. apply He. Qed.
Let Hname : c10_go_name_ok (gt_name e) = true. Proof. apply He. Qed.
Let Hkt : c10_go_name_ok (gt_key_type e) = true. Proof. apply He. Qed.
Let Htk : forallb c10_key_char (gt_tag_key e) = true. Proof. apply He. Qed.
Let Hck : forallb c10_key_char (gt_content_key e) = true. Proof. apply He. Qed.
Let Htf : c10_go_name_ok (gt_tag_field e) = true. Proof. apply He. Qed.
Let Hcf : c10_go_name_ok (gt_content_field e) = true. Proof. apply He. Qed.
Let Hsn : c10_go_name_ok (gt_short e) = true. Proof. apply He. Qed.
Let Hvs : Forall c10_gog_variant_ok (gt_variants e). Proof. apply He. Qed.

(* the text of a variant that carries [fvt] *)
Definition vo_with (v : go_variant) (fvt : str) (is_ptr : bool) : go_variant_out :=
  let struct_name := gt_name e in
  let struct_short_name := gt_short e in
  let tag_field := gt_tag_field e in
  let content_field := gt_content_field e in
  let variant_type_const := gv_const v in
  let case_line := [ch_tab] ++ lit "case " ++ variant_type_const ++ lit ":" ++ go_nl in
  let written :=
    go_write_comments 1 (gv_docs v) ++
    [ch_tab] ++ variant_type_const ++ lit " " ++ gt_key_type e ++ lit " = " ++
    debug_str (gv_wire v) ++ go_nl in
    let variant_pointer := if is_ptr then lit "*" else [] in
    let variant_deref := if is_ptr then [] else lit "*" in
    let variant_ref := if is_ptr then [] else lit "&" in
    {| go_vo_written := written;
       go_vo_decoding :=
         case_line ++
         go_tabs 2 ++ lit "var res " ++ fvt ++ go_nl ++
         go_tabs 2 ++ struct_short_name ++ lit "." ++ content_field ++ lit " = &res" ++ go_nl;
       go_vo_accessors :=
         lit "func (" ++ struct_short_name ++ lit " " ++ struct_name ++ lit ") " ++ gv_method v ++
           lit "() " ++ variant_pointer ++ fvt ++ lit " {" ++ go_nl ++
         [ch_tab] ++ lit "res, _ := " ++ struct_short_name ++ lit "." ++ content_field ++
           lit ".(*" ++ fvt ++ lit ")" ++ go_nl ++
         [ch_tab] ++ lit "return " ++ variant_deref ++ lit "res" ++ go_nl ++
         lit "}" ++ go_nl;
       go_vo_constructors :=
         lit "func New" ++ variant_type_const ++ lit "(content " ++ variant_pointer ++ fvt ++ lit ") " ++
           struct_name ++ lit " {" ++ go_nl ++
         lit "    return " ++ struct_name ++ lit "{" ++ go_nl ++
         lit "        " ++ tag_field ++ lit ": " ++ variant_type_const ++ lit "," ++ go_nl ++
         lit "        " ++ content_field ++ lit ": " ++ variant_ref ++ lit "content," ++ go_nl ++
         lit "    }" ++ go_nl ++
         lit "}" ++ go_nl |}.

Lemma render_variant_with v :
  go_render_variant e v = match gv_content v with
                          | GCType ty is_ptr => vo_with v (go_show ty) is_ptr
                          | GCInner ref => vo_with v ref true
                          | GCNone => go_render_variant e v
                          end.
Proof. unfold go_render_variant, vo_with. destruct (gv_content v); reflexivity. Qed.

(* the line of the constant group *)
Lemma written_cseg v : c10_gog_variant_ok v ->
  CSeg false (go_vo_written (go_render_variant e v)) [QId (gv_const v); QId (gt_key_type e); QP 61; QStr; QP 59] false.
Proof.
  intros (Hd & Hc & Hw & _).
  assert (E : go_vo_written (go_render_variant e v) =
              go_write_comments 1 (gv_docs v) ++ [ch_tab] ++ gv_const v ++ lit " " ++ gt_key_type e ++ lit " = " ++ debug_str (gv_wire v) ++ go_nl).
  { unfold go_render_variant. destruct (gv_content v); reflexivity. }
  rewrite E. intros b tb Hb. rewrite <- ?app_assoc.
  apply (go_comments_cseg 1 _ Hd). apply (L_tab false).
  change ([QId (gv_const v); QId (gt_key_type e); QP 61; QStr; QP 59] ++ tb) with ([QId (gv_const v)] ++ [QId (gt_key_type e)] ++ [QP 61] ++ [QStr] ++ [QP 59] ++ tb).
  apply (seg_name false _ Hc); [reflexivity|]. apply (L_sp true). apply (seg_name true _ Hkt); [reflexivity|]. apply (L_eq true).
  destruct (Proofs.C10_TSGrammar.debug_key _ Hw) as [-> Hp]. apply (cseg_quoted false _ Hp). exact (L_nl_true b tb Hb).
Qed.

Lemma decoding_with v fvt p : c10_go_name_ok (gv_const v) = true -> TyText fvt -> BP false [125] (go_vo_decoding (vo_with v fvt p)) false [125].
Proof. intros Hc Hty. cbn [vo_with go_vo_decoding]. rewrite <- ?app_assoc. bp_walk. Qed.

Lemma tytext_opt_ptr (p : bool) t : TyText t -> TyText ((if p then lit "*" else []) ++ t).
Proof. intros H. destruct p; [apply tytext_ptr, H|exact H]. Qed.

Lemma recv_pars (star : bool) : Pars (QP 40 :: QId (gt_short e) :: ((if star then [QP 42] else []) ++ [QId (gt_name e)]) ++ [QP 41]).
Proof. apply pars_named; [apply name_nkw, Hsn|]. destruct star; [apply GG_ptr|]; apply GG_name, name_nkw, Hname. Qed.

Lemma accessor_with v fvt p : c10_go_name_ok (gv_method v) = true -> TyText fvt -> DPart 1 (go_vo_accessors (vo_with v fvt p)).
Proof.
  intros Hm Hty. destruct (tytext_opt_ptr p fvt Hty) as (tx & Hf & Hg).
  cbn [vo_with go_vo_accessors].
  set (body := [ch_tab] ++ lit "res, _ := " ++ gt_short e ++ lit "." ++ gt_content_field e ++ lit ".(*" ++ fvt ++ lit ")" ++ go_nl ++
               [ch_tab] ++ lit "return " ++ (if p then [] else lit "*") ++ lit "res" ++ go_nl).
  set (head := lit "func (" ++ gt_short e ++ lit " " ++ gt_name e ++ lit ") " ++ gv_method v ++ lit "() " ++ ((if p then lit "*" else []) ++ fvt) ++ lit " {" ++ go_nl).
  match goal with |- DPart 1 ?t => replace t with (head ++ body ++ lit "}" ++ go_nl) by (unfold head, body; rewrite <- ?app_assoc; reflexivity) end.
  apply (func_part head (QP 40 :: QId (gt_short e) :: ([] ++ [QId (gt_name e)]) ++ [QP 41]) (gv_method v) [QP 40; QP 41] tx body).
  - intros b tb Hb.
    replace ((qkw "func" :: (QP 40 :: QId (gt_short e) :: ([] ++ [QId (gt_name e)]) ++ [QP 41]) ++ QId (gv_method v) :: [QP 40; QP 41] ++ tx ++ [QP 123]) ++ tb)
      with ([qkw "func"; QP 40] ++ [QId (gt_short e)] ++ [QId (gt_name e)] ++ [QP 41] ++ [QId (gv_method v)] ++ [QP 40; QP 41] ++ tx ++ [QP 123] ++ tb)
      by (cbn [app]; rewrite <- ?app_assoc; reflexivity).
    unfold head. rewrite <- ?app_assoc.
    apply L_func_open. apply (seg_name false _ Hsn); [reflexivity|]. apply (L_sp true). apply (seg_name true _ Hname); [reflexivity|].
    apply (L_rparen_sp true). apply (seg_name true _ Hm); [reflexivity|]. apply (L_unit_pars true).
    rewrite (app_assoc (if p then lit "*" else [])). apply (Hf true); [reflexivity|]. exact (L_open_nl true b tb Hb).
  - right. exact (recv_pars false).
  - exact Hm.
  - exact pars_empty.
  - right. left. exact Hg.
  - unfold body. destruct p; rewrite <- ?app_assoc; bp_walk.
Qed.

Lemma constructor_with v fvt p : c10_go_name_ok (gv_const v) = true -> TyText fvt -> DPart 1 (go_vo_constructors (vo_with v fvt p)).
Proof.
  intros Hc Hty. destruct (tytext_opt_ptr p fvt Hty) as (tx & Hf & Hg). pose proof (new_name _ Hc) as Hnew.
  cbn [vo_with go_vo_constructors].
  set (body := lit "    return " ++ gt_name e ++ lit "{" ++ go_nl ++
               lit "        " ++ gt_tag_field e ++ lit ": " ++ gv_const v ++ lit "," ++ go_nl ++
               lit "        " ++ gt_content_field e ++ lit ": " ++ (if p then [] else lit "&") ++ lit "content," ++ go_nl ++
               lit "    }" ++ go_nl).
  set (head := lit "func " ++ (lit "New" ++ gv_const v) ++ lit "(content " ++ ((if p then lit "*" else []) ++ fvt) ++ lit ") " ++ gt_name e ++ lit " {" ++ go_nl).
  match goal with |- DPart 1 ?t => replace t with (head ++ body ++ lit "}" ++ go_nl) by (unfold head, body; rewrite <- ?app_assoc; reflexivity) end.
  apply (func_part head [] (lit "New" ++ gv_const v) (QP 40 :: QId (lit "content") :: tx ++ [QP 41]) [QId (gt_name e)] body).
  - intros b tb Hb.
    replace ((qkw "func" :: [] ++ QId (lit "New" ++ gv_const v) :: (QP 40 :: QId (lit "content") :: tx ++ [QP 41]) ++ [QId (gt_name e)] ++ [QP 123]) ++ tb)
      with ([qkw "func"] ++ [QId (lit "New" ++ gv_const v)] ++ [QP 40; QId (lit "content")] ++ tx ++ [QP 41] ++ [QId (gt_name e)] ++ [QP 123] ++ tb)
      by (cbn [app]; rewrite <- ?app_assoc; reflexivity).
    unfold head. rewrite <- ?app_assoc.
    apply L_func. rewrite (app_assoc (lit "New")). apply (seg_name false _ Hnew); [reflexivity|]. apply (L_content true).
    rewrite (app_assoc (if p then lit "*" else [])). apply (Hf true); [reflexivity|]. apply (L_rparen_sp true).
    apply (seg_name true _ Hname); [reflexivity|]. exact (L_open_nl true b tb Hb).
  - left. reflexivity.
  - exact Hnew.
  - apply pars_named; [reflexivity|exact Hg].
  - right. left. apply GG_name, name_nkw, Hname.
  - unfold body. destruct p; rewrite <- ?app_assoc; bp_walk.
Qed.

Lemma constructor_none v : c10_go_name_ok (gv_const v) = true -> gv_content v = GCNone -> DPart 1 (go_vo_constructors (go_render_variant e v)).
Proof.
  intros Hc E. pose proof (new_name _ Hc) as Hnew. unfold go_render_variant. rewrite E. cbn [go_vo_constructors].
  set (body := lit "    return " ++ gt_name e ++ lit "{" ++ go_nl ++
               lit "        " ++ gt_tag_field e ++ lit ": " ++ gv_const v ++ lit "," ++ go_nl ++
               lit "    }" ++ go_nl).
  set (head := lit "func " ++ (lit "New" ++ gv_const v) ++ lit "() " ++ gt_name e ++ lit " {" ++ go_nl).
  match goal with |- DPart 1 ?t => replace t with (head ++ body ++ lit "}" ++ go_nl) by (unfold head, body; rewrite <- ?app_assoc; reflexivity) end.
  apply (func_part head [] (lit "New" ++ gv_const v) [QP 40; QP 41] [QId (gt_name e)] body).
  - intros b tb Hb.
    replace ((qkw "func" :: [] ++ QId (lit "New" ++ gv_const v) :: [QP 40; QP 41] ++ [QId (gt_name e)] ++ [QP 123]) ++ tb)
      with ([qkw "func"] ++ [QId (lit "New" ++ gv_const v)] ++ [QP 40; QP 41] ++ [QId (gt_name e)] ++ [QP 123] ++ tb)
      by (cbn [app]; rewrite <- ?app_assoc; reflexivity).
    unfold head. rewrite <- ?app_assoc.
    apply L_func. rewrite (app_assoc (lit "New")). apply (seg_name false _ Hnew); [reflexivity|]. apply (L_unit_pars true).
    apply (seg_name true _ Hname); [reflexivity|]. exact (L_open_nl true b tb Hb).
  - left. reflexivity.
  - exact Hnew.
  - exact pars_empty.
  - right. left. apply GG_name, name_nkw, Hname.
  - unfold body. rewrite <- ?app_assoc. bp_walk.
Qed.

(* the contributions of one variant to UnmarshalJSON, the accessors and the constructors *)
Lemma variant_parts v : c10_gog_variant_ok v ->
  BP false [125] (go_vo_decoding (go_render_variant e v)) false [125] /\
  DPart 0 (go_vo_accessors (go_render_variant e v)) /\ DPart 1 (go_vo_constructors (go_render_variant e v)).
Proof.
  intros (Hd & Hc & Hw & Hcon). destruct (gv_content v) as [|ty p|ref] eqn:E; cbn [c10_gog_content_ok] in Hcon.
  - split; [|split].
    + unfold go_render_variant. rewrite E. cbn [go_vo_decoding]. rewrite <- ?app_assoc. bp_walk.
    + unfold go_render_variant. rewrite E. exact dpart_nil.
    + apply constructor_none; assumption.
  - rewrite render_variant_with, E. destruct Hcon as [Hm Hty]. pose proof (go_show_tytext _ Hty) as Ht. split; [apply decoding_with; assumption|]. split.
    + apply (dpart_weaken 1); [lia|]. apply accessor_with; assumption.
    + apply constructor_with; assumption.
  - rewrite render_variant_with, E. destruct Hcon as [Hm Hr]. pose proof (tytext_name _ Hr) as Ht. split; [apply decoding_with; assumption|]. split.
    + apply (dpart_weaken 1); [lia|]. apply accessor_with; assumption.
    + apply constructor_with; assumption.
Qed.
End Tagged.

(* ------------------------------------------------------------------ the whole tagged enum *)
Lemma L_string_const_nl : CSeg true (lit " string" ++ go_nl ++ lit "const (" ++ go_nl) [QId (lit "string"); QP 59; qkw "const"; QP 40] false. Proof. lit_cseg. Qed.
Lemma L_group_close : CSeg false (lit ")" ++ go_nl) [QP 41; QP 59] false. Proof. lit_cseg. Qed.
Lemma L_struct_open2 : CSeg true (lit " struct{ " ++ go_nl) [qkw "struct"; QP 123] false. Proof. lit_cseg. Qed.
Lemma L_iface_close : CSeg true (lit " interface{}" ++ go_nl ++ lit "}" ++ go_nl ++ go_nl) [qkw "interface"; QP 123; QP 125; QP 59; QP 125; QP 59] false. Proof. lit_cseg. Qed.
Lemma L_json_open : CSeg true (lit " ") [] true. Proof. lit_cseg. Qed.

Lemma written_all e vs : c10_go_name_ok (gt_key_type e) = true -> Forall c10_gog_variant_ok vs ->
  CSeg false (flat_map go_vo_written (map (go_render_variant e) vs) ++ lit ")" ++ go_nl)
             (cgroup_toks (gt_key_type e) (map gv_const vs) ++ [QP 59]) false.
Proof.
  intros Hkt. induction 1 as [|v vs Hv _ IH]; [exact L_group_close|].
  cbn [map flat_map cgroup_toks]. rewrite <- app_assoc.
  change ((QId (gv_const v) :: QId (gt_key_type e) :: QP 61 :: QStr :: QP 59 :: cgroup_toks (gt_key_type e) (map gv_const vs)) ++ [QP 59])
    with ([QId (gv_const v); QId (gt_key_type e); QP 61; QStr; QP 59] ++ cgroup_toks (gt_key_type e) (map gv_const vs) ++ [QP 59]).
  apply cseg_app with (fl1 := false); [|exact IH].
  destruct Hv as (Hd & Hc & Hw & Hcon).
  assert (E : go_vo_written (go_render_variant e v) =
              go_write_comments 1 (gv_docs v) ++ [ch_tab] ++ gv_const v ++ lit " " ++ gt_key_type e ++ lit " = " ++ debug_str (gv_wire v) ++ go_nl).
  { unfold go_render_variant. destruct (gv_content v); reflexivity. }
  rewrite E. intros b tb Hb. rewrite <- ?app_assoc.
  apply (go_comments_cseg 1 _ Hd). apply (L_tab false).
  change ([QId (gv_const v); QId (gt_key_type e); QP 61; QStr; QP 59] ++ tb) with ([QId (gv_const v)] ++ [QId (gt_key_type e)] ++ [QP 61] ++ [QStr] ++ [QP 59] ++ tb).
  apply (seg_name false _ Hc); [reflexivity|]. apply (L_sp true). apply (seg_name true _ Hkt); [reflexivity|]. apply (L_eq true).
  destruct (Proofs.C10_TSGrammar.debug_key _ Hw) as [-> Hp]. apply (cseg_quoted false _ Hp). exact (L_nl_true b tb Hb).
Qed.

(* a raw-string tag made of literal text around a key *)
Lemma bp_tag fl s (pre post : string) key : gnotick (lit pre) = true -> gnotick (lit post) = true -> forallb c10_key_char key = true ->
  BP fl s (ch_bt :: lit pre ++ key ++ lit post ++ [ch_bt]) true s.
Proof.
  intros H1 H2 Hk. exists [QStr]. split; [|intros st; reflexivity].
  replace (ch_bt :: lit pre ++ key ++ lit post ++ [ch_bt]) with (ch_bt :: (lit pre ++ key ++ lit post) ++ [ch_bt]) by (rewrite <- !app_assoc; reflexivity).
  apply cseg_raw. rewrite !gnotick_app, H1, H2, (key_gnotick _ Hk). reflexivity.
Qed.

Section Whole.
Variable e : go_tagged.
Hypothesis He : c10_gog_tagged_ok e.

Let Hdocs : forallb Proofs.C10Lex.c10_line_ok (gt_docs e) = true. Proof. apply He. Qed.
Let Hname : c10_go_name_ok (gt_name e) = true. Proof. apply He. Qed.
Let Hkt : c10_go_name_ok (gt_key_type e) = true. Proof. apply He. Qed.
Let Htk : forallb c10_key_char (gt_tag_key e) = true. Proof. apply He. Qed.
Let Hck : forallb c10_key_char (gt_content_key e) = true. Proof. apply He. Qed.
Let Htf : c10_go_name_ok (gt_tag_field e) = true. Proof. apply He. Qed.
Let Hcf : c10_go_name_ok (gt_content_field e) = true. Proof. apply He. Qed.
Let Hsn : c10_go_name_ok (gt_short e) = true. Proof. apply He. Qed.
Let Hvs : Forall c10_gog_variant_ok (gt_variants e). Proof. apply He. Qed.

Let vos := map (go_render_variant e) (gt_variants e).

(* key type, constant group, struct *)
Definition tagged_types : str :=
  go_write_comments 0 (gt_docs e) ++
  lit "type " ++ gt_key_type e ++ lit " string" ++ go_nl ++
  lit "const (" ++ go_nl ++
  flat_map go_vo_written vos ++
  lit ")" ++ go_nl ++
  lit "type " ++ gt_name e ++ lit " struct{ " ++ go_nl ++
  [ch_tab] ++ gt_tag_field e ++ lit " " ++ gt_key_type e ++ lit " `json:" ++ debug_str (gt_tag_key e) ++ lit "`" ++ go_nl ++
  [ch_tab] ++ gt_content_field e ++ lit " interface{}" ++ go_nl ++
  lit "}" ++ go_nl ++
  go_nl.

Lemma tagged_types_part : DPart 3 tagged_types.
Proof.
  pose (d1 := [qkw "type"; QId (gt_key_type e); QId (lit "string")]).
  pose (d2 := qkw "const" :: QP 40 :: cgroup_toks (gt_key_type e) (map gv_const (gt_variants e))).
  pose (fields := [QId (gt_tag_field e); QId (gt_key_type e); QStr] ++ QP 59 :: ([QId (gt_content_field e); qkw "interface"; QP 123; QP 125] ++ QP 59 :: [QP 125])).
  pose (d3 := qkw "type" :: QId (gt_name e) :: gparams [] ++ qkw "struct" :: QP 123 :: fields).
  exists [d1; d2; d3]. split; [|split; [|cbn; lia]].
  - unfold decls_toks, tagged_types. cbn [map List.concat]. rewrite app_nil_r. intros b tb Hb.
    replace (((d1 ++ [QP 59]) ++ (d2 ++ [QP 59]) ++ d3 ++ [QP 59]) ++ tb)
      with ([qkw "type"] ++ [QId (gt_key_type e)] ++ [QId (lit "string"); QP 59; qkw "const"; QP 40] ++
            (cgroup_toks (gt_key_type e) (map gv_const (gt_variants e)) ++ [QP 59]) ++
            [qkw "type"] ++ [QId (gt_name e)] ++ [qkw "struct"; QP 123] ++ [QId (gt_tag_field e)] ++ [QId (gt_key_type e)] ++ [QStr] ++ [QP 59] ++
            [QId (gt_content_field e)] ++ [qkw "interface"; QP 123; QP 125; QP 59; QP 125; QP 59] ++ tb)
      by (unfold d1, d2, d3, fields, gparams; cbn [app]; rewrite <- ?app_assoc; reflexivity).
    rewrite <- ?app_assoc.
    apply (go_comments_cseg 0 _ Hdocs). apply L_type. apply (seg_name false _ Hkt); [reflexivity|].
    change (lit " string" ++ go_nl ++ lit "const (" ++ go_nl ++ ?x) with ((lit " string" ++ go_nl ++ lit "const (" ++ go_nl) ++ x). apply L_string_const_nl.
    pose proof (written_all e (gt_variants e) Hkt Hvs) as W. fold vos in W.
    rewrite (app_assoc (flat_map go_vo_written vos)), (app_assoc (flat_map go_vo_written vos ++ lit ")")).
    rewrite <- (app_assoc (flat_map go_vo_written vos) (lit ")") go_nl). rewrite (app_assoc (cgroup_toks _ _)). apply W.
    apply L_type. apply (seg_name false _ Hname); [reflexivity|].
    change (lit " struct{ " ++ go_nl ++ ?x) with ((lit " struct{ " ++ go_nl) ++ x). apply L_struct_open2. apply (L_tab false).
    apply (seg_name false _ Htf); [reflexivity|]. apply (L_sp true). apply (seg_name true _ Hkt); [reflexivity|].
    destruct (Proofs.C10_TSGrammar.debug_key _ Htk) as [-> _].
    replace (lit " `json:" ++ (ch_dq :: gt_tag_key e ++ [ch_dq]) ++ lit "`" ++ go_nl ++ [ch_tab] ++ gt_content_field e ++ lit " interface{}" ++ go_nl ++ lit "}" ++ go_nl ++ go_nl ++ b)
      with (lit " " ++ (ch_bt :: (lit "json:""" ++ gt_tag_key e ++ lit """") ++ [ch_bt]) ++ go_nl ++ [ch_tab] ++ gt_content_field e ++ (lit " interface{}" ++ go_nl ++ lit "}" ++ go_nl ++ go_nl) ++ b).
    2:{ cbn [lit app]. repeat (rewrite <- ?app_assoc; cbn [app]). reflexivity. }
    apply (L_sp true). apply (cseg_raw true).
    { rewrite !gnotick_app, (key_gnotick _ Htk). reflexivity. }
    apply L_nl_true. apply (L_tab false). apply (seg_name false _ Hcf); [reflexivity|]. exact (L_iface_close b tb Hb).
  - constructor; [|constructor; [|constructor; [|constructor]]]; (split; [apply decl_head; auto|]); intros rest.
    + change (d1 ++ QP 59 :: rest) with (qkw "type" :: QId (gt_key_type e) :: gparams [] ++ [QId (lit "string")] ++ QP 59 :: rest).
      apply decl_type; [apply name_nkw, Hkt|constructor|apply GG_name; reflexivity].
    + unfold d2. cbn [app]. rewrite (decl_const_group (gt_key_type e) (map gv_const (gt_variants e)) (QP 59 :: rest)); [reflexivity|apply name_nkw, Hkt|].
      apply Forall_map. revert Hvs. apply Forall_impl. intros v (_ & Hc & _). apply name_nkw, Hc.
    + unfold d3. cbn [app]. rewrite <- ?app_assoc. cbn [app].
      change (qkw "type" :: QId (gt_name e) :: qkw "struct" :: QP 123 :: ?x) with (qkw "type" :: QId (gt_name e) :: gparams [] ++ qkw "struct" :: QP 123 :: x).
      replace (fields ++ QP 59 :: rest) with (fields ++ QP 59 :: rest) by reflexivity.
      change (qkw "struct" :: QP 123 :: fields ++ QP 59 :: rest) with ((qkw "struct" :: QP 123 :: fields) ++ QP 59 :: rest).
      apply decl_type; [apply name_nkw, Hname|constructor|]. apply GG_struct. unfold fields.
      apply (GG_fields_cons [QId (gt_tag_field e); QId (gt_key_type e); QStr]).
      * exact (GG_field (gt_tag_field e) [QId (gt_key_type e)] true (name_nkw _ Htf) (GG_name _ (name_nkw _ Hkt))).
      * apply (GG_fields_cons [QId (gt_content_field e); qkw "interface"; QP 123; QP 125]); [|apply GG_fields_end].
        exact (GG_field (gt_content_field e) [qkw "interface"; QP 123; QP 125] false (name_nkw _ Hcf) GG_iface).
Qed.

(* the raw-string tags of the two anonymous structs, with the back-ticks set apart *)
Lemma tag_shape1 k rest : lit "   `json:""" ++ k ++ lit """`" ++ rest = lit "   " ++ (ch_bt :: lit "json:""" ++ k ++ lit """" ++ [ch_bt]) ++ rest.
Proof. cbn [lit app]. repeat (rewrite <- ?app_assoc; cbn [app]). reflexivity. Qed.
Lemma tag_shape2 k rest : lit "Content json.RawMessage `json:""" ++ k ++ lit """`" ++ rest =
  lit "Content json.RawMessage " ++ (ch_bt :: lit "json:""" ++ k ++ lit """" ++ [ch_bt]) ++ rest.
Proof. cbn [lit app]. repeat (rewrite <- ?app_assoc; cbn [app]). reflexivity. Qed.
Lemma tag_shape3 k rest : lit "Content interface{} `json:""" ++ k ++ lit ",omitempty""`" ++ rest =
  lit "Content interface{} " ++ (ch_bt :: lit "json:""" ++ k ++ lit ",omitempty""" ++ [ch_bt]) ++ rest.
Proof. cbn [lit app]. repeat (rewrite <- ?app_assoc; cbn [app]). reflexivity. Qed.

Lemma decoding_list vs : Forall c10_gog_variant_ok vs -> BP false [125] (flat_map go_vo_decoding (map (go_render_variant e) vs)) false [125].
Proof.
  induction 1 as [|v vs Hv _ IH]; [apply bp_nil|]. cbn [map flat_map].
  eapply bp_app; [exact (proj1 (variant_parts e He v Hv))|exact IH].
Qed.
Lemma accessors_list vs : Forall c10_gog_variant_ok vs -> DPart 0 (flat_map go_vo_accessors (map (go_render_variant e) vs)).
Proof.
  induction 1 as [|v vs Hv _ IH]; [exact dpart_nil|]. cbn [map flat_map].
  exact (dpart_app 0 _ 0 _ (proj1 (proj2 (variant_parts e He v Hv))) IH).
Qed.
Lemma constructors_list vs : Forall c10_gog_variant_ok vs -> DPart 0 (flat_map go_vo_constructors (map (go_render_variant e) vs)).
Proof.
  induction 1 as [|v vs Hv _ IH]; [exact dpart_nil|]. cbn [map flat_map].
  exact (dpart_app 0 _ 0 _ (dpart_weaken 1 0 _ ltac:(lia) (proj2 (proj2 (variant_parts e He v Hv)))) IH).
Qed.
Lemma decoding_all : BP false [125] (flat_map go_vo_decoding vos) false [125]. Proof. exact (decoding_list _ Hvs). Qed.
Lemma accessors_all : DPart 0 (flat_map go_vo_accessors vos). Proof. exact (accessors_list _ Hvs). Qed.
Lemma constructors_all : DPart 0 (flat_map go_vo_constructors vos). Proof. exact (constructors_list _ Hvs). Qed.

Definition unmarshal_head : str := lit "func (" ++ gt_short e ++ lit " *" ++ gt_name e ++ lit ") UnmarshalJSON(data []byte) error {" ++ go_nl.
Definition unmarshal_body : str :=
  let T := [ch_tab] in
  T ++ lit "var enum struct {" ++ go_nl ++
  T ++ T ++ lit "Tag    " ++ gt_key_type e ++ lit "   `json:""" ++ gt_tag_key e ++ lit """`" ++ go_nl ++
  T ++ T ++ lit "Content json.RawMessage `json:""" ++ gt_content_key e ++ lit """`" ++ go_nl ++
  T ++ lit "}" ++ go_nl ++
  T ++ lit "if err := json.Unmarshal(data, &enum); err != nil {" ++ go_nl ++
  T ++ T ++ lit "return err" ++ go_nl ++
  T ++ lit "}" ++ go_nl ++
  go_nl ++
  T ++ gt_short e ++ lit "." ++ gt_tag_field e ++ lit " = enum.Tag" ++ go_nl ++
  T ++ lit "switch " ++ gt_short e ++ lit "." ++ gt_tag_field e ++ lit " {" ++ go_nl ++
  flat_map go_vo_decoding vos ++ go_nl ++
  T ++ lit "}" ++ go_nl ++
  T ++ lit "if err := json.Unmarshal(enum.Content, &" ++ gt_short e ++ lit "." ++ gt_content_field e ++ lit "); err != nil {" ++ go_nl ++
  T ++ T ++ lit "return err" ++ go_nl ++
  T ++ lit "}" ++ go_nl ++
  go_nl ++
  T ++ lit "return nil" ++ go_nl.

Lemma unmarshal_part : DPart 1 (unmarshal_head ++ unmarshal_body ++ lit "}" ++ go_nl).
Proof.
  apply (func_part unmarshal_head (QP 40 :: QId (gt_short e) :: ([QP 42] ++ [QId (gt_name e)]) ++ [QP 41]) (lit "UnmarshalJSON")
                   (QP 40 :: QId (lit "data") :: [QP 91; QP 93; QId (lit "byte")] ++ [QP 41]) [QId (lit "error")] unmarshal_body).
  - intros b tb Hb.
    replace ((qkw "func" :: (QP 40 :: QId (gt_short e) :: ([QP 42] ++ [QId (gt_name e)]) ++ [QP 41]) ++ QId (lit "UnmarshalJSON") ::
              (QP 40 :: QId (lit "data") :: [QP 91; QP 93; QId (lit "byte")] ++ [QP 41]) ++ [QId (lit "error")] ++ [QP 123]) ++ tb)
      with ([qkw "func"; QP 40] ++ [QId (gt_short e)] ++ [QP 42] ++ [QId (gt_name e)] ++
            [QP 41; QId (lit "UnmarshalJSON"); QP 40; QId (lit "data"); QP 91; QP 93; QId (lit "byte"); QP 41; QId (lit "error"); QP 123] ++ tb)
      by reflexivity.
    unfold unmarshal_head. rewrite <- ?app_assoc.
    apply L_func_open. apply (seg_name false _ Hsn); [reflexivity|]. apply (L_sp_star true). apply (seg_name false _ Hname); [reflexivity|].
    change (lit ") UnmarshalJSON(data []byte) error {" ++ go_nl ++ b) with ((lit ") UnmarshalJSON(data []byte) error {" ++ go_nl) ++ b).
    exact (L_unmarshal_sig b tb Hb).
  - right. exact (recv_pars e He true).
  - reflexivity.
  - apply pars_named; [reflexivity|]. apply GG_slice, GG_name. reflexivity.
  - right. left. apply GG_name. reflexivity.
  - pose proof decoding_all as Hdec. unfold unmarshal_body. cbv zeta. rewrite tag_shape1, tag_shape2. bp_walk.
Qed.

Definition marshal_head : str := lit "func (" ++ gt_short e ++ lit " " ++ gt_name e ++ lit ") MarshalJSON() ([]byte, error) {" ++ go_nl.
Definition marshal_body : str :=
  let T := [ch_tab] in
  lit "    var enum struct {" ++ go_nl ++
  T ++ T ++ lit "Tag    " ++ gt_key_type e ++ lit "   `json:""" ++ gt_tag_key e ++ lit """`" ++ go_nl ++
  T ++ T ++ lit "Content interface{} `json:""" ++ gt_content_key e ++ lit ",omitempty""`" ++ go_nl ++
  lit "    }" ++ go_nl ++
  lit "    enum.Tag = " ++ gt_short e ++ lit "." ++ gt_tag_field e ++ go_nl ++
  lit "    enum.Content = " ++ gt_short e ++ lit "." ++ gt_content_field e ++ go_nl ++
  lit "    return json.Marshal(enum)" ++ go_nl.

Lemma marshal_part : DPart 1 (marshal_head ++ marshal_body ++ lit "}" ++ go_nl).
Proof.
  apply (func_part marshal_head (QP 40 :: QId (gt_short e) :: ([] ++ [QId (gt_name e)]) ++ [QP 41]) (lit "MarshalJSON")
                   [QP 40; QP 41] [QP 40; QP 91; QP 93; QId (lit "byte"); QP 44; QId (lit "error"); QP 41] marshal_body).
  - intros b tb Hb.
    replace ((qkw "func" :: (QP 40 :: QId (gt_short e) :: ([] ++ [QId (gt_name e)]) ++ [QP 41]) ++ QId (lit "MarshalJSON") ::
              [QP 40; QP 41] ++ [QP 40; QP 91; QP 93; QId (lit "byte"); QP 44; QId (lit "error"); QP 41] ++ [QP 123]) ++ tb)
      with ([qkw "func"; QP 40] ++ [QId (gt_short e)] ++ [QId (gt_name e)] ++
            [QP 41; QId (lit "MarshalJSON"); QP 40; QP 41; QP 40; QP 91; QP 93; QId (lit "byte"); QP 44; QId (lit "error"); QP 41; QP 123] ++ tb)
      by reflexivity.
    unfold marshal_head. rewrite <- ?app_assoc.
    apply L_func_open. apply (seg_name false _ Hsn); [reflexivity|]. apply (L_sp true). apply (seg_name true _ Hname); [reflexivity|].
    change (lit ") MarshalJSON() ([]byte, error) {" ++ go_nl ++ b) with ((lit ") MarshalJSON() ([]byte, error) {" ++ go_nl) ++ b).
    exact (L_marshal_sig b tb Hb).
  - right. exact (recv_pars e He false).
  - reflexivity.
  - exact pars_empty.
  - right. right. exact pars_bytes_error.
  - unfold marshal_body. cbv zeta. rewrite tag_shape1, tag_shape3. bp_walk.
Qed.

Lemma tagged_text :
  go_render_decl (GOTagged e) =
  tagged_types ++ ((unmarshal_head ++ unmarshal_body ++ lit "}" ++ go_nl) ++ go_nl) ++ ((marshal_head ++ marshal_body ++ lit "}" ++ go_nl) ++ go_nl) ++
  (flat_map go_vo_accessors vos ++ go_nl) ++ (flat_map go_vo_constructors vos ++ go_nl).
Proof.
  unfold tagged_types, unmarshal_head, unmarshal_body, marshal_head, marshal_body, vos. cbn [go_render_decl]. cbv zeta.
  rewrite <- ?app_assoc. reflexivity.
Qed.

Theorem tagged_gram : DPart 1 (go_render_decl (GOTagged e)).
Proof.
  rewrite tagged_text. apply (dpart_weaken (3 + (1 + (1 + (0 + 0))))); [lia|].
  apply dpart_app; [exact tagged_types_part|]. apply dpart_app; [apply dpart_blank; [exact L_nl_false|exact unmarshal_part]|].
  apply dpart_app; [apply dpart_blank; [exact L_nl_false|exact marshal_part]|].
  apply dpart_app; apply dpart_blank; try exact L_nl_false; [exact accessors_all|exact constructors_all].
Qed.
End Whole.

(* ------------------------------------------------------------------ the layout theorem, all declaration forms *)
Theorem go_render_decl_gram d : c10_gog_decl_ok d ->
  exists tds, CSeg false (go_render_decl d) (decls_toks tds) false /\ Forall DeclToks tds /\ (1 <= List.length tds)%nat.
Proof.
  destruct d as [docs name gs ms | docs name ty | name ty value | docs name vs | e]; try (apply go_render_decl_gram_basic; exact I).
  intros He. exact (tagged_gram e He).
Qed.
