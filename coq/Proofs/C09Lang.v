(* C09, shared by the TypeScript / Scala / Python / Swift / Go proofs: inversion of the printing monad,
   the entities and type positions of a program, and the step from "every item's declarations have the
   shapes of Proofs/C09Common.v" to "the observation of the whole file has the shape". *)
From Coq Require Import List Bool String Permutation.
From TS Require Import Model.Str Model.Outcome Model.Types Model.Parse Model.Reconcile Model.TopsortAlgo Model.Topsort
                       Model.Lang.Common Model.Lang.Decl Spec.C09Spec.
From TS Require Proofs.C11.
From TS Require Import Proofs.C09Common Proofs.C09Recon Proofs.C09Refs.
Import ListNotations.
Local Notation length := List.length (only parsing).

(* ---------------------------------------------------------------- the state-passing monad *)
Lemma c09_mbind_ok {St A B} (m : M St A) (f : A -> M St B) s y s' :
  mbind m f s = Ok (y, s') -> exists a s1, m s = Ok (a, s1) /\ f a s1 = Ok (y, s').
Proof. unfold mbind. destruct (m s) as [[a s1]| |]; try discriminate. intros H. exists a, s1. auto. Qed.

Lemma c09_ret_ok {St A} (a : A) (s : St) y s' : ret a s = Ok (y, s') -> y = a /\ s' = s.
Proof. unfold ret. intros [= <- <-]. auto. Qed.

Lemma c09_mmapM_Forall2 {St A B} (f : A -> M St B) l : forall s ys s', mmapM f l s = Ok (ys, s') ->
  Forall2 (fun x y => exists s1 s2, f x s1 = Ok (y, s2)) l ys.
Proof.
  induction l as [|x l IH]; intros s ys s' H; cbn [mmapM] in H.
  - apply c09_ret_ok in H as [-> _]. constructor.
  - apply c09_mbind_ok in H as (y & s1 & E1 & H). apply c09_mbind_ok in H as (ys0 & s2 & E2 & H).
    apply c09_ret_ok in H as [-> _]. constructor; [eauto|eapply IH; eassumption].
Qed.

(* the local loop of the *_texp functions over the arguments of a generic type *)
Lemma c09_mgo_Forall2 {St A B} (f : A -> M St B) ps : forall s ys s',
  (fix go (l : list A) : M St (list B) :=
     match l with [] => ret [] | x :: r => mdo y <- f x; mdo ys <- go r; ret (y :: ys) end) ps s = Ok (ys, s') ->
  Forall2 (fun p y => exists s1 s2, f p s1 = Ok (y, s2)) ps ys.
Proof.
  induction ps as [|p ps IH]; intros s ys s' H.
  - apply c09_ret_ok in H as [-> _]. constructor.
  - apply c09_mbind_ok in H as (y & s1 & E1 & H). apply c09_mbind_ok in H as (ys0 & s2 & E2 & H).
    apply c09_ret_ok in H as [-> _]. constructor; [eauto|eapply IH; eassumption].
Qed.

(* invert  (mdo x <- m; k) s = Ok _  in hypothesis H, naming the pieces *)
Tactic Notation "c09_bind" hyp(H) ident(a) ident(s) ident(E) := apply c09_mbind_ok in H as (a & s & E & H); cbv beta in H.
Tactic Notation "c09_ret" hyp(H) := apply c09_ret_ok in H as [-> ->].

Lemma c09_topsort_in' things out : topsort things = Ok out -> forall x, In x out <-> In x things.
Proof.
  intros H. unfold topsort in H. destruct (build_dag things) as [dag| |] eqn:D; cbn [bind] in H; try discriminate.
  destruct (Proofs.C11.topsort_permutation things dag D) as (out' & H' & P). unfold topsort in H'. rewrite D in H'. cbn [bind] in H'.
  assert (out' = out) as -> by congruence.
  intros x. split; intros Hx; [eapply Permutation_in; [exact P|exact Hx]|eapply Permutation_in; [apply Permutation_sym; exact P|exact Hx]].
Qed.

(* ---------------------------------------------------------------- entities and type positions *)
Definition c09_ent_struct (s : rstruct) : c09_entity := {| c9e_id := sid s; c9e_suffix := []; c9e_generics := sgenerics s; c9e_kind := C9KStruct |}.
Definition c09_ent_enum (e : renum) : c09_entity :=
  {| c9e_id := eid (enum_shared e); c9e_suffix := []; c9e_generics := egenerics (enum_shared e); c9e_kind := c09_enum_kind e |}.
Definition c09_ent_inner (e : renum) (vsh : vshared) : c09_entity :=
  {| c9e_id := eid (enum_shared e); c9e_suffix := original (vid vsh) ++ lit "Inner"; c9e_generics := egenerics (enum_shared e); c9e_kind := C9KInner |}.
Definition c09_ent_alias (a : ralias) : c09_entity :=
  {| c9e_id := aid a; c9e_suffix := []; c9e_generics := agenerics a; c9e_kind := C9KAlias (c09_alias_inline a) |}.

Section Prog.
Variable pd : parsed.
Let rn := c09_rn pd.
Let pd' := c09_reconciled pd.

Lemma c09_in_struct s : In s (p_structs pd) -> In (c09_ent_struct s) (c09_entities pd).
Proof. intros H. unfold c09_entities. apply in_or_app. left. apply in_map_iff. exists s. auto. Qed.
Lemma c09_in_enum e : In e (p_enums pd) -> In (c09_ent_enum e) (c09_entities pd).
Proof. intros H. unfold c09_entities. apply in_or_app. right. apply in_or_app. left. apply in_flat_map. exists e. split; [exact H|left; reflexivity]. Qed.
Lemma c09_in_inner e fs vsh : In e (p_enums pd) -> In (VAnon fs vsh) (evariants (enum_shared e)) -> In (c09_ent_inner e vsh) (c09_entities pd).
Proof.
  intros H Hv. unfold c09_entities. apply in_or_app. right. apply in_or_app. left. apply in_flat_map. exists e. split; [exact H|right].
  apply in_flat_map. exists (VAnon fs vsh). split; [exact Hv|left; reflexivity].
Qed.
Lemma c09_in_alias a : In a (p_aliases pd) -> In (c09_ent_alias a) (c09_entities pd).
Proof. intros H. unfold c09_entities. apply in_or_app. right. apply in_or_app. right. apply in_map_iff. exists a. auto. Qed.

Lemma c09_tp_struct s f : In s (p_structs pd) -> In f (sfields s) ->
  In {| c9t_owner := sid s; c9t_generics := sgenerics s; c9t_pos := C9Field; c9t_type := fty f |} (c09_tposs pd).
Proof. intros Hs Hf. unfold c09_tposs. apply in_or_app. left. apply in_flat_map. exists s. split; [exact Hs|]. apply in_map_iff. exists f. auto. Qed.
Lemma c09_tp_variant e v tp : In e (p_enums pd) -> In v (evariants (enum_shared e)) ->
  In tp (c09_variant_tpos (eid (enum_shared e)) (egenerics (enum_shared e)) v) -> In tp (c09_tposs pd).
Proof.
  intros He Hv Htp. unfold c09_tposs. apply in_or_app. right. apply in_or_app. left. apply in_flat_map. exists e. split; [exact He|].
  apply in_flat_map. exists v. auto.
Qed.
Lemma c09_tp_anon e fs vsh f : In e (p_enums pd) -> In (VAnon fs vsh) (evariants (enum_shared e)) -> In f fs ->
  In {| c9t_owner := eid (enum_shared e); c9t_generics := egenerics (enum_shared e); c9t_pos := C9Field; c9t_type := fty f |} (c09_tposs pd).
Proof. intros He Hv Hf. eapply c09_tp_variant; [exact He|exact Hv|]. cbn [c09_variant_tpos]. apply in_map_iff. exists f. auto. Qed.
Lemma c09_tp_tuple e t vsh : In e (p_enums pd) -> In (VTuple t vsh) (evariants (enum_shared e)) ->
  In {| c9t_owner := eid (enum_shared e); c9t_generics := egenerics (enum_shared e); c9t_pos := C9Payload; c9t_type := t |} (c09_tposs pd).
Proof. intros He Hv. eapply c09_tp_variant; [exact He|exact Hv|]. left. reflexivity. Qed.
Lemma c09_tp_alias a : In a (p_aliases pd) ->
  In {| c9t_owner := aid a; c9t_generics := agenerics a; c9t_pos := C9Alias; c9t_type := atype a |} (c09_tposs pd).
Proof. intros Ha. unfold c09_tposs. apply in_or_app. right. apply in_or_app. right. apply in_or_app. left. apply in_map_iff. exists a. auto. Qed.
Lemma c09_tp_const c : In c (p_consts pd) ->
  In {| c9t_owner := cid c; c9t_generics := []; c9t_pos := C9Const; c9t_type := ctype c |} (c09_tposs pd).
Proof. intros Hc. unfold c09_tposs. apply in_or_app. right. apply in_or_app. right. apply in_or_app. right. apply in_map_iff. exists c. auto. Qed.

Lemma c09_sh_recon e : eid (enum_shared (c09_re rn e)) = eid (enum_shared e) /\ egenerics (enum_shared (c09_re rn e)) = egenerics (enum_shared e) /\
  evariants (enum_shared (c09_re rn e)) = map (check_variant [] rn []) (evariants (enum_shared e)).
Proof. destruct e; repeat split. Qed.

Variables (L : lang) (pfx : str).
Hypothesis Hdom : dom_C09 L pfx pd = true.

Lemma c09_dom_imports : p_imports pd = [].
Proof.
  pose proof Hdom as H. unfold dom_C09 in H. apply andb_true_iff in H as [H _]. apply andb_true_iff in H as [H _]. apply andb_true_iff in H as [H _].
  destruct (p_imports pd); [reflexivity|discriminate].
Qed.

(* the items of the reconciled program are the reconciled items of the program *)
Lemma c09_items_cases it' : In it' (items_of pd') ->
  (exists a, In a (p_aliases pd) /\ it' = ItAlias (c09_ra rn a)) \/ (exists s, In s (p_structs pd) /\ it' = ItStruct (c09_rs rn s)) \/
  (exists e, In e (p_enums pd) /\ it' = ItEnum (c09_re rn e)) \/ (exists c, In c (p_consts pd) /\ it' = ItConst (c09_rc rn c)).
Proof.
  pose proof c09_dom_imports as Himp. unfold items_of. rewrite !in_app_iff, !in_map_iff.
  intros [(a' & <- & Ha')|[(s' & <- & Hs')|[(e' & <- & He')|(c & <- & Hc)]]].
  - left. apply (c09_aliases' pd Himp) in Ha' as (a & Ha & ->). eauto.
  - right. left. apply (c09_structs' pd Himp) in Hs' as (s & Hs & ->). eauto.
  - right. right. left. apply (c09_enums' pd Himp) in He' as (e & He & ->). eauto.
  - right. right. right. apply (c09_consts' pd Himp) in Hc as (c0 & Hc & ->). eauto.
Qed.
Lemma c09_items_alias a : In a (p_aliases pd) -> In (ItAlias (c09_ra rn a)) (items_of pd').
Proof. intros H. unfold items_of. apply in_or_app. left. apply in_map. apply (c09_aliases' pd c09_dom_imports). eauto. Qed.
Lemma c09_items_struct s : In s (p_structs pd) -> In (ItStruct (c09_rs rn s)) (items_of pd').
Proof. intros H. unfold items_of. apply in_or_app. right. apply in_or_app. left. apply in_map. apply (c09_structs' pd c09_dom_imports). eauto. Qed.
Lemma c09_items_enum e : In e (p_enums pd) -> In (ItEnum (c09_re rn e)) (items_of pd').
Proof. intros H. unfold items_of. apply in_or_app. right. apply in_or_app. right. apply in_or_app. left. apply in_map. apply (c09_enums' pd c09_dom_imports). eauto. Qed.

(* ---------------------------------------------------------------- declarations of the right shape *)
Notation shape := (c09_ref_shape L pfx pd).
Definition c09_ownercond (tp : c09_tpos) (owner : str) : Prop :=
  c9t_generics tp = [] \/ exists j, In j (c09_entities pd) /\ owner = c09_def_name L pfx j /\ c9e_generics j = c9t_generics tp.

Definition c09_decl_ok (d : decl) : Prop :=
  (c09_is_def d = true -> exists en, In en (c09_entities pd) /\ d_name d = c09_def_name L pfx en) /\
  (forall r, In r (c09_decl_refs L d) -> shape r).
Definition c09_has_def (g : list decl) (en : c09_entity) : Prop :=
  exists d, In d g /\ c09_is_def d = true /\ d_name d = c09_def_name L pfx en.

Lemma c09_decl_ok_helper d : d_kind d = DHelper -> c09_decl_ok d.
Proof. intros K. split; [unfold c09_is_def; rewrite K; discriminate|]. unfold c09_decl_refs. rewrite K. intros r []. Qed.

(* the names of a translated type position -> reference shapes, for a back end that spells a mentioned
   id [i'] as "[i'] if it is a generic parameter of the item, else prefix ++ [i']" *)
Lemma c09_names_refs tp gs owner x :
  In tp (c09_tposs pd) ->
  (forall n, In n (texp_names x) -> c09_builtin L n = true \/
             exists form i', In (form, i') (c09_type_ids (c09_recon_type pd tp)) /\ n = if mem_str i' gs then i' else pfx ++ i') ->
  (forall form i', In (form, i') (c09_type_ids (c09_recon_type pd tp)) -> mem_str i' gs = mem_str i' (c9t_generics tp)) ->
  c09_ownercond tp owner ->
  forall r, In r (c09_type_refs L owner (c9t_pos tp) x) -> shape r.
Proof. intros. eapply (c09_type_refs_shape pd L pfx Hdom tp gs owner x); eassumption. Qed.

(* ... and for a back end without prefix that spells every mentioned id verbatim *)
Lemma c09_names_refs_plain tp owner x :
  pfx = [] -> In tp (c09_tposs pd) ->
  (forall n, In n (texp_names x) -> c09_builtin L n = true \/ exists form i', In (form, i') (c09_type_ids (c09_recon_type pd tp)) /\ n = i') ->
  c09_ownercond tp owner ->
  forall r, In r (c09_type_refs L owner (c9t_pos tp) x) -> shape r.
Proof.
  intros Hp Htp Hn Hown. eapply (c09_names_refs tp (c9t_generics tp) owner x); try assumption; [|reflexivity].
  intros n Hin. destruct (Hn n Hin) as [B|(form & i' & Hi & ->)]; [left; exact B|]. right. exists form, i'. split; [exact Hi|].
  rewrite Hp. destruct (mem_str i' (c9t_generics tp)); reflexivity.
Qed.

(* what an item's group of declarations must provide *)
Definition c09_item_ok (it' : ritem) (g : list decl) : Prop :=
  (forall d, In d g -> c09_decl_ok d) /\
  match it' with
  | ItStruct s' => forall s, In s (p_structs pd) -> s' = c09_rs rn s -> c09_has_def g (c09_ent_struct s)
  | ItEnum e' => forall e, In e (p_enums pd) -> e' = c09_re rn e ->
                 c09_has_def g (c09_ent_enum e) /\
                 (c09_has_inner L = true -> forall fs vsh, In (VAnon fs vsh) (evariants (enum_shared e)) -> c09_has_def g (c09_ent_inner e vsh))
  | ItAlias a' => forall a, In a (p_aliases pd) -> a' = c09_ra rn a -> c09_has_def g (c09_ent_alias a)
  | ItConst _ => True
  end.

Definition c09_is_const (it : ritem) : bool := match it with ItConst _ => true | _ => false end.

(* the file: helper declarations plus one group per item (every item that is not a const has one) *)
Theorem c09_shape_of_items (R : ritem -> list decl -> Prop) (extra : list decl) (groups : list (list decl)) (fd : file_decls) :
  (forall d, In d (fd_decls fd) <-> In d extra \/ exists g, In g groups /\ In d g) ->
  (forall d, In d extra -> d_kind d = DHelper) ->
  (forall it', In it' (items_of pd') -> c09_is_const it' = false -> exists g, In g groups /\ R it' g) ->
  (forall g, In g groups -> exists it', In it' (items_of pd') /\ R it' g) ->
  (forall it' g, In it' (items_of pd') -> R it' g -> c09_item_ok it' g) ->
  c09_shape L pfx pd (c09_observe L fd).
Proof.
  intros Hfd Hextra Hcomp Hsound Hok.
  assert (Hall : forall d, In d (fd_decls fd) -> c09_decl_ok d).
  { intros d Hd. apply Hfd in Hd as [Hd|(g & Hg & Hd)]; [apply c09_decl_ok_helper, Hextra, Hd|].
    destruct (Hsound g Hg) as (it' & Hit & HR). apply (Hok it' g Hit HR). exact Hd. }
  assert (Hdef : forall it' en, In it' (items_of pd') -> c09_is_const it' = false ->
            (forall g, c09_item_ok it' g -> c09_has_def g en) -> In (c09_def_name L pfx en) (c9_defs (c09_observe L fd))).
  { intros it' en Hit Hc K. destruct (Hcomp it' Hit Hc) as (g & Hg & HR). destruct (K g (Hok it' g Hit HR)) as (d & Hd & Hdef & Hn).
    unfold c09_observe. cbn [c9_defs]. apply in_map_iff. exists d. split; [exact Hn|]. apply filter_In. split; [|exact Hdef].
    apply Hfd. right. exists g. auto. }
  constructor.
  - intros e He Hdefines. unfold c09_entities in He. rewrite !in_app_iff, in_flat_map, !in_map_iff in He.
    destruct He as [(s & <- & Hs)|[(en & Hen & He)|(a & <- & Ha)]].
    + apply (Hdef (ItStruct (c09_rs rn s))); [apply c09_items_struct; exact Hs|reflexivity|]. intros g [_ K]. exact (K s Hs eq_refl).
    + unfold c09_enum_entities in He. destruct He as [<-|He].
      * apply (Hdef (ItEnum (c09_re rn en))); [apply c09_items_enum; exact Hen|reflexivity|]. intros g [_ K]. exact (proj1 (K en Hen eq_refl)).
      * apply in_flat_map in He as (v & Hv & He). destruct v as [vsh|t vsh|fs vsh]; [destruct He|destruct He|]. destruct He as [<-|[]].
        apply (Hdef (ItEnum (c09_re rn en))); [apply c09_items_enum; exact Hen|reflexivity|]. intros g [_ K].
        exact (proj2 (K en Hen eq_refl) Hdefines fs vsh Hv).
    + apply (Hdef (ItAlias (c09_ra rn a))); [apply c09_items_alias; exact Ha|reflexivity|]. intros g [_ K]. exact (K a Ha eq_refl).
  - intros n Hn. unfold c09_observe in Hn. cbn [c9_defs] in Hn. apply in_map_iff in Hn as (d & <- & Hd). apply filter_In in Hd as [Hd Hdef'].
    exact (proj1 (Hall d Hd) Hdef').
  - intros r Hr. unfold c09_observe in Hr. cbn [c9_refs] in Hr. apply in_flat_map in Hr as (d & Hd & Hr). exact (proj2 (Hall d Hd) r Hr).
Qed.
End Prog.
