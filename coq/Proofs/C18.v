(* C18: I54/U53 hold exactly the JavaScript-safe integers. *)
From Coq Require Import ZArith Bool Lia Reals Lra ZifyBool.
From Flocq Require Import Core.Core IEEE754.BinarySingleNaN.
From TS Require Import Model.Str Model.Integer Spec.JsSafe.
Local Open Scope Z_scope.

Lemma consts : U53_MAX = 2^53 - 1 /\ I54_MAX = 2^53 - 1 /\ I54_MIN = -(2^53 - 1).
Proof. repeat split; reflexivity. Qed.

(* ---- range: accepted exactly on the safe range, value unchanged, never truncated ---- *)
Theorem u53_range v : u53_try_from v = (if js_safe_unsigned v then Some v else None).
Proof.
  unfold u53_try_from, js_safe_unsigned. change U53_MAX with (2^53 - 1).
  destruct ((0 <=? v) && (v <=? 2^53 - 1)); reflexivity.
Qed.
Theorem i54_range v : i54_try_from v = (if js_safe v then Some v else None).
Proof.
  unfold i54_try_from, js_safe. change I54_MIN with (-(2^53 - 1)). change I54_MAX with (2^53 - 1).
  destruct ((-(2^53 - 1) <=? v) && (v <=? 2^53 - 1)); reflexivity.
Qed.

(* ---- back to the wide integer ---- *)
Theorem u53_into_back v x : u53_try_from v = Some x -> u53_into_u64 x = v /\ u53_try_from (u53_into_u64 x) = Some x.
Proof. rewrite u53_range. destruct (js_safe_unsigned v) eqn:E; intros [= <-]. unfold u53_into_u64. rewrite u53_range, E. auto. Qed.
Theorem i54_into_back v x : i54_try_from v = Some x -> i54_into_i64 x = v /\ i54_try_from (i54_into_i64 x) = Some x.
Proof. rewrite i54_range. destruct (js_safe v) eqn:E; intros [= <-]. unfold i54_into_i64. rewrite i54_range, E. auto. Qed.

(* ---- narrow types: widening always lands in range; narrowing succeeds exactly when the value
        fits, and the `as` cast then changes nothing ---- *)
Lemma wrap_unsigned_id bits x : 0 <= x < 2^bits -> wrap_unsigned bits x = x.
Proof. intros H. unfold wrap_unsigned. now apply Z.mod_small. Qed.

Lemma wrap_signed_id bits x : 0 < bits -> -(2^(bits-1)) <= x < 2^(bits-1) -> wrap_signed bits x = x.
Proof.
  intros Hb H. unfold wrap_signed.
  assert (Hp : 2^bits = 2 * 2^(bits-1)).
  { replace bits with (Z.succ (bits - 1)) at 1 by lia. rewrite Z.pow_succ_r by lia. reflexivity. }
  assert (Hpos : 0 < 2^(bits-1)) by (apply Z.pow_pos_nonneg; lia).
  destruct (Z_lt_le_dec x 0) as [Hn|Hn].
  - assert (Hm : x mod 2^bits = x + 2^bits).
    { symmetry. apply Z.mod_unique_pos with (q := -1); lia. }
    rewrite Hm. destruct (x + 2^bits <? 2^(bits-1)) eqn:E; lia.
  - rewrite Z.mod_small by lia. destruct (x <? 2^(bits-1)) eqn:E; lia.
Qed.

Theorem narrow_unsigned_spec bits x : 0 < bits ->
  narrow_unsigned bits x = (if (0 <=? x) && (x <=? 2^bits - 1) then Some x else None).
Proof.
  intros Hb. unfold narrow_unsigned.
  destruct ((x <? 0) || (x >? 2^bits - 1)) eqn:E; destruct ((0 <=? x) && (x <=? 2^bits - 1)) eqn:F; try lia; auto.
  f_equal. apply wrap_unsigned_id. lia.
Qed.
Theorem narrow_signed_spec bits x : 0 < bits ->
  narrow_signed bits x = (if (-(2^(bits-1)) <=? x) && (x <=? 2^(bits-1) - 1) then Some x else None).
Proof.
  intros Hb. unfold narrow_signed.
  destruct ((x <? -(2^(bits-1))) || (x >? 2^(bits-1) - 1)) eqn:E;
  destruct ((-(2^(bits-1)) <=? x) && (x <=? 2^(bits-1) - 1)) eqn:F; try lia; auto.
  f_equal. apply wrap_signed_id; lia.
Qed.

Theorem widen_u_accepted bits v : 0 < bits <= 32 -> 0 <= v < 2^bits ->
  u53_try_from (widen v) = Some v /\ narrow_unsigned bits (widen v) = Some v.
Proof.
  intros Hb Hv. unfold widen.
  assert (2^bits <= 2^32) by (apply Z.pow_le_mono_r; lia).
  split.
  - rewrite u53_range. unfold js_safe_unsigned.
    assert ((0 <=? v) && (v <=? 2^53 - 1) = true) as -> by (change (2^32) with 4294967296 in *; change (2^53) with 9007199254740992; lia). reflexivity.
  - rewrite narrow_unsigned_spec by lia.
    assert ((0 <=? v) && (v <=? 2^bits - 1) = true) as -> by lia. reflexivity.
Qed.
Theorem widen_s_accepted bits v : 0 < bits <= 32 -> -(2^(bits-1)) <= v < 2^(bits-1) ->
  i54_try_from (widen v) = Some v /\ narrow_signed bits (widen v) = Some v.
Proof.
  intros Hb Hv. unfold widen.
  assert (2^(bits-1) <= 2^31) by (apply Z.pow_le_mono_r; lia).
  split.
  - rewrite i54_range. unfold js_safe.
    assert ((-(2^53 - 1) <=? v) && (v <=? 2^53 - 1) = true) as -> by (change (2^31) with 2147483648 in *; change (2^53) with 9007199254740992; lia). reflexivity.
  - rewrite narrow_signed_spec by lia.
    assert ((-(2^(bits-1)) <=? v) && (v <=? 2^(bits-1) - 1) = true) as -> by lia. reflexivity.
Qed.

Theorem usize_saturated ptr_bits x : 0 < ptr_bits <= 64 -> 0 <= x ->
  usize_from_u53_saturated ptr_bits x = Z.min x (2^ptr_bits - 1).
Proof.
  intros Hb Hx. unfold usize_from_u53_saturated.
  assert (Hp : 0 < 2^ptr_bits) by (apply Z.pow_pos_nonneg; lia).
  assert (Hle : 2^ptr_bits <= 2^64) by (apply Z.pow_le_mono_r; lia).
  rewrite (wrap_unsigned_id 64) by lia.
  apply wrap_unsigned_id. lia.
Qed.

(* ---- serde ---- *)
Lemma pow63 : 2^63 = 9223372036854775808. Proof. reflexivity. Qed.
Lemma pow64 : 2^64 = 18446744073709551616. Proof. reflexivity. Qed.
Lemma pow53 : 2^53 = 9007199254740992. Proof. reflexivity. Qed.

Theorem u53_serde_roundtrip x : js_safe_unsigned x = true -> deser_u53 (ser_int x) = Some x.
Proof.
  unfold js_safe_unsigned. rewrite pow53. intros H.
  unfold deser_u53, deser_u64, classify, ser_int; cbn [j_float j_neg j_int].
  assert (x <? 0 = false) as -> by lia. rewrite Z.abs_eq by lia. rewrite pow64.
  assert (x <? 18446744073709551616 = true) as -> by lia.
  rewrite u53_range. unfold js_safe_unsigned. rewrite pow53.
  assert ((0 <=? x) && (x <=? 9007199254740992 - 1) = true) as -> by lia. reflexivity.
Qed.
Theorem i54_serde_roundtrip x : js_safe x = true -> deser_i54 (ser_int x) = Some x.
Proof.
  unfold js_safe. rewrite pow53. intros H.
  unfold deser_i54, deser_i64, classify, ser_int; cbn [j_float j_neg j_int].
  rewrite pow63, pow64.
  destruct (x <? 0) eqn:En.
  - rewrite Z.abs_neq by lia.
    assert (- x =? 0 = false) as -> by lia.
    assert (- x <=? 9223372036854775808 = true) as -> by lia.
    rewrite Z.opp_involutive, i54_range. unfold js_safe. rewrite pow53.
    assert ((- (9007199254740992 - 1) <=? x) && (x <=? 9007199254740992 - 1) = true) as -> by lia. reflexivity.
  - rewrite Z.abs_eq by lia.
    assert (x <? 18446744073709551616 = true) as -> by lia.
    assert (x <? 9223372036854775808 = true) as -> by lia.
    rewrite i54_range. unfold js_safe. rewrite pow53.
    assert ((- (9007199254740992 - 1) <=? x) && (x <=? 9007199254740992 - 1) = true) as -> by lia. reflexivity.
Qed.

(* the mathematical value a literal denotes when it is an integer literal *)
Definition lit_value (l:jlit) : Z := if j_neg l then - j_int l else j_int l.

(* deserialisation never truncates: whatever is accepted is the literal's own value and is safe;
   an integer literal outside the safe range, and every float literal, is rejected *)
Theorem u53_deser_sound l x : 0 <= j_int l -> deser_u53 l = Some x ->
  j_float l = false /\ x = lit_value l /\ js_safe_unsigned x = true.
Proof.
  intros Hn. unfold deser_u53, deser_u64, classify, lit_value.
  destruct (j_float l); [discriminate|].
  destruct (j_neg l).
  - destruct (j_int l =? 0); [discriminate|]. destruct (j_int l <=? 2^63); discriminate.
  - destruct (j_int l <? 2^64); [|discriminate].
    rewrite u53_range. destruct (js_safe_unsigned (j_int l)) eqn:E; [|discriminate].
    intros [= <-]. auto.
Qed.
Theorem i54_deser_sound l x : 0 <= j_int l -> deser_i54 l = Some x ->
  j_float l = false /\ x = lit_value l /\ js_safe x = true.
Proof.
  intros Hn. unfold deser_i54, deser_i64, classify, lit_value.
  destruct (j_float l); [discriminate|].
  destruct (j_neg l).
  - destruct (j_int l =? 0); [discriminate|]. destruct (j_int l <=? 2^63); [|discriminate].
    rewrite i54_range. destruct (js_safe (- j_int l)) eqn:E; [|discriminate]. intros [= <-]. auto.
  - destruct (j_int l <? 2^64); [|discriminate].
    destruct (j_int l <? 2^63); [|discriminate].
    rewrite i54_range. destruct (js_safe (j_int l)) eqn:E; [|discriminate]. intros [= <-]. auto.
Qed.
Theorem u53_deser_complete l : j_float l = false -> j_neg l = false -> js_safe_unsigned (j_int l) = true ->
  deser_u53 l = Some (j_int l).
Proof.
  intros Hf Hneg Hs. unfold deser_u53, deser_u64, classify. rewrite Hf, Hneg.
  unfold js_safe_unsigned in Hs. rewrite pow53 in Hs. rewrite pow64.
  assert (j_int l <? 18446744073709551616 = true) as -> by lia.
  rewrite u53_range. unfold js_safe_unsigned. rewrite pow53.
  assert ((0 <=? j_int l) && (j_int l <=? 9007199254740992 - 1) = true) as -> by lia. reflexivity.
Qed.

(* ---- order / equality agree with the integers ---- *)
Theorem order_agrees a b : int_cmp a b = Z.compare a b /\ int_eqb a b = Z.eqb a b.
Proof. split; reflexivity. Qed.

(* ---- IEEE-754 binary64 ---- *)
Theorem of_Z_exact z : Z.abs z < 2^53 -> B2R (of_Z z) = IZR z /\ is_finite (of_Z z) = true.
Proof.
  intros Hz.
  pose proof (binary_normalize_correct prec emax Hprec Hmax mode_NE z 0 false) as H.
  cbv zeta in H.
  assert (Hx : @F2R radix2 {| Fnum := z; Fexp := 0 |} = IZR z :> R).
  { unfold F2R; simpl. lra. }
  rewrite Hx in H.
  assert (Hg : generic_format radix2 (SpecFloat.fexp prec emax) (IZR z)).
  { apply generic_format_FLT.
      apply FLT_spec with (f := Float radix2 z 0).
      + symmetry; exact Hx.
      + simpl Fnum. unfold prec. change (radix2 ^ 53) with (2^53). lia.
      + unfold SpecFloat.emin, emax, prec; simpl; lia. }
  rewrite round_generic in H; auto with typeclass_instances.
  assert (Hlt : Rlt_bool (Rabs (IZR z)) (bpow radix2 emax) = true).
  { apply Rlt_bool_true. rewrite <- abs_IZR.
    apply Rlt_trans with (IZR (2^53)). now apply IZR_lt.
    change (IZR (2^53)) with (bpow radix2 53). apply bpow_lt. unfold emax; lia. }
  rewrite Hlt in H. destruct H as (H1 & H2 & _). split; assumption.
Qed.

Theorem safe_through_double z : js_safe z = true -> B2R (of_Z z) = IZR z /\ is_finite (of_Z z) = true.
Proof. unfold js_safe. rewrite pow53. intros H. apply of_Z_exact. rewrite pow53. lia. Qed.

(* distinct safe integers stay distinct as doubles *)
Theorem safe_double_injective a b : js_safe a = true -> js_safe b = true -> of_Z a = of_Z b -> a = b.
Proof.
  intros Ha Hb E. apply safe_through_double in Ha as [Ha _]. apply safe_through_double in Hb as [Hb _].
  rewrite E in Ha. rewrite Ha in Hb. now apply eq_IZR.
Qed.

(* tightness: just above the range two different integers collapse to the same double *)
Theorem unsafe_collapses : B2SF (of_Z (2^53 + 1)) = B2SF (of_Z (2^53)) /\ js_safe (2^53) = false /\ js_safe (2^53 - 1) = true
  /\ js_safe (-(2^53 - 1)) = true /\ js_safe (-(2^53)) = false.
Proof. repeat split; vm_compute; reflexivity. Qed.

Example C18_nonvacuous :
  u53_try_from 9007199254740991 = Some 9007199254740991 /\ u53_try_from 9007199254740992 = None /\
  i54_try_from (-9007199254740991) = Some (-9007199254740991) /\ i54_try_from (-9007199254740992) = None /\
  deser_i54 {| j_neg := true; j_int := 0; j_float := false |} = None /\
  narrow_unsigned 8 300 = None /\ narrow_signed 8 (-128) = Some (-128).
Proof. vm_compute. repeat split. Qed.
