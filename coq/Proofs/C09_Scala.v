(* C09 for Scala: no prefix, no topsort, consts never written.  Definitions: id.renamed, except
   `type` aliases (id.original); references: every mentioned id verbatim; `extends` names id.renamed
   for a unit enum and id.original for an algebraic one; the ...Inner helper is defined from
   id.renamed and referred to from id.original (the table of Spec/C09Spec.v). *)
From Coq Require Import List Bool String Permutation.
From TS Require Import Model.Str Model.Outcome Model.Unicode Model.Types Model.Parse Model.Reconcile Model.TopsortAlgo Model.Topsort
                       Model.Lang.Common Model.Lang.Decl Model.Lang.Scala Spec.C09Spec.
From TS Require Import Proofs.C09Common Proofs.C09Recon Proofs.C09Refs Proofs.C09Lang Proofs.C09_Kotlin.
Import ListNotations.
Local Notation length := List.length (only parsing).

Local Notation sc_names_ok x t :=
  (forall n, In n (texp_names x) -> c09_builtin Scala n = true \/ exists form i, In (form, i) (c09_type_ids t) /\ n = i).

Section SCN.
Variable cfg : sc_config.

Lemma sc_texp_names gs t : forall x, sc_texp cfg gs t = Ok x -> sc_names_ok x t.
Proof.
  induction t using rtype_ind'; intros x Hx nm Hn; cbn [sc_texp] in Hx.
  - injection Hx as <-. destruct (tmap_get (sc_type_mappings cfg) id); cbn [texp_names flat_map] in Hn; [destruct Hn|]. destruct Hn as [<-|[]].
    right. exists C9Simple, id. split; [left; reflexivity|reflexivity].
  - destruct (tmap_get (sc_type_mappings cfg) id); [injection Hx as <-; destruct Hn|].
    match type of Hx with context [bind ?m _] => destruct m as [ys| |] eqn:E end; cbn [bind] in Hx; try discriminate.
    injection Hx as <-. apply c09_go_Forall2 in E. cbn [texp_names] in Hn. destruct Hn as [<-|Hn].
    + right. exists C9Generic, id. split; [left; reflexivity|reflexivity].
    + apply in_flat_map in Hn as (y & Hy & Hn). destruct (c09_Forall2_in_r _ _ _ _ E Hy) as (p & Hp & Ep).
      rewrite Forall_forall in H. destruct (H p Hp y Ep nm Hn) as [B|(form & i & Hi & ->)]; [left; exact B|].
      right. exists form, i. split; [|reflexivity]. cbn [c09_type_ids]. right. apply in_flat_map. exists p. split; assumption.
  - destruct (sc_texp cfg gs t) as [e| |] eqn:E; cbn [bind] in Hx; try discriminate. injection Hx as <-.
    cbn [texp_names flat_map] in Hn. rewrite app_nil_r in Hn. destruct Hn as [<-|Hn]; [left; reflexivity|]. exact (IHt e eq_refl nm Hn).
  - destruct (sc_texp cfg gs t) as [e| |] eqn:E; cbn [bind] in Hx; try discriminate. injection Hx as <-.
    cbn [texp_names flat_map] in Hn. rewrite app_nil_r in Hn. destruct Hn as [<-|Hn]; [left; reflexivity|]. exact (IHt e eq_refl nm Hn).
  - destruct (sc_texp cfg gs t) as [e| |] eqn:E; cbn [bind] in Hx; try discriminate. injection Hx as <-.
    cbn [texp_names flat_map] in Hn. rewrite app_nil_r in Hn. destruct Hn as [<-|Hn]; [left; reflexivity|]. exact (IHt e eq_refl nm Hn).
  - destruct (sc_texp cfg gs t1) as [ks| |] eqn:E1; cbn [bind] in Hx; try discriminate.
    destruct (sc_texp cfg gs t2) as [vs| |] eqn:E2; cbn [bind] in Hx; try discriminate. injection Hx as <-.
    cbn [texp_names flat_map] in Hn. rewrite app_nil_r in Hn. destruct Hn as [<-|Hn]; [left; reflexivity|].
    apply in_app_iff in Hn as [Hn|Hn].
    + destruct (IHt1 ks eq_refl nm Hn) as [B|(form & i & Hi & ->)]; [left; exact B|]. right. exists form, i. split; [cbn [c09_type_ids]; apply in_app_iff; auto|reflexivity].
    + destruct (IHt2 vs eq_refl nm Hn) as [B|(form & i & Hi & ->)]; [left; exact B|]. right. exists form, i. split; [cbn [c09_type_ids]; apply in_app_iff; auto|reflexivity].
  - destruct (sc_texp cfg gs t) as [e| |] eqn:E; cbn [bind] in Hx; try discriminate. injection Hx as <-.
    cbn [texp_names] in Hn. exact (IHt e eq_refl nm Hn).
  - left. destruct p; try discriminate; injection Hx as <-; destruct Hn as [<-|[]]; reflexivity.
Qed.

Lemma sc_names_strip m : texp_names (mb_type (sc_obs_member m)) = texp_names (scm_type m).
Proof. unfold sc_obs_member. cbn [mb_type]. destruct (scm_default m), (scm_type m); reflexivity. Qed.

Lemma sc_member_names gs f m : sc_member_of cfg gs f = Ok m -> sc_names_ok (mb_type (sc_obs_member m)) (fty f).
Proof.
  unfold sc_member_of. intros H n Hn. rewrite sc_names_strip in Hn.
  destruct (type_override f Scala); cbn [bind] in H.
  - injection H as <-. destruct Hn.
  - destruct (sc_texp cfg gs (fty f)) as [ty| |] eqn:E; cbn [bind] in H; try discriminate. injection H as <-.
    exact (sc_texp_names gs _ ty E n Hn).
Qed.
End SCN.

Section SCI.
Variable uc : unicode.
Variable cfg : sc_config.
Variable pd : parsed.
Hypothesis Hdom : dom_C09 Scala [] pd = true.
Let rn := c09_rn pd.
Let pd' := c09_reconciled pd.
Notation shape := (c09_ref_shape Scala [] pd).
Notation decl_ok := (c09_decl_ok pd Scala []).
Notation ownercond := (c09_ownercond pd Scala []).
Notation defname := (c09_def_name Scala []).
Notation has_def := (c09_has_def Scala []).

Lemma sc_refs tp owner x :
  In tp (c09_tposs pd) -> sc_names_ok x (c09_recon_type pd tp) -> ownercond tp owner ->
  forall r, In r (c09_type_refs Scala owner (c9t_pos tp) x) -> shape r.
Proof. intros Htp Hn Hown. eapply (c09_names_refs_plain pd Scala [] Hdom); eauto. Qed.

(* write_struct: a source struct or the helper class of a struct variant *)
Lemma sc_class_shape s' d owner (mk : rfield -> c09_tpos) fs :
  sc_class_of cfg s' = Ok d -> sfields s' = map (check_field [] rn []) fs -> owner = renamed (sid s') ->
  (forall f, In f fs -> In (mk f) (c09_tposs pd) /\ c9t_pos (mk f) = C9Field /\ c9t_type (mk f) = fty f /\ ownercond (mk f) owner) ->
  exists d1, sc_obs d = [d1] /\ d_name d1 = owner /\ c09_is_def d1 = true /\ forall r, In r (c09_decl_refs Scala d1) -> shape r.
Proof.
  unfold sc_class_of. intros Hd Hfs -> Hmk. destruct (sfields s') as [|f0 fs0] eqn:Efs.
  - injection Hd as <-. eexists. split; [reflexivity|]. cbn. repeat split. intros r [].
  - rewrite <- Efs in *.
    match type of Hd with context [mapM ?f ?l] => destruct (mapM f l) as [ms| |] eqn:E end; cbn [bind] in Hd; try discriminate.
    injection Hd as <-. eexists. split; [reflexivity|]. cbn [d_name]. repeat split.
    intros r Hr. unfold c09_decl_refs in Hr. cbn [d_kind d_name d_members d_variants flat_map] in Hr. rewrite app_nil_r in Hr.
    apply in_flat_map in Hr as (m' & Hm' & Hr). apply in_map_iff in Hm' as (m & <- & Hm).
    apply c09_mapM_Forall2 in E. rewrite Hfs in E. destruct (c09_Forall2_in_r _ _ _ _ E Hm) as (f' & Hf' & Em).
    apply in_map_iff in Hf' as (f & <- & Hf). destruct (Hmk f Hf) as (Htp & Hpos & Hty & Hown).
    rewrite <- Hpos in Hr. eapply sc_refs; [exact Htp| |exact Hown|exact Hr].
    unfold c09_recon_type. rewrite Hty. exact (sc_member_names cfg _ _ _ Em).
Qed.

Lemma sc_has_def_1 g d en : In d g -> c09_is_def d = true -> d_name d = defname en -> has_def g en.
Proof. intros. exists d. auto. Qed.

Lemma sc_item it' ds : In it' (items_of pd') -> sc_decl_of cfg it' = Ok ds ->
  c09_item_ok pd Scala [] it' (flat_map sc_obs ds).
Proof.
  intros Hit Hd. destruct (c09_items_cases pd Scala [] Hdom it' Hit) as [(a & Ha & ->)|[(s & Hs & ->)|[(e & He & ->)|(c & Hc & ->)]]];
    cbn [sc_decl_of] in Hd.
  - (* alias: declared under id.original *)
    cbn [c09_ra agenerics atype acomments aid] in Hd.
    match type of Hd with context [bind ?m _] => destruct m as [ty| |] eqn:E end; cbn [bind] in Hd; try discriminate. injection Hd as <-.
    assert (Hn : defname (c09_ent_alias a) = original (aid a)) by (unfold c09_def_name; cbn; apply app_nil_r).
    cbn [flat_map sc_obs app]. split.
    + intros d [<-|[]]. split.
      * intros _. exists (c09_ent_alias a). split; [apply c09_in_alias; exact Ha|]. rewrite Hn. reflexivity.
      * intros r Hr. unfold c09_decl_refs in Hr. cbn [d_kind d_name d_type] in Hr.
        eapply (sc_refs {| c9t_owner := aid a; c9t_generics := agenerics a; c9t_pos := C9Alias; c9t_type := atype a |}); [apply c09_tp_alias; exact Ha| | |exact Hr].
        -- exact (sc_texp_names cfg _ _ _ E).
        -- right. exists (c09_ent_alias a). split; [apply c09_in_alias; exact Ha|]. split; [rewrite Hn; reflexivity|reflexivity].
    + intros a0 Ha0 Ea. eexists. split; [left; reflexivity|]. split; [reflexivity|]. cbn [d_name].
      assert (aid a0 = aid a) as <- by (apply (f_equal aid) in Ea; cbn in Ea; congruence).
      unfold c09_def_name. cbn. symmetry. apply app_nil_r.
  - (* struct *)
    match type of Hd with context [bind ?m _] => destruct m as [d| |] eqn:E end; cbn [bind] in Hd; try discriminate. injection Hd as <-.
    assert (Hn : defname (c09_ent_struct s) = renamed (sid s)) by (unfold c09_def_name; cbn; apply app_nil_r).
    destruct (sc_class_shape (c09_rs rn s) d (renamed (sid s))
                (fun f => {| c9t_owner := sid s; c9t_generics := sgenerics s; c9t_pos := C9Field; c9t_type := fty f |}) (sfields s) E eq_refl eq_refl)
      as (d1 & Hobs & Hname & Hdef & Hrefs).
    { intros f Hf. split; [apply c09_tp_struct; assumption|]. repeat split.
      right. exists (c09_ent_struct s). split; [apply c09_in_struct; exact Hs|]. split; [rewrite Hn; reflexivity|reflexivity]. }
    cbn [flat_map]. rewrite Hobs. cbn [app]. split.
    + intros d0 [<-|[]]. split; [|exact Hrefs]. intros _. exists (c09_ent_struct s). split; [apply c09_in_struct; exact Hs|]. rewrite Hn. exact Hname.
    + intros s0 Hs0 Es. apply (sc_has_def_1 _ d1); [left; reflexivity|exact Hdef|]. rewrite Hname.
      assert (sid s0 = sid s) as <- by (apply (f_equal sid) in Es; cbn in Es; congruence).
      unfold c09_def_name. cbn. symmetry. apply app_nil_r.
  - (* enum: helper classes, then the trait *)
    destruct (c09_sh_recon pd e) as (Hid & Hgs & Hvs). fold rn in Hid, Hgs, Hvs.
    set (j := c09_ent_enum e).
    assert (Hj : In j (c09_entities pd)) by (apply c09_in_enum; exact He).
    assert (Hnj : defname j = renamed (eid (enum_shared e))) by (unfold c09_def_name; destruct e; cbn; apply app_nil_r).
    cbv zeta in Hd.
    match type of Hd with context [bind ?m _] => destruct m as [inner| |] eqn:Ei end; cbn [bind] in Hd; try discriminate.
    match type of Hd with context [bind ?m _] => destruct m as [vs| |] eqn:Ev end; cbn [bind] in Hd; try discriminate. injection Hd as <-.
    fold rn in Ei, Ev |- *.
    (* the helper classes *)
    unfold sc_inner_decls_of in Ei.
    match type of Ei with context [mapM ?f ?l] => destruct (mapM f l) as [dss| |] eqn:Em end; cbn [bind] in Ei; try discriminate.
    injection Ei as <-. apply c09_mapM_Forall2 in Em. rewrite Hvs, Hid in Em.
    assert (Hinner : forall fs vsh d, In (VAnon fs vsh) (evariants (enum_shared e)) ->
              sc_class_of cfg (anon_struct (enum_shared (c09_re rn e)) (renamed (eid (enum_shared e)) ++ original (vid vsh) ++ lit "Inner")
                                 (original (vid vsh)) (map (check_field [] rn []) fs)) = Ok d ->
              exists d1, sc_obs d = [d1] /\ d_name d1 = defname (c09_ent_inner e vsh) /\ c09_is_def d1 = true /\
                         forall r, In r (c09_decl_refs Scala d1) -> shape r).
    { intros fs vsh d Hv Ec.
      eapply (sc_class_shape _ d _ (fun f => {| c9t_owner := eid (enum_shared e); c9t_generics := egenerics (enum_shared e); c9t_pos := C9Field; c9t_type := fty f |}) fs Ec);
        [reflexivity|reflexivity|].
      intros f Hf. split; [apply (c09_tp_anon pd e fs vsh f He Hv Hf)|]. repeat split.
      right. exists (c09_ent_inner e vsh). split; [eapply c09_in_inner; eassumption|]. split; reflexivity. }
    assert (Hanon : forall d, In d (List.concat dss) -> exists fs vsh, In (VAnon fs vsh) (evariants (enum_shared e)) /\
              sc_class_of cfg (anon_struct (enum_shared (c09_re rn e)) (renamed (eid (enum_shared e)) ++ original (vid vsh) ++ lit "Inner")
                                 (original (vid vsh)) (map (check_field [] rn []) fs)) = Ok d).
    { intros d Hd. apply in_concat in Hd as (l & Hl & Hd). destruct (c09_Forall2_in_r _ _ _ _ Em Hl) as (v' & Hv' & Ev').
      apply in_map_iff in Hv' as (v & <- & Hv). destruct v as [sh|t sh|fs sh]; cbn [check_variant] in Ev'.
      - injection Ev' as <-. destruct Hd.
      - injection Ev' as <-. destruct Hd.
      - match type of Ev' with context [bind ?m _] => destruct m as [d1| |] eqn:E1 end; cbn [bind] in Ev'; try discriminate.
        injection Ev' as <-. destruct Hd as [<-|[]]. exists fs, sh. split; [exact Hv|exact E1]. }
    assert (Hanon' : forall fs vsh, In (VAnon fs vsh) (evariants (enum_shared e)) -> exists d, In d (List.concat dss) /\
              sc_class_of cfg (anon_struct (enum_shared (c09_re rn e)) (renamed (eid (enum_shared e)) ++ original (vid vsh) ++ lit "Inner")
                                 (original (vid vsh)) (map (check_field [] rn []) fs)) = Ok d).
    { intros fs vsh Hv. assert (In (check_variant [] rn [] (VAnon fs vsh)) (map (check_variant [] rn []) (evariants (enum_shared e)))) as Hv' by (apply in_map; exact Hv).
      destruct (c09_Forall2_in_l _ _ _ _ Em Hv') as (l & Hl & Ev'). cbn [check_variant] in Ev'.
      match type of Ev' with context [bind ?m _] => destruct m as [d1| |] eqn:E1 end; cbn [bind] in Ev'; try discriminate.
      injection Ev' as <-. exists d1. split; [|reflexivity]. apply in_concat. exists (d1 :: nil). split; [exact Hl|left; reflexivity]. }
    (* the trait and its companion object *)
    set (dE := SCEnum (ecomments (enum_shared (c09_re rn e))) (renamed (eid (enum_shared (c09_re rn e)))) (egenerics (enum_shared (c09_re rn e))) vs).
    assert (Hself : exists d1, sc_obs dE = [d1] /\ d_name d1 = defname j /\ c09_is_def d1 = true /\ forall r, In r (c09_decl_refs Scala d1) -> shape r).
    { eexists. split; [reflexivity|]. cbn [d_name]. rewrite Hid, Hnj. repeat split.
      intros r Hr. unfold c09_decl_refs in Hr. cbn [d_kind d_name d_members d_variants flat_map app] in Hr.
      apply in_flat_map in Hr as (vd & Hvd & Hr). apply in_map_iff in Hvd as (sv & <- & Hsv).
      destruct e as [sh|tag content sh]; cbn [c09_re sc_variants_of enum_shared] in *.
      - (* unit enum: extends id.renamed *)
        apply c09_mapM_Forall2 in Ev. destruct (c09_Forall2_in_r _ _ _ _ Ev Hsv) as (v' & Hv' & Ev'). injection Ev' as <-.
        cbn [sc_obs_variant vd_parent vd_payload scv_parent scv_payload] in Hr. rewrite app_nil_r in Hr. destruct Hr as [<-|[]].
        eapply C9S_parent with (j := j) (w := C9Ren); cbn [c9_in c9_pos c9_name]; try assumption; try reflexivity.
        + rewrite Hnj. reflexivity.
        + cbn. rewrite app_nil_r. reflexivity.
      - (* algebraic enum: extends id.original *)
        apply c09_mapM_Forall2 in Ev. cbn [check_eshared evariants] in Ev.
        destruct (c09_Forall2_in_r _ _ _ _ Ev Hsv) as (v' & Hv' & Ev'). apply in_map_iff in Hv' as (v & <- & Hv).
        unfold sc_variant_of_algebraic in Ev'. cbn [check_eshared eid egenerics] in Ev'.
        match type of Ev' with context [bind ?m _] => destruct m as [pl| |] eqn:Ep end; cbn [bind] in Ev'; try discriminate.
        injection Ev' as <-. cbn [sc_obs_variant vd_parent vd_payload scv_parent scv_payload] in Hr.
        apply in_app_iff in Hr as [Hr|Hr].
        + destruct Hr as [<-|[]].
          eapply C9S_parent with (j := j) (w := C9Orig); cbn [c9_in c9_pos c9_name]; try assumption; try reflexivity.
          * rewrite Hnj. reflexivity.
          * cbn. rewrite app_nil_r. reflexivity.
        + destruct v as [vsh|t vsh|fs vsh]; cbn [check_variant] in Ep.
          * injection Ep as <-. destruct Hr.
          * match type of Ep with context [bind ?m _] => destruct m as [ty| |] eqn:Et end; cbn [bind] in Ep; try discriminate.
            injection Ep as <-.
            assert (Hr' : In r (c09_type_refs Scala (renamed (eid sh)) C9Payload ty)) by (destruct ty; exact Hr).
            eapply (sc_refs {| c9t_owner := eid sh; c9t_generics := egenerics sh; c9t_pos := C9Payload; c9t_type := t |});
              [apply (c09_tp_tuple pd (EAlgebraic tag content sh) t vsh He Hv)| | |exact Hr'].
            -- exact (sc_texp_names cfg _ _ _ Et).
            -- right. exists j. split; [exact Hj|]. split; [rewrite Hnj; reflexivity|reflexivity].
          * injection Ep as <-. destruct Hr as [<-|Hr].
            -- eapply C9S_inner with (i := c09_ent_inner (EAlgebraic tag content sh) vsh); cbn [c9_in c9_pos c9_name]; try reflexivity.
               eapply c09_in_inner; [exact He|exact Hv].
            -- apply in_map_iff in Hr as (g & <- & Hg).
               eapply C9S_generic with (j := j); cbn [c9_in c9_pos c9_name]; try assumption; try discriminate.
               ++ rewrite Hnj. reflexivity.
               ++ unfold anon_struct_generics in Hg. apply c09_unique_strs_in in Hg as [Hg _]. apply in_flat_map in Hg as (f0 & _ & Hg).
                  apply filter_In in Hg as [Hg _]. exact Hg. }
    destruct Hself as (dS & HobsS & HnameS & HdefS & HrefsS).
    assert (Hg : forall d, In d (flat_map sc_obs (List.concat dss ++ [dE])) <->
                (exists d0 fs vsh, In d0 (List.concat dss) /\ In (VAnon fs vsh) (evariants (enum_shared e)) /\ sc_obs d0 = [d] /\
                                   d_name d = defname (c09_ent_inner e vsh) /\ c09_is_def d = true /\ forall r, In r (c09_decl_refs Scala d) -> shape r) \/ d = dS).
    { intros d. rewrite in_flat_map. split.
      - intros (d0 & Hd0 & Hd). apply in_app_iff in Hd0 as [Hd0|[<-|[]]].
        + left. destruct (Hanon d0 Hd0) as (fs & vsh & Hv & Ec). destruct (Hinner fs vsh d0 Hv Ec) as (d1 & Ho & A & B & C).
          rewrite Ho in Hd. destruct Hd as [<-|[]]. exists d0, fs, vsh. auto 10.
        + right. rewrite HobsS in Hd. destruct Hd as [<-|[]]. reflexivity.
      - intros [(d0 & fs & vsh & Hd0 & _ & Ho & _)| ->].
        + exists d0. split; [apply in_or_app; left; exact Hd0|rewrite Ho; left; reflexivity].
        + exists dE. split; [apply in_or_app; right; left; reflexivity|rewrite HobsS; left; reflexivity]. }
    split.
    + intros d Hd. apply Hg in Hd as [(d0 & fs & vsh & Hd0 & Hv & Ho & A & B & C)| ->].
      * split; [|exact C]. intros _. exists (c09_ent_inner e vsh). split; [eapply c09_in_inner; eassumption|exact A].
      * split; [|exact HrefsS]. intros _. exists j. split; [exact Hj|exact HnameS].
    + intros e0 He0 Ee.
      assert (eid (enum_shared e0) = eid (enum_shared e) /\ egenerics (enum_shared e0) = egenerics (enum_shared e) /\ c09_enum_kind e0 = c09_enum_kind e) as (Ei0 & Eg0 & Ek0).
      { pose proof (f_equal (fun x => eid (enum_shared x)) Ee) as A. pose proof (f_equal (fun x => egenerics (enum_shared x)) Ee) as B.
        pose proof (f_equal c09_enum_kind Ee) as C. destruct e, e0; cbn in A, B, C |- *; try discriminate; repeat split; congruence. }
      split.
      * apply (sc_has_def_1 _ dS); [apply Hg; right; reflexivity|exact HdefS|]. rewrite HnameS. unfold j, c09_ent_enum. rewrite Ei0, Eg0, Ek0. reflexivity.
      * intros _ fs vsh Hv0.
        assert (evariants (enum_shared (c09_re rn e)) = map (check_variant [] rn []) (evariants (enum_shared e0))) as Hv1eq.
        { destruct (c09_sh_recon pd e0) as (_ & _ & A). transitivity (evariants (enum_shared (c09_re rn e0))); [f_equal; f_equal; exact Ee|exact A]. }
        assert (In (check_variant [] rn [] (VAnon fs vsh)) (map (check_variant [] rn []) (evariants (enum_shared e)))) as Hv1.
        { rewrite <- Hvs, Hv1eq. apply in_map. exact Hv0. }
        apply in_map_iff in Hv1 as (v & Ev1 & Hv1). destruct v as [?|? ?|fs1 vsh1]; try discriminate. injection Ev1 as Efs <-.
        destruct (Hanon' fs1 vsh1 Hv1) as (d0 & Hd0 & Ec). destruct (Hinner fs1 vsh1 d0 Hv1 Ec) as (d1 & Ho & A & B & C).
        apply (sc_has_def_1 _ d1); [apply Hg; left; exists d0, fs1, vsh1; auto 10|exact B|]. rewrite A.
        unfold c09_ent_inner. rewrite Ei0, Eg0. reflexivity.
  - discriminate.
Qed.

Theorem sc_shape fd : sc_file_decls uc cfg pd' = Ok fd -> c09_shape Scala [] pd (c09_observe Scala fd).
Proof.
  unfold sc_file_decls, sc_decls. intros H. cbv zeta in H.
  destruct (sc_begin_file cfg) as [hd| |]; cbn [bind] in H; try discriminate.
  destruct (mapM (sc_decl_of cfg) (map ItAlias (p_aliases pd'))) as [dA| |] eqn:EA; cbn [bind] in H; try discriminate.
  destruct (mapM (sc_decl_of cfg) (map ItStruct (p_structs pd'))) as [dS| |] eqn:ES; cbn [bind] in H; try discriminate.
  destruct (mapM (sc_decl_of cfg) (map ItEnum (p_enums pd'))) as [dE| |] eqn:EE; cbn [bind] in H; try discriminate.
  injection H as <-. apply c09_mapM_Forall2 in EA, ES, EE.
  pose proof (Forall2_app EA (Forall2_app ES EE)) as F.
  set (its := map ItAlias (p_aliases pd') ++ map ItStruct (p_structs pd') ++ map ItEnum (p_enums pd')) in F.
  set (dss := dA ++ dS ++ dE) in F.
  assert (Hits : forall it', In it' its <-> In it' (items_of pd') /\ c09_is_const it' = false).
  { intros it'. unfold its, items_of. rewrite !in_app_iff, !in_map_iff. split.
    - intros [(x & <- & Hx)|[(x & <- & Hx)|(x & <- & Hx)]]; (split; [|reflexivity]); eauto 8.
    - intros [[A|[A|[A|(c & <- & _)]]] C]; auto. discriminate. }
  apply (c09_shape_of_items pd Scala [] Hdom
           (fun it' g => exists ds, sc_decl_of cfg it' = Ok ds /\ g = flat_map sc_obs ds)
           (flat_map sc_obs (if sc_unsigned_integer_used pd' then [sc_unsigned_aliases] else []))
           (map (flat_map sc_obs) dss)); cbn [fd_decls].
  - intros d. rewrite !flat_map_app, !in_app_iff.
    assert (forall l, In d (flat_map sc_obs (List.concat l)) <-> exists g, In g (map (flat_map sc_obs) l) /\ In d g) as Hc.
    { intros l. rewrite in_flat_map. split.
      - intros (x & Hx & Hd). apply in_concat in Hx as (ds & Hds & Hx). exists (flat_map sc_obs ds). split; [apply in_map; exact Hds|apply in_flat_map; eauto].
      - intros (g & Hg & Hd). apply in_map_iff in Hg as (ds & <- & Hds). apply in_flat_map in Hd as (x & Hx & Hd). exists x. split; [apply in_concat; eauto|exact Hd]. }
    unfold dss. rewrite !Hc. split.
    + intros [[A|(g & Hg & Hd)]|[(g & Hg & Hd)|(g & Hg & Hd)]]; [left; exact A|right..]; exists g; (split; [|exact Hd]); rewrite !map_app, !in_app_iff; auto.
    + intros [A|(g & Hg & Hd)]; [left; left; exact A|]. rewrite !map_app, !in_app_iff in Hg. destruct Hg as [Hg|[Hg|Hg]]; [left; right|right; left|right; right]; eauto.
  - intros d Hd. destruct (sc_unsigned_integer_used pd'); [|destruct Hd]. cbn in Hd. repeat (destruct Hd as [<-|Hd]; [reflexivity|]). destruct Hd.
  - intros it' Hit Hc. assert (In it' its) as Hi by (apply Hits; auto). destruct (c09_Forall2_in_l _ _ _ _ F Hi) as (ds & Hds & E).
    exists (flat_map sc_obs ds). split; [apply in_map; exact Hds|eauto].
  - intros g Hg. apply in_map_iff in Hg as (ds & <- & Hds). destruct (c09_Forall2_in_r _ _ _ _ F Hds) as (it' & Hit & E).
    exists it'. split; [apply Hits; exact Hit|eauto].
  - intros it' g Hit (ds & E & ->). exact (sc_item it' ds Hit E).
Qed.

Theorem c09_scala (acrs : list str) fd :
  known_C09 Scala [] acrs pd = None -> sc_file_decls uc cfg pd' = Ok fd ->
  good_C09 Scala [] pd (c09_observe Scala fd) = true.
Proof. intros Hknown H. exact (c09_shape_good Scala [] acrs pd _ Hdom Hknown (sc_shape fd H)). Qed.
End SCI.

Theorem c09_scala_all (uc : unicode) (cfg : sc_config) (acrs : list str) (pd : parsed) :
  dom_C09 Scala [] pd = true -> known_C09 Scala [] acrs pd = None ->
  forall fd : file_decls, sc_file_decls uc cfg (c09_reconciled pd) = Ok fd ->
    good_C09 Scala [] pd (c09_observe Scala fd) = true.
Proof. intros Hd Hk fd H. exact (c09_scala uc cfg pd Hd acrs fd Hk H). Qed.
