(* C10, grammar half for Go, part 1b: semicolon insertion and the token stream the parser sees.
     - [endfl] / [semis_app]: [c10_go_semis] distributes over concatenation given the flag the left part ends with;
     - [TkS fl s ts]: s tokenises, and with semicolons inserted from flag fl (the end of the text counting as a line end)
       the parser's stream is ts;
     - [Seg fl a ta fl'] / [CSeg ...]: open / closed fragments of that stream: whatever follows (for an open fragment:
       whatever starts with a separator), the stream of a ++ b is ta followed by the stream of b from flag fl';
     - the holes: identifiers, quoted keys, raw-string tags, decimal numbers, comment lines, blanks; literal text by
       computation ([lit_cseg]). *)
From Coq Require Import List Bool Lia ZifyBool ZifyN NArith.
From TS Require Import Model.Str Spec.C10TsGrammar Spec.C10GoGrammar.
From TS Require Import Proofs.C10_TSGrammarTok Proofs.C10_GOGrammarTok.
From TS Require Proofs.C10Lex.
Import ListNotations.
Local Open Scope N_scope.
Local Notation length := List.length (only parsing).

Fixpoint endfl (fl : bool) (ts : list c10_gtok) : bool :=
  match ts with
  | [] => fl
  | QNl :: r => endfl false r
  | t :: r => endfl (c10_go_trigger t) r
  end.

Lemma semis_app a : forall fl b, c10_go_semis fl (a ++ b) = c10_go_semis fl a ++ c10_go_semis (endfl fl a) b.
Proof.
  induction a as [|t r IH]; intros fl b; [reflexivity|]. destruct t; cbn [app c10_go_semis endfl]; try (rewrite IH; reflexivity).
  destruct fl; rewrite IH; reflexivity.
Qed.
Lemma endfl_app a : forall fl b, endfl fl (a ++ b) = endfl (endfl fl a) b.
Proof. induction a as [|t r IH]; intros fl b; [reflexivity|]. destruct t; cbn [app endfl]; apply IH. Qed.

Definition TkS (fl : bool) (s : str) (ts : list c10_gtok) : Prop := exists tr, Tk s tr /\ c10_go_semis fl (tr ++ [QNl]) = ts.
Definition Seg (fl : bool) (a : str) (ta : list c10_gtok) (fl' : bool) : Prop :=
  forall b tb, gsepb b = true -> TkS fl' b tb -> TkS fl (a ++ b) (ta ++ tb).
Definition CSeg (fl : bool) (a : str) (ta : list c10_gtok) (fl' : bool) : Prop :=
  forall b tb, TkS fl' b tb -> TkS fl (a ++ b) (ta ++ tb).

Lemma tks_nil fl : TkS fl [] (if fl then [QP 59] else []).
Proof. exists []. split; [apply tk_nil|]. destruct fl; reflexivity. Qed.

(* what the recogniser runs *)
Lemma tks_run s ts : TkS false s ts -> c10_go_recognise s = c10_go_file ts.
Proof. intros (tr & Ht & <-). unfold c10_go_recognise. rewrite (tk_run _ _ Ht). reflexivity. Qed.

Lemma seg_of_raw fl a tr ta fl' : RFrag a tr -> c10_go_semis fl tr = ta -> endfl fl tr = fl' -> Seg fl a ta fl'.
Proof.
  intros Hr <- <- b tb Hs (trb & Hb & <-). exists (tr ++ trb). split; [exact (Hr b trb Hs Hb)|].
  rewrite <- app_assoc. apply semis_app.
Qed.
Lemma cseg_of_raw fl a tr ta fl' : RCFrag a tr -> c10_go_semis fl tr = ta -> endfl fl tr = fl' -> CSeg fl a ta fl'.
Proof.
  intros Hr <- <- b tb (trb & Hb & <-). exists (tr ++ trb). split; [exact (Hr b trb Hb)|].
  rewrite <- app_assoc. apply semis_app.
Qed.
Lemma cseg_compute fl a tr ta fl' :
  c10_go_tokens (S (List.length a)) a = Some tr -> lc_free a = true -> gclosedc (last a 32) = true ->
  c10_go_semis fl tr = ta -> endfl fl tr = fl' -> CSeg fl a ta fl'.
Proof. intros H L C. apply cseg_of_raw. exact (rcfrag_compute a tr H L C). Qed.

Ltac lit_cseg := eapply cseg_compute; vm_compute; reflexivity.

Lemma cseg_nil fl : CSeg fl [] [] fl.
Proof. intros b tb Hb. exact Hb. Qed.
Lemma cseg_seg fl a ta fl' : CSeg fl a ta fl' -> Seg fl a ta fl'.
Proof. intros H b tb _ Hb. exact (H b tb Hb). Qed.
Lemma cseg_app fl a ta fl1 b tb fl2 : CSeg fl a ta fl1 -> CSeg fl1 b tb fl2 -> CSeg fl (a ++ b) (ta ++ tb) fl2.
Proof. intros Ha Hb c tc Hc. rewrite <- !app_assoc. apply Ha, Hb, Hc. Qed.
Lemma cseg_if (c : bool) fl a ta : CSeg fl a ta fl -> CSeg fl (if c then a else []) (if c then ta else []) fl.
Proof. destruct c; [auto|intros _; apply cseg_nil]. Qed.

(* a closed fragment is a complete text *)
Lemma cseg_tks fl a ta fl' : CSeg fl a ta fl' -> TkS fl a (ta ++ if fl' then [QP 59] else []).
Proof. intros H. pose proof (H [] _ (tks_nil fl')) as G. rewrite app_nil_r in G. exact G. Qed.

(* ------------------------------------------------------------------ holes *)
Lemma seg_ident fl n : c10_go_ident_ok n = true -> Seg fl n [QId n] (c10_go_trigger (QId n)).
Proof. intros H. apply (seg_of_raw fl n [QId n]); [apply rfrag_ident, H|reflexivity|reflexivity]. Qed.

(* a name: an identifier that is not a keyword *)
Definition c10_go_name_ok (n : str) : bool := c10_go_ident_ok n && negb (c10_go_kw n).
Lemma name_trigger n : c10_go_name_ok n = true -> c10_go_trigger (QId n) = true.
Proof. unfold c10_go_name_ok. rewrite andb_true_iff. intros [_ H]. cbn [c10_go_trigger]. rewrite H. reflexivity. Qed.
Lemma name_is_name n : c10_go_name_ok n = true -> c10_go_is_name (QId n) = true.
Proof. unfold c10_go_name_ok. rewrite andb_true_iff. intros [_ H]. exact H. Qed.
Lemma seg_name fl n : c10_go_name_ok n = true -> Seg fl n [QId n] true.
Proof.
  intros H. rewrite <- (name_trigger n H). apply seg_ident. unfold c10_go_name_ok in H. apply andb_true_iff in H as [H _]. exact H.
Qed.

Lemma cseg_quoted fl body : forallb c10_plain_char body = true -> CSeg fl (ch_dq :: body ++ [ch_dq]) [QStr] true.
Proof. intros H. apply (cseg_of_raw fl _ [QStr]); [apply rcfrag_quoted, H|reflexivity|reflexivity]. Qed.
Lemma cseg_raw fl body : gnotick body = true -> CSeg fl (ch_bt :: body ++ [ch_bt]) [QStr] true.
Proof. intros H. apply (cseg_of_raw fl _ [QStr]); [apply rcfrag_raw, H|reflexivity|reflexivity]. Qed.

(* blanks *)
Lemma rcfrag_blank x : forallb c10_go_blank x = true -> RCFrag x [].
Proof.
  induction x as [|c r IH]; intros H; [apply rcfrag_nil|]. cbn [forallb] in H. apply andb_true_iff in H as [Hc Hr].
  intros b tb Hb. change ([] ++ tb) with (gotl None ++ tb). apply (tk_step _ None (r ++ b)); [|exact (IH Hr b tb Hb)].
  cbn [app c10_go_next]. rewrite Hc. reflexivity.
Qed.
Lemma cseg_blank fl x : forallb c10_go_blank x = true -> CSeg fl x [] fl.
Proof. intros H. apply (cseg_of_raw fl _ []); [apply rcfrag_blank, H|reflexivity|reflexivity]. Qed.

(* a comment line: two slashes, text without a line end, the line end *)
Lemma rcfrag_comment body : forallb notnl body = true -> RCFrag (47 :: 47 :: body ++ [ch_nl]) [QNl].
Proof.
  intros H b tb Hb. change ([QNl] ++ tb) with (gotl None ++ gotl (Some QNl) ++ tb).
  apply (tk_step _ None (ch_nl :: b)).
  - change ((47 :: 47 :: body ++ [ch_nl]) ++ b) with (47 :: 47 :: (body ++ [ch_nl]) ++ b). rewrite <- app_assoc.
    cbn [c10_go_next app]. change (c10_go_blank 47) with false. change (47 =? ch_nl) with false. cbv beta iota.
    change ((47 =? 47) && (47 =? 47)) with true. cbv beta iota.
    assert (E : c10_take_while (fun x => negb (x =? ch_nl)) (47 :: body ++ ch_nl :: b) = (47 :: body, ch_nl :: b)).
    { change (47 :: body ++ ch_nl :: b) with ((47 :: body) ++ ch_nl :: b). apply take_while_app; [|reflexivity].
      cbn [forallb]. exact H. }
    rewrite E. reflexivity.
  - apply (tk_step _ (Some QNl) b); [reflexivity|exact Hb].
Qed.
Lemma cseg_comment body : forallb notnl body = true -> CSeg false (47 :: 47 :: body ++ [ch_nl]) [] false.
Proof. intros H. apply (cseg_of_raw false _ [QNl]); [apply rcfrag_comment, H|reflexivity|reflexivity]. Qed.

(* decimal numbers *)
Lemma rcfrag_char_nl : RCFrag [ch_nl] [QNl].
Proof. apply rcfrag_compute; vm_compute; reflexivity. Qed.
Lemma rcfrag_char_rbrack : RCFrag [93] [QP 93].
Proof. apply rcfrag_compute; vm_compute; reflexivity. Qed.
Lemma cseg_digits_nl fl d : d <> [] -> forallb is_adigit d = true -> CSeg fl (d ++ [ch_nl]) [QNum; QP 59] false.
Proof.
  intros Hne H. apply (cseg_of_raw fl _ [QNum; QNl]); [|reflexivity|reflexivity].
  apply rcfrag_digits; [exact Hne|exact H|reflexivity|exact rcfrag_char_nl].
Qed.
Lemma cseg_digits_rbrack fl d : d <> [] -> forallb is_adigit d = true -> CSeg fl (d ++ [93]) [QNum; QP 93] true.
Proof.
  intros Hne H. apply (cseg_of_raw fl _ [QNum; QP 93]); [|reflexivity|reflexivity].
  apply rcfrag_digits; [exact Hne|exact H|reflexivity|exact rcfrag_char_rbrack].
Qed.
