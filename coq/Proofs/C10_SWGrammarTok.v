(* C10, grammar half for Swift, part 1: the TOKENIZER of Spec/C10SwGrammar.v.
     - [Tk s ts]: "s tokenises to ts (line breaks as WNl) with every sufficient fuel" (fuel-free view), [tokens_tk], [tk_run];
     - [tk_frame]: the FRAME lemma - the tokens of a text do not depend on what follows it as soon as the junction is a
       token boundary ([glue]: the follower does not start with an identifier / number character, a star or a slash, or the
       text ends with a character that is none of these) and the text does not end inside a line comment ([lcok]);
     - [Frag] / [CFrag]: open / closed fragments, composition, fragments of LITERAL text by computation;
     - the holes: identifiers, back-ticked identifiers, quoted keys, doc-comment lines, the version comment, blanks. *)
From Coq Require Import List Bool Lia ZifyBool ZifyN NArith.
From TS Require Import Model.Str Spec.C10TsGrammar Spec.C10SwGrammar.
From TS Require Proofs.C10_TSGrammarTok Proofs.C10Lex.
Import ListNotations.
Local Open Scope N_scope.
Local Notation length := List.length (only parsing).

Definition take_while_spec := Proofs.C10_TSGrammarTok.take_while_spec.
Definition take_while_app := Proofs.C10_TSGrammarTok.take_while_app.
Definition app_len_lt {A} := @Proofs.C10_TSGrammarTok.app_len_lt A.
Definition last_app_ne {A} := @Proofs.C10_TSGrammarTok.last_app_ne A.
Definition forallb_last {A} := @Proofs.C10_TSGrammarTok.forallb_last A.
Notation c10_plain_char := Proofs.C10_TSGrammarTok.c10_plain_char.

Definition wotl (o : option c10_wtok) : list c10_wtok := match o with Some t => [t] | None => [] end.

Lemma sw_tokens_unfold f s : c10_sw_tokens (S f) s =
  match s with
  | [] => Some []
  | _ => match c10_sw_next s with
         | None => None
         | Some (ot, r) => match c10_sw_tokens f r with Some ts => Some (wotl ot ++ ts) | None => None end
         end
  end.
Proof.
  destruct s as [|c r]; [reflexivity|]. cbn [c10_sw_tokens]. destruct (c10_sw_next (c :: r)) as [[ot r']|]; [|reflexivity].
  destruct (c10_sw_tokens f r'); [|reflexivity]. destruct ot; reflexivity.
Qed.

(* ------------------------------------------------------------------ the scanners: what they consume *)
Lemma sw_skip_block_frame s : forall d r, c10_sw_skip_block d s = Some r ->
  (exists p, s = p ++ r) /\ forall b, c10_sw_skip_block d (s ++ b) = Some (r ++ b).
Proof.
  assert (G : forall n s, (List.length s <= n)%nat -> forall d r, c10_sw_skip_block d s = Some r ->
              (exists p, s = p ++ r) /\ forall b, c10_sw_skip_block d (s ++ b) = Some (r ++ b)).
  { clear s. induction n as [|n IH]; intros s Hn d r H; (destruct s as [|c s]; [discriminate|]); [cbn in Hn; lia|].
    destruct s as [|e s']; [discriminate|]. cbn [List.length] in Hn. cbn [c10_sw_skip_block] in H.
    change ((c :: e :: s') ++ ?b) with (c :: e :: s' ++ b). cbn [c10_sw_skip_block].
    destruct ((c =? 42) && (e =? 47)).
    { destruct d as [|d'].
      - injection H as <-. split; [exists [c; e]; reflexivity|reflexivity].
      - destruct (IH s' ltac:(lia) _ _ H) as [[p Hp] Hb]. split; [exists (c :: e :: p); rewrite Hp; reflexivity|exact Hb]. }
    destruct ((c =? 47) && (e =? 42)).
    { destruct (IH s' ltac:(lia) _ _ H) as [[p Hp] Hb]. split; [exists (c :: e :: p); rewrite Hp; reflexivity|exact Hb]. }
    destruct (IH (e :: s') ltac:(cbn [List.length]; lia) _ _ H) as [[p Hp] Hb]. split; [exists (c :: p); rewrite Hp; reflexivity|exact Hb]. }
  intros d r. exact (G (List.length s) s (le_n _) d r).
Qed.

Lemma sw_skip_string_frame s : forall st r, c10_sw_skip_string st s = Some r ->
  (exists p, p <> [] /\ s = p ++ r) /\ forall b, c10_sw_skip_string st (s ++ b) = Some (r ++ b).
Proof.
  induction s as [|c s IH]; intros st r H; [discriminate|].
  assert (Step : forall st', c10_sw_skip_string st' s = Some r ->
            (exists p, p <> [] /\ c :: s = p ++ r) /\ forall b, c10_sw_skip_string st' (s ++ b) = Some (r ++ b)).
  { intros st' H'. destruct (IH _ _ H') as [(p & _ & Hp) Hb]. split; [exists (c :: p); split; [discriminate|rewrite Hp; reflexivity]|exact Hb]. }
  cbn [c10_sw_skip_string app] in *. destruct st as [| | | |n].
  - destruct (c =? ch_dq). { injection H as <-. split; [exists [c]; split; [discriminate|reflexivity]|reflexivity]. }
    destruct (c =? ch_bs); [exact (Step _ H)|]. destruct (c10_sw_line_end c); [discriminate|exact (Step _ H)].
  - destruct ((c =? 48) || (c =? ch_bs) || (c =? 116) || (c =? 110) || (c =? 114) || (c =? ch_dq) || (c =? ch_sq)); [exact (Step _ H)|].
    destruct (c =? 117); [exact (Step _ H)|discriminate].
  - destruct (c =? 123); [exact (Step _ H)|discriminate].
  - destruct (c10_sw_hex c); [exact (Step _ H)|discriminate].
  - destruct (c =? 125); [exact (Step _ H)|]. destruct (c10_sw_hex c); [|discriminate]. destruct n; [discriminate|exact (Step _ H)].
Qed.

Definition notle (x : char) : bool := negb (c10_sw_line_end x).

(* one step consumes a non-empty prefix *)
Lemma sw_next_suffix s ot r : c10_sw_next s = Some (ot, r) -> exists p, p <> [] /\ s = p ++ r.
Proof.
  destruct s as [|c s]; [discriminate|]. cbn [c10_sw_next].
  destruct (c10_sw_blank c); [intros H; injection H as <- <-; exists [c]; split; [discriminate|reflexivity]|].
  destruct (c10_sw_line_end c); [intros H; injection H as <- <-; exists [c]; split; [discriminate|reflexivity]|].
  destruct ((c =? 47) && match s with d :: _ => d =? 47 | [] => false end) eqn:Ec.
  { destruct (c10_take_while (fun x => negb (c10_sw_line_end x)) s) as [a b] eqn:E. intros H. injection H as <- <-.
    destruct (take_while_spec _ _ _ _ E) as (H1 & _ & _). exists (c :: a). split; [discriminate|rewrite H1; reflexivity]. }
  destruct ((c =? 47) && match s with d :: _ => d =? 42 | [] => false end) eqn:Ec2.
  { destruct (c10_sw_skip_block 0 (tl s)) as [r'|] eqn:E; [|discriminate]. intros H. injection H as <- <-.
    destruct (proj1 (sw_skip_block_frame _ _ _ E)) as [p Hp]. destruct s as [|d s']; [rewrite andb_false_r in Ec2; discriminate|].
    cbn [tl] in Hp. exists (c :: d :: p). split; [discriminate|]. rewrite Hp. reflexivity. }
  destruct (c =? ch_dq).
  { destruct (c10_sw_skip_string WSNorm s) as [r'|] eqn:E; [|discriminate]. intros H. injection H as <- <-.
    destruct (proj1 (sw_skip_string_frame _ _ _ E)) as (p & _ & Hp). exists (c :: p). split; [discriminate|]. rewrite Hp. reflexivity. }
  destruct (c =? 96).
  { destruct (c10_take_while c10_sw_id_char s) as [a b] eqn:E. destruct (take_while_spec _ _ _ _ E) as (H1 & _ & _).
    destruct a as [|h a']; [discriminate|]. destruct b as [|e b']; [discriminate|].
    destruct (c10_sw_id_head h && (e =? 96)); [|discriminate]. intros H. injection H as <- <-.
    exists (c :: (h :: a') ++ [e]). split; [discriminate|]. rewrite H1. cbn [app]. rewrite <- app_assoc. reflexivity. }
  destruct (c10_sw_id_head c) eqn:Ei.
  { destruct (c10_take_while c10_sw_id_char (c :: s)) as [a b] eqn:E. intros H. injection H as <- <-.
    destruct (take_while_spec _ _ _ _ E) as (H1 & _ & _). exists a. split; [|exact H1].
    cbn [c10_take_while] in E. unfold c10_sw_id_char at 1 in E. rewrite Ei in E. cbn [orb] in E.
    destruct (c10_take_while c10_sw_id_char s). injection E as <- _. discriminate. }
  destruct (is_adigit c) eqn:Ed.
  { destruct (c10_take_while c10_sw_num_char (c :: s)) as [a b] eqn:E. intros H. injection H as <- <-.
    destruct (take_while_spec _ _ _ _ E) as (H1 & _ & _). exists a. split; [|exact H1].
    cbn [c10_take_while] in E. unfold c10_sw_num_char at 1, c10_sw_id_char at 1 in E. rewrite Ed in E. rewrite orb_true_r in E. cbn [orb] in E.
    destruct (c10_take_while c10_sw_num_char s). injection E as <- _. discriminate. }
  intros H. injection H as <- <-. exists [c]. split; [discriminate|reflexivity].
Qed.

Lemma sw_next_shorter s ot r : c10_sw_next s = Some (ot, r) -> (List.length r < List.length s)%nat.
Proof. intros H. destruct (sw_next_suffix _ _ _ H) as (p & Hp & ->). apply app_len_lt, Hp. Qed.

(* ------------------------------------------------------------------ the fuel-free view *)
Definition Tk (s : str) (ts : list c10_wtok) : Prop := forall f, (List.length s < f)%nat -> c10_sw_tokens f s = Some ts.

Lemma tk_nil : Tk [] [].
Proof. intros f Hf. destruct f; [cbn in Hf; lia|reflexivity]. Qed.

Lemma tk_step s ot r ts : c10_sw_next s = Some (ot, r) -> Tk r ts -> Tk s (wotl ot ++ ts).
Proof.
  intros H Hr f Hf. destruct f as [|f]; [lia|]. rewrite sw_tokens_unfold. destruct s as [|c s]; [discriminate|].
  rewrite H, (Hr f); [reflexivity|]. pose proof (sw_next_shorter _ _ _ H). lia.
Qed.

Lemma tokens_tk f : forall s ts, c10_sw_tokens f s = Some ts -> Tk s ts.
Proof.
  induction f as [|f IH]; intros s ts H; [discriminate|]. rewrite sw_tokens_unfold in H.
  destruct s as [|c s]; [injection H as <-; apply tk_nil|].
  destruct (c10_sw_next (c :: s)) as [[ot r]|] eqn:E; [|discriminate].
  destruct (c10_sw_tokens f r) as [ts'|] eqn:E2; [|discriminate]. injection H as <-.
  exact (tk_step _ _ _ _ E (IH _ _ E2)).
Qed.

Lemma tk_run s ts : Tk s ts -> c10_sw_tokens (S (List.length s)) s = Some ts.
Proof. intros H. apply H. lia. Qed.

(* ------------------------------------------------------------------ the frame lemma *)
(* the follower cannot extend an identifier / a number, nor turn a final slash into a comment opener *)
Definition sepb (b : str) : bool := match b with [] => true | c :: _ => negb (c10_sw_num_char c) && negb (c =? 42) && negb (c =? 47) end.
(* a character that ends a token whatever follows *)
Definition closedc (c : char) : bool := negb (c10_sw_num_char c) && negb (c =? 47).
Definition glue (a b : str) : bool := sepb b || closedc (last a 32).
(* the text opens no line comment, or the follower starts a new line *)
Definition lc_free (a : str) : bool := negb (contains_sub [47; 47] a).
Definition headnl (b : str) : bool := match b with [] => true | c :: _ => c10_sw_line_end c end.
Definition lcok (a b : str) : bool := lc_free a || headnl b.

Lemma contains_sub_suffix p pre r : contains_sub p r = true -> contains_sub p (pre ++ r) = true.
Proof. intros H. induction pre as [|x pre IH]; [exact H|]. cbn [app contains_sub]. rewrite IH. apply orb_true_r. Qed.
Lemma lc_free_suffix pre r : lc_free (pre ++ r) = true -> lc_free r = true.
Proof.
  unfold lc_free. rewrite !negb_true_iff. intros H. destruct (contains_sub [47; 47] r) eqn:E; [|reflexivity].
  rewrite (contains_sub_suffix _ pre r E) in H. discriminate.
Qed.
Lemma lcok_suffix pre r b : lcok (pre ++ r) b = true -> lcok r b = true.
Proof. unfold lcok. rewrite !orb_true_iff. intros [H|H]; [left; exact (lc_free_suffix _ _ H)|right; exact H]. Qed.

Lemma id_num_char c : c10_sw_id_char c = true -> c10_sw_num_char c = true.
Proof. unfold c10_sw_num_char. intros ->. reflexivity. Qed.

Lemma sw_next_frame a b ot r : c10_sw_next a = Some (ot, r) -> glue a b = true -> lcok a b = true ->
  c10_sw_next (a ++ b) = Some (ot, r ++ b).
Proof.
  destruct a as [|c s]; [discriminate|]. intros H G L. cbn [c10_sw_next app] in *.
  destruct (c10_sw_blank c); [injection H as <- <-; reflexivity|].
  destruct (c10_sw_line_end c); [injection H as <- <-; reflexivity|].
  assert (Ec : forall k, k = 42 \/ k = 47 -> ((c =? 47) && match s ++ b with d :: _ => d =? k | [] => false end) =
               ((c =? 47) && match s with d :: _ => d =? k | [] => false end)).
  { intros k Hk. destruct s as [|d s']; [|reflexivity]. cbn [app]. rewrite andb_false_r.
    unfold glue in G. cbn [last] in G. destruct b as [|d b]; [apply andb_false_r|].
    unfold sepb, closedc in G. destruct (c =? 47); [|reflexivity]. destruct (d =? k) eqn:Ek; [|reflexivity].
    rewrite !andb_false_r, orb_false_r in G. destruct Hk as [-> | ->]; rewrite Ek in G; cbn in G; rewrite ?andb_false_r in G; discriminate. }
  rewrite (Ec 47 ltac:(auto)), (Ec 42 ltac:(auto)).
  destruct ((c =? 47) && match s with d :: _ => d =? 47 | [] => false end) eqn:Ec1.
  { destruct (c10_take_while (fun x => negb (c10_sw_line_end x)) s) as [x y] eqn:E. injection H as <- <-.
    destruct (take_while_spec _ _ _ _ E) as (H1 & H2 & H3). rewrite H1, <- app_assoc.
    rewrite take_while_app; [reflexivity|exact H2|]. destruct y as [|d y]; [|exact H3]. cbn [app].
    destruct b as [|d b]; [exact I|]. unfold lcok in L. apply orb_true_iff in L as [L|L].
    - exfalso. unfold lc_free in L. apply negb_true_iff in L. destruct s as [|d0 s']; [rewrite andb_false_r in Ec1; discriminate|].
      apply andb_true_iff in Ec1 as [E1 E2]. cbn [contains_sub starts_with] in L. replace (47 =? c) with true in L by lia.
      replace (47 =? d0) with true in L by lia. discriminate.
    - cbn [headnl] in L. rewrite L. reflexivity. }
  destruct ((c =? 47) && match s with d :: _ => d =? 42 | [] => false end) eqn:Ec2.
  { destruct s as [|d s']; [rewrite andb_false_r in Ec2; discriminate|]. cbn [tl app] in *.
    destruct (c10_sw_skip_block 0 s') as [r'|] eqn:E; [|discriminate]. injection H as <- <-.
    rewrite (proj2 (sw_skip_block_frame _ _ _ E) b). reflexivity. }
  destruct (c =? ch_dq).
  { destruct (c10_sw_skip_string WSNorm s) as [r'|] eqn:E; [|discriminate]. injection H as <- <-.
    rewrite (proj2 (sw_skip_string_frame _ _ _ E) b). reflexivity. }
  destruct (c =? 96).
  { destruct (c10_take_while c10_sw_id_char s) as [x y] eqn:E. destruct (take_while_spec _ _ _ _ E) as (H1 & H2 & H3).
    destruct x as [|h x']; [discriminate|]. destruct y as [|e y']; [discriminate|].
    rewrite H1, <- app_assoc. change ((e :: y') ++ b) with (e :: y' ++ b).
    rewrite (take_while_app c10_sw_id_char (h :: x') (e :: y' ++ b) H2 H3).
    destruct (c10_sw_id_head h && (e =? 96)); [|discriminate]. injection H as <- <-. reflexivity. }
  assert (Gen : forall p, (forall x, p x = true -> c10_sw_num_char x = true) -> p c = true ->
                forall x y, c10_take_while p (c :: s) = (x, y) -> c10_take_while p (c :: s ++ b) = (x, y ++ b)).
  { intros p Hp Hc x y E. destruct (take_while_spec _ _ _ _ E) as (H1 & H2 & H3).
    change (c :: s ++ b) with ((c :: s) ++ b). rewrite H1, <- app_assoc. apply take_while_app; [exact H2|].
    destruct y as [|d y]; [|exact H3]. cbn [app]. destruct b as [|d b]; [exact I|].
    rewrite app_nil_r in H1. unfold glue in G. apply orb_true_iff in G as [G | G].
    - unfold sepb in G. rewrite !andb_true_iff in G. destruct G as [[G _] _]. apply negb_true_iff in G.
      destruct (p d) eqn:Epd; [|reflexivity]. rewrite (Hp d Epd) in G. discriminate.
    - exfalso. unfold closedc in G. apply andb_true_iff in G as [G _]. apply negb_true_iff in G.
      rewrite H1 in G. rewrite (Hp _ (forallb_last p x 32 ltac:(rewrite <- H1; discriminate) H2)) in G. discriminate. }
  destruct (c10_sw_id_head c) eqn:Ei.
  { destruct (c10_take_while c10_sw_id_char (c :: s)) as [x y] eqn:E. injection H as <- <-.
    rewrite (Gen c10_sw_id_char id_num_char ltac:(unfold c10_sw_id_char; rewrite Ei; reflexivity) x y E). reflexivity. }
  destruct (is_adigit c) eqn:Ed.
  { destruct (c10_take_while c10_sw_num_char (c :: s)) as [x y] eqn:E. injection H as <- <-.
    rewrite (Gen c10_sw_num_char (fun x H => H) ltac:(unfold c10_sw_num_char, c10_sw_id_char; rewrite Ed, orb_true_r; reflexivity) x y E). reflexivity. }
  injection H as <- <-. reflexivity.
Qed.

Lemma tk_frame f : forall a ta, c10_sw_tokens f a = Some ta ->
  forall b tb, a = [] \/ (glue a b = true /\ lcok a b = true) -> Tk b tb -> Tk (a ++ b) (ta ++ tb).
Proof.
  induction f as [|f IH]; intros a ta H b tb G Hb; [discriminate|]. rewrite sw_tokens_unfold in H.
  destruct a as [|c s]; [injection H as <-; exact Hb|]. destruct G as [G|[G L]]; [discriminate|].
  destruct (c10_sw_next (c :: s)) as [[ot r]|] eqn:E; [|discriminate].
  destruct (c10_sw_tokens f r) as [ts'|] eqn:E2; [|discriminate]. injection H as <-.
  rewrite <- app_assoc. apply (tk_step _ ot (r ++ b)); [exact (sw_next_frame _ _ _ _ E G L)|].
  apply IH; [exact E2| |exact Hb]. destruct r as [|d r]; [left; reflexivity|right].
  destruct (sw_next_suffix _ _ _ E) as (p & _ & Hp). rewrite Hp in G, L. split; [|exact (lcok_suffix _ _ _ L)].
  unfold glue in *. rewrite last_app_ne in G by discriminate. exact G.
Qed.

(* the frame lemma in terms of the function the recogniser runs *)
Theorem sw_tokens_frame a ta b tb :
  c10_sw_tokens (S (List.length a)) a = Some ta -> c10_sw_tokens (S (List.length b)) b = Some tb ->
  glue a b = true -> lcok a b = true ->
  c10_sw_tokens (S (List.length (a ++ b))) (a ++ b) = Some (ta ++ tb).
Proof. intros Ha Hb G L. apply tk_run. apply (tk_frame _ _ _ Ha); [right; split; assumption|exact (tokens_tk _ _ _ Hb)]. Qed.

(* ------------------------------------------------------------------ fragments *)
(* open: the follower must not start with an identifier / number character, a star or a slash; closed: any follower *)
Definition Frag (a : str) (ta : list c10_wtok) : Prop := forall b tb, sepb b = true -> Tk b tb -> Tk (a ++ b) (ta ++ tb).
Definition CFrag (a : str) (ta : list c10_wtok) : Prop := forall b tb, Tk b tb -> Tk (a ++ b) (ta ++ tb).
(* the text starts with a separating character *)
Definition ssep (b : str) : bool := match b with c :: _ => negb (c10_sw_num_char c) && negb (c =? 42) && negb (c =? 47) | [] => false end.

Lemma ssep_app b c : ssep b = true -> sepb (b ++ c) = true.
Proof. destruct b; [discriminate|]. intros H. exact H. Qed.

Lemma frag_compute a ta : c10_sw_tokens (S (List.length a)) a = Some ta -> lc_free a = true -> Frag a ta.
Proof.
  intros H L b tb Hs Hb. apply (tk_frame _ _ _ H); [|exact Hb]. right. unfold glue, lcok. rewrite Hs, L. split; reflexivity.
Qed.
Lemma cfrag_compute a ta : c10_sw_tokens (S (List.length a)) a = Some ta -> lc_free a = true -> closedc (last a 32) = true -> CFrag a ta.
Proof.
  intros H L Hc b tb Hb. apply (tk_frame _ _ _ H); [|exact Hb]. right. unfold glue, lcok. rewrite Hc, L. split; [apply orb_true_r|reflexivity].
Qed.

Lemma cfrag_frag a ta : CFrag a ta -> Frag a ta.
Proof. intros H b tb _ Hb. exact (H b tb Hb). Qed.
Lemma cfrag_nil : CFrag [] [].
Proof. intros b tb Hb. exact Hb. Qed.
Lemma cfrag_app a ta b tb : CFrag a ta -> CFrag b tb -> CFrag (a ++ b) (ta ++ tb).
Proof. intros Ha Hb c tc Hc. rewrite <- !app_assoc. apply Ha, Hb, Hc. Qed.
Lemma frag_cfrag_app a ta b tb : Frag a ta -> CFrag b tb -> ssep b = true -> CFrag (a ++ b) (ta ++ tb).
Proof. intros Ha Hb Hs c tc Hc. rewrite <- !app_assoc. apply Ha; [apply ssep_app, Hs|]. apply Hb, Hc. Qed.
Lemma cfrag_frag_app a ta b tb : CFrag a ta -> Frag b tb -> Frag (a ++ b) (ta ++ tb).
Proof. intros Ha Hb c tc Hs Hc. rewrite <- !app_assoc. apply Ha, Hb; [exact Hs|exact Hc]. Qed.
Lemma frag_frag_app a ta b tb : Frag a ta -> Frag b tb -> ssep b = true -> Frag (a ++ b) (ta ++ tb).
Proof. intros Ha Hb Hs c tc Hsc Hc. rewrite <- !app_assoc. apply Ha; [apply ssep_app, Hs|]. apply Hb; [exact Hsc|exact Hc]. Qed.

(* a closed fragment is a complete text *)
Lemma cfrag_tk a ta : CFrag a ta -> Tk a ta.
Proof. intros H. pose proof (H [] [] tk_nil) as G. rewrite !app_nil_r in G. exact G. Qed.

Lemma cfrag_if (c : bool) a ta : CFrag a ta -> CFrag (if c then a else []) (if c then ta else []).
Proof. destruct c; [auto|intros _; apply cfrag_nil]. Qed.

(* ------------------------------------------------------------------ holes *)
(* identifiers of the Swift grammar: identifier-head identifier-character* *)
Definition c10_sw_ident_ok (s : str) : bool :=
  match s with [] => false | c :: r => c10_sw_id_head c && forallb c10_sw_id_char r end.

Lemma head_facts c : c10_sw_id_head c = true ->
  c10_sw_blank c = false /\ c10_sw_line_end c = false /\ (c =? 47) = false /\ (c =? ch_dq) = false /\ (c =? 96) = false.
Proof. unfold c10_sw_id_head, c10_sw_blank, c10_sw_line_end, is_aalpha, is_alower, is_aupper, ch_us, ch_nl, ch_cr, ch_dq. lia. Qed.

Lemma sepb_not_id b : sepb b = true -> match b with d :: _ => c10_sw_id_char d = false | [] => True end.
Proof.
  destruct b as [|d b]; [trivial|]. unfold sepb. rewrite !andb_true_iff. intros [[Hs _] _].
  apply negb_true_iff in Hs. destruct (c10_sw_id_char d) eqn:Ed; [|reflexivity]. rewrite (id_num_char d Ed) in Hs. discriminate.
Qed.

Lemma frag_ident n : c10_sw_ident_ok n = true -> Frag n [WId n].
Proof.
  intros H b tb Hs Hb. destruct n as [|c r]; [discriminate|]. cbn [c10_sw_ident_ok] in H. apply andb_true_iff in H as [Hc Hr].
  change ([WId (c :: r)] ++ tb) with (wotl (Some (WId (c :: r))) ++ tb). apply (tk_step _ _ b); [|exact Hb].
  destruct (head_facts c Hc) as (F1 & F2 & F3 & F4 & F5).
  cbn [c10_sw_next app]. rewrite F1, F2, F3, F4, F5, Hc. cbn [andb].
  assert (E : c10_take_while c10_sw_id_char (c :: r ++ b) = (c :: r, b)).
  { change (c :: r ++ b) with ((c :: r) ++ b). apply take_while_app.
    - cbn [forallb]. rewrite Hr. unfold c10_sw_id_char. rewrite Hc. reflexivity.
    - exact (sepb_not_id b Hs). }
  rewrite E. reflexivity.
Qed.

(* a back-ticked identifier *)
Lemma cfrag_ticked n : c10_sw_ident_ok n = true -> CFrag (96 :: n ++ [96]) [WTick n].
Proof.
  intros H b tb Hb. destruct n as [|c r]; [discriminate|]. cbn [c10_sw_ident_ok] in H. apply andb_true_iff in H as [Hc Hr].
  change ([WTick (c :: r)] ++ tb) with (wotl (Some (WTick (c :: r))) ++ tb). apply (tk_step _ _ b); [|exact Hb].
  change ((96 :: (c :: r) ++ [96]) ++ b) with (96 :: ((c :: r) ++ [96]) ++ b). rewrite <- app_assoc.
  cbn [c10_sw_next]. change (c10_sw_blank 96) with false. change (c10_sw_line_end 96) with false. cbv beta iota.
  change ((96 =? 47) && _) with false. cbv beta iota. change (96 =? ch_dq) with false. change (96 =? 96) with true. cbv beta iota.
  assert (E : c10_take_while c10_sw_id_char ((c :: r) ++ [96] ++ b) = (c :: r, [96] ++ b)).
  { apply take_while_app; [|reflexivity]. cbn [forallb]. rewrite Hr. unfold c10_sw_id_char. rewrite Hc. reflexivity. }
  match goal with |- context [c10_take_while ?p ?x] => replace (c10_take_while p x) with (c :: r, [96] ++ b) by (symmetry; exact E) end.
  cbn [app]. rewrite Hc. reflexivity.
Qed.

(* a double-quoted literal whose body needs no escape *)
Lemma sw_skip_string_plain body b : forallb c10_plain_char body = true -> c10_sw_skip_string WSNorm (body ++ ch_dq :: b) = Some b.
Proof.
  induction body as [|c r IH]; intros H; cbn [app c10_sw_skip_string].
  - rewrite N.eqb_refl. reflexivity.
  - cbn [forallb] in H. apply andb_true_iff in H as [Hc Hr]. unfold Proofs.C10_TSGrammarTok.c10_plain_char in Hc.
    apply negb_true_iff in Hc. rewrite !orb_false_iff in Hc. destruct Hc as [[[H1 H2] H3] H4].
    unfold c10_sw_line_end. rewrite H1, H2, H3, H4. exact (IH Hr).
Qed.
Lemma cfrag_quoted body : forallb c10_plain_char body = true -> CFrag (ch_dq :: body ++ [ch_dq]) [WStr].
Proof.
  intros H b tb Hb. change ([WStr] ++ tb) with (wotl (Some WStr) ++ tb). apply (tk_step _ (Some WStr) b); [|exact Hb].
  change ((ch_dq :: body ++ [ch_dq]) ++ b) with (ch_dq :: (body ++ [ch_dq]) ++ b). rewrite <- app_assoc.
  cbn [c10_sw_next app]. change (c10_sw_blank ch_dq) with false. change (c10_sw_line_end ch_dq) with false. cbv beta iota.
  change ((ch_dq =? 47) && _) with false. cbv beta iota. change (ch_dq =? ch_dq) with true. cbv beta iota.
  rewrite (sw_skip_string_plain body b H). reflexivity.
Qed.

(* a comment line: two slashes, text without a line break, the line break (which stays a token) *)
Lemma cfrag_line_comment c : Proofs.C10Lex.c10_line_ok c = true -> CFrag (47 :: 47 :: c ++ [ch_nl]) [WNl].
Proof.
  intros H b tb Hb. change ([WNl] ++ tb) with (wotl None ++ wotl (Some WNl) ++ tb).
  change ((47 :: 47 :: c ++ [ch_nl]) ++ b) with (47 :: 47 :: (c ++ [ch_nl]) ++ b). rewrite <- app_assoc.
  apply (tk_step _ None (ch_nl :: b)).
  - cbn [c10_sw_next]. change (c10_sw_blank 47) with false. change (c10_sw_line_end 47) with false. cbv beta iota.
    change ((47 =? 47) && (47 =? 47)) with true. cbv beta iota.
    assert (E : c10_take_while (fun x => negb (c10_sw_line_end x)) ((47 :: c) ++ [ch_nl] ++ b) = (47 :: c, [ch_nl] ++ b)).
    { apply take_while_app; [|reflexivity]. cbn [forallb]. change (negb (c10_sw_line_end 47)) with true. cbn [andb].
      revert H. unfold Proofs.C10Lex.c10_line_ok. apply Proofs.C10Lex.forallb_impl. intros x Hx. exact Hx. }
    match goal with |- context [c10_take_while ?p ?x] => replace (c10_take_while p x) with (47 :: c, [ch_nl] ++ b) by (symmetry; exact E) end.
    reflexivity.
  - apply (tk_step _ (Some WNl) b); [reflexivity|exact Hb].
Qed.

(* multiline comments: text without star and slash is walked through *)
Definition noss (x : str) : bool := forallb (fun c => negb (c =? 42) && negb (c =? 47)) x.
Lemma sw_skip_block_pass x : noss x = true -> forall d rest, c10_sw_skip_block d (x ++ rest) = c10_sw_skip_block d rest.
Proof.
  induction x as [|c r IH]; intros H d rest; [reflexivity|]. unfold noss in H. cbn [forallb] in H. apply andb_true_iff in H as [Hc Hr].
  cbn [app c10_sw_skip_block]. destruct (r ++ rest) as [|e r'] eqn:E.
  - destruct r; [|discriminate]. cbn [app] in E. subst rest. reflexivity.
  - rewrite <- E. replace ((c =? 42) && (e =? 47)) with false by lia. replace ((c =? 47) && (e =? 42)) with false by lia. exact (IH Hr d rest).
Qed.
(* slash star, such a text, star slash: no token *)
Lemma cfrag_comment body : noss body = true -> CFrag (47 :: 42 :: body ++ [42; 47]) [].
Proof.
  intros H b tb Hb. change ([] ++ tb) with (wotl None ++ tb). apply (tk_step _ None b); [|exact Hb].
  change ((47 :: 42 :: body ++ [42; 47]) ++ b) with (47 :: 42 :: (body ++ [42; 47]) ++ b). rewrite <- app_assoc.
  cbn [c10_sw_next tl]. change (c10_sw_blank 47) with false. change (c10_sw_line_end 47) with false. cbv beta iota.
  change ((47 =? 47) && (42 =? 47)) with false. change ((47 =? 47) && (42 =? 42)) with true. cbv beta iota.
  rewrite sw_skip_block_pass by exact H. reflexivity.
Qed.

(* blanks *)
Lemma cfrag_blank x : forallb c10_sw_blank x = true -> CFrag x [].
Proof.
  induction x as [|c r IH]; intros H; [apply cfrag_nil|]. cbn [forallb] in H. apply andb_true_iff in H as [Hc Hr].
  intros b tb Hb. change ([] ++ tb) with (wotl None ++ tb). apply (tk_step _ None (r ++ b)); [|exact (IH Hr b tb Hb)].
  cbn [app c10_sw_next]. rewrite Hc. reflexivity.
Qed.
