(* C07, the Scala back end: sc_generate never panics - every configuration, every parsed data.
   write_const is todo!() (scala.rs:161, Panic in the model's item writer), but Scala's own generate_types
   writes aliases, structs and enums only: the site is unreachable from sc_generate. *)
From Coq Require Import String List Bool Permutation.
From TS Require Import Model.Str Model.Outcome Model.Unicode Model.Types Model.Parse Model.Rename
                       Model.TopsortAlgo Model.Topsort Model.Lang.Common Model.Lang.Decl Model.Lang.Scala.
From TS Require Import Spec.C07BackSpec.
From TS Require Import Proofs.C07Monad Proofs.C07Topsort.
Import ListNotations.

Definition is_const_item (it : ritem) : bool := match it with ItConst _ => true | _ => false end.

Section SCP.
Variable uc : unicode.
Variable cfg : sc_config.
Variable P : string -> Prop.

Lemma sc_texp_po g t : panics_only P (sc_texp cfg g t).
Proof.
  induction t as [id|id ps IH|x IH|x n IH|x IH|k v IHk IHv|x IH|p] using rtype_ind'; cbn [sc_texp].
  - exact I.
  - destruct (tmap_get (sc_type_mappings cfg) id); [exact I|].
    apply po_bind; [|intros; exact I].
    induction IH as [|x r Hx _ IHr]; [exact I|].
    apply po_bind; [exact Hx|]. intros y _. apply po_bind; [exact IHr|]. intros; exact I.
  - po_walk.
  - po_walk.
  - po_walk.
  - po_walk.
  - po_walk.
  - destruct p; exact I.
Qed.
Hint Resolve sc_texp_po : c07.

Lemma sc_member_po g f : panics_only P (sc_member_of cfg g f).
Proof. unfold sc_member_of. po_walk. Qed.
Hint Resolve sc_member_po : c07.

Lemma sc_class_po s : panics_only P (sc_class_of cfg s).
Proof. unfold sc_class_of. po_walk. Qed.
Hint Resolve sc_class_po : c07.

Lemma sc_variant_alg_po ck e v : panics_only P (sc_variant_of_algebraic cfg ck e v).
Proof. unfold sc_variant_of_algebraic. po_walk. Qed.
Hint Resolve sc_variant_alg_po : c07.

Lemma sc_variants_po e : panics_only P (sc_variants_of cfg e).
Proof. unfold sc_variants_of, sc_variant_of_unit_enum. po_walk. Qed.
Hint Resolve sc_variants_po : c07.

Lemma sc_inner_po e : panics_only P (sc_inner_decls_of cfg e).
Proof. unfold sc_inner_decls_of. po_walk. Qed.
Hint Resolve sc_inner_po : c07.

(* the only partial arm of the item writer is the const arm *)
Lemma sc_decl_po it : is_const_item it = false -> panics_only P (sc_decl_of cfg it).
Proof. intros H. destruct it; [| | |discriminate]; cbn [sc_decl_of]; po_walk. Qed.

Lemma sc_write_item_po it : is_const_item it = false -> panics_only P (sc_write_item cfg it).
Proof. intros H. unfold sc_write_item. apply po_bind; [now apply sc_decl_po|]. intros; exact I. Qed.

Lemma sc_concat_po {A} (mk : A -> ritem) l : (forall a, is_const_item (mk a) = false) ->
  panics_only P (sc_concat (sc_write_item cfg) (map mk l)).
Proof.
  intros H. unfold sc_concat. apply po_bind; [|intros; exact I]. apply po_mapM. intros x Hx.
  apply in_map_iff in Hx as (a & <- & _). apply sc_write_item_po. apply H.
Qed.

Theorem sc_generate_po pd : panics_only P (sc_generate uc cfg pd).
Proof.
  unfold sc_generate. cbv zeta.
  pose proof (sc_concat_po ItAlias (p_aliases pd) (fun _ => eq_refl)) as Ha.
  pose proof (sc_concat_po ItStruct (p_structs pd) (fun _ => eq_refl)) as Hs.
  pose proof (sc_concat_po ItEnum (p_enums pd) (fun _ => eq_refl)) as He.
  apply po_bind; [unfold sc_begin_file; cbv zeta; destruct (sc_package cfg); exact I|]. intros head _.
  apply po_bind.
  { destruct (_ || _); [|exact I]. apply po_bind; [exact Ha|]. intros; exact I. }
  intros po _. apply po_bind; [|intros; exact I].
  destruct (_ || _); [|exact I]. apply po_bind; [exact Hs|]. intros ? _. apply po_bind; [exact He|]. intros; exact I.
Qed.
End SCP.

Theorem sc_generate_never_panics uc cfg pd : no_panic (sc_generate uc cfg pd).
Proof. apply sc_generate_po. Qed.
