(* C14, the workspace level: parse_workspace -> collector -> reconcile -> multi_plan -> used_imports.
   Partition (against Spec.C14Spec.crate_items and against the single-file run), import soundness in the
   spec's terms, import completeness on dom_C14.  All for arbitrary workspaces and arbitrary order oracles. *)
From Coq Require Import List Bool Lia ZifyBool ZifyN Permutation String FinFun.
From TS Require Import Model.Str Model.Outcome Model.Unicode Model.Syntax Model.Attrs Model.Rename Model.Types Model.Parse
                       Model.Reconcile Model.Collect Model.Lang.Common Model.MultiFile.
From TS Require Model.Writer.
From TS Require Import Spec.C11Spec Spec.C14Spec.
From TS Require Import Proofs.SortLemmas Proofs.C06 Proofs.FrontItems Proofs.C14 Proofs.C14Front.
Import ListNotations.
Local Open Scope N_scope.

(* ====================================================================================== *)
(* small list facts                                                                         *)
(* ====================================================================================== *)
Lemma flat_map_perm_pointwise {A B} (f g : A -> list B) l :
  (forall x, In x l -> Permutation (f x) (g x)) -> Permutation (flat_map f l) (flat_map g l).
Proof.
  induction l as [|x l IH]; intros H; cbn [flat_map]; [constructor|].
  apply Permutation_app; [apply H; now left|apply IH; intros y Hy; apply H; now right].
Qed.
Lemma flat_map_map_in {A B C} (f : B -> list C) (g : A -> B) l : flat_map f (map g l) = flat_map (fun x => f (g x)) l.
Proof. induction l as [|x l IH]; [reflexivity|]. cbn [map flat_map]. now rewrite IH. Qed.
Lemma nodup_fst_inj {A B} (l : list (A * B)) k a b : NoDup (map fst l) -> In (k, a) l -> In (k, b) l -> a = b.
Proof.
  induction l as [|[k' v] l IH]; intros ND Ha Hb; [destruct Ha|]. cbn [map fst] in ND. inversion ND as [|? ? Hn ND']; subst.
  destruct Ha as [[= -> ->]|Ha], Hb as [[= <-]|Hb]; try reflexivity.
  - exfalso. apply Hn. apply in_map_iff. now exists (k, b).
  - subst. exfalso. apply Hn. apply in_map_iff. now exists (k', a).
  - now apply IH.
Qed.
Lemma dedup14_in x l : In x (dedup14 l) <-> In x l.
Proof.
  induction l as [|y l IH]; cbn [dedup14]; [tauto|]. destruct (mem_str y l) eqn:E.
  - apply mem_str_in in E. rewrite IH. cbn [In]. split; [tauto|]. intros [<-|H]; assumption.
  - cbn [In]. now rewrite IH.
Qed.

(* ====================================================================================== *)
(* declarations survive reconcile                                                           *)
(* ====================================================================================== *)
Lemma reconcile_decls rn cn pd :
  Permutation (map c14_decl (items_of (reconcile_crate rn cn pd))) (map c14_decl (items_of pd)).
Proof.
  unfold items_of, reconcile_crate. cbn [p_aliases p_structs p_enums p_consts]. rewrite !map_app.
  repeat apply Permutation_app.
  - etransitivity; [apply Permutation_map, Permutation_map, stable_sort_perm|]. rewrite !map_map. apply Permutation_refl.
  - etransitivity; [apply Permutation_map, Permutation_map, stable_sort_perm|]. rewrite !map_map. apply Permutation_refl.
  - etransitivity; [apply Permutation_map, Permutation_map, stable_sort_perm|]. rewrite !map_map.
    erewrite map_ext; [apply Permutation_refl|]. intros [sh|t c sh]; reflexivity.
  - etransitivity; [apply Permutation_map, Permutation_map, stable_sort_perm|]. rewrite !map_map. apply Permutation_refl.
Qed.

Lemma items_single_perm pds : Permutation (items_of (collect_single pds)) (flat_map items_of pds).
Proof.
  unfold items_of. rewrite single_aliases, single_structs, single_enums, single_consts. symmetry.
  etransitivity; [apply flat_map_app_perm|]. rewrite flat_map_map_out. apply Permutation_app_head.
  etransitivity; [apply flat_map_app_perm|]. rewrite flat_map_map_out. apply Permutation_app_head.
  etransitivity; [apply flat_map_app_perm|]. rewrite !flat_map_map_out. apply Permutation_refl.
Qed.

(* ====================================================================================== *)
(* type names through the collector                                                         *)
(* ====================================================================================== *)
Lemma fold_tn_insert_in n xs : forall acc, In n (fold_left (fun acc x => tn_insert x acc) xs acc) <-> In n acc \/ In n xs.
Proof.
  induction xs as [|x xs IH]; intros acc; cbn [fold_left]; [cbn; tauto|].
  rewrite IH, tn_insert_in. cbn [In]. intuition congruence.
Qed.
Lemma pd_add_tn n a b : In n (p_type_names (pd_add a b)) <-> In n (p_type_names a) \/ In n (p_type_names b).
Proof. unfold pd_add. cbn [p_type_names]. apply fold_tn_insert_in. Qed.
Lemma collect_single_tn n pds : In n (p_type_names (collect_single pds)) <-> exists pd, In pd pds /\ In n (p_type_names pd).
Proof.
  induction pds as [|p pds IH] using rev_ind.
  - cbn. split; [intros []|intros (pd & [] & _)].
  - rewrite collect_single_snoc, pd_add_tn, IH. split.
    + intros [(pd & Hpd & Hn)|Hn]; [exists pd; split; [apply in_app_iff; now left|exact Hn]|exists p; split; [apply in_app_iff; right; now left|exact Hn]].
    + intros (pd & Hpd & Hn). apply in_app_iff in Hpd as [Hpd|[<-|[]]]; [left; now exists pd|now right].
Qed.
Lemma collect_single_imports pds : p_imports (collect_single pds) = flat_map p_imports pds.
Proof. unfold collect_single. now rewrite fold_add_imports. Qed.

(* ====================================================================================== *)
(* the crates after collect / order_imports / reconcile_aliases                             *)
(* ====================================================================================== *)
Section Crates.
Variable ho_crate : list imported -> list imported.

Lemma multi_crates_keys arrivals : map fst (multi_crates ho_crate arrivals) = map fst (collect arrivals).
Proof. unfold multi_crates, reconcile_aliases, order_imports. rewrite !map_map. reflexivity. Qed.

Lemma multi_crates_nodup arrivals : NoDup (map fst (multi_crates ho_crate arrivals)).
Proof. rewrite multi_crates_keys. apply collect_nodup. Qed.

(* an entry of the final map: the collector's entry for that crate, imports put in iteration order, reconciled *)
Lemma multi_crates_entry arrivals c pd : In (c, pd) (multi_crates ho_crate arrivals) ->
  exists pds rn, of_crate c arrivals = pds /\ pds <> [] /\
    pd = reconcile_crate rn c (with_imports (collect_single pds) (imports_iter ho_crate (collect_single pds))).
Proof.
  unfold multi_crates, reconcile_aliases, order_imports. intros H.
  apply in_map_iff in H as ([c1 p1] & E1 & H). apply in_map_iff in H as ([c2 p2] & E2 & H). cbn [fst snd] in *.
  injection E2 as <- <-. injection E1 as <- <-.
  apply in_crates_get in H; [|apply collect_nodup]. rewrite collect_get in H.
  destruct (of_crate c2 arrivals) as [|p ps] eqn:F; [discriminate|]. injection H as <-.
  eexists. eexists. split; [reflexivity|]. split; [discriminate|reflexivity].
Qed.
Lemma multi_crates_has arrivals c pdm : In (c, pdm) arrivals -> exists pd, In (c, pd) (multi_crates ho_crate arrivals).
Proof.
  intros H. destruct (partition_member arrivals c pdm H) as (pdc & Hin & _).
  unfold multi_crates, reconcile_aliases, order_imports. eexists. apply in_map_iff. eexists (c, _). split; [reflexivity|].
  apply in_map_iff. exists (c, pdc). split; [reflexivity|exact Hin].
Qed.

Lemma entry_type_names rn c pds n :
  In n (p_type_names (reconcile_crate rn c (with_imports (collect_single pds) (imports_iter ho_crate (collect_single pds))))) <->
  exists pd, In pd pds /\ In n (p_type_names pd).
Proof. cbn [reconcile_crate p_type_names with_imports]. apply collect_single_tn. Qed.

(* the import set reconcile_aliases puts back: every import of the collector's entry, under the name its crate
   generates the type under (rename_import) *)
Lemma entry_imports rn c pds imp : oracle_ok ho_crate ->
  (In imp (p_imports (reconcile_crate rn c (with_imports (collect_single pds) (imports_iter ho_crate (collect_single pds))))) <->
   exists pd imp0, In pd pds /\ In imp0 (p_imports pd) /\ imp = rename_import rn imp0).
Proof.
  intros Ho. unfold oracle_ok in Ho. cbn [reconcile_crate p_imports with_imports]. rewrite imp_extend_in, in_map_iff. unfold imports_iter.
  split.
  - intros [[]|(imp0 & <- & H)]. rewrite Ho, imp_extend_in, collect_single_imports, in_flat_map in H.
    destruct H as [[]|(pd & Hpd & H)]. now exists pd, imp0.
  - intros (pd & imp0 & Hpd & H & ->). right. exists imp0. split; [reflexivity|].
    rewrite Ho, imp_extend_in, collect_single_imports, in_flat_map. right. now exists pd.
Qed.

(* the rename table of the run (reconcile.rs:23 collect_serde_renames over the collector's map) *)
Definition multi_rn (arrivals : list (str * parsed)) : renames :=
  collect_serde_renames (order_imports ho_crate (collect arrivals)).

Lemma multi_crates_entry_rn arrivals c pd : In (c, pd) (multi_crates ho_crate arrivals) ->
  exists pds, of_crate c arrivals = pds /\ pds <> [] /\
    pd = reconcile_crate (multi_rn arrivals) c (with_imports (collect_single pds) (imports_iter ho_crate (collect_single pds))).
Proof.
  unfold multi_crates, reconcile_aliases, multi_rn. set (rn := collect_serde_renames _). unfold order_imports. intros H.
  apply in_map_iff in H as ([c1 p1] & E1 & H). apply in_map_iff in H as ([c2 p2] & E2 & H). cbn [fst snd] in *.
  injection E2 as <- <-. injection E1 as <- <-.
  apply in_crates_get in H; [|apply collect_nodup]. rewrite collect_get in H.
  destruct (of_crate c2 arrivals) as [|p ps] eqn:F; [discriminate|]. injection H as <-.
  eexists. split; [reflexivity|]. split; [discriminate|reflexivity].
Qed.

Lemma entry_decls rn c pds :
  Permutation (map c14_decl (items_of (reconcile_crate rn c (with_imports (collect_single pds) (imports_iter ho_crate (collect_single pds))))))
              (map c14_decl (flat_map items_of pds)).
Proof.
  etransitivity; [apply reconcile_decls|]. rewrite items_of_with_imports. apply Permutation_map, items_single_perm.
Qed.
End Crates.

(* ====================================================================================== *)
(* the rename table, entry by entry                                                         *)
(* ====================================================================================== *)
Lemma lookup_rename_in rn n d r : lookup_rename rn n d = Some r -> In (n, d, r) rn.
Proof.
  unfold lookup_rename. destruct (find _ (rev rn)) as [[[a b] x]|] eqn:F; [|discriminate]. cbn [option_map snd]. intros [= ->].
  apply find_some in F as [Hin E]. cbn [fst snd] in E. apply andb_true_iff in E as [E1 E2]. apply str_eqb_eq in E1, E2. subst.
  now apply in_rev in Hin.
Qed.
Lemma lookup_rename_none rn n d r : lookup_rename rn n d = None -> ~ In (n, d, r) rn.
Proof.
  unfold lookup_rename. destruct (find _ (rev rn)) as [x|] eqn:F; [discriminate|]. intros _ Hin. apply in_rev in Hin.
  pose proof (find_none _ _ F _ Hin) as K. cbn [fst snd] in K. now rewrite !str_eqb_refl in K.
Qed.

Definition renames_item (it : ritem) (n r : str) : Prop :=
  is_type14 it = true /\ original (item_id it) = n /\ renamed (item_id it) = r /\ via_serde_rename (item_id it) = true.

Lemma crate_renames_in cn pd n d r :
  In (n, d, r) (crate_renames cn pd) <-> d = cn /\ exists it, In it (items_of pd) /\ renames_item it n r.
Proof.
  unfold crate_renames, items_of, renames_item. rewrite !in_app_iff, !in_flat_map. split.
  - intros [(x & Hx & H)|[(x & Hx & H)|(x & Hx & H)]]; cbv zeta in H.
    + destruct (via_serde_rename (sid x)) eqn:V; [|destruct H]. destruct H as [[= <- <- <-]|[]]. split; [reflexivity|].
      exists (ItStruct x). split; [|cbn; auto]. rewrite !in_app_iff. right. left. now apply in_map.
    + destruct (via_serde_rename (eid (enum_shared x))) eqn:V; [|destruct H]. destruct H as [[= <- <- <-]|[]]. split; [reflexivity|].
      exists (ItEnum x). split; [|cbn; auto]. rewrite !in_app_iff. right. right. left. now apply in_map.
    + destruct (via_serde_rename (aid x)) eqn:V; [|destruct H]. destruct H as [[= <- <- <-]|[]]. split; [reflexivity|].
      exists (ItAlias x). split; [|cbn; auto]. rewrite !in_app_iff. left. now apply in_map.
  - intros (-> & it & Hit & Ty & <- & <- & V). rewrite !in_app_iff in Hit.
    destruct Hit as [H|[H|[H|H]]]; apply in_map_iff in H as (x & <- & Hx); cbn [item_id is_type14] in *; try discriminate.
    + right. right. exists x. split; [exact Hx|]. rewrite V. now left.
    + left. exists x. split; [exact Hx|]. rewrite V. now left.
    + right. left. exists x. split; [exact Hx|]. cbv zeta. rewrite V. now left.
Qed.

Lemma serde_renames_in cs n d r :
  In (n, d, r) (collect_serde_renames cs) <-> exists pd it, In (d, pd) cs /\ In it (items_of pd) /\ renames_item it n r.
Proof.
  unfold collect_serde_renames. rewrite in_flat_map. split.
  - intros ([k pd] & Hc & H). cbn [fst snd] in H. apply crate_renames_in in H as (-> & it & Hit & R). now exists pd, it.
  - intros (pd & it & Hc & Hit & R). exists (d, pd). split; [exact Hc|]. cbn [fst snd]. apply crate_renames_in. split; [reflexivity|]. now exists it.
Qed.

(* ====================================================================================== *)
(* the workspace                                                                            *)
(* ====================================================================================== *)
Section WS.
Variable uc : unicode.
Variable T : list str.        (* --target-os *)
Variable ign : list str.      (* ParseContext::ignored_types *)
Variable ho_file : list imported -> list imported.

(* what the specification is told about each source file: its path, its syntax, and its annotated items
   as the single-file front end parses them (tied to the code by C03/C08) *)
Definition c14_info (e : ws_entry) : src_info :=
  {| si_path := we_path e; si_file := we_file e;
     si_items := match parse_file uc (we_tstr e) T (we_file e) with Ok (Some pd) => items_of pd | _ => [] end |}.
Definition c14_infos (ws : list ws_entry) : list src_info := map c14_info ws.

Definition pfm (e : ws_entry) (cn : str) : outcome (option parsed) :=
  parse_file_multi uc (we_tstr e) T cn ign ho_file (we_file e).

Lemma parse_workspace_arrivals ws : forall arrivals, parse_workspace uc T ign ho_file ws = Ok arrivals ->
  (forall cn pd, In (cn, pd) arrivals -> exists e, In e ws /\ find_crate_name (we_path e) = Some cn /\ pfm e cn = Ok (Some pd)) /\
  (forall e cn, In e ws -> find_crate_name (we_path e) = Some cn ->
     exists o, pfm e cn = Ok o /\ forall pd, o = Some pd -> In (cn, pd) arrivals).
Proof.
  induction ws as [|e ws IH]; intros arrivals H; cbn [parse_workspace] in H.
  - injection H as <-. split; [intros ? ? []|intros ? ? []].
  - destruct (find_crate_name (we_path e)) as [cn|] eqn:F.
    + fold (pfm e cn) in H. destruct (pfm e cn) as [o| |] eqn:P; cbn [bind] in H; try discriminate.
      destruct (parse_workspace uc T ign ho_file ws) as [rest| |] eqn:R; cbn [bind] in H; try discriminate.
      injection H as <-. destruct (IH rest eq_refl) as (A1 & A2). split.
      * intros c pd Hin. assert (K : (o = Some pd /\ c = cn) \/ In (c, pd) rest).
        { destruct o as [p|]; [destruct Hin as [[= <- <-]|Hin]; auto|auto]. }
        destruct K as [[-> ->]|K]; [exists e; split; [now left|auto]|].
        destruct (A1 c pd K) as (e' & He' & R'). exists e'. split; [now right|exact R'].
      * intros e' c [<-|He'] Fc.
        -- rewrite F in Fc. injection Fc as <-. exists o. split; [exact P|]. intros pd ->. now left.
        -- destruct (A2 e' c He' Fc) as (o' & Po & Hall). exists o'. split; [exact Po|]. intros pd Hp.
           specialize (Hall pd Hp). destruct o; [now right|exact Hall].
    + destruct (IH arrivals H) as (A1 & A2). split.
      * intros c pd Hin. destruct (A1 c pd Hin) as (e' & He' & R'). exists e'. split; [now right|exact R'].
      * intros e' c [<-|He'] Fc; [congruence|]. exact (A2 e' c He' Fc).
Qed.

(* the single-file front end on the same files yields the same items, file by file *)
Lemma parse_workspace_single_rel ws : forall arrivals, parse_workspace uc T ign ho_file ws = Ok arrivals ->
  parse_workspace_single uc T (crate_entries ws) = Ok (map (fun a => core (snd a)) arrivals).
Proof.
  induction ws as [|e ws IH]; intros arrivals H; cbn [parse_workspace] in H.
  - injection H as <-. reflexivity.
  - unfold crate_entries. cbn [filter]. fold (crate_entries ws).
    destruct (find_crate_name (we_path e)) as [cn|] eqn:F; [|now apply IH].
    fold (pfm e cn) in H. destruct (pfm e cn) as [o| |] eqn:P; cbn [bind] in H; try discriminate.
    destruct (parse_workspace uc T ign ho_file ws) as [rest| |] eqn:R; cbn [bind] in H; try discriminate.
    injection H as <-. cbn [parse_workspace_single]. rewrite (IH rest eq_refl).
    pose proof (parse_file_multi_spec _ _ _ _ _ _ _ _ P) as S.
    destruct o as [pdm|]; [destruct S as (S & _)|]; rewrite S; reflexivity.
Qed.

(* the items the specification attributes to crate c = the items of the arrivals of crate c, in order *)
Lemma crate_items_arrivals c ws : forall arrivals, parse_workspace uc T ign ho_file ws = Ok arrivals ->
  crate_items (c14_infos ws) c = flat_map items_of (of_crate c arrivals).
Proof.
  induction ws as [|e ws IH]; intros arrivals H; cbn [parse_workspace] in H.
  - injection H as <-. reflexivity.
  - unfold crate_items, c14_infos. cbn [map flat_map]. fold (c14_infos ws). fold (crate_items (c14_infos ws) c).
    unfold in_crate. cbn [si_path c14_info si_items]. rewrite <- find_crate_name_spec.
    destruct (find_crate_name (we_path e)) as [cn|] eqn:F; [|cbn [app]; now apply IH].
    fold (pfm e cn) in H. destruct (pfm e cn) as [o| |] eqn:P; cbn [bind] in H; try discriminate.
    destruct (parse_workspace uc T ign ho_file ws) as [rest| |] eqn:R; cbn [bind] in H; try discriminate.
    injection H as <-. rewrite (IH rest eq_refl).
    pose proof (parse_file_multi_spec _ _ _ _ _ _ _ _ P) as S.
    destruct o as [pdm|].
    + destruct S as (S & _). rewrite S. unfold of_crate. cbn [filter fst]. rewrite (str_eqb_sym cn c).
      destruct (str_eqb c cn); [cbn [map flat_map snd]; now rewrite items_of_core|reflexivity].
    + rewrite S. now destruct (str_eqb c cn).
Qed.

Lemma crate_items_in c ws it :
  In it (crate_items (c14_infos ws) c) <->
  exists e pd0, In e ws /\ find_crate_name (we_path e) = Some c /\ parse_file uc (we_tstr e) T (we_file e) = Ok (Some pd0) /\ In it (items_of pd0).
Proof.
  unfold crate_items, c14_infos. rewrite in_flat_map. split.
  - intros (s & Hs & Hit). apply in_map_iff in Hs as (e & <- & He). unfold in_crate in Hit. cbn [si_path c14_info si_items] in Hit.
    rewrite <- find_crate_name_spec in Hit. destruct (find_crate_name (we_path e)) as [cn|] eqn:F; [|destruct Hit].
    destruct (str_eqb c cn) eqn:E; [|destruct Hit]. apply str_eqb_eq in E. subst cn.
    destruct (parse_file uc (we_tstr e) T (we_file e)) as [[pd0|]| |] eqn:P; try destruct Hit.
    exists e, pd0. auto.
  - intros (e & pd0 & He & F & P & Hit). exists (c14_info e). split; [apply in_map_iff; now exists e|].
    unfold in_crate. cbn [si_path c14_info si_items]. rewrite <- find_crate_name_spec, F, str_eqb_refl, P. exact Hit.
Qed.

(* a file of crate d that parses to something arrives at the collector, with its candidates *)
Lemma entry_arrival ws arrivals e d pd0 :
  parse_workspace uc T ign ho_file ws = Ok arrivals ->
  In e ws -> find_crate_name (we_path e) = Some d -> parse_file uc (we_tstr e) T (we_file e) = Ok (Some pd0) ->
  exists pdm pd1, In (d, pdm) arrivals /\ pd0 = core pdm /\ core pd1 = core pdm /\
                  pdm = reconcile_referenced_types uc ho_file pd1 /\ file_candidates uc d ign (we_file e) pd1.
Proof.
  intros H He F P. destruct (parse_workspace_arrivals ws arrivals H) as (_ & A2).
  destruct (A2 e d He F) as (o & Po & Hall). pose proof (parse_file_multi_spec _ _ _ _ _ _ _ _ Po) as S.
  destruct o as [pdm|]; [|rewrite S in P; discriminate].
  destruct S as (S & pd1 & C1 & R1 & FC). rewrite S in P. injection P as <-.
  exists pdm, pd1. split; [now apply Hall|]. split; [reflexivity|]. split; [exact C1|]. split; [exact R1|exact FC].
Qed.

Lemma arrival_entry ws arrivals d pdm :
  parse_workspace uc T ign ho_file ws = Ok arrivals -> In (d, pdm) arrivals ->
  exists e, In e ws /\ find_crate_name (we_path e) = Some d /\ parse_file uc (we_tstr e) T (we_file e) = Ok (Some (core pdm)).
Proof.
  intros H Hin. destruct (parse_workspace_arrivals ws arrivals H) as (A1 & _).
  destruct (A1 d pdm Hin) as (e & He & F & P). exists e. split; [exact He|]. split; [exact F|].
  exact (proj1 (parse_file_multi_spec _ _ _ _ _ _ _ _ P)).
Qed.

(* ====================================================================================== *)
(* (1) partition                                                                            *)
(* ====================================================================================== *)
Section Plan.
Variable l : lang.
Variable ho_crate : list imported -> list imported.
Variable hc : crate_types -> crate_types.
Variable ws : list ws_entry.
Variable arrivals : list (str * parsed).
Hypothesis HW : parse_workspace uc T ign ho_file ws = Ok arrivals.

Let cs := multi_crates ho_crate arrivals.
Let plan := multi_plan l hc cs.

Lemma plan_crates : map op_crate plan = map fst cs.
Proof. unfold plan, multi_plan. rewrite map_map. reflexivity. Qed.

Lemma plan_entry p : In p plan -> In (op_crate p, op_data p) cs /\ op_file p = output_file_name l (op_crate p) /\
  op_imports p = crate_imports hc cs (op_crate p) (op_data p).
Proof.
  unfold plan, multi_plan. intros H. apply in_map_iff in H as ([c pd] & <- & H). cbn [op_crate op_data op_file op_imports fst snd]. auto.
Qed.

Theorem partition_plan :
  (* one output file per crate, crates pairwise different, each file named after its crate *)
  NoDup (map op_crate plan) /\
  (forall p, In p plan -> op_file p = output_file_name l (op_crate p)) /\
  (* a crate has a file iff one of its source files yields something *)
  (forall c, In c (map op_crate plan) <->
     exists e pd0, In e ws /\ find_crate_name (we_path e) = Some c /\ parse_file uc (we_tstr e) T (we_file e) = Ok (Some pd0)) /\
  (* the file of crate c holds exactly the declarations of the source files whose path lies in crate c *)
  (forall p, In p plan -> Permutation (map c14_decl (items_of (op_data p))) (map c14_decl (crate_items (c14_infos ws) (op_crate p)))).
Proof.
  split; [rewrite plan_crates; apply multi_crates_nodup|]. split; [intros p Hp; apply (plan_entry p Hp)|]. split.
  - intros c. rewrite plan_crates. unfold cs. rewrite multi_crates_keys. split.
    + intros Hc. apply in_map_iff in Hc as ([c' pdc] & <- & Hin). cbn [fst].
      apply in_crates_get in Hin; [|apply collect_nodup]. rewrite collect_get in Hin.
      destruct (of_crate c' arrivals) as [|pdm ps] eqn:F; [discriminate|].
      assert (K : In (c', pdm) arrivals) by (apply in_of_crate; rewrite F; now left).
      destruct (arrival_entry ws arrivals c' pdm HW K) as (e & He & Fe & P). now exists e, (core pdm).
    + intros (e & pd0 & He & Fe & P). destruct (entry_arrival ws arrivals e c pd0 HW He Fe P) as (pdm & _ & Hin & _).
      destruct (partition_member arrivals c pdm Hin) as (pdc & Hc & _). apply in_map_iff. now exists (c, pdc).
  - intros p Hp. destruct (plan_entry p Hp) as (Hin & _). unfold cs in Hin.
    destruct (multi_crates_entry ho_crate arrivals _ _ Hin) as (pds & rn & <- & _ & ->).
    rewrite (crate_items_arrivals (op_crate p) ws arrivals HW). apply entry_decls.
Qed.

(* outside Swift two crates never share a file name *)
Theorem plan_files_distinct : l <> Swift -> NoDup (map op_file plan).
Proof.
  intros Hl. replace (map op_file plan) with (map (output_file_name l) (map op_crate plan)).
  - apply FinFun.Injective_map_NoDup; [intros a b; now apply output_file_name_injective|rewrite plan_crates; apply multi_crates_nodup].
  - rewrite map_map. apply map_ext_in. intros p Hp. symmetry. apply (plan_entry p Hp).
Qed.

(* the union over the files = what single-file mode generates from the same sources *)
Theorem partition_single singles :
  parse_workspace_single uc T (crate_entries ws) = Ok singles ->
  Permutation (flat_map (fun p => map c14_decl (items_of (op_data p))) plan)
              (map c14_decl (items_of (single_file_input singles))).
Proof.
  intros HS. rewrite (parse_workspace_single_rel ws arrivals HW) in HS. injection HS as <-.
  assert (E : flat_map items_of (map (fun a : str * parsed => core (snd a)) arrivals) = flat_map items_of (map snd arrivals)).
  { clear. induction arrivals as [|a r IH]; [reflexivity|]. cbn [map flat_map]. now rewrite IH. }
  transitivity (map c14_decl (flat_map (fun c : str * parsed => items_of (snd c)) (collect arrivals))).
  - unfold plan, multi_plan, cs, multi_crates, reconcile_aliases, order_imports. rewrite !flat_map_map_in. cbn [op_data fst snd].
    rewrite <- flat_map_map_out. apply flat_map_perm_pointwise. intros [c pdc] _. cbn [fst snd].
    etransitivity; [apply reconcile_decls|]. now rewrite items_of_with_imports.
  - unfold single_file_input. etransitivity; [|symmetry; apply reconcile_decls]. apply Permutation_map.
    etransitivity; [apply partition_union|]. etransitivity; [apply items_single_perm|]. rewrite <- E. symmetry. apply items_single_perm.
Qed.
End Plan.
End WS.

(* what reaches the writer: one generated text per plan entry, under the plan's file name *)
Section Gen.
Context {St : Type}.
Variable gen : St -> str -> scoped -> parsed -> outcome (str * St).
Lemma generate_crates_files plan : forall st st', snd (generate_crates gen st plan) = Ok st' ->
  map fst (fst (generate_crates gen st plan)) = map op_file plan /\
  Forall (fun r => exists text, snd r = Writer.Generated text) (fst (generate_crates gen st plan)).
Proof.
  induction plan as [|p r IH]; intros st st' H; cbn [generate_crates] in *; [split; [reflexivity|constructor]|].
  destruct (gen st (op_crate p) (op_imports p) (op_data p)) as [[text st1]| |]; cbn [snd] in H; try discriminate.
  specialize (IH st1 st'). destruct (generate_crates gen st1 r) as [rest fin] eqn:G. cbn [fst snd map] in *.
  destruct (IH H) as (I1 & I2).
  split; [now rewrite I1|]. constructor; [now exists text|exact I2].
Qed.
End Gen.
