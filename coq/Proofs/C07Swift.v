(* C07, the Swift back end: sw_generate never panics - every Unicode table, configuration and parsed data.
   The only partial operations swift.rs could reach were to_camel_case (rename.rs:22, total since the /repo
   fix: Proofs/C07.camel_never_panics) and write_const (an error since the fix of swift.rs:268). *)
From Coq Require Import String List Bool Permutation.
From TS Require Import Model.Str Model.Outcome Model.Unicode Model.Types Model.Parse Model.Rename
                       Model.TopsortAlgo Model.Topsort Model.Lang.Common Model.Lang.Decl Model.Lang.Swift.
From TS Require Import Spec.C07BackSpec.
From TS Require Import Proofs.C07 Proofs.C07Monad Proofs.C07Topsort.
Import ListNotations.

Lemma sw_lift_po {A} P (o : outcome A) : panics_only P o -> mpo P (sw_lift o).
Proof. intros H s. unfold sw_lift. destruct o; cbn in *; auto. Qed.

Lemma camel_po P s : panics_only P (to_camel_case s).
Proof. apply no_panic_is_panic. apply camel_never_panics. Qed.

Section SWP.
Variable uc : unicode.
Variable cfg : sw_config.
Variable P : string -> Prop.

Lemma sw_texp_po g t : mpo P (sw_texp cfg g t).
Proof.
  induction t as [id|id ps IH|x IH|x n IH|x IH|k v IHk IHv|x IH|p] using rtype_ind'; cbn [sw_texp].
  - apply mpo_ret.
  - destruct (tmap_get (sw_type_mappings cfg) id); [apply mpo_ret|].
    apply mpo_bind; [|intros; apply mpo_ret].
    induction IH as [|x r Hx _ IHr]; [apply mpo_ret|].
    apply mpo_bind; [exact Hx|]. intros y. apply mpo_bind; [exact IHr|]. intros; apply mpo_ret.
  - po_walk.
  - po_walk.
  - po_walk.
  - po_walk.
  - po_walk.
  - destruct p; po_walk.
Qed.
Hint Resolve sw_texp_po : c07.

Lemma sw_field_texp_po g f : mpo P (sw_field_texp cfg g f).
Proof. unfold sw_field_texp. po_walk. Qed.
Hint Resolve sw_field_texp_po : c07.

Lemma sw_struct_po rs : mpo P (sw_struct_of uc cfg rs).
Proof. unfold sw_struct_of. po_walk. Qed.
Hint Resolve sw_struct_po : c07.

Lemma sw_inner_po sh vs : mpo P (sw_inner_structs_of uc cfg sh vs).
Proof.
  induction vs as [|v r IH]; cbn [sw_inner_structs_of]; [apply mpo_ret|].
  destruct v; po_walk.
Qed.
Hint Resolve sw_inner_po : c07.

Lemma sw_unit_variant_po v : mpo P (sw_unit_variant_of uc v).
Proof. unfold sw_unit_variant_of. cbv zeta. apply mpo_bind; [apply sw_lift_po, camel_po|]. intros; apply mpo_ret. Qed.
Hint Resolve sw_unit_variant_po : c07.

Lemma sw_variant_po sh v : mpo P (sw_variant_of uc cfg sh v).
Proof.
  unfold sw_variant_of. cbv zeta. apply mpo_bind; [apply sw_lift_po, camel_po|]. intros camel. po_walk.
Qed.
Hint Resolve sw_variant_po : c07.

Lemma sw_enum_po e : mpo P (sw_enum_of uc cfg e).
Proof. unfold sw_enum_of. po_walk. Qed.
Hint Resolve sw_enum_po : c07.

Lemma sw_decl_po it : mpo P (sw_decl_of uc cfg it).
Proof. unfold sw_decl_of. po_walk. Qed.
Hint Resolve sw_decl_po : c07.

Lemma sw_write_item_po it : mpo P (sw_write_item uc cfg it).
Proof. unfold sw_write_item. po_walk. Qed.

Theorem sw_generate_po pd : panics_only P (sw_generate uc cfg pd).
Proof.
  unfold sw_generate. destruct (topsort_total (items_of pd)) as (items & E & _). rewrite E. cbn [bind].
  assert (Hm : mpo P (mconcat (sw_write_item uc cfg) items)).
  { apply mpo_mconcat. intros it _. apply sw_write_item_po. }
  specialize (Hm false). destruct (mconcat (sw_write_item uc cfg) items false) as [[body st]| |]; auto.
Qed.
End SWP.

Theorem sw_generate_never_panics uc cfg pd : no_panic (sw_generate uc cfg pd).
Proof. apply sw_generate_po. Qed.
