(* C10 multi-file: non-vacuity.  The two-crate workspace of Proofs/C11MultiWitness.v (ws_order)
     alpha/src/lib.rs:  type Ids = Vec<Item>;  struct Item { kind: Kind }  enum Kind { Big, Small }
     beta/src/lib.rs:   use alpha::Item;  struct Holder { item: Item }
   evaluated inside Coq: the multi-file front end succeeds, the plan of every language satisfies the hypotheses of the
   theorems of Props/C10.v (c10_plan_ok, and the table-level hypotheses of multi_plan_ok), crate beta imports Item from
   alpha, all six runs complete, beta.ts / beta.kt carry the import line, and every generated file is balanced. *)
From Coq Require Import List Bool String.
From TS Require Import Model.Str Model.Outcome Model.Unicode Model.Types Model.Parse Model.Reconcile Model.Collect
                       Model.Lang.Common Model.Lang.TypeScript Model.Lang.Kotlin Model.Lang.Swift Model.Lang.Scala
                       Model.Lang.Go Model.Lang.Python Model.MultiFile.
From TS Require Model.Writer.
From TS Require Import Spec.C10Spec Spec.C10MultiSpec.
From TS Require Import Proofs.C14Witness Proofs.C11MultiWitness Proofs.C10Multi.
From TS Require Proofs.C10 Proofs.C10_TSFile Proofs.C10_KT Proofs.C10_SC Proofs.C10_GOFile Proofs.C10_SWFile Proofs.C10_PYFile.
Import ListNotations.
Local Open Scope string_scope.
Local Open Scope list_scope.

(* the generated texts of a run, None for a failed file *)
Definition w_texts {St} (r : list (str * Writer.gen_result) * outcome St) : list (str * option str) :=
  map (fun f => (fst f, match snd f with Writer.Generated t => Some t | Writer.GenFailed => None end)) (fst r).
Definition w_all_good (l : c10_lang) (ts : list (str * option str)) : bool :=
  forallb (fun f => match snd f with Some t => good_C10_lex l t | None => false end) ts.
Definition w_file_contains (name : str) (needle : string) (ts : list (str * option str)) : bool :=
  existsb (fun f => str_eqb (fst f) name && match snd f with Some t => contains_sub (lit needle) t | None => false end) ts.
Definition w_table_ok (l : c10_lang) (cs : crates) : bool :=
  forallb (fun c => dom_C10 l (snd c) && c10_crate_ok (fst c) && forallb c10_ident_ok (p_type_names (snd c))) cs.

Example C10_multi_nonvacuous :
  exists arrivals,
    parse_workspace uc_exec [] [] (fun l => l) ws_order = Ok arrivals /\
    let cs := multi_crates idl arrivals in
    map (fun p => (op_crate p, op_imports p)) (multi_plan TypeScript idl cs) =
      [(lit "alpha", []); (lit "beta", [(lit "alpha", [lit "Item"])])] /\
    forallb (fun l => w_table_ok l cs) [CTS; CKT; CSW; CSC; CGO; CPY] = true /\
    c10_plan_ok CTS (multi_plan TypeScript idl cs) = true /\ c10_plan_ok CKT (multi_plan Kotlin idl cs) = true /\
    c10_plan_ok CSW (multi_plan Swift idl cs) = true /\ c10_plan_ok CGO (multi_plan Go idl cs) = true /\
    c10_plan_ok CPY (multi_plan Python idl cs) = true /\ c10_plan_ok CSC (multi_plan Scala idl cs) = true /\
    Proofs.C10_TSFile.c10_ts_cfg_ok Proofs.C10.w_ts_cfg = true /\ Proofs.C10_KT.c10_kt_cfg_ok Proofs.C10.w_kt_cfg = true /\
    Proofs.C10_SWFile.c10_sw_cfg_ok Proofs.C10.w_sw_cfg = true /\ Proofs.C10_GOFile.c10_go_cfg_ok Proofs.C10.w_go_cfg = true /\
    Proofs.C10_PYFile.c10_py_cfg_ok Proofs.C10.w_py_cfg = true /\ Proofs.C10_SC.c10_sc_cfg_ok (Proofs.C10.w_sc_cfg "com.x") = true /\
    (let r := w_texts (generate_crates (fun st (_ : str) im pd => ts_generate_multi uc_exec Proofs.C10.w_ts_cfg st im pd) []
                                       (multi_plan TypeScript idl cs)) in
     map fst r = [lit "alpha.ts"; lit "beta.ts"] /\ w_all_good CTS r = true /\
     w_file_contains (lit "beta.ts") "import { Item } from ""./alpha"";" r = true) /\
    (let r := w_texts (generate_crates (fun (st : unit) c im pd => wrap_unit st (kt_generate_multi uc_exec Proofs.C10.w_kt_cfg c im pd)) tt
                                       (multi_plan Kotlin idl cs)) in
     map fst r = [lit "alpha.kt"; lit "beta.kt"] /\ w_all_good CKT r = true /\
     w_file_contains (lit "beta.kt") "package com.x.beta" r = true /\
     w_file_contains (lit "beta.kt") "import com.x.alpha.OPItem" r = true) /\
    (let r := w_texts (generate_crates (fun st (_ : str) (_ : scoped) pd => sw_generate_multi uc_exec Proofs.C10.w_sw_cfg st pd) false
                                       (multi_plan Swift idl cs)) in
     map fst r = [lit "Alpha.swift"; lit "Beta.swift"] /\ w_all_good CSW r = true) /\
    (let r := w_texts (generate_crates (fun st (_ : str) (_ : scoped) pd => go_generate_multi uc_exec Proofs.C10.w_go_cfg st pd) []
                                       (multi_plan Go idl cs)) in
     map fst r = [lit "alpha.go"; lit "beta.go"] /\ w_all_good CGO r = true) /\
    (let r := w_texts (generate_crates (fun st (_ : str) (_ : scoped) pd => py_generate_multi uc_exec Proofs.C10.w_py_cfg st pd) py_empty_state
                                       (multi_plan Python idl cs)) in
     map fst r = [lit "alpha.py"; lit "beta.py"] /\ w_all_good CPY r = true) /\
    (let r := w_texts (generate_crates (fun (st : unit) (_ : str) (_ : scoped) pd => wrap_unit st (sc_generate uc_exec (Proofs.C10.w_sc_cfg "com.x") pd)) tt
                                       (multi_plan Scala idl cs)) in
     map fst r = [lit "alpha.scala"; lit "beta.scala"] /\ w_all_good CSC r = true) /\
    good_C10_lex CSW (sw_codable_contents Proofs.C10.w_sw_cfg) = true.
Proof.
  eexists. split; [vm_compute; reflexivity|]. cbv zeta. repeat split; vm_compute; reflexivity.
Qed.

(* the hypothesis on the import map is needed: a crate directory named with a double quote ends the TypeScript module
   string early - the import line of the (model's) multi-file generator is then not balanced *)
Example C10_multi_imports_hypothesis_needed :
  c10_imports_ok [(lit "al""pha", [lit "Item"])] = false /\
  good_C10_lex CTS (ts_write_imports [(lit "al""pha", [lit "Item"])]) = false /\
  c10_imports_ok [(lit "alpha", [lit "Item"])] = true /\
  good_C10_lex CTS (ts_write_imports [(lit "alpha", [lit "Item"])]) = true.
Proof. repeat split; vm_compute; reflexivity. Qed.
