(* C07, the Python back end: py_generate panics only at python.rs:368 (`unreachable!` for a non-unit variant
   inside a RustEnum::Unit), hence never on what the front end delivers. *)
From Coq Require Import String List Bool Permutation.
From TS Require Import Model.Str Model.Outcome Model.Unicode Model.Types Model.Parse Model.Rename
                       Model.TopsortAlgo Model.Topsort Model.Lang.Common Model.Lang.Decl Model.Lang.Python.
From TS Require Import Spec.C07BackSpec.
From TS Require Import Proofs.C07Monad Proofs.C07Topsort Proofs.C07TypeScript.
Import ListNotations.

Section PYP.
Variable uc : unicode.
Variable cfg : py_config.
Variable P : string -> Prop.
Notation s368 := "python.rs:368"%string.

Lemma py_add_import_po m i : mpo P (py_add_import m i).
Proof. unfold py_add_import. po_walk. Qed.
Hint Resolve py_add_import_po : c07.

Lemma py_add_type_var_po n : mpo P (py_add_type_var n).
Proof. unfold py_add_type_var. po_walk. Qed.
Hint Resolve py_add_type_var_po : c07.

Lemma py_add_type_vars_po ns : mpo P (py_add_type_vars ns).
Proof. induction ns as [|n r IH]; cbn [py_add_type_vars]; po_walk. Qed.
Hint Resolve py_add_type_vars_po : c07.

Lemma py_add_custom_type_po t : mpo P (py_add_custom_type t).
Proof. unfold py_add_custom_type. po_walk. Qed.
Hint Resolve py_add_custom_type_po : c07.

Lemma py_add_imports_po t : mpo P (py_add_imports t).
Proof. unfold py_add_imports. po_walk. Qed.
Hint Resolve py_add_imports_po : c07.

Lemma py_add_common_imports_po a b c : mpo P (py_add_common_imports a b c).
Proof. unfold py_add_common_imports. po_walk. Qed.
Hint Resolve py_add_common_imports_po : c07.

Lemma py_texp_po g t : mpo P (py_texp cfg g t).
Proof.
  induction t as [id|id ps IH|x IH|x n IH|x IH|k v IHk IHv|x IH|p] using rtype_ind'; cbn [py_texp].
  - po_walk.
  - apply mpo_bind; [apply py_add_imports_po|]. intros _.
    destruct (tmap_get (py_type_mappings cfg) id); [apply mpo_ret|].
    apply mpo_bind; [|intros; apply mpo_ret].
    induction IH as [|x r Hx _ IHr]; [apply mpo_ret|].
    apply mpo_bind; [exact Hx|]. intros y. apply mpo_bind; [exact IHr|]. intros; apply mpo_ret.
  - po_walk.
  - po_walk.
  - po_walk.
  - po_walk.
  - po_walk.
  - destruct p; po_walk.
Qed.
Hint Resolve py_texp_po : c07.

Lemma py_member_po g f : mpo P (py_member_of uc cfg g f).
Proof. unfold py_member_of. po_walk. Qed.
Hint Resolve py_member_po : c07.

Lemma py_populate_po fs : mpo P (py_populate_by_name uc fs).
Proof. unfold py_populate_by_name. po_walk. Qed.
Hint Resolve py_populate_po : c07.

Lemma py_class_po s : mpo P (py_class_of uc cfg s).
Proof. unfold py_class_of. po_walk. Qed.
Hint Resolve py_class_po : c07.

Lemma py_inner_po e vs : mpo P (py_inner_classes_of uc cfg e vs).
Proof. induction vs as [|v r IH]; cbn [py_inner_classes_of]; [apply mpo_ret|]. destruct v; po_walk. Qed.
Hint Resolve py_inner_po : c07.

Lemma py_variant_po en tn sh v : mpo P (py_variant_of uc cfg en tn sh v).
Proof. unfold py_variant_of. po_walk. Qed.
Hint Resolve py_variant_po : c07.

Lemma py_algebraic_po tk ck en sh : mpo P (py_algebraic_of uc cfg tk ck en sh).
Proof. unfold py_algebraic_of. po_walk. Qed.
Hint Resolve py_algebraic_po : c07.

Lemma py_decl_po it : (item_wf it = false -> P s368) -> mpo P (py_decl_of uc cfg it).
Proof.
  intros H. destruct it as [st|[sh|tg ct sh]|a|c]; cbn [py_decl_of enum_shared]; try solve [po_walk].
  apply mpo_bind; [apply py_inner_po|]. intros inners. apply mpo_bind; [apply py_add_import_po|]. intros _.
  apply mpo_bind; [|intros; apply mpo_ret]. apply mpo_mmapM. intros v Hv. unfold py_unit_variant_of.
  destruct v; [apply mpo_ret| |]; apply mpo_mpanic; apply H; cbn [item_wf enum_wf];
    eapply forallb_false_In; try eassumption; reflexivity.
Qed.

Lemma py_write_item_po it : (item_wf it = false -> P s368) -> mpo P (py_write_item uc cfg it).
Proof. intros H. unfold py_write_item. apply mpo_bind; [now apply py_decl_po|]. intros; apply mpo_ret. Qed.

Theorem py_generate_po pd : (pd_wf pd = false -> P s368) -> panics_only P (py_generate uc cfg pd).
Proof.
  intros H. unfold py_generate. destruct (topsort_total (items_of pd)) as (items & E & Pm). rewrite E. cbn [bind].
  assert (Hm : mpo P (mconcat (py_write_item uc cfg) items)).
  { apply mpo_mconcat. intros it Hin. apply py_write_item_po. intros Ef. apply H.
    eapply items_wf; [|exact Ef]. eapply Permutation_in; eassumption. }
  specialize (Hm py_empty_state). destruct (mconcat (py_write_item uc cfg) items py_empty_state) as [[body st]| |]; auto.
Qed.
End PYP.

Theorem py_generate_never_panics uc cfg pd : pd_wf pd = true -> no_panic (py_generate uc cfg pd).
Proof. intros H. apply py_generate_po. rewrite H. discriminate. Qed.

Theorem py_generate_panics_only uc cfg pd :
  panics_only (fun s => pd_wf pd = false /\ s = "python.rs:368"%string) (py_generate uc cfg pd).
Proof. apply py_generate_po. auto. Qed.
