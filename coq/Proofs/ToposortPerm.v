(* toposort_impl (DFS with the early `return`) returns a permutation of 0..n-1 for EVERY graph
   with in-range entries: cycles, self-loops, duplicates included.  Also: on a graph where the
   cycle `return` never fires (acyclic), every node is emitted after all of its dependencies.
   Invariant: [seen] is the current DFS stack (NoDup, disjoint from [res]); every call returns
   with [seen] restored; [res] only grows; at top level seen = [] so the cycle return cannot fire
   and every node ends up in [res]. Fuel S n suffices since |seen| <= n. *)
From Coq Require Import List Arith Bool Lia Permutation.
From TS Require Import Model.Outcome Model.TopsortAlgo.
Import ListNotations.
Local Open Scope nat_scope.

Lemma mem_In x l : mem x l = true <-> In x l.
Proof. unfold mem. rewrite existsb_exists. split.
  - intros [y [Hy E]]. apply Nat.eqb_eq in E. now subst.
  - intros H. exists x. split; [assumption|apply Nat.eqb_refl]. Qed.
Lemma mem_nIn x l : mem x l = false <-> ~ In x l.
Proof. rewrite <- mem_In. destruct (mem x l); split; congruence. Qed.
Lemma remove_first_last d l : ~ In d l -> remove_first d (l ++ [d]) = l.
Proof. induction l as [|y r IH]; simpl; intros H.
  - now rewrite Nat.eqb_refl.
  - destruct (Nat.eqb_spec d y); [subst; tauto|]. f_equal. apply IH. tauto. Qed.

Section G.
Variable g : graph.
Let n := length g.
Hypothesis wf : Forall (Forall (fun x => x < n)) g.

Definition Inv (s:st) : Prop :=
  NoDup (seen s) /\ NoDup (res s) /\ processed s = res s /\
  Forall (fun x => x < n) (seen s) /\ Forall (fun x => x < n) (res s) /\
  (forall x, In x (seen s) -> ~ In x (res s)).

Definition Post (nodes:list nat) (s s':st) : Prop :=
  Inv s' /\ seen s' = seen s /\ incl (res s) (res s') /\
  (seen s = [] -> Forall (fun d => In d (res s')) nodes).

Lemma nth_error_wf d deps : nth_error g d = Some deps -> Forall (fun x => x < n) deps.
Proof. intros H. apply nth_error_In in H. rewrite Forall_forall in wf. now apply wf. Qed.

Lemma seen_bound s : Inv s -> length (seen s) <= n.
Proof. intros (ND & _ & _ & B & _).
  assert (H : incl (seen s) (seq 0 n)).
  { intros x Hx. apply in_seq. rewrite Forall_forall in B. specialize (B x Hx). lia. }
  apply NoDup_incl_length in H; [|assumption]. now rewrite seq_length in H. Qed.

Definition RecOK (rec : list nat -> st -> outcome st) (k:nat) : Prop :=
  forall nodes s, Inv s -> Forall (fun x => x < n) nodes -> k <= length (seen s) ->
    exists s', rec nodes s = Ok s' /\ Post nodes s s'.

Ltac psplit := unfold Post; split; [|split; [|split]].
Lemma loop_spec rec k : RecOK rec (S k) ->
  forall nodes s, Inv s -> Forall (fun x => x < n) nodes -> k <= length (seen s) ->
    exists s', loop rec g nodes s = Ok s' /\ Post nodes s s'.
Proof.
  intros HR nodes. induction nodes as [|d rest IH]; intros s HI HN Hk; cbn [loop].
  - exists s. split; [reflexivity|]. psplit; auto using incl_refl.
  - inversion HN as [|? ? Hd HNr]; subst.
    destruct (mem d (processed s)) eqn:Ep.
    + destruct (IH s HI HNr Hk) as (s' & E & (HI' & Hs & Hinc & Hall)).
      exists s'. split; [exact E|]. psplit; auto.
      intros Hnil. constructor; [|auto].
      apply Hinc. apply mem_In in Ep. destruct HI as (_ & _ & Hp & _). now rewrite <- Hp.
    + destruct (mem d (seen s)) eqn:Es.
      * exists s. split; [reflexivity|]. psplit; auto using incl_refl.
        intros Hnil. rewrite Hnil in Es. discriminate.
      * apply mem_nIn in Ep. apply mem_nIn in Es.
        destruct HI as (ND & NR & Hp & Bs & Br & Dj).
        rewrite Hp in Ep.
        set (s1 := {| res := res s; processed := processed s; seen := seen s ++ [d] |}).
        assert (HI1 : Inv s1).
        { unfold Inv, s1; cbn. repeat split; auto.
          - apply Permutation_NoDup with (l:= d :: seen s).
            + apply Permutation_cons_append.
            + constructor; assumption.
          - apply Forall_app; split; auto.
          - intros x Hx. apply in_app_or in Hx as [Hx|[->|[]]]; auto. }
        destruct (nth_error g d) as [deps|] eqn:Eg.
        2:{ apply nth_error_None in Eg. fold n in Eg. lia. }
        destruct (HR deps s1 HI1 (nth_error_wf d deps Eg)) as (s2 & E2 & (HI2 & Hs2 & Hinc2 & _)).
        { unfold s1; cbn. rewrite app_length. simpl. lia. }
        rewrite E2.
        destruct HI2 as (ND2 & NR2 & Hp2 & Bs2 & Br2 & Dj2).
        assert (Hd2 : ~ In d (res s2)). { apply Dj2. rewrite Hs2. unfold s1; cbn. apply in_or_app; right; left; reflexivity. }
        set (s3 := {| res := res s2 ++ [d]; processed := processed s2 ++ [d]; seen := remove_first d (seen s2) |}).
        assert (Hseen3 : seen s3 = seen s).
        { unfold s3; cbn. rewrite Hs2. unfold s1; cbn. now apply remove_first_last. }
        assert (HI3 : Inv s3).
        { unfold Inv. rewrite Hseen3. unfold s3; cbn. repeat split; auto.
          - apply Permutation_NoDup with (l:= d :: res s2); [apply Permutation_cons_append|constructor; assumption].
          - now rewrite Hp2.
          - apply Forall_app; split; auto.
          - intros x Hx Hin. apply in_app_or in Hin as [Hin|[->|[]]]; [|tauto].
            apply (Dj2 x); [|assumption]. rewrite Hs2. unfold s1; cbn. apply in_or_app; now left. }
        destruct (IH s3 HI3 HNr) as (s' & E & (HI' & Hs & Hinc & Hall)).
        { rewrite Hseen3. assumption. }
        exists s'. split; [exact E|]. psplit; auto.
        -- now rewrite Hs.
        -- intros x Hx. apply Hinc. unfold s3; cbn. apply in_or_app; left. apply Hinc2. exact Hx.
        -- intros Hnil. constructor.
           ++ apply Hinc. unfold s3; cbn. apply in_or_app; right; left; reflexivity.
           ++ apply Hall. now rewrite Hseen3.
Qed.

Lemma inner_spec fuel : RecOK (inner fuel g) (S n - fuel).
Proof.
  induction fuel as [|f IH]; intros nodes s HI HN Hk.
  - pose proof (seen_bound s HI). lia.
  - cbn [inner]. apply loop_spec with (k := S n - S f); auto.
    intros nodes' s' HI' HN' Hk'. apply IH; auto. lia.
Qed.

Theorem toposort_perm : exists r, toposort_impl g = Ok r /\ Permutation r (seq 0 n).
Proof.
  unfold toposort_impl. fold n.
  set (s0 := {| res := []; processed := []; seen := [] |}).
  assert (HI0 : Inv s0). { unfold Inv, s0; cbn. repeat split; auto; constructor. }
  destruct (inner_spec (S n) (seq 0 n) s0 HI0) as (s' & E & (HI' & _ & _ & Hall)).
  { apply Forall_forall. intros x Hx. apply in_seq in Hx. lia. }
  { cbn. lia. }
  rewrite E. cbn. exists (res s'). split; [reflexivity|].
  destruct HI' as (_ & NR & _ & _ & Br & _).
  apply NoDup_Permutation; auto using seq_NoDup.
  intros x. split.
  - intros Hx. apply in_seq. rewrite Forall_forall in Br. specialize (Br x Hx). lia.
  - intros Hx. specialize (Hall eq_refl). rewrite Forall_forall in Hall. now apply Hall.
Qed.
End G.

(* ---------- acyclic graphs: the result is a topological order ---------- *)
Section Acyclic.
Variable g : graph.
Let n := length g.
Hypothesis wf : Forall (Forall (fun x => x < n)) g.
(* acyclicity as a ranking: every edge goes to a strictly smaller rank *)
Variable rank : nat -> nat.
Hypothesis rank_edge : forall i deps d, nth_error g i = Some deps -> In d deps -> rank d < rank i.

(* built by appending; each appended node has all its dependencies already present *)
Inductive Ordered : list nat -> Prop :=
| O_nil : Ordered []
| O_snoc r x : Ordered r -> (forall deps, nth_error g x = Some deps -> incl deps r) -> Ordered (r ++ [x]).

Lemma Ordered_split r : Ordered r -> forall r1 x r2, r = r1 ++ x :: r2 ->
  forall deps, nth_error g x = Some deps -> incl deps r1.
Proof.
  induction 1 as [|r y HO IH Hy]; intros r1 x r2 E deps Hd.
  - destruct r1; discriminate.
  - destruct (list_eq_dec Nat.eq_dec r2 []) as [->|Hne].
    + apply app_inj_tail in E as [-> ->]. now apply Hy.
    + destruct (exists_last Hne) as (r2' & z & ->).
      rewrite app_comm_cons, app_assoc in E. apply app_inj_tail in E as [-> ->].
      eapply IH; eauto.
Qed.

Definition Inv2 (s:st) : Prop := Inv g s /\ Ordered (res s).
Definition Pre (nodes:list nat) (s:st) : Prop := forall x d, In x (seen s) -> In d nodes -> rank d < rank x.
Definition Post2 (nodes:list nat) (s s':st) : Prop :=
  Inv2 s' /\ seen s' = seen s /\ incl (res s) (res s') /\ Forall (fun d => In d (res s')) nodes.

Definition RecOK2 (rec : list nat -> st -> outcome st) (k:nat) : Prop :=
  forall nodes s, Inv2 s -> Pre nodes s -> Forall (fun x => x < n) nodes -> k <= length (seen s) ->
    exists s', rec nodes s = Ok s' /\ Post2 nodes s s'.

Ltac psplit2 := unfold Post2; split; [|split; [|split]].
Lemma loop_spec2 rec k : RecOK2 rec (S k) ->
  forall nodes s, Inv2 s -> Pre nodes s -> Forall (fun x => x < n) nodes -> k <= length (seen s) ->
    exists s', loop rec g nodes s = Ok s' /\ Post2 nodes s s'.
Proof.
  intros HR nodes. induction nodes as [|d rest IH]; intros s HI HP HN Hk; cbn [loop].
  - exists s. split; [reflexivity|]. psplit2; auto using incl_refl.
  - inversion HN as [|? ? Hd HNr]; subst.
    assert (HPr : Pre rest s). { intros x e Hx He. apply HP; [assumption|now right]. }
    destruct (mem d (processed s)) eqn:Ep.
    + destruct (IH s HI HPr HNr Hk) as (s' & E & (HI' & Hs & Hinc & Hall)).
      exists s'. split; [exact E|]. psplit2; auto.
      constructor; [|auto].
      apply Hinc. apply mem_In in Ep. destruct HI as ((_ & _ & Hp & _) & _). now rewrite <- Hp.
    + destruct (mem d (seen s)) eqn:Es.
      * apply mem_In in Es. specialize (HP d d Es (or_introl eq_refl)). lia.
      * apply mem_nIn in Ep. apply mem_nIn in Es.
        destruct HI as ((ND & NR & Hp & Bs & Br & Dj) & HO).
        rewrite Hp in Ep.
        set (s1 := {| res := res s; processed := processed s; seen := seen s ++ [d] |}).
        assert (HI1 : Inv2 s1).
        { split; [|exact HO]. unfold Inv, s1; cbn. repeat split; auto.
          - apply Permutation_NoDup with (l:= d :: seen s).
            + apply Permutation_cons_append.
            + constructor; assumption.
          - apply Forall_app; split; auto.
          - intros x Hx. apply in_app_or in Hx as [Hx|[->|[]]]; auto. }
        destruct (nth_error g d) as [deps|] eqn:Eg.
        2:{ apply nth_error_None in Eg. fold n in Eg. lia. }
        assert (HP1 : Pre deps s1).
        { intros x e Hx He. unfold s1 in Hx; cbn in Hx. apply in_app_or in Hx as [Hx|[<-|[]]].
          - specialize (HP x d Hx (or_introl eq_refl)). pose proof (rank_edge d deps e Eg He). lia.
          - eapply rank_edge; eassumption. }
        destruct (HR deps s1 HI1 HP1 (nth_error_wf g wf d deps Eg)) as (s2 & E2 & (HI2 & Hs2 & Hinc2 & Hall2)).
        { unfold s1; cbn. rewrite app_length. simpl. lia. }
        rewrite E2.
        destruct HI2 as ((ND2 & NR2 & Hp2 & Bs2 & Br2 & Dj2) & HO2).
        assert (Hd2 : ~ In d (res s2)). { apply Dj2. rewrite Hs2. unfold s1; cbn. apply in_or_app; right; left; reflexivity. }
        set (s3 := {| res := res s2 ++ [d]; processed := processed s2 ++ [d]; seen := remove_first d (seen s2) |}).
        assert (Hseen3 : seen s3 = seen s).
        { unfold s3; cbn. rewrite Hs2. unfold s1; cbn. now apply remove_first_last. }
        assert (HI3 : Inv2 s3).
        { split.
          - unfold Inv. rewrite Hseen3. unfold s3; cbn. repeat split; auto.
            + apply Permutation_NoDup with (l:= d :: res s2); [apply Permutation_cons_append|constructor; assumption].
            + now rewrite Hp2.
            + apply Forall_app; split; auto.
            + intros x Hx Hin. apply in_app_or in Hin as [Hin|[->|[]]]; [|tauto].
              apply (Dj2 x); [|assumption]. rewrite Hs2. unfold s1; cbn. apply in_or_app; now left.
          - unfold s3; cbn. constructor; [exact HO2|].
            intros deps' Hd'. rewrite Eg in Hd'. injection Hd' as <-.
            intros e He. rewrite Forall_forall in Hall2. now apply Hall2. }
        assert (HP3 : Pre rest s3). { intros x e Hx He. rewrite Hseen3 in Hx. now apply HPr. }
        destruct (IH s3 HI3 HP3 HNr) as (s' & E & (HI' & Hs & Hinc & Hall)).
        { rewrite Hseen3. assumption. }
        exists s'. split; [exact E|]. psplit2; auto.
        -- now rewrite Hs.
        -- intros x Hx. apply Hinc. unfold s3; cbn. apply in_or_app; left. apply Hinc2. exact Hx.
        -- constructor; [|exact Hall].
           apply Hinc. unfold s3; cbn. apply in_or_app; right; left; reflexivity.
Qed.

Lemma inner_spec2 fuel : RecOK2 (inner fuel g) (S n - fuel).
Proof.
  induction fuel as [|f IH]; intros nodes s HI HP HN Hk.
  - destruct HI as (HI & _). pose proof (seen_bound g s HI). fold n in H. lia.
  - cbn [inner]. apply loop_spec2 with (k := S n - S f); auto.
    intros nodes' s' HI' HP' HN' Hk'. apply IH; auto. lia.
Qed.

Theorem toposort_acyclic : exists r, toposort_impl g = Ok r /\ Permutation r (seq 0 n) /\
  (forall r1 x r2 deps, r = r1 ++ x :: r2 -> nth_error g x = Some deps -> incl deps r1).
Proof.
  unfold toposort_impl. fold n.
  set (s0 := {| res := []; processed := []; seen := [] |}).
  assert (HI0 : Inv2 s0). { split; [|constructor]. unfold Inv, s0; cbn. repeat split; auto; constructor. }
  destruct (inner_spec2 (S n) (seq 0 n) s0 HI0) as (s' & E & (HI' & _ & _ & Hall)).
  { intros x d []. }
  { apply Forall_forall. intros x Hx. apply in_seq in Hx. lia. }
  { cbn. lia. }
  rewrite E. cbn. exists (res s'). split; [reflexivity|].
  destruct HI' as ((_ & NR & _ & _ & Br & _) & HO). split.
  - apply NoDup_Permutation; auto using seq_NoDup.
    intros x. split.
    + intros Hx. apply in_seq. rewrite Forall_forall in Br. specialize (Br x Hx). lia.
    + intros Hx. rewrite Forall_forall in Hall. now apply Hall.
  - intros r1 x r2 deps Er Hd. eapply Ordered_split; eauto.
Qed.
End Acyclic.
