(* C10, grammar half for Kotlin, part 4: from the IR to the whole file.
     - the DECISION layer (kt_texp, kt_member_of, kt_struct_decl, kt_alias_decl, kt_variant_of, kt_enum_decls,
       kt_decl_of) produces declarations of [c10_ktg_decl_ok] from every item of the grammar domain
       ([c10_ktg_item_ok] on top of dom_C10);
     - the version header is a block comment, the package line and the fixed imports the packageHeader / importList;
     - [kt_generate_recognised]: the recogniser accepts the whole generated file;
     - [kt_decls_recognised]: the layout layer alone, lists of declarations;
     - a witness program with every declaration form, accepted, and mutilated texts, rejected. *)
From Coq Require Import List Bool Arith Lia ZifyBool ZifyN NArith String Permutation.
From TS Require Import Model.Str Model.Outcome Model.Unicode Model.Types Model.Parse Model.Rename Model.TopsortAlgo Model.Topsort
                       Model.Lang.Common Model.Lang.Decl Model.Lang.TypeScript Model.Lang.Kotlin.
From TS Require Import Spec.C10Spec Spec.C10TsGrammar Spec.C10KtGrammar Proofs.BackCommon
                       Proofs.C10_KTGrammarTok Proofs.C10_KTGrammarParse Proofs.C10_KTGrammar.
From TS Require Proofs.C10Lex Proofs.C10_TSFile Proofs.C10Common Proofs.C10_KT Proofs.C10_TSGrammar.
Import ListNotations.
Local Open Scope N_scope.
Local Notation length := List.length (only parsing).

Ltac lit_cfrag := apply cfrag_compute; vm_compute; reflexivity.

(* ------------------------------------------------------------------ the grammar domain, on top of dom_C10 *)
(* a dotted sequence of identifiers *)
Definition DottedIdent (s : str) : Prop := exists segs, segs <> [] /\ s = join [46] segs /\ forallb c10k_ident_ok segs = true.

(* every type_mappings value is a type of the grammar; the prefix, if any, starts like an identifier (it is the head of
   every declared name); the package, if any, is a dotted sequence of identifiers *)
Definition c10_ktg_cfg_ok (cfg : kt_config) : Prop :=
  Forall (fun kv => TyText (snd kv)) (kt_type_mappings cfg) /\
  (kt_prefix cfg = [] \/ c10k_ident_ok (kt_prefix cfg) = true) /\
  (kt_package cfg = [] \/ DottedIdent (kt_package cfg)).

(* the constructor parameter named after a field is an identifier once its dashes are replaced (the finding class
   C10-digit-name is outside); a type override for Kotlin is a type of the grammar *)
Definition c10_ktg_field_ok (f : rfield) : Prop :=
  c10k_ident_ok (kt_remove_dash_from_identifier (renamed (fid f))) = true /\ forall o, type_override f Kotlin = Some o -> TyText o.
Definition c10_ktg_variant_dom (v : rvariant) : Prop :=
  match v with VAnon fs _ => Forall c10_ktg_field_ok fs | _ => True end.
(* a sealed class prints its content key as a parameter name, and the PascalCase of a variant name as a class name: it must
   not be empty (a variant named with underscores only) *)
Definition c10_ktg_item_ok (it : ritem) : Prop :=
  match it with
  | ItStruct s => Forall c10_ktg_field_ok (sfields s)
  | ItEnum (EUnit sh) => Forall c10_ktg_variant_dom (evariants sh)
  | ItEnum (EAlgebraic tag content sh) =>
    c10k_ident_ok content = true /\
    Forall (fun v => to_pascal_case (original (vid (variant_shared v))) <> [] /\ c10_ktg_variant_dom v) (evariants sh)
  | _ => True
  end.
Definition c10_ktg_dom (pd : parsed) : Prop := Forall c10_ktg_item_ok (items_of pd).

(* ------------------------------------------------------------------ identifiers *)
Lemma ident_char_kt c : c10_ident_char c = true -> c10k_id_char c = true.
Proof. unfold c10_ident_char, c10k_id_char, c10k_id_start. lia. Qed.
Lemma ident_chars_kt s : forallb c10_ident_char s = true -> forallb c10k_id_char s = true.
Proof. apply Proofs.C10Lex.forallb_impl. exact ident_char_kt. Qed.
Lemma kt_ident_chars s : c10k_ident_ok s = true -> forallb c10k_id_char s = true.
Proof.
  destruct s as [|c r]; [discriminate|]. cbn [c10k_ident_ok forallb]. rewrite !andb_true_iff. intros [Hc Hr]. split; [|exact Hr].
  unfold c10k_id_char. rewrite Hc. reflexivity.
Qed.
Lemma kt_ident_app a b : c10k_ident_ok a = true -> forallb c10k_id_char b = true -> c10k_ident_ok (a ++ b) = true.
Proof.
  destruct a as [|c r]; [discriminate|]. cbn [c10k_ident_ok app]. rewrite !andb_true_iff. intros [Hc Hr] Hb. split; [exact Hc|].
  rewrite forallb_app, Hr, Hb. reflexivity.
Qed.
Lemma ident_key_chars s : c10_ident_ok s = true -> s <> [] /\ forallb c10_key_char s = true.
Proof.
  intros H. split; [destruct s; discriminate|]. apply Proofs.C10_TSFile.ident_ok_chars in H. revert H. apply Proofs.C10Lex.forallb_impl.
  intros c. unfold c10_ident_char, c10_key_char. lia.
Qed.
Lemma key_key_chars s : c10_key_ok s = true -> s <> [] /\ forallb c10_key_char s = true.
Proof. destruct s; [discriminate|]. intros H. split; [discriminate|exact H]. Qed.
Lemma key_plain s : forallb c10_key_char s = true -> forallb T.c10_plain_char s = true.
Proof. intros H. exact (proj2 (Proofs.C10_TSGrammar.debug_key s H)). Qed.

(* ------------------------------------------------------------------ the decision layer *)
Section Decide.
Variable cfg : kt_config.
Hypothesis Gcfg : c10_ktg_cfg_ok cfg.

Lemma tmap_get_tytext k v : tmap_get (kt_type_mappings cfg) k = Some v -> TyText v.
Proof.
  destruct Gcfg as [G _]. revert G. generalize (kt_type_mappings cfg). intros m G.
  induction G as [|[a b] r Hab Hr IH]; cbn [tmap_get]; [discriminate|].
  destruct (str_eqb a k); [intros E; injection E as <-; exact Hab|exact IH].
Qed.

Lemma kt_prefixed s : c10k_ident_ok s = true -> c10k_ident_ok (kt_prefix cfg ++ s) = true.
Proof.
  intros H. destruct Gcfg as (_ & [-> | Hp] & _); [exact H|]. apply kt_ident_app; [exact Hp|apply kt_ident_chars, H].
Qed.

Lemma kt_type_name_ident base gs : c10_ident_ok base = true -> c10k_ident_ok (kt_type_name cfg base gs) = true.
Proof. intros H. unfold kt_type_name. destruct (mem_str base gs); [apply ident_kt_ident, H|apply kt_prefixed, ident_kt_ident, H]. Qed.

Lemma name0 w : c10k_ident_ok (lit w) = true -> c10_ktg_texp (XName (lit w) []).
Proof. intros H. apply KG_name; [exact H|constructor]. Qed.

Lemma kt_texp_gram generics t : c10_rtype_ok t = true -> forall x, kt_texp cfg generics t = Ok x -> c10_ktg_texp x.
Proof.
  induction t as [id | id ps IH | t IH | t n IH | t IH | k v IHk IHv | t IH | p] using rtype_ind';
    intros Hok x H; cbn [c10_rtype_ok] in Hok; cbn [kt_texp] in H.
  - injection H as <-. unfold kt_format_simple_type. destruct (tmap_get (kt_type_mappings cfg) id) eqn:E.
    + apply KG_raw, (tmap_get_tytext _ _ E).
    + apply KG_name; [apply kt_type_name_ident, Hok|constructor].
  - apply andb_true_iff in Hok as [Hid Hps].
    destruct (tmap_get (kt_type_mappings cfg) id) eqn:E.
    + injection H as <-. apply KG_raw, (tmap_get_tytext _ _ E).
    + apply Proofs.C10Common.bind_ok in H as (parts & Hgo & H). injection H as <-. apply KG_name; [apply kt_type_name_ident, Hid|].
      clear E. revert parts Hgo. induction IH as [|a l Ha Hl IHl]; intros parts Hgo.
      * injection Hgo as <-. constructor.
      * cbn [forallb] in Hps. apply andb_true_iff in Hps as [Hpa Hpl].
        apply Proofs.C10Common.bind_ok in Hgo as (y & Hy & Hgo). apply Proofs.C10Common.bind_ok in Hgo as (ys & Hys & Hgo). injection Hgo as <-.
        constructor; [exact (Ha Hpa _ Hy)|exact (IHl Hpl _ Hys)].
  - apply Proofs.C10Common.bind_ok in H as (e & He & H). injection H as <-. apply KG_name; [reflexivity|]. constructor; [exact (IH Hok _ He)|constructor].
  - apply Proofs.C10Common.bind_ok in H as (e & He & H). injection H as <-. apply KG_name; [reflexivity|]. constructor; [exact (IH Hok _ He)|constructor].
  - apply Proofs.C10Common.bind_ok in H as (e & He & H). injection H as <-. apply KG_name; [reflexivity|]. constructor; [exact (IH Hok _ He)|constructor].
  - apply andb_true_iff in Hok as [Hk Hv]. apply Proofs.C10Common.bind_ok in H as (ks & Hks & H). apply Proofs.C10Common.bind_ok in H as (vs & Hvs & H). injection H as <-.
    apply KG_name; [reflexivity|]. constructor; [exact (IHk Hk _ Hks)|]. constructor; [exact (IHv Hv _ Hvs)|constructor].
  - apply Proofs.C10Common.bind_ok in H as (e & He & H). injection H as <-. apply KG_opt. exact (IH Hok _ He).
  - destruct p; try discriminate; injection H as <-; apply name0; reflexivity.
Qed.

Lemma kt_member_gram f gs rs vis m : c10_field_ok CKT f = true -> c10_ktg_field_ok f -> kt_member_of cfg f gs rs vis = Ok m -> c10_ktg_member_ok m.
Proof.
  intros Hf (Gn & Go) H. unfold kt_member_of in H. apply Proofs.C10Common.bind_ok in H as (ty & Hty & H). injection H as <-.
  unfold c10_field_ok in Hf. rewrite !andb_true_iff in Hf. destruct Hf as [[[Hid Hrt] Hdocs] _].
  unfold c10_member_id_ok in Hid. apply andb_true_iff in Hid as [_ Hren].
  unfold c10_ktg_member_ok. cbn [km_docs km_serial_name km_name km_type].
  split; [apply Proofs.C10Common.docs_line_ok, Hdocs|]. split; [destruct rs; [apply key_key_chars, Hren|exact I]|]. split; [exact Gn|].
  destruct (type_override f Kotlin) as [o|] eqn:Eo.
  - injection Hty as <-. apply KG_raw, Go. reflexivity.
  - exact (kt_texp_gram gs (fty f) Hrt _ Hty).
Qed.

(* write_struct on a source struct or on the helper struct of a struct variant *)
Lemma kt_struct_decl_gram rs d :
  c10_ident_ok (renamed (sid rs)) = true -> forallb c10_ident_ok (sgenerics rs) = true ->
  forallb (c10_field_ok CKT) (sfields rs) = true -> Forall c10_ktg_field_ok (sfields rs) ->
  forallb Proofs.C10Lex.c10_line_ok (scomments rs) = true ->
  kt_struct_decl cfg rs = Ok d -> c10_ktg_decl_ok d.
Proof.
  intros Hren Hg Hf Gf Hd H. unfold kt_struct_decl in H. destruct (sfields rs) as [|f0 fs] eqn:Ef.
  - injection H as <-. cbn [c10_ktg_decl_ok]. split; [exact Hd|apply kt_prefixed, ident_kt_ident, Hren].
  - apply Proofs.C10Common.bind_ok in H as (ms & Hms & H). injection H as <-. cbn [c10_ktg_decl_ok].
    split; [exact Hd|]. split; [apply kt_prefixed, ident_kt_ident, Hren|].
    split; [revert Hg; apply Proofs.C10Lex.forallb_impl; apply ident_kt_ident|]. split.
    + eapply (Proofs.C10Common.mapM_Forall_in _ (fun f => c10_field_ok CKT f = true /\ c10_ktg_field_ok f)); [| |exact Hms].
      * intros x y Hx Hy. destruct Hx as [Hx1 Hx2]. exact (kt_member_gram _ _ _ _ _ Hx1 Hx2 Hy).
      * apply Proofs.C10Lex.forallb_Forall in Hf. rewrite Forall_forall in *. intros x Hin. split; auto.
    + destruct (sredacted rs); [apply ident_key_chars, Hren|exact I].
Qed.

Lemma generics_kt gs : forallb c10_ident_ok gs = true -> forallb c10k_ident_ok gs = true.
Proof. apply Proofs.C10Lex.forallb_impl. apply ident_kt_ident. Qed.

Lemma kt_alias_decl_gram a d : c10_item_ok CKT (ItAlias a) = true -> kt_alias_decl cfg a = Ok d -> c10_ktg_decl_ok d.
Proof.
  cbn [c10_item_ok]. rewrite !andb_true_iff. intros [[[[Hid Hg] Ht] Hd] _] H.
  unfold c10_type_id_ok in Hid. apply andb_true_iff in Hid as [Horig Hren].
  unfold kt_alias_decl in H. destruct (kt_is_inline (adecs a)).
  - apply Proofs.C10Common.bind_ok in H as (m & Hm & H). injection H as <-. cbn [c10_ktg_decl_ok].
    split; [apply Proofs.C10Common.docs_line_ok, Hd|]. split; [apply kt_prefixed, ident_kt_ident, Hren|].
    eapply kt_member_gram; [| |exact Hm].
    + unfold c10_field_ok, c10_member_id_ok. cbn [fid fty fcomments fdecs original renamed lookup_lang forallb]. rewrite Ht. reflexivity.
    + split; [reflexivity|]. intros o E. discriminate.
  - apply Proofs.C10Common.bind_ok in H as (ty & Hty & H). injection H as <-. cbn [c10_ktg_decl_ok].
    split; [apply Proofs.C10Common.docs_line_ok, Hd|]. split; [apply kt_prefixed, ident_kt_ident, Horig|].
    split; [apply generics_kt, Hg|exact (kt_texp_gram _ _ Ht _ Hty)].
Qed.

Lemma kt_variant_gram sh v kv : forallb c10_ident_ok (egenerics sh) = true -> c10_ident_ok (original (eid sh)) = true ->
  c10_variant_ok CKT v = true -> to_pascal_case (original (vid (variant_shared v))) <> [] ->
  kt_variant_of cfg sh v = Ok kv -> c10_ktg_variant_ok kv.
Proof.
  intros Hg He Hv Hne H. unfold c10_variant_ok in Hv. rewrite !andb_true_iff in Hv. destruct Hv as [[Hid Hdocs] Hp].
  unfold c10_member_id_ok in Hid. apply andb_true_iff in Hid as [Horig Hren].
  unfold kt_variant_of in H. apply Proofs.C10Common.bind_ok in H as (payload & Hpay & H). injection H as <-.
  unfold c10_ktg_variant_ok. cbn [kv_docs kv_wire kv_name kv_parent kv_payload]. cbv zeta.
  destruct (key_key_chars _ Hren) as [Hw1 Hw2].
  split; [apply Proofs.C10Common.docs_line_ok, Hdocs|]. split; [exact Hw1|]. split; [apply key_plain, Hw2|]. split.
  { pose proof (Proofs.C10Common.to_pascal_ident _ (Proofs.C10_TSFile.ident_ok_chars _ Horig)) as Hp'.
    destruct (to_pascal_case (original (vid (variant_shared v)))) as [|c r] eqn:E; [congruence|].
    destruct (is_adigit c) eqn:Ed.
    - change (lit "_" ++ c :: r) with (ch_us :: c :: r). cbn [c10k_ident_ok]. apply andb_true_iff. split; [reflexivity|apply ident_chars_kt, Hp'].
    - cbn [c10k_ident_ok]. cbn [forallb] in Hp'. apply andb_true_iff in Hp' as [Hc Hr]. apply andb_true_iff. split; [|apply ident_chars_kt, Hr].
      unfold c10_ident_char in Hc. unfold c10k_id_start. rewrite Ed in Hc. lia. }
  split; [apply kt_prefixed, ident_kt_ident, He|].
  destruct v as [vsh | t vsh | fs vsh]; cbn [variant_shared] in *.
  - injection Hpay as <-. exact I.
  - apply Proofs.C10Common.bind_ok in Hpay as (ty & Hty & Hpay). injection Hpay as <-. exact (kt_texp_gram _ _ Hp _ Hty).
  - injection Hpay as <-. split; [|apply generics_kt, Proofs.C10Common.anon_struct_generics_ok, Hg].
    apply kt_prefixed. apply kt_ident_app; [apply ident_kt_ident, He|].
    rewrite forallb_app, (ident_chars_kt _ (Proofs.C10_TSFile.ident_ok_chars _ Horig)). reflexivity.
Qed.

Lemma kt_enum_decls_gram e ds : c10_item_ok CKT (ItEnum e) = true -> c10_ktg_item_ok (ItEnum e) ->
  kt_enum_decls cfg e = Ok ds -> Forall c10_ktg_decl_ok ds /\ ds <> [].
Proof.
  cbn [c10_item_ok]. rewrite !andb_true_iff. intros [[[[[Hid Hg] Hd] Hv] _] Htc] Git H.
  unfold c10_type_id_ok in Hid. apply andb_true_iff in Hid as [Horig Hren].
  unfold kt_enum_decls in H. apply Proofs.C10Common.bind_ok in H as (anon & Hanon & H). apply Proofs.C10Common.bind_ok in H as (d & Hd' & H). injection H as <-.
  split; [|destruct anon; discriminate].
  assert (Gdom : Forall c10_ktg_variant_dom (evariants (enum_shared e))).
  { destruct e as [sh | tag content sh]; cbn [c10_ktg_item_ok enum_shared] in *; [exact Git|].
    destruct Git as [_ G]. revert G. apply Forall_impl. intros v [_ G]. exact G. }
  apply Forall_app. split.
  - unfold kt_inner_decls in Hanon. apply Proofs.C10Common.bind_ok in Hanon as (dss & Hdss & Hanon). injection Hanon as <-.
    apply Forall_concat.
    eapply (Proofs.C10Common.mapM_Forall_in _ (fun v => c10_variant_ok CKT v = true /\ c10_ktg_variant_dom v)); [| |exact Hdss].
    + intros v ds0 [Hv0 Gv0] Hds0. destruct v as [vsh | t vsh | fs vsh]; try (injection Hds0 as <-; constructor).
      apply Proofs.C10Common.bind_ok in Hds0 as (d0 & Hd0 & Hds0). injection Hds0 as <-. constructor; [|constructor].
      unfold c10_variant_ok in Hv0. cbn [variant_shared] in Hv0. rewrite !andb_true_iff in Hv0. destruct Hv0 as [[Hvid _] Hfs].
      unfold c10_member_id_ok in Hvid. apply andb_true_iff in Hvid as [Hvo _].
      eapply kt_struct_decl_gram; [| | | | |exact Hd0]; cbn [anon_struct sid sgenerics sfields scomments renamed].
      * apply Proofs.C10_KT.ident_ok_app; [exact Hren|]. rewrite forallb_app, (Proofs.C10_TSFile.ident_ok_chars _ Hvo). reflexivity.
      * apply Proofs.C10Common.anon_struct_generics_ok, Hg.
      * exact Hfs.
      * exact Gv0.
      * cbn [forallb]. rewrite andb_true_r. apply Proofs.C10Common.docsafe_line.
        rewrite !forallb_app, (Proofs.C10Common.ident_docsafe _ (Proofs.C10_TSFile.ident_ok_chars _ Hvo)),
          (Proofs.C10Common.ident_docsafe _ (Proofs.C10_TSFile.ident_ok_chars _ Horig)). reflexivity.
    + apply Proofs.C10Lex.forallb_Forall in Hv. rewrite Forall_forall in *. intros v Hin. split; auto.
  - constructor; [|constructor]. destruct e as [sh | tag content sh]; cbn [enum_shared c10_ktg_item_ok] in *.
    + apply Proofs.C10Common.bind_ok in Hd' as (es & Hes & Hd'). injection Hd' as <-. cbn [c10_ktg_decl_ok].
      split; [apply Proofs.C10Common.docs_line_ok, Hd|]. split; [apply kt_prefixed, ident_kt_ident, Hren|]. split; [apply generics_kt, Hg|].
      eapply Proofs.C10Common.mapM_Forall_in; [|apply Proofs.C10Lex.forallb_Forall; exact Hv|exact Hes].
      intros v y Hv0 Hy. cbn beta in Hv0. unfold kt_entry_of in Hy. injection Hy as <-.
      unfold c10_variant_ok in Hv0. rewrite !andb_true_iff in Hv0. destruct Hv0 as [[Hvid Hvd] _].
      unfold c10_member_id_ok in Hvid. apply andb_true_iff in Hvid as [Hvo Hvr].
      unfold c10_ktg_entry_ok. cbn [ke_docs ke_name ke_wire]. split; [apply Proofs.C10Common.docs_line_ok, Hvd|].
      split; [apply ident_kt_ident, Hvo|apply key_key_chars, Hvr].
    + destruct Git as [Gcon Gvs].
      apply Proofs.C10Common.bind_ok in Hd' as (vs & Hvs & Hd'). injection Hd' as <-. cbn [c10_ktg_decl_ok].
      split; [apply Proofs.C10Common.docs_line_ok, Hd|]. split; [apply kt_prefixed, ident_kt_ident, Hren|]. split; [apply generics_kt, Hg|].
      split; [exact Gcon|].
      eapply (Proofs.C10Common.mapM_Forall_in _ (fun v => c10_variant_ok CKT v = true /\
                (to_pascal_case (original (vid (variant_shared v))) <> [] /\ c10_ktg_variant_dom v))); [| |exact Hvs].
      * intros v y [Hv0 [Gne _]] Hy. exact (kt_variant_gram _ _ _ Hg Horig Hv0 Gne Hy).
      * apply Proofs.C10Lex.forallb_Forall in Hv. rewrite Forall_forall in *. intros v Hin. split; auto.
Qed.

Lemma kt_decl_of_gram it ds : c10_item_ok CKT it = true -> c10_ktg_item_ok it -> kt_decl_of cfg it = Ok ds ->
  Forall c10_ktg_decl_ok ds /\ ds <> [].
Proof.
  intros Hit Git H. destruct it as [rs | e | a | c]; cbn [kt_decl_of] in H.
  - apply Proofs.C10Common.bind_ok in H as (d & Hd & H). injection H as <-. split; [|discriminate]. constructor; [|constructor].
    cbn [c10_item_ok] in Hit. rewrite !andb_true_iff in Hit. destruct Hit as [[[[Hid Hg] Hf] Hdoc] _].
    unfold c10_type_id_ok in Hid. apply andb_true_iff in Hid as [_ Hren].
    exact (kt_struct_decl_gram _ _ Hren Hg Hf Git (Proofs.C10Common.docs_line_ok _ Hdoc) Hd).
  - exact (kt_enum_decls_gram _ _ Hit Git H).
  - apply Proofs.C10Common.bind_ok in H as (d & Hd & H). injection H as <-. split; [|discriminate]. constructor; [|constructor].
    exact (kt_alias_decl_gram _ _ Hit Hd).
  - discriminate.
Qed.
End Decide.

(* ------------------------------------------------------------------ the header *)
Lemma L_dot : CFrag [46] [KP 46]. Proof. lit_cfrag. Qed.

Lemma qual_frag segs : segs <> [] -> forallb c10k_ident_ok segs = true -> Frag (join [46] segs) (qual_toks segs).
Proof.
  induction segs as [|a r IH]; [congruence|]. intros _ H. cbn [forallb] in H. apply andb_true_iff in H as [Ha Hr].
  destruct r as [|b r].
  - cbn [join qual_toks]. apply frag_ident, Ha.
  - change (join [46] (a :: b :: r)) with (a ++ [46] ++ join [46] (b :: r)).
    change (qual_toks (a :: b :: r)) with ([KIdent a] ++ [KP 46] ++ qual_toks (b :: r)).
    apply frag_frag_app; [apply frag_ident, Ha| |reflexivity]. apply cfrag_frag_app; [exact L_dot|]. apply IH; [discriminate|exact Hr].
Qed.

Lemma dotted_pass v : c10_dotted_ok v = true -> PassAny v.
Proof.
  intros H. apply pass_ok_pass, plain_pass_ok. revert H. apply Proofs.C10Lex.forallb_impl. intros c.
  unfold c10_dotted_char, c10_key_char, is_aalpha, is_alower, is_aupper, is_adigit, ch_us, ch_dash. lia.
Qed.

Lemma version_header_cfrag v : c10_dotted_ok v = true ->
  CFrag (lit "/**" ++ nl ++ lit " * Generated by typeshare " ++ v ++ nl ++ lit " */" ++ nl ++ nl) [].
Proof.
  intros Hv.
  replace (lit "/**" ++ nl ++ lit " * Generated by typeshare " ++ v ++ nl ++ lit " */" ++ nl ++ nl)
    with ((47 :: 42 :: (([42] ++ nl ++ lit " * Generated by typeshare ") ++ v ++ (nl ++ [32])) ++ [42; 47]) ++ nl ++ nl).
  2:{ cbn [lit app]. repeat (rewrite <- ?app_assoc; cbn [app]). reflexivity. }
  change (@nil c10_tok) with (@nil c10_tok ++ []). apply cfrag_app; [|lit_cfrag]. apply cfrag_block_comment.
  apply pass_app; [apply pass_ok_pass; vm_compute; reflexivity|]. apply pass_app; [apply dotted_pass, Hv|].
  apply pass_ok_pass. vm_compute. reflexivity.
Qed.

Definition fixed_imports : list (list str) :=
  [[lit "kotlinx"; lit "serialization"; lit "Serializable"]; [lit "kotlinx"; lit "serialization"; lit "SerialName"]].
Lemma L_fixed_imports :
  CFrag (nl ++ nl ++ lit "import kotlinx.serialization.Serializable" ++ nl ++ lit "import kotlinx.serialization.SerialName" ++ nl ++ nl)
        (List.concat (map import_toks fixed_imports)).
Proof. lit_cfrag. Qed.
Lemma L_package : CFrag (lit "package ") [kw "package"]. Proof. lit_cfrag. Qed.

(* begin_file: the header's tokens, as the package header and import list of the grammar *)
Lemma kt_begin_file_gram cfg : Proofs.C10_KT.c10_kt_cfg_ok cfg = true -> c10_ktg_cfg_ok cfg ->
  exists p is, CFrag (kt_begin_file cfg) (opackage_toks p ++ List.concat (map import_toks is)) /\
               match p with Some l => l <> [] | None => True end /\ Forall (fun i => i <> []) is.
Proof.
  intros Hcfg (_ & _ & Gp). unfold kt_begin_file, kt_header_of.
  destruct (kt_package cfg) as [|p0 pr] eqn:Ep.
  - exists None, []. split; [apply cfrag_nil|]. split; [exact I|constructor].
  - destruct Gp as [Gp | (segs & Hne & Hs & Hid)]; [discriminate|].
    exists (Some segs), fixed_imports. split; [|split; [exact Hne|repeat constructor; discriminate]].
    cbn [kt_render_header kh_version kh_package kh_imports map List.concat kt_qualified fst snd].
    unfold Proofs.C10_KT.c10_kt_cfg_ok in Hcfg. rewrite !andb_true_iff in Hcfg. destruct Hcfg as [[[_ Hv] _] _].
    assert (Hrest : CFrag (lit "package " ++ (p0 :: pr) ++ nl ++ nl ++
                           ((lit "import " ++ lit "kotlinx.serialization" ++ lit "." ++ lit "Serializable" ++ nl) ++
                            (lit "import " ++ lit "kotlinx.serialization" ++ lit "." ++ lit "SerialName" ++ nl) ++ []) ++ nl)
                          (opackage_toks (Some segs) ++ List.concat (map import_toks fixed_imports))).
    { change (opackage_toks (Some segs)) with ([kw "package"] ++ qual_toks segs). rewrite <- (app_assoc [kw "package"]).
      apply cfrag_app; [exact L_package|]. rewrite Hs. apply frag_cfrag_app; [apply qual_frag; assumption|exact L_fixed_imports|reflexivity]. }
    destruct (kt_no_version_header cfg).
    + exact Hrest.
    + change (opackage_toks (Some segs) ++ List.concat (map import_toks fixed_imports))
        with ([] ++ opackage_toks (Some segs) ++ List.concat (map import_toks fixed_imports)).
      replace ((lit "/**" ++ nl ++ lit " * Generated by typeshare " ++ kt_version cfg ++ nl ++ lit " */" ++ nl ++ nl) ++
               lit "package " ++ (p0 :: pr) ++ nl ++ nl ++
               ((lit "import " ++ lit "kotlinx.serialization" ++ lit "." ++ lit "Serializable" ++ nl) ++
                (lit "import " ++ lit "kotlinx.serialization" ++ lit "." ++ lit "SerialName" ++ nl) ++ []) ++ nl)
        with ((lit "/**" ++ nl ++ lit " * Generated by typeshare " ++ kt_version cfg ++ nl ++ lit " */" ++ nl ++ nl) ++
              (lit "package " ++ (p0 :: pr) ++ nl ++ nl ++
               ((lit "import " ++ lit "kotlinx.serialization" ++ lit "." ++ lit "Serializable" ++ nl) ++
                (lit "import " ++ lit "kotlinx.serialization" ++ lit "." ++ lit "SerialName" ++ nl) ++ []) ++ nl)) by reflexivity.
      apply cfrag_app; [apply version_header_cfrag, Hv|exact Hrest].
Qed.

(* ------------------------------------------------------------------ the whole file *)
Lemma parts_gram parts : Forall (fun t => exists td, CFrag t td /\ DeclToks td /\ forall x, hfol (td ++ x)) parts ->
  exists tds, CFrag (List.concat parts) (List.concat tds) /\ Forall DeclToks tds /\ List.length tds = List.length parts /\ hfol (List.concat tds).
Proof.
  induction 1 as [|t r (td & Hf & Hd & Hh) _ (tds & Hfs & Hds & Hl & _)].
  - exists []. split; [apply cfrag_nil|]. split; [constructor|]. split; [reflexivity|exact I].
  - exists (td :: tds). split; [cbn [List.concat]; apply cfrag_app; assumption|]. split; [constructor; assumption|].
    split; [cbn [List.length]; rewrite Hl; reflexivity|]. cbn [List.concat]. apply Hh.
Qed.

Lemma recognise_file h p is tds : CFrag h (opackage_toks p ++ List.concat (map import_toks is)) ->
  match p with Some l => l <> [] | None => True end -> Forall (fun i => i <> []) is ->
  forall body, CFrag body (List.concat tds) -> Forall DeclToks tds -> hfol (List.concat tds) ->
  c10_kt_recognise (h ++ body) = Some (List.length tds).
Proof.
  intros Hh Hp His body Hb Hd Hf. unfold c10_kt_recognise.
  rewrite (tk_run _ _ (cfrag_tk _ _ (cfrag_app _ _ _ _ Hh Hb))). rewrite <- app_assoc.
  rewrite (header_ok p is (List.concat tds) Hp His Hf). apply decls_ok; [exact Hd|lia].
Qed.

Theorem kt_generate_recognised uc cfg pd text :
  Proofs.C10_KT.c10_kt_cfg_ok cfg = true -> c10_ktg_cfg_ok cfg -> dom_C10 CKT pd = true -> c10_ktg_dom pd ->
  kt_generate uc cfg pd = Ok text -> exists n, c10_kt_recognise text = Some n /\ (List.length (items_of pd) <= n)%nat.
Proof.
  intros Hcfg Gcfg Hdom Gdom H. unfold kt_generate in H.
  apply Proofs.C10Common.bind_ok in H as (items & Et & H). apply Proofs.C10Common.bind_ok in H as (body & Eb & H). injection H as <-.
  pose proof (Proofs.C10_TSFile.topsort_ok_perm _ _ Et) as Hperm.
  assert (Hitems : Forall (fun it => c10_item_ok CKT it = true /\ c10_ktg_item_ok it) items).
  { apply Proofs.C10Lex.forallb_Forall in Hdom. fold (items_of pd) in Hdom. unfold c10_ktg_dom in Gdom.
    eapply Permutation_Forall; [apply Permutation_sym, Hperm|]. rewrite Forall_forall in *. intros it Hin. split; auto. }
  unfold kt_concat in Eb. apply Proofs.C10Common.bind_ok in Eb as (parts & Hp & Eb). injection Eb as <-.
  (* every item writes at least one declaration, each a declaration of the grammar *)
  assert (Hparts : exists dss, List.concat parts = List.concat (map kt_render_decl (List.concat dss)) /\
                               Forall c10_ktg_decl_ok (List.concat dss) /\ (List.length items <= List.length (List.concat dss))%nat).
  { clear -Hp Hitems Gcfg. revert parts Hp. induction Hitems as [|it items [Hit Git] _ IH]; intros parts Hp; cbn [mapM] in Hp.
    - injection Hp as <-. exists []. split; [reflexivity|]. split; [constructor|cbn; lia].
    - apply Proofs.C10Common.bind_ok in Hp as (t & Ht & Hp). apply Proofs.C10Common.bind_ok in Hp as (ts & Hts & Hp). injection Hp as <-.
      destruct (IH ts Hts) as (dss & E & Hok & Hlen).
      unfold kt_write_item in Ht. apply Proofs.C10Common.bind_ok in Ht as (ds & Hds & Ht). injection Ht as <-.
      destruct (kt_decl_of_gram cfg Gcfg it ds Hit Git Hds) as [Hds_ok Hne].
      exists (ds :: dss). cbn [List.concat]. rewrite map_app, concat_app, E. split; [reflexivity|].
      split; [apply Forall_app; split; assumption|]. rewrite app_length. cbn [List.length]. destruct ds; [congruence|cbn [List.length]; lia]. }
  destruct Hparts as (dss & Ebody & Hok & Hlen). rewrite Ebody.
  assert (Hps : Forall (fun t => exists td, CFrag t td /\ DeclToks td /\ forall x, hfol (td ++ x)) (map kt_render_decl (List.concat dss))).
  { apply Forall_map. revert Hok. apply Forall_impl. apply kt_render_decl_gram. }
  destruct (parts_gram _ Hps) as (tds & Hfb & Hdb & Hl & Hh). rewrite map_length in Hl.
  destruct (kt_begin_file_gram cfg Hcfg Gcfg) as (p & is & Hfh & Hpp & His).
  exists (List.length tds). split; [exact (recognise_file _ p is tds Hfh Hpp His _ Hfb Hdb Hh)|].
  pose proof (Permutation_length Hperm). lia.
Qed.

(* ------------------------------------------------------------------ the layout layer alone: lists of declarations *)
Theorem kt_decls_recognised ds : Forall c10_ktg_decl_ok ds ->
  c10_kt_recognise (List.concat (map kt_render_decl ds)) = Some (List.length ds).
Proof.
  intros H. assert (Hp : Forall (fun t => exists td, CFrag t td /\ DeclToks td /\ forall x, hfol (td ++ x)) (map kt_render_decl ds)).
  { apply Forall_map. revert H. apply Forall_impl. apply kt_render_decl_gram. }
  destruct (parts_gram _ Hp) as (tds & Hf & Hd & Hl & Hh). rewrite map_length in Hl. rewrite <- Hl.
  exact (recognise_file [] None [] tds cfrag_nil I (Forall_nil _) _ Hf Hd Hh).
Qed.

(* ------------------------------------------------------------------ computable sufficient conditions *)
(* the dot-separated segments of a text *)
Fixpoint split_dot (s : str) : list str :=
  match s with
  | [] => [[]]
  | c :: r => if c =? 46 then [] :: split_dot r
              else match split_dot r with x :: l => (c :: x) :: l | [] => [[c]] end
  end.

Lemma split_dot_ne s : split_dot s <> [].
Proof. destruct s as [|c r]; cbn [split_dot]; [discriminate|]. destruct (c =? 46); [discriminate|]. destruct (split_dot r); discriminate. Qed.

Lemma join_split_dot s : join [46] (split_dot s) = s.
Proof.
  induction s as [|c r IH]; [reflexivity|]. cbn [split_dot]. pose proof (split_dot_ne r) as Hne.
  destruct (c =? 46) eqn:E.
  - destruct (split_dot r) as [|x l] eqn:Es; [congruence|].
    change (join [46] ([] :: x :: l)) with ([46] ++ join [46] (x :: l)). rewrite IH. cbn [app]. f_equal. lia.
  - destruct (split_dot r) as [|x l] eqn:Es; [congruence|]. rewrite <- IH. destruct l as [|y l]; reflexivity.
Qed.

Definition c10_ktg_cfg_simple (cfg : kt_config) : bool :=
  forallb (fun kv => c10k_ident_ok (snd kv)) (kt_type_mappings cfg) &&
  (match kt_prefix cfg with [] => true | p => c10k_ident_ok p end) &&
  (match kt_package cfg with [] => true | p => forallb c10k_ident_ok (split_dot p) end).
Definition c10_ktg_field_simple (f : rfield) : bool :=
  c10k_ident_ok (kt_remove_dash_from_identifier (renamed (fid f))) &&
  match type_override f Kotlin with Some o => c10k_ident_ok o | None => true end.
Definition c10_ktg_variant_simple (v : rvariant) : bool :=
  match v with VAnon fs _ => forallb c10_ktg_field_simple fs | _ => true end.
Definition c10_ktg_item_simple (it : ritem) : bool :=
  match it with
  | ItStruct s => forallb c10_ktg_field_simple (sfields s)
  | ItEnum (EUnit sh) => forallb c10_ktg_variant_simple (evariants sh)
  | ItEnum (EAlgebraic tag content sh) =>
    c10k_ident_ok content &&
    forallb (fun v => match to_pascal_case (original (vid (variant_shared v))) with [] => false | _ => true end && c10_ktg_variant_simple v) (evariants sh)
  | _ => true
  end.
Definition c10_ktg_dom_simple (pd : parsed) : bool := forallb c10_ktg_item_simple (items_of pd).

Lemma cfg_simple_ok cfg : c10_ktg_cfg_simple cfg = true -> c10_ktg_cfg_ok cfg.
Proof.
  unfold c10_ktg_cfg_simple, c10_ktg_cfg_ok. rewrite !andb_true_iff. intros [[Hm Hp] Hk]. split; [|split].
  - apply Proofs.C10Lex.forallb_Forall in Hm. revert Hm. apply Forall_impl. intros kv Hkv. apply tytext_ident, Hkv.
  - destruct (kt_prefix cfg); [left; reflexivity|right; exact Hp].
  - destruct (kt_package cfg) as [|c r]; [left; reflexivity|right]. exists (split_dot (c :: r)).
    split; [apply split_dot_ne|]. split; [symmetry; apply join_split_dot|exact Hk].
Qed.
Lemma field_simple_ok f : c10_ktg_field_simple f = true -> c10_ktg_field_ok f.
Proof.
  unfold c10_ktg_field_simple, c10_ktg_field_ok. rewrite andb_true_iff. intros [Hk Ho]. split; [exact Hk|].
  intros o E. rewrite E in Ho. apply tytext_ident, Ho.
Qed.
Lemma variant_simple_ok v : c10_ktg_variant_simple v = true -> c10_ktg_variant_dom v.
Proof.
  destruct v as [vsh | t vsh | fs vsh]; cbn [c10_ktg_variant_simple c10_ktg_variant_dom]; try (intros _; exact I).
  intros H. apply Proofs.C10Lex.forallb_Forall in H. revert H. apply Forall_impl. apply field_simple_ok.
Qed.
Lemma dom_simple_ok pd : c10_ktg_dom_simple pd = true -> c10_ktg_dom pd.
Proof.
  unfold c10_ktg_dom_simple, c10_ktg_dom. intros H. apply Proofs.C10Lex.forallb_Forall in H. revert H. apply Forall_impl.
  intros [s | [sh | tag content sh] | a | c] Hit; cbn [c10_ktg_item_simple c10_ktg_item_ok] in *; try exact I.
  - apply Proofs.C10Lex.forallb_Forall in Hit. revert Hit. apply Forall_impl. apply field_simple_ok.
  - apply Proofs.C10Lex.forallb_Forall in Hit. revert Hit. apply Forall_impl. apply variant_simple_ok.
  - apply andb_true_iff in Hit as [Hc Hvs]. split; [exact Hc|].
    apply Proofs.C10Lex.forallb_Forall in Hvs. revert Hvs. apply Forall_impl. intros v Hv. apply andb_true_iff in Hv as [Hp Hv].
    split; [|apply variant_simple_ok, Hv]. destruct (to_pascal_case (original (vid (variant_shared v)))); [discriminate|discriminate].
Qed.

Theorem kt_generate_recognised_simple uc cfg pd text :
  Proofs.C10_KT.c10_kt_cfg_ok cfg = true -> c10_ktg_cfg_simple cfg = true -> dom_C10 CKT pd = true -> c10_ktg_dom_simple pd = true ->
  kt_generate uc cfg pd = Ok text -> exists n, c10_kt_recognise text = Some n /\ (List.length (items_of pd) <= n)%nat.
Proof. intros Hcfg Gcfg Hdom Gdom. apply kt_generate_recognised; auto using cfg_simple_ok, dom_simple_ok. Qed.

(* ------------------------------------------------------------------ non-vacuity *)
Definition kg_id (s : string) : id := {| original := lit s; renamed := lit s; via_serde_rename := false |}.
Definition kg_field (name : string) (ty : rtype) : rfield :=
  {| fid := kg_id name; fty := ty; fcomments := [lit "a doc line with ""quotes"", a star * and a slash /"]; has_default := false; fdecs := [] |}.
Definition kg_struct : rstruct :=
  {| sid := kg_id "Person"; sgenerics := [lit "T"; lit "U"];
     sfields := [kg_field "name" (RPrim PString);
                 kg_field "age" (ROption (RPrim PU32));
                 kg_field "tags" (RVec (RSimple (lit "T")));
                 kg_field "home" (RSimple (lit "Url"));
                 kg_field "index" (RHashMap (RPrim PString) (RGeneric (lit "Box") [RSimple (lit "U"); RVec (RPrim PBool)]));
                 {| fid := {| original := lit "first_name"; renamed := lit "first-name"; via_serde_rename := true |}; fty := ROption (ROption (RPrim PString));
                    fcomments := []; has_default := true; fdecs := [] |};
                 {| fid := kg_id "count"; fty := RPrim PU8; fcomments := []; has_default := true; fdecs := [] |};
                 {| fid := kg_id "raw"; fty := RPrim PString; fcomments := [lit "one"; lit "two"]; has_default := false;
                    fdecs := [(Kotlin, [DNameValue (lit "type") (lit "Map<String, List<Int>?>")])] |}];
     scomments := [lit "first line"; lit "second line"]; sdecs := []; sredacted := true |}.
Definition kg_empty : rstruct :=
  {| sid := kg_id "Empty"; sgenerics := []; sfields := []; scomments := [lit "no fields"]; sdecs := []; sredacted := false |}.
Definition kg_alias : ralias :=
  {| aid := kg_id "Al"; agenerics := [lit "T"]; atype := ROption (RVec (RSimple (lit "T"))); acomments := [lit "an alias"]; adecs := []; aredacted := false |}.
Definition kg_inline : ralias :=
  {| aid := kg_id "Secret"; agenerics := []; atype := RPrim PString; acomments := []; adecs := [(DKKotlin, [lit "JvmInline"])]; aredacted := true |}.
Definition kg_unit_enum : renum :=
  EUnit {| eid := kg_id "Color"; egenerics := []; ecomments := [];
           evariants := [VUnit {| vid := kg_id "Red"; vcomments := [lit "the red one"] |};
                         VUnit {| vid := {| original := lit "DarkBlue"; renamed := lit "dark-blue"; via_serde_rename := true |}; vcomments := [] |}];
           edecs := []; erecursive := false; eredacted := false |}.
Definition kg_enum : renum :=
  EAlgebraic (lit "type") (lit "content")
    {| eid := kg_id "E"; egenerics := [lit "T"]; ecomments := [lit "an enum"];
       evariants := [VUnit {| vid := kg_id "U"; vcomments := [] |};
                     VTuple (RHashMap (RPrim PString) (ROption (RSimple (lit "T")))) {| vid := kg_id "Tup"; vcomments := [lit "doc"] |};
                     VTuple (RPrim PI32) {| vid := kg_id "_9lives"; vcomments := [] |};
                     VAnon [{| fid := {| original := lit "inner"; renamed := lit "in-ner"; via_serde_rename := true |}; fty := RSimple (lit "T"); fcomments := []; has_default := false; fdecs := [] |};
                            kg_field "when" (RPrim PI64)] {| vid := kg_id "S"; vcomments := [] |}];
       edecs := []; erecursive := false; eredacted := false |}.
Definition kg_prog : parsed :=
  {| p_structs := [kg_struct; kg_empty]; p_enums := [kg_unit_enum; kg_enum]; p_aliases := [kg_alias; kg_inline];
     p_consts := []; p_type_names := []; p_errors := []; p_imports := [] |}.
Definition kg_cfg : kt_config :=
  {| kt_package := lit "com.agilebits.onepassword"; kt_module_name := lit "m"; kt_prefix := lit "OP";
     kt_type_mappings := [(lit "Url", lit "java.net.URI")]; kt_no_version_header := false; kt_version := lit "1.46.0" |}.

Definition kg_text : str := match kt_generate uc_exec kg_cfg kg_prog with Ok t => t | _ => [] end.

(* mutilations: the text without its last three characters; without its first opening parenthesis; with its first [=] turned
   into [:]; with its first comma removed *)
Fixpoint kg_drop_first (c : char) (s : str) : str :=
  match s with [] => [] | x :: r => if x =? c then r else x :: kg_drop_first c r end.
Fixpoint kg_subst_first (c d : char) (s : str) : str :=
  match s with [] => [] | x :: r => if x =? c then d :: r else x :: kg_subst_first c d r end.

Lemma kg_mapping_tytext : TyText (lit "java.net.URI").
Proof.
  exists [KIdent (lit "java"); KP 46; KIdent (lit "net"); KP 46; KIdent (lit "URI")]. split; [apply frag_compute; vm_compute; reflexivity|].
  apply gr_ty_user. apply (G_udot [KIdent (lit "java")] [KIdent (lit "net"); KP 46; KIdent (lit "URI")]); [apply G_s1|].
  apply (G_udot [KIdent (lit "net")] [KIdent (lit "URI")]); [apply G_s1|apply G_u1, G_s1].
Qed.

Lemma kg_override_tytext : TyText (lit "Map<String, List<Int>?>").
Proof.
  change (lit "Map<String, List<Int>?>")
    with (lit "Map" ++ lit "<" ++ join (lit ", ") [lit "String"; (lit "List" ++ lit "<" ++ join (lit ", ") [lit "Int"] ++ lit ">") ++ lit "?"] ++ lit ">").
  apply tytext_app; [reflexivity|apply tytext_ident; reflexivity|]. constructor; [|constructor].
  apply tytext_quest. apply tytext_app; [reflexivity|apply tytext_ident; reflexivity|constructor].
Qed.

Example C10_kt_grammar_nonvacuous :
  Proofs.C10_KT.c10_kt_cfg_ok kg_cfg = true /\ c10_ktg_cfg_ok kg_cfg /\
  dom_C10 CKT kg_prog = true /\ c10_ktg_dom kg_prog /\ known_C10 CKT [] kg_prog = [] /\
  kt_generate uc_exec kg_cfg kg_prog = Ok kg_text /\
  c10_kt_recognise kg_text = Some 7%nat /\
  contains_sub (lit "data class OPPerson<T, U> (") kg_text = true /\
  contains_sub (lit "val first_name: String?? = null,") kg_text = true /\
  contains_sub (lit "val count: UByte? = null,") kg_text = true /\
  contains_sub (lit "val raw: Map<String, List<Int>?>") kg_text = true /\
  contains_sub (lit "val index: HashMap<String, OPBox<U, List<Boolean>>>,") kg_text = true /\
  contains_sub (lit "val home: java.net.URI,") kg_text = true /\
  contains_sub (lit "override fun toString(): String = ""Person""") kg_text = true /\
  contains_sub (lit "object OPEmpty") kg_text = true /\
  contains_sub (lit "typealias OPAl<T> = List<T>?") kg_text = true /\
  contains_sub (lit "value class OPSecret(") kg_text = true /\
  contains_sub (lit "fun unwrap() = value") kg_text = true /\
  contains_sub (lit "enum class OPColor(val string: String) {") kg_text = true /\
  contains_sub (lit "DarkBlue(""dark-blue""),") kg_text = true /\
  contains_sub (lit "sealed class OPE<T> {") kg_text = true /\
  contains_sub (lit "object U: OPE<T>()") kg_text = true /\
  contains_sub (lit "data class Tup<T>(val content: HashMap<String, T?>): OPE<T>()") kg_text = true /\
  contains_sub (lit "data class _9lives<T>(val content: Int): OPE<T>()") kg_text = true /\
  contains_sub (lit "data class S<T>(val content: OPESInner<T>): OPE<T>()") kg_text = true /\
  c10_kt_recognise (firstn (List.length kg_text - 3) kg_text) = None /\
  c10_kt_recognise (kg_drop_first 40 kg_text) = None /\
  c10_kt_recognise (kg_subst_first 61 58 kg_text) = None /\
  c10_kt_recognise (kg_drop_first 44 kg_text) = None /\
  c10_kt_recognise (lit "@Serializable" ++ nl ++ lit "object Tag" ++ nl) = Some 1%nat /\
  c10_kt_recognise (lit "@Serializable" ++ nl ++ lit "object Tag<T>" ++ nl) = None /\
  c10_kt_recognise (lit "@Serializable" ++ nl ++ lit "object Tag(val x: Int)" ++ nl) = None /\
  c10_kt_recognise (lit "typealias A<> = Int" ++ nl) = None /\
  c10_kt_recognise (lit "typealias A Int" ++ nl) = None /\
  c10_kt_recognise (lit "@Serializable" ++ nl ++ lit "data class A(val x)" ++ nl) = None /\
  c10_kt_recognise (lit "@Serializable" ++ nl ++ lit "data class (val x: Int)" ++ nl) = None /\
  c10_kt_recognise (lit "@SerialName(""a) object A" ++ nl) = None.
Proof.
  split; [vm_compute; reflexivity|]. split.
  { split; [repeat constructor; exact kg_mapping_tytext|]. split; [right; reflexivity|]. right.
    exists [lit "com"; lit "agilebits"; lit "onepassword"]. split; [discriminate|]. split; reflexivity. }
  split; [vm_compute; reflexivity|]. split.
  { assert (Hf : forall f, c10k_ident_ok (kt_remove_dash_from_identifier (renamed (fid f))) = true -> type_override f Kotlin = None -> c10_ktg_field_ok f).
    { intros f Hk Hn. split; [exact Hk|]. intros o E. rewrite Hn in E. discriminate. }
    assert (Hraw : forall f, c10k_ident_ok (kt_remove_dash_from_identifier (renamed (fid f))) = true ->
                     type_override f Kotlin = Some (lit "Map<String, List<Int>?>") -> c10_ktg_field_ok f).
    { intros f Hk Hn. split; [exact Hk|]. intros o E. rewrite Hn in E. injection E as <-. exact kg_override_tytext. }
    unfold c10_ktg_dom. cbn [items_of kg_prog p_aliases p_structs p_enums p_consts map app].
    repeat (apply Forall_cons); try apply Forall_nil; try exact I;
      try (apply Hf; vm_compute; reflexivity); try (apply Hraw; vm_compute; reflexivity).
    split; [reflexivity|].
    repeat (apply Forall_cons); try apply Forall_nil; try (split; [vm_compute; discriminate|exact I]).
    split; [vm_compute; discriminate|]. cbn [c10_ktg_variant_dom].
    repeat (apply Forall_cons); try apply Forall_nil; try (apply Hf; vm_compute; reflexivity). }
  repeat split; vm_compute; reflexivity.
Qed.

(* the witness, in the form stated in Props/C10.v *)
Lemma kt_grammar_witness :
  Proofs.C10_KT.c10_kt_cfg_ok kg_cfg = true /\ c10_ktg_cfg_ok kg_cfg /\ dom_C10 CKT kg_prog = true /\ c10_ktg_dom kg_prog /\
  known_C10 CKT [] kg_prog = [] /\
  kt_generate uc_exec kg_cfg kg_prog = Ok kg_text /\ c10_kt_recognise kg_text = Some 7%nat /\
  contains_sub (lit "data class OPPerson<T, U> (") kg_text = true /\
  contains_sub (lit "val first_name: String?? = null,") kg_text = true /\
  contains_sub (lit "typealias OPAl<T> = List<T>?") kg_text = true /\
  contains_sub (lit "enum class OPColor(val string: String) {") kg_text = true /\
  contains_sub (lit "data class S<T>(val content: OPESInner<T>): OPE<T>()") kg_text = true /\
  c10_kt_recognise (firstn (List.length kg_text - 3) kg_text) = None /\
  c10_kt_recognise (kg_drop_first 40 kg_text) = None /\
  c10_kt_recognise (kg_subst_first 61 58 kg_text) = None /\
  c10_kt_recognise (kg_drop_first 44 kg_text) = None /\
  c10_kt_recognise (lit "@Serializable" ++ nl ++ lit "object Tag" ++ nl) = Some 1%nat /\
  c10_kt_recognise (lit "@Serializable" ++ nl ++ lit "object Tag<T>" ++ nl) = None /\
  c10_kt_recognise (lit "@Serializable" ++ nl ++ lit "object Tag(val x: Int)" ++ nl) = None /\
  c10_kt_recognise (lit "typealias A<> = Int" ++ nl) = None /\
  c10_kt_recognise (lit "typealias A Int" ++ nl) = None /\
  c10_kt_recognise (lit "@Serializable" ++ nl ++ lit "data class A(val x)" ++ nl) = None /\
  c10_kt_recognise (lit "@Serializable" ++ nl ++ lit "data class (val x: Int)" ++ nl) = None /\
  c10_kt_recognise (lit "@SerialName(""a) object A" ++ nl) = None.
Proof. pose proof C10_kt_grammar_nonvacuous as H. tauto. Qed.
