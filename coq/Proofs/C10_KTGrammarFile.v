(* C10, grammar half for Kotlin, part 4: from the IR to the whole file.
     - the DECISION layer (kt_texp, kt_member_of, kt_struct_decl, kt_alias_decl, kt_variant_of, kt_enum_decls,
       kt_decl_of) produces declarations of [c10_ktg_decl_ok] from every item of the grammar domain
       ([c10_ktg_item_ok] on top of dom_C10);
     - the version header is a block comment, the package line and the fixed imports the packageHeader / importList;
     - [kt_generate_recognised]: the recogniser accepts the whole generated file;
     - [kt_decls_recognised]: the layout layer alone, lists of declarations;
     - a witness program with every declaration form, accepted, and mutilated texts, rejected. *)
From Coq Require Import List Bool Arith Lia ZifyBool ZifyN NArith String Permutation.
From TS Require Import Model.Str Model.Outcome Model.Unicode Model.Types Model.Parse Model.Rename Model.TopsortAlgo Model.Topsort
                       Model.Lang.Common Model.Lang.Decl Model.Lang.TypeScript Model.Lang.Kotlin.
From TS Require Import Spec.C10Spec Spec.C10TsGrammar Spec.C10KtGrammar Proofs.BackCommon
                       Proofs.C10_KTGrammarTok Proofs.C10_KTGrammarParse Proofs.C10_KTGrammar.
From TS Require Proofs.C10Lex Proofs.C10_TSFile Proofs.C10Common Proofs.C10_KT Proofs.C10_TSGrammar.
Import ListNotations.
Local Open Scope N_scope.
Local Notation length := List.length (only parsing).

Ltac lit_cfrag := apply cfrag_compute; vm_compute; reflexivity.

(* ------------------------------------------------------------------ the grammar domain, on top of dom_C10 *)
(* a dotted sequence of identifiers *)
Definition DottedIdent (s : str) : Prop := exists segs, segs <> [] /\ s = join [46] segs /\ forallb c10k_ident_ok segs = true.

(* every type_mappings value is a type of the grammar; the prefix, if any, starts like an identifier (it is the head of
   every declared name); the package, if any, is a dotted sequence of identifiers *)
Definition c10_ktg_cfg_ok (cfg : kt_config) : Prop :=
  Forall (fun kv => TyText (snd kv)) (kt_type_mappings cfg) /\
  (kt_prefix cfg = [] \/ c10k_ident_ok (kt_prefix cfg) = true) /\
  (kt_package cfg = [] \/ DottedIdent (kt_package cfg)).

(* the constructor parameter named after a field is an identifier once its dashes are replaced (the finding class
   C10-digit-name is outside); a type override for Kotlin is a type of the grammar *)
Definition c10_ktg_field_ok (f : rfield) : Prop :=
  c10k_ident_ok (kt_remove_dash_from_identifier (renamed (fid f))) = true /\ forall o, type_override f Kotlin = Some o -> TyText o.
Definition c10_ktg_variant_dom (v : rvariant) : Prop :=
  match v with VAnon fs _ => Forall c10_ktg_field_ok fs | _ => True end.
(* a sealed class prints its content key as a parameter name, and the PascalCase of a variant name as a class name: it must
   not be empty (a variant named with underscores only) *)
Definition c10_ktg_item_ok (it : ritem) : Prop :=
  match it with
  | ItStruct s => Forall c10_ktg_field_ok (sfields s)
  | ItEnum (EUnit sh) => Forall c10_ktg_variant_dom (evariants sh)
  | ItEnum (EAlgebraic tag content sh) =>
    c10k_ident_ok content = true /\
    Forall (fun v => to_pascal_case (original (vid (variant_shared v))) <> [] /\ c10_ktg_variant_dom v) (evariants sh)
  | _ => True
  end.
Definition c10_ktg_dom (pd : parsed) : Prop := Forall c10_ktg_item_ok (items_of pd).

(* ------------------------------------------------------------------ identifiers *)
Lemma ident_char_kt c : c10_ident_char c = true -> c10k_id_char c = true.
Proof. unfold c10_ident_char, c10k_id_char, c10k_id_start. lia. Qed.
Lemma ident_chars_kt s : forallb c10_ident_char s = true -> forallb c10k_id_char s = true.
Proof. apply Proofs.C10Lex.forallb_impl. exact ident_char_kt. Qed.
Lemma kt_ident_chars s : c10k_ident_ok s = true -> forallb c10k_id_char s = true.
Proof.
  destruct s as [|c r]; [discriminate|]. cbn [c10k_ident_ok forallb]. rewrite !andb_true_iff. intros [Hc Hr]. split; [|exact Hr].
  unfold c10k_id_char. rewrite Hc. reflexivity.
Qed.
Lemma kt_ident_app a b : c10k_ident_ok a = true -> forallb c10k_id_char b = true -> c10k_ident_ok (a ++ b) = true.
Proof.
  destruct a as [|c r]; [discriminate|]. cbn [c10k_ident_ok app]. rewrite !andb_true_iff. intros [Hc Hr] Hb. split; [exact Hc|].
  rewrite forallb_app, Hr, Hb. reflexivity.
Qed.
Lemma ident_key_chars s : c10_ident_ok s = true -> s <> [] /\ forallb c10_key_char s = true.
Proof.
  intros H. split; [destruct s; discriminate|]. apply Proofs.C10_TSFile.ident_ok_chars in H. revert H. apply Proofs.C10Lex.forallb_impl.
  intros c. unfold c10_ident_char, c10_key_char. lia.
Qed.
Lemma key_key_chars s : c10_key_ok s = true -> s <> [] /\ forallb c10_key_char s = true.
Proof. destruct s; [discriminate|]. intros H. split; [discriminate|exact H]. Qed.
Lemma key_plain s : forallb c10_key_char s = true -> forallb T.c10_plain_char s = true.
Proof. intros H. exact (proj2 (Proofs.C10_TSGrammar.debug_key s H)). Qed.

(* ------------------------------------------------------------------ the decision layer *)
Section Decide.
Variable cfg : kt_config.
Hypothesis Gcfg : c10_ktg_cfg_ok cfg.

Lemma tmap_get_tytext k v : tmap_get (kt_type_mappings cfg) k = Some v -> TyText v.
Proof.
  destruct Gcfg as [G _]. revert G. generalize (kt_type_mappings cfg). intros m G.
  induction G as [|[a b] r Hab Hr IH]; cbn [tmap_get]; [discriminate|].
  destruct (str_eqb a k); [intros E; injection E as <-; exact Hab|exact IH].
Qed.

Lemma kt_prefixed s : c10k_ident_ok s = true -> c10k_ident_ok (kt_prefix cfg ++ s) = true.
Proof.
  intros H. destruct Gcfg as (_ & [-> | Hp] & _); [exact H|]. apply kt_ident_app; [exact Hp|apply kt_ident_chars, H].
Qed.

Lemma kt_type_name_ident base gs : c10_ident_ok base = true -> c10k_ident_ok (kt_type_name cfg base gs) = true.
Proof. intros H. unfold kt_type_name. destruct (mem_str base gs); [apply ident_kt_ident, H|apply kt_prefixed, ident_kt_ident, H]. Qed.

Lemma name0 w : c10k_ident_ok (lit w) = true -> c10_ktg_texp (XName (lit w) []).
Proof. intros H. apply KG_name; [exact H|constructor]. Qed.

Lemma kt_texp_gram generics t : c10_rtype_ok t = true -> forall x, kt_texp cfg generics t = Ok x -> c10_ktg_texp x.
Proof.
  induction t as [id | id ps IH | t IH | t n IH | t IH | k v IHk IHv | t IH | p] using rtype_ind';
    intros Hok x H; cbn [c10_rtype_ok] in Hok; cbn [kt_texp] in H.
  - injection H as <-. unfold kt_format_simple_type. destruct (tmap_get (kt_type_mappings cfg) id) eqn:E.
    + apply KG_raw, (tmap_get_tytext _ _ E).
    + apply KG_name; [apply kt_type_name_ident, Hok|constructor].
  - apply andb_true_iff in Hok as [Hid Hps].
    destruct (tmap_get (kt_type_mappings cfg) id) eqn:E.
    + injection H as <-. apply KG_raw, (tmap_get_tytext _ _ E).
    + apply Proofs.C10Common.bind_ok in H as (parts & Hgo & H). injection H as <-. apply KG_name; [apply kt_type_name_ident, Hid|].
      clear E. revert parts Hgo. induction IH as [|a l Ha Hl IHl]; intros parts Hgo.
      * injection Hgo as <-. constructor.
      * cbn [forallb] in Hps. apply andb_true_iff in Hps as [Hpa Hpl].
        apply Proofs.C10Common.bind_ok in Hgo as (y & Hy & Hgo). apply Proofs.C10Common.bind_ok in Hgo as (ys & Hys & Hgo). injection Hgo as <-.
        constructor; [exact (Ha Hpa _ Hy)|exact (IHl Hpl _ Hys)].
  - apply Proofs.C10Common.bind_ok in H as (e & He & H). injection H as <-. apply KG_name; [reflexivity|]. constructor; [exact (IH Hok _ He)|constructor].
  - apply Proofs.C10Common.bind_ok in H as (e & He & H). injection H as <-. apply KG_name; [reflexivity|]. constructor; [exact (IH Hok _ He)|constructor].
  - apply Proofs.C10Common.bind_ok in H as (e & He & H). injection H as <-. apply KG_name; [reflexivity|]. constructor; [exact (IH Hok _ He)|constructor].
  - apply andb_true_iff in Hok as [Hk Hv]. apply Proofs.C10Common.bind_ok in H as (ks & Hks & H). apply Proofs.C10Common.bind_ok in H as (vs & Hvs & H). injection H as <-.
    apply KG_name; [reflexivity|]. constructor; [exact (IHk Hk _ Hks)|]. constructor; [exact (IHv Hv _ Hvs)|constructor].
  - apply Proofs.C10Common.bind_ok in H as (e & He & H). injection H as <-. apply KG_opt. exact (IH Hok _ He).
  - destruct p; try discriminate; injection H as <-; apply name0; reflexivity.
Qed.

Lemma kt_member_gram f gs rs vis m : c10_field_ok CKT f = true -> c10_ktg_field_ok f -> kt_member_of cfg f gs rs vis = Ok m -> c10_ktg_member_ok m.
Proof.
  intros Hf (Gn & Go) H. unfold kt_member_of in H. apply Proofs.C10Common.bind_ok in H as (ty & Hty & H). injection H as <-.
  unfold c10_field_ok in Hf. rewrite !andb_true_iff in Hf. destruct Hf as [[[Hid Hrt] Hdocs] _].
  unfold c10_member_id_ok in Hid. apply andb_true_iff in Hid as [_ Hren].
  unfold c10_ktg_member_ok. cbn [km_docs km_serial_name km_name km_type].
  split; [apply Proofs.C10Common.docs_line_ok, Hdocs|]. split; [destruct rs; [apply key_key_chars, Hren|exact I]|]. split; [exact Gn|].
  destruct (type_override f Kotlin) as [o|] eqn:Eo.
  - injection Hty as <-. apply KG_raw, Go. reflexivity.
  - exact (kt_texp_gram gs (fty f) Hrt _ Hty).
Qed.

(* write_struct on a source struct or on the helper struct of a struct variant *)
Lemma kt_struct_decl_gram rs d :
  c10_ident_ok (renamed (sid rs)) = true -> forallb c10_ident_ok (sgenerics rs) = true ->
  forallb (c10_field_ok CKT) (sfields rs) = true -> Forall c10_ktg_field_ok (sfields rs) ->
  forallb Proofs.C10Lex.c10_line_ok (scomments rs) = true ->
  kt_struct_decl cfg rs = Ok d -> c10_ktg_decl_ok d.
Proof.
  intros Hren Hg Hf Gf Hd H. unfold kt_struct_decl in H. destruct (sfields rs) as [|f0 fs] eqn:Ef.
  - injection H as <-. cbn [c10_ktg_decl_ok]. split; [exact Hd|apply kt_prefixed, ident_kt_ident, Hren].
  - apply Proofs.C10Common.bind_ok in H as (ms & Hms & H). injection H as <-. cbn [c10_ktg_decl_ok].
    split; [exact Hd|]. split; [apply kt_prefixed, ident_kt_ident, Hren|].
    split; [revert Hg; apply Proofs.C10Lex.forallb_impl; apply ident_kt_ident|]. split.
    + eapply (Proofs.C10Common.mapM_Forall_in _ (fun f => c10_field_ok CKT f = true /\ c10_ktg_field_ok f)); [| |exact Hms].
      * intros x y Hx Hy. destruct Hx as [Hx1 Hx2]. exact (kt_member_gram _ _ _ _ _ Hx1 Hx2 Hy).
      * apply Proofs.C10Lex.forallb_Forall in Hf. rewrite Forall_forall in *. intros x Hin. split; auto.
    + destruct (sredacted rs); [apply ident_key_chars, Hren|exact I].
Qed.

Lemma generics_kt gs : forallb c10_ident_ok gs = true -> forallb c10k_ident_ok gs = true.
Proof. apply Proofs.C10Lex.forallb_impl. apply ident_kt_ident. Qed.

Lemma kt_alias_decl_gram a d : c10_item_ok CKT (ItAlias a) = true -> kt_alias_decl cfg a = Ok d -> c10_ktg_decl_ok d.
Proof.
  cbn [c10_item_ok]. rewrite !andb_true_iff. intros [[[[Hid Hg] Ht] Hd] _] H.
  unfold c10_type_id_ok in Hid. apply andb_true_iff in Hid as [Horig Hren].
  unfold kt_alias_decl in H. destruct (kt_is_inline (adecs a)).
  - apply Proofs.C10Common.bind_ok in H as (m & Hm & H). injection H as <-. cbn [c10_ktg_decl_ok].
    split; [apply Proofs.C10Common.docs_line_ok, Hd|]. split; [apply kt_prefixed, ident_kt_ident, Hren|].
    eapply kt_member_gram; [| |exact Hm].
    + unfold c10_field_ok, c10_member_id_ok. cbn [fid fty fcomments fdecs original renamed lookup_lang forallb]. rewrite Ht. reflexivity.
    + split; [reflexivity|]. intros o E. discriminate.
  - apply Proofs.C10Common.bind_ok in H as (ty & Hty & H). injection H as <-. cbn [c10_ktg_decl_ok].
    split; [apply Proofs.C10Common.docs_line_ok, Hd|]. split; [apply kt_prefixed, ident_kt_ident, Horig|].
    split; [apply generics_kt, Hg|exact (kt_texp_gram _ _ Ht _ Hty)].
Qed.

Lemma kt_variant_gram sh v kv : forallb c10_ident_ok (egenerics sh) = true -> c10_ident_ok (original (eid sh)) = true ->
  c10_variant_ok CKT v = true -> to_pascal_case (original (vid (variant_shared v))) <> [] ->
  kt_variant_of cfg sh v = Ok kv -> c10_ktg_variant_ok kv.
Proof.
  intros Hg He Hv Hne H. unfold c10_variant_ok in Hv. rewrite !andb_true_iff in Hv. destruct Hv as [[Hid Hdocs] Hp].
  unfold c10_member_id_ok in Hid. apply andb_true_iff in Hid as [Horig Hren].
  unfold kt_variant_of in H. apply Proofs.C10Common.bind_ok in H as (payload & Hpay & H). injection H as <-.
  unfold c10_ktg_variant_ok. cbn [kv_docs kv_wire kv_name kv_parent kv_payload]. cbv zeta.
  destruct (key_key_chars _ Hren) as [Hw1 Hw2].
  split; [apply Proofs.C10Common.docs_line_ok, Hdocs|]. split; [exact Hw1|]. split; [apply key_plain, Hw2|]. split.
  { pose proof (Proofs.C10Common.to_pascal_ident _ (Proofs.C10_TSFile.ident_ok_chars _ Horig)) as Hp'.
    destruct (to_pascal_case (original (vid (variant_shared v)))) as [|c r] eqn:E; [congruence|].
    destruct (is_adigit c) eqn:Ed.
    - change (lit "_" ++ c :: r) with (ch_us :: c :: r). cbn [c10k_ident_ok]. apply andb_true_iff. split; [reflexivity|apply ident_chars_kt, Hp'].
    - cbn [c10k_ident_ok]. cbn [forallb] in Hp'. apply andb_true_iff in Hp' as [Hc Hr]. apply andb_true_iff. split; [|apply ident_chars_kt, Hr].
      unfold c10_ident_char in Hc. unfold c10k_id_start. rewrite Ed in Hc. lia. }
  split; [apply kt_prefixed, ident_kt_ident, He|].
  destruct v as [vsh | t vsh | fs vsh]; cbn [variant_shared] in *.
  - injection Hpay as <-. exact I.
  - apply Proofs.C10Common.bind_ok in Hpay as (ty & Hty & Hpay). injection Hpay as <-. exact (kt_texp_gram _ _ Hp _ Hty).
  - injection Hpay as <-. split; [|apply generics_kt, Proofs.C10Common.anon_struct_generics_ok, Hg].
    apply kt_prefixed. apply kt_ident_app; [apply ident_kt_ident, He|].
    rewrite forallb_app, (ident_chars_kt _ (Proofs.C10_TSFile.ident_ok_chars _ Horig)). reflexivity.
Qed.

Lemma kt_enum_decls_gram e ds : c10_item_ok CKT (ItEnum e) = true -> c10_ktg_item_ok (ItEnum e) ->
  kt_enum_decls cfg e = Ok ds -> Forall c10_ktg_decl_ok ds /\ ds <> [].
Proof.
  cbn [c10_item_ok]. rewrite !andb_true_iff. intros [[[[[Hid Hg] Hd] Hv] _] Htc] Git H.
  unfold c10_type_id_ok in Hid. apply andb_true_iff in Hid as [Horig Hren].
  unfold kt_enum_decls in H. apply Proofs.C10Common.bind_ok in H as (anon & Hanon & H). apply Proofs.C10Common.bind_ok in H as (d & Hd' & H). injection H as <-.
  split; [|destruct anon; discriminate].
  assert (Gdom : Forall c10_ktg_variant_dom (evariants (enum_shared e))).
  { destruct e as [sh | tag content sh]; cbn [c10_ktg_item_ok enum_shared] in *; [exact Git|].
    destruct Git as [_ G]. revert G. apply Forall_impl. intros v [_ G]. exact G. }
  apply Forall_app. split.
  - unfold kt_inner_decls in Hanon. apply Proofs.C10Common.bind_ok in Hanon as (dss & Hdss & Hanon). injection Hanon as <-.
    apply Forall_concat.
    eapply (Proofs.C10Common.mapM_Forall_in _ (fun v => c10_variant_ok CKT v = true /\ c10_ktg_variant_dom v)); [| |exact Hdss].
    + intros v ds0 [Hv0 Gv0] Hds0. destruct v as [vsh | t vsh | fs vsh]; try (injection Hds0 as <-; constructor).
      apply Proofs.C10Common.bind_ok in Hds0 as (d0 & Hd0 & Hds0). injection Hds0 as <-. constructor; [|constructor].
      unfold c10_variant_ok in Hv0. cbn [variant_shared] in Hv0. rewrite !andb_true_iff in Hv0. destruct Hv0 as [[Hvid _] Hfs].
      unfold c10_member_id_ok in Hvid. apply andb_true_iff in Hvid as [Hvo _].
      eapply kt_struct_decl_gram; [| | | | |exact Hd0]; cbn [anon_struct sid sgenerics sfields scomments renamed].
      * apply Proofs.C10_KT.ident_ok_app; [exact Hren|]. rewrite forallb_app, (Proofs.C10_TSFile.ident_ok_chars _ Hvo). reflexivity.
      * apply Proofs.C10Common.anon_struct_generics_ok, Hg.
      * exact Hfs.
      * exact Gv0.
      * cbn [forallb]. rewrite andb_true_r. apply Proofs.C10Common.docsafe_line.
        rewrite !forallb_app, (Proofs.C10Common.ident_docsafe _ (Proofs.C10_TSFile.ident_ok_chars _ Hvo)),
          (Proofs.C10Common.ident_docsafe _ (Proofs.C10_TSFile.ident_ok_chars _ Horig)). reflexivity.
    + apply Proofs.C10Lex.forallb_Forall in Hv. rewrite Forall_forall in *. intros v Hin. split; auto.
  - constructor; [|constructor]. destruct e as [sh | tag content sh]; cbn [enum_shared c10_ktg_item_ok] in *.
    + apply Proofs.C10Common.bind_ok in Hd' as (es & Hes & Hd'). injection Hd' as <-. cbn [c10_ktg_decl_ok].
      split; [apply Proofs.C10Common.docs_line_ok, Hd|]. split; [apply kt_prefixed, ident_kt_ident, Hren|]. split; [apply generics_kt, Hg|].
      eapply Proofs.C10Common.mapM_Forall_in; [|apply Proofs.C10Lex.forallb_Forall; exact Hv|exact Hes].
      intros v y Hv0 Hy. cbn beta in Hv0. unfold kt_entry_of in Hy. injection Hy as <-.
      unfold c10_variant_ok in Hv0. rewrite !andb_true_iff in Hv0. destruct Hv0 as [[Hvid Hvd] _].
      unfold c10_member_id_ok in Hvid. apply andb_true_iff in Hvid as [Hvo Hvr].
      unfold c10_ktg_entry_ok. cbn [ke_docs ke_name ke_wire]. split; [apply Proofs.C10Common.docs_line_ok, Hvd|].
      split; [apply ident_kt_ident, Hvo|apply key_key_chars, Hvr].
    + destruct Git as [Gcon Gvs].
      apply Proofs.C10Common.bind_ok in Hd' as (vs & Hvs & Hd'). injection Hd' as <-. cbn [c10_ktg_decl_ok].
      split; [apply Proofs.C10Common.docs_line_ok, Hd|]. split; [apply kt_prefixed, ident_kt_ident, Hren|]. split; [apply generics_kt, Hg|].
      split; [exact Gcon|].
      eapply (Proofs.C10Common.mapM_Forall_in _ (fun v => c10_variant_ok CKT v = true /\
                (to_pascal_case (original (vid (variant_shared v))) <> [] /\ c10_ktg_variant_dom v))); [| |exact Hvs].
      * intros v y [Hv0 [Gne _]] Hy. exact (kt_variant_gram _ _ _ Hg Horig Hv0 Gne Hy).
      * apply Proofs.C10Lex.forallb_Forall in Hv. rewrite Forall_forall in *. intros v Hin. split; auto.
Qed.

Lemma kt_decl_of_gram it ds : c10_item_ok CKT it = true -> c10_ktg_item_ok it -> kt_decl_of cfg it = Ok ds ->
  Forall c10_ktg_decl_ok ds /\ ds <> [].
Proof.
  intros Hit Git H. destruct it as [rs | e | a | c]; cbn [kt_decl_of] in H.
  - apply Proofs.C10Common.bind_ok in H as (d & Hd & H). injection H as <-. split; [|discriminate]. constructor; [|constructor].
    cbn [c10_item_ok] in Hit. rewrite !andb_true_iff in Hit. destruct Hit as [[[[Hid Hg] Hf] Hdoc] _].
    unfold c10_type_id_ok in Hid. apply andb_true_iff in Hid as [_ Hren].
    exact (kt_struct_decl_gram _ _ Hren Hg Hf Git (Proofs.C10Common.docs_line_ok _ Hdoc) Hd).
  - exact (kt_enum_decls_gram _ _ Hit Git H).
  - apply Proofs.C10Common.bind_ok in H as (d & Hd & H). injection H as <-. split; [|discriminate]. constructor; [|constructor].
    exact (kt_alias_decl_gram _ _ Hit Hd).
  - discriminate.
Qed.
End Decide.

(* ------------------------------------------------------------------ the header *)
Lemma L_dot : CFrag [46] [KP 46]. Proof. lit_cfrag. Qed.

Lemma qual_frag segs : segs <> [] -> forallb c10k_ident_ok segs = true -> Frag (join [46] segs) (qual_toks segs).
Proof.
  induction segs as [|a r IH]; [congruence|]. intros _ H. cbn [forallb] in H. apply andb_true_iff in H as [Ha Hr].
  destruct r as [|b r].
  - cbn [join qual_toks]. apply frag_ident, Ha.
  - change (join [46] (a :: b :: r)) with (a ++ [46] ++ join [46] (b :: r)).
    change (qual_toks (a :: b :: r)) with ([KIdent a] ++ [KP 46] ++ qual_toks (b :: r)).
    apply frag_frag_app; [apply frag_ident, Ha| |reflexivity]. apply cfrag_frag_app; [exact L_dot|]. apply IH; [discriminate|exact Hr].
Qed.

Lemma dotted_pass v : c10_dotted_ok v = true -> PassAny v.
Proof.
  intros H. apply pass_ok_pass, plain_pass_ok. revert H. apply Proofs.C10Lex.forallb_impl. intros c.
  unfold c10_dotted_char, c10_key_char, is_aalpha, is_alower, is_aupper, is_adigit, ch_us, ch_dash. lia.
Qed.

Lemma version_header_cfrag v : c10_dotted_ok v = true ->
  CFrag (lit "/**" ++ nl ++ lit " * Generated by typeshare " ++ v ++ nl ++ lit " */" ++ nl ++ nl) [].
Proof.
  intros Hv.
  replace (lit "/**" ++ nl ++ lit " * Generated by typeshare " ++ v ++ nl ++ lit " */" ++ nl ++ nl)
    with ((47 :: 42 :: (([42] ++ nl ++ lit " * Generated by typeshare ") ++ v ++ (nl ++ [32])) ++ [42; 47]) ++ nl ++ nl).
  2:{ cbn [lit app]. repeat (rewrite <- ?app_assoc; cbn [app]). reflexivity. }
  change (@nil c10_tok) with (@nil c10_tok ++ []). apply cfrag_app; [|lit_cfrag]. apply cfrag_block_comment.
  apply pass_app; [apply pass_ok_pass; vm_compute; reflexivity|]. apply pass_app; [apply dotted_pass, Hv|].
  apply pass_ok_pass. vm_compute. reflexivity.
Qed.

Definition fixed_imports : list (list str) :=
  [[lit "kotlinx"; lit "serialization"; lit "Serializable"]; [lit "kotlinx"; lit "serialization"; lit "SerialName"]].
Lemma L_fixed_imports :
  CFrag (nl ++ nl ++ lit "import kotlinx.serialization.Serializable" ++ nl ++ lit "import kotlinx.serialization.SerialName" ++ nl ++ nl)
        (List.concat (map import_toks fixed_imports)).
Proof. lit_cfrag. Qed.
Lemma L_package : CFrag (lit "package ") [kw "package"]. Proof. lit_cfrag. Qed.

(* begin_file: the header's tokens, as the package header and import list of the grammar *)
Lemma kt_begin_file_gram cfg : Proofs.C10_KT.c10_kt_cfg_ok cfg = true -> c10_ktg_cfg_ok cfg ->
  exists p is, CFrag (kt_begin_file cfg) (opackage_toks p ++ List.concat (map import_toks is)) /\
               match p with Some l => l <> [] | None => True end /\ Forall (fun i => i <> []) is.
Proof.
  intros Hcfg (_ & _ & Gp). unfold kt_begin_file, kt_header_of.
  destruct (kt_package cfg) as [|p0 pr] eqn:Ep.
  - exists None, []. split; [apply cfrag_nil|]. split; [exact I|constructor].
  - destruct Gp as [Gp | (segs & Hne & Hs & Hid)]; [discriminate|].
    exists (Some segs), fixed_imports. split; [|split; [exact Hne|repeat constructor; discriminate]].
    cbn [kt_render_header kh_version kh_package kh_imports map List.concat kt_qualified fst snd].
    unfold Proofs.C10_KT.c10_kt_cfg_ok in Hcfg. rewrite !andb_true_iff in Hcfg. destruct Hcfg as [[[_ Hv] _] _].
    assert (Hrest : CFrag (lit "package " ++ (p0 :: pr) ++ nl ++ nl ++
                           ((lit "import " ++ lit "kotlinx.serialization" ++ lit "." ++ lit "Serializable" ++ nl) ++
                            (lit "import " ++ lit "kotlinx.serialization" ++ lit "." ++ lit "SerialName" ++ nl) ++ []) ++ nl)
                          (opackage_toks (Some segs) ++ List.concat (map import_toks fixed_imports))).
    { change (opackage_toks (Some segs)) with ([kw "package"] ++ qual_toks segs). rewrite <- (app_assoc [kw "package"]).
      apply cfrag_app; [exact L_package|]. rewrite Hs. apply frag_cfrag_app; [apply qual_frag; assumption|exact L_fixed_imports|reflexivity]. }
    destruct (kt_no_version_header cfg).
    + exact Hrest.
    + change (opackage_toks (Some segs) ++ List.concat (map import_toks fixed_imports))
        with ([] ++ opackage_toks (Some segs) ++ List.concat (map import_toks fixed_imports)).
      replace ((lit "/**" ++ nl ++ lit " * Generated by typeshare " ++ kt_version cfg ++ nl ++ lit " */" ++ nl ++ nl) ++
               lit "package " ++ (p0 :: pr) ++ nl ++ nl ++
               ((lit "import " ++ lit "kotlinx.serialization" ++ lit "." ++ lit "Serializable" ++ nl) ++
                (lit "import " ++ lit "kotlinx.serialization" ++ lit "." ++ lit "SerialName" ++ nl) ++ []) ++ nl)
        with ((lit "/**" ++ nl ++ lit " * Generated by typeshare " ++ kt_version cfg ++ nl ++ lit " */" ++ nl ++ nl) ++
              (lit "package " ++ (p0 :: pr) ++ nl ++ nl ++
               ((lit "import " ++ lit "kotlinx.serialization" ++ lit "." ++ lit "Serializable" ++ nl) ++
                (lit "import " ++ lit "kotlinx.serialization" ++ lit "." ++ lit "SerialName" ++ nl) ++ []) ++ nl)) by reflexivity.
      apply cfrag_app; [apply version_header_cfrag, Hv|exact Hrest].
Qed.

(* ------------------------------------------------------------------ the whole file *)
Lemma parts_gram parts : Forall (fun t => exists td, CFrag t td /\ DeclToks td /\ forall x, hfol (td ++ x)) parts ->
  exists tds, CFrag (List.concat parts) (List.concat tds) /\ Forall DeclToks tds /\ List.length tds = List.length parts /\ hfol (List.concat tds).
Proof.
  induction 1 as [|t r (td & Hf & Hd & Hh) _ (tds & Hfs & Hds & Hl & _)].
  - exists []. split; [apply cfrag_nil|]. split; [constructor|]. split; [reflexivity|exact I].
  - exists (td :: tds). split; [cbn [List.concat]; apply cfrag_app; assumption|]. split; [constructor; assumption|].
    split; [cbn [List.length]; rewrite Hl; reflexivity|]. cbn [List.concat]. apply Hh.
Qed.

Lemma recognise_file h p is tds : CFrag h (opackage_toks p ++ List.concat (map import_toks is)) ->
  match p with Some l => l <> [] | None => True end -> Forall (fun i => i <> []) is ->
  forall body, CFrag body (List.concat tds) -> Forall DeclToks tds -> hfol (List.concat tds) ->
  c10_kt_recognise (h ++ body) = Some (List.length tds).
Proof.
  intros Hh Hp His body Hb Hd Hf. unfold c10_kt_recognise.
  rewrite (tk_run _ _ (cfrag_tk _ _ (cfrag_app _ _ _ _ Hh Hb))). rewrite <- app_assoc.
  rewrite (header_ok p is (List.concat tds) Hp His Hf). apply decls_ok; [exact Hd|lia].
Qed.

Theorem kt_generate_recognised uc cfg pd text :
  Proofs.C10_KT.c10_kt_cfg_ok cfg = true -> c10_ktg_cfg_ok cfg -> dom_C10 CKT pd = true -> c10_ktg_dom pd ->
  kt_generate uc cfg pd = Ok text -> exists n, c10_kt_recognise text = Some n /\ (List.length (items_of pd) <= n)%nat.
Proof.
  intros Hcfg Gcfg Hdom Gdom H. unfold kt_generate in H.
  apply Proofs.C10Common.bind_ok in H as (items & Et & H). apply Proofs.C10Common.bind_ok in H as (body & Eb & H). injection H as <-.
  pose proof (Proofs.C10_TSFile.topsort_ok_perm _ _ Et) as Hperm.
  assert (Hitems : Forall (fun it => c10_item_ok CKT it = true /\ c10_ktg_item_ok it) items).
  { apply Proofs.C10Lex.forallb_Forall in Hdom. fold (items_of pd) in Hdom. unfold c10_ktg_dom in Gdom.
    eapply Permutation_Forall; [apply Permutation_sym, Hperm|]. rewrite Forall_forall in *. intros it Hin. split; auto. }
  unfold kt_concat in Eb. apply Proofs.C10Common.bind_ok in Eb as (parts & Hp & Eb). injection Eb as <-.
  (* every item writes at least one declaration, each a declaration of the grammar *)
  assert (Hparts : exists dss, List.concat parts = List.concat (map kt_render_decl (List.concat dss)) /\
                               Forall c10_ktg_decl_ok (List.concat dss) /\ (List.length items <= List.length (List.concat dss))%nat).
  { clear -Hp Hitems Gcfg. revert parts Hp. induction Hitems as [|it items [Hit Git] _ IH]; intros parts Hp; cbn [mapM] in Hp.
    - injection Hp as <-. exists []. split; [reflexivity|]. split; [constructor|cbn; lia].
    - apply Proofs.C10Common.bind_ok in Hp as (t & Ht & Hp). apply Proofs.C10Common.bind_ok in Hp as (ts & Hts & Hp). injection Hp as <-.
      destruct (IH ts Hts) as (dss & E & Hok & Hlen).
      unfold kt_write_item in Ht. apply Proofs.C10Common.bind_ok in Ht as (ds & Hds & Ht). injection Ht as <-.
      destruct (kt_decl_of_gram cfg Gcfg it ds Hit Git Hds) as [Hds_ok Hne].
      exists (ds :: dss). cbn [List.concat]. rewrite map_app, concat_app, E. split; [reflexivity|].
      split; [apply Forall_app; split; assumption|]. rewrite app_length. cbn [List.length]. destruct ds; [congruence|cbn [List.length]; lia]. }
  destruct Hparts as (dss & Ebody & Hok & Hlen). rewrite Ebody.
  assert (Hps : Forall (fun t => exists td, CFrag t td /\ DeclToks td /\ forall x, hfol (td ++ x)) (map kt_render_decl (List.concat dss))).
  { apply Forall_map. revert Hok. apply Forall_impl. apply kt_render_decl_gram. }
  destruct (parts_gram _ Hps) as (tds & Hfb & Hdb & Hl & Hh). rewrite map_length in Hl.
  destruct (kt_begin_file_gram cfg Hcfg Gcfg) as (p & is & Hfh & Hpp & His).
  exists (List.length tds). split; [exact (recognise_file _ p is tds Hfh Hpp His _ Hfb Hdb Hh)|].
  pose proof (Permutation_length Hperm). lia.
Qed.

(* ------------------------------------------------------------------ the layout layer alone: lists of declarations *)
Theorem kt_decls_recognised ds : Forall c10_ktg_decl_ok ds ->
  c10_kt_recognise (List.concat (map kt_render_decl ds)) = Some (List.length ds).
Proof.
  intros H. assert (Hp : Forall (fun t => exists td, CFrag t td /\ DeclToks td /\ forall x, hfol (td ++ x)) (map kt_render_decl ds)).
  { apply Forall_map. revert H. apply Forall_impl. apply kt_render_decl_gram. }
  destruct (parts_gram _ Hp) as (tds & Hf & Hd & Hl & Hh). rewrite map_length in Hl. rewrite <- Hl.
  exact (recognise_file [] None [] tds cfrag_nil I (Forall_nil _) _ Hf Hd Hh).
Qed.
