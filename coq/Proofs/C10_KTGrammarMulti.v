(* C10, grammar half for Kotlin, part 5: MULTI-FILE (folder output) mode.  kt_generate_multi (Model/MultiFile.v) differs from
   kt_generate by the package line, `package <package>.<crate>`, and by one import line per imported type,
   `import <package>.<crate>.<prefix><Type>` (a class is declared under the prefixed name, so that is the name imported: fix 26 of
   /repo), after the two fixed imports: the recogniser accepts the file of every crate. *)
From Coq Require Import List Bool Arith Lia ZifyBool ZifyN NArith String Permutation.
From TS Require Import Model.Str Model.Outcome Model.Unicode Model.Types Model.Parse Model.Rename Model.TopsortAlgo Model.Topsort
                       Model.Lang.Common Model.Lang.Decl Model.Lang.TypeScript Model.Lang.Kotlin Model.MultiFile.
From TS Require Import Spec.C10Spec Spec.C10TsGrammar Spec.C10KtGrammar Proofs.BackCommon
                       Proofs.C10_KTGrammarTok Proofs.C10_KTGrammarParse Proofs.C10_KTGrammar Proofs.C10_KTGrammarFile.
From TS Require Proofs.C10Lex Proofs.C10_TSFile Proofs.C10Common Proofs.C10_KT.
Import ListNotations.
Local Open Scope N_scope.
Local Notation length := List.length (only parsing).

Ltac lit_cfrag := apply cfrag_compute; vm_compute; reflexivity.

(* the import map of a crate: crate names and type names are identifiers (a crate directory whose name starts with a digit,
   admitted by c10_crate_ok, is excluded: `package p.3d_tools` is not a package header) *)
Definition c10_ktg_imports_ok (im : scoped) : Prop :=
  Forall (fun kv => c10k_ident_ok (fst kv) = true /\ forallb c10k_ident_ok (snd kv) = true) im.

Lemma join_snoc sep (l : list str) x : l <> [] -> join sep (l ++ [x]) = join sep l ++ sep ++ x.
Proof.
  induction l as [|a r IH]; [congruence|]. intros _. destruct r as [|b r]; [reflexivity|].
  change (join sep ((a :: b :: r) ++ [x])) with (a ++ sep ++ join sep ((b :: r) ++ [x])).
  rewrite IH by discriminate. change (join sep (a :: b :: r)) with (a ++ sep ++ join sep (b :: r)). rewrite <- !app_assoc. reflexivity.
Qed.

Lemma forallb_snoc {A} (p : A -> bool) l x : forallb p l = true -> p x = true -> forallb p (l ++ [x]) = true.
Proof. intros Hl Hx. rewrite forallb_app, Hl. cbn [forallb]. rewrite Hx. reflexivity. Qed.

Lemma L_import : CFrag (lit "import ") [kw "import"]. Proof. lit_cfrag. Qed.
Lemma L_nl : CFrag nl []. Proof. lit_cfrag. Qed.
Lemma L_nl2' : CFrag (nl ++ nl) []. Proof. lit_cfrag. Qed.

Definition user_imports (pre : str) (segs : list str) (im : scoped) : list (list str) :=
  flat_map (fun kv => map (fun t => segs ++ [fst kv; pre ++ t]) (snd kv)) im.

Lemma user_imports_ne pre segs im : Forall (fun i : list str => i <> []) (user_imports pre segs im).
Proof.
  unfold user_imports. induction im as [|[k ts] im IH]; [constructor|]. cbn [flat_map fst snd]. apply Forall_app. split; [|exact IH].
  apply Forall_map. apply Forall_forall. intros t _. destruct segs; discriminate.
Qed.

Section Multi.
Variable cfg : kt_config.
Variable segs : list str.
Hypothesis Hne : segs <> [].
Hypothesis Hs : kt_package cfg = join [46] segs.
Hypothesis Hid : forallb c10k_ident_ok segs = true.
(* the prefix is empty or an identifier (c10_ktg_cfg_ok): a prefixed identifier is an identifier (kt_prefixed) *)
Hypothesis Hpre : forall s, c10k_ident_ok s = true -> c10k_ident_ok (kt_prefix cfg ++ s) = true.

(* import <package>.<crate>.<Name> *)
Lemma import_line_cfrag0 k t : c10k_ident_ok k = true -> c10k_ident_ok t = true ->
  CFrag (lit "import " ++ kt_package cfg ++ lit "." ++ k ++ lit "." ++ t ++ nl) (import_toks (segs ++ [k; t])).
Proof.
  intros Hk Ht. unfold import_toks. replace (kw "import" :: qual_toks (segs ++ [k; t])) with ([kw "import"] ++ qual_toks (segs ++ [k; t]) ++ []) by (rewrite app_nil_r; reflexivity).
  apply cfrag_app; [exact L_import|].
  replace (kt_package cfg ++ lit "." ++ k ++ lit "." ++ t ++ nl) with (join [46] (segs ++ [k; t]) ++ nl).
  2:{ change (segs ++ [k; t]) with (segs ++ [k] ++ [t]). rewrite app_assoc, join_snoc by (destruct segs; [congruence|discriminate]).
      rewrite join_snoc by exact Hne. rewrite Hs, <- !app_assoc. reflexivity. }
  apply frag_cfrag_app; [|exact L_nl|reflexivity]. apply qual_frag; [destruct segs; [congruence|discriminate]|].
  rewrite forallb_app, Hid. cbn [forallb]. rewrite Hk, Ht. reflexivity.
Qed.

(* import <package>.<crate>.<prefix><Type> *)
Lemma import_line_cfrag k t : c10k_ident_ok k = true -> c10k_ident_ok t = true ->
  CFrag (lit "import " ++ kt_package cfg ++ lit "." ++ k ++ lit "." ++ kt_prefix cfg ++ t ++ nl) (import_toks (segs ++ [k; kt_prefix cfg ++ t])).
Proof.
  intros Hk Ht. pose proof (import_line_cfrag0 k (kt_prefix cfg ++ t) Hk (Hpre t Ht)) as H. rewrite <- (app_assoc (kt_prefix cfg) t nl) in H. exact H.
Qed.


Lemma write_imports_lines im : c10_ktg_imports_ok im ->
  CFrag (flat_map (fun kv => flat_map (fun t => lit "import " ++ kt_package cfg ++ lit "." ++ fst kv ++ lit "." ++ kt_prefix cfg ++ t ++ nl) (snd kv)) im)
        (List.concat (map import_toks (user_imports (kt_prefix cfg) segs im))).
Proof.
  induction 1 as [|[k ts] im [Hk Hts] _ IH]; [apply cfrag_nil|]. unfold user_imports. cbn [flat_map fst snd] in *.
  fold (user_imports (kt_prefix cfg) segs im). rewrite map_app, concat_app. apply cfrag_app; [|exact IH].
  clear IH. induction ts as [|t ts IHt]; [apply cfrag_nil|]. cbn [forallb] in Hts. apply andb_true_iff in Hts as [Ht Hts].
  cbn [flat_map map List.concat]. apply cfrag_app; [apply import_line_cfrag; assumption|exact (IHt Hts)].
Qed.

(* begin_file and write_imports of one crate's file: the package header and the import list of the grammar *)
Lemma kt_multi_header_gram c im : Proofs.C10_KT.c10_kt_cfg_ok cfg = true -> c10k_ident_ok c = true -> c10_ktg_imports_ok im ->
  CFrag (kt_begin_file_multi cfg c ++ kt_write_imports cfg im)
        (opackage_toks (Some (segs ++ [c])) ++ List.concat (map import_toks (fixed_imports ++ user_imports (kt_prefix cfg) segs im))).
Proof.
  intros Hcfg Hc Him. unfold kt_begin_file_multi, kt_write_imports.
  assert (Hpne : kt_package cfg <> []).
  { rewrite Hs. destruct segs as [|a [|b r]]; [congruence| |].
    - cbn [join]. cbn [forallb] in Hid. destruct a; [discriminate|discriminate].
    - change (join [46] (a :: b :: r)) with (a ++ [46] ++ join [46] (b :: r)). destruct a; discriminate. }
  destruct (kt_package cfg) as [|p0 pr] eqn:Ep; [congruence|]. rewrite <- Ep in *. clear Ep p0 pr Hpne.
  unfold Proofs.C10_KT.c10_kt_cfg_ok in Hcfg. rewrite !andb_true_iff in Hcfg. destruct Hcfg as [[[_ Hv] _] _].
  rewrite map_app, concat_app.
  assert (Hrest : CFrag ((lit "package " ++ kt_package cfg ++ lit "." ++ c ++ nl ++ nl ++
                          lit "import kotlinx.serialization.Serializable" ++ nl ++ lit "import kotlinx.serialization.SerialName" ++ nl ++ nl) ++
                         flat_map (fun kv => flat_map (fun t => lit "import " ++ kt_package cfg ++ lit "." ++ fst kv ++ lit "." ++ kt_prefix cfg ++ t ++ nl) (snd kv)) im ++ nl)
                        (opackage_toks (Some (segs ++ [c])) ++ List.concat (map import_toks fixed_imports) ++ List.concat (map import_toks (user_imports (kt_prefix cfg) segs im)))).
  { change (opackage_toks (Some (segs ++ [c]))) with ([kw "package"] ++ qual_toks (segs ++ [c])). rewrite <- !app_assoc.
    apply cfrag_app; [exact L_package|].
    replace (kt_package cfg ++ lit "." ++ c ++ nl ++ nl ++ lit "import kotlinx.serialization.Serializable" ++ nl ++
             lit "import kotlinx.serialization.SerialName" ++ nl ++ nl ++
             flat_map (fun kv => flat_map (fun t => lit "import " ++ kt_package cfg ++ lit "." ++ fst kv ++ lit "." ++ kt_prefix cfg ++ t ++ nl) (snd kv)) im ++ nl)
      with (join [46] (segs ++ [c]) ++
            (nl ++ nl ++ lit "import kotlinx.serialization.Serializable" ++ nl ++ lit "import kotlinx.serialization.SerialName" ++ nl ++ nl) ++
            flat_map (fun kv => flat_map (fun t => lit "import " ++ kt_package cfg ++ lit "." ++ fst kv ++ lit "." ++ kt_prefix cfg ++ t ++ nl) (snd kv)) im ++ nl).
    2:{ rewrite join_snoc by exact Hne. rewrite Hs, <- !app_assoc. reflexivity. }
    apply frag_cfrag_app; [apply qual_frag; [destruct segs; [congruence|discriminate]|apply forallb_snoc; assumption]| |reflexivity].
    apply cfrag_app; [exact L_fixed_imports|].
    rewrite <- (app_nil_r (List.concat (map import_toks (user_imports (kt_prefix cfg) segs im)))). apply cfrag_app; [apply write_imports_lines, Him|exact L_nl]. }
  destruct (kt_no_version_header cfg).
  - exact Hrest.
  - rewrite <- (app_assoc (lit "/**" ++ nl ++ lit " * Generated by typeshare " ++ kt_version cfg ++ nl ++ lit " */" ++ nl ++ nl)).
    change (opackage_toks (Some (segs ++ [c])) ++ ?x) with ([] ++ opackage_toks (Some (segs ++ [c])) ++ x).
    apply cfrag_app; [apply version_header_cfrag, Hv|exact Hrest].
Qed.
End Multi.

(* the declarations of the items of one file *)
Lemma kt_body_gram cfg items parts : c10_ktg_cfg_ok cfg ->
  Forall (fun it => c10_item_ok CKT it = true /\ c10_ktg_item_ok it) items -> mapM (kt_write_item cfg) items = Ok parts ->
  exists tds, CFrag (List.concat parts) (List.concat tds) /\ Forall DeclToks tds /\ hfol (List.concat tds) /\ (List.length items <= List.length tds)%nat.
Proof.
  intros Gcfg Hitems Hp.
  assert (Hparts : exists dss, List.concat parts = List.concat (map kt_render_decl (List.concat dss)) /\
                               Forall c10_ktg_decl_ok (List.concat dss) /\ (List.length items <= List.length (List.concat dss))%nat).
  { revert parts Hp. induction Hitems as [|it items [Hit Git] _ IH]; intros parts Hp; cbn [mapM] in Hp.
    - injection Hp as <-. exists []. split; [reflexivity|]. split; [constructor|cbn; lia].
    - apply Proofs.C10Common.bind_ok in Hp as (t & Ht & Hp). apply Proofs.C10Common.bind_ok in Hp as (ts & Hts & Hp). injection Hp as <-.
      destruct (IH ts Hts) as (dss & E & Hok & Hlen).
      unfold kt_write_item in Ht. apply Proofs.C10Common.bind_ok in Ht as (ds & Hds & Ht). injection Ht as <-.
      destruct (kt_decl_of_gram cfg Gcfg it ds Hit Git Hds) as [Hds_ok Hne].
      exists (ds :: dss). cbn [List.concat]. rewrite map_app, concat_app, E. split; [reflexivity|].
      split; [apply Forall_app; split; assumption|]. rewrite app_length. cbn [List.length]. destruct ds; [congruence|cbn [List.length]; lia]. }
  destruct Hparts as (dss & Ebody & Hok & Hlen). rewrite Ebody.
  assert (Hps : Forall (fun t => exists td, CFrag t td /\ DeclToks td /\ forall x, hfol (td ++ x)) (map kt_render_decl (List.concat dss))).
  { apply Forall_map. revert Hok. apply Forall_impl. apply kt_render_decl_gram. }
  destruct (parts_gram _ Hps) as (tds & Hfb & Hdb & Hl & Hh). rewrite map_length in Hl.
  exists tds. split; [exact Hfb|]. split; [exact Hdb|]. split; [exact Hh|lia].
Qed.

Theorem kt_generate_multi_recognised uc cfg c im pd text :
  Proofs.C10_KT.c10_kt_cfg_ok cfg = true -> c10_ktg_cfg_ok cfg -> kt_package cfg <> [] ->
  dom_C10 CKT pd = true -> c10_ktg_dom pd -> c10k_ident_ok c = true -> c10_ktg_imports_ok im ->
  kt_generate_multi uc cfg c im pd = Ok text -> exists n, c10_kt_recognise text = Some n /\ (List.length (items_of pd) <= n)%nat.
Proof.
  intros Hcfg Gcfg Hpk Hdom Gdom Hc Him H. unfold kt_generate_multi in H.
  apply Proofs.C10Common.bind_ok in H as (items & Et & H). apply Proofs.C10Common.bind_ok in H as (body & Eb & H). injection H as <-.
  pose proof (Proofs.C10_TSFile.topsort_ok_perm _ _ Et) as Hperm.
  assert (Hitems : Forall (fun it => c10_item_ok CKT it = true /\ c10_ktg_item_ok it) items).
  { apply Proofs.C10Lex.forallb_Forall in Hdom. fold (items_of pd) in Hdom. unfold c10_ktg_dom in Gdom.
    eapply Permutation_Forall; [apply Permutation_sym, Hperm|]. rewrite Forall_forall in *. intros it Hin. split; auto. }
  unfold kt_concat in Eb. apply Proofs.C10Common.bind_ok in Eb as (parts & Hp & Eb). injection Eb as <-.
  destruct (kt_body_gram cfg items parts Gcfg Hitems Hp) as (tds & Hfb & Hdb & Hh & Hlen).
  pose proof Gcfg as (_ & _ & [Gp | (segs & Hne & Hs & Hid)]); [congruence|].
  pose proof (kt_multi_header_gram cfg segs Hne Hs Hid (kt_prefixed cfg Gcfg) c im Hcfg Hc Him) as Hfh.
  exists (List.length tds). split.
  - rewrite app_assoc.
    assert (Hp1 : segs ++ [c] <> []) by (destruct segs; discriminate).
    assert (His : Forall (fun i : list str => i <> []) (fixed_imports ++ user_imports (kt_prefix cfg) segs im)).
    { apply Forall_app. split; [unfold fixed_imports; apply Forall_cons; [discriminate|apply Forall_cons; [discriminate|apply Forall_nil]]|apply user_imports_ne]. }
    exact (recognise_file _ (Some (segs ++ [c])) _ tds Hfh Hp1 His _ Hfb Hdb Hh).
  - pose proof (Permutation_length Hperm). lia.
Qed.

(* non-vacuity: the witness program of the single-file theorem as the crate `app_core` importing two types of `lib_crate` *)
Definition kgm_imports : scoped := [(lit "lib_crate", [lit "Item"; lit "Node"])].
Definition kgm_text : str := match kt_generate_multi uc_exec kg_cfg (lit "app_core") kgm_imports kg_prog with Ok t => t | _ => [] end.

Example C10_kt_grammar_multi_nonvacuous :
  c10k_ident_ok (lit "app_core") = true /\ c10_ktg_imports_ok kgm_imports /\ kt_package kg_cfg <> [] /\
  kt_generate_multi uc_exec kg_cfg (lit "app_core") kgm_imports kg_prog = Ok kgm_text /\
  c10_kt_recognise kgm_text = Some 7%nat /\
  contains_sub (lit "package com.agilebits.onepassword.app_core") kgm_text = true /\
  contains_sub (lit "import com.agilebits.onepassword.lib_crate.OPNode") kgm_text = true /\
  c10_kt_recognise (lit "package com.p.3d_tools" ++ nl) = None /\
  c10_kt_recognise (lit "package com.p.lib" ++ nl ++ lit "import com.p.lib-crate.Item" ++ nl) = None.
Proof.
  split; [reflexivity|]. split; [repeat constructor|]. split; [discriminate|]. repeat split; vm_compute; reflexivity.
Qed.
