(* C15, renderer level: what is shared by the per-language files Proofs/C15_<Lang>.v.
   [Decomp l P text sites]: the text is a sequence of code parts (each satisfying P) and comment
   fragments of language l whose doc strings, with the form they are printed in, are [sites], in
   order.  The lemmas follow the shapes the model's renderers are built from (++, concat/map,
   flat_map, join), so that the decomposition of a renderer is proved along its definition.
   With P := True this gives the `_partial` theorems; with P := "read from code mode, ends in code
   mode" the neutrality hypothesis of C15_file_partial is discharged. *)
From Coq Require Import List NArith Bool Lia String Permutation.
From TS Require Import Model.Str Model.Outcome Model.Unicode Model.Types Spec.Lexers Spec.C15Spec Spec.C15Render.
From TS Require Import Proofs.C15.
Import ListNotations.
Local Open Scope N_scope.

(* ---- outcome monad ---- *)
Lemma c15_bind_ok {A B} (m : outcome A) (f : A -> outcome B) r :
  bind m f = Ok r -> exists a, m = Ok a /\ f a = Ok r.
Proof. destruct m; cbn; try discriminate. eauto. Qed.

Lemma c15_mapM_Forall2 {A B} (f : A -> outcome B) (R : A -> B -> Prop) :
  (forall x y, f x = Ok y -> R x y) -> forall l ys, mapM f l = Ok ys -> Forall2 R l ys.
Proof.
  intros HR l. induction l as [|x l IH]; intros ys H; cbn [mapM] in H.
  - injection H as <-. constructor.
  - apply c15_bind_ok in H as (y & Hy & H). apply c15_bind_ok in H as (ys' & Hys & H). injection H as <-.
    constructor; auto.
Qed.

Lemma c15_Forall2_flat_map {A B C} (f : A -> list C) (g : B -> list C) l r :
  Forall2 (fun a b => g b = f a) l r -> flat_map g r = flat_map f l.
Proof. induction 1 as [|a b l r H _ IH]; [reflexivity|]. cbn [flat_map]. now rewrite H, IH. Qed.

Lemma c15_map_flat_map {A B C} (g : B -> C) (f : A -> list B) l :
  map g (flat_map f l) = flat_map (fun x => map g (f x)) l.
Proof. induction l as [|x r IH]; [reflexivity|]. cbn [flat_map]. now rewrite map_app, IH. Qed.

Lemma c15_flat_map_concat {A B} (f : A -> list B) (ls : list (list A)) :
  flat_map f (List.concat ls) = flat_map (flat_map f) ls.
Proof. induction ls as [|x r IH]; [reflexivity|]. cbn [List.concat flat_map]. now rewrite flat_map_app, IH. Qed.

(* ---- sites of a part list ---- *)
Definition c15_part_sites (p : c15_part) : list c15_doc_site :=
  match p with CPcode _ => [] | CPdoc b _ ds => c15_sites b ds end.

Lemma c15_sites_docs b ds : map snd (c15_sites b ds) = ds.
Proof. unfold c15_sites. rewrite map_map. apply map_id. Qed.
Lemma c15_sites_text l b ds : map (c15_site_text l) (c15_sites b ds) = map (c15_written l b) ds.
Proof. unfold c15_sites. rewrite map_map. reflexivity. Qed.
(* the line-comment languages (and Python's `# ` form) print the doc strings verbatim *)
Lemma c15_sites_text_line l ds : l <> C15ts -> map (c15_site_text l) (c15_sites false ds) = ds.
Proof. intros H. rewrite c15_sites_text. apply c15_written_map_id; [exact H|reflexivity]. Qed.
Lemma c15_sites_text_ts b ds : map (c15_site_text C15ts) (c15_sites b ds) = map c15_esc_ts ds.
Proof. apply c15_sites_text. Qed.

Lemma c15_parts_sites_docs l ps :
  docs_of (c15_file_pieces l ps) = map (c15_site_text l) (flat_map c15_part_sites ps).
Proof.
  rewrite c15_file_docs. induction ps as [|p r IH]; [reflexivity|].
  cbn [flat_map]. rewrite map_app, IH. f_equal. destruct p as [s|b i ds]; [reflexivity|].
  cbn [c15_part_sites c15_part_written]. now rewrite c15_sites_text.
Qed.

Lemma c15_parts_safe_sites l ps :
  forallb (c15_part_safe l) ps = forallb (c15_site_ok l) (flat_map c15_part_sites ps).
Proof.
  induction ps as [|p r IH]; [reflexivity|].
  cbn [forallb flat_map]. rewrite forallb_app, IH. f_equal. destruct p as [s|b i ds]; [reflexivity|].
  cbn [c15_part_safe c15_part_sites]. unfold c15_sites. induction ds as [|d ds IHd]; [reflexivity|].
  cbn [map forallb]. now rewrite IHd.
Qed.

(* for the five languages with one comment form the flag does not matter *)
Lemma c15_sites_ok_false l b docs : l <> C15py ->
  forallb (c15_site_ok l) (c15_sites b docs) = forallb (c15_safe l false) docs.
Proof.
  intros Hl. unfold c15_sites. induction docs as [|d r IH]; [reflexivity|].
  cbn [map forallb]. rewrite IH. f_equal. unfold c15_site_ok. cbn [fst snd]. destruct l; try reflexivity. congruence.
Qed.

Lemma c15_sites_ok_ts sites : forallb (c15_site_ok C15ts) sites = true.
Proof. apply c15_forallb_true. intros [b d]. apply c15_safe_ts. Qed.

Section Decomp.
Variable l : c15_lang.
Variable P : str -> Prop.

Definition c15_part_ok (p : c15_part) : Prop := match p with CPcode s => P s | CPdoc _ _ _ => True end.

Definition Decomp (text : str) (sites : list c15_doc_site) : Prop :=
  exists parts, text = text_of (c15_file_pieces l parts) /\
                flat_map c15_part_sites parts = sites /\
                Forall c15_part_ok parts.

Lemma c15_pieces_app a b : c15_file_pieces l (a ++ b) = c15_file_pieces l a ++ c15_file_pieces l b.
Proof. unfold c15_file_pieces. apply flat_map_app. Qed.

Lemma Decomp_nil : Decomp [] [].
Proof. exists []. repeat split. constructor. Qed.

Lemma Decomp_code s : P s -> Decomp s [].
Proof.
  intros H. exists [CPcode s]. repeat split.
  - cbn. now rewrite app_nil_r.
  - constructor; [exact H|constructor].
Qed.

Lemma Decomp_frag b i ds : Decomp (text_of (c15_tmpl l b i ds)) (c15_sites b ds).
Proof.
  exists [CPdoc b i ds]. repeat split.
  - cbn [c15_file_pieces flat_map c15_part_pieces]. now rewrite app_nil_r.
  - cbn. now rewrite app_nil_r.
  - constructor; [exact I|constructor].
Qed.

Lemma Decomp_app a b sa sb : Decomp a sa -> Decomp b sb -> Decomp (a ++ b) (sa ++ sb).
Proof.
  intros (pa & -> & <- & Ha) (pb & -> & <- & Hb). exists (pa ++ pb). repeat split.
  - now rewrite c15_pieces_app, text_of_app.
  - now rewrite flat_map_app.
  - apply Forall_app. now split.
Qed.

Lemma Decomp_eq t s s' : Decomp t s' -> s' = s -> Decomp t s.
Proof. now intros H <-. Qed.
Lemma Decomp_text t t' s : Decomp t' s -> t' = t -> Decomp t s.
Proof. now intros H <-. Qed.

Lemma Decomp_flat_map {A} (f : A -> str) (g : A -> list c15_doc_site) xs :
  (forall x, In x xs -> Decomp (f x) (g x)) -> Decomp (flat_map f xs) (flat_map g xs).
Proof.
  induction xs as [|x r IH]; intros H; [apply Decomp_nil|].
  cbn [flat_map]. apply Decomp_app; [apply H; now left|]. apply IH. intros y Hy. apply H. now right.
Qed.

Lemma Decomp_concat_map {A} (f : A -> str) (g : A -> list c15_doc_site) xs :
  (forall x, In x xs -> Decomp (f x) (g x)) -> Decomp (List.concat (map f xs)) (flat_map g xs).
Proof. rewrite <- flat_map_concat_map. apply Decomp_flat_map. Qed.

Lemma Decomp_join {A} (sep : str) (f : A -> str) (g : A -> list c15_doc_site) xs :
  P sep -> (forall x, In x xs -> Decomp (f x) (g x)) -> Decomp (join sep (map f xs)) (flat_map g xs).
Proof.
  intros Hsep. induction xs as [|x [|y r] IH]; intros H.
  - apply Decomp_nil.
  - cbn [map join flat_map]. rewrite app_nil_r. apply H. now left.
  - change (join sep (map f (x :: y :: r))) with (f x ++ sep ++ join sep (map f (y :: r))).
    change (flat_map g (x :: y :: r)) with (g x ++ [] ++ flat_map g (y :: r)).
    apply Decomp_app; [apply H; now left|]. apply Decomp_app; [now apply Decomp_code|].
    apply IH. intros z Hz. apply H. now right.
Qed.

(* a Forall2-indexed concat: the pieces printed for a list of declarations *)
Lemma Decomp_concat_Forall2 {A B} (R : A -> B -> Prop) (f : B -> str) (g : A -> list c15_doc_site) xs ys :
  Forall2 R xs ys -> (forall x y, R x y -> Decomp (f y) (g x)) ->
  Decomp (List.concat (map f ys)) (flat_map g xs).
Proof.
  intros H HR. induction H as [|x y xs ys Hxy _ IH]; [apply Decomp_nil|].
  cbn [map List.concat flat_map]. apply Decomp_app; auto.
Qed.
End Decomp.

(* any decomposition is one with P := True *)
Lemma Decomp_weaken l (P Q : str -> Prop) t s : (forall x, P x -> Q x) -> Decomp l P t s -> Decomp l Q t s.
Proof.
  intros H (ps & Ht & Hs & Hp). exists ps. repeat split; auto.
  eapply Forall_impl; [|exact Hp]. intros [x|b i ds]; cbn; auto.
Qed.

(* ---- from a decomposition to the statements of Props/C15.v ---- *)
Definition c15_neutral (l : c15_lang) (s : str) : Prop := lex_str_gen (c15_cfg l) LCode s = LCode.

(* P := True: the renderer-level statement with the neutrality hypothesis *)
Theorem Decomp_partial l text sites : Decomp l (fun _ => True) text sites ->
  exists parts,
    text = text_of (c15_file_pieces l parts) /\
    docs_of (c15_file_pieces l parts) = map (c15_site_text l) sites /\
    (Forall (c15_code_neutral l) parts ->
     c15_contained l LCode (mark (c15_file_pieces l parts)) = forallb (c15_site_ok l) sites).
Proof.
  intros (ps & Ht & Hs & _). exists ps. repeat split; [exact Ht| |].
  - now rewrite c15_parts_sites_docs, Hs.
  - intros Hn. now rewrite (C15_file_exact l ps Hn), c15_parts_safe_sites, Hs.
Qed.

(* P := neutral: no hypothesis left *)
Theorem Decomp_contained l text sites : Decomp l (c15_neutral l) text sites ->
  exists parts,
    text = text_of (c15_file_pieces l parts) /\
    docs_of (c15_file_pieces l parts) = map (c15_site_text l) sites /\
    c15_contained l LCode (mark (c15_file_pieces l parts)) = forallb (c15_site_ok l) sites.
Proof.
  intros (ps & Ht & Hs & Hp). exists ps. repeat split; [exact Ht| |].
  - now rewrite c15_parts_sites_docs, Hs.
  - rewrite (C15_file_exact l ps), c15_parts_safe_sites, Hs; [reflexivity|].
    eapply Forall_impl; [|exact Hp]. intros [x|b i ds]; cbn; auto.
Qed.

(* ---- neutrality: composition, plain strings ---- *)
Lemma c15_neutral_nil l : c15_neutral l [].
Proof. reflexivity. Qed.
Lemma c15_neutral_app l a b : c15_neutral l a -> c15_neutral l b -> c15_neutral l (a ++ b).
Proof. unfold c15_neutral. intros Ha Hb. now rewrite lex_str_app, Ha, Hb. Qed.
Lemma c15_neutral_plain l s : c15_plain l s = true -> c15_neutral l s.
Proof.
  unfold c15_neutral, c15_plain. induction s as [|c r IH]; [reflexivity|].
  cbn [forallb]. intros H. apply andb_true_iff in H as [Hc Hr].
  cbn [lex_str_gen fold_left lex_gen]. unfold c15_plain_char in Hc.
  destruct (lex_code (c15_cfg l) c); try discriminate. now apply IH.
Qed.
Lemma c15_neutral_concat l ss : Forall (c15_neutral l) ss -> c15_neutral l (List.concat ss).
Proof. induction 1; [reflexivity|]. cbn [List.concat]. now apply c15_neutral_app. Qed.
Lemma c15_neutral_flat_map {A} l (f : A -> str) xs : (forall x, In x xs -> c15_neutral l (f x)) -> c15_neutral l (flat_map f xs).
Proof.
  induction xs as [|x r IH]; intros H; [reflexivity|]. cbn [flat_map].
  apply c15_neutral_app; [apply H; now left|apply IH; intros y Hy; apply H; now right].
Qed.
Lemma c15_neutral_join l sep ss : c15_neutral l sep -> Forall (c15_neutral l) ss -> c15_neutral l (join sep ss).
Proof.
  intros Hs H. induction H as [|x r Hx Hr IH]; [reflexivity|].
  destruct r as [|y r]; [exact Hx|].
  change (join sep (x :: y :: r)) with (x ++ sep ++ join sep (y :: r)).
  apply c15_neutral_app; [exact Hx|]. apply c15_neutral_app; [exact Hs|exact IH].
Qed.

Lemma c15_plain_app l a b : c15_plain l (a ++ b) = c15_plain l a && c15_plain l b.
Proof. apply forallb_app. Qed.

(* ---- the IR's doc strings and the print order of the helper-struct languages ---- *)
Lemma c15_perm_flat_map_app {A B} (f g : A -> list B) xs :
  Permutation (flat_map f xs ++ flat_map g xs) (flat_map (fun x => f x ++ g x) xs).
Proof.
  induction xs as [|x r IH]; [constructor|]. cbn [flat_map].
  rewrite <- !app_assoc. apply Permutation_app_head.
  etransitivity; [apply Permutation_app_swap_app|].
  apply Permutation_app_head. exact IH.
Qed.

Lemma c15_perm_flat_map {A B} (f g : A -> list B) xs :
  (forall x, Permutation (f x) (g x)) -> Permutation (flat_map f xs) (flat_map g xs).
Proof. intros H. induction xs as [|x r IH]; [constructor|]. cbn [flat_map]. now apply Permutation_app. Qed.

(* what Kotlin / Swift / Go / Python print for an item is a rearrangement of the IR's doc strings of the
   item plus the comments typeshare generates for the helper structs: nothing lost, nothing else added *)
Theorem c15_helpers_first_perm it :
  Permutation (c15_item_docs_helpers_first it) (c15_item_generated it ++ c15_item_docs it).
Proof.
  destruct it as [s|e|a|c]; cbn [c15_item_docs_helpers_first c15_item_generated app]; try apply Permutation_refl.
  cbn [c15_item_docs]. set (sh := enum_shared e).
  rewrite (app_assoc _ (ecomments sh)), (app_assoc _ (ecomments sh)).
  etransitivity; [apply Permutation_app_tail, Permutation_app_comm|].
  etransitivity; [|apply Permutation_app_tail, Permutation_app_comm].
  rewrite <- !app_assoc. apply Permutation_app_head.
  etransitivity; [apply c15_perm_flat_map_app|]. etransitivity; [|symmetry; apply c15_perm_flat_map_app].
  apply c15_perm_flat_map. intros [vsh|t vsh|fs vsh]; cbn [c15_helper_docs c15_variant_own_docs c15_variant_docs variant_shared app];
    try apply Permutation_refl.
  apply perm_skip. apply Permutation_app_comm.
Qed.

Lemma c15_forallb_perm {A} (p : A -> bool) a b : Permutation a b -> forallb p a = forallb p b.
Proof.
  induction 1; cbn [forallb]; try congruence.
  - now rewrite !andb_assoc, (andb_comm (p y)).
Qed.

Corollary c15_helpers_first_safe p it :
  forallb p (c15_item_docs_helpers_first it) = forallb p (c15_item_generated it) && forallb p (c15_item_docs it).
Proof. now rewrite (c15_forallb_perm p _ _ (c15_helpers_first_perm it)), forallb_app. Qed.

(* ================= neutrality of printed code: generic facts ================= *)
From TS Require Import Model.Lang.Common Proofs.BackCommon.

Ltac c15_split_andb :=
  repeat match goal with H : _ && _ = true |- _ => apply andb_true_iff in H as [? ?] end.

(* decompose a rendered text along its ++ structure: comment fragments by [frag], sub-renderers by [tac],
   everything else is a code atom whose side condition [atom] closes *)
Ltac c15_decomp frag tac atom :=
  repeat first [ frag | tac | apply Decomp_app | apply Decomp_code; atom ].

Lemma c15_plain_join l sep ss :
  c15_plain l sep = true -> forallb (c15_plain l) ss = true -> c15_plain l (join sep ss) = true.
Proof.
  intros Hs. induction ss as [|x [|y r] IH]; intros H; [reflexivity| |].
  - cbn [join]. cbn [forallb] in H. now apply andb_true_iff in H as [H _].
  - change (join sep (x :: y :: r)) with (x ++ sep ++ join sep (y :: r)).
    cbn [forallb] in H. apply andb_true_iff in H as [Hx Hr]. rewrite !c15_plain_app, Hx, Hs. cbn [andb]. now apply IH.
Qed.

Lemma c15_plain_generics_suffix l gs : forallb (c15_plain l) gs = true -> c15_plain l (generics_suffix gs) = true.
Proof.
  intros H. unfold generics_suffix. destruct gs as [|g r]; [reflexivity|].
  rewrite !c15_plain_app, c15_plain_join; [now destruct l| now destruct l |exact H].
Qed.

Lemma c15_forallb_map {A B} (f : A -> B) (p : B -> bool) xs : forallb p (map f xs) = forallb (fun x => p (f x)) xs.
Proof. induction xs as [|x r IH]; [reflexivity|]. cbn [map forallb]. now rewrite IH. Qed.

Lemma c15_forallb_repeat {A} (p : A -> bool) x n : p x = true -> forallb p (repeat x n) = true.
Proof. intros H. induction n; [reflexivity|]. cbn [repeat forallb]. now rewrite H. Qed.

Lemma c15_Forall2_forallb {A B} (R : A -> B -> Prop) (p : A -> bool) (q : B -> bool) l r :
  Forall2 R l r -> (forall x y, R x y -> p x = true -> q y = true) -> forallb p l = true -> forallb q r = true.
Proof.
  induction 1 as [|x y l r Hxy _ IH]; intros HR H; [reflexivity|].
  cbn [forallb] in *. apply andb_true_iff in H as [Hx Hl]. rewrite (HR x y Hxy Hx). now apply IH.
Qed.

Lemma c15_tmap_get_plain l m k v : c15_mappings_plain l m = true -> tmap_get m k = Some v -> c15_plain l v = true.
Proof.
  unfold c15_mappings_plain. induction m as [|[a b] r IH]; [discriminate|].
  cbn [forallb tmap_get snd]. intros H. apply andb_true_iff in H as [Hb Hr].
  destruct (str_eqb a k); [intros E; injection E as <-; exact Hb|now apply IH].
Qed.

(* decimal digits are plain in all six languages *)
Lemma c15_digit_plain l d : d < 10 -> c15_plain_char l (48 + d) = true.
Proof.
  intros H. assert (E : In d [0;1;2;3;4;5;6;7;8;9]) by (cbn; lia).
  cbn in E. destruct l; repeat (destruct E as [<-|E]; [reflexivity|]); destruct E.
Qed.

Lemma c15_plain_dec_fuel l f n acc : c15_plain l acc = true -> c15_plain l (dec_fuel f n acc) = true.
Proof.
  revert n acc. induction f as [|f IH]; intros n acc H; [exact H|].
  cbn [dec_fuel]. assert (H' : c15_plain l ((48 + n mod 10) :: acc) = true).
  { unfold c15_plain in *. cbn [forallb]. rewrite H, c15_digit_plain; [reflexivity|]. apply N.mod_lt. lia. }
  destruct (n / 10 =? 0); [exact H'|now apply IH].
Qed.

Lemma c15_plain_dec_of_Z l z : c15_plain l (dec_of_Z z) = true.
Proof.
  destruct z as [|p|p]; cbn [dec_of_Z]; [now destruct l|now apply c15_plain_dec_fuel|].
  unfold c15_plain. cbn [forallb]. replace (c15_plain_char l 45) with true by now destruct l.
  now apply c15_plain_dec_fuel.
Qed.

(* the argument loop inside every format_type model is mmapM *)
Lemma c15_go_is_mmapM {St A B} (f : A -> M St B) (l : list A) :
  (fix go (l : list A) : M St (list B) :=
     match l with
     | [] => ret []
     | x :: r => mbind (f x) (fun y => mbind (go r) (fun ys => ret (y :: ys)))
     end) l = mmapM f l.
Proof. induction l as [|x r IH]; cbn [mmapM]; [reflexivity|]. rewrite IH. reflexivity. Qed.

(* mmapM with a per-element fact that is only available for the elements of the list *)
Lemma c15_mmapM_Forall {St A B} (f : A -> M St B) (Q : B -> Prop) l :
  Forall (fun x => forall s y s', f x s = Ok (y, s') -> Q y) l ->
  forall s ys s', mmapM f l s = Ok (ys, s') -> Forall Q ys.
Proof.
  induction 1 as [|x l Hx _ IH]; intros s ys s' H; cbn [mmapM] in H.
  - unfold ret in H. injection H as <- _. constructor.
  - apply mbind_ok in H as (y & s1 & Hy & H). apply mbind_ok in H as (ys' & s2 & Hys & H).
    unfold ret in H. injection H as <- _. constructor; eauto.
Qed.

Lemma c15_Forall_forallb {A} (p : A -> bool) l : Forall (fun x => p x = true) l -> forallb p l = true.
Proof. induction 1; [reflexivity|]. cbn [forallb]. now rewrite H. Qed.
