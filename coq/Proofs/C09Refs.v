(* C09: from the type positions of a program to the reference shapes of Proofs/C09Common.v. *)
From Coq Require Import List Bool String Permutation.
From TS Require Import Model.Str Model.Outcome Model.Types Model.Parse Model.Reconcile Model.Lang.Common Model.Lang.Decl Spec.C09Spec.
From TS Require Import Proofs.C09Common Proofs.C09Recon.
Import ListNotations.
Local Notation length := List.length (only parsing).

Section Refs.
Variable pd : parsed.
Hypothesis Himp : p_imports pd = [].
Variables (L : lang) (pfx : str).
Hypothesis Hdom : dom_C09 L pfx pd = true.

(* the type the back end receives for a type position of the program (a const's type included) *)
Definition c09_recon_type (tp : c09_tpos) : rtype := check_type [] (c09_rn pd) [] (c9t_type tp).

(* every name a back end spells for a type position, when it spells a mentioned id [i'] as
   "[i'] if it is one of [gs], else prefix ++ [i']", has one of the shapes of C09Common *)
Lemma c09_type_refs_shape tp gs owner x :
  In tp (c09_tposs pd) ->
  (forall n, In n (texp_names x) -> c09_builtin L n = true \/
             exists form i', In (form, i') (c09_type_ids (c09_recon_type tp)) /\ n = if mem_str i' gs then i' else pfx ++ i') ->
  (forall form i', In (form, i') (c09_type_ids (c09_recon_type tp)) -> mem_str i' gs = mem_str i' (c9t_generics tp)) ->
  (c9t_generics tp = [] \/ exists j, In j (c09_entities pd) /\ owner = c09_def_name L pfx j /\ c9e_generics j = c9t_generics tp) ->
  forall r, In r (c09_type_refs L owner (c9t_pos tp) x) -> c09_ref_shape L pfx pd r.
Proof.
  intros Htp Hnames Hgs Hown r Hr. unfold c09_type_refs in Hr. apply in_map_iff in Hr as (n & <- & Hn). apply filter_In in Hn as [Hn Hb].
  apply negb_true_iff in Hb. destruct (Hnames n Hn) as [C|(form & i' & Hi & ->)]; [congruence|].
  rewrite (Hgs form i' Hi).
  assert (forall (P : Prop), In i' (c9t_generics tp) -> (forall j, In j (c09_entities pd) -> owner = c09_def_name L pfx j -> c9e_generics j = c9t_generics tp -> P) -> P) as Hown'.
  { intros P Hg K. destruct Hown as [E|(j & A & B & C)]; [rewrite E in Hg; destruct Hg|eauto]. }
  destruct (c09_mention pd L pfx Hdom tp form i' Htp Hi) as [[Hg _]|(i & e & Hi0 & Hlk & E)].
  - pose proof Hg as Hg'. apply c09_mem_str_in in Hg'. rewrite Hg'. apply (Hown' _ Hg). intros j Hj Ho Hgj.
    eapply C9S_generic with (j := j); cbn [c9_in c9_pos c9_name]; try assumption.
    + apply c09_tposs_pos with (pd := pd). exact Htp.
    + rewrite Hgj. exact Hg.
  - destruct (mem_str i' (c9t_generics tp)) eqn:M.
    + apply c09_mem_str_in in M. apply (Hown' _ M). intros j Hj Ho Hgj.
      eapply C9S_generic with (j := j); cbn [c9_in c9_pos c9_name]; try assumption.
      * apply c09_tposs_pos with (pd := pd). exact Htp.
      * rewrite Hgj. exact M.
    + destruct (c09_lookup_in pd i e Hlk) as (He & _ & Hk).
      eapply C9S_type with (tp := tp) (form := form) (i := i) (e := e); cbn [c9_in c9_pos c9_name]; try assumption; try reflexivity.
      rewrite (c09_item_suffix pd e He Hk), app_nil_r, E. reflexivity.
Qed.
End Refs.

(* every mentioned id is "contained" in the type (rust_types.rs contains_type), hence a generic
   parameter of an enum that a struct variant's field mentions is among the helper struct's generics *)
Lemma c09_contains_mentioned t form i : In (form, i) (c09_type_ids t) -> contains_type t i = true.
Proof.
  induction t using rtype_ind'; cbn [c09_type_ids contains_type]; intros Hin.
  - destruct Hin as [Hin|[]]. injection Hin as _ ->. apply str_eqb_refl.
  - destruct Hin as [Hin|Hin]; [injection Hin as _ ->; rewrite str_eqb_refl; reflexivity|].
    apply in_flat_map in Hin as (p & Hp & Hin). rewrite Forall_forall in H. apply orb_true_iff. right. apply existsb_exists. exists p. split; [exact Hp|apply H; assumption].
  - auto.
  - auto.
  - auto.
  - apply in_app_iff in Hin as [Hin|Hin]; apply orb_true_iff; auto.
  - auto.
  - destruct Hin.
Qed.

Lemma c09_unique_strs_in l seen x : In x (unique_strs l seen) <-> In x l /\ ~ In x seen.
Proof.
  revert seen. induction l as [|y l IH]; intros seen; cbn [unique_strs]; [split; [intros []|intros [[] _]]|].
  destruct (mem_str y seen) eqn:M.
  - rewrite IH. apply c09_mem_str_in in M. split; [intros [A B]; split; [right; exact A|exact B]|].
    intros [[->|A] B]; [contradiction|split; assumption].
  - assert (~ In y seen) as Hy by (intros C; apply c09_mem_str_in in C; congruence).
    cbn [In]. rewrite IH. cbn [In]. split.
    + intros [<-|[A B]]; [split; [left; reflexivity|exact Hy]|split; [right; exact A|intros C; apply B; right; exact C]].
    + intros [[<-|A] B]; [left; reflexivity|]. destruct (list_eq_dec N.eq_dec y x) as [<-|Hne]; [left; reflexivity|].
      right. split; [exact A|]. intros [C|C]; [contradiction|contradiction].
Qed.

Lemma c09_anon_generics_mem egs fields f form i :
  In f fields -> In (form, i) (c09_type_ids (fty f)) ->
  mem_str i (anon_struct_generics egs fields) = mem_str i egs.
Proof.
  intros Hf Hi. unfold anon_struct_generics.
  destruct (mem_str i egs) eqn:M.
  - apply c09_mem_str_in. apply c09_unique_strs_in. split; [|intros []].
    apply in_flat_map. exists f. split; [exact Hf|]. apply filter_In. split; [apply c09_mem_str_in; exact M|]. eapply c09_contains_mentioned; exact Hi.
  - destruct (mem_str i (unique_strs _ [])) eqn:M'; [|reflexivity].
    apply c09_mem_str_in, c09_unique_strs_in in M' as [M' _]. apply in_flat_map in M' as (f0 & _ & M'). apply filter_In in M' as [M' _].
    apply c09_mem_str_in in M'. congruence.
Qed.

Lemma c09_names_opt_strip (f : texp -> texp) t : (forall x, f x = x \/ exists e, x = XOpt e /\ f x = e) -> texp_names (f t) = texp_names t.
Proof. intros H. destruct (H t) as [->|(e & -> & ->)]; reflexivity. Qed.
