(* C03, back ends: lemmas shared by the six per-language proofs (Proofs/C03_<L>.v).
   - the boolean comparisons of Spec/C03Spec.v are reflexive, the multiset comparison is implied by
     Permutation;
   - the signature of an observed definition from what its kind / members / variants are;
   - from "every item's definitions have the expected signatures, the items being a permutation of the
     parsed ones" to the file-level verdict. *)
From Coq Require Import String List Bool Arith Lia Permutation.
From TS Require Import Model.Str Model.Outcome Model.Unicode Model.Types Model.Parse Model.TopsortAlgo Model.Topsort
                       Model.Lang.Common Model.Lang.Decl.
From TS Require Import Spec.C03Spec.
From TS Require Import Proofs.BackCommon Proofs.C11.
Import ListNotations.
Local Notation length := List.length (only parsing).

(* ---------- reflexivity of the comparisons ---------- *)
Lemma c03_kind_eqb_refl k : c03_kind_eqb k k = true.
Proof. destruct k; reflexivity. Qed.
Lemma c03_strs_eqb_refl l : c03_strs_eqb l l = true.
Proof. induction l as [|x l IH]; cbn [c03_strs_eqb]; [reflexivity|]. now rewrite str_eqb_refl, IH. Qed.
Lemma c03_strss_eqb_refl l : c03_strss_eqb l l = true.
Proof. induction l as [|x l IH]; cbn [c03_strss_eqb]; [reflexivity|]. now rewrite c03_strs_eqb_refl, IH. Qed.
Lemma c03_sig_eqb_refl x : c03_sig_eqb x x = true.
Proof. unfold c03_sig_eqb. now rewrite c03_kind_eqb_refl, !c03_strs_eqb_refl, c03_strss_eqb_refl. Qed.
Lemma c03_sigs_eqb_refl l : c03_sigs_eqb l l = true.
Proof. induction l as [|x l IH]; cbn [c03_sigs_eqb]; [reflexivity|]. now rewrite c03_sig_eqb_refl, IH. Qed.

(* ---------- multisets ---------- *)
Lemma count_sig_perm x a b : Permutation a b -> c03_count_sig x a = c03_count_sig x b.
Proof.
  unfold c03_count_sig. induction 1 as [|y a b _ IH|y z a|a b c _ IH1 _ IH2]; cbn [filter].
  - reflexivity.
  - destruct (c03_sig_eqb x y); cbn [List.length]; now rewrite IH.
  - destruct (c03_sig_eqb x y), (c03_sig_eqb x z); reflexivity.
  - now rewrite IH1.
Qed.

Lemma perm_b_of_Permutation a b : Permutation a b -> c03_perm_b a b = true.
Proof.
  intros P. unfold c03_perm_b. apply forallb_forall. intros x _. rewrite (count_sig_perm x a b P). apply Nat.eqb_refl.
Qed.

Lemma Permutation_filter' {A} (p : A -> bool) a b : Permutation a b -> Permutation (filter p a) (filter p b).
Proof.
  induction 1 as [|y a b _ IH|y z a|a b c _ IH1 _ IH2]; cbn [filter].
  - constructor.
  - destruct (p y); [now constructor|exact IH].
  - destruct (p y), (p z); try reflexivity. constructor.
  - now transitivity (filter p b).
Qed.

Lemma Permutation_flat_map'' {A B} (f : A -> list B) l l' : Permutation l l' -> Permutation (flat_map f l) (flat_map f l').
Proof.
  induction 1 as [|x l l' _ IH|x y l|l l' l'' _ IH1 _ IH2]; cbn [flat_map].
  - constructor.
  - now apply Permutation_app_head.
  - rewrite !app_assoc. apply Permutation_app_tail. apply Permutation_app_comm.
  - now transitivity (flat_map f l').
Qed.

Lemma good_sigs_of_Permutation obs exp :
  Permutation (filter c03_non_helper obs) (filter c03_non_helper exp) -> good_C03_sigs obs exp = true.
Proof. intros P. unfold good_C03_sigs. now apply perm_b_of_Permutation. Qed.

Lemma filter_all_false {A} (p : A -> bool) l : forallb (fun x => negb (p x)) l = true -> filter p l = [].
Proof.
  induction l as [|x l IH]; cbn [forallb filter]; [reflexivity|]. intros H. apply andb_true_iff in H as [Hx Hl].
  destruct (p x); [discriminate|]. now apply IH.
Qed.

(* ---------- from per-item signatures to the file verdict ---------- *)
Lemma concat_Forall2_flat_map {A B} (f : A -> list B) l (r : list (list B)) :
  Forall2 (fun x y => y = f x) l r -> List.concat r = flat_map f l.
Proof. induction 1 as [|x y l r E _ IH]; cbn [List.concat flat_map]; [reflexivity|]. now rewrite E, IH. Qed.

Lemma c03_all_items_eq pd : c03_all_items pd = items_of pd.
Proof. reflexivity. Qed.

(* [pre] and [post] are file-level helper definitions; [sigss] the signatures of the definitions emitted
   for each of [items'] (a permutation of the parsed items), concatenated in output order *)
Theorem file_good L (items items' : list ritem) (sigss : list (list c03_sig)) (pre post : list c03_sig) :
  Permutation items' items ->
  Forall2 (fun it sg => sg = c03_expected_sigs L it) items' sigss ->
  forallb (fun x => negb (c03_non_helper x)) pre = true ->
  forallb (fun x => negb (c03_non_helper x)) post = true ->
  good_C03_sigs (pre ++ List.concat sigss ++ post) (flat_map (c03_expected_sigs L) items) = true.
Proof.
  intros P F Hpre Hpost. apply good_sigs_of_Permutation.
  rewrite !filter_app, (filter_all_false _ pre Hpre), (filter_all_false _ post Hpost), app_nil_r. cbn [app].
  apply Permutation_filter'. rewrite (concat_Forall2_flat_map _ _ _ F). now apply Permutation_flat_map''.
Qed.

Lemma topsort_perm things out : topsort things = Ok out -> Permutation out things.
Proof.
  intros H. unfold topsort in H. destruct (build_dag things) as [dag| |] eqn:Ed; cbn [bind] in H; try discriminate.
  destruct (topsort_permutation things dag Ed) as (out' & Eo & Po).
  unfold topsort in Eo. rewrite Ed in Eo. cbn [bind] in Eo. rewrite H in Eo. now injection Eo as <-.
Qed.

(* ---------- the signature of an observed definition ---------- *)
Lemma sig_of_struct d keys : d_kind d = DStruct -> c03_member_keys (d_members d) = keys -> c03_sig_of d = c03_x_struct keys.
Proof. intros Hk Hm. unfold c03_sig_of, c03_x_struct. rewrite Hk, Hm. reflexivity. Qed.

Lemma sig_of_alias d : d_kind d = DAlias -> c03_sig_of d = c03_x_plain DAlias.
Proof. intros Hk. unfold c03_sig_of, c03_x_plain. rewrite Hk. reflexivity. Qed.
Lemma sig_of_const d : d_kind d = DConst -> c03_sig_of d = c03_x_plain DConst.
Proof. intros Hk. unfold c03_sig_of, c03_x_plain. rewrite Hk. reflexivity. Qed.
Lemma sig_of_helper d wires : d_kind d = DHelper -> map vd_wire (d_variants d) = wires -> c03_sig_of d = c03_x_helper wires.
Proof. intros Hk Hv. unfold c03_sig_of, c03_x_helper. rewrite Hk, Hv. reflexivity. Qed.

(* what one observed variant must say about its IR variant *)
Definition vrel (L : lang) (v : rvariant) (vd : variantd) : Prop :=
  vd_wire vd = renamed (vid (variant_shared v)) /\
  c03_inline_keys vd = (if c03_inlines L then match v with VAnon fs _ => [c03_keys_of fs] | _ => [] end else []) /\
  c03_payload_ok L v vd = true.

Lemma vrel_lists L vs vds : Forall2 (vrel L) vs vds ->
  map vd_wire vds = c03_wires_of vs /\
  flat_map c03_inline_keys vds = (if c03_inlines L then c03_anon_keys vs else []) /\
  c03_forall2b (c03_payload_ok L) vs vds = true.
Proof.
  induction 1 as [|v vd vs vds (Hw & Hi & Hp) _ (IH1 & IH2 & IH3)].
  - cbn. destruct (c03_inlines L); auto.
  - cbn [map c03_wires_of flat_map c03_anon_keys c03_forall2b]. rewrite Hw, Hi, Hp, IH2, IH3.
    unfold c03_wires_of in IH1. rewrite IH1. repeat split. destruct (c03_inlines L); reflexivity.
Qed.

Lemma sig_of_enum L d vs : Forall2 (vrel L) vs (d_variants d) -> d_kind d = DEnum ->
  c03_sig_of d = c03_x_enum (c03_wires_of vs) (if c03_inlines L then c03_anon_keys vs else []) /\
  c03_forall2b (c03_payload_ok L) vs (d_variants d) = true.
Proof.
  intros F Hk. destruct (vrel_lists L vs _ F) as (H1 & H2 & H3). split; [|exact H3].
  unfold c03_sig_of, c03_x_enum. rewrite Hk, H1, H2. reflexivity.
Qed.

(* the payload verdict for the definitions of an enum: helper structs / helper classes first, the enum last *)
Lemma payloads_ok_enum L e pre d :
  forallb (fun x => negb (c03_kind_eqb (d_kind x) DEnum)) pre = true ->
  c03_forall2b (c03_payload_ok L) (evariants (enum_shared e)) (d_variants d) = true ->
  c03_payloads_ok L (ItEnum e) (pre ++ [d]) = true.
Proof.
  intros Hpre Hd. unfold c03_payloads_ok. rewrite forallb_app. apply andb_true_iff. split.
  - apply forallb_forall. intros x Hx. pose proof (proj1 (forallb_forall _ _) Hpre x Hx) as Hk.
    cbn beta in Hk. revert Hk. destruct (d_kind x); cbn [c03_kind_eqb negb]; intros Hk; try reflexivity. discriminate.
  - cbn [forallb]. rewrite Hd. destruct (d_kind d); reflexivity.
Qed.

(* member keys through a Forall2 *)
Lemma member_keys_Forall2 {M} (obs : M -> member) (fs : list rfield) (ms : list M) :
  Forall2 (fun f m => c03_undash (mb_key (obs m)) = c03_undash (renamed (fid f))) fs ms ->
  c03_member_keys (map obs ms) = c03_keys_of fs.
Proof.
  unfold c03_member_keys, c03_keys_of. induction 1 as [|f m fs ms E _ IH]; cbn [map]; [reflexivity|]. now rewrite E, IH.
Qed.

Lemma Forall2_flat_map_eq {A B C} (f : A -> list C) (g : B -> list C) l r :
  Forall2 (fun x y => g y = f x) l r -> flat_map g r = flat_map f l.
Proof. induction 1 as [|x y l r E _ IH]; cbn [flat_map]; [reflexivity|]. now rewrite E, IH. Qed.

Lemma mapM_Forall2' {A B} (f : A -> outcome B) (R : A -> B -> Prop) :
  (forall x y, f x = Ok y -> R x y) -> forall l r, mapM f l = Ok r -> Forall2 R l r.
Proof.
  intros HR l. induction l as [|x l IH]; intros r; cbn [mapM].
  - intros [= <-]. constructor.
  - destruct (f x) as [y| |] eqn:Ex; cbn [bind]; try discriminate.
    destruct (mapM f l) as [ys| |]; cbn [bind]; try discriminate.
    intros [= <-]. constructor; auto.
Qed.

Lemma Forall2_map_r' {A B C} (R : A -> C -> Prop) (g : B -> C) l r :
  Forall2 (fun x y => R x (g y)) l r -> Forall2 R l (map g r).
Proof. induction 1; cbn [map]; constructor; auto. Qed.

Lemma Forall2_impl' {A B} (R R' : A -> B -> Prop) l r :
  (forall x y, R x y -> R' x y) -> Forall2 R l r -> Forall2 R' l r.
Proof. intros H. induction 1; constructor; auto. Qed.

(* the per-item verdict from the two facts the language proofs establish *)
Lemma item_good L it ds : map c03_sig_of ds = c03_expected_sigs L it -> c03_payloads_ok L it ds = true ->
  good_C03_item L it ds = true.
Proof. intros H1 H2. unfold good_C03_item. now rewrite H1, c03_sigs_eqb_refl, H2. Qed.

(* undash is idempotent and stable under the dash removal three back ends apply to member names *)
Lemma undash_idem s : c03_undash (c03_undash s) = c03_undash s.
Proof.
  unfold c03_undash, replace_char. rewrite map_map. apply map_ext. intros c.
  destruct (N.eqb c ch_dash) eqn:E; [reflexivity|]. now rewrite E.
Qed.

(* ---------- the definitions of an enum in the five languages that do not inline struct variants ---------- *)
Lemma sig_kind d : xs_kind (c03_sig_of d) = d_kind d.
Proof. reflexivity. Qed.

Lemma not_enum_of_sigs l sg : map c03_sig_of l = sg ->
  forallb (fun s => negb (c03_kind_eqb (xs_kind s) DEnum)) sg = true ->
  forallb (fun x => negb (c03_kind_eqb (d_kind x) DEnum)) l = true.
Proof.
  intros <-. induction l as [|a l IH]; cbn [map forallb]; [reflexivity|]. rewrite sig_kind. intros H.
  apply andb_true_iff in H as [Ha Hl]. now rewrite Ha, IH.
Qed.

Lemma x_structs_not_enum ks : forallb (fun s => negb (c03_kind_eqb (xs_kind s) DEnum)) (map c03_x_struct ks) = true.
Proof. induction ks as [|k ks IH]; cbn [map forallb]; [reflexivity|]. now rewrite IH. Qed.
Lemma enum_helper_not_enum L wires : forallb (fun s => negb (c03_kind_eqb (xs_kind s) DEnum)) (c03_enum_helper L wires) = true.
Proof. destruct L; reflexivity. Qed.

Theorem enum_item L e pre d : c03_inlines L = false ->
  map c03_sig_of pre = map c03_x_struct (c03_anon_keys (evariants (enum_shared e))) ++
                       (match e with EAlgebraic _ _ _ => c03_enum_helper L (c03_wires_of (evariants (enum_shared e))) | EUnit _ => [] end) ->
  Forall2 (vrel L) (evariants (enum_shared e)) (d_variants d) -> d_kind d = DEnum ->
  map c03_sig_of (pre ++ [d]) = c03_expected_sigs L (ItEnum e) /\ c03_payloads_ok L (ItEnum e) (pre ++ [d]) = true.
Proof.
  intros HL Hpre F Hk. destruct (sig_of_enum L d _ F Hk) as [E P]. split.
  - rewrite map_app, Hpre. cbn [map c03_expected_sigs]. rewrite E, HL. now rewrite <- app_assoc.
  - apply payloads_ok_enum; [|exact P]. apply (not_enum_of_sigs _ _ Hpre).
    rewrite forallb_app, x_structs_not_enum. destruct e; [reflexivity|apply enum_helper_not_enum].
Qed.

(* ---------- Forall2 out of mapM / mmapM, knowing the element is in the list ---------- *)
Lemma mapM_Forall2_In {A B} (f : A -> outcome B) (R : A -> B -> Prop) l :
  forall r, (forall x y, In x l -> f x = Ok y -> R x y) -> mapM f l = Ok r -> Forall2 R l r.
Proof.
  induction l as [|x l IH]; intros r HR; cbn [mapM].
  - intros [= <-]. constructor.
  - destruct (f x) as [y| |] eqn:Ex; cbn [bind]; try discriminate.
    destruct (mapM f l) as [ys| |] eqn:El; cbn [bind]; try discriminate.
    intros [= <-]. constructor; [apply HR; [now left|exact Ex]|].
    apply IH; [|reflexivity]. intros x' y' Hin. apply HR. now right.
Qed.

Lemma mmapM_Forall2_In {St A B} (f : A -> M St B) (R : A -> B -> Prop) l :
  forall s ys s', (forall x s y s', In x l -> f x s = Ok (y, s') -> R x y) -> mmapM f l s = Ok (ys, s') -> Forall2 R l ys.
Proof.
  induction l as [|x l IH]; intros s ys s' HR H; cbn [mmapM] in H.
  - unfold ret in H. injection H as <- _. constructor.
  - unfold mbind in H. destruct (f x s) as [[y s1]| |] eqn:Ex; try discriminate.
    destruct (mmapM f l s1) as [[ys' s2]| |] eqn:El; try discriminate.
    unfold ret in H. injection H as <- _. constructor; [eapply HR; [now left|exact Ex]|].
    eapply IH; [|exact El]. intros x' s0 y' s0' Hin. apply HR. now right.
Qed.

Lemma concat_map_map {A B} (f : A -> B) (ll : list (list A)) : map f (List.concat ll) = List.concat (map (map f) ll).
Proof. induction ll as [|l ll IH]; cbn [List.concat map]; [reflexivity|]. now rewrite map_app, IH. Qed.
Lemma flat_map_concat' {A B} (f : A -> list B) (ll : list (list A)) : flat_map f (List.concat ll) = List.concat (map (flat_map f) ll).
Proof. induction ll as [|l ll IH]; cbn [List.concat map flat_map]; [reflexivity|]. now rewrite flat_map_app, IH. Qed.

Lemma dom_items_perm pd items : dom_C03_file pd = true -> Permutation items (items_of pd) ->
  forall it, In it items -> dom_C03_item it = true.
Proof.
  intros Hd P it Hin. unfold dom_C03_file in Hd. rewrite c03_all_items_eq in Hd.
  apply (proj1 (forallb_forall _ _) Hd). eapply Permutation_in; [exact P|exact Hin].
Qed.

(* the file verdict from per-item definition lists *)
Theorem file_good_decls L pd items (dss : list (list decl)) (pre post : list decl) :
  Permutation items (items_of pd) ->
  Forall2 (fun it ds => map c03_sig_of ds = c03_expected_sigs L it) items dss ->
  forallb (fun d => c03_kind_eqb (d_kind d) DHelper) pre = true ->
  forallb (fun d => c03_kind_eqb (d_kind d) DHelper) post = true ->
  good_C03_sigs (map c03_sig_of (pre ++ List.concat dss ++ post)) (flat_map (c03_expected_sigs L) (c03_all_items pd)) = true.
Proof.
  intros P F Hpre Hpost. rewrite !map_app, concat_map_map, c03_all_items_eq.
  assert (HH : forall l, forallb (fun d => c03_kind_eqb (d_kind d) DHelper) l = true ->
                         forallb (fun x => negb (c03_non_helper x)) (map c03_sig_of l) = true).
  { induction l as [|a l IH]; cbn [forallb map]; [reflexivity|]. intros H. apply andb_true_iff in H as [Ha Hl].
    rewrite (IH Hl), andb_true_r. unfold c03_non_helper. rewrite sig_kind. destruct (d_kind a); try discriminate. reflexivity. }
  apply (file_good L (items_of pd) items (map (map c03_sig_of) dss)); [exact P| |now apply HH|now apply HH].
  clear -F. induction F as [|it ds items dss E _ IH]; cbn [map]; constructor; auto.
Qed.
