(* C14, Kotlin in folder mode: the import block names, for every import pair (module k, generated name n), the class
   <package>.<k>.<prefix><n> - and that is the name the file of crate k declares the type under, prefix included
   (kotlin.rs write_imports after fix 26 of /repo; the formerly failing inputs = every import under a non-empty prefix). *)
From Coq Require Import List Bool Permutation String.
From TS Require Import Model.Str Model.Outcome Model.Unicode Model.Syntax Model.Attrs Model.Rename Model.Types Model.Parse
                       Model.Reconcile Model.Collect Model.Topsort Model.Lang.Common Model.Lang.Decl Model.Lang.TypeScript Model.Lang.Kotlin Model.MultiFile.
From TS Require Import Spec.C09Spec Spec.C14Spec Spec.C14KotlinSpec.
From TS Require Import Proofs.C10Common Proofs.C14 Proofs.C14Front Proofs.C14Main Proofs.C14Imports Proofs.C14Witness Proofs.C11Multi
                       Proofs.C09_KotlinItems.
Import ListNotations.

(* ---------------------------------------------------------------- the import block *)
Lemma kt_import_lines_pairs (pkg pfx k : str) (ns : list str) :
  flat_map (fun t => lit "import " ++ pkg ++ lit "." ++ k ++ lit "." ++ pfx ++ t ++ nl) ns =
  List.concat (map (fun kn => c14_kt_import_line pkg pfx (fst kn) (snd kn) ++ [ch_nl]) (map (fun n => (k, n)) ns)).
Proof.
  induction ns as [|t r IH]; [reflexivity|]. cbn [flat_map map List.concat fst snd]. rewrite IH. f_equal.
  unfold c14_kt_import_line. repeat rewrite <- app_assoc. reflexivity.
Qed.

(* write_imports (kotlin.rs:293) = one line `import <package>.<crate>.<prefix><name>` per import pair, in the order of
   the BTreeMap of BTreeSets, then an empty line *)
Theorem kt_write_imports_block (cfg : kt_config) (im : scoped) :
  kt_write_imports cfg im = c14_kt_import_block (kt_package cfg) (kt_prefix cfg) (scoped_pairs im).
Proof.
  unfold kt_write_imports, c14_kt_import_block. f_equal.
  induction im as [|kv r IH]; [reflexivity|]. unfold scoped_pairs in *. cbn [flat_map]. rewrite map_app, concat_app, <- IH. f_equal.
  apply kt_import_lines_pairs.
Qed.

(* ---------------------------------------------------------------- the name a type is declared under *)
Lemma kt_obs_name_struct cfg rs d : kt_struct_decl cfg rs = Ok d -> d_name (kt_obs d) = kt_prefix cfg ++ renamed (sid rs).
Proof.
  unfold kt_struct_decl. destruct (sfields rs) as [|f fs].
  - intros [= <-]. reflexivity.
  - intros H. apply bind_ok in H as (ms & _ & H). injection H as <-. reflexivity.
Qed.

(* every struct and enum, every JvmInline alias and every alias that is not serde-renamed is declared under
   prefix ++ generated name; the declaration is the LAST one the item yields (an algebraic enum's helper classes come first) *)
Theorem kt_decl_of_declares (cfg : kt_config) (it : ritem) (ds : list kt_decl) :
  is_type14 it = true -> kt_decl_of cfg it = Ok ds -> c14_kt_alias_class it = false ->
  exists d, In d ds /\ d_name (kt_obs d) = kt_prefix cfg ++ renamed (item_id it).
Proof.
  intros Ty H Hc. destruct it as [s|e|a|c]; cbn [kt_decl_of item_id] in *; try discriminate.
  - apply bind_ok in H as (d & Hd & H). injection H as <-. exists d. split; [now left|]. now apply kt_obs_name_struct.
  - unfold kt_enum_decls in H. apply bind_ok in H as (anon & _ & H). apply bind_ok in H as (d & Hd & H). injection H as <-.
    exists d. split; [apply in_or_app; right; now left|].
    destruct e as [sh|tk ck sh]; cbn [enum_shared] in *.
    + apply bind_ok in Hd as (es & _ & Hd). injection Hd as <-. reflexivity.
    + apply bind_ok in Hd as (vs & _ & Hd). injection Hd as <-. reflexivity.
  - apply bind_ok in H as (d & Hd & H). injection H as <-. exists d. split; [now left|].
    unfold kt_alias_decl in Hd. rewrite kt_is_inline_spec in Hd. cbn [c14_kt_alias_class] in Hc.
    destruct (c09_alias_inline a); cbn [negb andb] in Hc.
    + apply bind_ok in Hd as (m & _ & Hd). injection Hd as <-. reflexivity.
    + apply bind_ok in Hd as (ty & _ & Hd). injection Hd as <-. cbn [kt_obs d_name].
      apply negb_false_iff, str_eqb_eq in Hc. rewrite Hc. reflexivity.
Qed.

(* the class is needed: a plain typealias of a serde-renamed alias is declared under prefix ++ Rust name *)
Lemma kt_decl_of_alias_class (cfg : kt_config) (a : ralias) (ds : list kt_decl) :
  c09_alias_inline a = false -> kt_decl_of cfg (ItAlias a) = Ok ds ->
  exists d, ds = [d] /\ d_name (kt_obs d) = kt_prefix cfg ++ original (aid a).
Proof.
  intros Hi H. cbn [kt_decl_of] in H. apply bind_ok in H as (d & Hd & H). injection H as <-. exists d. split; [reflexivity|].
  unfold kt_alias_decl in Hd. rewrite kt_is_inline_spec, Hi in Hd. apply bind_ok in Hd as (ty & _ & Hd). injection Hd as <-. reflexivity.
Qed.

(* ---------------------------------------------------------------- where the declaration stands in the file *)
Lemma forall2_in_split {A B} (R : A -> B -> Prop) (l : list A) (l' : list B) (x : A) :
  Forall2 R l l' -> In x l -> exists l1 y l2, l' = l1 ++ y :: l2 /\ R x y.
Proof.
  induction 1 as [|a b l l' Hab _ IH]; intros Hin; [destruct Hin|]. destruct Hin as [->|Hin].
  - exists [], b, l'. split; [reflexivity|exact Hab].
  - destruct (IH Hin) as (l1 & y & l2 & -> & Hy). exists (b :: l1), y, l2. split; [reflexivity|exact Hy].
Qed.

(* the file of a crate: package line of <package>.<crate>, the import block, and - for every item of the crate - the
   rendered declarations of that item, somewhere in the body *)
Theorem kt_multi_file_item (uc : unicode) (cfg : kt_config) (k : str) (im : scoped) (pd : parsed) (text : str) (it : ritem) :
  kt_generate_multi uc cfg k im pd = Ok text -> In it (items_of pd) ->
  exists ds pre post,
    kt_decl_of cfg it = Ok ds /\
    text = kt_begin_file_multi cfg k ++ c14_kt_import_block (kt_package cfg) (kt_prefix cfg) (scoped_pairs im) ++
           pre ++ List.concat (map kt_render_decl ds) ++ post.
Proof.
  intros H Hit. apply kt_multi_sorted in H as (out & parts & (_ & Hperm & _) & Hw & ->).
  assert (Hin : In it out) by (eapply Permutation_in; [apply Permutation_sym, Hperm|exact Hit]).
  destruct (forall2_in_split _ _ _ _ Hw Hin) as (p1 & p & p2 & -> & Hp).
  unfold kt_write_item in Hp. apply bind_ok in Hp as (ds & Hds & Hp). injection Hp as <-.
  exists ds, (List.concat p1), (List.concat p2). split; [exact Hds|].
  rewrite kt_write_imports_block, concat_app. reflexivity.
Qed.

(* ---------------------------------------------------------------- the whole workspace *)
Section WS.
Variable uc : unicode.
Variable cfg : kt_config.
Variable T ign : list str.
Variable ho_file ho_crate : list imported -> list imported.
Variable hc : crate_types -> crate_types.
Variable ws : list ws_entry.
Variable arrivals : list (str * parsed).
Hypothesis HW : parse_workspace uc T ign ho_file ws = Ok arrivals.
Hypothesis Hhc : forall l x, In x (hc l) -> In x l.

(* a name of crate k's type table is the generated name of a TYPE item of the data crate k's file is generated from *)
Lemma type_table_item k pdk n : In (k, pdk) (multi_crates ho_crate arrivals) -> In n (p_type_names pdk) ->
  exists it, In it (items_of pdk) /\ is_type14 it = true /\ renamed (item_id it) = n.
Proof.
  intros Hk Hn.
  assert (Hall : In (k, p_type_names pdk) (all_types (multi_crates ho_crate arrivals)))
    by (unfold all_types; apply in_map_iff; now exists (k, pdk)).
  pose proof (all_types_defined uc T ign ho_file ho_crate ws arrivals HW k _ n Hall Hn) as Hd.
  unfold defines, tdefs_renamed in Hd. apply mem_str_in, in_map_iff in Hd as (it0 & E0 & Hit0).
  unfold type_items in Hit0. apply filter_In in Hit0 as [Hit0 Ty0].
  destruct (partition_plan uc T ign ho_file Kotlin ho_crate hc ws arrivals HW) as (_ & _ & _ & Hperm).
  set (p := {| op_file := output_file_name Kotlin k; op_crate := k;
               op_imports := crate_imports hc (multi_crates ho_crate arrivals) k pdk; op_data := pdk |}).
  assert (Hp : In p (multi_plan Kotlin hc (multi_crates ho_crate arrivals)))
    by (unfold multi_plan; apply in_map_iff; now exists (k, pdk)).
  specialize (Hperm p Hp). cbn [op_data op_crate p] in Hperm.
  assert (Hin : In (c14_decl it0) (map c14_decl (items_of pdk)))
    by (eapply Permutation_in; [apply Permutation_sym, Hperm|now apply in_map]).
  apply in_map_iff in Hin as (it & E & Hit). exists it. split; [exact Hit|].
  unfold c14_decl in E. injection E as Ek Ei. split.
  - destruct it, it0; cbn in Ek, Ty0 |- *; congruence.
  - rewrite Ei. exact E0.
Qed.

(* every import pair (k, n) of the file of crate c: k is another crate of the run, n the generated name of a TYPE of
   k's data, and in ANY text the Kotlin generator writes for crate k every such type - outside the class of open finding
   C09-kotlin-alias - is declared under kt_prefix ++ n, in the file that opens with `package <package>.<k>`: the
   class the import line `import <package>.<k>.<prefix><n>` of c's file names *)
Theorem kt_imports_name_declared c pd k n :
  In (k, n) (scoped_pairs (crate_imports hc (multi_crates ho_crate arrivals) c pd)) ->
  k <> c /\
  exists pdk, In (k, pdk) (multi_crates ho_crate arrivals) /\
    (exists it, In it (items_of pdk) /\ is_type14 it = true /\ renamed (item_id it) = n) /\
    forall imk text, kt_generate_multi uc cfg k imk pdk = Ok text ->
      forall it, In it (items_of pdk) -> is_type14 it = true -> renamed (item_id it) = n ->
        exists ds pre post,
          kt_decl_of cfg it = Ok ds /\
          text = kt_begin_file_multi cfg k ++ c14_kt_import_block (kt_package cfg) (kt_prefix cfg) (scoped_pairs imk) ++
                 pre ++ List.concat (map kt_render_decl ds) ++ post /\
          (c14_kt_alias_class it = false -> exists d, In d ds /\ d_name (kt_obs d) = kt_prefix cfg ++ n).
Proof.
  intros Hin. destruct (imports_sound hc _ c pd k n Hhc Hin) as (Hne & names & Hall & Hn). split; [exact Hne|].
  unfold all_types in Hall. apply in_map_iff in Hall as ([k' pdk] & E & Hk). cbn [fst snd] in E. injection E as -> <-.
  exists pdk. split; [exact Hk|]. split; [now apply (type_table_item k pdk n)|].
  intros imk text Hg it Hit Ty En.
  destruct (kt_multi_file_item uc cfg k imk pdk text it Hg Hit) as (ds & pre & post & Hds & Ht).
  exists ds, pre, post. split; [exact Hds|]. split; [exact Ht|].
  intros Hc. rewrite <- En. now apply kt_decl_of_declares.
Qed.
End WS.

(* ---------------------------------------------------------------- the former witness, evaluated *)
Definition w_kt (pfx : str) : kt_config :=
  {| kt_package := lit "p"; kt_module_name := []; kt_prefix := pfx; kt_type_mappings := []; kt_no_version_header := true; kt_version := [] |}.
(* a/src/lib.rs: #[typeshare] pub struct A1 { pub x: u8 }     b/src/lib.rs: use a::A1; #[typeshare] pub struct B1 { pub f: A1 } *)
Definition ws_kt_prefix : list ws_entry :=
  [w_entry (lit "a") (w_file [w_struct [] (lit "A1") [w_fld (lit "x") (w_ty (lit "u8"))]] [[lit "typeshare"]; [lit "u8"]]);
   w_entry (lit "b") (w_file [w_use (lit "a") (lit "A1"); w_struct [] (lit "B1") [w_fld (lit "f") (w_ty (lit "A1"))]]
                             [[lit "typeshare"]; [lit "A1"]])].
Definition w_kt_text (pfx : str) (ws : list ws_entry) (c : str) : option str :=
  match parse_workspace uc_exec [] [] (fun l => l) ws with
  | Ok arrivals =>
    let cs := multi_crates idl arrivals in
    match crates_get cs c with
    | Some pd => match kt_generate_multi uc_exec (w_kt pfx) c (crate_imports idl cs c pd) pd with Ok t => Some t | _ => None end
    | None => None
    end
  | _ => None
  end.

Definition NL : str := [10%N].
Definition TAB : str := [9%N].
Local Open Scope string_scope.

(* formerly C14-kotlin-import-prefix: under the prefix KP b.kt said `import p.a.A1` while a.kt declares `data class KPA1`.
   Exact text of both files: the import names KPA1, a.kt (package p.a) declares KPA1 *)
Example kotlin_import_prefix_fixed :
  w_kt_text (lit "KP") ws_kt_prefix (lit "b") =
    Some (lit "package p.b" ++ NL ++ NL ++ lit "import kotlinx.serialization.Serializable" ++ NL ++
          lit "import kotlinx.serialization.SerialName" ++ NL ++ NL ++ lit "import p.a.KPA1" ++ NL ++ NL ++
          lit "@Serializable" ++ NL ++ lit "data class KPB1 (" ++ NL ++ TAB ++ lit "val f: KPA1" ++ NL ++ lit ")" ++ NL ++ NL)%list /\
  w_kt_text (lit "KP") ws_kt_prefix (lit "a") =
    Some (lit "package p.a" ++ NL ++ NL ++ lit "import kotlinx.serialization.Serializable" ++ NL ++
          lit "import kotlinx.serialization.SerialName" ++ NL ++ NL ++ NL ++
          lit "@Serializable" ++ NL ++ lit "data class KPA1 (" ++ NL ++ TAB ++ lit "val x: UByte" ++ NL ++ lit ")" ++ NL ++ NL)%list /\
  (* without a prefix nothing changed *)
  match w_kt_text [] ws_kt_prefix (lit "b") with Some t => contains_sub (lit "import p.a.A1") t | None => false end = true.
Proof. repeat split; vm_compute; reflexivity. Qed.

(* the class of kt_decl_of_declares is needed, and inhabited by an open finding only: a serde-renamed plain alias *)
Example kotlin_alias_class_needed :
  let a := {| aid := {| original := lit "Id"; renamed := lit "UserId"; via_serde_rename := true |}; agenerics := [];
              atype := RPrim PString; acomments := []; adecs := []; aredacted := false |} in
  c14_kt_alias_class (ItAlias a) = true /\
  match kt_decl_of (w_kt (lit "KP")) (ItAlias a) with
  | Ok [d] => str_eqb (d_name (kt_obs d)) (lit "KPId")
  | _ => false
  end = true.
Proof. split; vm_compute; reflexivity. Qed.

(* the hypotheses of kt_imports_name_declared are satisfiable: the witness has the import pair (a, A1) *)
Example kotlin_imports_nonvacuous :
  exists arrivals pd,
    parse_workspace uc_exec [] [] (fun l => l) ws_kt_prefix = Ok arrivals /\
    In (lit "b", pd) (multi_crates idl arrivals) /\
    scoped_pairs (crate_imports idl (multi_crates idl arrivals) (lit "b") pd) = [(lit "a", lit "A1")].
Proof.
  destruct (parse_workspace uc_exec [] [] (fun l => l) ws_kt_prefix) as [arrivals| |] eqn:E; try (vm_compute in E; discriminate).
  destruct (crates_get (multi_crates idl arrivals) (lit "b")) as [pd|] eqn:G.
  - exists arrivals, pd. split; [reflexivity|]. split; [now apply crates_get_in|].
    vm_compute in E. injection E as <-. vm_compute in G. injection G as <-. vm_compute. reflexivity.
  - vm_compute in E. injection E as <-. vm_compute in G. discriminate.
Qed.
