(* C09 for Kotlin: definitions prefix + (renamed | original for a typealias), references
   prefix + reconciled id unless the id is a generic parameter of the item; the sealed parent and
   the ...Inner helper are spelled from the enum's original id. *)
From Coq Require Import List Bool String Permutation.
From TS Require Import Model.Str Model.Outcome Model.Unicode Model.Types Model.Parse Model.Reconcile Model.TopsortAlgo Model.Topsort
                       Model.Lang.Common Model.Lang.Decl Model.Lang.Kotlin Spec.C09Spec.
From TS Require Import Proofs.C11 Proofs.C09Common Proofs.C09Recon Proofs.C09Refs.
Import ListNotations.
Local Notation length := List.length (only parsing).

Lemma c09_go_Forall2 {A B} (f : A -> outcome B) ps ys :
  (fix go (l : list A) : outcome (list B) :=
     match l with [] => Ok [] | x :: r => do y <- f x; do ys <- go r; Ok (y :: ys) end) ps = Ok ys ->
  Forall2 (fun p y => f p = Ok y) ps ys.
Proof.
  revert ys. induction ps as [|p ps IH]; intros ys H.
  - injection H as <-. constructor.
  - destruct (f p) as [y| |] eqn:E; cbn [bind] in H; try discriminate.
    match type of H with context [bind ?m _] => destruct m as [ys'| |] eqn:E' end; cbn [bind] in H; try discriminate.
    injection H as <-. constructor; [exact E|apply IH; reflexivity].
Qed.

Lemma c09_topsort_in things out : topsort things = Ok out -> forall x, In x out <-> In x things.
Proof.
  intros H. unfold topsort in H. destruct (build_dag things) as [dag| |] eqn:D; cbn [bind] in H; try discriminate.
  destruct (topsort_permutation things dag D) as (out' & H' & P). unfold topsort in H'. rewrite D in H'. cbn [bind] in H'.
  assert (out' = out) as -> by congruence.
  intros x. split; intros Hx; [eapply Permutation_in; [exact P|exact Hx]|eapply Permutation_in; [apply Permutation_sym; exact P|exact Hx]].
Qed.

Section KT.
Variable uc : unicode.
Variable cfg : kt_config.
Let pfx := kt_prefix cfg.

Definition kt_ref_name (gs : list str) (i : str) : str := if mem_str i gs then i else pfx ++ i.

Lemma kt_texp_names gs t : forall x, kt_texp cfg gs t = Ok x ->
  forall n, In n (texp_names x) -> c09_builtin Kotlin n = true \/ exists form i, In (form, i) (c09_type_ids t) /\ n = kt_ref_name gs i.
Proof.
  induction t using rtype_ind'; intros x Hx nm Hn; cbn [kt_texp] in Hx.
  - injection Hx as <-. unfold kt_format_simple_type in Hn. destruct (tmap_get (kt_type_mappings cfg) id); cbn [texp_names flat_map] in Hn; [destruct Hn|]. destruct Hn as [<-|[]].
    right. exists C9Simple, id. split; [left; reflexivity|reflexivity].
  - destruct (tmap_get (kt_type_mappings cfg) id); [injection Hx as <-; destruct Hn|].
    match type of Hx with context [bind ?m _] => destruct m as [ys| |] eqn:E end; cbn [bind] in Hx; try discriminate.
    injection Hx as <-. apply c09_go_Forall2 in E. cbn [texp_names] in Hn. destruct Hn as [<-|Hn].
    + right. exists C9Generic, id. split; [left; reflexivity|reflexivity].
    + apply in_flat_map in Hn as (y & Hy & Hn). destruct (c09_Forall2_in_r _ _ _ _ E Hy) as (p & Hp & Ep).
      rewrite Forall_forall in H. destruct (H p Hp y Ep nm Hn) as [B|(form & i & Hi & ->)]; [left; exact B|].
      right. exists form, i. split; [|reflexivity]. cbn [c09_type_ids]. right. apply in_flat_map. exists p. split; assumption.
  - destruct (kt_texp cfg gs t) as [e| |] eqn:E; cbn [bind] in Hx; try discriminate. injection Hx as <-.
    cbn [texp_names flat_map] in Hn. rewrite app_nil_r in Hn. destruct Hn as [<-|Hn]; [left; reflexivity|]. exact (IHt e eq_refl nm Hn).
  - destruct (kt_texp cfg gs t) as [e| |] eqn:E; cbn [bind] in Hx; try discriminate. injection Hx as <-.
    cbn [texp_names flat_map] in Hn. rewrite app_nil_r in Hn. destruct Hn as [<-|Hn]; [left; reflexivity|]. exact (IHt e eq_refl nm Hn).
  - destruct (kt_texp cfg gs t) as [e| |] eqn:E; cbn [bind] in Hx; try discriminate. injection Hx as <-.
    cbn [texp_names flat_map] in Hn. rewrite app_nil_r in Hn. destruct Hn as [<-|Hn]; [left; reflexivity|]. exact (IHt e eq_refl nm Hn).
  - destruct (kt_texp cfg gs t1) as [ks| |] eqn:E1; cbn [bind] in Hx; try discriminate.
    destruct (kt_texp cfg gs t2) as [vs| |] eqn:E2; cbn [bind] in Hx; try discriminate. injection Hx as <-.
    cbn [texp_names flat_map] in Hn. rewrite app_nil_r in Hn. destruct Hn as [<-|Hn]; [left; reflexivity|].
    apply in_app_iff in Hn as [Hn|Hn].
    + destruct (IHt1 ks eq_refl nm Hn) as [B|(form & i & Hi & ->)]; [left; exact B|]. right. exists form, i. split; [cbn [c09_type_ids]; apply in_app_iff; auto|reflexivity].
    + destruct (IHt2 vs eq_refl nm Hn) as [B|(form & i & Hi & ->)]; [left; exact B|]. right. exists form, i. split; [cbn [c09_type_ids]; apply in_app_iff; auto|reflexivity].
  - destruct (kt_texp cfg gs t) as [e| |] eqn:E; cbn [bind] in Hx; try discriminate. injection Hx as <-.
    cbn [texp_names] in Hn. exact (IHt e eq_refl nm Hn).
  - left. destruct p; try discriminate; injection Hx as <-; destruct Hn as [<-|[]]; reflexivity.
Qed.
End KT.
