(* C12, Go: the packages the declarations refer to (`time.` in a translated type, `json.` in the
   (Un)MarshalJSON methods of a tagged enum) against the import set collected while printing
   (begin_file inserts encoding/json, format_special_type inserts time where it prints time.Time; the
   set only grows; it is written after the whole body has been formatted).
   Stated for configurations without uppercase_acronyms (go.rs:579 rewrites the printed TEXT of a
   type; with no acronyms it is the identity). *)
From Coq Require Import List Bool Permutation.
From TS Require Import Model.Str Model.Outcome Model.Unicode Model.Types Model.Parse Model.TopsortAlgo Model.Topsort
                       Model.Lang.Common Model.Lang.Decl Model.Lang.Go Spec.C12Spec.
From TS Require Import Proofs.BackCommon Proofs.C12Common Proofs.C12Obs.
Import ListNotations.

Lemma c12_sset_insert_in x y l : In x (sset_insert y l) <-> x = y \/ In x l.
Proof.
  induction l as [|a l IH]; cbn [sset_insert].
  - cbn. intuition.
  - destruct (str_eqb y a) eqn:E.
    + apply str_eqb_eq in E. subst a. cbn. intuition.
    + destruct (str_ltb y a); cbn; rewrite ?IH; cbn; intuition.
Qed.

(* induction on go_ty through the argument lists *)
Section GoTyInd.
  Variable P : go_ty -> Prop.
  Hypothesis HN : forall n args, Forall P args -> P (GName n args).
  Hypothesis HS : forall e, P e -> P (GSlice e).
  Hypothesis HA : forall n e, P e -> P (GArray n e).
  Hypothesis HM : forall k v, P k -> P v -> P (GMap k v).
  Hypothesis HP : forall e, P e -> P (GPtr e).
  Hypothesis HR : forall t, P (GRaw t).
  Fixpoint c12_go_ty_ind (t : go_ty) : P t :=
    match t with
    | GName n args => HN n args ((fix go (l : list go_ty) : Forall P l :=
                                    match l with [] => Forall_nil P | x :: r => Forall_cons x (c12_go_ty_ind x) (go r) end) args)
    | GSlice e => HS e (c12_go_ty_ind e)
    | GArray n e => HA n e (c12_go_ty_ind e)
    | GMap k v => HM k v (c12_go_ty_ind k) (c12_go_ty_ind v)
    | GPtr e => HP e (c12_go_ty_ind e)
    | GRaw t => HR t
    end.
End GoTyInd.

Definition c12_gle (s s' : go_state) : Prop := incl s s'.
Lemma c12_gle_refl s : c12_gle s s. Proof. apply incl_refl. Qed.
Lemma c12_gle_trans a b c : c12_gle a b -> c12_gle b c -> c12_gle a c. Proof. apply incl_tran. Qed.

(* the import path that brings package u into the file *)
Definition c12_go_path (u : str) : str := if str_eqb u (lit "json") then lit "encoding/json" else u.

Section GO.
Variable uc : unicode.
Variable cfg : go_config.
Hypothesis no_acronyms : go_uppercase_acronyms cfg = [].

Definition c12_go_id_ok (id : str) : Prop := c12_go_pkg_of id = [].

Definition c12_go_Qt (x : go_ty) (s : go_state) : Prop := forall u, In u (c12_go_ty_uses x) -> In (c12_go_path u) s.
Lemma c12_go_Qt_up x s s' : c12_go_Qt x s -> c12_gle s s' -> c12_go_Qt x s'.
Proof. unfold c12_go_Qt, c12_gle, incl. auto. Qed.

Ltac c12_go_ret H := unfold ret in H; injection H as <- <-.

Lemma c12_go_texp_flag gs t :
  Forall c12_go_id_ok (c12_rtype_ids t) ->
  forall s x s', go_texp cfg gs t s = Ok (x, s') -> c12_gle s s' /\ c12_go_Qt x s'.
Proof.
  induction t as [id|id ps IH|t IH|t n IH|t IH|k v IHk IHv|t IH|p] using rtype_ind'; intros Hid s x s' H; cbn [go_texp] in H.
  - c12_go_ret H. split; [apply c12_gle_refl|]. intros u Hu.
    destruct (tmap_get (go_type_mappings cfg) id); cbn [c12_go_ty_uses flat_map] in Hu; [destruct Hu|].
    rewrite app_nil_r in Hu. inversion Hid as [|? ? Hok _]. unfold c12_go_id_ok in Hok. rewrite Hok in Hu. destruct Hu.
  - cbn [c12_rtype_ids] in Hid. apply Forall_cons_iff in Hid as [Hid0 Hids].
    destruct (tmap_get (go_type_mappings cfg) id).
    + c12_go_ret H. split; [apply c12_gle_refl|intros u []].
    + rewrite c12_go_is_mmapM in H. apply mbind_ok in H as (xs & s1 & Exs & H). c12_go_ret H.
      apply (c12_mmapM_mono c12_gle c12_gle_refl c12_gle_trans _ c12_go_Qt) in Exs as [L Q].
      * split; [exact L|]. intros u Hu. cbn [c12_go_ty_uses] in Hu. unfold c12_go_id_ok in Hid0. rewrite Hid0 in Hu.
        cbn [app] in Hu. apply in_flat_map in Hu as (y & Hy & Hu). rewrite Forall_forall in Q. exact (Q y Hy u Hu).
      * exact c12_go_Qt_up.
      * rewrite Forall_forall in IH |- *. intros t Ht s0 y s0' E. apply (IH t Ht); [|exact E].
        rewrite Forall_forall in Hids |- *. intros i Hi. apply Hids. apply in_flat_map. eauto.
  - destruct (tmap_get (go_type_mappings cfg) _); [c12_go_ret H; split; [apply c12_gle_refl|intros u []]|].
    apply mbind_ok in H as (e & s1 & Ee & H). c12_go_ret H. exact (IH Hid _ _ _ Ee).
  - destruct (tmap_get (go_type_mappings cfg) _); [c12_go_ret H; split; [apply c12_gle_refl|intros u []]|].
    apply mbind_ok in H as (e & s1 & Ee & H). c12_go_ret H. exact (IH Hid _ _ _ Ee).
  - destruct (tmap_get (go_type_mappings cfg) _); [c12_go_ret H; split; [apply c12_gle_refl|intros u []]|].
    apply mbind_ok in H as (e & s1 & Ee & H). c12_go_ret H. exact (IH Hid _ _ _ Ee).
  - destruct (tmap_get (go_type_mappings cfg) _); [c12_go_ret H; split; [apply c12_gle_refl|intros u []]|].
    cbn [c12_rtype_ids] in Hid. apply Forall_app in Hid as [Hk Hv].
    apply mbind_ok in H as (ks & s1 & Ek & H). apply mbind_ok in H as (vs & s2 & Ev & H). c12_go_ret H.
    destruct (IHk Hk _ _ _ Ek) as [L1 Q1]. destruct (IHv Hv _ _ _ Ev) as [L2 Q2].
    split; [eapply c12_gle_trans; eauto|]. intros u Hu. cbn [c12_go_ty_uses] in Hu.
    apply in_app_iff in Hu as [Hu|Hu]; [apply L2, Q1, Hu|apply Q2, Hu].
  - destruct (tmap_get (go_type_mappings cfg) _); [c12_go_ret H; split; [apply c12_gle_refl|intros u []]|].
    apply mbind_ok in H as (e & s1 & Ee & H). c12_go_ret H. destruct (IH Hid _ _ _ Ee) as [L Q].
    split; [exact L|]. destruct (is_vec t && go_no_pointer_slice cfg); exact Q.
  - destruct (tmap_get (go_type_mappings cfg) _); [c12_go_ret H; split; [apply c12_gle_refl|intros u []]|].
    destruct p; try (c12_go_ret H; split; [apply c12_gle_refl|intros u Hu; vm_compute in Hu; destruct Hu]).
    apply mbind_ok in H as (tt' & s1 & Ei & H). c12_go_ret H.
    unfold go_add_import in Ei. apply mbind_ok in Ei as (st & s2 & Eg & Ei). unfold mget in Eg. injection Eg as <- <-.
    unfold mput in Ei. injection Ei as _ <-.
    split; [intros a Ha; apply c12_sset_insert_in; now right|].
    intros u Hu. vm_compute in Hu. destruct Hu as [<-|[]]. apply c12_sset_insert_in. left. reflexivity.
Qed.

(* ---- with no acronyms the rewriting functions are the identity and leave the state alone ---- *)
Lemma c12_go_convert_id name : go_convert_acronyms_to_uppercase uc (go_uppercase_acronyms cfg) name = Ok name.
Proof. rewrite no_acronyms. reflexivity. Qed.

Lemma c12_go_acr name s r s' : go_acronyms_to_uppercase uc cfg name s = Ok (r, s') -> r = name /\ s' = s.
Proof.
  unfold go_acronyms_to_uppercase, go_lift. rewrite c12_go_convert_id. intros [= <- <-]. auto.
Qed.

Lemma c12_go_ty_acronyms_id t : go_ty_acronyms uc cfg t = Ok t.
Proof.
  induction t as [n args IH|e IH|n e IH|k v IHk IHv|e IH|x] using c12_go_ty_ind; cbn [go_ty_acronyms];
    rewrite ?c12_go_convert_id; cbn [bind]; rewrite ?IH, ?IHk, ?IHv; cbn [bind]; try reflexivity.
  rewrite c12_go_is_mapM.
  assert (E : mapM (go_ty_acronyms uc cfg) args = Ok args).
  { induction IH as [|a l Ha Hl IHl]; cbn [mapM]; [reflexivity|]. rewrite Ha. cbn [bind]. rewrite IHl. reflexivity. }
  rewrite E. reflexivity.
Qed.

Lemma c12_go_acronyms_ty_id t s r s' : go_acronyms_ty uc cfg t s = Ok (r, s') -> r = t /\ s' = s.
Proof.
  unfold go_acronyms_ty. intros H. apply mbind_ok in H as (text & s1 & E & H). apply c12_go_acr in E as [-> ->].
  c12_go_ret H. rewrite c12_go_ty_acronyms_id, str_eqb_refl. auto.
Qed.

Lemma c12_go_field_name name b s r s' : go_format_field_name uc cfg name b s = Ok (r, s') -> s' = s.
Proof. unfold go_format_field_name. intros H. now apply c12_go_acr in H. Qed.

Definition c12_go_Qd (d : go_decl) (s : go_state) : Prop :=
  forall u, In u (c12_go_decl_uses d) -> u = lit "json" \/ In (c12_go_path u) s.
Lemma c12_go_Qd_up d s s' : c12_go_Qd d s -> c12_gle s s' -> c12_go_Qd d s'.
Proof. unfold c12_go_Qd, c12_gle, incl. intros Q L u Hu. destruct (Q u Hu); auto. Qed.

Definition c12_go_Qm (m : go_member) (s : go_state) : Prop := c12_go_Qt (gm_type m) s.

Lemma c12_go_member_flag gs f :
  Forall c12_go_id_ok (c12_rtype_ids (fty f)) ->
  forall s m s', go_member_of uc cfg gs f s = Ok (m, s') -> c12_gle s s' /\ c12_go_Qm m s'.
Proof.
  intros Hid s m s' H. unfold go_member_of in H.
  apply mbind_ok in H as (tn & s1 & Et & H). apply mbind_ok in H as (gt & s2 & Eg & H).
  apply c12_go_acronyms_ty_id in Eg as [-> ->]. apply mbind_ok in H as (fname & s3 & Ef & H).
  apply c12_go_field_name in Ef as ->. c12_go_ret H. unfold c12_go_Qm. cbn [gm_type].
  destruct (type_override f Go).
  - c12_go_ret Et. split; [apply c12_gle_refl|intros u []].
  - eapply c12_go_texp_flag; eauto.
Qed.

Lemma c12_go_struct_flag rs :
  Forall (fun f => Forall c12_go_id_ok (c12_rtype_ids (fty f))) (sfields rs) ->
  forall s d s', go_struct_decl_of uc cfg rs s = Ok (d, s') -> c12_gle s s' /\ c12_go_Qd d s'.
Proof.
  intros Hid s d s' H. unfold go_struct_decl_of in H.
  apply mbind_ok in H as (name & s1 & En & H). apply c12_go_acr in En as [_ ->].
  apply mbind_ok in H as (ms & s2 & Ems & H). c12_go_ret H.
  apply (c12_mmapM_mono c12_gle c12_gle_refl c12_gle_trans _ c12_go_Qm) in Ems as [L Q].
  - split; [exact L|]. intros u Hu. cbn [c12_go_decl_uses] in Hu. apply in_flat_map in Hu as (m & Hm & Hu).
    right. rewrite Forall_forall in Q. exact (Q m Hm u Hu).
  - intros y a b Qy Lab. exact (c12_go_Qt_up _ _ _ Qy Lab).
  - eapply Forall_impl; [|exact Hid]. cbn. intros f Hf. apply c12_go_member_flag. exact Hf.
Qed.

Definition c12_go_item_ok (it : ritem) : Prop := Forall (fun t => Forall c12_go_id_ok (c12_rtype_ids t)) (c12_item_types it).
Definition c12_go_Qds (ds : list go_decl) (s : go_state) : Prop := Forall (fun d => c12_go_Qd d s) ds.
Lemma c12_go_Qds_up ds s s' : c12_go_Qds ds s -> c12_gle s s' -> c12_go_Qds ds s'.
Proof. unfold c12_go_Qds. intros Q L. eapply Forall_impl; [|exact Q]. cbn. intros d Qd. eapply c12_go_Qd_up; eauto. Qed.

Definition c12_go_Qv (v : go_variant) (s : go_state) : Prop :=
  match gv_content v with GCType ty _ => c12_go_Qt ty s | _ => True end.

Lemma c12_go_variant_flag sh cs sn tk v :
  Forall (fun t => Forall c12_go_id_ok (c12_rtype_ids t)) (c12_variant_types v) ->
  forall s d s', go_variant_of uc cfg sh cs sn tk v s = Ok (d, s') -> c12_gle s s' /\ c12_go_Qv d s'.
Proof.
  intros Hid s d s' H. unfold go_variant_of in H.
  apply mbind_ok in H as (vn & s1 & E1 & H). apply c12_go_acr in E1 as [_ ->].
  apply mbind_ok in H as (vt & s2 & E2 & H). apply mbind_ok in H as (tp & s3 & E3 & H). apply c12_go_acr in E3 as [_ ->].
  apply mbind_ok in H as (content & s4 & E4 & H). c12_go_ret H. unfold c12_go_Qv. cbn [gv_content].
  destruct v as [vsh|t vsh|fs vsh].
  - c12_go_ret E2. c12_go_ret E4. split; [apply c12_gle_refl|exact I].
  - apply mbind_ok in E2 as (x & s5 & Ex & E2). c12_go_ret E2.
    apply mbind_ok in E4 as (fvt & s6 & Ef & E4). apply c12_go_acronyms_ty_id in Ef as [-> ->]. c12_go_ret E4.
    cbn [c12_variant_types] in Hid. apply Forall_cons_iff in Hid as [Ht _]. exact (c12_go_texp_flag _ _ Ht _ _ _ Ex).
  - apply mbind_ok in E2 as (nm & s5 & En & E2). unfold go_make_anonymous_struct_name in En. apply c12_go_acr in En as [_ ->].
    c12_go_ret E2. apply mbind_ok in E4 as (fvt & s6 & Ef & E4). apply c12_go_acr in Ef as [_ ->]. c12_go_ret E4.
    split; [apply c12_gle_refl|exact I].
Qed.

Lemma c12_go_lift_state {A} (o : outcome A) (s : go_state) a s' : go_lift o s = Ok (a, s') -> s' = s.
Proof. unfold go_lift. destruct o; try discriminate. intros [= _ <-]. reflexivity. Qed.

Lemma c12_variant_types_Forall' (P : rtype -> Prop) vs :
  Forall P (flat_map c12_variant_types vs) -> Forall (fun v => Forall P (c12_variant_types v)) vs.
Proof.
  induction vs as [|v vs IH]; cbn [flat_map]; [constructor|].
  intros H. apply Forall_app in H as [H1 H2]. constructor; auto.
Qed.

Lemma c12_go_decl_flag cs it :
  c12_go_item_ok it ->
  forall s ds s', go_decl_of uc cfg cs it s = Ok (ds, s') -> c12_gle s s' /\ c12_go_Qds ds s'.
Proof.
  intros Hid s ds s' H. destruct it as [rs|e|a|c]; cbn [go_decl_of] in H.
  - apply mbind_ok in H as (d & s1 & E & H). c12_go_ret H.
    apply c12_go_struct_flag in E as [L Q]; [split; [exact L|constructor; [exact Q|constructor]]|].
    unfold c12_go_item_ok in Hid. cbn [c12_item_types] in Hid. rewrite Forall_map in Hid. exact Hid.
  - unfold go_enum_decls_of in H. apply mbind_ok in H as (anon & s1 & Ea & H).
    unfold c12_go_item_ok in Hid. cbn [c12_item_types] in Hid. apply c12_variant_types_Forall' in Hid.
    assert (LA : c12_gle s s1 /\ c12_go_Qds anon s1).
    { unfold go_anonymous_struct_decls in Ea. apply mbind_ok in Ea as (dss & s2 & Edss & Ea). c12_go_ret Ea.
      apply (c12_mmapM_mono c12_gle c12_gle_refl c12_gle_trans _ c12_go_Qds) in Edss as [L Q].
      - split; [exact L|]. unfold c12_go_Qds. apply Forall_forall. intros d Hd. apply in_concat in Hd as (l & Hl & Hd).
        rewrite Forall_forall in Q. specialize (Q l Hl). unfold c12_go_Qds in Q. rewrite Forall_forall in Q. auto.
      - exact c12_go_Qds_up.
      - eapply Forall_impl; [|exact Hid]. cbn. intros v Hv s0 y s0' E0.
        destruct v as [vsh|t vsh|fs vsh]; try (c12_go_ret E0; split; [apply c12_gle_refl|constructor]).
        apply mbind_ok in E0 as (nm & s3 & En & E0). unfold go_make_anonymous_struct_name in En. apply c12_go_acr in En as [_ ->].
        apply mbind_ok in E0 as (d & s4 & Ed & E0). c12_go_ret E0.
        apply c12_go_struct_flag in Ed as [L Q]; [split; [exact L|constructor; [exact Q|constructor]]|].
        cbn [anon_struct sfields]. cbn [c12_variant_types] in Hv. rewrite Forall_map in Hv. exact Hv. }
    destruct LA as [L1 Q1].
    destruct e as [sh|tag content sh]; cbn [enum_shared] in *.
    + apply mbind_ok in H as (en & s2 & En & H). apply c12_go_acr in En as [_ ->].
      apply mbind_ok in H as (vs & s3 & Evs & H). c12_go_ret H.
      assert (L2 : c12_gle s1 s3).
      { eapply (c12_mmapM_le c12_gle c12_gle_refl c12_gle_trans); [|exact Evs]. apply Forall_forall. intros v _ s0 y s0' E0.
        unfold go_unit_variant_of in E0. destruct v; try discriminate E0.
        apply mbind_ok in E0 as (a1 & t1 & E1 & E0). apply c12_go_acr in E1 as [_ ->].
        apply mbind_ok in E0 as (a2 & t2 & E2 & E0). apply c12_go_acr in E2 as [_ ->]. c12_go_ret E0. apply c12_gle_refl. }
      split; [eapply c12_gle_trans; eauto|]. unfold c12_go_Qds. apply Forall_app. split.
      * exact (c12_go_Qds_up _ _ _ Q1 L2).
      * constructor; [|constructor]. intros u [].
    + apply mbind_ok in H as (sn & s2 & E2 & H). apply c12_go_acr in E2 as [_ ->].
      apply mbind_ok in H as (cf & s3 & E3 & H). apply c12_go_lift_state in E3 as ->.
      apply mbind_ok in H as (tf & s4 & E4 & H). apply c12_go_field_name in E4 as ->.
      apply mbind_ok in H as (ssn & s5 & E5 & H).
      assert (s5 = s1) as ->.
      { destruct (original (eid sh)) as [|c0 r0]; [discriminate E5|]. destruct (N.ltb c0 128); [|discriminate E5]. c12_go_ret E5. reflexivity. }
      apply mbind_ok in H as (ta & s6 & E6 & H). apply c12_go_acr in E6 as [_ ->].
      apply mbind_ok in H as (vs & s7 & Evs & H). c12_go_ret H.
      apply (c12_mmapM_mono c12_gle c12_gle_refl c12_gle_trans _ c12_go_Qv) in Evs as [L2 Q2].
      * split; [eapply c12_gle_trans; eauto|]. unfold c12_go_Qds. apply Forall_app. split.
        -- exact (c12_go_Qds_up _ _ _ Q1 L2).
        -- constructor; [|constructor]. intros u Hu. cbn [c12_go_decl_uses gt_variants] in Hu.
           destruct Hu as [<-|Hu]; [now left|]. right. apply in_flat_map in Hu as (v & Hv & Hu).
           rewrite Forall_forall in Q2. specialize (Q2 v Hv). unfold c12_go_Qv in Q2.
           destruct (gv_content v); try contradiction. exact (Q2 u Hu).
      * intros y a b Qy Lab. unfold c12_go_Qv in *. destruct (gv_content y); auto. eapply c12_go_Qt_up; eauto.
      * eapply Forall_impl; [|exact Hid]. cbn. intros v Hv s0 y s0' E0. exact (c12_go_variant_flag _ _ _ _ _ Hv _ _ _ E0).
  - apply mbind_ok in H as (name & s1 & En & H). apply c12_go_acr in En as [_ ->].
    apply mbind_ok in H as (ty & s2 & Ety & H). c12_go_ret H.
    unfold c12_go_item_ok in Hid. cbn [c12_item_types] in Hid. apply Forall_cons_iff in Hid as [Ht _].
    destruct (c12_go_texp_flag _ _ Ht _ _ _ Ety) as [L Q]. split; [exact L|].
    constructor; [|constructor]. intros u Hu. right. exact (Q u Hu).
  - apply mbind_ok in H as (ty & s1 & Ety & H). c12_go_ret H.
    unfold c12_go_item_ok in Hid. cbn [c12_item_types] in Hid. apply Forall_cons_iff in Hid as [Ht _].
    destruct (c12_go_texp_flag _ _ Ht _ _ _ Ety) as [L Q]. split; [exact L|].
    constructor; [|constructor]. intros u Hu. right. exact (Q u Hu).
Qed.

Lemma c12_go_dom_items items : c12_go_dom cfg items = true -> Forall c12_go_item_ok items.
Proof.
  unfold c12_go_dom. intros H. apply andb_true_iff in H as [_ H]. rewrite forallb_forall in H.
  apply Forall_forall. intros it Hit. unfold c12_go_item_ok. apply Forall_forall. intros t Ht.
  apply Forall_forall. intros id Hid.
  assert (Hin : In id (flat_map c12_item_ids items)).
  { apply in_flat_map. exists it. split; [exact Hit|]. unfold c12_item_ids. apply in_flat_map. eauto. }
  specialize (H id Hin). unfold c12_go_id_ok, c12_go_pkg_of.
  destruct (c12_before c12_ch_dot id); [|reflexivity]. apply negb_true_iff in H. rewrite H. reflexivity.
Qed.

Lemma c12_forallb_perm {A} (p : A -> bool) a b : Permutation a b -> forallb p b = true -> forallb p a = true.
Proof. rewrite !forallb_forall. intros P H x Hx. apply H. eapply Permutation_in; eauto. Qed.

Theorem c12_go_file pd ds imports :
  go_decls uc cfg pd = Ok (ds, imports) -> c12_go_dom cfg (items_of pd) = true ->
  c12_good (c12_go_uses ds) (c12_go_defs imports) = true.
Proof.
  unfold go_decls. intros H Hdom. apply c12_bind_ok in H as (items & Et & H).
  apply c12_topsort_perm in Et.
  assert (Hdom' : c12_go_dom cfg items = true).
  { unfold c12_go_dom in *. apply andb_true_iff in Hdom as [A B]. rewrite A. cbn [andb].
    eapply c12_forallb_perm; [|exact B]. unfold c12_item_ids.
    clear -Et. induction Et; cbn [flat_map]; auto using Permutation_app_head, Permutation_app, Permutation_app_comm.
    - rewrite !app_assoc. apply Permutation_app_tail. apply Permutation_app_comm.
    - eapply Permutation_trans; eauto. }
  apply c12_go_dom_items in Hdom'.
  apply mbind_ok in H as (hd & s1 & Eh & H). apply mbind_ok in H as (dss & s2 & Edss & H). c12_go_ret H.
  assert (Hjson : In (lit "encoding/json") s1).
  { unfold go_begin_file in Eh. apply mbind_ok in Eh as (u0 & s3 & Ei & Eh). c12_go_ret Eh.
    unfold go_add_import in Ei. apply mbind_ok in Ei as (st & s4 & Eg & Ei). unfold mget in Eg. injection Eg as <- <-.
    unfold mput in Ei. injection Ei as _ <-. apply c12_sset_insert_in. now left. }
  apply (c12_mmapM_mono c12_gle c12_gle_refl c12_gle_trans _ c12_go_Qds) in Edss as [L Q].
  - apply c12_good_spec. intros u Hu. unfold c12_go_uses in Hu. apply in_flat_map in Hu as (d & Hd & Hu).
    apply in_concat in Hd as (l & Hl & Hd). rewrite Forall_forall in Q. specialize (Q l Hl).
    unfold c12_go_Qds in Q. rewrite Forall_forall in Q. specialize (Q d Hd u Hu).
    assert (Hp : In (c12_go_path u) s2).
    { destruct Q as [->|Q]; [apply L; exact Hjson|exact Q]. }
    assert (Hv : u = lit "time" \/ u = lit "json").
    { clear -Hu. assert (T : forall t, In u (c12_go_ty_uses t) -> u = lit "time" \/ u = lit "json").
      { induction t as [n args IH|e IH|n e IH|k v IHk IHv|e IH|x] using c12_go_ty_ind; cbn [c12_go_ty_uses]; auto.
        - rewrite in_app_iff. intros [H|H].
          + unfold c12_go_pkg_of in H. destruct (c12_before c12_ch_dot n); [|destruct H].
            destruct (mem_str s c12_go_vocab) eqn:E; [|destruct H]. destruct H as [<-|[]].
            apply c12_mem_str_In in E. destruct E as [<-|[<-|[]]]; auto.
          + apply in_flat_map in H as (y & Hy & H). rewrite Forall_forall in IH. eauto.
        - rewrite in_app_iff. intros [H|H]; auto.
        - intros []. }
      destruct d as [? ? ? ms|? ? ty|? ty ?|? ? ?|e]; cbn [c12_go_decl_uses] in Hu.
      - apply in_flat_map in Hu as (m & _ & Hu). eauto.
      - eauto.
      - eauto.
      - destruct Hu.
      - destruct Hu as [<-|Hu]; [auto|]. apply in_flat_map in Hu as (v & _ & Hu). destruct (gv_content v); try contradiction. eauto. }
    unfold c12_go_defs. destruct Hv as [-> | ->].
    + apply in_map_iff. exists (lit "time"). split; [reflexivity|exact Hp].
    + apply in_map_iff. exists (lit "encoding/json"). split; [reflexivity|exact Hp].
  - exact c12_go_Qds_up.
  - eapply Forall_impl; [|exact Hdom']. cbn. intros it Hit. apply c12_go_decl_flag. exact Hit.
Qed.
End GO.

Theorem c12_go uc cfg pd uses defs :
  c12_go_observe uc cfg pd = Ok (uses, defs) -> c12_go_dom cfg (items_of pd) = true -> c12_good uses defs = true.
Proof.
  unfold c12_go_observe. intros H Hdom. apply c12_bind_ok in H as ([ds imports] & E & H). injection H as <- <-.
  cbn [fst snd]. eapply c12_go_file; eauto.
  unfold c12_go_dom in Hdom. apply andb_true_iff in Hdom as [A _]. destruct (go_uppercase_acronyms cfg); [reflexivity|discriminate A].
Qed.
