(* C12, Go: the packages the declarations refer to (`time.` in a translated type, `json.` in the
   (Un)MarshalJSON methods of a tagged enum) against the import set collected while printing
   (begin_file inserts encoding/json, format_special_type inserts time where it prints time.Time; the
   set only grows; it is written after the whole body has been formatted).
   go.rs:579 rewrites the printed TEXT of a type: the section below is parametric in what is known of
   that rewrite (it introduces no package use) and is instantiated twice: configurations without
   uppercase_acronyms (the rewrite is the identity: c12_go), and alphanumeric acronyms on ASCII type
   names (Proofs/GoAcronyms.v: only the case of letters changes: c12_go_acronyms). *)
From Coq Require Import List Bool Permutation Lia ZifyBool ZifyN.
From TS Require Import Model.Str Model.Outcome Model.Unicode Model.Types Model.Parse Model.TopsortAlgo Model.Topsort
                       Model.Lang.Common Model.Lang.Decl Model.Lang.Go Spec.C12Spec.
From TS Require Import Proofs.BackCommon Proofs.C12Common Proofs.C12Obs Proofs.GoAcronyms.
Import ListNotations.

Lemma c12_sset_insert_in x y l : In x (sset_insert y l) <-> x = y \/ In x l.
Proof.
  induction l as [|a l IH]; cbn [sset_insert].
  - cbn. intuition.
  - destruct (str_eqb y a) eqn:E.
    + apply str_eqb_eq in E. subst a. cbn. intuition.
    + destruct (str_ltb y a); cbn; rewrite ?IH; cbn; intuition.
Qed.

(* induction on go_ty through the argument lists *)
Section GoTyInd.
  Variable P : go_ty -> Prop.
  Hypothesis HN : forall n args, Forall P args -> P (GName n args).
  Hypothesis HS : forall e, P e -> P (GSlice e).
  Hypothesis HA : forall n e, P e -> P (GArray n e).
  Hypothesis HM : forall k v, P k -> P v -> P (GMap k v).
  Hypothesis HP : forall e, P e -> P (GPtr e).
  Hypothesis HR : forall t, P (GRaw t).
  Fixpoint c12_go_ty_ind (t : go_ty) : P t :=
    match t with
    | GName n args => HN n args ((fix go (l : list go_ty) : Forall P l :=
                                    match l with [] => Forall_nil P | x :: r => Forall_cons x (c12_go_ty_ind x) (go r) end) args)
    | GSlice e => HS e (c12_go_ty_ind e)
    | GArray n e => HA n e (c12_go_ty_ind e)
    | GMap k v => HM k v (c12_go_ty_ind k) (c12_go_ty_ind v)
    | GPtr e => HP e (c12_go_ty_ind e)
    | GRaw t => HR t
    end.
End GoTyInd.

Definition c12_gle (s s' : go_state) : Prop := incl s s'.
Lemma c12_gle_refl s : c12_gle s s. Proof. apply incl_refl. Qed.
Lemma c12_gle_trans a b c : c12_gle a b -> c12_gle b c -> c12_gle a c. Proof. apply incl_tran. Qed.

(* the import path that brings package u into the file *)
Definition c12_go_path (u : str) : str := if str_eqb u (lit "json") then lit "encoding/json" else u.

Section GO.
Variable uc : unicode.
Variable cfg : go_config.
(* [c12_rt_ok]: the Rust types on whose translation the acronym rewrite is known to introduce no package use *)
Variable c12_rt_ok : rtype -> Prop.
Hypothesis Hty_uses : forall gs t s x s1, c12_rt_ok t -> go_texp cfg gs t s = Ok (x, s1) ->
  forall s2 r s3, go_acronyms_ty uc cfg x s2 = Ok (r, s3) -> incl (c12_go_ty_uses r) (c12_go_ty_uses x).

Definition c12_go_id_ok (id : str) : Prop := c12_go_pkg_of id = [].
Definition c12_go_t_ok (t : rtype) : Prop := Forall c12_go_id_ok (c12_rtype_ids t) /\ c12_rt_ok t.

Definition c12_go_Qt (x : go_ty) (s : go_state) : Prop := forall u, In u (c12_go_ty_uses x) -> In (c12_go_path u) s.
Lemma c12_go_Qt_up x s s' : c12_go_Qt x s -> c12_gle s s' -> c12_go_Qt x s'.
Proof. unfold c12_go_Qt, c12_gle, incl. auto. Qed.

Ltac c12_go_ret H := unfold ret in H; injection H as <- <-.

Lemma c12_go_texp_flag gs t :
  Forall c12_go_id_ok (c12_rtype_ids t) ->
  forall s x s', go_texp cfg gs t s = Ok (x, s') -> c12_gle s s' /\ c12_go_Qt x s'.
Proof.
  induction t as [id|id ps IH|t IH|t n IH|t IH|k v IHk IHv|t IH|p] using rtype_ind'; intros Hid s x s' H; cbn [go_texp] in H.
  - c12_go_ret H. split; [apply c12_gle_refl|]. intros u Hu.
    destruct (tmap_get (go_type_mappings cfg) id); cbn [c12_go_ty_uses flat_map] in Hu; [destruct Hu|].
    rewrite app_nil_r in Hu. inversion Hid as [|? ? Hok _]. unfold c12_go_id_ok in Hok. rewrite Hok in Hu. destruct Hu.
  - cbn [c12_rtype_ids] in Hid. apply Forall_cons_iff in Hid as [Hid0 Hids].
    destruct (tmap_get (go_type_mappings cfg) id).
    + c12_go_ret H. split; [apply c12_gle_refl|intros u []].
    + rewrite c12_go_is_mmapM in H. apply mbind_ok in H as (xs & s1 & Exs & H). c12_go_ret H.
      apply (c12_mmapM_mono c12_gle c12_gle_refl c12_gle_trans _ c12_go_Qt) in Exs as [L Q].
      * split; [exact L|]. intros u Hu. cbn [c12_go_ty_uses] in Hu. unfold c12_go_id_ok in Hid0. rewrite Hid0 in Hu.
        cbn [app] in Hu. apply in_flat_map in Hu as (y & Hy & Hu). rewrite Forall_forall in Q. exact (Q y Hy u Hu).
      * exact c12_go_Qt_up.
      * rewrite Forall_forall in IH |- *. intros t Ht s0 y s0' E. apply (IH t Ht); [|exact E].
        rewrite Forall_forall in Hids |- *. intros i Hi. apply Hids. apply in_flat_map. eauto.
  - destruct (tmap_get (go_type_mappings cfg) _); [c12_go_ret H; split; [apply c12_gle_refl|intros u []]|].
    apply mbind_ok in H as (e & s1 & Ee & H). c12_go_ret H. exact (IH Hid _ _ _ Ee).
  - destruct (tmap_get (go_type_mappings cfg) _); [c12_go_ret H; split; [apply c12_gle_refl|intros u []]|].
    apply mbind_ok in H as (e & s1 & Ee & H). c12_go_ret H. exact (IH Hid _ _ _ Ee).
  - destruct (tmap_get (go_type_mappings cfg) _); [c12_go_ret H; split; [apply c12_gle_refl|intros u []]|].
    apply mbind_ok in H as (e & s1 & Ee & H). c12_go_ret H. exact (IH Hid _ _ _ Ee).
  - destruct (tmap_get (go_type_mappings cfg) _); [c12_go_ret H; split; [apply c12_gle_refl|intros u []]|].
    cbn [c12_rtype_ids] in Hid. apply Forall_app in Hid as [Hk Hv].
    apply mbind_ok in H as (ks & s1 & Ek & H). apply mbind_ok in H as (vs & s2 & Ev & H). c12_go_ret H.
    destruct (IHk Hk _ _ _ Ek) as [L1 Q1]. destruct (IHv Hv _ _ _ Ev) as [L2 Q2].
    split; [eapply c12_gle_trans; eauto|]. intros u Hu. cbn [c12_go_ty_uses] in Hu.
    apply in_app_iff in Hu as [Hu|Hu]; [apply L2, Q1, Hu|apply Q2, Hu].
  - destruct (tmap_get (go_type_mappings cfg) _); [c12_go_ret H; split; [apply c12_gle_refl|intros u []]|].
    apply mbind_ok in H as (e & s1 & Ee & H). c12_go_ret H. destruct (IH Hid _ _ _ Ee) as [L Q].
    split; [exact L|]. destruct (is_vec t && go_no_pointer_slice cfg); exact Q.
  - destruct (tmap_get (go_type_mappings cfg) _); [c12_go_ret H; split; [apply c12_gle_refl|intros u []]|].
    destruct p; try (c12_go_ret H; split; [apply c12_gle_refl|intros u Hu; vm_compute in Hu; destruct Hu]).
    apply mbind_ok in H as (tt' & s1 & Ei & H). c12_go_ret H.
    unfold go_add_import in Ei. apply mbind_ok in Ei as (st & s2 & Eg & Ei). unfold mget in Eg. injection Eg as <- <-.
    unfold mput in Ei. injection Ei as _ <-.
    split; [intros a Ha; apply c12_sset_insert_in; now right|].
    intros u Hu. vm_compute in Hu. destruct Hu as [<-|[]]. apply c12_sset_insert_in. left. reflexivity.
Qed.

(* ---- the rewriting functions leave the state alone (every configuration) ---- *)
Lemma c12_go_acr name s r s' : go_acronyms_to_uppercase uc cfg name s = Ok (r, s') -> s' = s.
Proof.
  unfold go_acronyms_to_uppercase, go_lift. destruct (go_convert_acronyms_to_uppercase uc (go_uppercase_acronyms cfg) name); try discriminate.
  now intros [= _ <-].
Qed.

Lemma c12_go_acronyms_ty_state t s r s' : go_acronyms_ty uc cfg t s = Ok (r, s') -> s' = s.
Proof.
  unfold go_acronyms_ty. intros H. apply mbind_ok in H as (text & s1 & E & H). apply c12_go_acr in E as ->.
  c12_go_ret H. reflexivity.
Qed.

(* a verbatim type stays verbatim: it uses no package *)
Lemma c12_go_acronyms_ty_raw o s r s' : go_acronyms_ty uc cfg (GRaw o) s = Ok (r, s') -> c12_go_ty_uses r = [].
Proof.
  unfold go_acronyms_ty. intros H. apply mbind_ok in H as (text & s1 & E & H). c12_go_ret H. cbn [go_ty_acronyms].
  destruct (go_convert_acronyms_to_uppercase uc (go_uppercase_acronyms cfg) o); cbn [bind]; try reflexivity.
  destruct (str_eqb _ _); reflexivity.
Qed.

Lemma c12_go_field_name name b s r s' : go_format_field_name uc cfg name b s = Ok (r, s') -> s' = s.
Proof. unfold go_format_field_name. intros H. now apply c12_go_acr in H. Qed.

Definition c12_go_Qd (d : go_decl) (s : go_state) : Prop :=
  forall u, In u (c12_go_decl_uses d) -> u = lit "json" \/ In (c12_go_path u) s.
Lemma c12_go_Qd_up d s s' : c12_go_Qd d s -> c12_gle s s' -> c12_go_Qd d s'.
Proof. unfold c12_go_Qd, c12_gle, incl. intros Q L u Hu. destruct (Q u Hu); auto. Qed.

Definition c12_go_Qm (m : go_member) (s : go_state) : Prop := c12_go_Qt (gm_type m) s.

Lemma c12_go_member_flag gs f :
  c12_go_t_ok (fty f) ->
  forall s m s', go_member_of uc cfg gs f s = Ok (m, s') -> c12_gle s s' /\ c12_go_Qm m s'.
Proof.
  intros [Hid Hrt] s m s' H. unfold go_member_of in H.
  apply mbind_ok in H as (tn & s1 & Et & H). apply mbind_ok in H as (gt & s2 & Eg & H).
  pose proof (c12_go_acronyms_ty_state _ _ _ _ Eg) as ->. apply mbind_ok in H as (fname & s3 & Ef & H).
  apply c12_go_field_name in Ef as ->. c12_go_ret H. unfold c12_go_Qm. cbn [gm_type].
  destruct (type_override f Go).
  - c12_go_ret Et. split; [apply c12_gle_refl|]. intros u Hu. rewrite (c12_go_acronyms_ty_raw _ _ _ _ Eg) in Hu. destruct Hu.
  - destruct (c12_go_texp_flag _ _ Hid _ _ _ Et) as [L Q]. split; [exact L|].
    intros u Hu. apply Q. exact (Hty_uses _ _ _ _ _ Hrt Et _ _ _ Eg u Hu).
Qed.

Lemma c12_go_struct_flag rs :
  Forall (fun f => c12_go_t_ok (fty f)) (sfields rs) ->
  forall s d s', go_struct_decl_of uc cfg rs s = Ok (d, s') -> c12_gle s s' /\ c12_go_Qd d s'.
Proof.
  intros Hid s d s' H. unfold go_struct_decl_of in H.
  apply mbind_ok in H as (name & s1 & En & H). apply c12_go_acr in En as ->.
  apply mbind_ok in H as (ms & s2 & Ems & H). c12_go_ret H.
  apply (c12_mmapM_mono c12_gle c12_gle_refl c12_gle_trans _ c12_go_Qm) in Ems as [L Q].
  - split; [exact L|]. intros u Hu. cbn [c12_go_decl_uses] in Hu. apply in_flat_map in Hu as (m & Hm & Hu).
    right. rewrite Forall_forall in Q. exact (Q m Hm u Hu).
  - intros y a b Qy Lab. exact (c12_go_Qt_up _ _ _ Qy Lab).
  - eapply Forall_impl; [|exact Hid]. cbn. intros f Hf. apply c12_go_member_flag. exact Hf.
Qed.

Definition c12_go_item_ok (it : ritem) : Prop := Forall c12_go_t_ok (c12_item_types it).
Definition c12_go_Qds (ds : list go_decl) (s : go_state) : Prop := Forall (fun d => c12_go_Qd d s) ds.
Lemma c12_go_Qds_up ds s s' : c12_go_Qds ds s -> c12_gle s s' -> c12_go_Qds ds s'.
Proof. unfold c12_go_Qds. intros Q L. eapply Forall_impl; [|exact Q]. cbn. intros d Qd. eapply c12_go_Qd_up; eauto. Qed.

Definition c12_go_Qv (v : go_variant) (s : go_state) : Prop :=
  match gv_content v with GCType ty _ => c12_go_Qt ty s | _ => True end.

Lemma c12_go_variant_flag sh cs sn tk v :
  Forall c12_go_t_ok (c12_variant_types v) ->
  forall s d s', go_variant_of uc cfg sh cs sn tk v s = Ok (d, s') -> c12_gle s s' /\ c12_go_Qv d s'.
Proof.
  intros Hid s d s' H. unfold go_variant_of in H.
  apply mbind_ok in H as (vn & s1 & E1 & H). apply c12_go_acr in E1 as ->.
  apply mbind_ok in H as (vt & s2 & E2 & H). apply mbind_ok in H as (tp & s3 & E3 & H). apply c12_go_acr in E3 as ->.
  apply mbind_ok in H as (content & s4 & E4 & H). c12_go_ret H. unfold c12_go_Qv. cbn [gv_content].
  destruct v as [vsh|t vsh|fs vsh].
  - c12_go_ret E2. c12_go_ret E4. split; [apply c12_gle_refl|exact I].
  - apply mbind_ok in E2 as (x & s5 & Ex & E2). c12_go_ret E2.
    apply mbind_ok in E4 as (fvt & s6 & Ef & E4). pose proof (c12_go_acronyms_ty_state _ _ _ _ Ef) as ->. c12_go_ret E4.
    cbn [c12_variant_types] in Hid. apply Forall_cons_iff in Hid as [[Ht Hrt] _].
    destruct (c12_go_texp_flag _ _ Ht _ _ _ Ex) as [L Q]. split; [exact L|].
    intros u Hu. apply Q. exact (Hty_uses _ _ _ _ _ Hrt Ex _ _ _ Ef u Hu).
  - apply mbind_ok in E2 as (nm & s5 & En & E2). unfold go_make_anonymous_struct_name in En. apply c12_go_acr in En as ->.
    c12_go_ret E2. apply mbind_ok in E4 as (fvt & s6 & Ef & E4). apply c12_go_acr in Ef as ->. c12_go_ret E4.
    split; [apply c12_gle_refl|exact I].
Qed.

Lemma c12_go_lift_state {A} (o : outcome A) (s : go_state) a s' : go_lift o s = Ok (a, s') -> s' = s.
Proof. unfold go_lift. destruct o; try discriminate. intros [= _ <-]. reflexivity. Qed.

Lemma c12_variant_types_Forall' (P : rtype -> Prop) vs :
  Forall P (flat_map c12_variant_types vs) -> Forall (fun v => Forall P (c12_variant_types v)) vs.
Proof.
  induction vs as [|v vs IH]; cbn [flat_map]; [constructor|].
  intros H. apply Forall_app in H as [H1 H2]. constructor; auto.
Qed.

Lemma c12_go_decl_flag cs it :
  c12_go_item_ok it ->
  forall s ds s', go_decl_of uc cfg cs it s = Ok (ds, s') -> c12_gle s s' /\ c12_go_Qds ds s'.
Proof.
  intros Hid s ds s' H. destruct it as [rs|e|a|c]; cbn [go_decl_of] in H.
  - apply mbind_ok in H as (d & s1 & E & H). c12_go_ret H.
    apply c12_go_struct_flag in E as [L Q]; [split; [exact L|constructor; [exact Q|constructor]]|].
    unfold c12_go_item_ok in Hid. cbn [c12_item_types] in Hid. rewrite Forall_map in Hid. exact Hid.
  - unfold go_enum_decls_of in H. apply mbind_ok in H as (anon & s1 & Ea & H).
    unfold c12_go_item_ok in Hid. cbn [c12_item_types] in Hid. apply c12_variant_types_Forall' in Hid.
    assert (LA : c12_gle s s1 /\ c12_go_Qds anon s1).
    { unfold go_anonymous_struct_decls in Ea. apply mbind_ok in Ea as (dss & s2 & Edss & Ea). c12_go_ret Ea.
      apply (c12_mmapM_mono c12_gle c12_gle_refl c12_gle_trans _ c12_go_Qds) in Edss as [L Q].
      - split; [exact L|]. unfold c12_go_Qds. apply Forall_forall. intros d Hd. apply in_concat in Hd as (l & Hl & Hd).
        rewrite Forall_forall in Q. specialize (Q l Hl). unfold c12_go_Qds in Q. rewrite Forall_forall in Q. auto.
      - exact c12_go_Qds_up.
      - eapply Forall_impl; [|exact Hid]. cbn. intros v Hv s0 y s0' E0.
        destruct v as [vsh|t vsh|fs vsh]; try (c12_go_ret E0; split; [apply c12_gle_refl|constructor]).
        apply mbind_ok in E0 as (nm & s3 & En & E0). unfold go_make_anonymous_struct_name in En. apply c12_go_acr in En as ->.
        apply mbind_ok in E0 as (d & s4 & Ed & E0). c12_go_ret E0.
        apply c12_go_struct_flag in Ed as [L Q]; [split; [exact L|constructor; [exact Q|constructor]]|].
        cbn [anon_struct sfields]. cbn [c12_variant_types] in Hv. rewrite Forall_map in Hv. exact Hv. }
    destruct LA as [L1 Q1].
    destruct e as [sh|tag content sh]; cbn [enum_shared] in *.
    + apply mbind_ok in H as (en & s2 & En & H). apply c12_go_acr in En as ->.
      apply mbind_ok in H as (vs & s3 & Evs & H). c12_go_ret H.
      assert (L2 : c12_gle s1 s3).
      { eapply (c12_mmapM_le c12_gle c12_gle_refl c12_gle_trans); [|exact Evs]. apply Forall_forall. intros v _ s0 y s0' E0.
        unfold go_unit_variant_of in E0. destruct v; try discriminate E0.
        apply mbind_ok in E0 as (a1 & t1 & E1 & E0). apply c12_go_acr in E1 as ->.
        apply mbind_ok in E0 as (a2 & t2 & E2 & E0). apply c12_go_acr in E2 as ->. c12_go_ret E0. apply c12_gle_refl. }
      split; [eapply c12_gle_trans; eauto|]. unfold c12_go_Qds. apply Forall_app. split.
      * exact (c12_go_Qds_up _ _ _ Q1 L2).
      * constructor; [|constructor]. intros u [].
    + apply mbind_ok in H as (sn & s2 & E2 & H). apply c12_go_acr in E2 as ->.
      apply mbind_ok in H as (cf & s3 & E3 & H). apply c12_go_lift_state in E3 as ->.
      apply mbind_ok in H as (tf & s4 & E4 & H). apply c12_go_field_name in E4 as ->.
      apply mbind_ok in H as (ssn & s5 & E5 & H).
      assert (s5 = s1) as ->.
      { c12_go_ret E5. reflexivity. }
      apply mbind_ok in H as (ta & s6 & E6 & H). apply c12_go_acr in E6 as ->.
      apply mbind_ok in H as (vs & s7 & Evs & H). c12_go_ret H.
      apply (c12_mmapM_mono c12_gle c12_gle_refl c12_gle_trans _ c12_go_Qv) in Evs as [L2 Q2].
      * split; [eapply c12_gle_trans; eauto|]. unfold c12_go_Qds. apply Forall_app. split.
        -- exact (c12_go_Qds_up _ _ _ Q1 L2).
        -- constructor; [|constructor]. intros u Hu. cbn [c12_go_decl_uses gt_variants] in Hu.
           destruct Hu as [<-|Hu]; [now left|]. right. apply in_flat_map in Hu as (v & Hv & Hu).
           rewrite Forall_forall in Q2. specialize (Q2 v Hv). unfold c12_go_Qv in Q2.
           destruct (gv_content v); try contradiction. exact (Q2 u Hu).
      * intros y a b Qy Lab. unfold c12_go_Qv in *. destruct (gv_content y); auto. eapply c12_go_Qt_up; eauto.
      * eapply Forall_impl; [|exact Hid]. cbn. intros v Hv s0 y s0' E0. exact (c12_go_variant_flag _ _ _ _ _ Hv _ _ _ E0).
  - apply mbind_ok in H as (name & s1 & En & H). apply c12_go_acr in En as ->.
    apply mbind_ok in H as (ty & s2 & Ety & H). c12_go_ret H.
    unfold c12_go_item_ok in Hid. cbn [c12_item_types] in Hid. apply Forall_cons_iff in Hid as [[Ht _] _].
    destruct (c12_go_texp_flag _ _ Ht _ _ _ Ety) as [L Q]. split; [exact L|].
    constructor; [|constructor]. intros u Hu. right. exact (Q u Hu).
  - apply mbind_ok in H as (ty & s1 & Ety & H). c12_go_ret H.
    unfold c12_go_item_ok in Hid. cbn [c12_item_types] in Hid. apply Forall_cons_iff in Hid as [[Ht _] _].
    destruct (c12_go_texp_flag _ _ Ht _ _ _ Ety) as [L Q]. split; [exact L|].
    constructor; [|constructor]. intros u Hu. right. exact (Q u Hu).
Qed.

Lemma c12_forallb_perm {A} (p : A -> bool) a b : Permutation a b -> forallb p b = true -> forallb p a = true.
Proof. rewrite !forallb_forall. intros P H x Hx. apply H. eapply Permutation_in; eauto. Qed.

Theorem c12_go_file pd ds imports :
  go_decls uc cfg pd = Ok (ds, imports) -> Forall c12_go_item_ok (items_of pd) ->
  c12_good (c12_go_uses ds) (c12_go_defs imports) = true.
Proof.
  unfold go_decls. intros H Hdom. apply c12_bind_ok in H as (items & Et & H).
  apply c12_topsort_perm in Et.
  assert (Hdom' : Forall c12_go_item_ok items) .
  { apply Forall_forall. intros it Hit. rewrite Forall_forall in Hdom. apply Hdom. eapply Permutation_in; [exact Et|exact Hit]. }
  apply mbind_ok in H as (hd & s1 & Eh & H). apply mbind_ok in H as (dss & s2 & Edss & H). c12_go_ret H.
  assert (Hjson : In (lit "encoding/json") s1).
  { unfold go_begin_file in Eh. apply mbind_ok in Eh as (u0 & s3 & Ei & Eh). c12_go_ret Eh.
    unfold go_add_import in Ei. apply mbind_ok in Ei as (st & s4 & Eg & Ei). unfold mget in Eg. injection Eg as <- <-.
    unfold mput in Ei. injection Ei as _ <-. apply c12_sset_insert_in. now left. }
  apply (c12_mmapM_mono c12_gle c12_gle_refl c12_gle_trans _ c12_go_Qds) in Edss as [L Q].
  - apply c12_good_spec. intros u Hu. unfold c12_go_uses in Hu. apply in_flat_map in Hu as (d & Hd & Hu).
    apply in_concat in Hd as (l & Hl & Hd). rewrite Forall_forall in Q. specialize (Q l Hl).
    unfold c12_go_Qds in Q. rewrite Forall_forall in Q. specialize (Q d Hd u Hu).
    assert (Hp : In (c12_go_path u) s2).
    { destruct Q as [->|Q]; [apply L; exact Hjson|exact Q]. }
    assert (Hv : u = lit "time" \/ u = lit "json").
    { clear -Hu. assert (T : forall t, In u (c12_go_ty_uses t) -> u = lit "time" \/ u = lit "json").
      { induction t as [n args IH|e IH|n e IH|k v IHk IHv|e IH|x] using c12_go_ty_ind; cbn [c12_go_ty_uses]; auto.
        - rewrite in_app_iff. intros [H|H].
          + unfold c12_go_pkg_of in H. destruct (c12_before c12_ch_dot n); [|destruct H].
            destruct (mem_str s c12_go_vocab) eqn:E; [|destruct H]. destruct H as [<-|[]].
            apply c12_mem_str_In in E. destruct E as [<-|[<-|[]]]; auto.
          + apply in_flat_map in H as (y & Hy & H). rewrite Forall_forall in IH. eauto.
        - rewrite in_app_iff. intros [H|H]; auto.
        - intros []. }
      destruct d as [? ? ? ms|? ? ty|? ty ?|? ? ?|e]; cbn [c12_go_decl_uses] in Hu.
      - apply in_flat_map in Hu as (m & _ & Hu). eauto.
      - eauto.
      - eauto.
      - destruct Hu.
      - destruct Hu as [<-|Hu]; [auto|]. apply in_flat_map in Hu as (v & _ & Hu). destruct (gv_content v); try contradiction. eauto. }
    unfold c12_go_defs. destruct Hv as [-> | ->].
    + apply in_map_iff. exists (lit "time"). split; [reflexivity|exact Hp].
    + apply in_map_iff. exists (lit "encoding/json"). split; [reflexivity|exact Hp].
  - exact c12_go_Qds_up.
  - eapply Forall_impl; [|exact Hdom']. cbn. intros it Hit. apply c12_go_decl_flag. exact Hit.
Qed.
End GO.

(* the `no vocabulary package prefix` part of the domain, with any extra condition on the types *)
Lemma c12_go_ids_item_ok (rt_ok : rtype -> Prop) items :
  forallb (fun id => match c12_before c12_ch_dot id with Some p => negb (mem_str p c12_go_vocab) | None => true end)
          (flat_map c12_item_ids items) = true ->
  (forall it t, In it items -> In t (c12_item_types it) -> rt_ok t) ->
  Forall (c12_go_item_ok rt_ok) items.
Proof.
  intros H Hrt. rewrite forallb_forall in H.
  apply Forall_forall. intros it Hit. unfold c12_go_item_ok. apply Forall_forall. intros t Ht.
  split; [|exact (Hrt it t Hit Ht)]. apply Forall_forall. intros id Hid.
  assert (Hin : In id (flat_map c12_item_ids items)).
  { apply in_flat_map. exists it. split; [exact Hit|]. unfold c12_item_ids. apply in_flat_map. eauto. }
  specialize (H id Hin). unfold c12_go_id_ok, c12_go_pkg_of.
  destruct (c12_before c12_ch_dot id); [|reflexivity]. apply negb_true_iff in H. rewrite H. reflexivity.
Qed.

(* ======================================================================== instance 1: no acronyms *)
Section NOACR.
Variable uc : unicode.
Variable cfg : go_config.
Hypothesis no_acronyms : go_uppercase_acronyms cfg = [].

Lemma c12_go_convert_id name : go_convert_acronyms_to_uppercase uc (go_uppercase_acronyms cfg) name = Ok name.
Proof. rewrite no_acronyms. reflexivity. Qed.

Lemma c12_go_ty_acronyms_id t : go_ty_acronyms uc cfg t = Ok t.
Proof.
  induction t as [n args IH|e IH|n e IH|k v IHk IHv|e IH|x] using c12_go_ty_ind; cbn [go_ty_acronyms];
    rewrite ?c12_go_convert_id; cbn [bind]; rewrite ?IH, ?IHk, ?IHv; cbn [bind]; try reflexivity.
  rewrite c12_go_is_mapM.
  assert (E : mapM (go_ty_acronyms uc cfg) args = Ok args).
  { induction IH as [|a l Ha Hl IHl]; cbn [mapM]; [reflexivity|]. rewrite Ha. cbn [bind]. rewrite IHl. reflexivity. }
  rewrite E. reflexivity.
Qed.

Lemma c12_go_acronyms_ty_id t s r s' : go_acronyms_ty uc cfg t s = Ok (r, s') -> r = t.
Proof.
  unfold go_acronyms_ty, mbind, go_acronyms_to_uppercase, go_lift. rewrite c12_go_convert_id. unfold ret.
  rewrite c12_go_ty_acronyms_id, str_eqb_refl. now intros [= <- _].
Qed.
End NOACR.

Theorem c12_go uc cfg pd uses defs :
  c12_go_observe uc cfg pd = Ok (uses, defs) -> c12_go_dom cfg (items_of pd) = true -> c12_good uses defs = true.
Proof.
  unfold c12_go_observe. intros H Hdom. apply c12_bind_ok in H as ([ds imports] & E & H). injection H as <- <-.
  cbn [fst snd]. unfold c12_go_dom in Hdom. apply andb_true_iff in Hdom as [A B].
  assert (Hno : go_uppercase_acronyms cfg = []) by (destruct (go_uppercase_acronyms cfg); [reflexivity|discriminate A]).
  apply (c12_go_file uc cfg (fun _ => True)) with (pd := pd); [|exact E|].
  - intros gs t s x s1 _ _ s2 r s3 Er. rewrite (c12_go_acronyms_ty_id uc cfg Hno _ _ _ _ Er). apply incl_refl.
  - apply c12_go_ids_item_ok; [exact B|auto].
Qed.

(* ======================================================================== instance 2: alphanumeric acronyms, ASCII names *)
(* the package prefix of a name whose letters were (partly) upper-cased: `.` is kept and never created, and a
   prefix that reads `time` / `json` afterwards (all lowercase) was not touched *)
Lemma c12_before_apply cov k n :
  c12_before c12_ch_dot (ga_apply cov k n) =
  match c12_before c12_ch_dot n with Some p => Some (ga_apply cov k p) | None => None end.
Proof.
  revert k. induction n as [|x r IH]; intros k; cbn [ga_apply c12_before]; [reflexivity|].
  set (x' := if cov k then aupper x else x).
  assert (E : N.eqb x' c12_ch_dot = N.eqb x c12_ch_dot).
  { subst x'. destruct (cov k); [|reflexivity]. unfold aupper, is_alower, c12_ch_dot. destruct ((97 <=? x)%N && (x <=? 122)%N) eqn:El; [lia|reflexivity]. }
  rewrite E. destruct (N.eqb x c12_ch_dot); [reflexivity|]. rewrite IH. destruct (c12_before c12_ch_dot r); reflexivity.
Qed.

Lemma c12_apply_lower cov k p : Forall (fun c => is_alower c = true) (ga_apply cov k p) -> ga_apply cov k p = p.
Proof.
  revert k. induction p as [|c r IH]; intros k H; cbn [ga_apply] in *; [reflexivity|].
  inversion H as [|? ? Hc Hr]; subst. rewrite (IH _ Hr). destruct (cov k); [|reflexivity].
  rewrite ga_aupper_not_lower in Hc. discriminate.
Qed.

Lemma c12_pkg_of_apply cov n : incl (c12_go_pkg_of (ga_apply cov 0 n)) (c12_go_pkg_of n).
Proof.
  unfold c12_go_pkg_of. rewrite c12_before_apply. destruct (c12_before c12_ch_dot n) as [p|]; [|apply incl_refl].
  destruct (mem_str (ga_apply cov 0 p) c12_go_vocab) eqn:E; [|intros u []].
  assert (Ep : ga_apply cov 0 p = p).
  { apply c12_apply_lower. apply c12_mem_str_In in E. destruct E as [<-|[<-|[]]]; repeat constructor. }
  rewrite Ep in *. rewrite E. apply incl_refl.
Qed.

Lemma c12_uses_map cfg t : incl (c12_go_ty_uses (ga_ty_map (ga_T cfg) t)) (c12_go_ty_uses t).
Proof.
  induction t as [n args IH|e IH|n e IH|k v IHk IHv|e IH|x] using c12_go_ty_ind; cbn [ga_ty_map c12_go_ty_uses]; auto using incl_refl.
  - apply incl_app; [apply incl_appl; apply c12_pkg_of_apply|apply incl_appr].
    intros u Hu. apply in_flat_map in Hu as (y & Hy & Hu). apply in_map_iff in Hy as (a & <- & Ha).
    rewrite Forall_forall in IH. apply in_flat_map. exists a. split; [exact Ha|exact (IH a Ha u Hu)].
  - apply incl_app; [apply incl_appl; exact IHk|apply incl_appr; exact IHv].
Qed.

Lemma c12_ga_rtype_ids t : ga_rtype_ids t = c12_rtype_ids t.
Proof.
  induction t as [id|id ps IH|t IH|t n IH|t IH|k v IHk IHv|t IH|p] using rtype_ind'; cbn [ga_rtype_ids c12_rtype_ids]; try congruence. all: reflexivity.
Qed.

Theorem c12_go_acronyms : forall uc, unicode_ok uc -> forall cfg pd uses defs,
  c12_go_observe uc cfg pd = Ok (uses, defs) -> c12_go_dom_acr cfg (items_of pd) = true -> c12_good uses defs = true.
Proof.
  intros uc Huc cfg pd uses defs H Hdom.
  unfold c12_go_observe in H. apply c12_bind_ok in H as ([ds imports] & E & H). injection H as <- <-.
  cbn [fst snd]. unfold c12_go_dom_acr in Hdom. apply andb_true_iff in Hdom as [Hdom Hvoc].
  apply andb_true_iff in Hdom as [Hdom Hids]. apply andb_true_iff in Hdom as [Hacr Hmap].
  change (forallb (forallb ga_alnum) (go_uppercase_acronyms cfg) = true) in Hacr.
  apply (c12_go_file uc cfg (fun t => forallb (forallb is_ascii) (c12_rtype_ids t) = true)) with (pd := pd); [|exact E|].
  - intros gs t s x s1 Ht Ex s2 r s3 Er. rewrite <- c12_ga_rtype_ids in Ht.
    pose proof (ga_texp_ascii cfg gs t Hmap Ht s x s1 Ex) as Hx.
    rewrite (ga_acronyms_ty uc Huc cfg Hacr x s2 Hx) in Er. injection Er as <- _. apply c12_uses_map.
  - apply c12_go_ids_item_ok; [exact Hvoc|]. intros it t Hit Ht. rewrite forallb_forall in Hids |- *.
    intros id Hid. apply Hids. apply in_flat_map. exists it. split; [exact Hit|]. unfold c12_item_ids. apply in_flat_map. eauto.
Qed.

(* non-vacuity: acronym ID rewrites the type name UserId (to UserID) next to a time.Time field *)
Definition c12_go_acr_cfg : go_config :=
  {| go_package := lit "p"; go_type_mappings := []; go_uppercase_acronyms := [lit "ID"]; go_no_version_header := true;
     go_no_pointer_slice := false; go_version := [] |}.
Definition c12_go_acr_id (s : str) : id := {| original := s; renamed := s; via_serde_rename := false |}.
Definition c12_go_acr_pd : parsed :=
  {| p_structs := [{| sid := c12_go_acr_id (lit "S"); sgenerics := [];
                      sfields := [{| fid := c12_go_acr_id (lit "owner"); fty := ROption (RSimple (lit "UserId")); fcomments := [];
                                     has_default := false; fdecs := [] |};
                                  {| fid := c12_go_acr_id (lit "at"); fty := RVec (RPrim PDateTime); fcomments := [];
                                     has_default := false; fdecs := [] |}];
                      scomments := []; sdecs := []; sredacted := false |}];
     p_enums := []; p_aliases := []; p_consts := []; p_type_names := []; p_errors := []; p_imports := [] |}.
Theorem c12_go_acronyms_nonvacuous :
  c12_go_dom_acr c12_go_acr_cfg (items_of c12_go_acr_pd) = true /\
  c12_go_observe uc_exec c12_go_acr_cfg c12_go_acr_pd = Ok ([lit "time"], [lit "json"; lit "time"]).
Proof. vm_compute. split; reflexivity. Qed.
