(* C03 for Go: one definition per item, one <Enum><Variant>Inner struct per struct variant and the key type
   of a data-carrying enum, each listing exactly the IR's members / variants in order. *)
From Coq Require Import String List Bool Arith Lia Permutation.
From TS Require Import Model.Str Model.Outcome Model.Unicode Model.Types Model.Parse Model.TopsortAlgo Model.Topsort
                       Model.Lang.Common Model.Lang.Decl Model.Lang.Go.
From TS Require Import Spec.C03Spec.
From TS Require Import Proofs.BackCommon Proofs.C03Back.
Import ListNotations.

Section GO.
Variable uc : unicode.
Variable cfg : go_config.

Lemma go_member_key gs f st m st' : go_member_of uc cfg gs f st = Ok (m, st') -> mb_key (go_obs_member m) = renamed (fid f).
Proof.
  unfold go_member_of. intros H.
  apply mbind_ok in H as (tn & s1 & _ & H). apply mbind_ok in H as (gt & s2 & _ & H). apply mbind_ok in H as (fname & s3 & _ & H).
  unfold ret in H. injection H as <- _. reflexivity.
Qed.

Lemma go_struct_sig rs st d st' : go_struct_decl_of uc cfg rs st = Ok (d, st') ->
  map c03_sig_of (go_obs d) = [c03_x_struct (c03_keys_of (sfields rs))].
Proof.
  unfold go_struct_decl_of. intros H.
  apply mbind_ok in H as (name & s1 & _ & H). apply mbind_ok in H as (ms & s2 & Hm & H).
  unfold ret in H. injection H as <- _. cbn [go_obs map]. f_equal.
  apply sig_of_struct; [reflexivity|]. cbn [d_members]. apply member_keys_Forall2.
  eapply mmapM_Forall2; [|exact Hm]. intros f s0 m s0' Hf. now rewrite (go_member_key _ _ _ _ _ Hf).
Qed.

Lemma go_anon_sigs sh st ds st' : go_anonymous_struct_decls uc cfg sh st = Ok (ds, st') ->
  map c03_sig_of (flat_map go_obs ds) = map c03_x_struct (c03_anon_keys (evariants sh)).
Proof.
  unfold go_anonymous_struct_decls. intros H. apply mbind_ok in H as (dss & s1 & Hm & H).
  unfold ret in H. injection H as <- _. clear st'.
  revert st dss s1 Hm. generalize (evariants sh) as vs.
  induction vs as [|v vs IH]; intros st dss s1 Hm; cbn [mmapM] in Hm.
  - unfold ret in Hm. injection Hm as <- _. reflexivity.
  - apply mbind_ok in Hm as (d1 & t1 & Hd & Hm). apply mbind_ok in Hm as (rest & t2 & Hr & Hm).
    unfold ret in Hm. injection Hm as <- _. cbn [List.concat]. rewrite flat_map_app, map_app, (IH _ _ _ Hr).
    destruct v as [vsh|t vsh|fs vsh].
    + unfold ret in Hd. injection Hd as <- _. reflexivity.
    + unfold ret in Hd. injection Hd as <- _. reflexivity.
    + apply mbind_ok in Hd as (sn & t3 & _ & Hd). apply mbind_ok in Hd as (d & t4 & Hs & Hd).
      unfold ret in Hd. injection Hd as <- _. cbn [flat_map c03_anon_keys app map]. rewrite app_nil_r, (go_struct_sig _ _ _ _ Hs).
      reflexivity.
Qed.

Lemma go_variant_rel sh cs sn tk v st gv st' : go_variant_of uc cfg sh cs sn tk v st = Ok (gv, st') -> vrel Go v (go_obs_variant gv).
Proof.
  unfold go_variant_of. intros H.
  apply mbind_ok in H as (vn & s1 & _ & H). apply mbind_ok in H as (vt & s2 & Hvt & H).
  apply mbind_ok in H as (tp & s3 & _ & H). apply mbind_ok in H as (content & s4 & Hc & H).
  unfold ret in H. injection H as <- _.
  unfold vrel. cbn [go_obs_variant vd_wire gv_wire]. split; [reflexivity|].
  unfold c03_inline_keys, c03_payload_ok. cbn [go_obs_variant vd_payload gv_content c03_inlines].
  destruct v as [vsh|t vsh|fs vsh].
  - unfold ret in Hvt. injection Hvt as <- _. unfold ret in Hc. injection Hc as <- _. split; reflexivity.
  - apply mbind_ok in Hvt as (x & t1 & _ & Hvt). unfold ret in Hvt. injection Hvt as <- _.
    apply mbind_ok in Hc as (fvt & t2 & _ & Hc). unfold ret in Hc. injection Hc as <- _. split; reflexivity.
  - apply mbind_ok in Hvt as (x & t1 & _ & Hvt). unfold ret in Hvt. injection Hvt as <- _.
    apply mbind_ok in Hc as (fvt & t2 & _ & Hc). unfold ret in Hc. injection Hc as <- _. split; reflexivity.
Qed.

Theorem go_item cs it st ds st' : go_decl_of uc cfg cs it st = Ok (ds, st') ->
  map c03_sig_of (flat_map go_obs ds) = c03_expected_sigs Go it /\ c03_payloads_ok Go it (flat_map go_obs ds) = true.
Proof.
  destruct it as [s|e|a|c]; cbn [go_decl_of]; intros H.
  - apply mbind_ok in H as (d & s1 & Hd & H). unfold ret in H. injection H as <- _.
    split; [|reflexivity]. cbn [flat_map c03_expected_sigs]. now rewrite app_nil_r, (go_struct_sig _ _ _ _ Hd).
  - unfold go_enum_decls_of in H. apply mbind_ok in H as (anon & s1 & Ha & H). pose proof (go_anon_sigs _ _ _ _ Ha) as Hin.
    destruct e as [sh|tag content sh]; cbn [enum_shared] in *.
    + apply mbind_ok in H as (en & s2 & _ & H). apply mbind_ok in H as (vs & s3 & Hv & H). unfold ret in H. injection H as <- _.
      rewrite flat_map_app. cbn [flat_map go_obs]. rewrite app_nil_r.
      apply (enum_item Go (EUnit sh) (flat_map go_obs anon)); [reflexivity|rewrite app_nil_r; exact Hin| |reflexivity].
      cbn [d_variants enum_shared]. apply Forall2_map_r'. eapply mmapM_Forall2; [|exact Hv].
      intros v s0 [[vdocs cn] wire] s0' Hgv. unfold go_unit_variant_of in Hgv. destruct v; try discriminate.
      apply mbind_ok in Hgv as (en' & t1 & _ & Hgv). apply mbind_ok in Hgv as (vn & t2 & _ & Hgv).
      unfold ret in Hgv. injection Hgv as <- <- <- _. repeat split.
    + apply mbind_ok in H as (sn & s2 & _ & H). apply mbind_ok in H as (cf & s3 & _ & H). apply mbind_ok in H as (tf & s4 & _ & H).
      apply mbind_ok in H as (short & s5 & _ & H). apply mbind_ok in H as (ta & s6 & _ & H). apply mbind_ok in H as (vs & s7 & Hv & H).
      unfold ret in H. injection H as <- _.
      rewrite flat_map_app. cbn [flat_map go_obs]. rewrite app_nil_r.
      match goal with |- context [flat_map go_obs anon ++ [?h; ?en]] =>
        change (flat_map go_obs anon ++ [h; en]) with (flat_map go_obs anon ++ [h] ++ [en]); rewrite app_assoc;
        apply (enum_item Go (EAlgebraic tag content sh) (flat_map go_obs anon ++ [h]) en); [reflexivity| | |reflexivity]
      end.
      * rewrite map_app, Hin. reflexivity.
      * cbn [d_variants enum_shared gt_variants]. apply Forall2_map_r'. eapply mmapM_Forall2; [|exact Hv].
        intros v s0 gv s0' Hgv. exact (go_variant_rel _ _ _ _ _ _ _ _ Hgv).
  - apply mbind_ok in H as (name & s1 & _ & H). apply mbind_ok in H as (ty & s2 & _ & H). unfold ret in H. injection H as <- _.
    split; reflexivity.
  - apply mbind_ok in H as (ty & s1 & _ & H). unfold ret in H. injection H as <- _. split; reflexivity.
Qed.

Theorem go_item_good cs it st ds st' : go_decl_of uc cfg cs it st = Ok (ds, st') ->
  good_C03_item Go it (flat_map go_obs ds) = true.
Proof. intros H. destruct (go_item cs it st ds st' H). now apply item_good. Qed.

Theorem go_file pd fd : go_file_decls uc cfg pd = Ok fd -> good_C03_file Go pd fd = true.
Proof.
  unfold go_file_decls, go_decls. intros H.
  destruct (topsort (items_of pd)) as [items| |] eqn:Et; cbn [bind] in H; try discriminate.
  match type of H with context [?run []] => destruct (run []) as [[ds imports]| |] eqn:Er end; cbn [bind] in H; try discriminate.
  injection H as <-. unfold good_C03_file. cbn [fd_decls].
  apply mbind_ok in Er as (hd & s1 & _ & Er). apply mbind_ok in Er as (dss & s2 & Em & Er). unfold ret in Er. injection Er as <- _.
  pose proof (topsort_perm _ _ Et) as P.
  pose proof (file_good_decls Go pd items (map (flat_map go_obs) dss) [] [] P) as G.
  cbn [app] in G. rewrite app_nil_r, <- flat_map_concat' in G. apply G; [|reflexivity|reflexivity].
  apply Forall2_map_r'. eapply mmapM_Forall2; [|exact Em].
  intros it s ds s' Hd. exact (proj1 (go_item _ it s ds s' Hd)).
Qed.
End GO.
