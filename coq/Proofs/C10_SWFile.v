(* C10 for Swift, from the IR to the whole file: decorators / generic constraints (split and trimmed pieces of
   neutral tokens stay neutral tokens), trimmed doc lines, keyword-aware names, the helper structs of struct variants,
   the CodableVoid trailer. *)
From Coq Require Import List Bool Lia ZifyBool ZifyN NArith Permutation.
From TS Require Import Model.Str Model.Outcome Model.Unicode Model.Types Model.Parse Model.Rename Model.TopsortAlgo Model.Topsort
                       Model.Lang.Common Model.Lang.Decl Model.Lang.Swift.
From TS Require Import Spec.C10Spec Proofs.BackCommon Proofs.C10Lex Proofs.C10_TSFile Proofs.C10Common Proofs.C10Monad Proofs.C10_SW.
Import ListNotations.
Local Open Scope N_scope.
Local Notation length := List.length (only parsing).

(* ------------------------------------------------------------------ pieces of strings *)
Lemma forallb_rev {A} (p : A -> bool) l : forallb p (rev l) = forallb p l.
Proof.
  induction l as [|x r IH]; [reflexivity|]. cbn [rev forallb]. rewrite forallb_app, IH. cbn [forallb]. rewrite andb_true_r. apply andb_comm.
Qed.
Lemma trim_start_all uc (p : char -> bool) s : forallb p s = true -> forallb p (trim_start uc s) = true.
Proof.
  induction s as [|c r IH]; [reflexivity|]. cbn [trim_start]. intros H. destruct (u_is_ws uc c); [|exact H].
  cbn [forallb] in H. apply andb_true_iff in H as [_ Hr]. exact (IH Hr).
Qed.
Lemma trim_all uc (p : char -> bool) s : forallb p s = true -> forallb p (trim uc s) = true.
Proof. intros H. unfold trim. rewrite forallb_rev. apply trim_start_all. rewrite forallb_rev. apply trim_start_all, H. Qed.
Lemma split_on_all (p : char -> bool) c s : forall cur, forallb p s = true -> forallb p cur = true ->
  Forall (fun w => forallb p w = true) (split_on c s cur).
Proof.
  induction s as [|x r IH]; intros cur Hs Hc; cbn [split_on].
  - constructor; [rewrite forallb_rev; exact Hc|constructor].
  - cbn [forallb] in Hs. apply andb_true_iff in Hs as [Hx Hr]. destruct (x =? c).
    + constructor; [rewrite forallb_rev; exact Hc|]. apply IH; [exact Hr|reflexivity].
    + apply IH; [exact Hr|]. cbn [forallb]. rewrite Hx, Hc. reflexivity.
Qed.
Lemma sset_of_all (P : str -> bool) l : forallb P l = true -> forallb P (sw_sset_of l) = true.
Proof.
  unfold sw_sset_of. assert (G : forall acc, forallb P acc = true -> forallb P l = true -> forallb P (fold_left (fun acc x => sset_insert x acc) l acc) = true).
  { induction l as [|x r IH]; intros acc Ha Hl; cbn [fold_left]; [exact Ha|]. cbn [forallb] in Hl. apply andb_true_iff in Hl as [Hx Hr].
    apply IH; [|exact Hr]. clear IH. induction acc as [|y t IHt]; cbn [sset_insert forallb]; [rewrite Hx; reflexivity|].
    cbn [forallb] in Ha. apply andb_true_iff in Ha as [Hy Ht]. destruct (str_eqb x y); [cbn [forallb]; rewrite Hy, Ht; reflexivity|].
    destruct (str_ltb x y); cbn [forallb]; [rewrite Hx, Hy, Ht; reflexivity|]. rewrite Hy, (IHt Ht). reflexivity. }
  intros H. apply G; [reflexivity|exact H].
Qed.
Lemma tok_raw cfg s : c10_tok_ok s = true -> c10_raw_ok cfg s = true.
Proof. intros H. apply bal_balanced, tok_bal, H. Qed.
Lemma toks_raw cfg l : forallb c10_tok_ok l = true -> forallb (c10_raw_ok cfg) l = true.
Proof. apply forallb_impl. apply tok_raw. Qed.
Lemma line_ok_trim_end uc s : c10_line_ok s = true -> c10_line_ok (sw_trim_end uc s) = true.
Proof. unfold c10_line_ok, sw_trim_end. intros H. rewrite forallb_rev. apply trim_start_all. rewrite forallb_rev. exact H. Qed.

Lemma keyword_intick x : sw_is_keyword x = true -> c10_intick_ok x = true.
Proof.
  unfold sw_is_keyword, mem_str. rewrite existsb_exists. intros (y & Hy & E). apply str_eqb_eq in E. subst y.
  assert (Hall : forallb c10_intick_ok SWIFT_KEYWORDS = true) by (vm_compute; reflexivity).
  rewrite forallb_forall in Hall. exact (Hall x Hy).
Qed.

Definition c10_sw_cfg_ok (cfg : sw_config) : bool :=
  forallb (fun kv => c10_raw_ok c10_lex_sw (snd kv)) (sw_type_mappings cfg) && c10_dotted_ok (sw_version cfg) &&
  forallb c10_ident_char (sw_prefix cfg) && forallb (c10_raw_ok c10_lex_sw) (sw_default_decorators cfg) &&
  forallb c10_tok_ok (sw_default_generic_constraints cfg) && forallb (c10_raw_ok c10_lex_sw) (sw_codablevoid_constraints cfg).

Section SWDecide.
Variable uc : unicode.
Variable cfg : sw_config.
Hypothesis Hcfg : c10_sw_cfg_ok cfg = true.
Notation spost := (post (fun _ : sw_state => True)).

Lemma sw_cfg_parts : forallb (fun kv => c10_raw_ok c10_lex_sw (snd kv)) (sw_type_mappings cfg) = true /\ c10_dotted_ok (sw_version cfg) = true /\
  forallb c10_ident_char (sw_prefix cfg) = true /\ forallb (c10_raw_ok c10_lex_sw) (sw_default_decorators cfg) = true /\
  forallb c10_tok_ok (sw_default_generic_constraints cfg) = true /\ forallb (c10_raw_ok c10_lex_sw) (sw_codablevoid_constraints cfg) = true.
Proof. unfold c10_sw_cfg_ok in Hcfg. rewrite !andb_true_iff in Hcfg. tauto. Qed.

Lemma sw_prefixed_key s : keychars s = true -> keychars (sw_prefix cfg ++ s) = true.
Proof.
  intros H. destruct sw_cfg_parts as (_ & _ & Hp & _). unfold keychars in *. rewrite forallb_app, H, andb_true_r.
  revert Hp. apply forallb_impl. intros c. unfold c10_ident_char, c10_key_char. lia.
Qed.
Lemma ident_keychars s : c10_ident_ok s = true -> keychars s = true.
Proof. intros H. apply ident_ok_chars in H. revert H. apply forallb_impl. intros c. unfold c10_ident_char, c10_key_char. lia. Qed.
Lemma key_keychars s : c10_key_ok s = true -> keychars s = true.
Proof. destruct s; [discriminate|]. unfold c10_key_ok, keychars. auto. Qed.

Lemma sw_get_constraints_tok : forallb c10_tok_ok (sw_get_constraints uc cfg) = true.
Proof.
  destruct sw_cfg_parts as (_ & _ & _ & _ & Hgc & _). unfold sw_get_constraints, sw_from_config. apply sset_of_all. cbn [forallb].
  apply andb_true_iff. split; [reflexivity|]. induction (sw_default_generic_constraints cfg) as [|c r IH]; [reflexivity|].
  cbn [forallb flat_map] in *. apply andb_true_iff in Hgc as [Hc Hr]. rewrite forallb_app, (IH Hr), andb_true_r.
  unfold sw_split_constraints. apply Forall_forallb. apply Forall_map.
  pose proof (split_on_all (fun x => negb (c10_special x)) 38 c [] Hc eq_refl) as Hs. revert Hs. apply Forall_impl. intros w Hw. apply trim_all, Hw.
Qed.

Lemma sw_generic_constraints_ok dm gs : c10_decmap_ok CSW dm = true -> forallb c10_ident_ok gs = true ->
  c10_sw_generics_ok (sw_generic_constraints uc cfg dm gs) = true.
Proof.
  intros Hdm Hg. unfold sw_generic_constraints. cbv zeta.
  set (annotated := match sw_decs_get DKSwiftGenericConstraints dm with None => [] | Some gcs => _ end).
  assert (Ha : forallb (fun kv : str * list str => forallb c10_tok_ok (snd kv)) annotated = true).
  { subst annotated. destruct (sw_decs_get DKSwiftGenericConstraints dm) as [gcs|] eqn:Eg; [|reflexivity].
    assert (Hgcs : forallb c10_tok_ok gcs = true).
    { unfold c10_decmap_ok in Hdm. clear -Hdm Eg. induction dm as [|[a v] r IH]; [discriminate|]. cbn [sw_decs_get] in Eg. cbn [forallb fst snd] in Hdm.
      apply andb_true_iff in Hdm as [H1 H2]. destruct a; cbn [deckind_eqb] in Eg; try exact (IH H2 Eg). injection Eg as <-. exact H1. }
    clear Eg. induction gcs as [|gc r IH]; [reflexivity|]. cbn [forallb flat_map] in *. apply andb_true_iff in Hgcs as [Hgc Hr].
    rewrite forallb_app, (IH Hr), andb_true_r.
    pose proof (split_on_all (fun x => negb (c10_special x)) 58 gc [] Hgc eq_refl) as Hs.
    destruct (split_on 58 gc []) as [|gn [|cs rest]]; try reflexivity. cbn [forallb snd]. rewrite andb_true_r.
    apply sset_of_all. rewrite forallb_app, sw_get_constraints_tok, andb_true_r.
    apply Forall_forallb. apply Forall_map. inversion Hs as [|? ? _ Hs2]; subst. inversion Hs2 as [|? ? Hcs _]; subst.
    pose proof (split_on_all (fun x => negb (c10_special x)) 38 cs [] Hcs eq_refl) as Hp. revert Hp. apply Forall_impl. intros w Hw. apply trim_all, Hw. }
  clearbody annotated. unfold c10_sw_generics_ok. induction gs as [|g r IH]; [reflexivity|].
  cbn [forallb map fst snd] in *. apply andb_true_iff in Hg as [Hg0 Hr]. rewrite (ident_tok _ Hg0), (IH Hr), andb_true_r. cbn [andb].
  apply toks_raw. destruct (sw_assoc_last g annotated) as [cs|] eqn:E; [|exact sw_get_constraints_tok].
  clear -Ha E. induction annotated as [|[a v] t IH]; [discriminate|]. cbn [sw_assoc_last] in E. cbn [forallb snd] in Ha. apply andb_true_iff in Ha as [H1 H2].
  destruct (sw_assoc_last g t) as [w|] eqn:Et; [injection E as <-; exact (IH H2 eq_refl)|].
  destruct (str_eqb a g); [injection E as <-; exact H1|discriminate].
Qed.

Lemma sw_default_decorators_raw : forallb (c10_raw_ok c10_lex_sw) (sw_get_default_decorators cfg) = true.
Proof. destruct sw_cfg_parts as (_ & _ & _ & Hd & _). unfold sw_get_default_decorators. cbn [forallb]. rewrite Hd. reflexivity. Qed.

Lemma decmap_swift_raw dm ds : c10_decmap_ok CSW dm = true -> sw_decs_get DKSwift dm = Some ds -> forallb (c10_raw_ok c10_lex_sw) ds = true.
Proof.
  unfold c10_decmap_ok. induction dm as [|[a v] r IH]; [discriminate|]. cbn [sw_decs_get forallb fst snd]. rewrite andb_true_iff. intros [H1 H2] E.
  destruct a; cbn [deckind_eqb] in E; try exact (IH H2 E). injection E as <-. exact H1.
Qed.
Lemma filter_all {A} (p q : A -> bool) l : forallb p l = true -> forallb p (filter q l) = true.
Proof. intros H. rewrite forallb_forall in *. intros x Hx. apply filter_In in Hx as [Hx _]. exact (H x Hx). Qed.

Lemma sw_Hmap : forallb (fun kv => c10_raw_ok c10_lex_sw (snd kv)) (sw_type_mappings cfg) = true.
Proof. exact (proj1 sw_cfg_parts). Qed.

Lemma sw_simple_texp_ok base gs args : c10_ident_ok base = true -> forallb (c10_texp_ok c10_lex_sw) args = true ->
  c10_texp_ok c10_lex_sw (sw_simple_texp cfg base gs args) = true.
Proof.
  intros Hb Ha. unfold sw_simple_texp. destruct (tmap_get (sw_type_mappings cfg) base) eqn:E; cbn [c10_texp_ok].
  - exact (tmap_get_raw _ _ _ _ sw_Hmap E).
  - rewrite Ha, andb_true_r. destruct (mem_str base gs); [apply ident_tok, Hb|apply keychars_tok, sw_prefixed_key, ident_keychars, Hb].
Qed.

Lemma sw_texp_ok generics t : c10_rtype_ok t = true -> spost (fun x => c10_texp_ok c10_lex_sw x = true) (sw_texp cfg generics t).
Proof.
  induction t as [id | id ps IH | t IH | t n IH | t IH | k v IHk IHv | t IH | p] using rtype_ind';
    intros Hok; cbn [c10_rtype_ok] in Hok; cbn [sw_texp].
  - apply post_ret. apply sw_simple_texp_ok; [exact Hok|reflexivity].
  - apply andb_true_iff in Hok as [Hid Hps]. destruct (tmap_get (sw_type_mappings cfg) id) eqn:E.
    + apply post_ret. exact (tmap_get_raw _ _ _ _ sw_Hmap E).
    + eapply post_bind with (P := fun parts => forallb (c10_texp_ok c10_lex_sw) parts = true).
      * clear E. induction IH as [|a l Ha Hl IHl]; [apply post_ret; reflexivity|].
        cbn [forallb] in Hps. apply andb_true_iff in Hps as [Hpa Hpl].
        eapply post_bind; [exact (Ha Hpa)|]. intros y Py. eapply post_bind; [exact (IHl Hpl)|]. intros ys Pys.
        apply post_ret. cbn [forallb]. rewrite Py, Pys. reflexivity.
      * intros parts Pp. apply post_ret. apply sw_simple_texp_ok; assumption.
  - eapply post_bind; [exact (IH Hok)|]. intros e Pe. apply post_ret. exact Pe.
  - eapply post_bind; [exact (IH Hok)|]. intros e Pe. apply post_ret. exact Pe.
  - eapply post_bind; [exact (IH Hok)|]. intros e Pe. apply post_ret. exact Pe.
  - apply andb_true_iff in Hok as [Hk Hv]. eapply post_bind; [exact (IHk Hk)|]. intros ke Pk. eapply post_bind; [exact (IHv Hv)|]. intros ve Pv.
    apply post_ret. cbn [c10_texp_ok]. rewrite Pk, Pv. reflexivity.
  - eapply post_bind; [exact (IH Hok)|]. intros e Pe. apply post_ret. exact Pe.
  - destruct p; try (apply post_ret; reflexivity); try apply post_fail.
    eapply post_bind with (P := fun _ => True); [intros s y s' H _; auto|]. intros _ _. apply post_ret. reflexivity.
Qed.

Lemma sw_field_texp_ok generics f : c10_field_ok CSW f = true -> spost (fun x => c10_texp_ok c10_lex_sw x = true) (sw_field_texp cfg generics f).
Proof.
  intros Hf. unfold sw_field_texp. destruct (type_override f Swift) as [o|] eqn:Eo.
  - apply post_ret. exact (type_override_raw CSW f o Hf Eo).
  - unfold c10_field_ok in Hf. rewrite !andb_true_iff in Hf. destruct Hf as [[[_ Hrt] _] _]. exact (sw_texp_ok generics (fty f) Hrt).
Qed.

Lemma sw_docs_ok docs : forallb c10_line_ok docs = true -> forallb c10_line_ok (sw_docs uc docs) = true.
Proof. intros H. unfold sw_docs. apply Forall_forallb. apply Forall_map. apply forallb_Forall in H. revert H. apply Forall_impl. intros d. apply line_ok_trim_end. Qed.

Lemma replace_dash_key s : keychars s = true -> keychars (replace_char ch_dash ch_us s) = true.
Proof.
  unfold keychars, replace_char. induction s as [|c r IH]; [reflexivity|]. cbn [map forallb]. rewrite !andb_true_iff. intros [Hc Hr].
  split; [|exact (IH Hr)]. destruct (c =? ch_dash); [reflexivity|exact Hc].
Qed.

Lemma sw_member_ok f ty ity : c10_field_ok CSW f = true -> c10_texp_ok c10_lex_sw ty = true -> c10_texp_ok c10_lex_sw ity = true ->
  c10_sw_member_ok (sw_member_of uc f ty ity) = true.
Proof.
  intros Hf Hty Hity. unfold c10_field_ok in Hf. rewrite !andb_true_iff in Hf. destruct Hf as [[[Hid _] Hdocs] _].
  unfold c10_member_id_ok in Hid. apply andb_true_iff in Hid as [_ Hren].
  unfold c10_sw_member_ok, sw_member_of. cbn [swm_docs swm_name swm_coding_key swm_type swm_init_type].
  rewrite (sw_docs_ok _ (docs_line_ok _ Hdocs)), Hty, Hity. unfold sw_remove_dash_from_identifier. rewrite (replace_dash_key _ (key_keychars _ Hren)). cbn [andb].
  rewrite !andb_true_r. destruct (contains_char ch_dash (renamed (fid f))); [|reflexivity].
  rewrite (key_instr _ Hren), andb_true_r. destruct (renamed (fid f)); [discriminate|reflexivity].
Qed.

Lemma combine_members fs tys itys : forallb (c10_field_ok CSW) fs = true -> Forall (fun x => c10_texp_ok c10_lex_sw x = true) tys ->
  Forall (fun x => c10_texp_ok c10_lex_sw x = true) itys ->
  forallb c10_sw_member_ok (map (fun x => sw_member_of uc (fst x) (fst (snd x)) (snd (snd x))) (combine fs (combine tys itys))) = true.
Proof.
  revert tys itys. induction fs as [|f r IH]; intros tys itys Hf Ht Hi; [reflexivity|]. cbn [forallb] in Hf. apply andb_true_iff in Hf as [Hf0 Hr].
  destruct Ht as [|t0 tr Ht0 Htr]; [reflexivity|]. destruct Hi as [|i0 ir Hi0 Hir]; [reflexivity|].
  cbn [combine map forallb fst snd]. rewrite (sw_member_ok f t0 i0 Hf0 Ht0 Hi0), (IH tr ir Hr Htr Hir). reflexivity.
Qed.

Lemma sw_struct_post rs :
  keychars (renamed (sid rs)) = true -> forallb c10_ident_ok (sgenerics rs) = true -> forallb (c10_field_ok CSW) (sfields rs) = true ->
  forallb c10_line_ok (scomments rs) = true -> c10_decmap_ok CSW (sdecs rs) = true ->
  spost (fun s => c10_sw_struct_ok s = true) (sw_struct_of uc cfg rs).
Proof.
  intros Hn Hg Hf Hd Hdm. unfold sw_struct_of. cbv zeta.
  eapply post_bind; [exact (post_mmapM _ _ _ _ (sw_field_texp_ok (sgenerics rs)) _ (forallb_Forall _ _ Hf))|]. intros tys Ptys.
  eapply post_bind; [exact (post_mmapM _ _ _ _ (sw_field_texp_ok (sgenerics rs)) _ (forallb_Forall _ _ Hf))|]. intros itys Pitys.
  apply post_ret. unfold c10_sw_struct_ok. cbn [sws_docs sws_name sws_generics sws_decs sws_members].
  rewrite (sw_docs_ok _ Hd), (sw_prefixed_key _ Hn), (sw_generic_constraints_ok _ _ Hdm Hg), (combine_members _ _ _ Hf Ptys Pitys). cbn [andb]. rewrite andb_true_r.
  destruct (sw_decs_get DKSwift (sdecs rs)) as [ds|] eqn:E; [|exact sw_default_decorators_raw].
  rewrite forallb_app, sw_default_decorators_raw. apply filter_all. exact (decmap_swift_raw _ _ Hdm E).
Qed.

Lemma ident_ok_app a b : c10_ident_ok a = true -> forallb c10_ident_char b = true -> c10_ident_ok (a ++ b) = true.
Proof.
  destruct a as [|c r]; [discriminate|]. unfold c10_ident_ok. cbn [app forallb]. rewrite !andb_true_iff. intros [Hc Hr] Hb.
  split; [exact Hc|]. rewrite forallb_app, Hr, Hb. reflexivity.
Qed.

Lemma sw_inner_post sh vs :
  c10_ident_ok (renamed (eid sh)) = true -> c10_ident_ok (original (eid sh)) = true -> forallb c10_ident_ok (egenerics sh) = true ->
  c10_decmap_ok CSW (edecs sh) = true -> forallb (c10_variant_ok CSW) vs = true ->
  spost (fun ss => forallb c10_sw_struct_ok ss = true) (sw_inner_structs_of uc cfg sh vs).
Proof.
  intros Hren Horig Hg Hdm. induction vs as [|v r IH]; intros Hv; cbn [sw_inner_structs_of]; [apply post_ret; reflexivity|].
  cbn [forallb] in Hv. apply andb_true_iff in Hv as [Hv0 Hr]. destruct v as [vsh | t vsh | fs vsh]; try exact (IH Hr).
  unfold c10_variant_ok in Hv0. cbn [variant_shared] in Hv0. rewrite !andb_true_iff in Hv0. destruct Hv0 as [[Hvid _] Hfs].
  unfold c10_member_id_ok in Hvid. apply andb_true_iff in Hvid as [Hvo _].
  eapply post_bind.
  - apply sw_struct_post; cbn [anon_struct sid sgenerics sfields scomments sdecs renamed].
    + unfold sw_make_anonymous_struct_name. apply ident_keychars. apply ident_ok_app; [exact Hren|]. rewrite forallb_app, (ident_ok_chars _ Hvo). reflexivity.
    + apply anon_struct_generics_ok, Hg.
    + exact Hfs.
    + cbn [forallb]. rewrite andb_true_r. apply docsafe_line.
      rewrite !forallb_app, (ident_docsafe _ (ident_ok_chars _ Hvo)), (ident_docsafe _ (ident_ok_chars _ Horig)). reflexivity.
    + exact Hdm.
  - intros s Ps. eapply post_bind; [exact (IH Hr)|]. intros ss Pss. apply post_ret. cbn [forallb]. rewrite Ps, Pss. reflexivity.
Qed.

Lemma camel_key s r : c10_ident_ok s = true -> to_camel_case s = Ok r -> keychars r = true.
Proof.
  intros H. unfold to_camel_case. pose proof (to_pascal_ident _ (ident_ok_chars _ H)) as Hp. destruct (to_pascal_case s) as [|c t]; [intros E; injection E as <-; reflexivity|].
  intros E. injection E as <-. cbn [forallb] in Hp. apply andb_true_iff in Hp as [Hc Ht].
  unfold keychars. cbn [forallb]. apply andb_true_iff. split.
  - pose proof (alower_ident c Hc) as Hl. revert Hl. unfold c10_ident_char, c10_key_char. lia.
  - revert Ht. apply forallb_impl. intros x. unfold c10_ident_char, c10_key_char. lia.
Qed.

Lemma sw_lift_post {A} (P : A -> Prop) (o : outcome A) : (forall a, o = Ok a -> P a) -> spost P (sw_lift o).
Proof. intros H s y s' E _. unfold sw_lift in E. destruct o; try discriminate. injection E as <- <-. auto. Qed.

Lemma raw_value_ok (name key : str) : c10_key_ok key = true ->
  match (if str_eqb name key then None else Some key) with Some w => nonnil w && c10_instr_ok w | None => true end = true.
Proof. intros H. destruct (str_eqb name key); [reflexivity|]. rewrite (key_instr _ H), andb_true_r. destruct key; [discriminate|reflexivity]. Qed.

Lemma sw_enum_post e : c10_item_ok CSW (ItEnum e) = true -> spost (fun d => c10_sw_enum_ok d = true) (sw_enum_of uc cfg e).
Proof.
  cbn [c10_item_ok]. rewrite !andb_true_iff. intros [[[[[Hid Hg] Hd] Hv] Hdm] Htc].
  unfold c10_type_id_ok in Hid. apply andb_true_iff in Hid as [Horig Hren].
  unfold sw_enum_of. cbv zeta.
  eapply post_bind; [exact (sw_inner_post _ _ Hren Horig Hg Hdm Hv)|]. intros inner Pin.
  eapply post_bind with (P := Forall (fun v => c10_sw_variant_ok v = true)).
  { destruct e as [sh | tag content sh]; cbn [enum_shared] in *.
    - eapply (post_mmapM _ _ (fun v => c10_variant_ok CSW v = true)); [|exact (forallb_Forall _ _ Hv)].
      intros v Hv0. unfold c10_variant_ok in Hv0. rewrite !andb_true_iff in Hv0. destruct Hv0 as [[Hvid Hvd] _].
      unfold c10_member_id_ok in Hvid. apply andb_true_iff in Hvid as [Hvo Hvr].
      unfold sw_unit_variant_of. cbv zeta. eapply post_bind; [apply (sw_lift_post (fun r => keychars r = true)); intros a Ea; exact (camel_key _ _ Hvo Ea)|].
      intros camel Pc.
      (* fix 31: `_` in front of a digit-initial camelCased name, as in the algebraic arm *)
      assert (Hname : keychars (match camel with c :: _ => if is_adigit c then lit "_" ++ camel else camel | [] => camel end) = true).
      { destruct camel as [|c r]; [reflexivity|]. destruct (is_adigit c); [|exact Pc]. unfold keychars in *. rewrite forallb_app, Pc. reflexivity. }
      apply post_ret. unfold c10_sw_variant_ok. cbn [swv_docs swv_name swv_raw swv_payload].
      rewrite (sw_docs_ok _ (docs_line_ok _ Hvd)), Hname. cbn [andb]. rewrite andb_true_r.
      rewrite str_eqb_sym. apply raw_value_ok, Hvr.
    - eapply (post_mmapM _ _ (fun v => c10_variant_ok CSW v = true)); [|exact (forallb_Forall _ _ Hv)].
      intros v Hv0. unfold c10_variant_ok in Hv0. rewrite !andb_true_iff in Hv0. destruct Hv0 as [[Hvid Hvd] Hp].
      unfold c10_member_id_ok in Hvid. apply andb_true_iff in Hvid as [Hvo Hvr].
      unfold sw_variant_of. cbv zeta. eapply post_bind; [apply (sw_lift_post (fun r => keychars r = true)); intros a Ea; exact (camel_key _ _ Hvo Ea)|].
      intros camel Pc.
      assert (Hname : keychars (match camel with c :: _ => if is_adigit c then lit "_" ++ camel else camel | [] => camel end) = true).
      { destruct camel as [|c r]; [reflexivity|]. destruct (is_adigit c); [|exact Pc]. unfold keychars in *. rewrite forallb_app, Pc. reflexivity. }
      eapply post_bind with (P := fun p => match p with
                                           | SWPUnit => True
                                           | SWPTuple ty esc _ => c10_sw_case_type_ok ty esc = true
                                           | SWPInner name gs => c10_tok_ok name && forallb c10_tok_ok gs = true
                                           end).
      { destruct v as [vsh | t vsh | fs vsh]; cbn [variant_shared] in *.
        - apply post_ret. exact I.
        - eapply post_bind; [exact (sw_texp_ok _ _ Hp)|]. intros ct Pct. apply post_ret. unfold c10_sw_case_type_ok. rewrite Pct. cbn [andb].
          destruct (sw_is_keyword (sw_show ct)) eqn:Ek; [cbn [implb]; exact (keyword_intick _ Ek)|reflexivity].
        - apply post_ret. rewrite (generics_tok _ (anon_struct_generics_ok _ _ Hg)), andb_true_r.
          apply keychars_tok, sw_prefixed_key. unfold sw_make_anonymous_struct_name. apply ident_keychars.
          apply ident_ok_app; [exact Hren|]. rewrite forallb_app, (ident_ok_chars _ Hvo). reflexivity. }
      intros payload Pp. apply post_ret. unfold c10_sw_variant_ok. cbn [swv_docs swv_name swv_raw swv_payload].
      rewrite (sw_docs_ok _ (docs_line_ok _ Hvd)), Hname, (raw_value_ok _ _ Hvr). cbn [andb]. destruct payload; auto. }
  intros vs Pvs. apply post_ret. unfold c10_sw_enum_ok. cbn [swe_inner swe_docs swe_name swe_generics swe_decs swe_tagged swe_variants].
  rewrite Pin, (sw_docs_ok _ (docs_line_ok _ Hd)), (sw_prefixed_key _ (ident_keychars _ Hren)), (sw_generic_constraints_ok _ _ Hdm Hg), (Forall_forallb _ _ Pvs).
  cbn [andb]. rewrite andb_true_r. apply andb_true_iff. split.
  - unfold sw_determine_decorators.
    assert (Hap : forallb (c10_raw_ok c10_lex_sw) (match e with EUnit _ => lit "String" :: sw_get_default_decorators cfg | EAlgebraic _ _ _ => sw_get_default_decorators cfg end) = true).
    { destruct e; [cbn [forallb]; rewrite sw_default_decorators_raw; reflexivity|exact sw_default_decorators_raw]. }
    rewrite forallb_app, Hap. cbn [andb]. destruct (sw_decs_get DKSwift (edecs (enum_shared e))) as [ds|] eqn:E; [|reflexivity].
    apply filter_all. exact (decmap_swift_raw _ _ Hdm E).
  - destruct e as [sh | tag content sh]; [reflexivity|]. apply andb_true_iff in Htc as [Ht Hc]. rewrite (key_tok _ Ht), (key_tok _ Hc). reflexivity.
Qed.

Lemma sw_decl_post it : c10_item_ok CSW it = true -> spost (fun d => c10_sw_decl_ok d = true) (sw_decl_of uc cfg it).
Proof.
  intros Hit. destruct it as [rs | e | a | c]; cbn [sw_decl_of].
  - cbn [c10_item_ok] in Hit. rewrite !andb_true_iff in Hit. destruct Hit as [[[[Hid Hg] Hf] Hdoc] Hdm].
    unfold c10_type_id_ok in Hid. apply andb_true_iff in Hid as [_ Hren].
    eapply post_bind; [exact (sw_struct_post rs (ident_keychars _ Hren) Hg Hf (docs_line_ok _ Hdoc) Hdm)|]. intros d Pd. apply post_ret. exact Pd.
  - eapply post_bind; [exact (sw_enum_post e Hit)|]. intros d Pd. apply post_ret. exact Pd.
  - cbn [c10_item_ok] in Hit. rewrite !andb_true_iff in Hit. destruct Hit as [[[[Hid Hg] Ht] Hd] _].
    unfold c10_type_id_ok in Hid. apply andb_true_iff in Hid as [_ Hren].
    eapply post_bind; [exact (sw_texp_ok _ _ Ht)|]. intros t Pt. apply post_ret. cbn [c10_sw_decl_ok].
    rewrite (sw_docs_ok _ (docs_line_ok _ Hd)), (sw_prefixed_key _ (ident_keychars _ Hren)), (generics_tok _ Hg), Pt. reflexivity.
  - apply post_fail.
Qed.

Lemma sw_begin_file_bal : bal c10_lex_sw (sw_begin_file cfg).
Proof.
  unfold sw_begin_file. destruct sw_cfg_parts as (_ & Hv & _). destruct (sw_no_version_header cfg).
  - intros st. walk. reflexivity.
  - pose proof (nostarslash_stay c10_lex_sw 0 _ (dotted_nostarslash _ Hv)) as H2. intros st. walk. reflexivity.
Qed.

Lemma sw_end_file_bal st : bal c10_lex_sw (sw_end_file cfg st).
Proof.
  unfold sw_end_file, sw_trailing_decls. destruct st; [|apply tr_nil]. cbn [flat_map]. rewrite app_nil_r.
  apply sw_render_decl_bal. unfold sw_codable_void. cbv zeta. cbn [c10_sw_decl_ok].
  destruct sw_cfg_parts as (_ & _ & _ & _ & _ & Hcv).
  assert (Hd : forallb (c10_raw_ok c10_lex_sw) (sw_get_default_decorators cfg ++ sw_codablevoid_constraints cfg) = true).
  { rewrite forallb_app, sw_default_decorators_raw, Hcv. reflexivity. }
  destruct (mem_str sw_CODABLE _); [exact Hd|]. rewrite forallb_app, Hd. reflexivity.
Qed.

Theorem sw_generate_balanced pd text : dom_C10 CSW pd = true -> sw_generate uc cfg pd = Ok text -> c10_balanced c10_lex_sw text = true.
Proof.
  intros Hdom H. unfold sw_generate in H. apply bind_ok in H as (items & Et & H).
  assert (Hitems : Forall (fun it => c10_item_ok CSW it = true) items).
  { apply forallb_Forall in Hdom. fold (items_of pd) in Hdom.
    eapply Permutation_Forall; [apply Permutation_sym, (topsort_ok_perm _ _ Et)|exact Hdom]. }
  destruct (mconcat (sw_write_item uc cfg) items false) as [[body st]| |] eqn:Em; try discriminate. injection H as <-.
  unfold mconcat in Em. apply mbind_ok in Em as (parts & s1 & Hp & Em). unfold ret in Em. injection Em as <- <-.
  assert (Hstep : forall it, c10_item_ok CSW it = true -> spost (fun t => bal c10_lex_sw t) (sw_write_item uc cfg it)).
  { intros it Hit. unfold sw_write_item. eapply post_bind; [exact (sw_decl_post it Hit)|]. intros d Pd. apply post_ret. apply sw_render_decl_bal, Pd. }
  destruct (post_mmapM _ _ _ _ Hstep items Hitems false parts s1 Hp I) as [Pparts _].
  apply bal_balanced. eapply tr_app; [apply sw_begin_file_bal|]. eapply tr_app; [apply tr_concat, Pparts|apply sw_end_file_bal].
Qed.
End SWDecide.
