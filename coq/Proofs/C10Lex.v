(* C10, the lexical half: lemmas about the lexers of Spec/C10Spec.v shared by the six back-end proofs.

   - the lexer is a fold: it distributes over ++ ([run_app]);
   - FRAME: a run that does not end in the error state never looks below the stack it started with
     ([run_frame]); hence a text that is c10_balanced on its own is a neutral fragment anywhere in code
     ([balanced_bal]) - this is what makes user-supplied verbatim text (type overrides, mapped types,
     decorators) a hole like any other: the hypothesis is that it is c10_balanced by itself;
   - [bal cfg t]: t is a neutral code fragment (from code mode with ANY stack back to code mode with
     the same stack); closed under ++, concat, flat_map, join, repeat;
   - holes: identifier-shaped names, keys, dotted names are neutral in code, inside "..", inside
     back-ticks, inside Go raw strings; a doc line is neutral inside a line comment, a TypeScript
     block comment, a Python triple-quoted string;
   - tactics: [lex_lit] computes the run over a closed literal fragment by vm_compute, [c10_lex_go]
     walks a renderer's ++ chain from left to right. *)
From Coq Require Import List Bool Lia ZifyBool ZifyN NArith.
From TS Require Import Model.Str Model.Lang.Decl Spec.C10Spec.
Import ListNotations.
Local Open Scope N_scope.
Local Notation length := List.length (only parsing).

Notation run := c10_lex_run.

Lemma run_app cfg s a b : run cfg s (a ++ b) = run cfg (run cfg s a) b.
Proof. apply fold_left_app. Qed.
Lemma run_nil cfg s : run cfg s [] = s.
Proof. reflexivity. Qed.
Lemma run_cons cfg s c t : run cfg s (c :: t) = run cfg (c10_lex_step cfg s c) t.
Proof. reflexivity. Qed.

Lemma run_err cfg st t : run cfg (C10LErr, st) t = (C10LErr, st).
Proof. induction t as [|c t IH]; [reflexivity|]. rewrite run_cons. exact IH. Qed.

(* ------------------------------------------------------------------ frame *)
Ltac frame_cases :=
  repeat match goal with
         | |- context [if ?b then _ else _] => destruct b
         | |- context [match ?x with _ => _ end] => destruct x
         end.

Lemma code_step_frame cfg s c ext m' s' :
  c10_code_step cfg s c = (m', s') -> m' <> C10LErr -> c10_code_step cfg (s ++ ext) c = (m', s' ++ ext).
Proof.
  unfold c10_code_step. destruct (c10_closer_of c).
  - intros H _. injection H as <- <-. reflexivity.
  - destruct (c10_is_closer c).
    + destruct s as [|k r]; cbn [app].
      * intros H Hne. injection H as <- _. congruence.
      * destruct (k =? c); intros H Hne; injection H as <- <-; [reflexivity|congruence].
    + frame_cases; intros H Hne; injection H as <- <-; try reflexivity; congruence.
Qed.

Lemma step_frame cfg m s c ext m' s' :
  c10_lex_step cfg (m, s) c = (m', s') -> m' <> C10LErr -> c10_lex_step cfg (m, s ++ ext) c = (m', s' ++ ext).
Proof.
  destruct m; cbn [c10_lex_step]; try (frame_cases; intros H Hne; injection H as <- <-; try reflexivity; congruence).
  - apply code_step_frame.
  - destruct (c =? c10_c_slash); [intros H _; injection H as <- <-; reflexivity|].
    destruct (c =? c10_c_star); [intros H _; injection H as <- <-; reflexivity|]. apply code_step_frame.
  - destruct (c =? q); [intros H _; injection H as <- <-; reflexivity|]. apply code_step_frame.
Qed.

Lemma lmode_eq_dec_err (m : c10_lmode) : {m = C10LErr} + {m <> C10LErr}.
Proof. destruct m; (left; reflexivity) || (right; discriminate). Defined.

Lemma run_frame cfg t : forall m s ext m' s',
  run cfg (m, s) t = (m', s') -> m' <> C10LErr -> run cfg (m, s ++ ext) t = (m', s' ++ ext).
Proof.
  induction t as [|c t IH]; intros m s ext m' s' H Hne.
  - cbn in *. injection H as <- <-. reflexivity.
  - rewrite run_cons in *. destruct (c10_lex_step cfg (m, s) c) as [m1 s1] eqn:E.
    destruct (lmode_eq_dec_err m1) as [->|Hm1].
    + rewrite run_err in H. injection H as <- _. congruence.
    + rewrite (step_frame _ _ _ _ ext _ _ E Hm1). eapply IH; eauto.
Qed.

(* ------------------------------------------------------------------ transformers *)
(* [tr cfg m t m']: the fragment t takes the lexer from mode m to mode m' with the bracket stack untouched,
   whatever the stack is.  [bal cfg t] = neutral in code. *)
Definition tr (cfg : c10_lexcfg) (m : c10_lmode) (t : str) (m' : c10_lmode) : Prop :=
  forall st, run cfg (m, st) t = (m', st).
Notation bal cfg t := (tr cfg C10LCode t C10LCode).

Lemma tr_nil cfg m : tr cfg m [] m.
Proof. intros st. reflexivity. Qed.
Lemma tr_app cfg m a m1 b m2 : tr cfg m a m1 -> tr cfg m1 b m2 -> tr cfg m (a ++ b) m2.
Proof. intros Ha Hb st. rewrite run_app, Ha, Hb. reflexivity. Qed.
Lemma tr_concat cfg m l : Forall (fun t => tr cfg m t m) l -> tr cfg m (List.concat l) m.
Proof. induction 1; cbn [List.concat]; [apply tr_nil|]. eapply tr_app; eauto. Qed.
Lemma tr_concat_map {A} cfg m (f : A -> str) l : Forall (fun x => tr cfg m (f x) m) l -> tr cfg m (List.concat (map f l)) m.
Proof. intros H. apply tr_concat. apply Forall_map. exact H. Qed.
Lemma tr_flat_map {A} cfg m (f : A -> str) l : Forall (fun x => tr cfg m (f x) m) l -> tr cfg m (flat_map f l) m.
Proof. induction 1; cbn [flat_map]; [apply tr_nil|]. eapply tr_app; eauto. Qed.
Lemma tr_join cfg m sep l : tr cfg m sep m -> Forall (fun t => tr cfg m t m) l -> tr cfg m (join sep l) m.
Proof.
  intros Hs H. induction H as [|x l Hx Hl IH]; [apply tr_nil|].
  destruct l as [|y r]; [exact Hx|]. change (join sep (x :: y :: r)) with (x ++ sep ++ join sep (y :: r)).
  eapply tr_app; [exact Hx|]. eapply tr_app; [exact Hs|exact IH].
Qed.
Lemma tr_join_map {A} cfg m sep (f : A -> str) l :
  tr cfg m sep m -> Forall (fun x => tr cfg m (f x) m) l -> tr cfg m (join sep (map f l)) m.
Proof. intros Hs H. apply tr_join; [exact Hs|]. apply Forall_map. exact H. Qed.
Lemma tr_repeat_str cfg m s n : tr cfg m s m -> tr cfg m (repeat_str s n) m.
Proof. intros H. induction n; cbn [repeat_str]; [apply tr_nil|]. eapply tr_app; eauto. Qed.

(* a text c10_balanced on its own is neutral anywhere in code (frame) *)
Lemma balanced_bal cfg t : c10_balanced cfg t = true -> bal cfg t.
Proof.
  unfold c10_balanced, c10_lex_init. intros H st.
  destruct (run cfg (C10LCode, []) t) as [m s] eqn:E.
  destruct m; cbn in H; try discriminate. destruct s; [|discriminate].
  exact (run_frame cfg t C10LCode [] st C10LCode [] E ltac:(discriminate)).
Qed.
Lemma bal_balanced cfg t : bal cfg t -> c10_balanced cfg t = true.
Proof. intros H. unfold c10_balanced, c10_lex_init. rewrite H. reflexivity. Qed.

(* ------------------------------------------------------------------ a finite case analysis on ASCII *)
Lemma below_128 (P : N -> bool) : forallb P (map N.of_nat (seq 0 128)) = true -> forall c, c < 128 -> P c = true.
Proof.
  intros H c Hc. rewrite forallb_forall in H. apply H.
  rewrite <- (N2Nat.id c). apply in_map. apply in_seq. lia.
Qed.

(* ------------------------------------------------------------------ neutral tokens *)
Ltac unfold_chars :=
  unfold c10_special, existsb, c10_c_lparen, c10_c_rparen, c10_c_lbrack, c10_c_rbrack, c10_c_lbrace, c10_c_rbrace, c10_c_tick, c10_c_slash, c10_c_star, c10_c_hash,
    ch_dq, ch_sq, ch_bs, ch_nl, ch_cr, ch_tab, ch_us, ch_dash, ch_sp in *.
Ltac kill_ifs :=
  repeat match goal with |- context [if ?b then _ else _] => let E := fresh in destruct b eqn:E; [lia|] end.

Lemma special_false_step cfg st c : c10_special c = false -> c10_code_step cfg st c = (C10LCode, st).
Proof.
  intros H. unfold c10_code_step, c10_closer_of, c10_is_closer. unfold_chars. kill_ifs. reflexivity.
Qed.

Lemma tok_bal cfg s : c10_tok_ok s = true -> bal cfg s.
Proof.
  unfold c10_tok_ok. intros H st. induction s as [|c r IH]; [reflexivity|].
  cbn [forallb] in H. apply andb_true_iff in H as [Hc Hr]. apply negb_true_iff in Hc.
  rewrite run_cons. cbn [c10_lex_step]. rewrite (special_false_step cfg st c Hc). exact (IH Hr).
Qed.

Lemma tok_ok_app a b : c10_tok_ok (a ++ b) = c10_tok_ok a && c10_tok_ok b.
Proof. apply forallb_app. Qed.

Lemma ident_char_not_special c : c10_ident_char c = true -> c10_special c = false.
Proof. unfold c10_ident_char, is_aalpha, is_alower, is_aupper, is_adigit. unfold_chars. lia. Qed.
Lemma key_char_not_special c : c10_key_char c = true -> c10_special c = false.
Proof. unfold c10_key_char, is_aalpha, is_alower, is_aupper, is_adigit. unfold_chars. lia. Qed.
Lemma dotted_char_not_special c : c10_dotted_char c = true -> c10_special c = false.
Proof. unfold c10_dotted_char, c10_key_char, is_aalpha, is_alower, is_aupper, is_adigit. unfold_chars. lia. Qed.

Lemma forallb_impl {A} (p q : A -> bool) l : (forall x, p x = true -> q x = true) -> forallb p l = true -> forallb q l = true.
Proof. intros H. induction l; cbn; [auto|]. rewrite !andb_true_iff. intros [? ?]. auto. Qed.

Lemma ident_tok s : c10_ident_ok s = true -> c10_tok_ok s = true.
Proof.
  destruct s as [|c r]; [discriminate|]. unfold c10_ident_ok, c10_tok_ok. cbn [forallb]. rewrite !andb_true_iff. intros [Hc Hr]. split.
  - apply negb_true_iff, ident_char_not_special. unfold c10_ident_start, c10_ident_char in *. lia.
  - revert Hr. apply forallb_impl. intros x Hx. apply negb_true_iff, ident_char_not_special, Hx.
Qed.
Lemma key_tok s : c10_key_ok s = true -> c10_tok_ok s = true.
Proof.
  destruct s as [|c r]; [discriminate|]. unfold c10_key_ok, c10_tok_ok.
  apply forallb_impl. intros x Hx. apply negb_true_iff, key_char_not_special, Hx.
Qed.
Lemma dotted_tok s : c10_dotted_ok s = true -> c10_tok_ok s = true.
Proof. unfold c10_dotted_ok, c10_tok_ok. apply forallb_impl. intros x Hx. apply negb_true_iff, dotted_char_not_special, Hx. Qed.

(* decimal numerals *)
Lemma dec_fuel_tok fuel : forall n acc, c10_tok_ok acc = true -> c10_tok_ok (dec_fuel fuel n acc) = true.
Proof.
  induction fuel as [|f IH]; intros n acc Ha; cbn [dec_fuel]; [exact Ha|].
  assert (Hd : c10_tok_ok ((48 + n mod 10) :: acc) = true).
  { unfold c10_tok_ok in *. cbn [forallb]. rewrite Ha, andb_true_r. apply negb_true_iff.
    assert (n mod 10 < 10) by (apply N.mod_lt; lia). unfold_chars. lia. }
  destruct (n / 10 =? 0); [exact Hd|]. apply IH. exact Hd.
Qed.
Lemma dec_of_Z_tok z : c10_tok_ok (dec_of_Z z) = true.
Proof.
  destruct z; cbn [dec_of_Z]; try reflexivity; unfold dec_of_N.
  - apply dec_fuel_tok. reflexivity.
  - change (c10_tok_ok (45 :: dec_fuel 60 (N.pos p) [])) with (negb (c10_special 45) && c10_tok_ok (dec_fuel 60 (N.pos p) [])).
    rewrite dec_fuel_tok; reflexivity.
Qed.

(* ------------------------------------------------------------------ holes inside literals and comments *)
(* unescaped text inside "..." *)
Lemma instr_stay cfg s : c10_instr_ok s = true -> tr cfg (C10LStr ch_dq) s (C10LStr ch_dq).
Proof.
  unfold c10_instr_ok. intros H st. induction s as [|c r IH]; [reflexivity|].
  cbn [forallb] in H. apply andb_true_iff in H as [Hc Hr]. rewrite run_cons.
  replace (c10_lex_step cfg (C10LStr ch_dq, st) c) with (C10LStr ch_dq, st); [exact (IH Hr)|].
  cbn [c10_lex_step]. unfold c10_is_line_end. unfold_chars. kill_ifs. reflexivity.
Qed.
(* ... when the opening quote was the previous character (triple-quote languages): a non-empty text *)
Lemma instr_q1 cfg s : s <> [] -> c10_instr_ok s = true -> tr cfg (C10LQ1 ch_dq) s (C10LStr ch_dq).
Proof.
  destruct s as [|c r]; [congruence|]. intros _ H st. unfold c10_instr_ok in H. cbn [forallb] in H.
  apply andb_true_iff in H as [Hc Hr]. rewrite run_cons.
  replace (c10_lex_step cfg (C10LQ1 ch_dq, st) c) with (C10LStr ch_dq, st); [exact (instr_stay cfg r Hr st)|].
  cbn [c10_lex_step]. unfold c10_is_line_end. unfold_chars. kill_ifs. reflexivity.
Qed.
Lemma key_chars_instr s : forallb c10_key_char s = true -> c10_instr_ok s = true.
Proof.
  unfold c10_instr_ok. apply forallb_impl. intros c. unfold c10_key_char, is_aalpha, is_alower, is_aupper, is_adigit. unfold_chars. lia.
Qed.

(* text inside back-ticks *)
Lemma intick_stay_raw cfg s : c10_intick_ok s = true -> tr cfg C10LRaw s C10LRaw.
Proof.
  unfold c10_intick_ok. intros H st. induction s as [|c r IH]; [reflexivity|].
  cbn [forallb] in H. apply andb_true_iff in H as [Hc Hr]. rewrite run_cons.
  replace (c10_lex_step cfg (C10LRaw, st) c) with (C10LRaw, st); [exact (IH Hr)|].
  cbn [c10_lex_step]. unfold_chars. kill_ifs. reflexivity.
Qed.
Lemma intick_stay_tick cfg s : c10_intick_ok s = true -> tr cfg C10LTick s C10LTick.
Proof.
  unfold c10_intick_ok. intros H st. induction s as [|c r IH]; [reflexivity|].
  cbn [forallb] in H. apply andb_true_iff in H as [Hc Hr]. rewrite run_cons.
  replace (c10_lex_step cfg (C10LTick, st) c) with (C10LTick, st); [exact (IH Hr)|].
  cbn [c10_lex_step]. unfold c10_is_line_end. unfold_chars. kill_ifs. reflexivity.
Qed.

(* a line of text inside a line comment *)
Definition c10_line_ok (s : str) : bool := forallb (fun c => negb ((c =? ch_nl) || (c =? ch_cr))) s.
Lemma line_stay cfg s : c10_line_ok s = true -> tr cfg C10LLine s C10LLine.
Proof.
  unfold c10_line_ok. intros H st. induction s as [|c r IH]; [reflexivity|].
  cbn [forallb] in H. apply andb_true_iff in H as [Hc Hr]. rewrite run_cons.
  replace (c10_lex_step cfg (C10LLine, st) c) with (C10LLine, st); [exact (IH Hr)|].
  cbn [c10_lex_step]. unfold c10_is_line_end. unfold_chars. kill_ifs. reflexivity.
Qed.
Lemma doc_line_ok s : c10_doc_ok s = true -> c10_line_ok s = true.
Proof.
  unfold c10_doc_ok, c10_line_ok. rewrite !andb_true_iff. intros [[[H _] _] _]. revert H. apply forallb_impl.
  intros c. lia.
Qed.

(* {:?} of ANY string is a complete single-line literal *)
Definition esc_chk (cfg : c10_lexcfg) (c : char) : bool :=
  match run cfg (C10LStr ch_dq, []) (escape_debug_char c) with (C10LStr q, []) => q =? ch_dq | _ => false end.
Lemma esc_chk_ascii cfg c : c < 128 -> esc_chk cfg c = true.
Proof.
  destruct cfg as [a b c0 d e f g]. revert c. destruct g; apply below_128; vm_compute; reflexivity.
Qed.
Lemma esc_char_stay cfg c : tr cfg (C10LStr ch_dq) (escape_debug_char c) (C10LStr ch_dq).
Proof.
  intros st. destruct (N.ltb_spec c 128) as [Hlt|Hge].
  - pose proof (esc_chk_ascii cfg c Hlt) as H. unfold esc_chk in H.
    destruct (run cfg (C10LStr ch_dq, []) (escape_debug_char c)) as [m s] eqn:E.
    destruct m; try discriminate. destruct s; [|discriminate]. apply N.eqb_eq in H. subst q.
    exact (run_frame cfg _ _ [] st _ [] E ltac:(discriminate)).
  - unfold escape_debug_char. unfold_chars. kill_ifs.
    rewrite run_cons, run_nil. cbn [c10_lex_step]. unfold c10_is_line_end. unfold_chars. kill_ifs. reflexivity.
Qed.
Lemma esc_stay cfg s : tr cfg (C10LStr ch_dq) (flat_map escape_debug_char s) (C10LStr ch_dq).
Proof. apply tr_flat_map. apply Forall_forall. intros c _. apply esc_char_stay. Qed.

(* in a language without triple quotes the opening quote leads straight into the literal *)
Lemma debug_str_bal cfg s : c10_lc_triple cfg = false -> bal cfg (debug_str s).
Proof.
  intros Ht st. unfold debug_str. rewrite !run_app.
  assert (E1 : run cfg (C10LCode, st) [ch_dq] = (C10LStr ch_dq, st)).
  { rewrite run_cons, run_nil. cbn [c10_lex_step]. unfold c10_code_step. cbn. rewrite Ht. reflexivity. }
  rewrite E1, (esc_stay cfg s st). rewrite run_cons, run_nil. cbn [c10_lex_step]. rewrite N.eqb_refl. reflexivity.
Qed.
(* with triple quotes: a non-empty string *)
Lemma escape_debug_char_first c : exists x r, escape_debug_char c = x :: r /\ x <> ch_dq /\ x <> ch_nl /\ x <> ch_cr.
Proof.
  unfold escape_debug_char. unfold_chars.
  repeat match goal with |- context [if ?b then _ else _] => let E := fresh in destruct b eqn:E; [eexists; eexists; split; [reflexivity|lia]|] end.
  eexists; eexists; split; [reflexivity|lia].
Qed.
Lemma debug_str_bal_triple cfg s : s <> [] -> bal cfg (debug_str s).
Proof.
  intros Hne st. destruct (c10_lc_triple cfg) eqn:Ht; [|apply debug_str_bal; exact Ht].
  destruct s as [|c r]; [congruence|]. unfold debug_str. cbn [flat_map]. rewrite !run_app.
  assert (E1 : run cfg (C10LCode, st) [ch_dq] = (C10LQ1 ch_dq, st)).
  { rewrite run_cons, run_nil. cbn [c10_lex_step]. unfold c10_code_step. cbn. rewrite Ht. reflexivity. }
  rewrite E1.
  assert (E2 : run cfg (C10LQ1 ch_dq, st) (escape_debug_char c) = (C10LStr ch_dq, st)).
  { destruct (escape_debug_char_first c) as (x & t & Ex & Hx1 & Hx2 & Hx3).
    pose proof (esc_char_stay cfg c st) as Hs. rewrite Ex in *. rewrite run_cons in *.
    replace (c10_lex_step cfg (C10LQ1 ch_dq, st) x) with (c10_lex_step cfg (C10LStr ch_dq, st) x); [exact Hs|].
    cbn [c10_lex_step]. destruct (x =? ch_dq) eqn:E; [lia|]. reflexivity. }
  rewrite E2, (esc_stay cfg r st). rewrite run_cons, run_nil. cbn [c10_lex_step]. rewrite N.eqb_refl. reflexivity.
Qed.

(* ------------------------------------------------------------------ target type expressions *)
Section TexpInd.
  Variable P : texp -> Prop.
  Hypothesis HN : forall n args, Forall P args -> P (XName n args).
  Hypothesis HS : forall e, P e -> P (XSeq e).
  Hypothesis HF : forall es, Forall P es -> P (XFixed es).
  Hypothesis HM : forall k v, P k -> P v -> P (XMap k v).
  Hypothesis HO : forall e, P e -> P (XOpt e).
  Hypothesis HR : forall t, P (XRaw t).
  Fixpoint texp_ind' (x : texp) : P x :=
    let go := fix go (l : list texp) : Forall P l :=
                match l with [] => Forall_nil P | y :: r => Forall_cons y (texp_ind' y) (go r) end in
    match x with
    | XName n args => HN n args (go args)
    | XSeq e => HS e (texp_ind' e)
    | XFixed es => HF es (go es)
    | XMap k v => HM k v (texp_ind' k) (texp_ind' v)
    | XOpt e => HO e (texp_ind' e)
    | XRaw t => HR t
    end.
End TexpInd.

Lemma Forall_forallb_imp {A} (p : A -> bool) (Q : A -> Prop) l :
  Forall (fun x => p x = true -> Q x) l -> forallb p l = true -> Forall Q l.
Proof. induction 1; cbn; [constructor|]. rewrite andb_true_iff. intros [? ?]. constructor; auto. Qed.
Lemma forallb_Forall {A} (p : A -> bool) l : forallb p l = true -> Forall (fun x => p x = true) l.
Proof. intros H. apply Forall_forall. apply forallb_forall. exact H. Qed.

(* ------------------------------------------------------------------ tactics *)
(* compute the run over a closed literal fragment *)
Ltac lit_step :=
  match goal with
  | |- context [run ?cfg (?m, ?st) ?t] =>
    let r := eval vm_compute in (run cfg (m, st) t) in
    match r with
    | (_, _) =>
      let H := fresh "Hlit" in
      assert (H : run cfg (m, st) t = r) by (vm_compute; reflexivity);
      rewrite H; clear H
    end
  end.
(* use a hypothesis about a hole *)
Ltac hole_step :=
  match goal with
  | H : tr ?cfg ?m ?t ?m' |- context [run ?cfg (?m, ?st) ?t] => rewrite (H st)
  | H : tr ?cfg ?m ?t ?m' |- context [run ?cfg (?m2, ?st) ?t] =>
    let E := fresh "Ehole" in assert (E : run cfg (m2, st) t = (m', st)) by exact (H st); rewrite E; clear E
  end.
(* a literal character in front of a hole (after cbn turned  lit ".." ++ x  into conses) *)
Ltac cons_step :=
  match goal with
  | |- context [run ?cfg (?m, ?st) (?c :: ?t)] =>
    let r := eval vm_compute in (c10_lex_step cfg (m, st) c) in
    match r with
    | (_, _) => change (run cfg (m, st) (c :: t)) with (run cfg r t)
    end
  end.
Ltac walk := repeat first [ rewrite run_app | hole_step | lit_step | cons_step ].
Ltac split_ifs := repeat match goal with |- context [if ?b then _ else _] => destruct b end.
